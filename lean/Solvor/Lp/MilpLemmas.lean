import Solvor.Lp.Lemmas
import Mathlib.Data.List.GetD
import Mathlib.Data.List.Forall2
import Mathlib.Data.List.Perm.Subperm
import Solvor.Lp.Binary
/-! Lp: helper lemmas for C04 (`roundDist`, fixing rows, certified box, assignments, fold-min). -/
namespace Solvor.Lp
open Finset

/-! ### distance to the nearest integer -/

theorem roundDist_le_abs (v : ℚ) (z : ℤ) : roundDist v ≤ |v - z| := by
  have h1 : ((v.floor : ℤ) : ℚ) ≤ v := Rat.floor_le v
  have h2 : v < ((v.floor + 1 : ℤ) : ℚ) := Rat.lt_floor_add_one v
  push_cast at h2
  unfold roundDist
  simp only []
  rcases le_or_gt z v.floor with hz | hz
  · have hz' : (z : ℚ) ≤ (v.floor : ℚ) := by exact_mod_cast hz
    have : v - (v.floor : ℚ) ≤ |v - z| := by
      rw [abs_of_nonneg (by linarith)]; linarith
    split <;> linarith
  · have hz' : ((v.floor : ℤ) : ℚ) + 1 ≤ (z : ℚ) := by exact_mod_cast hz
    have : 1 - (v - (v.floor : ℚ)) ≤ |v - z| := by
      rw [abs_of_nonpos (by linarith)]; linarith
    split <;> linarith

theorem roundDist_attained (v : ℚ) : ∃ z : ℤ, |v - z| = roundDist v := by
  have h1 : ((v.floor : ℤ) : ℚ) ≤ v := Rat.floor_le v
  have h2 : v < ((v.floor + 1 : ℤ) : ℚ) := Rat.lt_floor_add_one v
  push_cast at h2
  unfold roundDist
  simp only []
  split
  · exact ⟨v.floor, by rw [abs_of_nonneg (by linarith)]⟩
  · refine ⟨v.floor + 1, ?_⟩
    push_cast
    rw [abs_of_nonpos (by linarith)]; ring

theorem roundDist_le_iff (v eps : ℚ) : roundDist v ≤ eps ↔ ∃ z : ℤ, |v - z| ≤ eps := by
  constructor
  · intro h; obtain ⟨z, hz⟩ := roundDist_attained v; exact ⟨z, by rw [hz]; exact h⟩
  · rintro ⟨z, hz⟩; exact le_trans (roundDist_le_abs v z) hz

/-! ### feasibility with natural-number indices, rows appended to a problem -/

/-- `Feasible` with `ℕ`-indexed vectors (only entries `< n` matter) -/
def FeasN (P : LP) (x : ℕ → ℚ) : Prop :=
  (∀ j < P.n, 0 ≤ x j) ∧ ∀ i < P.m, sumTo P.n (fun j => P.a i j * x j) ≤ vget P.b i

def extN {n : ℕ} (x : Fin n → ℚ) : ℕ → ℚ := fun j => if h : j < n then x ⟨j, h⟩ else 0

theorem extN_fin {n : ℕ} (x : Fin n → ℚ) (j : Fin n) : extN x j = x j := by
  unfold extN; simp

theorem sumTo_congr {n : ℕ} {f g : ℕ → ℚ} (h : ∀ k < n, f k = g k) : sumTo n f = sumTo n g := by
  induction n with
  | zero => rfl
  | succ k ih =>
    simp only [sumTo]
    rw [ih (fun j hj => h j (Nat.lt_succ_of_lt hj)), h k (Nat.lt_succ_self k)]

theorem feasible_iff_feasN (P : LP) (x : Fin P.n → ℚ) : P.toF.Feasible x ↔ FeasN P (extN x) := by
  unfold LPF.Feasible FeasN
  have e : ∀ i : ℕ, sumTo P.n (fun j => P.a i j * extN x j) = ∑ j : Fin P.n, P.a i j * x j := by
    intro i; rw [sumTo_eq_sum]
    exact Finset.sum_congr rfl fun j _ => by rw [extN_fin]
  constructor
  · rintro ⟨h1, h2⟩
    refine ⟨fun j hj => ?_, fun i hi => ?_⟩
    · have := h1 ⟨j, hj⟩; rwa [← extN_fin x ⟨j, hj⟩] at this
    · rw [e]; exact h2 ⟨i, hi⟩
  · rintro ⟨h1, h2⟩
    refine ⟨fun j => ?_, fun i => ?_⟩
    · have := h1 j j.isLt; rwa [extN_fin] at this
    · have := h2 i i.isLt; rw [e] at this; exact this

/-- the row condition `row · x ≤ rhs` -/
def rowLe (n : ℕ) (x : ℕ → ℚ) (p : List ℚ × ℚ) : Prop := sumTo n (fun j => p.1.getD j 0 * x j) ≤ p.2

theorem forall_getD_iff {α : Type} (l : List α) (d : α) (Q : α → Prop) :
    (∀ k < l.length, Q (l.getD k d)) ↔ ∀ p ∈ l, Q p := by
  constructor
  · intro h p hp
    obtain ⟨k, hk, rfl⟩ := List.mem_iff_getElem.mp hp
    have := h k hk; rwa [List.getD_eq_getElem _ _ hk] at this
  · intro h k hk
    rw [List.getD_eq_getElem _ _ hk]; exact h _ (List.getElem_mem hk)

theorem feasN_append (P : LP) (F : List (List ℚ × ℚ)) (hwf : P.A.length = P.b.length) (x : ℕ → ℚ) :
    FeasN ⟨P.A ++ F.map (·.1), P.b ++ F.map (·.2), P.c⟩ x ↔ FeasN P x ∧ ∀ p ∈ F, rowLe P.n x p := by
  rw [← forall_getD_iff F ([], 0) (rowLe P.n x)]
  unfold FeasN
  have hm : (⟨P.A ++ F.map (·.1), P.b ++ F.map (·.2), P.c⟩ : LP).m = P.m + F.length := by
    simp [LP.m]
  have hn : (⟨P.A ++ F.map (·.1), P.b ++ F.map (·.2), P.c⟩ : LP).n = P.n := rfl
  rw [hm, hn]
  have lo : ∀ i < P.m, ∀ j,
      (⟨P.A ++ F.map (·.1), P.b ++ F.map (·.2), P.c⟩ : LP).a i j = P.a i j := by
    intro i hi j
    simp only [LP.a]
    rw [List.getD_append _ _ _ _ (by rw [hwf]; exact hi)]
  have lob : ∀ i < P.m, vget (P.b ++ F.map (·.2)) i = vget P.b i := by
    intro i hi; simp only [vget]; rw [List.getD_append _ _ _ _ hi]
  have hi' : ∀ k, k < F.length → ∀ j,
      (⟨P.A ++ F.map (·.1), P.b ++ F.map (·.2), P.c⟩ : LP).a (P.m + k) j = (F.getD k ([], 0)).1.getD j 0 := by
    intro k _ j
    simp only [LP.a]
    rw [List.getD_append_right _ _ _ _ (by rw [hwf]; exact Nat.le_add_right _ _)]
    have : P.m + k - P.A.length = k := by rw [hwf]; simp [LP.m]
    rw [this]
    have := List.getD_map (l := F) (d := (([], 0) : List ℚ × ℚ)) (n := k) (fun p => p.1)
    simp only [] at this
    rw [this]
  have hib : ∀ k, k < F.length → vget (P.b ++ F.map (·.2)) (P.m + k) = (F.getD k ([], 0)).2 := by
    intro k _
    simp only [vget, LP.m]
    rw [List.getD_append_right _ _ _ _ (Nat.le_add_right _ _)]
    have : P.b.length + k - P.b.length = k := by simp
    rw [this]
    have := List.getD_map (l := F) (d := (([], 0) : List ℚ × ℚ)) (n := k) (fun p => p.2)
    simp only [] at this
    rw [this]
  constructor
  · rintro ⟨h1, h2⟩
    refine ⟨⟨h1, fun i hi => ?_⟩, fun k hk => ?_⟩
    · have := h2 i (by omega)
      rw [sumTo_congr (fun j _ => by rw [lo i hi j]), lob i hi] at this
      exact this
    · have := h2 (P.m + k) (by omega)
      rw [sumTo_congr (fun j _ => by rw [hi' k hk j]), hib k hk] at this
      exact this
  · rintro ⟨⟨h1, h2⟩, h3⟩
    refine ⟨h1, fun i hi => ?_⟩
    by_cases hlt : i < P.m
    · rw [sumTo_congr (fun j _ => by rw [lo i hlt j]), lob i hlt]; exact h2 i hlt
    · obtain ⟨k, rfl⟩ : ∃ k, i = P.m + k := ⟨i - P.m, by omega⟩
      have hk : k < F.length := by omega
      rw [sumTo_congr (fun j _ => by rw [hi' k hk j]), hib k hk]; exact h3 k hk

/-! ### the fixing rows -/

theorem getD_unitV (n j k : ℕ) (hk : k < n) : (unitV n j).getD k 0 = if k = j then 1 else 0 := by
  unfold unitV
  rw [List.getD_eq_getElem?_getD, List.getElem?_map, List.getElem?_range hk]
  rfl

theorem getD_negV (l : List ℚ) (k : ℕ) : (negV l).getD k 0 = -(l.getD k 0) := by
  unfold negV
  have := List.getD_map (l := l) (d := (0 : ℚ)) (n := k) (fun t => -t)
  simp only [neg_zero] at this
  exact this

theorem sumTo_unit (n j : ℕ) (x : ℕ → ℚ) (hj : j < n) :
    sumTo n (fun k => (unitV n j).getD k 0 * x k) = x j := by
  rw [sumTo_congr (g := fun k => (if k = j then (1 : ℚ) else 0) * x k)
    (fun k hk => by rw [getD_unitV n j k hk])]
  rw [sumTo_eq_sum, Finset.sum_eq_single (⟨j, hj⟩ : Fin n)]
  · simp
  · intro b _ hb
    have : (b : ℕ) ≠ j := fun h => hb (Fin.ext h)
    simp [this]
  · intro h; exact absurd (Finset.mem_univ _) h

theorem sumTo_neg (n : ℕ) (f : ℕ → ℚ) : sumTo n (fun k => -f k) = -sumTo n f := by
  induction n with
  | zero => simp [sumTo]
  | succ k ih => simp only [sumTo, ih]; ring

theorem rowLe_unit (n j : ℕ) (hj : j < n) (x : ℕ → ℚ) (v : ℚ) :
    rowLe n x (unitV n j, v) ↔ x j ≤ v := by
  unfold rowLe; simp only []; rw [sumTo_unit n j x hj]

theorem rowLe_negUnit (n j : ℕ) (hj : j < n) (x : ℕ → ℚ) (v : ℚ) :
    rowLe n x (negV (unitV n j), -v) ↔ v ≤ x j := by
  unfold rowLe; simp only []
  rw [sumTo_congr (g := fun k => -((unitV n j).getD k 0 * x k))
    (fun k _ => by rw [getD_negV]; ring), sumTo_neg, sumTo_unit n j x hj]
  exact neg_le_neg_iff

theorem fixPairs_forall (n : ℕ) (x : ℕ → ℚ) : ∀ (ints : List ℕ) (a : List ℤ),
    ints.length = a.length → (∀ j ∈ ints, j < n) →
    ((∀ p ∈ fixPairs n ints a, rowLe n x p) ↔ List.Forall₂ (fun j (v : ℤ) => x j = (v : ℚ)) ints a)
  | [], [], _, _ => by simp [fixPairs]
  | [], _ :: _, h, _ => by simp at h
  | _ :: _, [], h, _ => by simp at h
  | j :: js, v :: vs, h, hj => by
    have hjn : j < n := hj j List.mem_cons_self
    have ih := fixPairs_forall n x js vs (by simpa using h)
      (fun k hk => hj k (List.mem_cons_of_mem _ hk))
    simp only [fixPairs, List.forall_mem_cons, List.forall₂_cons]
    rw [rowLe_unit n j hjn, rowLe_negUnit n j hjn, ih]
    constructor
    · rintro ⟨h1, h2, h3⟩; exact ⟨le_antisymm h1 h2, h3⟩
    · rintro ⟨h1, h3⟩; exact ⟨h1.le, h1.ge, h3⟩

theorem feasN_fix (P : LP) (hwf : P.A.length = P.b.length) (ints : List ℕ) (a : List ℤ)
    (hlen : ints.length = a.length) (hints : ∀ j ∈ ints, j < P.n) (x : ℕ → ℚ) :
    FeasN (P.fix ints a) x ↔ FeasN P x ∧ List.Forall₂ (fun j (v : ℤ) => x j = (v : ℚ)) ints a := by
  unfold LP.fix
  rw [feasN_append P _ hwf x, fixPairs_forall P.n x ints a hlen hints]

/-! ### the certified box -/

theorem boxOk_sound (P : LP) (j u : ℕ) (y : Vec) (h : boxOk P j u y = true) (x : Fin P.n → ℚ)
    (hx : P.toF.Feasible x) (z : ℤ) (hz : extN x j = (z : ℚ)) : 0 ≤ z ∧ z ≤ (u : ℤ) := by
  unfold boxOk at h
  simp only [Bool.and_eq_true, allTo_iff, decide_eq_true_eq] at h
  obtain ⟨⟨⟨hj, hy⟩, hd⟩, hfl⟩ := h
  let jf : Fin P.n := ⟨j, hj⟩
  have hxj : x jf = (z : ℚ) := by rw [← hz]; exact (extN_fin x jf).symm
  constructor
  · have := hx.1 jf; rw [hxj] at this; exact_mod_cast this
  · let Q : LPF P.m P.n := ⟨P.toF.A, P.toF.b, fun k => if k = jf then -1 else 0⟩
    have hQ : Q.Feasible x := hx
    have hdual : ∀ k, 0 ≤ Q.c k + ∑ i, vecF P.m y i * Q.A i k := by
      intro k
      have := hd k
      rw [colDot_eq] at this
      show 0 ≤ (if k = jf then (-1 : ℚ) else 0) + ∑ i, vecF P.m y i * P.toF.A i k
      by_cases hk : k = jf
      · have hk' : (k : ℕ) = j := by rw [hk]
        rw [if_pos hk]; rw [if_pos hk'] at this; linarith
      · have hk' : (k : ℕ) ≠ j := fun e => hk (Fin.ext e)
        rw [if_neg hk]; rw [if_neg hk'] at this; linarith
    have wd := weak_duality Q x (vecF P.m y) hQ hy hdual
    have hobj : Q.obj x = -x jf := by
      show ∑ k, (if k = jf then (-1 : ℚ) else 0) * x k = -x jf
      rw [Finset.sum_eq_single jf]
      · simp
      · intro b _ hb; simp [hb]
      · intro h; exact absurd (Finset.mem_univ _) h
    have hr : ∑ i, vecF P.m y i * Q.b i = P.rhsDot y := (rhsDot_eq P y).symm
    rw [hobj, hr, hxj] at wd
    have h1 : (z : ℚ) ≤ P.rhsDot y := by linarith
    exact le_trans (Rat.le_floor_iff.mpr h1) hfl

/-- an accepted box bounds every integer-feasible point: its integer coordinates are integers
between `0` and the box. -/
theorem chkBox_sound (P : LP) (x : Fin P.n → ℚ) (hx : P.toF.Feasible x) :
    ∀ (ints ub : List ℕ) (ys : List Vec), chkBox P ints ub ys = true →
      (∀ j ∈ ints, ∃ z : ℤ, extN x j = (z : ℚ)) →
      ∃ a : List ℤ, List.Forall₂ (fun j (v : ℤ) => extN x j = (v : ℚ)) ints a ∧
        List.Forall₂ (fun (v : ℤ) (u : ℕ) => 0 ≤ v ∧ v ≤ (u : ℤ)) a ub
  | [], [], [], _, _ => ⟨[], List.Forall₂.nil, List.Forall₂.nil⟩
  | j :: js, u :: us, y :: ys, h, hint => by
    simp only [chkBox, Bool.and_eq_true] at h
    obtain ⟨z, hz⟩ := hint j List.mem_cons_self
    obtain ⟨a, ha1, ha2⟩ := chkBox_sound P x hx js us ys h.2
      (fun k hk => hint k (List.mem_cons_of_mem _ hk))
    exact ⟨z :: a, List.Forall₂.cons hz ha1, List.Forall₂.cons (boxOk_sound P j u y h.1 x hx z hz) ha2⟩
  | [], [], _ :: _, h, _ => by simp [chkBox] at h
  | [], _ :: _, _, h, _ => by simp [chkBox] at h
  | _ :: _, [], _, h, _ => by simp [chkBox] at h
  | _ :: _, _ :: _, [], h, _ => by simp [chkBox] at h

theorem chkBox_length (P : LP) : ∀ (ints ub : List ℕ) (ys : List Vec), chkBox P ints ub ys = true →
    ints.length = ub.length
  | [], [], [], _ => rfl
  | j :: js, u :: us, y :: ys, h => by
    simp only [chkBox, Bool.and_eq_true] at h
    simp [chkBox_length P js us ys h.2]
  | [], [], _ :: _, h => by simp [chkBox] at h
  | [], _ :: _, _, h => by simp [chkBox] at h
  | _ :: _, [], _, h => by simp [chkBox] at h
  | _ :: _, _ :: _, [], h => by simp [chkBox] at h

/-! ### assignments of the box -/

theorem mem_assignments : ∀ (a : List ℤ) (ub : List ℕ),
    List.Forall₂ (fun (v : ℤ) (u : ℕ) => 0 ≤ v ∧ v ≤ (u : ℤ)) a ub → a ∈ assignments ub
  | [], [], _ => by simp [assignments]
  | v :: vs, u :: us, h => by
    rw [List.forall₂_cons] at h
    obtain ⟨⟨h0, h1⟩, ht⟩ := h
    have ih := mem_assignments vs us ht
    simp only [assignments, List.mem_flatMap, List.mem_range, List.mem_map]
    refine ⟨v.toNat, by omega, vs, ih, ?_⟩
    rw [Int.toNat_of_nonneg h0]
  | [], _ :: _, h => by cases h
  | _ :: _, [], h => by cases h

theorem assignments_length : ∀ (ub : List ℕ) (a : List ℤ), a ∈ assignments ub → a.length = ub.length
  | [], a, h => by simp [assignments] at h; simp [h]
  | u :: us, a, h => by
    simp only [assignments, List.mem_flatMap, List.mem_range, List.mem_map] at h
    obtain ⟨v, _, r, hr, rfl⟩ := h
    simp [assignments_length us r hr]

/-! ### least objective over the OPTIMAL runs -/

theorem foldl_best (P : LP) : ∀ (l : List (List ℤ × LpOut)) (init : Option (ℚ × Vec)),
    (match List.foldl (bestStep P) init l with
     | none => init = none ∧ ∀ r ∈ l, r.2.status ≠ .OPTIMAL
     | some (v, x) =>
        ((init = some (v, x)) ∨ ∃ r ∈ l, r.2.status = .OPTIMAL ∧ x = r.2.x ∧ v = P.objAt r.2.x) ∧
        (∀ v0 x0, init = some (v0, x0) → v ≤ v0) ∧
        ∀ r ∈ l, r.2.status = .OPTIMAL → v ≤ P.objAt r.2.x)
  | [], init => by
    cases init with
    | none => simp
    | some p => obtain ⟨v, x⟩ := p; simp
  | r :: rs, init => by
    have ih := foldl_best P rs (bestStep P init r)
    rw [List.foldl_cons]
    cases hf : List.foldl (bestStep P) (bestStep P init r) rs with
    | none =>
      rw [hf] at ih
      simp only at ih ⊢
      obtain ⟨h1, h2⟩ := ih
      by_cases hs : r.2.status = .OPTIMAL
      · simp only [bestStep, hs, if_true] at h1
        cases init with
        | none => simp [better] at h1
        | some p => obtain ⟨v, x⟩ := p; simp only [better] at h1; split at h1 <;> simp at h1
      · simp only [bestStep, hs, if_false] at h1
        exact ⟨h1, fun r' hr' => by
          rcases List.mem_cons.mp hr' with rfl | h
          · exact hs
          · exact h2 r' h⟩
    | some p =>
      obtain ⟨v, x⟩ := p
      rw [hf] at ih
      simp only at ih ⊢
      obtain ⟨h1, h2, h3⟩ := ih
      by_cases hs : r.2.status = .OPTIMAL
      · simp only [bestStep, hs, if_true] at h1 h2
        cases init with
        | none =>
          simp only [better] at h1 h2
          have hv := h2 _ _ rfl
          refine ⟨?_, by simp, ?_⟩
          · right
            rcases h1 with h1 | ⟨r', hr', h⟩
            · simp only [Option.some.injEq, Prod.mk.injEq] at h1
              exact ⟨r, List.mem_cons_self, hs, h1.2.symm, h1.1.symm⟩
            · exact ⟨r', List.mem_cons_of_mem _ hr', h⟩
          · intro r' hr' hs'
            rcases List.mem_cons.mp hr' with rfl | h
            · exact hv
            · exact h3 r' h hs'
        | some p0 =>
          obtain ⟨v0, x0⟩ := p0
          simp only [better] at h1 h2
          by_cases hlt : P.objAt r.2.x < v0
          · simp only [hlt, if_true] at h1 h2
            have hv := h2 _ _ rfl
            refine ⟨?_, ?_, ?_⟩
            · right
              rcases h1 with h1 | ⟨r', hr', h⟩
              · simp only [Option.some.injEq, Prod.mk.injEq] at h1
                exact ⟨r, List.mem_cons_self, hs, h1.2.symm, h1.1.symm⟩
              · exact ⟨r', List.mem_cons_of_mem _ hr', h⟩
            · intro v1 x1 e
              simp only [Option.some.injEq, Prod.mk.injEq] at e
              rw [← e.1]; exact le_trans hv hlt.le
            · intro r' hr' hs'
              rcases List.mem_cons.mp hr' with rfl | h
              · exact hv
              · exact h3 r' h hs'
          · simp only [hlt, if_false] at h1 h2
            have hv := h2 _ _ rfl
            refine ⟨?_, ?_, ?_⟩
            · rcases h1 with h1 | ⟨r', hr', h⟩
              · left; exact h1
              · right; exact ⟨r', List.mem_cons_of_mem _ hr', h⟩
            · intro v1 x1 e
              simp only [Option.some.injEq, Prod.mk.injEq] at e
              rw [← e.1]; exact hv
            · intro r' hr' hs'
              rcases List.mem_cons.mp hr' with rfl | h
              · exact le_trans hv (not_lt.mp hlt)
              · exact h3 r' h hs'
      · simp only [bestStep, hs, if_false] at h1 h2
        refine ⟨?_, h2, ?_⟩
        · rcases h1 with h1 | ⟨r', hr', h⟩
          · left; exact h1
          · right; exact ⟨r', List.mem_cons_of_mem _ hr', h⟩
        · intro r' hr' hs'
          rcases List.mem_cons.mp hr' with rfl | h
          · exact absurd hs' hs
          · exact h3 r' h hs'

/-! ### integer-feasible points ↔ feasible points of the fixed problems -/

theorem forall₂_left_exists {α β : Type} {R : α → β → Prop} : ∀ {l₁ : List α} {l₂ : List β},
    List.Forall₂ R l₁ l₂ → ∀ a ∈ l₁, ∃ b, R a b
  | _, _, List.Forall₂.nil, a, h => by cases h
  | _, _, List.Forall₂.cons h t, a, ha => by
    rcases List.mem_cons.mp ha with rfl | ha'
    · exact ⟨_, h⟩
    · exact forall₂_left_exists t a ha'

theorem feasible_fix_iff (P : LP) (hwf : P.A.length = P.b.length) (ints : List ℕ) (a : List ℤ)
    (hlen : ints.length = a.length) (hints : ∀ j ∈ ints, j < P.n) (x : Fin P.n → ℚ) :
    (P.fix ints a).toF.Feasible x ↔
      P.toF.Feasible x ∧ List.Forall₂ (fun j (v : ℤ) => extN x j = (v : ℚ)) ints a := by
  rw [feasible_iff_feasN P x, ← feasN_fix P hwf ints a hlen hints]
  exact feasible_iff_feasN (P.fix ints a) x

theorem fixFeasible_milp (P : LP) (hwf : P.A.length = P.b.length) (ints : List ℕ) (a : List ℤ)
    (hlen : ints.length = a.length) (hints : ∀ j ∈ ints, j < P.n) (x : Fin P.n → ℚ)
    (h : (P.fix ints a).toF.Feasible x) : P.toF.MilpFeasible (intSet P.n ints) x := by
  obtain ⟨hf, hfa⟩ := (feasible_fix_iff P hwf ints a hlen hints x).mp h
  refine ⟨hf, fun j hj => ?_⟩
  obtain ⟨z, hz⟩ := forall₂_left_exists hfa j.val hj
  exact ⟨z, by rw [← hz, extN_fin]⟩

theorem milp_fixFeasible (P : LP) (hwf : P.A.length = P.b.length) (ints ub : List ℕ) (ys : List Vec)
    (hints : ∀ j ∈ ints, j < P.n) (hbox : chkBox P ints ub ys = true) (x : Fin P.n → ℚ)
    (h : P.toF.MilpFeasible (intSet P.n ints) x) :
    ∃ a ∈ assignments ub, (P.fix ints a).toF.Feasible x := by
  have hint : ∀ j ∈ ints, ∃ z : ℤ, extN x j = (z : ℚ) := by
    intro j hj
    obtain ⟨z, hz⟩ := h.2 ⟨j, hints j hj⟩ hj
    exact ⟨z, by rw [← hz]; exact extN_fin x ⟨j, hints j hj⟩⟩
  obtain ⟨a, ha1, ha2⟩ := chkBox_sound P x h.1 ints ub ys hbox hint
  exact ⟨a, mem_assignments a ub ha2,
    (feasible_fix_iff P hwf ints a ha1.length_eq hints x).mpr ⟨h.1, ha1⟩⟩

/-! ### `_detect_binary` -/

theorem nodup_eraseDups : ∀ (k : ℕ) (l : List ℕ), l.length ≤ k → l.eraseDups.Nodup
  | _, [], _ => by simp
  | 0, _ :: _, h => by simp at h
  | k + 1, a :: as, h => by
    rw [List.eraseDups_cons, List.nodup_cons]
    constructor
    · rw [List.mem_eraseDups, List.mem_filter]
      simp
    · refine nodup_eraseDups k _ (le_trans (List.length_filter_le _ _) ?_)
      simpa using h

theorem int_of_abs_le {q eps : ℚ} (hq : ∃ z : ℤ, q = z) (h : |q| ≤ eps) (heps : eps < 1) : q = 0 := by
  obtain ⟨z, rfl⟩ := hq
  have : |z| < 1 := by
    have : ((|z| : ℤ) : ℚ) < 1 := by rw [Int.cast_abs]; exact lt_of_le_of_lt h heps
    exact_mod_cast this
  rw [Int.abs_lt_one_iff.mp this]; simp

theorem boundedVars_spec (P : LP) (ints : List ℕ) (eps : ℚ) (j : ℕ) (hj : j ∈ boundedVars P ints eps) :
    ∃ i < P.m, |vget P.b i - 1| ≤ eps ∧ rowNz P eps i = [j] ∧ j ∈ ints ∧ |P.a i j - 1| < eps := by
  unfold boundedVars at hj
  rw [List.mem_filterMap] at hj
  obtain ⟨i, hi, hf⟩ := hj
  rw [List.mem_range] at hi
  refine ⟨i, hi, ?_⟩
  split at hf
  · cases hf
  · rename_i hb
    rw [absR_eq] at hb
    split at hf
    · rename_i j' hnz
      split at hf
      · rename_i hc
        cases hf
        simp only [Bool.and_eq_true, List.contains_eq_mem, decide_eq_true_eq, absR_eq] at hc
        exact ⟨not_lt.mp hb, hnz, hc.1, hc.2⟩
      · cases hf
    · cases hf

end Solvor.Lp
