import Solvor.Lp.Drive
def main : IO Unit := Solvor.Proto.serve Solvor.Lp.handle
