import Solvor.Lp.Spec
/-! Lp: helper lemmas (bridges list/index sums ↔ `Finset` sums, duality algebra). -/
namespace Solvor.Lp
open Finset

theorem sumTo_eq_sum (n : ℕ) (f : ℕ → ℚ) : sumTo n f = ∑ j : Fin n, f j := by
  induction n with
  | zero => simp [sumTo]
  | succ k ih => rw [sumTo, ih, Fin.sum_univ_castSucc]; simp

theorem allTo_iff (n : ℕ) (p : ℕ → Bool) : allTo n p = true ↔ ∀ j : Fin n, p j = true := by
  induction n with
  | zero => simp [allTo]
  | succ k ih =>
    rw [allTo, Bool.and_eq_true, ih]
    constructor
    · rintro ⟨h1, h2⟩ j
      rcases Nat.lt_succ_iff_lt_or_eq.mp j.isLt with h | h
      · exact h1 ⟨j, h⟩
      · have : (j : ℕ) = k := h
        rw [this]; exact h2
    · intro h
      exact ⟨fun j => h ⟨j, Nat.lt_succ_of_lt j.isLt⟩, h ⟨k, Nat.lt_succ_self k⟩⟩

theorem absR_eq (a : ℚ) : absR a = |a| := by
  unfold absR
  split
  · rename_i h; rw [abs_of_neg h]
  · rename_i h; rw [abs_of_nonneg (not_lt.mp h)]

section bridge
variable (P : LP)

theorem rowDot_eq (x : Vec) (i : Fin P.m) :
    P.rowDot x i = ∑ j, P.toF.A i j * vecF P.n x j := by
  unfold LP.rowDot; rw [sumTo_eq_sum]; rfl

theorem colDot_eq (y : Vec) (j : Fin P.n) :
    P.colDot y j = ∑ i, vecF P.m y i * P.toF.A i j := by
  unfold LP.colDot; rw [sumTo_eq_sum]; rfl

theorem objAt_eq (x : Vec) : P.objAt x = P.toF.obj (vecF P.n x) := by
  unfold LP.objAt LPF.obj; rw [sumTo_eq_sum]; rfl

theorem rhsDot_eq (y : Vec) : P.rhsDot y = ∑ i, vecF P.m y i * P.toF.b i := by
  unfold LP.rhsDot; rw [sumTo_eq_sum]; rfl

theorem chkFeasible_iff (x : Vec) : chkFeasible P x = true ↔ P.toF.Feasible (vecF P.n x) := by
  unfold chkFeasible LPF.Feasible
  rw [Bool.and_eq_true, allTo_iff, allTo_iff]
  simp only [decide_eq_true_eq]
  constructor
  · rintro ⟨h1, h2⟩
    exact ⟨h1, fun i => by rw [← rowDot_eq]; exact h2 i⟩
  · rintro ⟨h1, h2⟩
    exact ⟨h1, fun i => by rw [rowDot_eq]; exact h2 i⟩

end bridge

/-! ### duality algebra over `Fin` -/
section duality
variable {m n : ℕ} (P : LPF m n)

/-- `∑_i y_i (A x)_i = ∑_j (Aᵀ y)_j x_j` -/
theorem sum_swap (x : Fin n → ℚ) (y : Fin m → ℚ) :
    ∑ i, y i * (∑ j, P.A i j * x j) = ∑ j, (∑ i, y i * P.A i j) * x j := by
  simp only [Finset.mul_sum, Finset.sum_mul]
  rw [Finset.sum_comm]
  exact Finset.sum_congr rfl fun j _ => Finset.sum_congr rfl fun i _ => by ring

/-- weak duality: `x` feasible, `y ≥ 0`, `c + Aᵀ y ≥ 0`  ⇒  `−y·b ≤ c·x`. -/
theorem weak_duality (x : Fin n → ℚ) (y : Fin m → ℚ) (hx : P.Feasible x)
    (hy : ∀ i, 0 ≤ y i) (hd : ∀ j, 0 ≤ P.c j + ∑ i, y i * P.A i j) :
    -(∑ i, y i * P.b i) ≤ P.obj x := by
  have h1 : ∑ i, y i * (∑ j, P.A i j * x j) ≤ ∑ i, y i * P.b i :=
    Finset.sum_le_sum fun i _ => mul_le_mul_of_nonneg_left (hx.2 i) (hy i)
  have h2 := sum_swap P x y
  have h3 : 0 ≤ ∑ j, (P.c j + ∑ i, y i * P.A i j) * x j :=
    Finset.sum_nonneg fun j _ => mul_nonneg (hd j) (hx.1 j)
  have h4 : ∑ j, (P.c j + ∑ i, y i * P.A i j) * x j
      = ∑ j, P.c j * x j + ∑ j, (∑ i, y i * P.A i j) * x j := by
    rw [← Finset.sum_add_distrib]; exact Finset.sum_congr rfl fun j _ => by ring
  unfold LPF.obj
  linarith

/-- `c·x` split along an approximate dual point `(y, zx)`. -/
theorem obj_decomp (x zx : Fin n → ℚ) (y : Fin m → ℚ) :
    P.obj x = ∑ j, (∑ i, y i * P.A i j) * x j + ∑ j, zx j * x j
      - ∑ j, (∑ i, y i * P.A i j + zx j - P.c j) * x j := by
  unfold LPF.obj
  rw [← Finset.sum_add_distrib, ← Finset.sum_sub_distrib]
  exact Finset.sum_congr rfl fun j _ => by ring

/-- `y·(A x)` split along a slack vector `s` and dual slacks `zs`. -/
theorem yAx_decomp (x : Fin n → ℚ) (y s zs : Fin m → ℚ) :
    ∑ i, y i * (∑ j, P.A i j * x j) = ∑ i, y i * P.b i
      + ∑ i, y i * (∑ j, P.A i j * x j + s i - P.b i) + ∑ i, zs i * s i - ∑ i, (y i + zs i) * s i := by
  rw [← Finset.sum_add_distrib, ← Finset.sum_add_distrib, ← Finset.sum_sub_distrib]
  exact Finset.sum_congr rfl fun i _ => by ring

theorem sum_mul_le {k : ℕ} {ε : ℚ} (r w : Fin k → ℚ) (hr : ∀ i, |r i| ≤ ε) (hw : ∀ i, 0 ≤ w i) :
    ∑ i, r i * w i ≤ ε * ∑ i, w i ∧ -(ε * ∑ i, w i) ≤ ∑ i, r i * w i := by
  constructor
  · rw [Finset.mul_sum]
    exact Finset.sum_le_sum fun i _ =>
      mul_le_mul_of_nonneg_right (le_trans (le_abs_self _) (hr i)) (hw i)
  · rw [Finset.mul_sum, ← Finset.sum_neg_distrib]
    refine Finset.sum_le_sum fun i _ => ?_
    have h1 : -ε ≤ r i := by have := neg_abs_le (r i); have := hr i; linarith
    have := mul_le_mul_of_nonneg_right h1 (hw i)
    linarith

theorem sum_mul_abs_le {k : ℕ} {ε : ℚ} (y r : Fin k → ℚ) (hr : ∀ i, |r i| ≤ ε) :
    ∑ i, y i * r i ≤ ε * ∑ i, |y i| := by
  rw [Finset.mul_sum]
  refine Finset.sum_le_sum fun i _ => ?_
  calc y i * r i ≤ |y i * r i| := le_abs_self _
    _ = |y i| * |r i| := abs_mul _ _
    _ ≤ |y i| * ε := mul_le_mul_of_nonneg_left (hr i) (abs_nonneg _)
    _ = ε * |y i| := mul_comm _ _

end duality
end Solvor.Lp
