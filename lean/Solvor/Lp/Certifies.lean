import Solvor.Lp.Lemmas
import Mathlib.Tactic.FieldSimp
import Mathlib.Data.List.GetD
import Mathlib.Algebra.BigOperators.Group.Finset.Piecewise
import Mathlib.Algebra.BigOperators.Intervals
/-!
Lp/Certifies: the tableau invariant behind `simplex_certifies` (stretch).

Part 1: entry-wise description of `pivot`, `setBasis` at `eps = 0` on well-formed tableaux.
-/
namespace Solvor.Lp
open Finset

/-- entry `(i, c)` of the constraint rows -/
def Tab.e (t : Tab) (i c : ℕ) : ℚ := (t.rows.getD i []).getD c 0
/-- entry `c` of the objective row -/
def Tab.oe (t : Tab) (c : ℕ) : ℚ := t.obj.getD c 0
/-- basic variable of row `i` -/
def Tab.bs (t : Tab) (i : ℕ) : ℕ := t.basis.getD i 0

/-- `m` rows of width `W`, objective row of width `W`, `m` basis entries -/
structure Tab.WF (t : Tab) (m W : ℕ) : Prop where
  rows_len : t.rows.length = m
  row_len : ∀ r ∈ t.rows, r.length = W
  obj_len : t.obj.length = W
  basis_len : t.basis.length = m

theorem absR_nonneg (a : ℚ) : 0 ≤ absR a := by rw [absR_eq]; exact abs_nonneg a
theorem absR_pos_iff (a : ℚ) : absR a > 0 ↔ a ≠ 0 := by rw [absR_eq]; exact abs_pos

theorem getD_rows_len {t : Tab} {m W : ℕ} (h : t.WF m W) {i : ℕ} (hi : i < m) :
    (t.rows.getD i []).length = W := by
  have hi' : i < t.rows.length := by rw [h.rows_len]; exact hi
  rw [List.getD_eq_getElem?_getD, List.getElem?_eq_getElem hi']
  exact h.row_len _ (List.getElem_mem hi')

theorem getD_map_mul (l : List ℚ) (a : ℚ) (c : ℕ) : (l.map (· * a)).getD c 0 = l.getD c 0 * a := by
  rw [List.getD_eq_getElem?_getD, List.getElem?_map, List.getD_eq_getElem?_getD]
  cases l[c]? <;> simp

theorem getD_zipWith_sub (row prow : List ℚ) (f : ℚ) (c : ℕ) (hl : row.length = prow.length) :
    (List.zipWith (fun a p => a - f * p) row prow).getD c 0 = row.getD c 0 - f * prow.getD c 0 := by
  rw [List.getD_eq_getElem?_getD, List.getElem?_zipWith, List.getD_eq_getElem?_getD,
    List.getD_eq_getElem?_getD]
  by_cases hc : c < row.length
  · have hc' : c < prow.length := hl ▸ hc
    rw [List.getElem?_eq_getElem hc, List.getElem?_eq_getElem hc']
    simp
  · have hc' : ¬ c < prow.length := hl ▸ hc
    rw [List.getElem?_eq_none (not_lt.mp hc), List.getElem?_eq_none (not_lt.mp hc')]
    simp

/-- the elimination step of `_pivot` on one row (objective row included), `eps = 0` -/
theorem elim_getD (row prow : List ℚ) (col c : ℕ) (hl : row.length = prow.length) :
    (let f := row.getD col 0
     if absR f > 0 then List.zipWith (fun a p => a - f * p) row prow else row).getD c 0
      = row.getD c 0 - row.getD col 0 * prow.getD c 0 := by
  simp only []
  split
  · exact getD_zipWith_sub row prow _ c hl
  · rename_i h
    have : row.getD col 0 = 0 := by
      by_contra hne; exact h ((absR_pos_iff _).mpr hne)
    rw [this]; ring

theorem elim_length (row prow : List ℚ) (col : ℕ) (hl : row.length = prow.length) :
    (let f := row.getD col 0
     if absR f > 0 then List.zipWith (fun a p => a - f * p) row prow else row).length = row.length := by
  simp only []
  split
  · simp [List.length_zipWith, hl]
  · rfl

section pivot
variable {t : Tab} {m W : ℕ}

theorem pivot_unfold (t : Tab) (r col : ℕ) :
    pivot 0 t r col =
      { t with
        rows := t.rows.mapIdx (fun i row => if i = r then (t.rows.getD r []).map (· * (1 / t.e r col)) else
          (let f := row.getD col 0
           if absR f > 0 then List.zipWith (fun a p => a - f * p) row
             ((t.rows.getD r []).map (· * (1 / t.e r col))) else row)),
        obj := (let f := t.obj.getD col 0
           if absR f > 0 then List.zipWith (fun a p => a - f * p) t.obj
             ((t.rows.getD r []).map (· * (1 / t.e r col))) else t.obj) } := by
  unfold pivot
  simp only []
  have : ¬ absR ((t.rows.getD r []).getD col 0) < 0 := not_lt.mpr (absR_nonneg _)
  rw [if_neg this]
  rfl

theorem pivot_wf (h : t.WF m W) (r col : ℕ) (hr : r < m) : (pivot 0 t r col).WF m W := by
  rw [pivot_unfold]
  have hp : ((t.rows.getD r []).map (· * (1 / t.e r col))).length = W := by
    rw [List.length_map]; exact getD_rows_len h hr
  refine ⟨by simp [h.rows_len], ?_, ?_, h.basis_len⟩
  · intro row hrow
    simp only [] at hrow
    obtain ⟨i, hi, rfl⟩ := List.mem_iff_getElem.mp hrow
    rw [List.getElem_mapIdx]
    have hi' : i < t.rows.length := by simpa using hi
    have hlen : (t.rows[i]).length = W := h.row_len _ (List.getElem_mem hi')
    split
    · exact hp
    · rw [elim_length _ _ _ (by rw [hlen, hp])]; exact hlen
  · simp only []
    rw [elim_length _ _ _ (by rw [h.obj_len, hp])]; exact h.obj_len

theorem pivot_bs (r col i : ℕ) : (pivot 0 t r col).bs i = t.bs i := by
  rw [pivot_unfold]; rfl

/-- entries of the rows after `_pivot` (`eps = 0`) -/
theorem pivot_e (h : t.WF m W) (r col : ℕ) (hr : r < m) (i : ℕ) (hi : i < m) (c : ℕ) :
    (pivot 0 t r col).e i c =
      if i = r then t.e r c * (1 / t.e r col) else t.e i c - t.e i col * (t.e r c * (1 / t.e r col)) := by
  rw [pivot_unfold]
  have hi' : i < t.rows.length := by rw [h.rows_len]; exact hi
  have hp : ((t.rows.getD r []).map (· * (1 / t.e r col))).length = W := by
    rw [List.length_map]; exact getD_rows_len h hr
  simp only [Tab.e]
  rw [List.getD_eq_getElem?_getD (l := List.mapIdx _ _), List.getElem?_mapIdx,
    List.getElem?_eq_getElem hi']
  simp only [Option.map_some, Option.getD_some]
  have hrow : t.rows.getD i [] = t.rows[i] := by
    rw [List.getD_eq_getElem?_getD, List.getElem?_eq_getElem hi']; rfl
  rw [hrow]
  split
  · rename_i hir
    subst hir
    rw [getD_map_mul, hrow]
  · rw [elim_getD _ _ _ _ (by rw [h.row_len _ (List.getElem_mem hi')]; exact hp.symm), getD_map_mul]

/-- entries of the objective row after `_pivot` (`eps = 0`) -/
theorem pivot_oe (h : t.WF m W) (r col : ℕ) (hr : r < m) (c : ℕ) :
    (pivot 0 t r col).oe c = t.oe c - t.oe col * (t.e r c * (1 / t.e r col)) := by
  rw [pivot_unfold]
  have hp : ((t.rows.getD r []).map (· * (1 / t.e r col))).length = W := by
    rw [List.length_map]; exact getD_rows_len h hr
  simp only [Tab.oe, Tab.e]
  rw [elim_getD _ _ _ _ (by rw [h.obj_len]; exact hp.symm), getD_map_mul]

end pivot

/-! Part 2: `setBasis`, `lastR`, Bland's entering and leaving rules at `eps = 0` -/
section rules
variable {t : Tab} {m W : ℕ}

theorem setBasis_e (r col i c : ℕ) : (setBasis t r col).e i c = t.e i c := rfl
theorem setBasis_oe (r col c : ℕ) : (setBasis t r col).oe c = t.oe c := rfl
theorem setBasis_wf (h : t.WF m W) (r col : ℕ) : (setBasis t r col).WF m W :=
  ⟨h.rows_len, h.row_len, h.obj_len, by simp [setBasis, h.basis_len]⟩
theorem setBasis_bs (h : t.WF m W) (r col : ℕ) (hr : r < m) (i : ℕ) :
    (setBasis t r col).bs i = if i = r then col else t.bs i := by
  simp only [setBasis, Tab.bs, List.getD_eq_getElem?_getD, List.getElem?_set, h.basis_len, hr, if_true]
  by_cases hir : i = r
  · subst hir; simp
  · rw [if_neg (fun e => hir e.symm), if_neg hir]

theorem lastR_eq (h : t.WF m W) (_hW : 0 < W) {i : ℕ} (hi : i < m) :
    lastR (t.rows.getD i []) = t.e i (W - 1) := by
  unfold lastR Tab.e
  rw [List.getLastD_eq_getLast?, List.getLast?_eq_getElem?, getD_rows_len h hi]
  exact (List.getD_eq_getElem?_getD).symm

theorem lastR_obj (h : t.WF m W) : lastR t.obj = t.oe (W - 1) := by
  unfold lastR Tab.oe
  rw [List.getLastD_eq_getLast?, List.getLast?_eq_getElem?, h.obj_len, List.getD_eq_getElem?_getD]

theorem mem_basis_iff (h : t.WF m W) (j : ℕ) : j ∈ t.basis ↔ ∃ i < m, t.bs i = j := by
  constructor
  · intro hj
    obtain ⟨i, hi, rfl⟩ := List.mem_iff_getElem.mp hj
    refine ⟨i, by rw [← h.basis_len]; exact hi, ?_⟩
    simp [Tab.bs, List.getD_eq_getElem?_getD, List.getElem?_eq_getElem hi]
  · rintro ⟨i, hi, rfl⟩
    have hi' : i < t.basis.length := by rw [h.basis_len]; exact hi
    simp only [Tab.bs, List.getD_eq_getElem?_getD, List.getElem?_eq_getElem hi', Option.getD_some]
    exact List.getElem_mem hi'

theorem findEnter_none (h : t.WF m W) (hn : findEnter 0 t = none) :
    ∀ j < W - 1, (∀ i < m, t.bs i ≠ j) → 0 ≤ t.oe j := by
  intro j hj hnb
  unfold findEnter at hn
  rw [List.find?_eq_none] at hn
  have := hn j (by rw [List.mem_range, h.obj_len]; exact hj)
  simp only [Bool.and_eq_true, Bool.not_eq_true', decide_eq_true_eq, not_and, neg_zero, not_lt,
    List.contains_eq_mem, decide_eq_false_iff_not] at this
  refine this ?_
  intro hmem
  obtain ⟨i, hi, hb⟩ := (mem_basis_iff h j).mp hmem
  exact hnb i hi hb

theorem findEnter_some (h : t.WF m W) {e : ℕ} (hs : findEnter 0 t = some e) :
    e < W - 1 ∧ (∀ i < m, t.bs i ≠ e) ∧ t.oe e < 0 := by
  unfold findEnter at hs
  have hp := List.find?_some hs
  have hm := List.mem_of_find?_eq_some hs
  rw [List.mem_range, h.obj_len] at hm
  simp only [Bool.and_eq_true, Bool.not_eq_true', decide_eq_true_eq, neg_zero,
    List.contains_eq_mem, decide_eq_false_iff_not] at hp
  refine ⟨hm, fun i hi hb => hp.1 ((mem_basis_iff h e).mpr ⟨i, hi, hb⟩), hp.2⟩

/-- invariant of the ratio-test loop after rows `0..k-1` -/
def LInv (t : Tab) (W e k : ℕ) : Option ℕ × Option ℚ → Prop
  | (none, none) => ∀ i < k, ¬ t.e i e > 0
  | (some l, some r) => l < k ∧ t.e l e > 0 ∧ r = t.e l (W - 1) / t.e l e ∧
      ∀ i < k, t.e i e > 0 → r ≤ t.e i (W - 1) / t.e i e
  | _ => False

theorem leaveStep_inv (h : t.WF m W) (hW : 0 < W) (e k : ℕ) (hk : k < m) (st : Option ℕ × Option ℚ)
    (hst : LInv t W e k st) : LInv t W e (k + 1) (leaveStep 0 t e st k) := by
  unfold leaveStep
  simp only []
  rw [lastR_eq h hW hk]
  have hae : (t.rows.getD k []).getD e 0 = t.e k e := rfl
  rw [hae]
  by_cases ha : t.e k e > 0
  · rw [if_pos ha]
    rcases st with ⟨l, mr⟩
    cases mr with
    | none =>
      cases l with
      | some l => exact hst.elim
      | none =>
        simp only [LInv] at hst ⊢
        refine ⟨Nat.lt_succ_self k, ha, trivial, fun i hi hpos => ?_⟩
        rcases Nat.lt_succ_iff_lt_or_eq.mp hi with h1 | rfl
        · exact absurd hpos (hst i h1)
        · exact le_refl _
    | some mr =>
      cases l with
      | none => exact hst.elim
      | some l =>
        simp only [LInv] at hst
        obtain ⟨hl, hle, hmr, hmin⟩ := hst
        simp only [sub_zero]
        by_cases hlt : t.e k (W - 1) / t.e k e < mr
        · rw [if_pos hlt]
          simp only [LInv]
          refine ⟨Nat.lt_succ_self k, ha, trivial, fun i hi hpos => ?_⟩
          rcases Nat.lt_succ_iff_lt_or_eq.mp hi with h1 | rfl
          · exact le_trans hlt.le (hmin i h1 hpos)
          · exact le_refl _
        · rw [if_neg hlt]
          have keep : LInv t W e (k + 1) (some l, some mr) := by
            simp only [LInv]
            refine ⟨Nat.lt_succ_of_lt hl, hle, hmr, fun i hi hpos => ?_⟩
            rcases Nat.lt_succ_iff_lt_or_eq.mp hi with h1 | rfl
            · exact hmin i h1 hpos
            · exact not_lt.mp hlt
          by_cases heq : absR (t.e k (W - 1) / t.e k e - mr) ≤ 0
          · rw [if_pos heq]
            have hz : t.e k (W - 1) / t.e k e = mr := by
              have := le_antisymm heq (absR_nonneg _)
              rw [absR_eq, abs_eq_zero] at this; linarith
            split
            · simp only [LInv]
              refine ⟨Nat.lt_succ_self k, ha, hz.symm, fun i hi hpos => ?_⟩
              rcases Nat.lt_succ_iff_lt_or_eq.mp hi with h1 | rfl
              · exact hmin i h1 hpos
              · exact hz.ge
            · exact keep
          · rw [if_neg heq]; exact keep
  · rw [if_neg ha]
    rcases st with ⟨l, mr⟩
    cases l <;> cases mr <;> simp only [LInv] at hst ⊢
    · intro i hi
      rcases Nat.lt_succ_iff_lt_or_eq.mp hi with h1 | rfl
      · exact hst i h1
      · exact ha
    · obtain ⟨hl, hle, hmr, hmin⟩ := hst
      refine ⟨Nat.lt_succ_of_lt hl, hle, hmr, fun i hi hpos => ?_⟩
      rcases Nat.lt_succ_iff_lt_or_eq.mp hi with h1 | rfl
      · exact hmin i h1 hpos
      · exact absurd hpos ha

theorem foldl_leave_inv (h : t.WF m W) (hW : 0 < W) (e : ℕ) : ∀ k ≤ m,
    LInv t W e k ((List.range k).foldl (leaveStep 0 t e) (none, none))
  | 0, _ => by simp [LInv]
  | k + 1, hk => by
    rw [List.range_succ, List.foldl_append]
    exact leaveStep_inv h hW e k hk _ (foldl_leave_inv h hW e k (Nat.le_of_succ_le hk))

theorem findLeave_none (h : t.WF m W) (hW : 0 < W) {e : ℕ} (hn : findLeave 0 t e = none) :
    ∀ i < m, t.e i e ≤ 0 := by
  have := foldl_leave_inv h hW e m (le_refl _)
  unfold findLeave at hn
  rw [h.rows_len] at hn
  generalize (List.range m).foldl (leaveStep 0 t e) (none, none) = st at this hn
  rcases st with ⟨l, mr⟩
  simp only at hn
  subst hn
  cases mr with
  | none => intro i hi; exact not_lt.mp (this i hi)
  | some r => exact this.elim

theorem findLeave_some (h : t.WF m W) (hW : 0 < W) {e l : ℕ} (hs : findLeave 0 t e = some l) :
    l < m ∧ t.e l e > 0 ∧ ∀ i < m, t.e i e > 0 → t.e l (W - 1) / t.e l e ≤ t.e i (W - 1) / t.e i e := by
  have := foldl_leave_inv h hW e m (le_refl _)
  unfold findLeave at hs
  rw [h.rows_len] at hs
  generalize (List.range m).foldl (leaveStep 0 t e) (none, none) = st at this hs
  rcases st with ⟨l', mr⟩
  simp only at hs
  subst hs
  cases mr with
  | none => exact this.elim
  | some r =>
    obtain ⟨h1, h2, h3, h4⟩ := this
    exact ⟨h1, h2, fun i hi hp => h3 ▸ h4 i hi hp⟩

end rules

/-! Part 3: the tableau invariant and its preservation by a Bland pivot -/

/-- original row `k` of `[A I | b]` as a function of the column -/
def origRow (P : LP) (k c : ℕ) : ℚ :=
  if c < P.n then P.a k c else if c < P.n + P.m then (if c - P.n = k then 1 else 0) else vget P.b k

/-- the linear space of rows `v` with `v_j = ∑ v_{n+k} A_kj` and `v_last = ∑ v_{n+k} b_k`
(combinations of the original rows, the multipliers being readable in the slack columns) -/
def InS (P : LP) (v : ℕ → ℚ) : Prop :=
  (∀ j < P.n, v j = ∑ k ∈ range P.m, v (P.n + k) * P.a k j) ∧
  v (P.n + P.m) = ∑ k ∈ range P.m, v (P.n + k) * vget P.b k

theorem InS.sub_smul {P : LP} {u v : ℕ → ℚ} (hu : InS P u) (hv : InS P v) (f g : ℚ) :
    InS P (fun c => u c - f * (v c * g)) := by
  constructor
  · intro j hj
    simp only []
    rw [hu.1 j hj, hv.1 j hj, Finset.sum_mul, Finset.mul_sum, ← Finset.sum_sub_distrib]
    exact Finset.sum_congr rfl fun k _ => by ring
  · simp only []
    rw [hu.2, hv.2, Finset.sum_mul, Finset.mul_sum, ← Finset.sum_sub_distrib]
    exact Finset.sum_congr rfl fun k _ => by ring

theorem InS.smul {P : LP} {v : ℕ → ℚ} (hv : InS P v) (g : ℚ) : InS P (fun c => v c * g) := by
  constructor
  · intro j hj
    simp only []
    rw [hv.1 j hj, Finset.sum_mul]
    exact Finset.sum_congr rfl fun k _ => by ring
  · simp only []
    rw [hv.2, Finset.sum_mul]
    exact Finset.sum_congr rfl fun k _ => by ring

/-- the objective vector padded with zeros -/
def wbar (P : LP) (c : ℕ) : ℚ := if c < P.n then vget P.c c else 0

structure Inv (P : LP) (t : Tab) : Prop where
  wf : t.WF P.m (P.n + P.m + 1)
  rowS : ∀ i < P.m, InS P (t.e i)
  objS : InS P (fun c => t.oe c - wbar P c)
  bs_lt : ∀ i < P.m, t.bs i < P.n + P.m
  unit : ∀ i < P.m, ∀ k < P.m, t.e i (t.bs k) = if i = k then 1 else 0
  objB : ∀ k < P.m, t.oe (t.bs k) = 0
  sol : ∀ z : ℕ → ℚ, (∀ i < P.m, ∑ c ∈ range (P.n + P.m + 1), t.e i c * z c = 0) ↔
      (∀ k < P.m, ∑ c ∈ range (P.n + P.m + 1), origRow P k c * z c = 0)
  rhs : ∀ i < P.m, 0 ≤ t.e i (P.n + P.m)

section step
variable {P : LP} {t : Tab}

/-- one iteration of `_phase2` that pivots: `setBasis (pivot 0 t l e) l e` -/
def stepTab (t : Tab) (l e : ℕ) : Tab := setBasis (pivot 0 t l e) l e

end step

/-! Part 4: reading the certificates off a tableau that satisfies the invariant -/

theorem sumTo_eq_range (n : ℕ) (f : ℕ → ℚ) : sumTo n f = ∑ c ∈ range n, f c := by
  induction n with
  | zero => simp [sumTo]
  | succ k ih => rw [sumTo, ih, Finset.sum_range_succ]

theorem allTo_iff_lt (n : ℕ) (p : ℕ → Bool) : allTo n p = true ↔ ∀ j < n, p j = true := by
  rw [allTo_iff]
  exact ⟨fun h j hj => h ⟨j, hj⟩, fun h j => h j j.isLt⟩

/-- `∑_c R_k(c) z_c` written out: `∑_j A_kj z_j + z_{n+k} + b_k z_last` -/
theorem origRow_sum (P : LP) (k : ℕ) (hk : k < P.m) (z : ℕ → ℚ) :
    ∑ c ∈ range (P.n + P.m + 1), origRow P k c * z c =
      ∑ j ∈ range P.n, P.a k j * z j + z (P.n + k) + vget P.b k * z (P.n + P.m) := by
  rw [Finset.sum_range_succ, Finset.sum_range_add]
  have h1 : ∑ j ∈ range P.n, origRow P k j * z j = ∑ j ∈ range P.n, P.a k j * z j :=
    Finset.sum_congr rfl fun j hj => by
      rw [origRow, if_pos (Finset.mem_range.mp hj)]
  have h2 : ∑ x ∈ range P.m, origRow P k (P.n + x) * z (P.n + x) = z (P.n + k) := by
    rw [Finset.sum_eq_single k]
    · have h1 : ¬ (P.n + k < P.n) := by omega
      have h2 : P.n + k < P.n + P.m := by omega
      simp [origRow, h1, h2]
    · intro b hb hbk
      have : ¬ (P.n + b < P.n) := by omega
      simp [origRow, this, Finset.mem_range.mp hb, hbk]
    · intro h; exact absurd (Finset.mem_range.mpr hk) h
  have h3 : origRow P k (P.n + P.m) = vget P.b k := by
    have : ¬ (P.n + P.m < P.n) := by omega
    simp [origRow, this]
  rw [h1, h2, h3]

section read
variable {P : LP} {t : Tab}

/-- the dual / Farkas vector read off the slack columns -/
theorem vget_slack (t : Tab) (n m : ℕ) {k : ℕ} (hk : k < m) :
    vget ((t.obj.drop n).take m) k = t.oe (n + k) := by
  unfold vget Tab.oe
  rw [List.getD_eq_getElem?_getD, List.getElem?_take, if_pos hk, List.getElem?_drop,
    List.getD_eq_getElem?_getD]

/-- ray direction of variable `c` when column `e` enters -/
def rayVal (P : LP) (t : Tab) (e c : ℕ) : ℚ :=
  if c = e then 1 else ∑ i ∈ range P.m, if t.bs i = c then -(t.e i e) else 0

theorem wbar_lt {j : ℕ} (hj : j < P.n) : wbar P j = vget P.c j := by simp [wbar, hj]
theorem wbar_ge (k : ℕ) : wbar P (P.n + k) = 0 := by
  have : ¬ (P.n + k < P.n) := by omega
  simp [wbar, this]

/-- the ray as `[c = e] + ∑_i [bs i = c] (−T_ie)` when `e` is non-basic -/
theorem rayVal_eq (e c : ℕ) (hnb : ∀ i < P.m, t.bs i ≠ e) :
    rayVal P t e c = (if c = e then 1 else 0) + ∑ i ∈ range P.m, if t.bs i = c then -(t.e i e) else 0 := by
  unfold rayVal
  by_cases hce : c = e
  · rw [if_pos hce, if_pos hce]
    have : ∑ i ∈ range P.m, (if t.bs i = c then -(t.e i e) else 0) = 0 :=
      Finset.sum_eq_zero fun i hi => by rw [if_neg (hce ▸ hnb i (Finset.mem_range.mp hi))]
    rw [this]; ring
  · rw [if_neg hce, if_neg hce]; ring

theorem rayVal_nonneg (e c : ℕ) (hle : ∀ i < P.m, t.e i e ≤ 0) : 0 ≤ rayVal P t e c := by
  unfold rayVal
  split
  · norm_num
  · refine Finset.sum_nonneg fun i hi => ?_
    split
    · have := hle i (Finset.mem_range.mp hi); linarith
    · exact le_refl _

end read

/-! Part 5: the loop, the initial tableau, the theorem -/
open Solvor.Gen (Status)

theorem phase2_none (fuel it : ℕ) (t : Tab) (h : findEnter 0 t = none) :
    phase2 0 (fuel + 1) it t = ⟨.OPTIMAL, it, t, none⟩ := by
  rw [phase2, h]

theorem phase2_unb (fuel it : ℕ) (t : Tab) {e : ℕ} (h : findEnter 0 t = some e)
    (hl : findLeave 0 t e = none) : phase2 0 (fuel + 1) it t = ⟨.UNBOUNDED, it, t, some e⟩ := by
  rw [phase2, h]; simp only []; rw [hl]

theorem phase2_step (fuel it : ℕ) (t : Tab) {e l : ℕ} (h : findEnter 0 t = some e)
    (hl : findLeave 0 t e = some l) : phase2 0 (fuel + 1) it t = phase2 0 fuel (it + 1) (stepTab t l e) := by
  rw [phase2, h]; simp only []; rw [hl]; rfl

/-- entries of the initial tableau -/
theorem initTab_e (P : LP) (hA : ∀ i < P.m, (P.A.getD i []).length = P.n) {i : ℕ} (hi : i < P.m)
    {c : ℕ} (hc : c < P.n + P.m + 1) : (initTab P.c P.A P.b).e i c = origRow P i c := by
  have hi' : i < P.b.length := hi
  have hrow : (initTab P.c P.A P.b).rows.getD i [] =
      P.A.getD i [] ++ unitV P.b.length i ++ [P.b.getD i 0] := by
    simp only [initTab]
    rw [List.getD_eq_getElem?_getD, List.getElem?_map, List.getElem?_range hi']
    rfl
  unfold Tab.e
  rw [hrow]
  have hlenA := hA i hi
  have hlenU : (unitV P.b.length i).length = P.m := by simp [unitV, LP.m]
  unfold origRow
  by_cases h1 : c < P.n
  · rw [if_pos h1, List.append_assoc, List.getD_append _ _ _ _ (by rw [hlenA]; exact h1)]
    rfl
  · rw [if_neg h1]
    by_cases h2 : c < P.n + P.m
    · rw [if_pos h2, List.append_assoc, List.getD_append_right _ _ _ _ (by rw [hlenA]; omega), hlenA,
        List.getD_append _ _ _ _ (by rw [hlenU]; omega)]
      have hk : c - P.n < P.b.length := by show c - P.n < P.m; omega
      unfold unitV
      rw [List.getD_eq_getElem?_getD, List.getElem?_map, List.getElem?_range hk]
      rfl
    · rw [if_neg h2]
      have hcN : c = P.n + P.m := by omega
      have hlen : (P.A.getD i [] ++ unitV P.b.length i).length = P.n + P.m := by
        rw [List.length_append, hlenA, hlenU]
      rw [List.getD_append_right _ _ _ _ (by rw [hlen]; omega), hlen, hcN, Nat.sub_self]
      rfl

theorem initTab_oe (P : LP) (c : ℕ) : (initTab P.c P.A P.b).oe c = wbar P c := by
  unfold Tab.oe initTab wbar
  simp only []
  by_cases h1 : c < P.n
  · rw [if_pos h1, List.getD_append _ _ _ _ h1]; rfl
  · rw [if_neg h1, List.getD_append_right _ _ _ _ (by show P.c.length ≤ c; exact not_lt.mp h1)]
    simp [zeros, List.getD_eq_getElem?_getD, List.getElem?_replicate]
    split <;> rfl

theorem initTab_bs (P : LP) {i : ℕ} (hi : i < P.m) : (initTab P.c P.A P.b).bs i = P.n + i := by
  have hi' : i < P.b.length := hi
  unfold Tab.bs initTab
  simp only []
  rw [List.getD_eq_getElem?_getD, List.getElem?_map, List.getElem?_range hi']
  simp [LP.n, Nat.add_comm]

theorem initTab_wf (P : LP) (hA : ∀ i < P.m, (P.A.getD i []).length = P.n) :
    (initTab P.c P.A P.b).WF P.m (P.n + P.m + 1) := by
  refine ⟨by simp [initTab, LP.m], ?_, by simp [initTab, zeros, LP.n, LP.m]; omega, by simp [initTab, LP.m]⟩
  intro r hr
  simp only [initTab, List.mem_map, List.mem_range] at hr
  obtain ⟨i, hi, rfl⟩ := hr
  rw [List.length_append, List.length_append, hA i hi]
  simp [unitV, LP.m]

/-- the initial tableau of an LP with `b ≥ 0` satisfies the invariant -/
theorem init_inv (P : LP) (hA : ∀ i < P.m, (P.A.getD i []).length = P.n) (hb : ∀ i < P.m, 0 ≤ vget P.b i) :
    Inv P (initTab P.c P.A P.b) := by
  have E : ∀ i < P.m, ∀ c < P.n + P.m + 1, (initTab P.c P.A P.b).e i c = origRow P i c :=
    fun i hi c hc => initTab_e P hA hi hc
  have slack : ∀ i < P.m, ∀ k < P.m, (initTab P.c P.A P.b).e i (P.n + k) = if k = i then 1 else 0 := by
    intro i hi k hk
    rw [E i hi (P.n + k) (by omega)]
    have h1 : ¬ (P.n + k < P.n) := by omega
    have h2 : P.n + k < P.n + P.m := by omega
    simp [origRow, h1, h2]
  refine ⟨initTab_wf P hA, ?_, ?_, ?_, ?_, ?_, ?_, ?_⟩
  · intro i hi
    constructor
    · intro j hj
      rw [E i hi j (by omega)]
      have : ∑ k ∈ range P.m, (initTab P.c P.A P.b).e i (P.n + k) * P.a k j
          = ∑ k ∈ range P.m, (if k = i then 1 else 0) * P.a k j :=
        Finset.sum_congr rfl fun k hk => by rw [slack i hi k (Finset.mem_range.mp hk)]
      rw [this, Finset.sum_eq_single i]
      · simp [origRow, hj]
      · intro k _ hki; rw [if_neg hki]; ring
      · intro hn; exact absurd (Finset.mem_range.mpr hi) hn
    · rw [E i hi (P.n + P.m) (by omega)]
      have : ∑ k ∈ range P.m, (initTab P.c P.A P.b).e i (P.n + k) * vget P.b k
          = ∑ k ∈ range P.m, (if k = i then 1 else 0) * vget P.b k :=
        Finset.sum_congr rfl fun k hk => by rw [slack i hi k (Finset.mem_range.mp hk)]
      rw [this, Finset.sum_eq_single i]
      · have h1 : ¬ (P.n + P.m < P.n) := by omega
        simp [origRow, h1]
      · intro k _ hki; rw [if_neg hki]; ring
      · intro hn; exact absurd (Finset.mem_range.mpr hi) hn
  · constructor
    · intro j _
      simp only [initTab_oe, sub_self, zero_mul, Finset.sum_const_zero]
    · simp only [initTab_oe, sub_self, zero_mul, Finset.sum_const_zero]
  · intro i hi; rw [initTab_bs P hi]; omega
  · intro i hi k hk
    rw [initTab_bs P hk, slack i hi k hk]
    by_cases hik : i = k
    · rw [if_pos hik, if_pos hik.symm]
    · rw [if_neg hik, if_neg (fun e => hik e.symm)]
  · intro k hk; rw [initTab_bs P hk, initTab_oe, wbar_ge]
  · intro z
    have : ∀ i < P.m, ∑ c ∈ range (P.n + P.m + 1), (initTab P.c P.A P.b).e i c * z c =
        ∑ c ∈ range (P.n + P.m + 1), origRow P i c * z c :=
      fun i hi => Finset.sum_congr rfl fun c hc => by rw [E i hi c (Finset.mem_range.mp hc)]
    constructor
    · intro h k hk; rw [← this k hk]; exact h k hk
    · intro h i hi; rw [this i hi]; exact h i hi
  · intro i hi
    rw [E i hi (P.n + P.m) (by omega)]
    have h1 : ¬ (P.n + P.m < P.n) := by omega
    simp only [origRow, h1, if_false, lt_self_iff_false]
    exact hb i hi

theorem mkLP_n (c : Vec) (A : Mat) (b : Vec) (mn : Bool) : (mkLP c A b mn).n = c.length := by
  unfold mkLP LP.n; cases mn <;> simp

end Solvor.Lp
