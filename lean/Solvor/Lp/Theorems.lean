import Solvor.Lp.Lemmas
import Solvor.Lp.MilpLemmas
import Solvor.Lp.Phase1
import Solvor.Lp.BnbLemmas
/-!
Lp: property theorems of C03 (LP verdicts and optima) and C04 (MILP).

C03, layer T-spec: the certificate theorems (`weak_duality_cert`, `farkas_cert`, `ray_cert`,
`verdict_unique`, `approx_duality`, `ipm_optimal_test_sound`) over `Fin m → Fin n → ℚ`, and the soundness
of the Bool checkers the driver evaluates on every explored input (`chkOptimal_sound`,
`chkInfeasible_sound`, `chkUnbounded_sound`, `certifies_sound`, tolerance checkers `…_iff`).  With
`verdict_unique`, one accepted certificate pins the verdict of that input: a status different from it
is wrong.  Layer T-model: `simplex_certifies` (the mirror's certificate is valid on EVERY input, `eps = 0`;
lemmas in `Certifies.lean`, `Tableau.lean`, `Phase1.lean`).

C04: `isFeasible_iff`, `branch_covers`, `milpOracle_correct`, `binary_tightening_sound` and the abstract
branch and bound (`bnb_invariant`, `bnb_optimal`, `bnb_infeasible`, `bnb_gap`,
`heuristic_incumbent_feasible`).
-/
namespace Solvor.Lp
open Finset
open Solvor.Gen (Status)

section spec
variable {m n : ℕ} (P : LPF m n)

/-- **[C] weak_duality_cert**: `x` feasible, `y ≥ 0`, `c + Aᵀy ≥ 0`, `c·x = −y·b` ⇒ `x` is optimal
and every optimal point has this objective value (the value *is* the optimum). -/
theorem weak_duality_cert (x : Fin n → ℚ) (y : Fin m → ℚ) (hx : P.Feasible x)
    (hy : ∀ i, 0 ≤ y i) (hd : ∀ j, 0 ≤ P.c j + ∑ i, y i * P.A i j)
    (hgap : P.obj x = -(∑ i, y i * P.b i)) :
    P.IsOptimal x ∧ ∀ x', P.IsOptimal x' → P.obj x' = P.obj x := by
  have opt : P.IsOptimal x := ⟨hx, fun x' hx' => by rw [hgap]; exact weak_duality P x' y hx' hy hd⟩
  exact ⟨opt, fun x' h' => le_antisymm (h'.2 x hx) (opt.2 x' h'.1)⟩

example : (⟨fun _ _ => 1, fun _ => 4, fun _ => -1⟩ : LPF 1 2).IsOptimal (fun _ => 2) :=
  (weak_duality_cert _ (fun _ => 2) (fun _ => 1) ⟨by intro j; norm_num, by intro i; simp; norm_num⟩
    (by intro i; norm_num) (by intro j; simp) (by simp [LPF.obj]; norm_num)).1

/-- **[C] farkas_cert**: `y ≥ 0`, `Aᵀy ≥ 0`, `y·b < 0` ⇒ no feasible point. -/
theorem farkas_cert (y : Fin m → ℚ) (hy : ∀ i, 0 ≤ y i) (hd : ∀ j, 0 ≤ ∑ i, y i * P.A i j)
    (hb : ∑ i, y i * P.b i < 0) : P.Infeasible := by
  intro x hx
  have h1 : ∑ i, y i * (∑ j, P.A i j * x j) ≤ ∑ i, y i * P.b i :=
    Finset.sum_le_sum fun i _ => mul_le_mul_of_nonneg_left (hx.2 i) (hy i)
  have h2 := sum_swap P x y
  have h3 : 0 ≤ ∑ j, (∑ i, y i * P.A i j) * x j :=
    Finset.sum_nonneg fun j _ => mul_nonneg (hd j) (hx.1 j)
  linarith

example : (⟨fun _ _ => 1, fun _ => -1, fun _ => 0⟩ : LPF 1 1).Infeasible :=
  farkas_cert _ (fun _ => 1) (by intro i; norm_num) (by intro j; simp) (by simp)

/-- **[C] ray_cert**: `x` feasible, `d ≥ 0`, `A d ≤ 0`, `c·d < 0` ⇒ feasible points of
arbitrarily good objective exist. -/
theorem ray_cert (x d : Fin n → ℚ) (hx : P.Feasible x) (hd : ∀ j, 0 ≤ d j)
    (hAd : ∀ i, ∑ j, P.A i j * d j ≤ 0) (hcd : P.obj d < 0) : P.Unbounded := by
  refine ⟨⟨x, hx⟩, fun M => ?_⟩
  -- the point `x + t d` with `t = max 0 ((M - c·x)/(c·d)) + 1`
  let t : ℚ := max 0 ((M - P.obj x) / P.obj d) + 1
  have ht0 : 0 < t := by have := le_max_left 0 ((M - P.obj x) / P.obj d); linarith
  have ht1 : (M - P.obj x) / P.obj d < t := by
    have := le_max_right 0 ((M - P.obj x) / P.obj d); linarith
  refine ⟨fun j => x j + t * d j, ⟨fun j => ?_, fun i => ?_⟩, ?_⟩
  · have := hx.1 j; have := mul_nonneg ht0.le (hd j); linarith
  · have e : ∑ j, P.A i j * (x j + t * d j) = ∑ j, P.A i j * x j + t * ∑ j, P.A i j * d j := by
      rw [Finset.mul_sum, ← Finset.sum_add_distrib]
      exact Finset.sum_congr rfl fun j _ => by ring
    rw [e]
    have := hx.2 i
    have := mul_nonpos_of_nonneg_of_nonpos ht0.le (hAd i)
    linarith
  · have e : P.obj (fun j => x j + t * d j) = P.obj x + t * P.obj d := by
      unfold LPF.obj
      rw [Finset.mul_sum, ← Finset.sum_add_distrib]
      exact Finset.sum_congr rfl fun j _ => by ring
    rw [e]
    have h := (div_lt_iff_of_neg hcd).mp ht1
    linarith

example : (⟨fun _ _ => -1, fun _ => 0, fun _ => -1⟩ : LPF 1 1).Unbounded :=
  ray_cert _ (fun _ => 0) (fun _ => 1) ⟨by intro j; simp, by intro i; simp⟩ (by intro j; norm_num)
    (by intro i; simp) (by simp [LPF.obj])

/-- **[C] verdict_unique**: the three verdicts exclude each other, so for one LP at most one kind
of certificate can exist; "answers X exactly when X holds" is therefore decided by comparing the
status with a certified verdict. -/
theorem verdict_unique {s s' : Status} (h : P.Verdict s) (h' : P.Verdict s') : s = s' := by
  have oi : P.HasOptimum → P.Infeasible → False := fun ⟨x, hx⟩ hi => hi x hx.1
  have iu : P.Infeasible → P.Unbounded → False := fun hi ⟨⟨x, hx⟩, _⟩ => hi x hx
  have ou : P.HasOptimum → P.Unbounded → False := fun ⟨x, hx⟩ ⟨_, hu⟩ => by
    obtain ⟨x', hf, hlt⟩ := hu (P.obj x)
    exact absurd (hx.2 x' hf) (not_le.mpr hlt)
  cases s <;> cases s' <;> simp only [LPF.Verdict] at h h' <;>
    first
    | rfl | exact h.elim | exact h'.elim | exact (oi h h').elim | exact (oi h' h).elim
    | exact (iu h h').elim | exact (iu h' h).elim | exact (ou h h').elim | exact (ou h' h).elim

example : (⟨fun _ _ => 1, fun _ => -1, fun _ => 0⟩ : LPF 1 1).Verdict .INFEASIBLE :=
  farkas_cert _ (fun _ => 1) (by intro i; norm_num) (by intro j; simp) (by simp)

/-- **[C] approx_duality** (the interior-point `OPTIMAL` test).  Let `(x, s, y, zx, zs)` be an
iterate with `x, s, zx, zs ≥ 0` whose primal residual `A x + s − b`, dual residuals
`Aᵀy + zx − c` and `y + zs` are componentwise within `ε`, and whose complementarity
`zx·x + zs·s` is at most `(n+m)ε`.  Then
* `x` is feasible within `ε`;
* against every feasible `x'`: `c·x − c·x' ≤ ε·(‖y‖₁ + (n+m) + ‖x‖₁ + ‖s‖₁ + ‖x'‖₁ + ‖b − A x'‖₁)`;
* against every exactly certified optimum (`x*` with dual certificate `y*`):
  `c·x* − c·x ≤ ε·‖y*‖₁` (sensitivity of the optimum to the `ε`-relaxed right-hand side).
So the reported objective lies within an explicit `δ(ε)` of the optimum, `δ` linear in `ε` with the
box bounds on the iterate and on the optimum as coefficients. -/
theorem approx_duality (ε : ℚ) (hε : 0 ≤ ε) (x zx : Fin n → ℚ) (s y zs : Fin m → ℚ)
    (hx : ∀ j, 0 ≤ x j) (hs : ∀ i, 0 ≤ s i) (hzx : ∀ j, 0 ≤ zx j) (hzs : ∀ i, 0 ≤ zs i)
    (hrb : ∀ i, |∑ j, P.A i j * x j + s i - P.b i| ≤ ε)
    (hrc : ∀ j, |∑ i, y i * P.A i j + zx j - P.c j| ≤ ε)
    (hrs : ∀ i, |y i + zs i| ≤ ε)
    (hmu : ∑ j, zx j * x j + ∑ i, zs i * s i ≤ ((n : ℚ) + m) * ε) :
    P.FeasTol ε x ∧
    (∀ x', P.Feasible x' →
      P.obj x - P.obj x' ≤ ε * (∑ i, |y i| + ((n : ℚ) + m) + ∑ j, x j + ∑ i, s i + ∑ j, x' j
        + ∑ i, (P.b i - ∑ j, P.A i j * x' j))) ∧
    (∀ (xs : Fin n → ℚ) (ys : Fin m → ℚ), P.Feasible xs → (∀ i, 0 ≤ ys i) →
      (∀ j, 0 ≤ P.c j + ∑ i, ys i * P.A i j) → P.obj xs = -(∑ i, ys i * P.b i) →
      P.obj xs - P.obj x ≤ ε * ∑ i, ys i) := by
  have hft : P.FeasTol ε x := by
    refine ⟨fun j => by have := hx j; linarith, fun i => ?_⟩
    have := le_trans (le_abs_self _) (hrb i); have := hs i; linarith
  refine ⟨hft, fun x' hx' => ?_, fun xs ys _ hys hds hgap => ?_⟩
  · -- upper side
    let s' : Fin m → ℚ := fun i => P.b i - ∑ j, P.A i j * x' j
    have hs' : ∀ i, 0 ≤ s' i := fun i => by have := hx'.2 i; simp only [s']; linarith
    have e1 := obj_decomp P x zx y
    have e2 := yAx_decomp P x y s zs
    have e1' := obj_decomp P x' zx y
    have e2' := yAx_decomp P x' y s' zs
    have z0 : ∑ i, y i * (∑ j, P.A i j * x' j + s' i - P.b i) = 0 :=
      Finset.sum_eq_zero fun i _ => by simp only [s']; ring
    have w1 := sum_swap P x y
    have w1' := sum_swap P x' y
    have b1 := (sum_mul_le _ x hrc hx).2
    have b2 := (sum_mul_le _ s hrs hs).2
    have b3 := sum_mul_abs_le y _ hrb
    have b1' := (sum_mul_le _ x' hrc hx'.1).1
    have b2' := (sum_mul_le _ s' hrs hs').1
    have p1 : 0 ≤ ∑ j, zx j * x' j := Finset.sum_nonneg fun j _ => mul_nonneg (hzx j) (hx'.1 j)
    have p2 : 0 ≤ ∑ i, zs i * s' i := Finset.sum_nonneg fun i _ => mul_nonneg (hzs i) (hs' i)
    have exp : ε * (∑ i, |y i| + ((n : ℚ) + m) + ∑ j, x j + ∑ i, s i + ∑ j, x' j + ∑ i, s' i)
        = ε * ∑ i, |y i| + ((n : ℚ) + m) * ε + ε * ∑ j, x j + ε * ∑ i, s i + ε * ∑ j, x' j
          + ε * ∑ i, s' i := by ring
    show P.obj x - P.obj x' ≤ ε * (∑ i, |y i| + ((n : ℚ) + m) + ∑ j, x j + ∑ i, s i + ∑ j, x' j
        + ∑ i, s' i)
    rw [exp]
    linarith
  · -- lower side: weak duality of the exact certificate against the ε-feasible point
    have h1 : ∑ i, ys i * (∑ j, P.A i j * x j) ≤ ∑ i, ys i * (P.b i + ε) :=
      Finset.sum_le_sum fun i _ => mul_le_mul_of_nonneg_left (hft.2 i) (hys i)
    have h2 := sum_swap P x ys
    have h3 : 0 ≤ ∑ j, (P.c j + ∑ i, ys i * P.A i j) * x j :=
      Finset.sum_nonneg fun j _ => mul_nonneg (hds j) (hx j)
    have h4 : ∑ j, (P.c j + ∑ i, ys i * P.A i j) * x j
        = P.obj x + ∑ j, (∑ i, ys i * P.A i j) * x j := by
      unfold LPF.obj
      rw [← Finset.sum_add_distrib]; exact Finset.sum_congr rfl fun j _ => by ring
    have h5 : ∑ i, ys i * (P.b i + ε) = ∑ i, ys i * P.b i + ε * ∑ i, ys i := by
      rw [Finset.mul_sum, ← Finset.sum_add_distrib]; exact Finset.sum_congr rfl fun i _ => by ring
    linarith

/-- non-vacuity: the exact optimum `x = 2` of `min −x, x ≤ 2` with `y = 1` meets the hypotheses for
every `ε ≥ 0`. -/
example (ε : ℚ) (hε : 0 ≤ ε) :
    (⟨fun _ _ => 1, fun _ => 2, fun _ => -1⟩ : LPF 1 1).FeasTol ε (fun _ => 2) :=
  (approx_duality _ ε hε (fun _ => 2) (fun _ => 0) (fun _ => 0) (fun _ => -1) (fun _ => 1)
    (by intro; norm_num) (by intro; norm_num) (by intro; norm_num) (by intro; norm_num)
    (by intro i; simpa using hε) (by intro j; simpa using hε) (by intro i; simpa using hε)
    (by simp; positivity)).1

/-- componentwise bound from a 2-norm bound: `∑ r_i² ≤ ε²` ⇒ `|r_i| ≤ ε` -/
theorem abs_le_of_sum_sq_le {k : ℕ} (r : Fin k → ℚ) (ε : ℚ) (hε : 0 ≤ ε) (h : ∑ i, r i ^ 2 ≤ ε ^ 2)
    (i : Fin k) : |r i| ≤ ε :=
  abs_le_of_sq_le_sq (le_trans (Finset.single_le_sum (f := fun i => r i ^ 2)
    (fun i _ => sq_nonneg (r i)) (Finset.mem_univ i)) h) hε

/-- **[C] (interior point verdict logic)** the code's `OPTIMAL` test
`primal_inf < eps and dual_inf < eps and mu < eps` (2-norms of `rb = A x + s − b` and of
`rc = Aᵀy + z − c` over structural and slack columns, `mu = x·z/(n+m)`) implies the hypotheses of
`approx_duality`, hence its three conclusions, with `ε = eps`. -/
theorem ipm_optimal_test_sound (ε : ℚ) (hε : 0 ≤ ε) (x zx : Fin n → ℚ) (s y zs : Fin m → ℚ)
    (hx : ∀ j, 0 ≤ x j) (hs : ∀ i, 0 ≤ s i) (hzx : ∀ j, 0 ≤ zx j) (hzs : ∀ i, 0 ≤ zs i)
    (hprimal : ∑ i, (∑ j, P.A i j * x j + s i - P.b i) ^ 2 ≤ ε ^ 2)
    (hdual : ∑ j, (∑ i, y i * P.A i j + zx j - P.c j) ^ 2 + ∑ i, (y i + zs i) ^ 2 ≤ ε ^ 2)
    (hmu : (∑ j, zx j * x j + ∑ i, zs i * s i) / ((n : ℚ) + m) ≤ ε) (hnm : 0 < (n : ℚ) + m) :
    P.FeasTol ε x ∧
    (∀ x', P.Feasible x' →
      P.obj x - P.obj x' ≤ ε * (∑ i, |y i| + ((n : ℚ) + m) + ∑ j, x j + ∑ i, s i + ∑ j, x' j
        + ∑ i, (P.b i - ∑ j, P.A i j * x' j))) ∧
    (∀ (xs : Fin n → ℚ) (ys : Fin m → ℚ), P.Feasible xs → (∀ i, 0 ≤ ys i) →
      (∀ j, 0 ≤ P.c j + ∑ i, ys i * P.A i j) → P.obj xs = -(∑ i, ys i * P.b i) →
      P.obj xs - P.obj x ≤ ε * ∑ i, ys i) := by
  have h1 : 0 ≤ ∑ j, (∑ i, y i * P.A i j + zx j - P.c j) ^ 2 := Finset.sum_nonneg fun j _ => sq_nonneg _
  have h2 : 0 ≤ ∑ i, (y i + zs i) ^ 2 := Finset.sum_nonneg fun i _ => sq_nonneg _
  refine approx_duality P ε hε x zx s y zs hx hs hzx hzs
    (abs_le_of_sum_sq_le _ ε hε hprimal)
    (abs_le_of_sum_sq_le _ ε hε (by linarith))
    (abs_le_of_sum_sq_le _ ε hε (by linarith)) ?_
  have := (div_le_iff₀ hnm).mp hmu
  linarith

end spec

/-! ### The Bool checkers the driver evaluates (list data) are sound for the spec -/
section checkers
variable (P : LP)

/-- **T-spec** `chkFeasible` decides feasibility. -/
theorem chkFeasible_spec (x : Vec) : chkFeasible P x = true ↔ P.toF.Feasible (vecF P.n x) :=
  chkFeasible_iff P x

/-- **T-spec** an accepted optimality certificate proves: `x` is optimal for this input and its
objective value is the optimum. -/
theorem chkOptimal_sound (x y : Vec) (h : chkOptimal P x y = true) :
    P.toF.IsOptimal (vecF P.n x) ∧ ∀ x', P.toF.IsOptimal x' → P.toF.obj x' = P.objAt x := by
  unfold chkOptimal at h
  simp only [Bool.and_eq_true, allTo_iff, decide_eq_true_eq] at h
  obtain ⟨⟨⟨hf, hy⟩, hd⟩, hg⟩ := h
  rw [objAt_eq]
  refine weak_duality_cert P.toF (vecF P.n x) (vecF P.m y) ((chkFeasible_iff P x).mp hf) hy ?_ ?_
  · intro j; have := hd j; rw [colDot_eq] at this; exact this
  · rw [← objAt_eq, hg, rhsDot_eq]

/-- **T-spec** an accepted Farkas certificate proves infeasibility of this input. -/
theorem chkInfeasible_sound (y : Vec) (h : chkInfeasible P y = true) : P.toF.Infeasible := by
  unfold chkInfeasible at h
  simp only [Bool.and_eq_true, allTo_iff, decide_eq_true_eq] at h
  obtain ⟨⟨hy, hd⟩, hb⟩ := h
  refine farkas_cert P.toF (vecF P.m y) hy ?_ ?_
  · intro j; have := hd j; rw [colDot_eq] at this; exact this
  · rw [← rhsDot_eq]; exact hb

/-- **T-spec** an accepted vertex + ray proves unboundedness of this input. -/
theorem chkUnbounded_sound (x d : Vec) (h : chkUnbounded P x d = true) : P.toF.Unbounded := by
  unfold chkUnbounded at h
  simp only [Bool.and_eq_true, allTo_iff, decide_eq_true_eq] at h
  obtain ⟨⟨⟨hf, hd⟩, hAd⟩, hc⟩ := h
  refine ray_cert P.toF (vecF P.n x) (vecF P.n d) ((chkFeasible_iff P x).mp hf) hd ?_ ?_
  · intro i; have := hAd i; rw [rowDot_eq] at this; exact this
  · rw [← objAt_eq]; exact hc

/-- **T-spec** what the driver reports as "certified": the model's status is the true verdict of
this input whenever the checker belonging to that status accepts the model's certificate. -/
theorem certifies_sound (o : LpOut) (h : certifies P o = true) : P.toF.Verdict o.status := by
  unfold certifies at h
  cases hs : o.status <;> rw [hs] at h <;> simp only [LPF.Verdict] <;>
    first
    | exact ⟨_, (chkOptimal_sound P _ _ h).1⟩
    | exact chkInfeasible_sound P _ h
    | exact chkUnbounded_sound P _ _ h
    | exact absurd h (by simp)

/-- Two certified runs on the same input (the mirror at the code's `eps`, the exact run at
`eps = 0`, or any other solver's certificate) agree on the verdict. -/
theorem certified_status_unique (o o' : LpOut) (h : certifies P o = true) (h' : certifies P o' = true) :
    o.status = o'.status :=
  verdict_unique P.toF (certifies_sound P o h) (certifies_sound P o' h')

/-- **T-spec** tolerance checker on the implementation's point. -/
theorem chkFeasTol_iff (tol : ℚ) (x : Vec) :
    chkFeasTol P tol x = true ↔ P.toF.FeasTol tol (vecF P.n x) := by
  unfold chkFeasTol LPF.FeasTol
  rw [Bool.and_eq_true, allTo_iff, allTo_iff]
  simp only [decide_eq_true_eq]
  constructor
  · rintro ⟨h1, h2⟩; exact ⟨h1, fun i => by rw [← rowDot_eq]; exact h2 i⟩
  · rintro ⟨h1, h2⟩; exact ⟨h1, fun i => by rw [rowDot_eq]; exact h2 i⟩

/-- **T-spec** `|c·x − obj| ≤ tol`. -/
theorem chkObjAt_iff (tol : ℚ) (x : Vec) (obj : ℚ) :
    chkObjAt P tol x obj = true ↔ |P.toF.obj (vecF P.n x) - obj| ≤ tol := by
  unfold chkObjAt; rw [decide_eq_true_eq, absR_eq, objAt_eq]

/-- **T-spec** `|obj − opt| ≤ tol (1 + |opt|)`. -/
theorem chkObjNear_iff (tol obj opt : ℚ) :
    chkObjNear tol obj opt = true ↔ |obj - opt| ≤ tol * (1 + |opt|) := by
  unfold chkObjNear; rw [decide_eq_true_eq, absR_eq, absR_eq]

/-- **T-spec** the interior-point `FEASIBLE` check: `x ≥ 0` and the squared positive part of
`A x − b − δ` is at most `r²`, `δ_i = ulp·(∑_j |A_ij x_j| + |b_i| + 1)` the rounding allowance
(`ulp = 0`: the exact residual). -/
theorem chkResidual_iff (r ulp : ℚ) (x : Vec) :
    chkResidual P r ulp x = true ↔
      (∀ j : Fin P.n, 0 ≤ vecF P.n x j) ∧
      ∑ i : Fin P.m, (max 0 (∑ j, P.toF.A i j * vecF P.n x j - P.toF.b i
        - ulp * (∑ j, |P.toF.A i j * vecF P.n x j| + |P.toF.b i| + 1))) ^ 2 ≤ r ^ 2 := by
  unfold chkResidual
  rw [Bool.and_eq_true, allTo_iff]
  simp only [decide_eq_true_eq]
  have e : P.resid2 ulp x = ∑ i : Fin P.m, (max 0 (∑ j, P.toF.A i j * vecF P.n x j - P.toF.b i
      - ulp * (∑ j, |P.toF.A i j * vecF P.n x j| + |P.toF.b i| + 1))) ^ 2 := by
    unfold LP.resid2; rw [sumTo_eq_sum]
    refine Finset.sum_congr rfl fun i _ => ?_
    simp only []
    rw [rowDot_eq]
    have hb : P.toF.b i = vget P.b i := rfl
    have hs : P.roundSlack ulp x i = ulp * (∑ j, |P.toF.A i j * vecF P.n x j| + |P.toF.b i| + 1) := by
      unfold LP.roundSlack
      rw [sumTo_eq_sum, absR_eq, hb]
      have : ∑ j : Fin P.n, absR (P.a i j * vget x j) = ∑ j, |P.toF.A i j * vecF P.n x j| :=
        Finset.sum_congr rfl fun j _ => by rw [absR_eq]; rfl
      rw [this]
    rw [hs, hb]
    show (if 0 < _ then _ else _) = _
    split
    · rename_i h; rw [max_eq_right h.le]; ring
    · rename_i h; rw [max_eq_left (not_lt.mp h)]; ring
  rw [e, sq r]
  exact Iff.rfl

/-- The positive part of `A x − b` is the least primal residual: for every slack vector `s ≥ 0`,
`∑ max(0, (A x − b)_i)² ≤ ∑ (A x + s − b)_i²`.  So `primal_inf < 0.01` in the code (which has such an
`s`) implies the checker's condition. -/
theorem residual_least {m n : ℕ} (Q : LPF m n) (x : Fin n → ℚ) (s : Fin m → ℚ) (hs : ∀ i, 0 ≤ s i) :
    ∑ i, (max 0 (∑ j, Q.A i j * x j - Q.b i)) ^ 2 ≤ ∑ i, (∑ j, Q.A i j * x j + s i - Q.b i) ^ 2 := by
  refine Finset.sum_le_sum fun i _ => ?_
  rcases le_total (∑ j, Q.A i j * x j - Q.b i) 0 with h | h
  · rw [max_eq_left h]; simp only [ne_eq, OfNat.ofNat_ne_zero, not_false_eq_true, zero_pow]
    exact sq_nonneg _
  · rw [max_eq_right h]
    have := hs i
    nlinarith [sq_nonneg (s i)]

end checkers

/-! ### [S] `simplex_certifies`: the mirror emits a valid certificate on every input -/

/-- **[S] simplex_certifies**: for EVERY LP (any sign of `b`, any sense, any iteration budget) in
exact arithmetic (`eps = 0`): if the mirror of `solve_lp` stops with a verdict (not `MAX_ITER`), the
certificate it reads off the final tableau is accepted by the verified checker of that verdict –
OPTIMAL → dual vector, INFEASIBLE → Farkas vector from the phase-1 objective row, UNBOUNDED → vertex
and ray – so by `certifies_sound` the verdict is the true one, the returned vertex is optimal and the
reported objective is the optimum.  Proof: the tableau invariant `GInv` (`Tableau.lean`: rows in the
span of `[A I | b]` with the multipliers readable in the slack columns, basic columns unit vectors,
same solution set, objective functional, rhs ≥ 0, rows of unremovable artificials identically zero) is
established for the initial and for the artificial tableau, preserved by every Bland pivot and by the
pivot-out of basic artificials, and carried through column removal and objective restoration
(`Phase1.lean`).  (The restriction `eps = 0` could be relaxed to "`eps` below the smallest non-zero
magnitude that is compared"; not done.) -/
theorem simplex_certifies (c : Vec) (A : Mat) (b : Vec) (mn : Bool) (fuel : ℕ)
    (hA : ∀ i < b.length, (A.getD i []).length = c.length)
    (hst : (solveLp c A b mn 0 fuel).status ≠ .MAX_ITER) :
    certifies (mkLP c A b mn) (solveLp c A b mn 0 fuel) = true ∧
    (mkLP c A b mn).toF.Verdict (solveLp c A b mn 0 fuel).status :=
  ⟨solveLp_certifies c A b mn fuel hA hst, certifies_sound _ _ (solveLp_certifies c A b mn fuel hA hst)⟩

/-- non-vacuity: an LP that needs phase 1 and keeps an artificial basic (equality pair), an infeasible
one and an unbounded one all meet the hypotheses -/
example : (solveLp [1, 1] [[-1, -1], [1, 1]] [-2, 2] true 0 100).status = .OPTIMAL ∧
    (solveLp [1, 2] [[-1, 0], [0, -1], [1, 1]] [-1, -1, 1] true 0 100).status = .INFEASIBLE ∧
    (solveLp [-1, 0] [[1, -1], [-1, 1]] [1, -1] true 0 100).status = .UNBOUNDED ∧
    (∀ i < 2, (([[-1, -1], [1, 1]] : Mat).getD i []).length = 2) := by decide +kernel

/-! ## C04 — MILP -/
section milp

/-- **[C] isFeasible_iff**: the mirror of `_is_feasible` accepts exactly the points that are
non-negative, integral on the integer variables and satisfy the rows, each within `eps`. -/
theorem isFeasible_iff (P : LP) (ints : List ℕ) (eps : ℚ) (x : Vec) (hints : ∀ j ∈ ints, j < P.n) :
    isFeasible P ints eps x = true ↔ P.toF.MilpFeasTol (intSet P.n ints) eps (vecF P.n x) := by
  unfold isFeasible LPF.MilpFeasTol
  simp only [Bool.and_eq_true, allTo_iff, List.all_eq_true, Bool.not_eq_true', decide_eq_false_iff_not,
    not_lt, and_assoc]
  refine and_congr Iff.rfl (and_congr ?_ ?_)
  · constructor
    · intro h j hj
      exact (roundDist_le_iff _ _).mp (h j.val hj)
    · intro h j hj
      exact (roundDist_le_iff _ _).mpr (h ⟨j, hints j hj⟩ hj)
  · constructor
    · intro h i; have := h i; rw [rowDot_eq] at this; exact this
    · intro h i; rw [rowDot_eq]; exact h i

example : isFeasible ⟨[[1, 1]], [3], [1, 1]⟩ [0] (1 / 1000000) [2, 1 / 2] = true := by decide +kernel

/-- exact integer-feasibility is the `eps = 0` case of the filter -/
theorem milpFeasTol_zero {m n : ℕ} (Q : LPF m n) (I : Fin n → Prop) (x : Fin n → ℚ) :
    Q.MilpFeasTol I 0 x ↔ Q.MilpFeasible I x := by
  unfold LPF.MilpFeasTol LPF.MilpFeasible LPF.Feasible
  simp only [neg_zero, add_zero, abs_nonpos_iff, sub_eq_zero]
  constructor
  · rintro ⟨h1, h2, h3⟩; exact ⟨⟨h1, h3⟩, h2⟩
  · rintro ⟨⟨h1, h3⟩, h2⟩; exact ⟨h1, h2, h3⟩

/-- **[C] branch_covers**: the floor/ceil children of a node cover every point of the node's box
whose branching coordinate is an integer – no integer-feasible point is dropped by branching. -/
theorem branch_covers {n : ℕ} (B : Box n) (x : Fin n → ℚ) (j : Fin n) (v : ℚ) (hx : B.Mem x)
    (hz : ∃ z : ℤ, x j = z) : (B.left j v).Mem x ∨ (B.right j v).Mem x := by
  obtain ⟨z, hz⟩ := hz
  by_cases h : (z : ℚ) ≤ v
  · left
    intro k
    refine ⟨(hx k).1, fun hh hk => ?_⟩
    by_cases hkj : k = j
    · subst hkj
      simp only [Box.left, Function.update_self, Option.some.injEq] at hk
      rw [← hk, hz]
      exact_mod_cast Rat.le_floor_iff.mpr h
    · simp only [Box.left, Function.update_of_ne hkj] at hk
      exact (hx k).2 hh hk
  · right
    intro k
    refine ⟨?_, (hx k).2⟩
    by_cases hkj : k = j
    · subst hkj
      simp only [Box.right, Function.update_self]
      rw [hz]
      exact_mod_cast Rat.ceil_le_iff.mpr (not_le.mp h).le
    · simp only [Box.right, Function.update_of_ne hkj]
      exact (hx k).1

example : (⟨fun _ => 0, fun _ => none⟩ : Box 1).Mem (fun _ => 2) := fun _ => ⟨by norm_num, by simp⟩

/-- **[C] milpOracle_correct**: if the box certificate and the certificate of every run are accepted
(`oracleOk`), then
* a run with verdict UNBOUNDED ⇒ the MILP has integer-feasible points of arbitrarily good objective;
* otherwise, no OPTIMAL run ⇒ no integer-feasible point exists, and
* otherwise the least objective `v` over the OPTIMAL runs with its point `x` is the MILP optimum:
  `x` is integer-feasible, `c·x = v`, and no integer-feasible point has a smaller objective.
(`solve` is arbitrary: only its certificates matter.) -/
theorem milpOracle_correct (solve : LP → LpOut) (P : LP) (ints ub : List ℕ) (ys : List Vec)
    (hwf : P.A.length = P.b.length) (hints : ∀ j ∈ ints, j < P.n)
    (hok : oracleOk solve P ints ub ys = true) :
    (oracleUnb solve P ints ub = true →
      ∀ M : ℚ, ∃ x, P.toF.MilpFeasible (intSet P.n ints) x ∧ P.toF.obj x < M) ∧
    (oracleUnb solve P ints ub = false →
      match oracleBest solve P ints ub with
      | none => ∀ x, ¬ P.toF.MilpFeasible (intSet P.n ints) x
      | some (v, x) =>
        P.toF.MilpFeasible (intSet P.n ints) (vecF P.n x) ∧ P.toF.obj (vecF P.n x) = v ∧
        ∀ x', P.toF.MilpFeasible (intSet P.n ints) x' → v ≤ P.toF.obj x') := by
  unfold oracleOk at hok
  rw [Bool.and_eq_true, List.all_eq_true] at hok
  obtain ⟨hbox, hcert⟩ := hok
  have hlenub := chkBox_length P ints ub ys hbox
  -- every run belongs to an assignment of the right length and is certified
  have hrun : ∀ r ∈ oracleRuns solve P ints ub,
      ints.length = r.1.length ∧ (P.fix ints r.1).toF.Verdict r.2.status := by
    intro r hr
    refine ⟨?_, certifies_sound _ _ (hcert r hr)⟩
    simp only [oracleRuns, List.mem_map] at hr
    obtain ⟨a, ha, rfl⟩ := hr
    rw [assignments_length ub a ha, hlenub]
  -- a run for every integer-feasible point
  have hcover : ∀ x', P.toF.MilpFeasible (intSet P.n ints) x' →
      ∃ r ∈ oracleRuns solve P ints ub, (P.fix ints r.1).toF.Feasible x' := by
    intro x' hx'
    obtain ⟨a, ha, hf⟩ := milp_fixFeasible P hwf ints ub ys hints hbox x' hx'
    exact ⟨(a, solve (P.fix ints a)), List.mem_map.mpr ⟨a, ha, rfl⟩, hf⟩
  constructor
  · intro hu M
    simp only [oracleUnb, List.any_eq_true, decide_eq_true_eq] at hu
    obtain ⟨r, hr, hs⟩ := hu
    obtain ⟨hlen, hv⟩ := hrun r hr
    rw [hs] at hv
    obtain ⟨x, hxf, hxM⟩ := hv.2 M
    exact ⟨x, fixFeasible_milp P hwf ints r.1 hlen hints x hxf, hxM⟩
  · intro hu
    have hnu : ∀ r ∈ oracleRuns solve P ints ub, r.2.status ≠ .UNBOUNDED := by
      intro r hr hs
      have : oracleUnb solve P ints ub = true := by
        simp only [oracleUnb, List.any_eq_true, decide_eq_true_eq]; exact ⟨r, hr, hs⟩
      rw [hu] at this; cases this
    -- the run of an integer-feasible point is OPTIMAL and bounds its objective
    have hopt : ∀ x', P.toF.MilpFeasible (intSet P.n ints) x' →
        ∃ r ∈ oracleRuns solve P ints ub, r.2.status = .OPTIMAL ∧ P.objAt r.2.x ≤ P.toF.obj x' := by
      intro x' hx'
      obtain ⟨r, hr, hf⟩ := hcover x' hx'
      refine ⟨r, hr, ?_⟩
      have hc := hcert r hr
      obtain ⟨_, hv⟩ := hrun r hr
      cases hs : r.2.status with
      | OPTIMAL =>
        refine ⟨rfl, ?_⟩
        unfold certifies at hc
        rw [hs] at hc
        have := (chkOptimal_sound (P.fix ints r.1) _ _ hc).1.2 x' hf
        rw [← objAt_eq] at this
        exact this
      | INFEASIBLE => rw [hs] at hv; exact absurd hf (hv x')
      | UNBOUNDED => exact absurd hs (hnu r hr)
      | FEASIBLE => rw [hs] at hv; exact hv.elim
      | MAX_ITER => rw [hs] at hv; exact hv.elim
    have hb := foldl_best P (oracleRuns solve P ints ub) none
    unfold oracleBest
    cases hbest : List.foldl (bestStep P) none (oracleRuns solve P ints ub) with
    | none =>
      rw [hbest] at hb
      simp only at hb ⊢
      intro x' hx'
      obtain ⟨r, hr, hs, _⟩ := hopt x' hx'
      exact hb.2 r hr hs
    | some p =>
      obtain ⟨v, x⟩ := p
      rw [hbest] at hb
      simp only at hb ⊢
      obtain ⟨h1, _, h3⟩ := hb
      rcases h1 with h1 | ⟨r, hr, hs, hx, hvx⟩
      · cases h1
      · obtain ⟨hlen, _⟩ := hrun r hr
        have hc := hcert r hr
        unfold certifies at hc
        rw [hs] at hc
        have hfe := (chkOptimal_sound (P.fix ints r.1) _ _ hc).1.1
        refine ⟨?_, ?_, ?_⟩
        · rw [hx]; exact fixFeasible_milp P hwf ints r.1 hlen hints _ hfe
        · rw [hvx, hx, objAt_eq]
        · intro x' hx'
          obtain ⟨r', hr', hs', hle⟩ := hopt x' hx'
          exact le_trans (h3 r' hr' hs') hle

/-- non-vacuity: `max x + y, 2x + 2y ≤ 3, x, y ∈ {0,1}`; the box `[1,1]` with the dual vectors
`[1/2]`, the exact simplex as solver: the oracle accepts and reports the optimum `−1` (minimising `−x−y`). -/
example : oracleOk exactSolve ⟨[[2, 2]], [3], [-1, -1]⟩ [0, 1] [1, 1] [[1 / 2], [1 / 2]] = true ∧
    (oracleBest exactSolve ⟨[[2, 2]], [3], [-1, -1]⟩ [0, 1] [1, 1]).map (·.1) = some (-1) := by
  decide +kernel

/-- The relaxation's Farkas certificate already settles `INFEASIBLE` for the MILP. -/
theorem relaxation_infeasible {m n : ℕ} (Q : LPF m n) (I : Fin n → Prop) (h : Q.Infeasible) :
    ∀ x, ¬ Q.MilpFeasible I x := fun x hx => h x hx.1

/-- **[S] binary_tightening_sound**: for integer data and `0 < eps < 1` (the property's quantifier;
`eps = 1e-6` in the code), whenever `_detect_binary` fires – every integer variable has an explicit
row `x_j ≤ 1` – every integer-feasible point has `x_j ≤ 1` on the integer variables, so tightening
their upper bounds to `1` (lines 132-135) drops no integer-feasible point. -/
theorem binary_tightening_sound (P : LP) (ints : List ℕ) (eps : ℚ) (heps : eps < 1)
    (hA : ∀ i j, ∃ z : ℤ, P.a i j = z) (hb : ∀ i, ∃ z : ℤ, vget P.b i = z)
    (hdet : detectBinary P ints eps = true) :
    ∀ x, P.toF.MilpFeasible (intSet P.n ints) x → ∀ j, intSet P.n ints j → x j ≤ 1 := by
  unfold detectBinary at hdet
  rw [Bool.and_eq_true, decide_eq_true_eq, decide_eq_true_eq] at hdet
  obtain ⟨hlen, _⟩ := hdet
  -- the set of bounded variables is the set of integer variables
  have hsub : (boundedVars P ints eps).eraseDups ⊆ ints := by
    intro j hj
    rw [List.mem_eraseDups] at hj
    obtain ⟨_, _, _, _, hji, _⟩ := boundedVars_spec P ints eps j hj
    exact hji
  have hperm := (List.subperm_of_subset (nodup_eraseDups _ _ (le_refl _)) hsub).perm_of_length_le
    (by rw [hlen])
  intro x hx j hj
  have hjb : j.val ∈ boundedVars P ints eps := by
    rw [← List.mem_eraseDups]; exact hperm.mem_iff.mpr hj
  obtain ⟨i, hi, hbi, hnz, _, hco⟩ := boundedVars_spec P ints eps j.val hjb
  -- the row is `e_j`, its right-hand side is 1
  have hb1 : vget P.b i = 1 := by
    have := int_of_abs_le (q := vget P.b i - 1)
      (by obtain ⟨z, hz⟩ := hb i; exact ⟨z - 1, by rw [hz]; push_cast; ring⟩) hbi heps
    linarith
  have ha1 : P.a i j.val = 1 := by
    have := int_of_abs_le (q := P.a i j.val - 1)
      (by obtain ⟨z, hz⟩ := hA i j.val; exact ⟨z - 1, by rw [hz]; push_cast; ring⟩) hco.le heps
    linarith
  have ha0 : ∀ j' : Fin P.n, j' ≠ j → P.a i j'.val = 0 := by
    intro j' hne
    have hnot : j'.val ∉ rowNz P eps i := by
      rw [hnz, List.mem_singleton]; exact fun e => hne (Fin.ext e)
    unfold rowNz at hnot
    rw [List.mem_filter, List.mem_range, decide_eq_true_eq, absR_eq] at hnot
    have : |P.a i j'.val| ≤ eps := not_lt.mp (fun h => hnot ⟨j'.isLt, h⟩)
    exact int_of_abs_le (hA i j'.val) this heps
  have hrow := hx.1.2 ⟨i, hi⟩
  have hsum : ∑ j' : Fin P.n, P.toF.A ⟨i, hi⟩ j' * x j' = x j := by
    rw [Finset.sum_eq_single j]
    · show P.a i j.val * x j = x j
      rw [ha1, one_mul]
    · intro j' _ hne
      show P.a i j'.val * x j' = 0
      rw [ha0 j' hne, zero_mul]
    · intro h; exact absurd (Finset.mem_univ _) h
  rw [hsum] at hrow
  have : P.toF.b ⟨i, hi⟩ = 1 := hb1
  linarith

example : detectBinary ⟨[[3, 5], [1, 0], [0, 1]], [8, 1, 1], [1, 1]⟩ [0, 1] (1 / 1000000) = true := by
  decide +kernel

/-! ### abstract branch and bound -/
section bnb
variable {Pt : Type} (Feas Acc : Pt → Prop) (obj : Pt → ℚ) (eps : ℚ)

theorem offer_spec (inc : Option (Pt × ℚ)) (q : Pt) (w : ℚ) :
    ∃ p v, BState.offer inc q w = some (p, v) ∧ v ≤ w ∧ (∀ p0 v0, inc = some (p0, v0) → v ≤ v0) ∧
      ((p, v) = (q, w) ∨ inc = some (p, v)) := by
  unfold BState.offer
  cases inc with
  | none => exact ⟨q, w, rfl, le_refl _, by simp, Or.inl rfl⟩
  | some pv =>
    obtain ⟨p0, v0⟩ := pv
    by_cases h : w < v0
    · simp only [h, if_true]
      exact ⟨q, w, rfl, le_refl _, fun _ _ e => by cases e; exact h.le, Or.inl rfl⟩
    · simp only [h, if_false]
      exact ⟨p0, v0, rfl, not_lt.mp h, fun _ _ e => by cases e; exact le_refl _, Or.inr rfl⟩

/-- **[C] bnb_invariant**: every step of the loop preserves the invariant – each open node's bound
is a lower bound of its region, every integer-feasible point that beats the incumbent by more than
`eps` lies in the region of some open node, and the incumbent passed the filter with `obj = c·x`. -/
theorem bnb_invariant (heps : 0 ≤ eps) (s s' : BState Pt) (h : BInv Feas Acc obj eps s)
    (st : BStep Feas Acc obj eps s s') : BInv Feas Acc obj eps s' := by
  obtain ⟨hb, hc, hi⟩ := h
  -- coverage survives the removal of a node that contains no point better than the incumbent
  have drop : ∀ (inc : Option (Pt × ℚ)) (l₁ : List (BNode Pt)) (N : BNode Pt) (l₂ : List (BNode Pt)),
      (∀ y, Feas y → (∀ p v, inc = some (p, v) → obj y < v - eps) →
        ∃ M ∈ l₁ ++ N :: l₂, M.region y) →
      (∀ y, Feas y → N.region y → (∀ p v, inc = some (p, v) → obj y < v - eps) → False) →
      ∀ y, Feas y → (∀ p v, inc = some (p, v) → obj y < v - eps) → ∃ M ∈ l₁ ++ l₂, M.region y := by
    intro inc l₁ N l₂ hcov hno y hy hbt
    obtain ⟨M, hM, hr⟩ := hcov y hy hbt
    rcases List.mem_append.mp hM with h1 | h1
    · exact ⟨M, List.mem_append_left _ h1, hr⟩
    · rcases List.mem_cons.mp h1 with rfl | h2
      · exact (hno y hy hr hbt).elim
      · exact ⟨M, List.mem_append_right _ h2, hr⟩
  have sub : ∀ (l₁ : List (BNode Pt)) (N : BNode Pt) (l₂ : List (BNode Pt)),
      ∀ M ∈ l₁ ++ l₂, M ∈ l₁ ++ N :: l₂ := by
    intro l₁ N l₂ M hM
    rcases List.mem_append.mp hM with h | h
    · exact List.mem_append_left _ h
    · exact List.mem_append_right _ (List.mem_cons_of_mem _ h)
  -- a point that beats the offered incumbent beats the old one
  have beats : ∀ (inc : Option (Pt × ℚ)) (q : Pt) (w : ℚ) (y : Pt),
      (∀ p v, BState.offer inc q w = some (p, v) → obj y < v - eps) →
      obj y < w - eps ∧ ∀ p v, inc = some (p, v) → obj y < v - eps := by
    intro inc q w y hbt
    obtain ⟨p', v', he, hle, hmono, _⟩ := offer_spec inc q w
    have := hbt p' v' he
    exact ⟨by linarith, fun p v e => by have := hmono p v e; linarith⟩
  have offered : ∀ (inc : Option (Pt × ℚ)) (q : Pt) (w : ℚ), Acc q → obj q = w →
      (∀ p v, inc = some (p, v) → Acc p ∧ obj p = v) →
      ∀ p v, BState.offer inc q w = some (p, v) → Acc p ∧ obj p = v := by
    intro inc q w hacc hobj hinc p v e
    obtain ⟨p', v', he, _, _, hwho⟩ := offer_spec inc q w
    rw [he] at e; cases e
    rcases hwho with h | h
    · cases h; exact ⟨hacc, hobj⟩
    · exact hinc _ _ h
  cases st with
  | prune p v l₁ N l₂ hpr =>
    refine ⟨fun M hM => hb M (sub l₁ N l₂ M hM), ?_, hi⟩
    refine drop _ l₁ N l₂ hc (fun y hy hr hbt => ?_)
    have h1 := hb N (List.mem_append_right _ List.mem_cons_self) y hy hr
    have h2 := hbt p v rfl
    linarith
  | infeasible inc l₁ N l₂ hinf =>
    exact ⟨fun M hM => hb M (sub l₁ N l₂ M hM), drop _ l₁ N l₂ hc (fun y hy hr _ => hinf y hy hr), hi⟩
  | boundDrop p v l₁ N l₂ r hr hvr =>
    refine ⟨fun M hM => hb M (sub l₁ N l₂ M hM), ?_, hi⟩
    refine drop _ l₁ N l₂ hc (fun y hy hry hbt => ?_)
    have h1 := hr y hy hry
    have h2 := hbt p v rfl
    linarith
  | integral inc l₁ N l₂ q r hr hacc hobj =>
    refine ⟨fun M hM => hb M (sub l₁ N l₂ M hM), ?_, offered inc q r hacc hobj hi⟩
    intro y hy hbt
    obtain ⟨hyw, hold⟩ := beats inc q r y hbt
    obtain ⟨M, hM, hrM⟩ := hc y hy hold
    rcases List.mem_append.mp hM with h1 | h1
    · exact ⟨M, List.mem_append_left _ h1, hrM⟩
    · rcases List.mem_cons.mp h1 with rfl | h2
      · have := hr y hy hrM
        exfalso; linarith
      · exact ⟨M, List.mem_append_right _ h2, hrM⟩
  | branch inc l₁ N l₂ L R r hr hcov hLN hRN hL hR =>
    refine ⟨?_, ?_, hi⟩
    · intro M hM y hy hrM
      rcases List.mem_cons.mp hM with rfl | hM
      · rw [hL]; exact hr y hy (hLN y hrM)
      · rcases List.mem_cons.mp hM with rfl | hM
        · rw [hR]; exact hr y hy (hRN y hrM)
        · exact hb M (sub l₁ N l₂ M hM) y hy hrM
    · intro y hy hbt
      obtain ⟨M, hM, hrM⟩ := hc y hy hbt
      rcases List.mem_append.mp hM with h1 | h1
      · exact ⟨M, List.mem_cons_of_mem _ (List.mem_cons_of_mem _ (List.mem_append_left _ h1)), hrM⟩
      · rcases List.mem_cons.mp h1 with rfl | h2
        · rcases hcov y hy hrM with h | h
          · exact ⟨L, List.mem_cons_self, h⟩
          · exact ⟨R, List.mem_cons_of_mem _ List.mem_cons_self, h⟩
        · exact ⟨M, List.mem_cons_of_mem _ (List.mem_cons_of_mem _ (List.mem_append_right _ h2)), hrM⟩
  | heuristic inc l q hacc =>
    refine ⟨hb, fun y hy hbt => hc y hy (beats inc q (obj q) y hbt).2, offered inc q (obj q) hacc rfl hi⟩

/-- the invariant holds along every run of the loop -/
theorem bnb_reachable (heps : 0 ≤ eps) (s s' : BState Pt) (h : BInv Feas Acc obj eps s)
    (run : Relation.ReflTransGen (BStep Feas Acc obj eps) s s') : BInv Feas Acc obj eps s' := by
  induction run with
  | refl => exact h
  | tail _ st ih => exact bnb_invariant Feas Acc obj eps heps _ _ ih st

/-- the start of the loop: one root node whose bound is the root LP value, no incumbent -/
theorem bnb_init (root : BNode Pt) (hroot : ∀ y, Feas y → root.region y)
    (hbound : ∀ y, Feas y → root.bound ≤ obj y) : BInv Feas Acc obj eps ⟨none, [root]⟩ := by
  refine ⟨fun N hN y hy _ => ?_, fun y hy _ => ⟨root, List.mem_singleton.mpr rfl, hroot y hy⟩,
    fun p v e => by cases e⟩
  rw [List.mem_singleton.mp hN]; exact hbound y hy

/-- **[C] bnb_optimal**: tree empty ⇒ the incumbent is optimal within `eps` among all
integer-feasible points (status `OPTIMAL` at the end of the loop). -/
theorem bnb_optimal (s : BState Pt) (h : BInv Feas Acc obj eps s) (hempty : s.nodes = [])
    (p : Pt) (v : ℚ) (hinc : s.inc = some (p, v)) :
    Acc p ∧ obj p = v ∧ ∀ y, Feas y → v - eps ≤ obj y := by
  obtain ⟨_, hc, hi⟩ := h
  refine ⟨(hi p v hinc).1, (hi p v hinc).2, fun y hy => ?_⟩
  by_contra hlt
  obtain ⟨N, hN, _⟩ := hc y hy (fun p' v' e => by rw [hinc] at e; cases e; exact not_le.mp hlt)
  rw [hempty] at hN; cases hN

/-- **[C] bnb_infeasible**: tree empty and no incumbent ⇒ no integer-feasible point exists. -/
theorem bnb_infeasible (s : BState Pt) (h : BInv Feas Acc obj eps s) (hempty : s.nodes = [])
    (hinc : s.inc = none) : ∀ y, ¬ Feas y := by
  intro y hy
  obtain ⟨N, hN, _⟩ := h.2.1 y hy (fun p v e => by rw [hinc] at e; cases e)
  rw [hempty] at hN; cases hN

/-- **[C] heuristic_incumbent_feasible**: along every run, whatever the heuristics proposed, the
incumbent passed the filter and its recorded objective is `c·x`. -/
theorem heuristic_incumbent_feasible (heps : 0 ≤ eps) (s s' : BState Pt) (h : BInv Feas Acc obj eps s)
    (run : Relation.ReflTransGen (BStep Feas Acc obj eps) s s') (p : Pt) (v : ℚ)
    (hinc : s'.inc = some (p, v)) : Acc p ∧ obj p = v :=
  (bnb_reachable Feas Acc obj eps heps s s' h run).2.2 p v hinc

/-- the early `gap < gap_tol` return and the `FEASIBLE` exit: with `L` below every open bound, every
integer-feasible point has objective at least `min (v − eps) L`. -/
theorem bnb_gap (s : BState Pt) (h : BInv Feas Acc obj eps s) (p : Pt) (v L : ℚ)
    (hinc : s.inc = some (p, v)) (hL : ∀ N ∈ s.nodes, L ≤ N.bound) :
    ∀ y, Feas y → min (v - eps) L ≤ obj y := by
  intro y hy
  by_cases hlt : obj y < v - eps
  · obtain ⟨N, hN, hr⟩ := h.2.1 y hy (fun p' v' e => by rw [hinc] at e; cases e; exact hlt)
    exact le_trans (min_le_right _ _) (le_trans (hL N hN) (h.1 N hN y hy hr))
  · exact le_trans (min_le_left _ _) (not_lt.mp hlt)

/-- non-vacuity: points `ℤ`, everything feasible in `{0,1,2}`, objective `y ↦ −y`; root, one
`integral` step installing `2`; the tree is then empty and `bnb_optimal` applies. -/
example : ∀ y : ℤ, (0 ≤ y ∧ y ≤ 2) → (-2 : ℚ) - 0 ≤ -(y : ℚ) := by
  have root : BNode ℤ := ⟨fun _ => True, -2⟩
  have h0 : BInv (fun y : ℤ => 0 ≤ y ∧ y ≤ 2) (fun _ => True) (fun y => -(y : ℚ)) 0
      ⟨none, [] ++ (⟨fun _ => True, -2⟩ : BNode ℤ) :: []⟩ :=
    bnb_init _ _ _ 0 ⟨fun _ => True, -2⟩ (fun _ _ => trivial) (fun y hy => by
      have : (y : ℚ) ≤ 2 := by exact_mod_cast hy.2
      show (-2 : ℚ) ≤ -(y : ℚ); linarith)
  have h1 := bnb_invariant _ _ _ 0 (le_refl _) _ _ h0
    (BStep.integral none [] ⟨fun _ => True, -2⟩ [] (2 : ℤ) (-2) (fun y hy _ => by
      have : (y : ℚ) ≤ 2 := by exact_mod_cast hy.2
      show (-2 : ℚ) ≤ -(y : ℚ); linarith) trivial (by norm_num))
  exact (bnb_optimal _ _ _ 0 _ h1 rfl 2 (-2) rfl).2.2

/-- The branching hypothesis of `BStep.branch` is discharged by `branch_covers`: for the MILP with
integer set `I`, boxes as regions and `j ∈ I`, the children cover the node. -/
theorem branch_step_covers {m n : ℕ} (Q : LPF m n) (I : Fin n → Prop) (B : Box n) (j : Fin n)
    (hj : I j) (v : ℚ) :
    (∀ y, Q.MilpFeasible I y → B.Mem y → (B.left j v).Mem y ∨ (B.right j v).Mem y) :=
  fun y hy hB => branch_covers B y j v hB (hy.2 j hj)

/-- … and the children are sub-boxes of the node when the branching value lies in the node's box
(`floor(val) ≤ val ≤ upper[j]`, `lower[j] ≤ val ≤ ceil(val)`), the other hypothesis of `BStep.branch`. -/
theorem branch_children_sub {n : ℕ} (B : Box n) (j : Fin n) (v : ℚ)
    (hhi : ∀ h, B.hi j = some h → v ≤ h) (hlo : B.lo j ≤ v) :
    (∀ y, (B.left j v).Mem y → B.Mem y) ∧ (∀ y, (B.right j v).Mem y → B.Mem y) := by
  have hfl : ((v.floor : ℤ) : ℚ) ≤ v := Rat.floor_le v
  have hce : v ≤ ((v.ceil : ℤ) : ℚ) := Rat.ceil_le_iff.mp (le_refl _)
  constructor
  · intro y hy k
    refine ⟨(hy k).1, fun h hk => ?_⟩
    by_cases hkj : k = j
    · subst hkj
      have := (hy k).2 (v.floor : ℚ) (by simp [Box.left])
      exact le_trans this (le_trans hfl (hhi h hk))
    · exact (hy k).2 h (by simp only [Box.left, Function.update_of_ne hkj]; exact hk)
  · intro y hy k
    refine ⟨?_, (hy k).2⟩
    by_cases hkj : k = j
    · subst hkj
      have := (hy k).1
      simp only [Box.right, Function.update_self] at this
      exact le_trans hlo (le_trans hce this)
    · have := (hy k).1
      simp only [Box.right, Function.update_of_ne hkj] at this
      exact this

end bnb

/-! ### the mirror `Lp.Bnb` of `solve_milp(heuristics=False)` refines the abstract branch and bound -/

/-- **T-spec** `nodeCheck` (evaluated by the driver on every node the mirror explores, with the exact
certifying simplex on the node relaxation) decides what branch and bound needs from the node oracle. -/
theorem nodeCheck_sound (M : MilpIn) (eps : ℚ) (lower : List ℚ) (upper : List (Option ℚ)) (r : NodeRes)
    (hwf : M.A.length = M.b.length) (h : nodeCheck M eps lower upper r = true) :
    NodeOK M eps lower upper r := by
  have hwfP : M.P.A.length = M.P.b.length := hwf
  -- a feasible point of the MILP in the box is feasible for the node relaxation
  have inBox : ∀ y, MFeas M y → boxMem M.P.n lower upper y → (M.P.box lower upper).toF.Feasible (vecF M.P.n y) := by
    intro y hy hb
    refine (feasible_box_iff M.P hwfP lower upper _).mpr ⟨hy.1, fun j hj => ?_⟩
    rw [extN_vecF _ _ hj]; exact hb j hj
  unfold nodeCheck at h
  simp only [] at h
  by_cases hst : r.status = .OPTIMAL
  · have hne : ¬ (r.status != .OPTIMAL) = true := by simp [hst]
    rw [if_neg hne] at h
    simp only [Bool.and_eq_true, decide_eq_true_eq, beq_iff_eq, Bool.or_eq_true] at h
    obtain ⟨⟨⟨⟨⟨hes, hcert⟩, hle⟩, hacc⟩, hobj⟩, hbox⟩ := h
    refine ⟨fun hn => absurd hst hn, fun _ y hy hb => ?_, fun _ => hobj, fun _ hm => ?_, fun _ j hj => ?_⟩
    · unfold certifies at hcert
      rw [hes] at hcert
      have hopt := (chkOptimal_sound (M.P.box lower upper) _ _ hcert).1.2 _ (inBox y hy hb)
      rw [← objAt_eq] at hopt
      have e : (M.P.box lower upper).toF.obj (vecF M.P.n y) = mobj M y := by
        unfold mobj; rw [objAt_eq]; rfl
      rw [e] at hopt
      exact le_trans hle hopt
    · rcases hacc with hs | hf
      · rw [hm] at hs; cases hs
      · exact ⟨by simpa using hf.1, hf.2⟩
    · unfold inBoxOn at hbox
      rw [List.all_eq_true] at hbox
      have := hbox j hj
      rw [Bool.and_eq_true, decide_eq_true_eq] at this
      refine ⟨this.1, fun hh hu => ?_⟩
      have h2 := this.2
      rw [hu] at h2
      simpa using h2
  · have hne : (r.status != .OPTIMAL) = true := by simpa using hst
    rw [if_pos hne] at h
    simp only [Bool.and_eq_true, beq_iff_eq] at h
    obtain ⟨hes, hcert⟩ := h
    refine ⟨fun _ y hy hb => ?_, fun h' => absurd h' hst, fun h' => absurd h' hst,
      fun h' => absurd h' hst, fun h' => absurd h' hst⟩
    unfold certifies at hcert
    rw [hes] at hcert
    exact chkInfeasible_sound (M.P.box lower upper) _ hcert _ (inBox y hy hb)


/-- **[S] bnb_mirror_refines**: every continuing pass of the mirror's `while` loop is a step of the
abstract branch and bound (`BStep`: prune / infeasible node / bound drop / integral candidate /
branch), provided the popped node passed `nodeCheck`; so `bnb_invariant` holds along the mirror's
run and `bnb_optimal`, `bnb_infeasible`, `bnb_gap` apply to its final state. -/
theorem bnb_mirror_refines (M : MilpIn) (cfg : MilpCfg) (s s' : TState) (node : TNode) (rest : List TNode)
    (hA : M.A.length = M.b.length) (hints : ∀ j ∈ M.ints, j < M.P.n) (hwf : TWF M s)
    (hpop : popMin s.tree = some (node, rest)) (h : bnbIter M cfg s = .cont s')
    (hok : prunedBy M.sign cfg.eps s.best node.bound = false →
      nodeCheck M cfg.eps node.lower node.upper (solveNode M cfg.eps cfg.maxIter node.lower node.upper) = true) :
    BStep (MFeas M) (MAcc M cfg.eps) (mobj M) cfg.eps (absState M s) (absState M s') ∧ TWF M s' :=
  bnbIter_refines M cfg s s' node rest hints hwf hpop h
    (fun hp => nodeCheck_sound M cfg.eps _ _ _ hA (hok hp))


section mirrorSound
variable (M : MilpIn) (cfg : MilpCfg)

theorem popMin_some_of_ne : ∀ (l : List TNode), l.isEmpty = false → ∃ a rest, popMin l = some (a, rest)
  | [], h => by simp at h
  | x :: xs, _ => by
    unfold popMin
    cases popMin xs with
    | none => exact ⟨x, [], rfl⟩
    | some q =>
      obtain ⟨m, rest'⟩ := q
      simp only []
      split
      · exact ⟨_, _, rfl⟩
      · exact ⟨_, _, rfl⟩

/-- the slack with which `OPTIMAL` is meant: the pruning slack `eps`, or the relative gap of the
early `gap < gap_tol` return -/
def optSlack (cfg : MilpCfg) (bo : ℚ) : ℚ :=
  max cfg.eps (cfg.gapTol * (if absR bo < 1 / 10000000000 then 1 else absR bo))

/-- what the statuses of the mirror's answer claim -/
def MilpPost (M : MilpIn) (cfg : MilpCfg) (o : MilpOut) : Prop :=
  (o.status = .INFEASIBLE → ∀ y, ¬ MFeas M y) ∧
  (o.status = .OPTIMAL → ∃ x bo, o.x = some x ∧ o.objective = some bo ∧ MAcc M cfg.eps x ∧
    mobj M x = M.sign * bo ∧ ∀ y, MFeas M y → M.sign * bo - optSlack cfg bo ≤ mobj M y)

theorem finish_post (s : TState)
    (hinv : BInv (MFeas M) (MAcc M cfg.eps) (mobj M) cfg.eps (absState M s)) :
    MilpPost M cfg (bnbFinish cfg s) := by
  unfold bnbFinish
  cases hb : s.best with
  | none =>
    simp only []
    refine ⟨fun hst => ?_, fun hst => ?_⟩
    · have hem : s.tree = [] := by
        by_contra hne
        have : s.tree.isEmpty = false := by simpa using hne
        rw [this] at hst; simp at hst
      exact bnb_infeasible _ _ _ _ _ hinv (by simp [absState, hem]) (by simp [absState, hb])
    · split at hst <;> cases hst
  | some p =>
    obtain ⟨x, bo⟩ := p
    simp only []
    refine ⟨fun hst => (by split at hst <;> cases hst), fun hst => ?_⟩
    have hem : s.tree = [] := by
      by_contra hne
      have : s.tree.isEmpty = false := by simpa using hne
      rw [this] at hst; simp at hst
    obtain ⟨h1, h2, h3⟩ := bnb_optimal _ _ _ _ _ hinv (by simp [absState, hem]) x (M.sign * bo)
      (by simp [absState, hb])
    refine ⟨x, bo, rfl, rfl, h1, h2, fun y hy => ?_⟩
    have := h3 y hy
    have : cfg.eps ≤ optSlack cfg bo := le_max_left _ _
    linarith

theorem loop_ok_mono : ∀ (fuel : ℕ) (s : TState), (bnbLoop M cfg fuel s).ok = true → s.ok = true
  | 0, s, h => by
    unfold bnbLoop bnbFinish at h
    cases hb : s.best <;> rw [hb] at h <;> exact h
  | fuel + 1, s, h => by
    unfold bnbLoop at h
    split at h
    · unfold bnbFinish at h
      cases hb : s.best <;> rw [hb] at h <;> exact h
    · rename_i htest
      have hne : s.tree.isEmpty = false := by
        cases he : s.tree.isEmpty with
        | true => rw [he] at htest; simp at htest
        | false => rfl
      obtain ⟨node, rest, hpop⟩ := popMin_some_of_ne s.tree hne
      cases hit : bnbIter M cfg s with
      | done o =>
        rw [hit] at h
        obtain ⟨_, _, hok, _⟩ := bnbIter_done M cfg s o node rest hpop hit
        rw [hok, Bool.and_eq_true] at h
        exact h.1
      | cont s' =>
        rw [hit] at h
        have hs' := loop_ok_mono fuel s' h
        rcases bnbIter_cont M cfg s s' node rest hpop hit with ⟨_, _, _, hok⟩ | ⟨_, hok, _⟩
        · rw [hok] at hs'; exact hs'
        · rw [hok, Bool.and_eq_true] at hs'; exact hs'.1

/-- **[S] bnb_mirror_sound**: `bnb_optimal` / `bnb_infeasible` / `bnb_gap` transferred to the mirror of
`solve_milp(heuristics=False)`: from a loop state whose abstraction satisfies the invariant, if every
node the loop explores passes `nodeCheck` (the answer's `ok` flag, evaluated by the driver on every
explored input), then `INFEASIBLE` means no integer-feasible point exists and `OPTIMAL` means the
returned point passed `_is_feasible`, its objective is `c·x`, and no integer-feasible point is better
by more than `max eps (gap_tol·|obj|)`. -/
theorem bnb_mirror_sound (heps : 0 ≤ cfg.eps) (hgt : 0 ≤ cfg.gapTol) (hA : M.A.length = M.b.length)
    (hints : ∀ j ∈ M.ints, j < M.P.n) : ∀ (fuel : ℕ) (s : TState),
    BInv (MFeas M) (MAcc M cfg.eps) (mobj M) cfg.eps (absState M s) → TWF M s →
    (bnbLoop M cfg fuel s).ok = true → MilpPost M cfg (bnbLoop M cfg fuel s)
  | 0, s, hinv, _, _ => by unfold bnbLoop; exact finish_post M cfg s hinv
  | fuel + 1, s, hinv, hwf, hok => by
    unfold bnbLoop at hok ⊢
    split
    · exact finish_post M cfg s hinv
    · rename_i htest
      rw [if_neg htest] at hok
      have hne : s.tree.isEmpty = false := by
        cases he : s.tree.isEmpty with
        | true => rw [he] at htest; simp at htest
        | false => rfl
      obtain ⟨node, rest, hpop⟩ := popMin_some_of_ne s.tree hne
      cases hit : bnbIter M cfg s with
      | cont s' =>
        rw [hit] at hok
        have hs' := loop_ok_mono M cfg fuel s' hok
        have hchk : prunedBy M.sign cfg.eps s.best node.bound = false →
            nodeCheck M cfg.eps node.lower node.upper
              (solveNode M cfg.eps cfg.maxIter node.lower node.upper) = true := by
          intro hp
          rcases bnbIter_cont M cfg s s' node rest hpop hit with ⟨hp', _⟩ | ⟨_, hk, _⟩
          · rw [hp] at hp'; cases hp'
          · rw [hk, Bool.and_eq_true] at hs'; exact hs'.2
        obtain ⟨hstep, hwf'⟩ := bnb_mirror_refines M cfg s s' node rest hA hints hwf hpop hit hchk
        exact bnb_mirror_sound heps hgt hA hints fuel s'
          (bnb_invariant _ _ _ _ heps _ _ hinv hstep) hwf' hok
      | done o =>
        rw [hit] at hok
        simp only [] at hok ⊢
        obtain ⟨hp, hact, hk, hcase⟩ := bnbIter_done M cfg s o node rest hpop hit
        rw [hk, Bool.and_eq_true] at hok
        have hN := nodeCheck_sound M cfg.eps _ _ _ hA hok.2
        generalize solveNode M cfg.eps cfg.maxIter node.lower node.upper = r at hN hact hcase
        refine ⟨fun hst => ?_, fun hst => ?_⟩
        · rcases hcase with hf | ⟨ho, _⟩
          · rw [hf] at hst; cases hst
          · rw [ho] at hst; cases hst
        · rcases hcase with hf | ⟨_, hx, hobj, himp, hgap⟩
          · rw [hf] at hst; cases hst
          · -- the early `gap < gap_tol` return
            have hst' : r.status = .OPTIMAL ∧ mostFractional r.sol M.ints cfg.eps = none := by
              unfold nodeAct at hact
              split at hact
              · cases hact
              · rename_i hs
                split at hact
                · cases hact
                · split at hact
                  · rename_i hm; exact ⟨by simpa using hs, hm⟩
                  · cases hact
            obtain ⟨l₁, l₂, e1, e2⟩ := popMin_spec _ _ _ hpop
            have absS : absState M s = ⟨s.best.map fun p => (p.1, M.sign * p.2),
                l₁.map (absNode M) ++ absNode M node :: l₂.map (absNode M)⟩ := by
              unfold absState; rw [e1, List.map_append, List.map_cons]
            have hstep : BStep (MFeas M) (MAcc M cfg.eps) (mobj M) cfg.eps (absState M s)
                ⟨BState.offer (s.best.map fun p => (p.1, M.sign * p.2)) r.sol (M.sign * r.obj),
                  l₁.map (absNode M) ++ l₂.map (absNode M)⟩ := by
              rw [absS]
              exact BStep.integral _ _ (absNode M node) _ r.sol (M.sign * r.obj) (hN.bound hst'.1)
                (hN.acc hst'.1 hst'.2) (hN.objv hst'.1)
            have hinv' := bnb_invariant _ _ _ _ heps _ _ hinv hstep
            have hoff : BState.offer (s.best.map fun p => (p.1, M.sign * p.2)) r.sol (M.sign * r.obj)
                = some (r.sol, M.sign * r.obj) := by
              unfold BState.offer improvesBest at *
              cases hb : s.best with
              | none => rfl
              | some p =>
                obtain ⟨x0, b0⟩ := p
                rw [hb] at himp
                simp only [Option.map_some]
                rw [if_pos (by simpa using himp)]
            have hL : ∀ N ∈ l₁.map (absNode M) ++ l₂.map (absNode M), node.bound ≤ N.bound := by
              intro N hN'
              rw [← List.map_append, ← e2, List.mem_map] at hN'
              obtain ⟨t, ht, rfl⟩ := hN'
              exact popMin_least _ _ _ hpop t ht
            have hg := bnb_gap _ _ _ _ _ hinv' r.sol (M.sign * r.obj) node.bound hoff hL
            have hacc := hinv'.2.2 r.sol (M.sign * r.obj) hoff
            refine ⟨r.sol, r.obj, hx, hobj, hacc.1, hacc.2, fun y hy => ?_⟩
            have hgy := hg y hy
            -- `node.bound ≥ v − gap_tol · scale` from `gap < gap_tol`
            have hsq : M.sign = 1 ∨ M.sign = -1 := by unfold MilpIn.sign; split <;> simp
            have hga : absR (r.obj - gapArg M.sign node.bound) = |M.sign * r.obj - node.bound| := by
              rw [absR_eq]
              unfold gapArg
              by_cases hb0 : node.bound = 0
              · simp only [hb0, bne_self_eq_false, Bool.false_eq_true, if_false, sub_zero]
                rcases hsq with h1 | h1 <;> rw [h1] <;> simp
              · have : (node.bound != 0) = true := by simpa using hb0
                rw [if_pos this]
                rcases hsq with h1 | h1 <;> rw [h1]
                · simp
                · rw [show r.obj - node.bound / -1 = -(-1 * r.obj - node.bound) by ring, abs_neg]
            have hnb : M.sign * r.obj - cfg.gapTol * (if absR r.obj < 1 / 10000000000 then 1 else absR r.obj)
                ≤ node.bound := by
              unfold computeGap at hgap
              by_cases hsmall : absR r.obj < 1 / 10000000000
              · rw [if_pos hsmall] at hgap ⊢
                rw [hga] at hgap
                have := (abs_lt.mp hgap).2
                linarith
              · rw [if_neg hsmall] at hgap ⊢
                rw [hga] at hgap
                have hpos : 0 < absR r.obj := lt_of_lt_of_le (by norm_num) (not_lt.mp hsmall)
                rw [div_lt_iff₀ hpos] at hgap
                have := (abs_lt.mp hgap).2
                linarith
            have h1 : cfg.eps ≤ optSlack cfg r.obj := le_max_left _ _
            have h2 : cfg.gapTol * (if absR r.obj < 1 / 10000000000 then 1 else absR r.obj)
                ≤ optSlack cfg r.obj := le_max_right _ _
            rcases le_total (M.sign * r.obj - cfg.eps) node.bound with hmin | hmin
            · rw [min_eq_left hmin] at hgy; linarith
            · rw [min_eq_right hmin] at hgy; linarith

theorem MilpIn.Pn (M : MilpIn) : M.P.n = M.n := mkLP_n M.c M.A M.b M.minimize

/-- the minimised objective is `sign` times the caller's -/
theorem objAt_sign (M : MilpIn) (x : Vec) : M.P.objAt x = M.sign * M.U.objAt x := by
  unfold LP.objAt
  rw [M.Pn]
  have hUn : M.U.n = M.n := rfl
  rw [hUn, sumTo_eq_range, sumTo_eq_range, Finset.mul_sum]
  refine Finset.sum_congr rfl fun j _ => ?_
  unfold MilpIn.P mkLP MilpIn.sign MilpIn.U
  cases M.minimize with
  | true => simp
  | false =>
    simp only [Bool.false_eq_true, if_false]
    have : vget (M.c.map fun v => -v) j = -vget M.c j := by
      unfold vget
      have := List.getD_map (l := M.c) (d := (0 : ℚ)) (n := j) (fun v => -v)
      simpa using this
    rw [this]; ring

theorem getD_replicate_none (n j : ℕ) : (List.replicate n (none : Option ℚ)).getD j none = none := by
  rw [List.getD_eq_getElem?_getD, List.getElem?_replicate]; split <;> rfl

theorem getD_replicate_zero (n j : ℕ) : (List.replicate n (0 : ℚ)).getD j 0 = 0 := by
  rw [List.getD_eq_getElem?_getD, List.getElem?_replicate]; split <;> rfl

/-- **[S] solveMilp_sound**: the whole mirror of `solve_milp(heuristics=False)`: if every node LP it
used passed `nodeCheck` (`ok` flag of the answer, evaluated by the driver per input) and the binary
tightening – when it fired – is justified (`binary_tightening_sound` for integer data), then
`INFEASIBLE` means no integer-feasible point exists and `OPTIMAL` means the returned point passed
`_is_feasible`, its objective is `c·x` and it is optimal up to `max eps (gap_tol·|obj|)`. -/
theorem solveMilp_sound (heps : 0 ≤ cfg.eps) (hgt : 0 ≤ cfg.gapTol) (hA : M.A.length = M.b.length)
    (hints : ∀ j ∈ M.ints, j < M.P.n)
    (htight : tightened M cfg (solveNode M cfg.eps cfg.maxIter (lower0 M) (upper0 M)) = true →
      ∀ y, MFeas M y → ∀ j ∈ M.ints, vget y j ≤ 1)
    (hok : (solveMilp M cfg).ok = true) : MilpPost M cfg (solveMilp M cfg) := by
  unfold solveMilp at hok ⊢
  simp only [] at hok ⊢
  generalize hroot : solveNode M cfg.eps cfg.maxIter (lower0 M) (upper0 M) = root at hok htight ⊢
  -- every integer-feasible point lies in the root box
  have inRoot : ∀ y, MFeas M y → boxMem M.P.n (lower0 M) (upper0 M) y := by
    intro y hy j hj
    refine ⟨?_, fun h hh => ?_⟩
    · unfold lower0; rw [getD_replicate_zero]; exact hy.1.1 ⟨j, hj⟩
    · unfold upper0 at hh; rw [getD_replicate_none] at hh; cases hh
  split
  · -- root INFEASIBLE
    rename_i hs
    rw [if_pos hs] at hok
    have hN := nodeCheck_sound M cfg.eps _ _ _ hA hok
    have hne : root.status ≠ .OPTIMAL := by
      have : root.status = .INFEASIBLE := by simpa using hs
      rw [this]; decide
    exact ⟨fun _ y hy => hN.infeas hne y hy (inRoot y hy), (fun hst => by cases hst)⟩
  · rename_i hs
    rw [if_neg hs] at hok
    split
    · exact ⟨(fun hst => by cases hst), (fun hst => by cases hst)⟩
    · rename_i hs2
      rw [if_neg hs2] at hok
      cases hmf : mostFractional root.sol M.ints cfg.eps with
      | none =>
        rw [hmf] at hok
        simp only [Bool.and_eq_true, beq_iff_eq] at hok ⊢
        obtain ⟨hst, hchk⟩ := hok
        have hN := nodeCheck_sound M cfg.eps _ _ _ hA hchk
        refine ⟨(fun h => by cases h), fun _ => ?_⟩
        refine ⟨root.sol, root.obj, rfl, rfl, hN.acc hst hmf, hN.objv hst, fun y hy => ?_⟩
        have := hN.bound hst y hy (inRoot y hy)
        have : 0 ≤ optSlack cfg root.obj := le_trans heps (le_max_left _ _)
        linarith
      | some j0 =>
        rw [hmf] at hok
        simp only [] at hok ⊢
        have hok0 := loop_ok_mono M cfg _ _ hok
        have hchk : nodeCheck M cfg.eps (lower0 M) (upper0 M) root = true := hok0
        have hN := nodeCheck_sound M cfg.eps _ _ _ hA hchk
        refine bnb_mirror_sound M cfg heps hgt hA hints _ _ ?_ ?_ hok
        · -- the invariant at loop entry
          refine ⟨?_, ?_, ?_⟩
          · intro N hN' y hy hreg
            simp only [absState, initState, List.map_cons, List.map_nil, List.mem_singleton] at hN'
            subst hN'
            simp only [absNode]
            by_cases hst : root.status = .OPTIMAL
            · exact hN.bound hst y hy (inRoot y hy)
            · exact absurd (inRoot y hy) (hN.infeas hst y hy)
          · intro y hy _
            refine ⟨absNode M ⟨M.sign * root.obj, 0, lower0 M, upper1 M cfg root, 0⟩, ?_, ?_⟩
            · simp [absState, initState]
            · intro j hj
              refine ⟨(inRoot y hy j hj).1, fun h hh => ?_⟩
              simp only [] at hh
              unfold upper1 at hh
              by_cases ht : tightened M cfg root = true
              · rw [if_pos ht] at hh
                have hjn : j < M.n := by rw [← M.Pn]; exact hj
                rw [List.getD_eq_getElem?_getD, List.getElem?_map, List.getElem?_range hjn] at hh
                simp only [Option.map_some, Option.getD_some] at hh
                split at hh
                · rename_i hc
                  simp only [Option.some.injEq] at hh
                  rw [← hh]
                  exact htight ht y hy j (by simpa using hc)
                · cases hh
              · rw [if_neg ht] at hh
                unfold upper0 at hh; rw [getD_replicate_none] at hh; cases hh
          · intro p v hinc
            simp only [absState, initState] at hinc
            unfold warmBest at hinc
            cases hw : cfg.warm with
            | none => rw [hw] at hinc; cases hinc
            | some ws =>
              rw [hw] at hinc
              simp only [] at hinc
              split at hinc
              · rename_i hcond
                simp only [Option.map_some, Option.some.injEq, Prod.mk.injEq] at hinc
                obtain ⟨rfl, rfl⟩ := hinc
                rw [Bool.and_eq_true, beq_iff_eq] at hcond
                exact ⟨⟨hcond.1, hcond.2⟩, objAt_sign M ws⟩
              · cases hinc
        · -- well-formed tree
          intro t ht
          simp only [initState, List.mem_singleton] at ht
          subst ht
          simp only []
          constructor
          · unfold lower0; rw [List.length_replicate, M.Pn]
          · unfold upper1
            split
            · rw [List.length_map, List.length_range, M.Pn]
            · unfold upper0; rw [List.length_replicate, M.Pn]

/-- non-vacuity: `max x + y, 2x + 2y ≤ 3, x, y` integer – the mirror branches, every node passes
`nodeCheck`, the answer is `OPTIMAL 1` -/
example : (solveMilp ⟨[1, 1], [[2, 2]], [3], [0, 1], false⟩ ⟨1 / 1000000, 10000, 100, 1 / 1000000, 1, none⟩).ok = true ∧
    (solveMilp ⟨[1, 1], [[2, 2]], [3], [0, 1], false⟩ ⟨1 / 1000000, 10000, 100, 1 / 1000000, 1, none⟩).status = .OPTIMAL ∧
    (solveMilp ⟨[1, 1], [[2, 2]], [3], [0, 1], false⟩ ⟨1 / 1000000, 10000, 100, 1 / 1000000, 1, none⟩).objective = some 1 := by
  decide +kernel

/-- the tightening hypothesis of `solveMilp_sound` holds for integer data (`eps < 1`) -/
theorem tighten_justified (heps1 : cfg.eps < 1) (hints : ∀ j ∈ M.ints, j < M.P.n)
    (hAint : ∀ i j, ∃ z : ℤ, M.P.a i j = z) (hbint : ∀ i, ∃ z : ℤ, vget M.P.b i = z) (root : NodeRes)
    (ht : tightened M cfg root = true) : ∀ y, MFeas M y → ∀ j ∈ M.ints, vget y j ≤ 1 := by
  unfold tightened at ht
  rw [Bool.and_eq_true] at ht
  have hdet : detectBinary M.P M.ints cfg.eps = true := by
    have : detectBinary M.P M.ints cfg.eps = detectBinary M.U M.ints cfg.eps := by
      unfold detectBinary boundedVars rowNz
      rw [show M.P.n = M.U.n from M.Pn]
      rfl
    rw [this]; exact ht.2
  intro y hy j hj
  exact binary_tightening_sound M.P M.ints cfg.eps heps1 hAint hbint hdet _ hy ⟨j, hints j hj⟩ hj

end mirrorSound

end milp

/-! ### Non-vacuity on a concrete instance: the mirror's certificate for
`max 3x+2y, x+y ≤ 4, x ≤ 2, y ≤ 3` (phase 2 only) and for an LP that needs phase 1 -/
example : certifies (mkLP [3, 2] [[1, 1], [1, 0], [0, 1]] [4, 2, 3] false)
    (solveLp [3, 2] [[1, 1], [1, 0], [0, 1]] [4, 2, 3] false 0 100) = true := by decide +kernel
example : (solveLp [3, 2] [[1, 1], [1, 0], [0, 1]] [4, 2, 3] false 0 100).objective = some 10 := by
  decide +kernel
example : (solveLp [1, 2] [[-1, 0], [0, -1], [1, 1]] [-1, -1, 1] true 0 100).status = .INFEASIBLE ∧
    certifies (mkLP [1, 2] [[-1, 0], [0, -1], [1, 1]] [-1, -1, 1] true)
      (solveLp [1, 2] [[-1, 0], [0, -1], [1, 1]] [-1, -1, 1] true 0 100) = true := by decide +kernel
example : (solveLp [-1, 0] [[1, -1], [-1, 1]] [1, -1] true 0 100).status = .UNBOUNDED ∧
    certifies (mkLP [-1, 0] [[1, -1], [-1, 1]] [1, -1] true)
      (solveLp [-1, 0] [[1, -1], [-1, 1]] [1, -1] true 0 100) = true := by decide +kernel

end Solvor.Lp
