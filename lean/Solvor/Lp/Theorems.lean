import Solvor.Lp.Model
/-! Lp: property theorems only (helper lemmas live in Lemmas.lean). -/
namespace Solvor.Lp

end Solvor.Lp
