import Solvor.Lp.Lemmas
/-!
Lp: property theorems of C03 (LP verdicts and optima).

Layer T-spec: the certificate theorems (`weak_duality_cert`, `farkas_cert`, `ray_cert`,
`verdict_unique`, `approx_duality`) over `Fin m → Fin n → ℚ`, and the soundness of the Bool
checkers the driver evaluates on every explored input (`chkOptimal_sound`, `chkInfeasible_sound`,
`chkUnbounded_sound`, `certifies_sound`, tolerance checkers `…_iff`).  With `verdict_unique`, one
accepted certificate pins the verdict of that input: a status different from it is wrong.
-/
namespace Solvor.Lp
open Finset
open Solvor.Gen (Status)

section spec
variable {m n : ℕ} (P : LPF m n)

/-- **[C] weak_duality_cert**: `x` feasible, `y ≥ 0`, `c + Aᵀy ≥ 0`, `c·x = −y·b` ⇒ `x` is optimal
and every optimal point has this objective value (the value *is* the optimum). -/
theorem weak_duality_cert (x : Fin n → ℚ) (y : Fin m → ℚ) (hx : P.Feasible x)
    (hy : ∀ i, 0 ≤ y i) (hd : ∀ j, 0 ≤ P.c j + ∑ i, y i * P.A i j)
    (hgap : P.obj x = -(∑ i, y i * P.b i)) :
    P.IsOptimal x ∧ ∀ x', P.IsOptimal x' → P.obj x' = P.obj x := by
  have opt : P.IsOptimal x := ⟨hx, fun x' hx' => by rw [hgap]; exact weak_duality P x' y hx' hy hd⟩
  exact ⟨opt, fun x' h' => le_antisymm (h'.2 x hx) (opt.2 x' h'.1)⟩

example : (⟨fun _ _ => 1, fun _ => 4, fun _ => -1⟩ : LPF 1 2).IsOptimal (fun _ => 2) :=
  (weak_duality_cert _ (fun _ => 2) (fun _ => 1) ⟨by intro j; norm_num, by intro i; simp; norm_num⟩
    (by intro i; norm_num) (by intro j; simp) (by simp [LPF.obj]; norm_num)).1

/-- **[C] farkas_cert**: `y ≥ 0`, `Aᵀy ≥ 0`, `y·b < 0` ⇒ no feasible point. -/
theorem farkas_cert (y : Fin m → ℚ) (hy : ∀ i, 0 ≤ y i) (hd : ∀ j, 0 ≤ ∑ i, y i * P.A i j)
    (hb : ∑ i, y i * P.b i < 0) : P.Infeasible := by
  intro x hx
  have h1 : ∑ i, y i * (∑ j, P.A i j * x j) ≤ ∑ i, y i * P.b i :=
    Finset.sum_le_sum fun i _ => mul_le_mul_of_nonneg_left (hx.2 i) (hy i)
  have h2 := sum_swap P x y
  have h3 : 0 ≤ ∑ j, (∑ i, y i * P.A i j) * x j :=
    Finset.sum_nonneg fun j _ => mul_nonneg (hd j) (hx.1 j)
  linarith

example : (⟨fun _ _ => 1, fun _ => -1, fun _ => 0⟩ : LPF 1 1).Infeasible :=
  farkas_cert _ (fun _ => 1) (by intro i; norm_num) (by intro j; simp) (by simp)

/-- **[C] ray_cert**: `x` feasible, `d ≥ 0`, `A d ≤ 0`, `c·d < 0` ⇒ feasible points of
arbitrarily good objective exist. -/
theorem ray_cert (x d : Fin n → ℚ) (hx : P.Feasible x) (hd : ∀ j, 0 ≤ d j)
    (hAd : ∀ i, ∑ j, P.A i j * d j ≤ 0) (hcd : P.obj d < 0) : P.Unbounded := by
  refine ⟨⟨x, hx⟩, fun M => ?_⟩
  -- the point `x + t d` with `t = max 0 ((M - c·x)/(c·d)) + 1`
  let t : ℚ := max 0 ((M - P.obj x) / P.obj d) + 1
  have ht0 : 0 < t := by have := le_max_left 0 ((M - P.obj x) / P.obj d); linarith
  have ht1 : (M - P.obj x) / P.obj d < t := by
    have := le_max_right 0 ((M - P.obj x) / P.obj d); linarith
  refine ⟨fun j => x j + t * d j, ⟨fun j => ?_, fun i => ?_⟩, ?_⟩
  · have := hx.1 j; have := mul_nonneg ht0.le (hd j); linarith
  · have e : ∑ j, P.A i j * (x j + t * d j) = ∑ j, P.A i j * x j + t * ∑ j, P.A i j * d j := by
      rw [Finset.mul_sum, ← Finset.sum_add_distrib]
      exact Finset.sum_congr rfl fun j _ => by ring
    rw [e]
    have := hx.2 i
    have := mul_nonpos_of_nonneg_of_nonpos ht0.le (hAd i)
    linarith
  · have e : P.obj (fun j => x j + t * d j) = P.obj x + t * P.obj d := by
      unfold LPF.obj
      rw [Finset.mul_sum, ← Finset.sum_add_distrib]
      exact Finset.sum_congr rfl fun j _ => by ring
    rw [e]
    have h := (div_lt_iff_of_neg hcd).mp ht1
    linarith

example : (⟨fun _ _ => -1, fun _ => 0, fun _ => -1⟩ : LPF 1 1).Unbounded :=
  ray_cert _ (fun _ => 0) (fun _ => 1) ⟨by intro j; simp, by intro i; simp⟩ (by intro j; norm_num)
    (by intro i; simp) (by simp [LPF.obj])

/-- **[C] verdict_unique**: the three verdicts exclude each other, so for one LP at most one kind
of certificate can exist; "answers X exactly when X holds" is therefore decided by comparing the
status with a certified verdict. -/
theorem verdict_unique {s s' : Status} (h : P.Verdict s) (h' : P.Verdict s') : s = s' := by
  have oi : P.HasOptimum → P.Infeasible → False := fun ⟨x, hx⟩ hi => hi x hx.1
  have iu : P.Infeasible → P.Unbounded → False := fun hi ⟨⟨x, hx⟩, _⟩ => hi x hx
  have ou : P.HasOptimum → P.Unbounded → False := fun ⟨x, hx⟩ ⟨_, hu⟩ => by
    obtain ⟨x', hf, hlt⟩ := hu (P.obj x)
    exact absurd (hx.2 x' hf) (not_le.mpr hlt)
  cases s <;> cases s' <;> simp only [LPF.Verdict] at h h' <;>
    first
    | rfl | exact h.elim | exact h'.elim | exact (oi h h').elim | exact (oi h' h).elim
    | exact (iu h h').elim | exact (iu h' h).elim | exact (ou h h').elim | exact (ou h' h).elim

example : (⟨fun _ _ => 1, fun _ => -1, fun _ => 0⟩ : LPF 1 1).Verdict .INFEASIBLE :=
  farkas_cert _ (fun _ => 1) (by intro i; norm_num) (by intro j; simp) (by simp)

/-- **[C] approx_duality** (the interior-point `OPTIMAL` test).  Let `(x, s, y, zx, zs)` be an
iterate with `x, s, zx, zs ≥ 0` whose primal residual `A x + s − b`, dual residuals
`Aᵀy + zx − c` and `y + zs` are componentwise within `ε`, and whose complementarity
`zx·x + zs·s` is at most `(n+m)ε`.  Then
* `x` is feasible within `ε`;
* against every feasible `x'`: `c·x − c·x' ≤ ε·(‖y‖₁ + (n+m) + ‖x‖₁ + ‖s‖₁ + ‖x'‖₁ + ‖b − A x'‖₁)`;
* against every exactly certified optimum (`x*` with dual certificate `y*`):
  `c·x* − c·x ≤ ε·‖y*‖₁` (sensitivity of the optimum to the `ε`-relaxed right-hand side).
So the reported objective lies within an explicit `δ(ε)` of the optimum, `δ` linear in `ε` with the
box bounds on the iterate and on the optimum as coefficients. -/
theorem approx_duality (ε : ℚ) (hε : 0 ≤ ε) (x zx : Fin n → ℚ) (s y zs : Fin m → ℚ)
    (hx : ∀ j, 0 ≤ x j) (hs : ∀ i, 0 ≤ s i) (hzx : ∀ j, 0 ≤ zx j) (hzs : ∀ i, 0 ≤ zs i)
    (hrb : ∀ i, |∑ j, P.A i j * x j + s i - P.b i| ≤ ε)
    (hrc : ∀ j, |∑ i, y i * P.A i j + zx j - P.c j| ≤ ε)
    (hrs : ∀ i, |y i + zs i| ≤ ε)
    (hmu : ∑ j, zx j * x j + ∑ i, zs i * s i ≤ ((n : ℚ) + m) * ε) :
    P.FeasTol ε x ∧
    (∀ x', P.Feasible x' →
      P.obj x - P.obj x' ≤ ε * (∑ i, |y i| + ((n : ℚ) + m) + ∑ j, x j + ∑ i, s i + ∑ j, x' j
        + ∑ i, (P.b i - ∑ j, P.A i j * x' j))) ∧
    (∀ (xs : Fin n → ℚ) (ys : Fin m → ℚ), P.Feasible xs → (∀ i, 0 ≤ ys i) →
      (∀ j, 0 ≤ P.c j + ∑ i, ys i * P.A i j) → P.obj xs = -(∑ i, ys i * P.b i) →
      P.obj xs - P.obj x ≤ ε * ∑ i, ys i) := by
  have hft : P.FeasTol ε x := by
    refine ⟨fun j => by have := hx j; linarith, fun i => ?_⟩
    have := le_trans (le_abs_self _) (hrb i); have := hs i; linarith
  refine ⟨hft, fun x' hx' => ?_, fun xs ys _ hys hds hgap => ?_⟩
  · -- upper side
    let s' : Fin m → ℚ := fun i => P.b i - ∑ j, P.A i j * x' j
    have hs' : ∀ i, 0 ≤ s' i := fun i => by have := hx'.2 i; simp only [s']; linarith
    have e1 := obj_decomp P x zx y
    have e2 := yAx_decomp P x y s zs
    have e1' := obj_decomp P x' zx y
    have e2' := yAx_decomp P x' y s' zs
    have z0 : ∑ i, y i * (∑ j, P.A i j * x' j + s' i - P.b i) = 0 :=
      Finset.sum_eq_zero fun i _ => by simp only [s']; ring
    have w1 := sum_swap P x y
    have w1' := sum_swap P x' y
    have b1 := (sum_mul_le _ x hrc hx).2
    have b2 := (sum_mul_le _ s hrs hs).2
    have b3 := sum_mul_abs_le y _ hrb
    have b1' := (sum_mul_le _ x' hrc hx'.1).1
    have b2' := (sum_mul_le _ s' hrs hs').1
    have p1 : 0 ≤ ∑ j, zx j * x' j := Finset.sum_nonneg fun j _ => mul_nonneg (hzx j) (hx'.1 j)
    have p2 : 0 ≤ ∑ i, zs i * s' i := Finset.sum_nonneg fun i _ => mul_nonneg (hzs i) (hs' i)
    have exp : ε * (∑ i, |y i| + ((n : ℚ) + m) + ∑ j, x j + ∑ i, s i + ∑ j, x' j + ∑ i, s' i)
        = ε * ∑ i, |y i| + ((n : ℚ) + m) * ε + ε * ∑ j, x j + ε * ∑ i, s i + ε * ∑ j, x' j
          + ε * ∑ i, s' i := by ring
    show P.obj x - P.obj x' ≤ ε * (∑ i, |y i| + ((n : ℚ) + m) + ∑ j, x j + ∑ i, s i + ∑ j, x' j
        + ∑ i, s' i)
    rw [exp]
    linarith
  · -- lower side: weak duality of the exact certificate against the ε-feasible point
    have h1 : ∑ i, ys i * (∑ j, P.A i j * x j) ≤ ∑ i, ys i * (P.b i + ε) :=
      Finset.sum_le_sum fun i _ => mul_le_mul_of_nonneg_left (hft.2 i) (hys i)
    have h2 := sum_swap P x ys
    have h3 : 0 ≤ ∑ j, (P.c j + ∑ i, ys i * P.A i j) * x j :=
      Finset.sum_nonneg fun j _ => mul_nonneg (hds j) (hx j)
    have h4 : ∑ j, (P.c j + ∑ i, ys i * P.A i j) * x j
        = P.obj x + ∑ j, (∑ i, ys i * P.A i j) * x j := by
      unfold LPF.obj
      rw [← Finset.sum_add_distrib]; exact Finset.sum_congr rfl fun j _ => by ring
    have h5 : ∑ i, ys i * (P.b i + ε) = ∑ i, ys i * P.b i + ε * ∑ i, ys i := by
      rw [Finset.mul_sum, ← Finset.sum_add_distrib]; exact Finset.sum_congr rfl fun i _ => by ring
    linarith

/-- non-vacuity: the exact optimum `x = 2` of `min −x, x ≤ 2` with `y = 1` meets the hypotheses for
every `ε ≥ 0`. -/
example (ε : ℚ) (hε : 0 ≤ ε) :
    (⟨fun _ _ => 1, fun _ => 2, fun _ => -1⟩ : LPF 1 1).FeasTol ε (fun _ => 2) :=
  (approx_duality _ ε hε (fun _ => 2) (fun _ => 0) (fun _ => 0) (fun _ => -1) (fun _ => 1)
    (by intro; norm_num) (by intro; norm_num) (by intro; norm_num) (by intro; norm_num)
    (by intro i; simpa using hε) (by intro j; simpa using hε) (by intro i; simpa using hε)
    (by simp; positivity)).1

end spec

/-! ### The Bool checkers the driver evaluates (list data) are sound for the spec -/
section checkers
variable (P : LP)

/-- **T-spec** `chkFeasible` decides feasibility. -/
theorem chkFeasible_spec (x : Vec) : chkFeasible P x = true ↔ P.toF.Feasible (vecF P.n x) :=
  chkFeasible_iff P x

/-- **T-spec** an accepted optimality certificate proves: `x` is optimal for this input and its
objective value is the optimum. -/
theorem chkOptimal_sound (x y : Vec) (h : chkOptimal P x y = true) :
    P.toF.IsOptimal (vecF P.n x) ∧ ∀ x', P.toF.IsOptimal x' → P.toF.obj x' = P.objAt x := by
  unfold chkOptimal at h
  simp only [Bool.and_eq_true, allTo_iff, decide_eq_true_eq] at h
  obtain ⟨⟨⟨hf, hy⟩, hd⟩, hg⟩ := h
  rw [objAt_eq]
  refine weak_duality_cert P.toF (vecF P.n x) (vecF P.m y) ((chkFeasible_iff P x).mp hf) hy ?_ ?_
  · intro j; have := hd j; rw [colDot_eq] at this; exact this
  · rw [← objAt_eq, hg, rhsDot_eq]

/-- **T-spec** an accepted Farkas certificate proves infeasibility of this input. -/
theorem chkInfeasible_sound (y : Vec) (h : chkInfeasible P y = true) : P.toF.Infeasible := by
  unfold chkInfeasible at h
  simp only [Bool.and_eq_true, allTo_iff, decide_eq_true_eq] at h
  obtain ⟨⟨hy, hd⟩, hb⟩ := h
  refine farkas_cert P.toF (vecF P.m y) hy ?_ ?_
  · intro j; have := hd j; rw [colDot_eq] at this; exact this
  · rw [← rhsDot_eq]; exact hb

/-- **T-spec** an accepted vertex + ray proves unboundedness of this input. -/
theorem chkUnbounded_sound (x d : Vec) (h : chkUnbounded P x d = true) : P.toF.Unbounded := by
  unfold chkUnbounded at h
  simp only [Bool.and_eq_true, allTo_iff, decide_eq_true_eq] at h
  obtain ⟨⟨⟨hf, hd⟩, hAd⟩, hc⟩ := h
  refine ray_cert P.toF (vecF P.n x) (vecF P.n d) ((chkFeasible_iff P x).mp hf) hd ?_ ?_
  · intro i; have := hAd i; rw [rowDot_eq] at this; exact this
  · rw [← objAt_eq]; exact hc

/-- **T-spec** what the driver reports as "certified": the model's status is the true verdict of
this input whenever the checker belonging to that status accepts the model's certificate. -/
theorem certifies_sound (o : LpOut) (h : certifies P o = true) : P.toF.Verdict o.status := by
  unfold certifies at h
  cases hs : o.status <;> rw [hs] at h <;> simp only [LPF.Verdict] <;>
    first
    | exact ⟨_, (chkOptimal_sound P _ _ h).1⟩
    | exact chkInfeasible_sound P _ h
    | exact chkUnbounded_sound P _ _ h
    | exact absurd h (by simp)

/-- Two certified runs on the same input (the mirror at the code's `eps`, the exact run at
`eps = 0`, or any other solver's certificate) agree on the verdict. -/
theorem certified_status_unique (o o' : LpOut) (h : certifies P o = true) (h' : certifies P o' = true) :
    o.status = o'.status :=
  verdict_unique P.toF (certifies_sound P o h) (certifies_sound P o' h')

/-- **T-spec** tolerance checker on the implementation's point. -/
theorem chkFeasTol_iff (tol : ℚ) (x : Vec) :
    chkFeasTol P tol x = true ↔ P.toF.FeasTol tol (vecF P.n x) := by
  unfold chkFeasTol LPF.FeasTol
  rw [Bool.and_eq_true, allTo_iff, allTo_iff]
  simp only [decide_eq_true_eq]
  constructor
  · rintro ⟨h1, h2⟩; exact ⟨h1, fun i => by rw [← rowDot_eq]; exact h2 i⟩
  · rintro ⟨h1, h2⟩; exact ⟨h1, fun i => by rw [rowDot_eq]; exact h2 i⟩

/-- **T-spec** `|c·x − obj| ≤ tol`. -/
theorem chkObjAt_iff (tol : ℚ) (x : Vec) (obj : ℚ) :
    chkObjAt P tol x obj = true ↔ |P.toF.obj (vecF P.n x) - obj| ≤ tol := by
  unfold chkObjAt; rw [decide_eq_true_eq, absR_eq, objAt_eq]

/-- **T-spec** `|obj − opt| ≤ tol (1 + |opt|)`. -/
theorem chkObjNear_iff (tol obj opt : ℚ) :
    chkObjNear tol obj opt = true ↔ |obj - opt| ≤ tol * (1 + |opt|) := by
  unfold chkObjNear; rw [decide_eq_true_eq, absR_eq, absR_eq]

/-- **T-spec** the interior-point `FEASIBLE` check: `x ≥ 0` and the squared positive part of
`A x − b` is at most `r²`. -/
theorem chkResidual_iff (r : ℚ) (x : Vec) :
    chkResidual P r x = true ↔
      (∀ j : Fin P.n, 0 ≤ vecF P.n x j) ∧
      ∑ i : Fin P.m, (max 0 (∑ j, P.toF.A i j * vecF P.n x j - P.toF.b i)) ^ 2 ≤ r ^ 2 := by
  unfold chkResidual
  rw [Bool.and_eq_true, allTo_iff]
  simp only [decide_eq_true_eq]
  have e : P.resid2 x = ∑ i : Fin P.m, (max 0 (∑ j, P.toF.A i j * vecF P.n x j - P.toF.b i)) ^ 2 := by
    unfold LP.resid2; rw [sumTo_eq_sum]
    refine Finset.sum_congr rfl fun i _ => ?_
    simp only []
    rw [rowDot_eq]
    have hb : P.toF.b i = vget P.b i := rfl
    rw [hb]
    show (if 0 < _ then _ else _) = _
    split
    · rename_i h; rw [max_eq_right h.le]; ring
    · rename_i h; rw [max_eq_left (not_lt.mp h)]; ring
  rw [e, sq r]
  exact Iff.rfl

/-- The positive part of `A x − b` is the least primal residual: for every slack vector `s ≥ 0`,
`∑ max(0, (A x − b)_i)² ≤ ∑ (A x + s − b)_i²`.  So `primal_inf < 0.01` in the code (which has such an
`s`) implies the checker's condition. -/
theorem residual_least {m n : ℕ} (Q : LPF m n) (x : Fin n → ℚ) (s : Fin m → ℚ) (hs : ∀ i, 0 ≤ s i) :
    ∑ i, (max 0 (∑ j, Q.A i j * x j - Q.b i)) ^ 2 ≤ ∑ i, (∑ j, Q.A i j * x j + s i - Q.b i) ^ 2 := by
  refine Finset.sum_le_sum fun i _ => ?_
  rcases le_total (∑ j, Q.A i j * x j - Q.b i) 0 with h | h
  · rw [max_eq_left h]; simp only [ne_eq, OfNat.ofNat_ne_zero, not_false_eq_true, zero_pow]
    exact sq_nonneg _
  · rw [max_eq_right h]
    have := hs i
    nlinarith [sq_nonneg (s i)]

end checkers

/-! ### Non-vacuity on a concrete instance: the mirror's certificate for
`max 3x+2y, x+y ≤ 4, x ≤ 2, y ≤ 3` (phase 2 only) and for an LP that needs phase 1 -/
example : certifies (mkLP [3, 2] [[1, 1], [1, 0], [0, 1]] [4, 2, 3] false)
    (solveLp [3, 2] [[1, 1], [1, 0], [0, 1]] [4, 2, 3] false 0 100) = true := by decide +kernel
example : (solveLp [3, 2] [[1, 1], [1, 0], [0, 1]] [4, 2, 3] false 0 100).objective = some 10 := by
  decide +kernel
example : (solveLp [1, 2] [[-1, 0], [0, -1], [1, 1]] [-1, -1, 1] true 0 100).status = .INFEASIBLE ∧
    certifies (mkLP [1, 2] [[-1, 0], [0, -1], [1, 1]] [-1, -1, 1] true)
      (solveLp [1, 2] [[-1, 0], [0, -1], [1, 1]] [-1, -1, 1] true 0 100) = true := by decide +kernel
example : (solveLp [-1, 0] [[1, -1], [-1, 1]] [1, -1] true 0 100).status = .UNBOUNDED ∧
    certifies (mkLP [-1, 0] [[1, -1], [-1, 1]] [1, -1] true)
      (solveLp [-1, 0] [[1, -1], [-1, 1]] [1, -1] true 0 100) = true := by decide +kernel

end Solvor.Lp
