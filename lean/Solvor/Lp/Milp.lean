import Solvor.Lp.Model
/-!
Lp/Milp: executable side of C04 (no Mathlib imports).

* `isFeasible`   – mirror of `solvor/milp.py::_is_feasible` (the filter every heuristic incumbent,
                   warm start and returned point is judged by);
* `milpOracle`   – exhaustive oracle: a certified box for the integer variables (one dual vector per
                   variable, `chkBox`), every integer assignment of the box, the continuous remainder
                   solved by the certifying simplex (`solveLp` at `eps = 0`) with the assignment
                   imposed by two rows per integer variable (`LP.fix`), every run certificate-checked
                   (`oracleOk`);
* `childLeft/childRight`, `mostFractional` – the branching step of `solve_milp`.
-/
namespace Solvor.Lp
open Solvor.Gen (Status)

/-- `|v − round(v)|` (distance to the nearest integer; the half-way rounding rule is irrelevant
for a distance). -/
def roundDist (v : Rat) : Rat :=
  let f := v - (v.floor : Rat)
  if f ≤ 1 / 2 then f else 1 - f

/-- `_is_feasible(x, A, b, int_set, eps)`. -/
def isFeasible (P : LP) (ints : List Nat) (eps : Rat) (x : Vec) : Bool :=
  allTo P.n (fun j => !decide (vget x j < -eps)) &&
  ints.all (fun j => !decide (roundDist (vget x j) > eps)) &&
  allTo P.m (fun i => !decide (P.rowDot x i > vget P.b i + eps))

/-- which clause of `_is_feasible` rejects `x` (reporting only): 0 none, 1 `x[j] < -eps`,
2 integrality, 3 a row -/
def feasClause (P : LP) (ints : List Nat) (eps : Rat) (x : Vec) : Nat :=
  if !allTo P.n (fun j => !decide (vget x j < -eps)) then 1
  else if !ints.all (fun j => !decide (roundDist (vget x j) > eps)) then 2
  else if !allTo P.m (fun i => !decide (P.rowDot x i > vget P.b i + eps)) then 3
  else 0

/-! ### Fixing the integer variables by rows -/

def negV (v : List Rat) : List Rat := v.map fun t => -t

/-- rows `x_j ≤ v`, `−x_j ≤ −v` for every `(j, v)` -/
def fixPairs (n : Nat) : List Nat → List Int → List (List Rat × Rat)
  | j :: js, v :: vs => (unitV n j, (v : Rat)) :: (negV (unitV n j), -(v : Rat)) :: fixPairs n js vs
  | _, _ => []

/-- `P` with `x_j = a_j` imposed on the integer variables. -/
def LP.fix (P : LP) (ints : List Nat) (a : List Int) : LP :=
  ⟨P.A ++ (fixPairs P.n ints a).map (·.1), P.b ++ (fixPairs P.n ints a).map (·.2), P.c⟩

/-! ### The certified box -/

/-- `y` proves `x_j ≤ y·b` on the relaxation (`y ≥ 0`, `Aᵀy ≥ e_j`), hence `x_j ≤ u` for integer
`x_j` when `⌊y·b⌋ ≤ u`. -/
def boxOk (P : LP) (j u : Nat) (y : Vec) : Bool :=
  decide (j < P.n) && allTo P.m (fun i => decide (0 ≤ vget y i)) &&
  allTo P.n (fun j' => decide ((if j' = j then (1 : Rat) else 0) ≤ P.colDot y j')) &&
  decide ((P.rhsDot y).floor ≤ (u : Int))

def chkBox (P : LP) : List Nat → List Nat → List Vec → Bool
  | [], [], [] => true
  | j :: js, u :: us, y :: ys => boxOk P j u y && chkBox P js us ys
  | _, _, _ => false

/-- all integer vectors `0 ≤ a ≤ ub` -/
def assignments : List Nat → List (List Int)
  | [] => [[]]
  | u :: us => (List.range (u + 1)).flatMap fun (v : Nat) => (assignments us).map fun r => (v : Int) :: r

/-! ### The oracle -/

/-- run of an LP solver on `P.fix ints a` for every assignment of the box -/
def oracleRuns (solve : LP → LpOut) (P : LP) (ints ub : List Nat) : List (List Int × LpOut) :=
  (assignments ub).map fun a => (a, solve (P.fix ints a))

/-- box certified and every run's certificate accepted by the verified checker of its verdict -/
def oracleOk (solve : LP → LpOut) (P : LP) (ints ub : List Nat) (ys : List Vec) : Bool :=
  chkBox P ints ub ys && (oracleRuns solve P ints ub).all fun r => certifies (P.fix ints r.1) r.2

def better (cur : Option (Rat × Vec)) (cand : Rat × Vec) : Option (Rat × Vec) :=
  match cur with
  | none => some cand
  | some (v, x) => if cand.1 < v then some cand else some (v, x)

def bestStep (P : LP) (cur : Option (Rat × Vec)) (r : List Int × LpOut) : Option (Rat × Vec) :=
  if r.2.status = .OPTIMAL then better cur (P.objAt r.2.x, r.2.x) else cur

/-- least objective over the OPTIMAL runs, with its point (objective recomputed as `c·x`) -/
def oracleBest (solve : LP → LpOut) (P : LP) (ints ub : List Nat) : Option (Rat × Vec) :=
  (oracleRuns solve P ints ub).foldl (bestStep P) none

def oracleUnb (solve : LP → LpOut) (P : LP) (ints ub : List Nat) : Bool :=
  (oracleRuns solve P ints ub).any fun r => decide (r.2.status = .UNBOUNDED)

def oracleFuel : Nat := 200000
/-- the solver the driver plugs in: the certifying simplex at `eps = 0` -/
def exactSolve (Q : LP) : LpOut := solveLp Q.c Q.A Q.b true 0 oracleFuel

/-- box for the integer variables from the relaxation: maximise `x_j`, keep the dual vector.
`none` when some integer variable is unbounded on the relaxation (or the run is not OPTIMAL). -/
def findBox (P : LP) : List Nat → Option (List Nat × List Vec)
  | [] => some ([], [])
  | j :: js =>
    let o := solveLp (unitV P.n j) P.A P.b false 0 oracleFuel
    match o.status, findBox P js with
    | .OPTIMAL, some (us, ys) =>
      let u := (P.rhsDot o.cert).floor
      some ((if u < 0 then 0 else u.toNat) :: us, o.cert :: ys)
    | _, _ => none

def boxSize (ub : List Nat) : Nat := ub.foldl (fun acc u => acc * (u + 1)) 1

/-! ### Branching -/

/-- `_most_fractional(solution, int_set, eps)` for `int_set` iterated in the given order -/
def mostFractional (x : Vec) (ints : List Nat) (eps : Rat) : Option Nat :=
  (ints.foldl (fun (st : Option Nat × Rat) j =>
    let frac := roundDist (vget x j)
    if frac > eps ∧ frac > st.2 then (some j, frac) else st) (none, 0)).1

/-- `upper_left[frac_var] = floor(val)` -/
def childLeft (upper : List (Option Int)) (j : Nat) (v : Rat) : List (Option Int) := upper.set j (some v.floor)
/-- `lower_right[frac_var] = ceil(val)` -/
def childRight (lower : List Int) (j : Nat) (v : Rat) : List Int := lower.set j v.ceil

end Solvor.Lp
