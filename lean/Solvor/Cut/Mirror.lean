import Solvor.Cut.Model
import Solvor.Gen.CutConsts
/-!
Cut: executable mirror of `solve_cg` (solvor/cg.py with solvor/utils/pricing.py) at `Rat`.

Same tableau layout, same Bland entering rule and ratio test with the same `eps` comparisons,
same knapsack pricing DP (scaled by `pricingScale`, passes in the same order, same tie rule),
same column-generation loop, round-up and status rule.  The code computes in doubles, the mirror
in exact rationals; all branch decisions are `eps`-tolerant (`eps = 1e-9`), so on the small
integer instances of the check both take the same branches.

Nothing is proved *about* the mirror ([S] `master-LP mirror certifies` is open).  It is a
certifying model: the driver pushes its plan through the verified `checkPlan` and its final dual
vector through the verified `dualFeasible`/`dualBound`, so every answer it gives is proved for
that instance; and its returned (status, plan) is compared with the implementation's (R_trace).

Mirrors the code with the proposed fixes C17_a (`drive_out_artificials`) and C17_d
(`converged` flag) applied.
-/
namespace Solvor.Cut.Mirror
open Solvor.Cut

abbrev Tab := Array (Array Rat)

def tget (t : Tab) (i j : Nat) : Rat := (t.getD i #[]).getD j 0
def absQ (q : Rat) : Rat := if q < 0 then -q else q

/-- The pivot of `simplex_phase` / `drive_out_artificials`: scale row `r`, eliminate column `c`
from every other row (objective row included) whose factor exceeds `eps`. -/
def pivot (t : Tab) (nRowsP1 r c : Nat) (eps : Rat) : Tab :=
  let piv := tget t r c
  let rowR := (t.getD r #[]).map (· / piv)
  let t := t.setIfInBounds r rowR
  (List.range nRowsP1).foldl (fun t i =>
    if i == r then t else
      let f := tget t i c
      if absQ f > eps then t.setIfInBounds i (Array.zipWith (fun a b => a - f * b) (t.getD i #[]) rowR)
      else t) t

/-- Bland: smallest non-basic index `< nOrig` with reduced cost `< -eps`. -/
def findEnter (t : Tab) (basis : Array Nat) (nOrig lastRow : Nat) (eps : Rat) : Option Nat :=
  (List.range nOrig).find? fun j => !basis.contains j && decide (tget t lastRow j < -eps)

/-- Minimum-ratio test with the code's tie rule (`min_ratio = inf` is `none`). -/
def ratioTest (t : Tab) (basis : Array Nat) (nRows enter rhs : Nat) (eps : Rat) : Option Nat :=
  ((List.range nRows).foldl (fun (acc : Option Nat × Option Rat) i =>
    let a := tget t i enter
    if a > eps then
      let ratio := tget t i rhs / a
      match acc with
      | (_, none) => (some i, some ratio)
      | (lv, some mr) =>
        if ratio < mr - eps then (some i, some ratio)
        else if absQ (ratio - mr) ≤ eps then
          match lv with
          | some l => if basis.getD i 0 < basis.getD l 0 then (some i, some mr) else acc
          | none => acc
        else acc
    else acc) (none, none)).1

/-- `simplex_phase`: at most `fuel` pivots. -/
def simplexPhase (eps : Rat) (nOrig nRows rhs : Nat) : Nat → Tab × Array Nat → Tab × Array Nat
  | 0, s => s
  | fuel + 1, (t, basis) =>
    match findEnter t basis nOrig nRows eps with
    | none => (t, basis)
    | some e =>
      match ratioTest t basis nRows e rhs eps with
      | none => (t, basis)
      | some l => simplexPhase eps nOrig nRows rhs fuel (pivot t (nRows + 1) l e eps, basis.setIfInBounds l e)

/-- `drive_out_artificials` (proposed fix C17_a). -/
def driveOut (eps : Rat) (nOrig nRows : Nat) (s : Tab × Array Nat) : Tab × Array Nat :=
  (List.range nRows).foldl (fun (s : Tab × Array Nat) r =>
    let (t, basis) := s
    if basis.getD r 0 < nOrig then s else
      match (List.range nOrig).find? fun j => decide (absQ (tget t r j) > eps) with
      | some j => (pivot t (nRows + 1) r j eps, basis.setIfInBounds r j)
      | none => s) s

def simplexFuel : Nat := Solvor.Gen.Cut.simplexCap.toNat

/-- `_solve_master_lp`: `(x_vals, duals, objective)`, objective `none` = `inf`. -/
def masterLP (cols : List Pat) (d : List Nat) (eps : Rat) : List Rat × List Rat × Option Rat :=
  let m := d.length
  let n := cols.length
  if n == 0 then ([], List.replicate m 0, none) else
  let nVars := n + 2 * m
  let rhs := nVars
  let rows : List (Array Rat) := (List.range m).map fun i =>
    ((cols.map fun c => ((c.getD i 0 : Nat) : Rat)) ++
     ((List.range m).map fun k => if k == i then (-1 : Rat) else 0) ++
     ((List.range m).map fun k => if k == i then (1 : Rat) else 0) ++
     [((d.getD i 0 : Nat) : Rat)]).toArray
  -- phase-1 objective: minus the sum of the rows, artificial columns reset to 0
  let obj1 : Array Rat := ((List.range (nVars + 1)).map fun j =>
    if n + m ≤ j && j < nVars then (0 : Rat) else
      rows.foldl (fun a r => a - r.getD j 0) 0).toArray
  let t0 : Tab := (rows ++ [obj1]).toArray
  let basis0 : Array Nat := ((List.range m).map fun i => n + m + i).toArray
  let (t1, b1) := simplexPhase eps (n + m) m rhs simplexFuel (t0, basis0)
  if tget t1 m rhs < -eps then (List.replicate n 0, List.replicate m 0, none) else
  let (t2, b2) := driveOut eps (n + m) m (t1, b1)
  -- phase-2 objective: cost 1 on the x columns, reduced by the rows of basic x variables
  let cost : Array Rat := ((List.range (nVars + 1)).map fun j => if j < n then (1 : Rat) else 0).toArray
  let obj2 : Array Rat := (List.range m).foldl (fun o i =>
    if b2.getD i 0 < n then Array.zipWith (fun a b => a - b) o (t2.getD i #[]) else o) cost
  let t3 := t2.setIfInBounds m obj2
  let (t4, b4) := simplexPhase eps (n + m) m rhs simplexFuel (t3, b2)
  let xs : List Rat := (List.range n).map fun j =>
    match (List.range m).find? fun i => b4.getD i 0 == j with
    | some i => let v := tget t4 i rhs; if v < 0 then 0 else v
    | none => 0
  let duals := (List.range m).map fun i => tget t4 m (n + i)
  (xs, duals, some (-(tget t4 m rhs)))

/-- One bounded-knapsack pass for item `i` (one more copy allowed): the in-place descending loop
reads only entries below `w`, i.e. values of the previous pass. -/
def knapPass (eps : Rat) (i sizeI : Nat) (v : Rat) (dp : Array (Option (Rat × List Nat))) :
    Array (Option (Rat × List Nat)) :=
  (List.range dp.size).toArray.map fun w =>
    let cur := dp.getD w none
    if w < sizeI then cur else
      match dp.getD (w - sizeI) none with
      | none => cur
      | some (pv, pp) =>
        let nv := pv + v
        let better := match cur with
          | none => true
          | some (cv, _) => decide (nv > cv + eps)
        if better then some (nv, pp.set i (pp.getD i 0 + 1)) else cur

/-- `knapsack_pricing` for integer sizes and capacity (the greedy fall-back is unreachable
then: scaling by `pricingScale` is exact). -/
def knapsackPricing (sizes : List Nat) (W : Nat) (values : List Rat) (eps : Rat) : List Nat × Rat :=
  let n := sizes.length
  if n == 0 then ([], 0) else
  let scale := Solvor.Gen.Cut.pricingScale.toNat
  let capInt := W * scale
  let zero : List Nat := List.replicate n 0
  let dp0 : Array (Option (Rat × List Nat)) :=
    ((List.range (capInt + 1)).map fun w => if w == 0 then some ((0 : Rat), zero) else none).toArray
  let dp := (List.range n).foldl (fun dp i =>
    let v := values.getD i 0
    if v ≤ eps then dp else
      let s := sizes.getD i 1
      let sizeI := max 1 (s * scale)
      (List.range (W / s)).foldl (fun dp _ => knapPass eps i sizeI v dp) dp) dp0
  let (bestW, bestVal) := (List.range (capInt + 1)).foldl (fun (acc : Nat × Rat) w =>
    match dp.getD w none with
    | some (v, _) => if v > acc.2 + eps then (w, v) else acc
    | none => acc) (0, (0 : Rat))
  let bestPat := if bestVal > eps then
      (match dp.getD bestW none with | some (_, p) => p | none => zero) else zero
  (bestPat, bestVal)

structure CgOut where
  status : String
  plan : Plan
  total : Nat
  iters : Nat
  duals : List Rat
  lpObj : Option Rat
  deriving Inhabited

/-- Tail shared by `_solve_cutting_stock` and `_solve_custom`: final LP, round up, status. -/
def finish (cols : List Pat) (d : List Nat) (eps : Rat) (iters : Nat) (converged verify : Bool) : CgOut :=
  let (xs, duals, obj) := masterLP cols d eps
  let plan : Plan := (cols.zip xs).filterMap fun (p, x) =>
    if x > eps then
      let c := (x - eps).ceil
      if c > 0 then some (p, c.toNat) else none
    else none
  let total := rolls plan
  let unmet := verify && (List.range d.length).any fun i => decide (produced plan i < d.getD i 0)
  if unmet then ⟨"INFEASIBLE", plan, total, iters, duals, obj⟩ else
  match obj with
  | none => ⟨"OverflowError", plan, total, iters, duals, obj⟩  -- `ceil(inf)` raises
  | some o =>
    let lb := (o - eps).ceil
    ⟨if converged && decide ((total : Int) ≤ lb) then "OPTIMAL" else "FEASIBLE", plan, total, iters, duals, obj⟩

/-- `_solve_cutting_stock` (no progress callback). -/
def cgCuttingStock (W : Nat) (sizes d : List Nat) (maxIter : Nat) (eps : Rat) : CgOut :=
  let n := sizes.length
  let init : List Pat := (List.range n).filterMap fun j =>
    if d.getD j 0 > 0 then
      some ((List.range n).map fun i => if i == j then W / sizes.getD j 1 else 0)
    else none
  let rec loop : Nat → Nat → List Pat → List Pat × Nat × Bool
    | 0, it, pats => (pats, it, false)
    | fuel + 1, it, pats =>
      let (_, duals, _) := masterLP pats d eps
      let (np, pv) := knapsackPricing sizes W duals eps
      if pv ≤ 1 + eps then (pats, it, true)
      else loop fuel (it + 1) (if pats.contains np then pats else pats ++ [np])
  let (pats, it, conv) := loop maxIter 0 init
  finish pats d eps it conv true

/-- The harness's exact pricing function over an explicit column list (props/C17.py `pricing`):
first column whose reduced cost beats the best so far by more than `1e-12`. -/
def pricingCols (cols : List Pat) (duals : List Rat) : Option Pat × Rat :=
  cols.foldl (fun (acc : Option Pat × Rat) c =>
    let rc := 1 - dotQ duals c
    if rc < acc.2 - (1 : Rat) / 1000000000000 then (some c, rc) else acc) (none, 0)

/-- `_solve_custom` with that pricing function. -/
def cgCustom (cols init : List Pat) (d : List Nat) (maxIter : Nat) (eps : Rat) : CgOut :=
  let rec loop : Nat → Nat → List Pat → List Pat × Nat × Bool
    | 0, it, cur => (cur, it, false)
    | fuel + 1, it, cur =>
      let (_, duals, _) := masterLP cur d eps
      match pricingCols cols duals with
      | (none, _) => (cur, it, true)
      | (some c, rc) =>
        if rc ≥ -eps then (cur, it, true)
        else loop fuel (it + 1) (if cur.contains c then cur else cur ++ [c])
  let (cur, it, conv) := loop maxIter 0 init
  finish cur d eps it conv false

end Solvor.Cut.Mirror
