import Solvor.Cut.Model
import Solvor.Gen.CutConsts
/-!
Cut: executable mirror of `solve_cg` (solvor/cg.py with solvor/utils/pricing.py) at `Rat`.

Same tableau layout, same Bland entering rule and ratio test with the same `eps` comparisons,
same knapsack pricing DP (scaled by `pricingScale`, passes in the same order, same tie rule),
same column-generation loop, round-up and status rule.  The code computes in doubles, the mirror
in exact rationals; all branch decisions are `eps`-tolerant (`eps = 1e-9`), so on the small
integer instances of the check both take the same branches.

Proved about the mirror for all inputs (Theorems.lean): `cg_mirror_valid` (a usable status comes
with a plan that passes the verified checker — from the round-up, the demand re-check and the fact
that the pricing DP only produces patterns that fit), `master_lp_value_is_dual_value` (the LP
value reported equals `duals · d`, a row-space invariant of the tableau that holds whatever the
pivots were) and `cg_mirror_optimal_of_duals` (OPTIMAL + the decidable side condition "the
returned duals pass `dualFeasible`" ⇒ true minimum).  Not proved: that the simplex reaches an LP
optimum ([S] `master-LP mirror certifies`); eliminations below `eps` are skipped, so the basic
solution is feasible only up to `eps`.  The driver evaluates the side conditions and the verified
checkers on the mirror's output for every explored input, and its returned (status, plan) is
compared with the implementation's (R_trace).

Mirrors the repaired code (fixes C17_a `drive_out_artificials`, C17_d `converged` flag).
-/
namespace Solvor.Cut.Mirror
open Solvor.Cut

abbrev Row := List Rat
/-- Constraint rows followed by the objective row; the last entry of a row is the right-hand side. -/
abbrev Tab := List Row

def rget (row : Row) (j : Nat) : Rat := row.getD j 0
def tget (t : Tab) (i j : Nat) : Rat := rget (t.getD i []) j
def absQ (q : Rat) : Rat := if q < 0 then -q else q

def rowScale (row : Row) (piv : Rat) : Row := row.map (· / piv)
def rowSub (row : Row) (f : Rat) (rowR : Row) : Row := row.mapIdx fun j a => a - f * rget rowR j

/-- The pivot of `simplex_phase` / `drive_out_artificials`: scale row `r`, eliminate column `c`
from every other row (objective row included) whose factor exceeds `eps`.  (The code updates the
rows one after the other; each update reads only the row itself and the scaled pivot row.) -/
def pivot (t : Tab) (r c : Nat) (eps : Rat) : Tab :=
  let rowR := rowScale (t.getD r []) (tget t r c)
  t.mapIdx fun i row =>
    if i == r then rowR else
      let f := rget row c
      if absQ f > eps then rowSub row f rowR else row

/-- Bland: smallest non-basic index `< nOrig` with reduced cost `< -eps`. -/
def findEnter (t : Tab) (basis : List Nat) (nOrig lastRow : Nat) (eps : Rat) : Option Nat :=
  (List.range nOrig).find? fun j => !basis.contains j && decide (tget t lastRow j < -eps)

/-- Minimum-ratio test with the code's tie rule (`min_ratio = inf` is `none`). -/
def ratioTest (t : Tab) (basis : List Nat) (nRows enter rhs : Nat) (eps : Rat) : Option Nat :=
  ((List.range nRows).foldl (fun (acc : Option Nat × Option Rat) i =>
    let a := tget t i enter
    if a > eps then
      let ratio := tget t i rhs / a
      match acc with
      | (_, none) => (some i, some ratio)
      | (lv, some mr) =>
        if ratio < mr - eps then (some i, some ratio)
        else if absQ (ratio - mr) ≤ eps then
          match lv with
          | some l => if basis.getD i 0 < basis.getD l 0 then (some i, some mr) else acc
          | none => acc
        else acc
    else acc) (none, none)).1

/-- `simplex_phase`: at most `fuel` pivots. -/
def simplexPhase (eps : Rat) (nOrig nRows rhs : Nat) : Nat → Tab × List Nat → Tab × List Nat
  | 0, s => s
  | fuel + 1, (t, basis) =>
    match findEnter t basis nOrig nRows eps with
    | none => (t, basis)
    | some e =>
      match ratioTest t basis nRows e rhs eps with
      | none => (t, basis)
      | some l => simplexPhase eps nOrig nRows rhs fuel (pivot t l e eps, basis.set l e)

/-- One step of `drive_out_artificials` (fix C17_a) for row `r`. -/
def driveStep (eps : Rat) (nOrig : Nat) (s : Tab × List Nat) (r : Nat) : Tab × List Nat :=
  if s.2.getD r 0 < nOrig then s else
    match (List.range nOrig).find? fun j => decide (absQ (tget s.1 r j) > eps) with
    | some j => (pivot s.1 r j eps, s.2.set r j)
    | none => s

def driveOut (eps : Rat) (nOrig nRows : Nat) (s : Tab × List Nat) : Tab × List Nat :=
  (List.range nRows).foldl (driveStep eps nOrig) s

def simplexFuel : Nat := Solvor.Gen.Cut.simplexCap.toNat

/-- Phase-2 objective row: cost 1 on the first `n` columns, minus every constraint row whose basic
variable is one of them. -/
def phase2Obj (t : Tab) (basis : List Nat) (n nRows width : Nat) : Row :=
  (List.range nRows).foldl (fun o i =>
    if basis.getD i 0 < n then rowSub o 1 (t.getD i []) else o)
    ((List.range width).map fun j => if j < n then (1 : Rat) else 0)

/-- The two-phase core shared by `_solve_master_lp` (cg.py) and `_solve_bounded_master_lp`
(bp.py): `rows` are the constraint rows (`width` entries each, right-hand side last), `artRows`
says which rows carry an artificial variable, `isArt` which columns are artificial, `basis0` the
starting basis, columns `< nOrig` may enter, columns `< n` are the `x` variables.
`none` = phase 1 ends above `eps` (infeasible); otherwise the final tableau and basis. -/
def lpCore (eps : Rat) (rows : List Row) (artRows : List Bool) (isArt : Nat → Bool)
    (basis0 : List Nat) (nOrig n width : Nat) : Option (Tab × List Nat) :=
  let nRows := rows.length
  let rhs := width - 1
  let obj1 : Row := (List.range width).map fun j =>
    if isArt j then (0 : Rat) else
      (rows.zip artRows).foldl (fun a ra => if ra.2 then a - rget ra.1 j else a) 0
  let s1 := simplexPhase eps nOrig nRows rhs simplexFuel (rows ++ [obj1], basis0)
  if tget s1.1 nRows rhs < -eps then none else
  let s2 := driveOut eps nOrig nRows s1
  let t3 := s2.1.set nRows (phase2Obj s2.1 s2.2 n nRows width)
  some (simplexPhase eps nOrig nRows rhs simplexFuel (t3, s2.2))

/-- Value of `x_j` read from the final tableau (`max(0.0, rhs)` of its row if basic, else 0). -/
def readX (t : Tab) (basis : List Nat) (nRows rhs j : Nat) : Rat :=
  match (List.range nRows).find? fun i => basis.getD i 0 == j with
  | some i => let v := tget t i rhs; if v < 0 then 0 else v
  | none => 0

/-- Demand row `i` of the (bounded) master LP, `A x − s + a = d`: columns are `x` (`n`), demand
surplus (`m`), slacks of upper bounds (`nU`), surplus of lower bounds (`nL`), artificials
(`m + nL`), right-hand side.  `nU = nL = 0` is the tableau of `_solve_master_lp`. -/
def demandRow (cols : List Pat) (d : List Nat) (nU nL i : Nat) : Row :=
  let n := cols.length
  let m := d.length
  let aBase := n + m + nU + nL
  (List.range (aBase + m + nL + 1)).map fun j =>
    if j < n then (((cols.getD j []).getD i 0 : Nat) : Rat)
    else if j = n + i then -1
    else if j = aBase + i then 1
    else if j = aBase + m + nL then ((d.getD i 0 : Nat) : Rat)
    else 0

/-- The two-phase run of `_solve_master_lp` on `min Σx, Ax − s + a = d`. -/
def masterCore (cols : List Pat) (d : List Nat) (eps : Rat) : Option (Tab × List Nat) :=
  let m := d.length
  let n := cols.length
  lpCore eps ((List.range m).map (demandRow cols d 0 0)) (List.replicate m true)
    (fun j => n + m ≤ j && j < n + 2 * m) ((List.range m).map fun i => n + m + i) (n + m) n (n + 2 * m + 1)

/-- `_solve_master_lp`: `(x_vals, duals, objective)`, objective `none` = `inf`. -/
def masterLP (cols : List Pat) (d : List Nat) (eps : Rat) : List Rat × List Rat × Option Rat :=
  let m := d.length
  let n := cols.length
  if n == 0 then ([], List.replicate m 0, none) else
  match masterCore cols d eps with
  | none => (List.replicate n 0, List.replicate m 0, none)
  | some (t, b) =>
    ((List.range n).map (readX t b m (n + 2 * m)),
     (List.range m).map fun i => tget t m (n + i),
     some (-(tget t m (n + 2 * m))))

abbrev Dp := Array (Option (Rat × List Nat))

/-- `new_val > dp_val[w] + eps`, with `dp_val[w] = -inf` for an unreached weight. -/
def knapBetter (eps nv : Rat) (cur : Option (Rat × List Nat)) : Bool :=
  match cur with
  | none => true
  | some (cv, _) => decide (nv > cv + eps)

/-- One cell of a knapsack pass: `prev` is the entry one item below; take it (plus one copy of
item `i`) when its value beats the current entry by more than `eps` (or the entry is `-inf`). -/
def knapCell (eps : Rat) (i : Nat) (v : Rat) (cur prev : Option (Rat × List Nat)) : Option (Rat × List Nat) :=
  match prev with
  | none => cur
  | some (pv, pp) =>
    if knapBetter eps (pv + v) cur then some (pv + v, pp.set i (pp.getD i 0 + 1)) else cur

/-- One bounded-knapsack pass for item `i` (one more copy allowed): the in-place descending loop
reads only entries below `w`, i.e. values of the previous pass. -/
def knapPass (eps : Rat) (i sizeI : Nat) (v : Rat) (dp : Dp) : Dp :=
  (List.range dp.size).toArray.map fun w =>
    if w < sizeI then dp.getD w none else knapCell eps i v (dp.getD w none) (dp.getD (w - sizeI) none)

def dpInit (n capInt : Nat) : Dp :=
  (List.range (capInt + 1)).toArray.map fun w =>
    if w == 0 then some ((0 : Rat), List.replicate n 0) else none

/-- All passes: items in order, `W / s` passes each, items with value `≤ eps` skipped. -/
def dpFill (sizes : List Nat) (W scale : Nat) (values : List Rat) (eps : Rat) (dp0 : Dp) : Dp :=
  (List.range sizes.length).foldl (fun dp i =>
    if values.getD i 0 ≤ eps then dp else
      (List.range (W / sizes.getD i 1)).foldl
        (fun dp _ => knapPass eps i (max 1 (sizes.getD i 1 * scale)) (values.getD i 0) dp) dp) dp0

/-- `best_w`, `best_val`: first weight whose value beats the best so far by more than `eps`. -/
def dpBest (dp : Dp) (capInt : Nat) (eps : Rat) : Nat × Rat :=
  (List.range (capInt + 1)).foldl (fun (acc : Nat × Rat) w =>
    match dp.getD w none with
    | some (v, _) => if v > acc.2 + eps then (w, v) else acc
    | none => acc) (0, (0 : Rat))

/-- `knapsack_pricing` for integer sizes and capacity (the greedy fall-back is unreachable
then, `knapsackPricing_fits`: scaling by `pricingScale` is exact). -/
def knapsackPricing (sizes : List Nat) (W : Nat) (values : List Rat) (eps : Rat) : List Nat × Rat :=
  if sizes.length == 0 then ([], 0) else
  let scale := Solvor.Gen.Cut.pricingScale.toNat
  let dp := dpFill sizes W scale values eps (dpInit sizes.length (W * scale))
  let best := dpBest dp (W * scale) eps
  (if best.2 > eps then
      (match dp.getD best.1 none with | some (_, p) => p | none => List.replicate sizes.length 0)
    else List.replicate sizes.length 0, best.2)

structure CgOut where
  status : String
  plan : Plan
  total : Nat
  iters : Nat
  duals : List Rat
  lpObj : Option Rat
  deriving Inhabited

/-- Round the LP values up: `count = ceil(x - eps)` for `x > eps`, kept when positive. -/
def roundUp (cols : List Pat) (xs : List Rat) (eps : Rat) : Plan :=
  (cols.zip xs).filterMap fun px =>
    if px.2 > eps then
      let c := (px.2 - eps).ceil
      if c > 0 then some (px.1, c.toNat) else none
    else none

def unmetB (plan : Plan) (d : List Nat) : Bool :=
  (List.range d.length).any fun i => decide (produced plan i < d.getD i 0)

/-- The status rule at the end of `_solve_cutting_stock` / `_solve_custom` (`verify`: cutting stock
re-checks the demands; `obj = none`: `ceil(inf)` raises; `converged`: fix C17_d). -/
def finishStatus (plan : Plan) (d : List Nat) (obj : Option Rat) (eps : Rat) (converged verify : Bool) : String :=
  if verify && unmetB plan d then "INFEASIBLE" else
  match obj with
  | none => "OverflowError"
  | some o => if converged && decide ((rolls plan : Int) ≤ (o - eps).ceil) then "OPTIMAL" else "FEASIBLE"

/-- Tail shared by `_solve_cutting_stock` and `_solve_custom`: final LP, round up, status. -/
def finish (cols : List Pat) (d : List Nat) (eps : Rat) (iters : Nat) (converged verify : Bool) : CgOut :=
  let lp := masterLP cols d eps
  let plan := roundUp cols lp.1 eps
  ⟨finishStatus plan d lp.2.2 eps converged verify, plan, rolls plan, iters, lp.2.1, lp.2.2⟩

/-- Initial patterns: as many copies of one piece type as fit, for every demanded type. -/
def initPats (W : Nat) (sizes d : List Nat) : List Pat :=
  let n := sizes.length
  (List.range n).filterMap fun j =>
    if d.getD j 0 > 0 then
      some ((List.range n).map fun i => if i == j then W / sizes.getD j 1 else 0)
    else none

/-- The `on_progress` callback of the harness as seen by `report_progress`: the callback is
invoked when `progress_interval > 0` and `iteration % progress_interval == 0`, and asks to stop
once `iteration ≥ stopAt` (`stopAt = none`: never; `interval = 0`: no callback). -/
def progStop (interval : Nat) (stopAt : Option Nat) (it : Nat) : Bool :=
  interval > 0 && it % interval == 0 && (match stopAt with | some k => decide (k ≤ it) | none => false)

/-- The pricing loop of `_solve_cutting_stock`: `(patterns, iterations, converged)`; `stop it` is
`report_progress(...)` at iteration `it` (a requested stop leaves the loop unconverged). -/
def csLoop (W : Nat) (sizes d : List Nat) (eps : Rat) (stop : Nat → Bool) :
    Nat → Nat → List Pat → List Pat × Nat × Bool
  | 0, it, pats => (pats, it, false)
  | fuel + 1, it, pats =>
    if stop it then (pats, it, false) else
    let np := knapsackPricing sizes W (masterLP pats d eps).2.1 eps
    if np.2 ≤ 1 + eps then (pats, it, true)
    else csLoop W sizes d eps stop fuel (it + 1) (if pats.contains np.1 then pats else pats ++ [np.1])

/-- `_solve_cutting_stock`. -/
def cgCuttingStock (W : Nat) (sizes d : List Nat) (maxIter : Nat) (eps : Rat) (stop : Nat → Bool := fun _ => false) :
    CgOut :=
  let r := csLoop W sizes d eps stop maxIter 0 (initPats W sizes d)
  finish r.1 d eps r.2.1 r.2.2 true

/-- The harness's exact pricing function over an explicit column list (props/C17.py `pricing`):
first column whose reduced cost beats the best so far by more than `1e-12`. -/
def pricingCols (cols : List Pat) (duals : List Rat) : Option Pat × Rat :=
  cols.foldl (fun (acc : Option Pat × Rat) c =>
    let rc := 1 - dotQ duals c
    if rc < acc.2 - (1 : Rat) / 1000000000000 then (some c, rc) else acc) (none, 0)

/-- The pricing loop of `_solve_custom` with that pricing function. -/
def customLoop (cols : List Pat) (d : List Nat) (eps : Rat) (stop : Nat → Bool) :
    Nat → Nat → List Pat → List Pat × Nat × Bool
  | 0, it, cur => (cur, it, false)
  | fuel + 1, it, cur =>
    if stop it then (cur, it, false) else
    match pricingCols cols (masterLP cur d eps).2.1 with
    | (none, _) => (cur, it, true)
    | (some c, rc) =>
      if rc ≥ -eps then (cur, it, true)
      else customLoop cols d eps stop fuel (it + 1) (if cur.contains c then cur else cur ++ [c])

/-- `_solve_custom`. -/
def cgCustom (cols init : List Pat) (d : List Nat) (maxIter : Nat) (eps : Rat) (stop : Nat → Bool := fun _ => false) :
    CgOut :=
  let r := customLoop cols d eps stop maxIter 0 init
  finish r.1 d eps r.2.1 r.2.2 false

end Solvor.Cut.Mirror
