import Solvor.Cut.Model
/-! Cut: helper lemmas for the plan checker and the exact optimum (core Lean only). -/
namespace Solvor.Cut

/-! ### vectors -/

theorem subv_getD (d p : List Nat) (i : Nat) :
    (subv d p).getD i 0 = d.getD i 0 - p.getD i 0 := by
  induction d generalizing p i with
  | nil => cases p <;> simp [subv]
  | cons a t ih =>
    cases p with
    | nil => simp [subv]
    | cons b q =>
      cases i with
      | zero => simp [subv]
      | succ j => simp only [subv, List.getD_cons_succ]; exact ih q j

theorem isZero_iff (e : List Nat) : isZero e = true ↔ ∀ i, e.getD i 0 = 0 := by
  induction e with
  | nil => simp [isZero]
  | cons a t ih =>
    have h : isZero (a :: t) = (a == 0 && isZero t) := by simp [isZero]
    rw [h]
    simp only [Bool.and_eq_true, beq_iff_eq, ih]
    constructor
    · rintro ⟨h0, ht⟩ i
      cases i with
      | zero => simpa using h0
      | succ j => simpa using ht j
    · intro h
      exact ⟨by simpa using h 0, fun i => by simpa using h (i + 1)⟩

/-- Pieces of type `i` in a list of patterns (one roll each). -/
def total (ps : List Pat) (i : Nat) : Nat := (ps.map fun p => p.getD i 0).sum

theorem total_cons (p : Pat) (ps : List Pat) (i : Nat) :
    total (p :: ps) i = p.getD i 0 + total ps i := by simp [total]

theorem total_append (a b : List Pat) (i : Nat) : total (a ++ b) i = total a i + total b i := by
  simp [total]

theorem foldl_subv_getD (ps : List Pat) (d : List Nat) (i : Nat) :
    (ps.foldl subv d).getD i 0 = d.getD i 0 - total ps i := by
  induction ps generalizing d with
  | nil => simp [total]
  | cons p ps ih =>
    rw [List.foldl_cons, ih, subv_getD, total_cons]; omega

/-- `k` columns of `pats` (with repetition) cover the demand vector `d`. -/
def Cov (pats : List Pat) (d : List Nat) (k : Nat) : Prop :=
  ∃ ps : List Pat, ps.length = k ∧ (∀ p ∈ ps, p ∈ pats) ∧ isZero (ps.foldl subv d) = true

theorem isZero_foldl_iff (ps : List Pat) (d : List Nat) :
    isZero (ps.foldl subv d) = true ↔ ∀ i, d.getD i 0 ≤ total ps i := by
  rw [isZero_iff]
  constructor
  · intro h i; have := h i; rw [foldl_subv_getD] at this; omega
  · intro h i; rw [foldl_subv_getD]; have := h i; omega

/-! ### levels of the search -/

theorem mem_dedupAdj (l : List (List Nat)) (x : List Nat) : x ∈ dedupAdj l ↔ x ∈ l := by
  fun_induction dedupAdj l with
  | case1 a b t h ih =>
    have hab : a = b := by simpa using h
    subst hab
    rw [ih]; simp
  | case2 a b t h ih =>
    simp only [List.mem_cons] at ih ⊢
    rw [ih]
  | case3 l h => rfl

theorem mem_stepLevel (pats : List Pat) (F : List (List Nat)) (x : List Nat) :
    x ∈ stepLevel pats F ↔ ∃ e ∈ F, ∃ p ∈ pats, x = subv e p := by
  unfold stepLevel
  rw [mem_dedupAdj, (List.mergeSort_perm _ _).mem_iff]
  simp only [List.mem_flatMap, List.mem_map]
  constructor
  · rintro ⟨e, he, p, hp, rfl⟩; exact ⟨e, he, p, hp, rfl⟩
  · rintro ⟨e, he, p, hp, rfl⟩; exact ⟨e, he, p, hp, rfl⟩

/-- `F` is exactly the set of residual demands after `k` rolls. -/
def Level (pats : List Pat) (d : List Nat) (k : Nat) (F : List (List Nat)) : Prop :=
  ∀ e, e ∈ F ↔ ∃ ps : List Pat, ps.length = k ∧ (∀ p ∈ ps, p ∈ pats) ∧ e = ps.foldl subv d

theorem level_zero (pats : List Pat) (d : List Nat) : Level pats d 0 [d] := by
  intro e
  constructor
  · intro h
    have : e = d := by simpa using h
    exact ⟨[], rfl, by simp, by simp [this]⟩
  · rintro ⟨ps, hl, -, rfl⟩
    have : ps = [] := List.length_eq_zero_iff.1 hl
    subst this; simp

theorem level_succ {pats : List Pat} {d : List Nat} {k : Nat} {F : List (List Nat)}
    (h : Level pats d k F) : Level pats d (k + 1) (stepLevel pats F) := by
  intro x
  rw [mem_stepLevel]
  constructor
  · rintro ⟨e, he, p, hp, rfl⟩
    obtain ⟨ps, hl, hps, rfl⟩ := (h e).1 he
    refine ⟨ps ++ [p], by simp [hl], ?_, by simp [List.foldl_append]⟩
    intro q hq
    rcases List.mem_append.1 hq with hq | hq
    · exact hps q hq
    · have : q = p := by simpa using hq
      exact this ▸ hp
  · rintro ⟨ps, hl, hps, rfl⟩
    have hne : ps ≠ [] := by intro h0; subst h0; simp at hl
    obtain ⟨qs, p, rfl⟩ : ∃ qs p, ps = qs ++ [p] :=
      ⟨ps.dropLast, ps.getLast hne, (List.dropLast_concat_getLast hne).symm⟩
    have hl' : qs.length = k := by simpa using hl
    refine ⟨qs.foldl subv d, (h _).2 ⟨qs, hl', fun q hq => hps q (List.mem_append_left _ hq), rfl⟩,
      p, hps p (by simp), by simp [List.foldl_append]⟩

theorem level_any_zero {pats : List Pat} {d : List Nat} {k : Nat} {F : List (List Nat)}
    (h : Level pats d k F) : F.any isZero = true ↔ Cov pats d k := by
  rw [List.any_eq_true]
  constructor
  · rintro ⟨e, he, hz⟩
    obtain ⟨ps, hl, hps, rfl⟩ := (h e).1 he
    exact ⟨ps, hl, hps, hz⟩
  · rintro ⟨ps, hl, hps, hz⟩
    exact ⟨_, (h _).2 ⟨ps, hl, hps, rfl⟩, hz⟩

theorem search_some (pats : List Pat) (d : List Nat) :
    ∀ (fuel k : Nat) (F : List (List Nat)) (r : Nat), search pats fuel k F = some r →
      Level pats d k F → (∀ j, j < k → ¬ Cov pats d j) →
      Cov pats d r ∧ ∀ j, j < r → ¬ Cov pats d j := by
  intro fuel
  induction fuel with
  | zero =>
    intro k F r hs hL hlt
    unfold search at hs
    split at hs
    · rename_i hz
      cases hs
      exact ⟨(level_any_zero hL).1 hz, hlt⟩
    · cases hs
  | succ fuel ih =>
    intro k F r hs hL hlt
    unfold search at hs
    split at hs
    · rename_i hz
      cases hs
      exact ⟨(level_any_zero hL).1 hz, hlt⟩
    · rename_i hz
      refine ih (k + 1) _ r hs (level_succ hL) ?_
      intro j hj
      rcases Nat.lt_succ_iff_lt_or_eq.1 hj with h | h
      · exact hlt j h
      · subst h; exact fun hc => hz ((level_any_zero hL).2 hc)

theorem search_none (pats : List Pat) (d : List Nat) :
    ∀ (fuel k : Nat) (F : List (List Nat)), search pats fuel k F = none →
      Level pats d k F → (∀ j, j < k → ¬ Cov pats d j) →
      ∀ j, j ≤ k + fuel → ¬ Cov pats d j := by
  intro fuel
  induction fuel with
  | zero =>
    intro k F hs hL hlt j hj
    unfold search at hs
    split at hs
    · cases hs
    · rename_i hz
      rcases Nat.lt_or_ge j k with h | h
      · exact hlt j h
      · have : j = k := by omega
        subst this; exact fun hc => hz ((level_any_zero hL).2 hc)
  | succ fuel ih =>
    intro k F hs hL hlt j hj
    unfold search at hs
    split at hs
    · cases hs
    · rename_i hz
      refine ih (k + 1) _ hs (level_succ hL) ?_ j (by omega)
      intro j hj
      rcases Nat.lt_succ_iff_lt_or_eq.1 hj with h | h
      · exact hlt j h
      · subst h; exact fun hc => hz ((level_any_zero hL).2 hc)

/-! ### plans versus lists of patterns -/

/-- One entry per roll. -/
def expand (plan : Plan) : List Pat := plan.flatMap fun pc => List.replicate pc.2 pc.1

theorem expand_length (plan : Plan) : (expand plan).length = rolls plan := by
  induction plan with
  | nil => simp [expand, rolls]
  | cons pc t ih =>
    have : expand (pc :: t) = List.replicate pc.2 pc.1 ++ expand t := by simp [expand]
    rw [this, List.length_append, ih]; simp [rolls]

theorem total_replicate (c : Nat) (p : Pat) (i : Nat) :
    total (List.replicate c p) i = p.getD i 0 * c := by
  induction c with
  | zero => simp [total]
  | succ c ih => rw [List.replicate_succ, total_cons, ih, Nat.mul_succ]; omega

theorem total_expand (plan : Plan) (i : Nat) : total (expand plan) i = produced plan i := by
  induction plan with
  | nil => simp [expand, produced, total]
  | cons pc t ih =>
    have : expand (pc :: t) = List.replicate pc.2 pc.1 ++ expand t := by simp [expand]
    rw [this, total_append, ih, total_replicate]; simp [produced]

theorem mem_expand {plan : Plan} {p : Pat} (h : p ∈ expand plan) : ∃ pc ∈ plan, pc.1 = p := by
  unfold expand at h
  obtain ⟨pc, hpc, hp⟩ := List.mem_flatMap.1 h
  exact ⟨pc, hpc, (List.eq_of_mem_replicate hp).symm⟩

/-- One roll per list entry. -/
def unitPlan (ps : List Pat) : Plan := ps.map fun p => (p, 1)

theorem rolls_unitPlan (ps : List Pat) : rolls (unitPlan ps) = ps.length := by
  induction ps with
  | nil => simp [unitPlan, rolls]
  | cons p t ih =>
    have : rolls (unitPlan (p :: t)) = 1 + rolls (unitPlan t) := by simp [unitPlan, rolls]
    rw [this, ih]; simp; omega

theorem produced_unitPlan (ps : List Pat) (i : Nat) : produced (unitPlan ps) i = total ps i := by
  induction ps with
  | nil => simp [unitPlan, produced, total]
  | cons p t ih =>
    have : produced (unitPlan (p :: t)) i = p.getD i 0 + produced (unitPlan t) i := by
      simp [unitPlan, produced]
    rw [this, ih, total_cons]

/-- Domination transfers coverage: if each `p` is replaced by some `q` with
`min pᵢ dᵢ ≤ qᵢ`, a demand `dᵢ` that was met stays met. -/
theorem exists_dominating {Feas : Pat → Prop} {pats : List Pat} {d : List Nat}
    (hd : ∀ p, Feas p → ∃ q ∈ pats, ∀ i, min (p.getD i 0) (d.getD i 0) ≤ q.getD i 0) :
    ∀ ps : List Pat, (∀ p ∈ ps, Feas p) →
      ∃ qs : List Pat, qs.length = ps.length ∧ (∀ q ∈ qs, q ∈ pats) ∧
        ∀ i, min (d.getD i 0) (total ps i) ≤ total qs i := by
  intro ps
  induction ps with
  | nil => intro _; exact ⟨[], rfl, by simp, fun _ => by simp [total]⟩
  | cons p t ih =>
    intro h
    obtain ⟨q, hq, hpq⟩ := hd p (h p (by simp))
    obtain ⟨qs, hl, hqs, hf⟩ := ih (fun p hp => h p (List.mem_cons_of_mem _ hp))
    refine ⟨q :: qs, by simp [hl], ?_, ?_⟩
    · intro x hx
      rcases List.mem_cons.1 hx with rfl | hx
      · exact hq
      · exact hqs x hx
    · intro i
      have h1 := hpq i
      have h2 := hf i
      rw [total_cons, total_cons]; omega

theorem cov_of_valid {Feas : Pat → Prop} {pats : List Pat} {d : List Nat}
    (hd : ∀ p, Feas p → ∃ q ∈ pats, ∀ i, min (p.getD i 0) (d.getD i 0) ≤ q.getD i 0)
    {plan : Plan} (hv : ValidPlan Feas d plan) : Cov pats d (rolls plan) := by
  obtain ⟨qs, hl, hqs, hf⟩ := exists_dominating hd (expand plan) (by
    intro p hp
    obtain ⟨pc, hpc, rfl⟩ := mem_expand hp
    exact hv.feas pc hpc)
  refine ⟨qs, by rw [hl, expand_length], hqs, ?_⟩
  rw [isZero_foldl_iff]
  intro i
  have h1 := hf i
  rw [total_expand] at h1
  by_cases hi : i < d.length
  · have := hv.covers i hi; omega
  · have : d.getD i 0 = 0 := by simp [List.getD_eq_getElem?_getD, List.getElem?_eq_none (Nat.le_of_not_lt hi)]
    omega

theorem valid_of_cov {Feas : Pat → Prop} {pats : List Pat} {d : List Nat}
    (hs : ∀ q ∈ pats, Feas q) {k : Nat} (h : Cov pats d k) :
    ∃ plan, ValidPlan Feas d plan ∧ rolls plan = k := by
  obtain ⟨ps, hl, hps, hz⟩ := h
  refine ⟨unitPlan ps, ⟨?_, ?_⟩, by rw [rolls_unitPlan, hl]⟩
  · intro pc hpc
    obtain ⟨p, hp, rfl⟩ := List.mem_map.1 hpc
    exact hs p (hps p hp)
  · intro i _
    rw [produced_unitPlan]
    exact (isZero_foldl_iff ps d).1 hz i

/-! ### enumeration of cutting patterns -/

theorem dotN_nil_right (s : List Nat) : dotN s [] = 0 := by cases s <;> rfl

theorem enumPats_sound : ∀ (sizes : List Nat) (W : Nat) (caps : List Nat) (q : Pat),
    (∀ s ∈ sizes, 0 < s) → q ∈ enumPats W sizes caps → Fits W sizes q := by
  intro sizes
  induction sizes with
  | nil =>
    intro W caps q _ hq
    have : q = [] := by simpa [enumPats] using hq
    subst this; exact ⟨rfl, by simp [dotN]⟩
  | cons s ss ih =>
    intro W caps q hpos hq
    cases ss with
    | nil =>
      have : q = [min (caps.headD 0) (W / s)] := by simpa [enumPats] using hq
      subst this
      refine ⟨rfl, ?_⟩
      have hs : 0 < s := hpos s (by simp)
      have h1 : s * (W / s) ≤ W := Nat.mul_div_le W s
      have h2 : s * min (caps.headD 0) (W / s) ≤ s * (W / s) := Nat.mul_le_mul_left _ (Nat.min_le_right _ _)
      simp only [dotN]; omega
    | cons s' ss' =>
      unfold enumPats at hq
      obtain ⟨c, _, hc⟩ := List.mem_flatMap.1 hq
      split at hc
      · rename_i hle
        obtain ⟨q', hq', rfl⟩ := List.mem_map.1 hc
        obtain ⟨hl, hw⟩ := ih (W - s * c) caps.tail q' (fun x hx => hpos x (List.mem_cons_of_mem _ hx)) hq'
        refine ⟨by simp [hl], ?_⟩
        simp only [dotN]; omega
      · cases hc

/-- Every fitting pattern is dominated (after capping at `caps`) by an enumerated one. -/
theorem enumPats_dom : ∀ (sizes : List Nat) (W : Nat) (caps : List Nat) (p : Pat),
    (∀ s ∈ sizes, 0 < s) → Fits W sizes p →
    ∃ q ∈ enumPats W sizes caps, ∀ i, min (p.getD i 0) (caps.getD i 0) ≤ q.getD i 0 := by
  intro sizes
  induction sizes with
  | nil =>
    intro W caps p _ hp
    have : p = [] := List.length_eq_zero_iff.1 hp.1
    subst this
    exact ⟨[], by simp [enumPats], by simp⟩
  | cons s ss ih =>
    intro W caps p hpos hp
    have hs : 0 < s := hpos s (by simp)
    obtain ⟨hl, hw⟩ := hp
    cases p with
    | nil => simp at hl
    | cons c cs =>
      cases ss with
      | nil =>
        have hcs : cs = [] := by simpa using hl
        subst hcs
        refine ⟨[min (caps.headD 0) (W / s)], by simp [enumPats], ?_⟩
        intro i
        cases i with
        | zero =>
          have h1 : s * c ≤ W := by simpa [dotN] using hw
          have h2 : c ≤ W / s := (Nat.le_div_iff_mul_le hs).2 (by rw [Nat.mul_comm]; exact h1)
          have h3 : caps.getD 0 0 = caps.headD 0 := by cases caps <;> simp
          simp only [List.getD_cons_zero, h3]; omega
        | succ j => simp
      | cons s' ss' =>
        have hw' : s * c + dotN (s' :: ss') cs ≤ W := by simpa [dotN] using hw
        let c0 := min c (caps.headD 0)
        have hc0 : s * c0 ≤ s * c := Nat.mul_le_mul_left _ (Nat.min_le_left _ _)
        obtain ⟨q', hq', hdom⟩ := ih (W - s * c0) caps.tail cs
          (fun x hx => hpos x (List.mem_cons_of_mem _ hx)) ⟨by simpa using hl, by omega⟩
        refine ⟨c0 :: q', ?_, ?_⟩
        · unfold enumPats
          refine List.mem_flatMap.2 ⟨c0, List.mem_range.2 (by omega), ?_⟩
          rw [if_pos (by omega)]
          exact List.mem_map.2 ⟨q', hq', rfl⟩
        · intro i
          cases i with
          | zero =>
            have h3 : caps.getD 0 0 = caps.headD 0 := by cases caps <;> simp
            simp only [List.getD_cons_zero, h3]; omega
          | succ j =>
            have h4 : caps.getD (j + 1) 0 = caps.tail.getD j 0 := by cases caps <;> simp
            simp only [List.getD_cons_succ, h4]
            exact hdom j

end Solvor.Cut
