import Solvor.Cut.Mirror
/-!
Cut: executable mirror of `solve_bp` (solvor/bp.py, repaired: fixes C17_a–d) at `Rat`.

`bpRun` is the branch-and-price driver (`_branch_and_price`) written over an *abstract* node
solver `Solver` (what `_solve_node_lp` returns for a column pool and a list of branching bounds),
so the theorems about the status rule hold for every node solver; `nodeLP` is the concrete one
(`_solve_node_lp` + `_solve_bounded_master_lp` on the shared two-phase core `lpCore`).
-/
namespace Solvor.Cut.Mirror
open Solvor.Cut

/-- One branching bound `(col_idx, lower, upper)`; `hi = none` is `inf`. -/
structure Bnd where
  idx : Nat
  lo : Rat
  hi : Option Rat
  deriving Inhabited

/-- `{idx: (lo, hi) for idx, lo, hi in node.column_bounds}` iterated over `sorted(keys)`: the
last entry per index wins. -/
def boundsDict (bs : List Bnd) : List Bnd :=
  let keys := ((bs.map (·.idx)).eraseDups).mergeSort (fun a b => decide (a ≤ b))
  keys.filterMap fun k => bs.reverse.find? fun b => b.idx == k

def lowerRow (n m nU nL k : Nat) (b : Bnd) : Row :=
  let aBase := n + m + nU + nL
  (List.range (aBase + m + nL + 1)).map fun j =>
    if j = b.idx then 1
    else if j = n + m + nU + k then -1
    else if j = aBase + m + k then 1
    else if j = aBase + m + nL then b.lo
    else 0

def upperRow (n m nU nL k : Nat) (b : Bnd) : Row :=
  let aBase := n + m + nU + nL
  (List.range (aBase + m + nL + 1)).map fun j =>
    if j = b.idx then 1
    else if j = n + m + k then 1
    else if j = aBase + m + nL then b.hi.getD 0
    else 0

/-- The two-phase run of `_solve_bounded_master_lp`. -/
def boundedCore (cols : List Pat) (d : List Nat) (bounds : List Bnd) (eps : Rat) : Option (Tab × List Nat) :=
  let m := d.length
  let n := cols.length
  let dict := boundsDict bounds
  let lower := dict.filter fun b => decide (b.lo > eps)
  let upper := dict.filter fun b => b.hi.isSome
  let nL := lower.length
  let nU := upper.length
  let aBase := n + m + nU + nL
  let rows := (List.range m).map (demandRow cols d nU nL) ++
    (List.range nL).map (fun k => lowerRow n m nU nL k (lower.getD k default)) ++
    (List.range nU).map (fun k => upperRow n m nU nL k (upper.getD k default))
  lpCore eps rows (List.replicate (m + nL) true ++ List.replicate nU false)
    (fun j => aBase ≤ j && j < aBase + m + nL)
    ((List.range (m + nL)).map (fun i => aBase + i) ++ (List.range nU).map (fun i => n + m + i))
    aBase n (aBase + m + nL + 1)

/-- `_solve_bounded_master_lp`: `(x_vals, duals, objective)`. -/
def boundedMasterLP (cols : List Pat) (d : List Nat) (bounds : List Bnd) (eps : Rat) :
    List Rat × List Rat × Option Rat :=
  let m := d.length
  let n := cols.length
  if n == 0 then ([], List.replicate m 0, none) else
  let dict := boundsDict bounds
  let nL := (dict.filter fun b => decide (b.lo > eps)).length
  let nU := (dict.filter fun b => b.hi.isSome).length
  let nRows := m + nL + nU
  let rhs := n + m + nU + nL + m + nL
  match boundedCore cols d bounds eps with
  | none => (List.replicate n 0, List.replicate m 0, none)
  | some (t, b) =>
    ((List.range n).map (readX t b nRows rhs),
     (List.range m).map fun i => tget t nRows (n + i),
     some (-(tget t nRows rhs)))

/-- What a node LP returns: the (grown) pool, `x`, the final duals, the LP value, the number of
columns added. -/
structure NodeRes where
  cols : List Pat
  xs : List Rat
  duals : List Rat
  obj : Option Rat
  iters : Nat
  stalls : Nat  -- coverage only: longest run of LP solves whose value did not move after a new column
  stallVal : Option Rat  -- coverage only: the LP value of the first run of ≥ 2 such solves
  deriving Inhabited

abbrev Solver := List Pat → List Bnd → NodeRes

/-- The pricing function: `(column?, value)`, with `stop value` the code's break test
(cutting stock: `value ≤ 1 + eps`; custom: `value ≥ −eps`). -/
structure Pricer where
  price : List Rat → Option Pat × Rat
  stop : Rat → Bool

/-- Coverage bookkeeping of the pricing loop (not part of the code): consecutive master-LP values
that stayed put (within `1e-9`) although a column had just been added ("tailing off"). -/
structure Stall where
  prev : Option Rat := none
  run : Nat := 0
  maxRun : Nat := 0
  stallVal : Option Rat := none
  deriving Inhabited

def Stall.step (s : Stall) (v : Rat) : Stall :=
  match s.prev with
  | none => { s with prev := some v }
  | some u =>
    if absQ (v - u) ≤ 1 / 1000000000 then
      { prev := some v, run := s.run + 1, maxRun := max s.maxRun (s.run + 1),
        stallVal := if s.run + 1 ≥ 2 && s.stallVal.isNone then some v else s.stallVal }
    else { s with prev := some v, run := 0 }

/-- The pricing loop of `_solve_node_lp`: `(pool, columns added, LP infeasible, coverage)`. -/
def nodeLoop (pr : Pricer) (d : List Nat) (bounds : List Bnd) (eps : Rat) :
    Nat → Nat → List Pat → Stall → List Pat × Nat × Bool × Stall
  | 0, it, cols, sl => (cols, it, false, sl)
  | fuel + 1, it, cols, sl =>
    let lp := boundedMasterLP cols d bounds eps
    match lp.2.2 with
    | none => (cols, it, true, sl)  -- returned at once with the infeasible LP
    | some v =>
      let sl := sl.step v
      let p := pr.price lp.2.1
      match p.1 with
      | none => (cols, it, false, sl)
      | some c =>
        if pr.stop p.2 then (cols, it, false, sl)
        else if cols.contains c then (cols, it, false, sl)
        else nodeLoop pr d bounds eps fuel (it + 1) (cols ++ [c]) sl

/-- `_solve_node_lp`. -/
def nodeLP (pr : Pricer) (d : List Nat) (eps : Rat) (maxIter : Nat) : Solver := fun cols bounds =>
  let r := nodeLoop pr d bounds eps maxIter 0 cols {}
  if r.2.2.1 then
    ⟨r.1, List.replicate r.1.length 0, List.replicate d.length 0, none, r.2.1, r.2.2.2.maxRun, r.2.2.2.stallVal⟩
  else
    let lp := boundedMasterLP r.1 d bounds eps
    ⟨r.1, lp.1, lp.2.1, lp.2.2, r.2.1, r.2.2.2.maxRun, r.2.2.2.stallVal⟩

/-- Python's `round` (half to even). -/
def roundHalfEven (q : Rat) : Int :=
  let f := q.floor
  let r := q - (f : Rat)
  if r < 1 / 2 then f else if r > 1 / 2 then f + 1 else if f % 2 == 0 then f else f + 1

/-- `_most_fractional`: first index of largest distance to the nearest integer (above `eps`). -/
def mostFractional (xs : List Rat) (eps : Rat) : Option (Nat × Rat) :=
  let r := (xs.zipIdx).foldl (fun (acc : Option Nat × Rat) xi =>
    if xi.1 > eps then
      let frac := absQ (xi.1 - (roundHalfEven xi.1 : Rat))
      if frac > eps && frac > acc.2 then (some xi.2, frac) else acc
    else acc) (none, 0)
  r.1.map fun i => (i, xs.getD i 0)

/-- Distance to the nearest integer of the entries that `_most_fractional` considers. -/
def fracs (xs : List Rat) (eps : Rat) : List Rat :=
  xs.filterMap fun x =>
    if x > eps then
      let frac := absQ (x - (roundHalfEven x : Rat))
      if frac > eps then some frac else none
    else none

/-- Float-fragility detector (not part of the code): two candidates of `_most_fractional` whose
fractional parts are within `1e-9` of the maximum.  The code compares them with a bare `>`, so
which one a double computation picks is decided by rounding noise; R_trace is not applied to
runs in which this happened. -/
def fracTie (xs : List Rat) (eps : Rat) : Bool :=
  let fs := fracs xs eps
  let mx := fs.foldl (fun a b => if a < b then b else a) 0
  decide ((fs.filter fun f => decide (mx - f ≤ 1 / 1000000000)).length ≥ 2)

/-- `_build_solution`. -/
def buildSolution (xs : List Rat) (cols : List Pat) (eps : Rat) : Plan :=
  (cols.zip xs).filterMap fun px =>
    if px.2 > eps then
      let c := roundHalfEven px.2
      if c > 0 then some (px.1, c.toNat) else none
    else none

/-- `_round_solution`: round up, `none` unless every demand is then met. -/
def roundSolution (xs : List Rat) (cols : List Pat) (d : List Nat) (eps : Rat) : Option Plan :=
  let plan := roundUp cols xs eps
  if unmetB plan d then none else some plan

/-- `gap < gap_tol` with `gap = (best − lower_bound) / max(|best|, 1e-10)`. -/
def gapOk (best : Nat) (lb : Int) (gapTol : Rat) : Bool :=
  let b : Rat := (best : Rat)
  let den : Rat := if b < 1 / 10000000000 then 1 / 10000000000 else b
  decide ((b - (lb : Rat)) / den < gapTol)

structure BpOut where
  status : String
  plan : Option Plan
  total : Nat
  nodes : Nat
  rootConverged : Bool
  lb : Int
  rootIntegral : Bool
  rootDuals : List Rat
  rootObj : Option Rat
  fragile : Bool
  rootStalls : Nat  -- coverage: longest run of stalled LP values in the root's column generation
  rootStallVal : Option Rat  -- coverage: LP value of the first run of ≥ 2 stalls at the root
  nodeStalls : Nat  -- coverage: the same maximum over the tree nodes
  deriving Inhabited

structure BpSt where
  cols : List Pat
  tree : List (Rat × Nat × List Bnd)
  counter : Nat
  best : Option Plan
  nodes : Nat
  fragile : Bool  -- a float-fragile tie was met (`fracTie` / `popTie`); bookkeeping only
  nodeStalls : Nat := 0  -- coverage bookkeeping only

/-- `heappop`: the entry with the least `(bound, counter)`. -/
def popMin (tree : List (Rat × Nat × List Bnd)) : Option ((Rat × Nat × List Bnd) × List (Rat × Nat × List Bnd)) :=
  match tree with
  | [] => none
  | e :: rest =>
    let best := rest.foldl (fun b x => if x.1 < b.1 || (x.1 == b.1 && x.2.1 < b.2.1) then x else b) e
    some (best, tree.filter fun x => x.2.1 != best.2.1)

/-- Float-fragility detector (not part of the code): the popped heap key is within `1e-9` of the
key of an entry that is not its sibling (siblings carry the identical double). -/
def popTie (best : Rat × Nat × List Bnd) (rest : List (Rat × Nat × List Bnd)) : Bool :=
  rest.any fun x => decide (absQ (x.1 - best.1) ≤ 1 / 1000000000) && (x.2.1 + 1) / 2 != (best.2.1 + 1) / 2

/-- `best_obj − eps` comparison with `best_obj = inf` when there is no incumbent. -/
def geBest (v : Rat) (best : Option Plan) (eps : Rat) : Bool :=
  match best with
  | none => false
  | some p => decide (v ≥ (rolls p : Rat) - eps)

/-- The `while tree and nodes_explored < max_nodes` loop. `some status` = early `return`;
`stop n` = `report_progress(...)` after the `n`-th explored node. -/
def bpLoop (solve : Solver) (eps gapTol : Rat) (lb : Int) (maxNodes : Nat) (stop : Nat → Bool) :
    Nat → BpSt → BpSt × Option String
  | 0, st => (st, none)
  | fuel + 1, st =>
    if st.nodes ≥ maxNodes then (st, none) else
    match popMin st.tree with
    | none => (st, none)
    | some ((bound, cnt, bounds), rest) =>
      let st := { st with tree := rest, fragile := st.fragile || popTie (bound, cnt, bounds) rest }
      if geBest bound st.best eps then bpLoop solve eps gapTol lb maxNodes stop fuel st else
      let r := solve st.cols bounds
      let st := { st with cols := r.cols, nodes := st.nodes + 1, nodeStalls := max st.nodeStalls r.stalls }
      if stop st.nodes then (st, none) else  -- `report_progress(...)` asked to stop: `break`
      match r.obj with
      | none => bpLoop solve eps gapTol lb maxNodes stop fuel st
      | some obj =>
        if geBest obj st.best eps then bpLoop solve eps gapTol lb maxNodes stop fuel st else
        match mostFractional r.xs eps with
        | none =>
          let cand := buildSolution r.xs st.cols eps
          let better := match st.best with
            | none => true
            | some p => decide ((rolls cand : Rat) < (rolls p : Rat) - eps)
          if better then
            let st := { st with best := some cand }
            if gapOk (rolls cand) lb gapTol then (st, some "OPTIMAL")
            else bpLoop solve eps gapTol lb maxNodes stop fuel st
          else bpLoop solve eps gapTol lb maxNodes stop fuel st
        | some (idx, val) =>
          let st := { st with fragile := st.fragile || fracTie r.xs eps }
          let left := (obj, st.counter, bounds ++ [⟨idx, 0, some (val.floor : Rat)⟩])
          let right := (obj, st.counter + 1, bounds ++ [⟨idx, (val.ceil : Rat), none⟩])
          bpLoop solve eps gapTol lb maxNodes stop fuel
            { st with tree := st.tree ++ [left, right], counter := st.counter + 2 }

/-- `_branch_and_price`. -/
def bpRun (solve : Solver) (cols0 : List Pat) (d : List Nat) (eps gapTol : Rat) (maxIter maxNodes : Nat)
    (stop : Nat → Bool := fun _ => false) : BpOut :=
  let root := solve cols0 []
  match root.obj with
  | none => ⟨"INFEASIBLE", none, 0, 0, false, 0, false, root.duals, none, false, root.stalls, root.stallVal, 0⟩
  | some obj =>
    let conv := decide (root.iters < maxIter)
    let lb : Int := if conv then (obj - eps).ceil else 0
    match mostFractional root.xs eps with
    | none =>
      let plan := buildSolution root.xs root.cols eps
      ⟨if conv then "OPTIMAL" else "FEASIBLE", some plan, rolls plan, 0, conv, lb, true, root.duals, some obj, false,
        root.stalls, root.stallVal, 0⟩
    | some _ =>
      let st0 : BpSt := ⟨root.cols, [(obj, 0, [])], 1, roundSolution root.xs root.cols d eps, 0, false, 0⟩
      let (st, early) := bpLoop solve eps gapTol lb maxNodes stop (2 * maxNodes + 2) st0
      match early with
      | some s => ⟨s, st.best, (st.best.map rolls).getD 0, st.nodes, conv, lb, false, root.duals, some obj, st.fragile,
          root.stalls, root.stallVal, st.nodeStalls⟩
      | none =>
        match st.best with
        | none => ⟨"INFEASIBLE", none, 0, st.nodes, conv, lb, false, root.duals, some obj, st.fragile,
          root.stalls, root.stallVal, st.nodeStalls⟩
        | some p =>
          ⟨if gapOk (rolls p) lb gapTol then "OPTIMAL" else "FEASIBLE", some p, rolls p, st.nodes, conv, lb,
            false, root.duals, some obj, st.fragile, root.stalls, root.stallVal, st.nodeStalls⟩

/-- Cutting-stock pricer: `knapsack_pricing`, stop when `value ≤ 1 + eps`. -/
def csPricer (W : Nat) (sizes : List Nat) (eps : Rat) : Pricer :=
  ⟨fun y => let r := knapsackPricing sizes W y eps; (some r.1, r.2), fun v => decide (v ≤ 1 + eps)⟩

/-- Custom pricer of the harness: stop when `reduced cost ≥ −eps` (or no column). -/
def colsPricer (cols : List Pat) (eps : Rat) : Pricer :=
  ⟨pricingCols cols, fun v => decide (v ≥ -eps)⟩

def bpCuttingStock (W : Nat) (sizes d : List Nat) (maxIter maxNodes : Nat) (eps gapTol : Rat)
    (stop : Nat → Bool := fun _ => false) : BpOut :=
  bpRun (nodeLP (csPricer W sizes eps) d eps maxIter) (initPats W sizes d) d eps gapTol maxIter maxNodes stop

def bpCustom (cols init : List Pat) (d : List Nat) (maxIter maxNodes : Nat) (eps gapTol : Rat)
    (stop : Nat → Bool := fun _ => false) : BpOut :=
  bpRun (nodeLP (colsPricer cols eps) d eps maxIter) init d eps gapTol maxIter maxNodes stop

end Solvor.Cut.Mirror
