import Solvor.Cut.MirrorLemmas
/-!
Cut: the row-space invariant of the master-LP mirror (part of DESIGN's [S] `master-LP mirror`).

Whatever pivots `simplex_phase` / `drive_out_artificials` choose — and whichever eliminations
they skip because a factor is below `eps` — every constraint row of the tableau stays a linear
combination of the original rows, and the phase-2 objective row stays `cost − λᵀ·rows`.  Read off
at the surplus columns this gives `duals = λ`, and at the right-hand side `objective = λ·d`:
the LP value the code reports is *exactly* the dual value of the duals it reports, and the
reduced cost it holds for column `j` is exactly `1 − duals·colⱼ`.
-/
namespace Solvor.Cut.Mirror
open Solvor.Cut

/-! ### sums over `List.range` -/

def rsum (m : Nat) (f : Nat → Rat) : Rat := ((List.range m).map f).sum

theorem rsum_succ (m : Nat) (f : Nat → Rat) : rsum (m + 1) f = rsum m f + f m := by
  simp [rsum, List.range_succ]

theorem rsum_zero (f : Nat → Rat) : rsum 0 f = 0 := by simp [rsum]

theorem rsum_congr (m : Nat) (f g : Nat → Rat) (h : ∀ i, i < m → f i = g i) : rsum m f = rsum m g := by
  induction m with
  | zero => simp [rsum]
  | succ m ih => rw [rsum_succ, rsum_succ, ih (fun i hi => h i (by omega)), h m (by omega)]

theorem rsum_add (m : Nat) (f g : Nat → Rat) : rsum m (fun i => f i + g i) = rsum m f + rsum m g := by
  induction m with
  | zero => simp [rsum]
  | succ m ih => rw [rsum_succ, rsum_succ, rsum_succ, ih]; ring

theorem rsum_mul_left (m : Nat) (c : Rat) (f : Nat → Rat) : rsum m (fun i => c * f i) = c * rsum m f := by
  induction m with
  | zero => simp [rsum]
  | succ m ih => rw [rsum_succ, rsum_succ, ih]; ring

theorem rsum_single (m k : Nat) (hk : k < m) (f : Nat → Rat) :
    rsum m (fun i => if i = k then f i else 0) = f k := by
  induction m with
  | zero => omega
  | succ m ih =>
    rw [rsum_succ]
    by_cases h : k = m
    · subst h
      have : rsum k (fun i => if i = k then f i else 0) = rsum k (fun _ => 0) :=
        rsum_congr _ _ _ (fun i hi => by rw [if_neg (by omega)])
      rw [this]
      have : rsum k (fun _ => (0 : Rat)) = 0 := by
        have := rsum_mul_left k 0 (fun _ => (0 : Rat)); simpa using this
      simp [this]
    · rw [ih (by omega), if_neg (by omega)]; ring

theorem rsum_shift (m : Nat) (f : Nat → Rat) : rsum (m + 1) f = f 0 + rsum m (fun i => f (i + 1)) := by
  induction m with
  | zero => simp [rsum]
  | succ m ih => rw [rsum_succ, ih, rsum_succ]; ring

theorem dotQ_rangeMap (m : Nat) (g : Nat → Rat) (d : List Nat) (hm : d.length = m) :
    dotQ ((List.range m).map g) d = rsum m (fun i => g i * ((d.getD i 0 : Nat) : Rat)) := by
  induction m generalizing g d with
  | zero => simp [rsum, dotQ]
  | succ m ih =>
    cases d with
    | nil => simp at hm
    | cons a t =>
      rw [List.range_succ_eq_map, List.map_cons, List.map_map, rsum_shift]
      simp only [dotQ, List.getD_cons_zero, List.getD_cons_succ]
      have := ih (fun i => g (i + 1)) t (by simpa using hm)
      rw [show (g ∘ Nat.succ) = fun i => g (i + 1) from rfl, this]

/-! ### rows -/

theorem rget_rowScale (row : Row) (piv : Rat) (j : Nat) : rget (rowScale row piv) j = rget row j / piv := by
  unfold rget rowScale
  by_cases h : j < row.length
  · simp [List.getD_eq_getElem?_getD, List.getElem?_map, List.getElem?_eq_getElem h]
  · simp [List.getD_eq_getElem?_getD, List.getElem?_map, List.getElem?_eq_none (Nat.le_of_not_lt h)]

theorem rget_rowSub (row : Row) (f : Rat) (rowR : Row) (j : Nat) (h : j < row.length) :
    rget (rowSub row f rowR) j = rget row j - f * rget rowR j := by
  unfold rowSub
  simp [rget, List.getD_eq_getElem?_getD, List.getElem?_mapIdx, List.getElem?_eq_getElem h]

theorem length_rowScale (row : Row) (piv : Rat) : (rowScale row piv).length = row.length := by
  simp [rowScale]

theorem length_rowSub (row : Row) (f : Rat) (rowR : Row) : (rowSub row f rowR).length = row.length := by
  simp [rowSub]

/-- `Σ_k μ k · G_k[j]`. -/
def comb (μ : Nat → Rat) (G : List Row) (j : Nat) : Rat := rsum G.length fun k => μ k * rget (G.getD k []) j

/-- `v = c + Σ μ_k G_k` on the first `width` entries. -/
def Aff (c : Nat → Rat) (G : List Row) (width : Nat) (v : Row) : Prop :=
  v.length = width ∧ ∃ μ : Nat → Rat, ∀ j, j < width → rget v j = c j + comb μ G j

def zeroF : Nat → Rat := fun _ => 0

theorem aff_gen (G : List Row) (width i : Nat) (hi : i < G.length) (hw : (G.getD i []).length = width) :
    Aff zeroF G width (G.getD i []) := by
  refine ⟨hw, fun k => if k = i then 1 else 0, ?_⟩
  intro j _
  unfold comb zeroF
  have : rsum G.length (fun k => (if k = i then (1 : Rat) else 0) * rget (G.getD k []) j)
      = rsum G.length (fun k => if k = i then rget (G.getD k []) j else 0) :=
    rsum_congr _ _ _ (fun k _ => by by_cases h : k = i <;> simp [h])
  rw [this, rsum_single _ _ hi]; ring

theorem aff_scale (G : List Row) (width : Nat) (v : Row) (piv : Rat) (h : Aff zeroF G width v) :
    Aff zeroF G width (rowScale v piv) := by
  obtain ⟨hl, μ, hμ⟩ := h
  refine ⟨by rw [length_rowScale, hl], fun k => μ k / piv, ?_⟩
  intro j hj
  rw [rget_rowScale, hμ j hj]
  unfold comb zeroF
  have : rsum G.length (fun k => μ k / piv * rget (G.getD k []) j)
      = rsum G.length (fun k => (1 / piv) * (μ k * rget (G.getD k []) j)) :=
    rsum_congr _ _ _ (fun k _ => by ring)
  rw [this, rsum_mul_left]; ring

theorem aff_sub (c : Nat → Rat) (G : List Row) (width : Nat) (v r : Row) (f : Rat)
    (hv : Aff c G width v) (hr : Aff zeroF G width r) : Aff c G width (rowSub v f r) := by
  obtain ⟨hl, μ, hμ⟩ := hv
  obtain ⟨_, ν, hν⟩ := hr
  refine ⟨by rw [length_rowSub, hl], fun k => μ k - f * ν k, ?_⟩
  intro j hj
  rw [rget_rowSub _ _ _ _ (by omega), hμ j hj, hν j hj]
  unfold comb zeroF
  have : rsum G.length (fun k => (μ k - f * ν k) * rget (G.getD k []) j)
      = rsum G.length (fun k => μ k * rget (G.getD k []) j + (-f) * (ν k * rget (G.getD k []) j)) :=
    rsum_congr _ _ _ (fun k _ => by ring)
  rw [this, rsum_add, rsum_mul_left]; ring

/-! ### the tableau invariant -/

/-- `m` constraint rows, all in the span of `G`, then one objective row of the form `c + span`. -/
structure TInv (c : Nat → Rat) (G : List Row) (width m : Nat) (t : Tab) : Prop where
  len : t.length = m + 1
  rows : ∀ i, i < m → Aff zeroF G width (t.getD i [])
  obj : Aff c G width (t.getD m [])

theorem getD_mapIdx (t : Tab) (f : Nat → Row → Row) (i : Nat) (hi : i < t.length) :
    (t.mapIdx f).getD i [] = f i (t.getD i []) := by
  simp [List.getD_eq_getElem?_getD, List.getElem?_mapIdx, List.getElem?_eq_getElem hi]

theorem pivot_inv (c : Nat → Rat) (G : List Row) (width m : Nat) (t : Tab) (r col : Nat) (eps : Rat)
    (hr : r < m) (h : TInv c G width m t) : TInv c G width m (pivot t r col eps) := by
  have hR : Aff zeroF G width (rowScale (t.getD r []) (tget t r col)) := aff_scale _ _ _ _ (h.rows r hr)
  have key : ∀ i, i < m + 1 → (pivot t r col eps).getD i [] =
      if i = r then rowScale (t.getD r []) (tget t r col) else
        if absQ (rget (t.getD i []) col) > eps then
          rowSub (t.getD i []) (rget (t.getD i []) col) (rowScale (t.getD r []) (tget t r col))
        else t.getD i [] := by
    intro i hi
    unfold pivot
    rw [getD_mapIdx _ _ _ (by rw [h.len]; exact hi)]
    by_cases hir : i = r <;> simp [hir]
  refine ⟨by simp [pivot, h.len], ?_, ?_⟩
  · intro i hi
    rw [key i (by omega)]
    split
    · exact hR
    · split
      · exact aff_sub _ _ _ _ _ _ (h.rows i hi) hR
      · exact h.rows i hi
  · rw [key m (by omega), if_neg (by omega)]
    split
    · exact aff_sub _ _ _ _ _ _ h.obj hR
    · exact h.obj

theorem ratioTest_lt (t : Tab) (basis : List Nat) (nRows enter rhs : Nat) (eps : Rat) (l : Nat)
    (h : ratioTest t basis nRows enter rhs eps = some l) : l < nRows := by
  unfold ratioTest at h
  have gen : ∀ (xs : List Nat) (acc : Option Nat × Option Rat),
      (∀ x ∈ xs, x < nRows) → (∀ l, acc.1 = some l → l < nRows) →
      ∀ l, (xs.foldl (fun (acc : Option Nat × Option Rat) i =>
        let a := tget t i enter
        if a > eps then
          let ratio := tget t i rhs / a
          match acc with
          | (_, none) => (some i, some ratio)
          | (lv, some mr) =>
            if ratio < mr - eps then (some i, some ratio)
            else if absQ (ratio - mr) ≤ eps then
              match lv with
              | some l => if basis.getD i 0 < basis.getD l 0 then (some i, some mr) else acc
              | none => acc
            else acc
        else acc) acc).1 = some l → l < nRows := by
    intro xs
    induction xs with
    | nil => intro acc _ hacc l hl; exact hacc l hl
    | cons x xs ih =>
      intro acc hx hacc l hl
      rw [List.foldl_cons] at hl
      refine ih _ (fun y hy => hx y (List.mem_cons_of_mem _ hy)) ?_ l hl
      intro l' hl'
      have hxl : x < nRows := hx x (by simp)
      dsimp only at hl'
      split at hl'
      · split at hl'
        · cases hl'; exact hxl
        · rename_i lv mr
          split at hl'
          · cases hl'; exact hxl
          · split at hl'
            · split at hl'
              · split at hl'
                · cases hl'; exact hxl
                · exact hacc l' hl'
              · exact hacc l' hl'
            · exact hacc l' hl'
      · exact hacc l' hl'
  exact gen (List.range nRows) (none, none) (fun x hx => List.mem_range.1 hx) (by simp) l h

theorem simplexPhase_inv (c : Nat → Rat) (G : List Row) (width m : Nat) (eps : Rat) (nOrig rhs : Nat) :
    ∀ (fuel : Nat) (s : Tab × List Nat), TInv c G width m s.1 →
      TInv c G width m (simplexPhase eps nOrig m rhs fuel s).1 := by
  intro fuel
  induction fuel with
  | zero => intro s h; simpa [simplexPhase] using h
  | succ fuel ih =>
    intro s h
    obtain ⟨t, basis⟩ := s
    unfold simplexPhase
    split
    · exact h
    · next e _ =>
      split
      · exact h
      · next l hl =>
        exact ih (pivot t l e eps, basis.set l e)
          (pivot_inv c G width m t l e eps (ratioTest_lt _ _ _ _ _ _ _ hl) h)

theorem driveOut_inv (c : Nat → Rat) (G : List Row) (width m : Nat) (eps : Rat) (nOrig : Nat)
    (s : Tab × List Nat) (h : TInv c G width m s.1) : TInv c G width m (driveOut eps nOrig m s).1 := by
  unfold driveOut
  have gen : ∀ (xs : List Nat) (s : Tab × List Nat), (∀ x ∈ xs, x < m) → TInv c G width m s.1 →
      TInv c G width m (xs.foldl (driveStep eps nOrig) s).1 := by
    intro xs
    induction xs with
    | nil => intro s _ h; exact h
    | cons x xs ih =>
      intro s hx h
      rw [List.foldl_cons]
      refine ih _ (fun y hy => hx y (List.mem_cons_of_mem _ hy)) ?_
      unfold driveStep
      split
      · exact h
      · split
        · exact pivot_inv c G width m s.1 x _ eps (hx x (by simp)) h
        · exact h
  exact gen _ s (fun x hx => List.mem_range.1 hx) h

/-- Phase-2 cost row as a function. -/
def costF (n : Nat) : Nat → Rat := fun j => if j < n then 1 else 0

theorem phase2Obj_aff (G : List Row) (width m n : Nat) (t : Tab) (basis : List Nat)
    (hrows : ∀ i, i < m → Aff zeroF G width (t.getD i [])) :
    Aff (costF n) G width (phase2Obj t basis n m width) := by
  unfold phase2Obj
  have gen : ∀ (xs : List Nat) (o : Row), (∀ x ∈ xs, x < m) → Aff (costF n) G width o →
      Aff (costF n) G width (xs.foldl (fun o i =>
        if basis.getD i 0 < n then rowSub o 1 (t.getD i []) else o) o) := by
    intro xs
    induction xs with
    | nil => intro o _ h; exact h
    | cons x xs ih =>
      intro o hx h
      rw [List.foldl_cons]
      refine ih _ (fun y hy => hx y (List.mem_cons_of_mem _ hy)) ?_
      split
      · exact aff_sub _ _ _ _ _ _ h (hrows x (hx x (by simp)))
      · exact h
  refine gen _ _ (fun x hx => List.mem_range.1 hx) ⟨by simp, fun _ => 0, ?_⟩
  intro j hj
  have h0 : comb (fun _ => 0) G j = 0 := by
    unfold comb
    have := rsum_mul_left G.length 0 (fun k => rget (G.getD k []) j)
    simpa using this
  rw [h0]
  simp [rget, costF, List.getD_eq_getElem?_getD, List.getElem?_map, List.getElem?_range hj]

/-- The row-space invariant of the two-phase core: in the final tableau the objective row is
`cost + Σ μ_k rows_k` for some multipliers `μ`. -/
theorem lpCore_obj (eps : Rat) (rows : List Row) (artRows : List Bool) (isArt : Nat → Bool)
    (basis0 : List Nat) (nOrig n width : Nat) (t : Tab) (b : List Nat)
    (hw : ∀ i, i < rows.length → (rows.getD i []).length = width)
    (h : lpCore eps rows artRows isArt basis0 nOrig n width = some (t, b)) :
    ∃ μ : Nat → Rat, ∀ j, j < width → tget t rows.length j = costF n j + comb μ rows j := by
  unfold lpCore at h
  dsimp only at h
  split at h
  · cases h
  · -- phase 1: only the constraint rows matter; carry the objective row with a dummy `c`
    generalize hobj1 : ((List.range width).map fun j =>
      if isArt j then (0 : Rat) else
        (rows.zip artRows).foldl (fun a ra => if ra.2 then a - rget ra.1 j else a) 0) = obj1 at h
    have hobj1len : obj1.length = width := by subst hobj1; simp
    -- use c := the row obj1 itself (μ = 0)
    have h0 : TInv (fun j => rget obj1 j) rows width rows.length (rows ++ [obj1]) := by
      refine ⟨by simp, ?_, ?_⟩
      · intro i hi
        have : (rows ++ [obj1]).getD i [] = rows.getD i [] := by
          simp [List.getD_eq_getElem?_getD, List.getElem?_append_left hi]
        rw [this]; exact aff_gen rows width i hi (hw i hi)
      · have : (rows ++ [obj1]).getD rows.length [] = obj1 := by
          simp [List.getD_eq_getElem?_getD]
        rw [this]
        refine ⟨hobj1len, fun _ => 0, ?_⟩
        intro j _
        have h0 : comb (fun _ => 0) rows j = 0 := by
          unfold comb
          have := rsum_mul_left rows.length 0 (fun k => rget (rows.getD k []) j)
          simpa using this
        rw [h0]; ring
    have h1 := simplexPhase_inv _ rows width rows.length eps nOrig (width - 1) simplexFuel
      (rows ++ [obj1], basis0) h0
    have h2 := driveOut_inv _ rows width rows.length eps nOrig _ h1
    generalize driveOut eps nOrig rows.length
      (simplexPhase eps nOrig rows.length (width - 1) simplexFuel (rows ++ [obj1], basis0)) = s2 at h h2
    have h3 : TInv (costF n) rows width rows.length
        (s2.1.set rows.length (phase2Obj s2.1 s2.2 n rows.length width)) := by
      refine ⟨by simp [h2.len], ?_, ?_⟩
      · intro i hi
        have : (s2.1.set rows.length (phase2Obj s2.1 s2.2 n rows.length width)).getD i [] = s2.1.getD i [] := by
          simp [List.getD_eq_getElem?_getD, Nat.ne_of_gt hi]
        rw [this]; exact h2.rows i hi
      · have : (s2.1.set rows.length (phase2Obj s2.1 s2.2 n rows.length width)).getD rows.length []
            = phase2Obj s2.1 s2.2 n rows.length width := by
          simp [List.getD_eq_getElem?_getD, h2.len]
        rw [this]; exact phase2Obj_aff rows width rows.length n s2.1 s2.2 h2.rows
    have h4 := simplexPhase_inv _ rows width rows.length eps nOrig (width - 1) simplexFuel
      (s2.1.set rows.length (phase2Obj s2.1 s2.2 n rows.length width), s2.2) h3
    have hh := Option.some.inj h
    have ht : t = (simplexPhase eps nOrig rows.length (width - 1) simplexFuel
      (s2.1.set rows.length (phase2Obj s2.1 s2.2 n rows.length width), s2.2)).1 := by rw [hh]
    rw [ht]
    obtain ⟨_, μ, hμ⟩ := h4.obj
    exact ⟨μ, fun j hj => hμ j hj⟩

/-! ### the master LP of `solve_cg` -/

theorem rget_rangeMap (w : Nat) (f : Nat → Rat) (j : Nat) (hj : j < w) :
    rget ((List.range w).map f) j = f j := by
  simp [rget, List.getD_eq_getElem?_getD, List.getElem?_map, List.getElem?_range hj]

theorem masterRow_length (cols : List Pat) (d : List Nat) (i : Nat) :
    (demandRow cols d 0 0 i).length = cols.length + 2 * d.length + 1 := by
  simp [demandRow]; omega

theorem masterRow_x (cols : List Pat) (d : List Nat) (i j : Nat) (hj : j < cols.length) :
    rget (demandRow cols d 0 0 i) j = (((cols.getD j []).getD i 0 : Nat) : Rat) := by
  unfold demandRow
  dsimp only
  rw [rget_rangeMap _ _ _ (by omega), if_pos hj]

theorem masterRow_surplus (cols : List Pat) (d : List Nat) (i k : Nat) (hk : k < d.length) :
    rget (demandRow cols d 0 0 i) (cols.length + k) = if k = i then -1 else 0 := by
  unfold demandRow
  dsimp only
  rw [rget_rangeMap _ _ _ (by omega), if_neg (by omega)]
  by_cases h : k = i
  · subst h; simp
  · rw [if_neg (by omega), if_neg (by omega), if_neg (by omega), if_neg h]

theorem masterRow_rhs (cols : List Pat) (d : List Nat) (i : Nat) (hi : i < d.length) :
    rget (demandRow cols d 0 0 i) (cols.length + 2 * d.length) = ((d.getD i 0 : Nat) : Rat) := by
  unfold demandRow
  dsimp only
  rw [rget_rangeMap _ _ _ (by omega), if_neg (by omega), if_neg (by omega), if_neg (by omega),
    if_pos (by omega)]

theorem getD_rangeMap_list (m : Nat) (f : Nat → Row) (i : Nat) (hi : i < m) :
    ((List.range m).map f).getD i [] = f i := by
  simp [List.getD_eq_getElem?_getD, List.getElem?_map, List.getElem?_range hi]

/-- The multipliers of the row-space invariant, read off the final tableau of the master LP:
`duals = λ`, reduced cost of column `j` is `1 − λ·colⱼ`, objective `= λ·d`. -/
theorem masterCore_rows (cols : List Pat) (d : List Nat) (eps : Rat) (t : Tab) (b : List Nat)
    (h : masterCore cols d eps = some (t, b)) :
    (∀ j, j < cols.length → tget t d.length j =
      1 - rsum d.length (fun i => tget t d.length (cols.length + i) * (((cols.getD j []).getD i 0 : Nat) : Rat))) ∧
    -(tget t d.length (cols.length + 2 * d.length)) =
      rsum d.length (fun i => tget t d.length (cols.length + i) * ((d.getD i 0 : Nat) : Rat)) := by
  unfold masterCore at h
  dsimp only at h
  have hlen : ((List.range d.length).map (demandRow cols d 0 0)).length = d.length := by simp
  obtain ⟨μ, hμ⟩ := lpCore_obj eps _ _ _ _ _ _ _ t b (by
    intro i hi
    rw [hlen] at hi
    rw [getD_rangeMap_list _ _ _ hi, masterRow_length]) h
  rw [hlen] at hμ
  have hcomb : ∀ j, comb μ ((List.range d.length).map (demandRow cols d 0 0)) j
      = rsum d.length (fun k => μ k * rget (demandRow cols d 0 0 k) j) := by
    intro j
    unfold comb
    rw [hlen]
    exact rsum_congr _ _ _ (fun k hk => by rw [getD_rangeMap_list _ _ _ hk])
  -- duals: the surplus columns
  have hdual : ∀ k, k < d.length → tget t d.length (cols.length + k) = -μ k := by
    intro k hk
    rw [hμ _ (by omega), hcomb]
    have : rsum d.length (fun i => μ i * rget (demandRow cols d 0 0 i) (cols.length + k))
        = rsum d.length (fun i => if i = k then -μ i else 0) :=
      rsum_congr _ _ _ (fun i _ => by
        rw [masterRow_surplus _ _ _ _ hk]
        by_cases hik : k = i
        · subst hik; simp
        · have : ¬ i = k := fun h => hik h.symm
          simp [hik, this])
    rw [this, rsum_single _ _ hk]
    simp [costF]
  constructor
  · intro j hj
    rw [hμ _ (by omega), hcomb]
    have : rsum d.length (fun i => tget t d.length (cols.length + i) * (((cols.getD j []).getD i 0 : Nat) : Rat))
        = rsum d.length (fun i => (-1) * (μ i * rget (demandRow cols d 0 0 i) j)) :=
      rsum_congr _ _ _ (fun i hi => by rw [hdual i hi, masterRow_x _ _ _ _ hj]; ring)
    rw [this, rsum_mul_left]
    simp [costF, hj]
  · rw [hμ _ (by omega), hcomb]
    have : rsum d.length (fun i => tget t d.length (cols.length + i) * ((d.getD i 0 : Nat) : Rat))
        = rsum d.length (fun i => (-1) * (μ i * rget (demandRow cols d 0 0 i) (cols.length + 2 * d.length))) :=
      rsum_congr _ _ _ (fun i hi => by rw [hdual i hi, masterRow_rhs _ _ _ hi]; ring)
    rw [this, rsum_mul_left]
    simp [costF]

/-- [S, partial] Exact strong-duality identity of the master-LP mirror: whatever the pivots did,
the reported LP value is the dual value `duals · d` of the reported duals. -/
theorem masterLP_value_eq_dual (cols : List Pat) (d : List Nat) (eps : Rat) (o : Rat)
    (h : (masterLP cols d eps).2.2 = some o) : o = dotQ (masterLP cols d eps).2.1 d := by
  unfold masterLP at h ⊢
  dsimp only at h ⊢
  split at h
  · cases h
  · rename_i hn
    rw [if_neg hn]
    cases hc : masterCore cols d eps with
    | none => rw [hc] at h; cases h
    | some tb =>
      obtain ⟨t, b⟩ := tb
      rw [hc] at h
      dsimp only at h ⊢
      cases h
      rw [dotQ_rangeMap _ _ _ rfl]
      exact (masterCore_rows cols d eps t b hc).2

/-- `Σ_i duals_i · col[i]` for the duals read off the final tableau. -/
def priceOf (t : Tab) (n m : Nat) (col : Pat) : Rat :=
  rsum m fun i => tget t m (n + i) * ((col.getD i 0 : Nat) : Rat)

/-- [S, partial] Dual side at a regular exit: if the final tableau passes the entering test (no
enterable column with reduced cost below `−eps`, which is how `simplex_phase` normally ends and
is decidable on the output), then every pool column outside the basis is priced at most
`1 + eps` by the duals read off, and every dual whose surplus column is outside the basis is at
least `−eps`. -/
theorem masterCore_duals_eps_feasible (cols : List Pat) (d : List Nat) (eps : Rat) (t : Tab) (b : List Nat)
    (h : masterCore cols d eps = some (t, b))
    (hexit : findEnter t b (cols.length + d.length) d.length eps = none) :
    (∀ j, j < cols.length → b.contains j = false → priceOf t cols.length d.length (cols.getD j []) ≤ 1 + eps) ∧
    (∀ i, i < d.length → b.contains (cols.length + i) = false → -eps ≤ tget t d.length (cols.length + i)) := by
  obtain ⟨hx, _⟩ := masterCore_rows cols d eps t b h
  unfold findEnter at hexit
  rw [List.find?_eq_none] at hexit
  constructor
  · intro j hj hb
    have := hexit j (List.mem_range.2 (by omega))
    simp only [hb, Bool.not_false, Bool.true_and, decide_eq_true_eq] at this
    rw [hx j hj] at this
    unfold priceOf
    linarith [not_lt.1 this]
  · intro i hi hb
    have := hexit (cols.length + i) (List.mem_range.2 (by omega))
    simp only [hb, Bool.not_false, Bool.true_and, decide_eq_true_eq] at this
    exact not_lt.1 this

end Solvor.Cut.Mirror
