import Solvor.Common.Proto
import Solvor.Cut.Model
/-! Cut: line-protocol handler. One request line in, one reply line out. -/
namespace Solvor.Cut

def handle (line : String) : String := "unimplemented " ++ line

end Solvor.Cut
