import Solvor.Common.Proto
import Solvor.Cut.Model
/-! Cut: line-protocol handler.

request `["case", mode, W, sizes, demands, cols, plan, obj, duals]`
  mode    : "cs" (cutting stock: admissible = fits in width `W` with piece `sizes`) or
            "cols" (custom: admissible = member of the explicit column list `cols`)
  plan    : `null` or the implementation's plan `[[pattern, count], ...]`
  obj     : `null` or the implementation's objective as an exact rational `[num, den]`
  duals   : `null` or the dual vector the implementation priced last, exact rationals
reply `[opt, planOk, [feasOk, coversOk, objOk], rolls, [dualFeas, dualBound]]`
  opt      : exact optimum (`minRolls`, proved minimal) or `null` (demands cannot be covered)
  planOk   : verified checker `checkPlan` on the implementation's plan and objective
  feasOk.. : the three conjuncts of the checker, for the failure class only
  rolls    : `rolls plan`
  dualFeas : verified `dualFeasible` on the duals after clamping negatives to 0 and scaling by
             `max 1 (max_p y·p)`; dualBound : `⌈y·d⌉` of that vector (≤ optimum by `dual_bound`)
-/
namespace Solvor.Cut
open Solvor.Proto

def parsePlan (v : Val) : Option Plan := do
  let xs ← v.toArr?
  xs.mapM fun e => do
    match e with
    | Val.arr [p, c] => some ((← p.toNats?), (← c.toNat?))
    | _ => none

def handle (line : String) : String :=
  match request line with
  | some ("case", [mode, w, sizes, dem, cols, plan, obj, duals]) =>
    match mode.toStr?, w.toNat?, sizes.toNats?, dem.toNats?, cols.toNatss?,
          Val.toOpt? parsePlan plan, Val.toOpt? Val.toRat? obj, Val.toOpt? Val.toRats? duals with
    | some mode, some w, some sizes, some dem, some cols, some plan, some obj, some duals =>
      let cs := mode == "cs"
      let feasB : Pat → Bool := if cs then fitsB w sizes else inColsB cols
      let opt : Option Nat := if cs then csOpt w sizes dem else minRolls cols dem dem.sum
      let objN : Option Nat := match obj with
        | some q => if q.den == 1 && 0 ≤ q.num then some q.num.toNat else none
        | none => none
      let (ok, parts, r) : Bool × List Bool × Nat := match plan with
        | some pl =>
          let f := pl.all (fun pc => feasB pc.1)
          let c := (List.range dem.length).all (fun i => decide (dem.getD i 0 ≤ produced pl i))
          let o := match objN with | some n => n == rolls pl | none => false
          ((match objN with | some n => checkPlan feasB dem pl n | none => false), [f, c, o], rolls pl)
        | none => (false, [], 0)
      let dual : Val := match duals with
        | some y =>
          let y0 := y.map fun q => if q < 0 then 0 else q
          let m : Rat := if cs then knapMax w sizes y0 else cols.foldl (fun a p => maxQ a (dotQ y0 p)) 0
          let y1 := scaleDual m y0
          let f := if cs then dualFeasible w sizes y1 else dualFeasibleCols cols y1
          Val.arr [Val.bool f, Val.int (dualBound y1 dem)]
        | none => Val.null
      (Val.arr [Val.ofOpt (fun (n : Nat) => Val.int n) opt, Val.bool ok,
        Val.arr (parts.map Val.bool), Val.int r, dual]).render
    | _, _, _, _, _, _, _, _ => err "bad arguments"
  | _ => err "bad request"

end Solvor.Cut
