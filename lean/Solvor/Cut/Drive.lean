import Solvor.Common.Proto
import Solvor.Cut.Model
import Solvor.Cut.Mirror
import Solvor.Cut.MirrorBp
/-! Cut: line-protocol handler.

request `["case", mode, W, sizes, demands, cols, plan, obj, duals, fn, maxIter, init, maxNodes,
         progInterval, progStop]`
  mode    : "cs" (cutting stock: admissible = fits in width `W` with piece `sizes`) or
            "cols" (custom: admissible = member of the explicit column list `cols`)
  plan    : `null` or the implementation's plan `[[pattern, count], ...]`
  obj     : `null` or the implementation's objective as an exact rational `[num, den]`
  duals   : `null` or the dual vector the implementation priced last, exact rationals
  fn      : "solve_cg" / "solve_bp" (the corresponding mirror is run as well) or anything else
  maxIter : `max_iter` of the call; init : initial columns (custom mode); maxNodes : `max_nodes`
  progInterval, progStop : `progress_interval` and the iteration from which the harness's
            `on_progress` callback asks to stop (`null`: never; interval 0: no callback)
reply `[opt, planOk, [feasOk, coversOk, objOk], rolls, [dualFeas, dualBound], mirror]`
  opt      : exact optimum (`minRolls`, proved minimal) or `null` (demands cannot be covered)
  planOk   : verified checker `checkPlan` on the implementation's plan and objective
  feasOk.. : the three conjuncts of the checker, for the failure class only
  rolls    : `rolls plan`
  dualFeas : verified `dualFeasible` on the duals after clamping negatives to 0 and scaling by
             `max 1 (max_p y·p)`; dualBound : `⌈y·d⌉` of that vector (≤ optimum by `dual_bound`)
  mirror   : `null` or `[status, plan, iterations, planOk, dualFeas, dualBound, rawDualFeas]` of the
             `solve_cg` mirror: its returned value (R_trace), the verified checkers on its own
             output, and the side condition of `cg_mirror_optimal_of_duals` (its unscaled duals
             pass `dualFeasible`); for `solve_bp` the list continues with
             `[rootConverged, lowerBound, rootIntegral, rootSide, fragile, rootStalls, nodeStalls,
             stallAcrossInt]` (duals = those of the root LP;
             rootSide: `rolls ≤ ⌈root LP value − eps⌉`, the side condition of `bp_mirror_optimal_of_duals`
             when the root LP was already integral; fragile: a tie was met that doubles decide by
             rounding noise, R_trace is not applied) and `plan` is `null` without incumbent
-/
namespace Solvor.Cut
open Solvor.Proto

def parsePlan (v : Val) : Option Plan := do
  let xs ← v.toArr?
  xs.mapM fun e => do
    match e with
    | Val.arr [p, c] => some ((← p.toNats?), (← c.toNat?))
    | _ => none

/-- Coverage: the root LP value stalled for ≥ 2 consecutive new columns at a level whose rounded-up
value exceeds that of the final root LP (a tailing-off cut-off there would overstate the bound). -/
def stallAcrossInt (eps : Rat) (stallVal rootObj : Option Rat) : Bool :=
  match stallVal, rootObj with
  | some v, some q => decide ((q - eps).ceil < (v - eps).ceil)
  | _, _ => false

def handle (line : String) : String :=
  match request line with
  | some ("case", [mode, w, sizes, dem, cols, plan, obj, duals, fn, mi, init, mn, pi, ps]) =>
    match mode.toStr?, w.toNat?, sizes.toNats?, dem.toNats?, cols.toNatss?,
          Val.toOpt? parsePlan plan, Val.toOpt? Val.toRat? obj, Val.toOpt? Val.toRats? duals,
          fn.toStr?, mi.toNat?, init.toNatss?, mn.toNat?, pi.toNat?, Val.toOpt? Val.toNat? ps with
    | some mode, some w, some sizes, some dem, some cols, some plan, some obj, some duals,
      some fn, some mi, some init, some mn, some pi, some ps =>
      let stop := Mirror.progStop pi ps
      let cs := mode == "cs"
      let feasB : Pat → Bool := if cs then fitsB w sizes else inColsB cols
      let opt : Option Nat := if cs then csOpt w sizes dem else minRolls cols dem dem.sum
      let objN : Option Nat := match obj with
        | some q => if q.den == 1 && 0 ≤ q.num then some q.num.toNat else none
        | none => none
      let (ok, parts, r) : Bool × List Bool × Nat := match plan with
        | some pl =>
          let f := pl.all (fun pc => feasB pc.1)
          let c := (List.range dem.length).all (fun i => decide (dem.getD i 0 ≤ produced pl i))
          let o := match objN with | some n => n == rolls pl | none => false
          ((match objN with | some n => checkPlan feasB dem pl n | none => false), [f, c, o], rolls pl)
        | none => (false, [], 0)
      let certify (y : List Rat) : Bool × Int :=
        let y0 := y.map fun q => if q < 0 then 0 else q
        let m : Rat := if cs then knapMax w sizes y0 else cols.foldl (fun a p => maxQ a (dotQ y0 p)) 0
        let y1 := scaleDual m y0
        (if cs then dualFeasible w sizes y1 else dualFeasibleCols cols y1, dualBound y1 dem)
      let dual : Val := match duals with
        | some y => let (f, b) := certify y; Val.arr [Val.bool f, Val.int b]
        | none => Val.null
      let mirror : Val :=
        if fn == "solve_cg" then
          let eps := Solvor.Gen.Cut.cgEps
          let o : Mirror.CgOut :=
            if dem.all (· == 0) then ⟨"OPTIMAL", [], 0, 0, List.replicate dem.length 0, some 0⟩
            else if cs then Mirror.cgCuttingStock w sizes dem mi eps stop
            else Mirror.cgCustom cols init dem mi eps stop
          let (f, b) := certify o.duals
          let raw := if cs then dualFeasible w sizes o.duals else dualFeasibleCols cols o.duals
          Val.arr [Val.str o.status,
            Val.arr (o.plan.map fun pc => Val.arr [Val.ofNats pc.1, Val.int pc.2]),
            Val.int o.iters, Val.bool (checkPlan feasB dem o.plan o.total), Val.bool f, Val.int b,
            Val.bool raw]
        else if fn == "solve_bp" then
          let eps := Solvor.Gen.Cut.bpEps
          let tol := Solvor.Gen.Cut.bpGapTol
          let o : Mirror.BpOut :=
            if dem.all (· == 0) then ⟨"OPTIMAL", some [], 0, 0, true, 0, true, List.replicate dem.length 0, some 0, false, 0, none, 0⟩
            else if cs then Mirror.bpCuttingStock w sizes dem mi mn eps tol stop
            else Mirror.bpCustom cols init dem mi mn eps tol stop
          let (f, b) := certify o.rootDuals
          let raw := if cs then dualFeasible w sizes o.rootDuals else dualFeasibleCols cols o.rootDuals
          let planOk := match o.plan with | some p => checkPlan feasB dem p o.total | none => false
          let side := match o.rootObj with
            | some q => decide ((o.total : Int) ≤ (q - eps).ceil)
            | none => false
          Val.arr [Val.str o.status,
            Val.ofOpt (fun (p : Plan) => Val.arr (p.map fun pc => Val.arr [Val.ofNats pc.1, Val.int pc.2])) o.plan,
            Val.int o.nodes, Val.bool planOk, Val.bool f, Val.int b, Val.bool raw,
            Val.bool o.rootConverged, Val.int o.lb, Val.bool o.rootIntegral, Val.bool side,
            Val.bool o.fragile, Val.int o.rootStalls, Val.int o.nodeStalls,
            Val.bool (stallAcrossInt eps o.rootStallVal o.rootObj)]
        else Val.null
      (Val.arr [Val.ofOpt (fun (n : Nat) => Val.int n) opt, Val.bool ok,
        Val.arr (parts.map Val.bool), Val.int r, dual, mirror]).render
    | _, _, _, _, _, _, _, _, _, _, _, _, _, _ => err "bad arguments"
  | some ("screen", [w, sizes, dem, mi]) =>
    -- coverage pre-screen: root column generation of the solve_bp mirror only (max_nodes = 0)
    match w.toNat?, sizes.toNats?, dem.toNats?, mi.toNat? with
    | some w, some sizes, some dem, some mi =>
      let eps := Solvor.Gen.Cut.bpEps
      let o := Mirror.bpCuttingStock w sizes dem mi 0 eps Solvor.Gen.Cut.bpGapTol
      (Val.arr [Val.int o.rootStalls, Val.bool (stallAcrossInt eps o.rootStallVal o.rootObj)]).render
    | _, _, _, _ => err "bad arguments"
  | _ => err "bad request"

end Solvor.Cut
