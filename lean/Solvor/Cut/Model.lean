/-! Cut: executable models (no Mathlib imports). -/
namespace Solvor.Cut

end Solvor.Cut
