/-!
Cut: cutting stock / set covering by columns (solvor/cg.py, solvor/bp.py) — spec side.

Everything here is executable and Mathlib-free.  Three groups:

* the *spec* (`Fits`, `produced`, `rolls`, `ValidPlan`, `IsMinRolls`) and the Boolean plan
  checker `checkPlan` the driver evaluates on the implementation's output;
* the *exact optimum* `minRolls`: breadth-first search over residual-demand vectors, one level
  per roll, with fuel (`cs_optimum_correct` in Theorems.lean);
* the *dual bound*: `knapMax` is a bounded-knapsack DP over (piece type, capacity) that
  maximises `y·p` over all patterns that fit; `dualFeasible` decides `y ≥ 0 ∧ ∀ p, y·p ≤ 1`
  and `dualBound` is `⌈y·d⌉` (`dual_bound` in Theorems.lean: it never exceeds the optimum).
-/
namespace Solvor.Cut

/-- A cutting pattern / column: how many pieces of each type one roll yields. -/
abbrev Pat := List Nat
/-- A plan: patterns with the number of rolls cut that way (the `{pattern: count}` dict). -/
abbrev Plan := List (Pat × Nat)

/-! ### vectors -/

/-- `Σ sᵢ·pᵢ` over the common prefix. -/
def dotN : List Nat → List Nat → Nat
  | s :: ss, c :: cs => s * c + dotN ss cs
  | _, _ => 0

/-- `Σ yᵢ·pᵢ` over the common prefix. -/
def dotQ : List Rat → List Nat → Rat
  | y :: ys, c :: cs => y * (c : Rat) + dotQ ys cs
  | _, _ => 0

/-- Truncated componentwise subtraction; keeps the length of the first argument. -/
def subv : List Nat → List Nat → List Nat
  | d :: ds, p :: ps => (d - p) :: subv ds ps
  | ds, [] => ds
  | [], _ => []

def isZero (d : List Nat) : Bool := d.all (· == 0)

/-! ### spec -/

/-- Cutting-stock mode: a pattern is admissible when it has one count per piece type and the
pieces fit in the roll width. -/
def Fits (W : Nat) (sizes : List Nat) (p : Pat) : Prop :=
  p.length = sizes.length ∧ dotN sizes p ≤ W

def fitsB (W : Nat) (sizes : List Nat) (p : Pat) : Bool :=
  p.length == sizes.length && decide (dotN sizes p ≤ W)

/-- Custom mode: the admissible columns are an explicit list. -/
def InCols (cols : List Pat) (p : Pat) : Prop := p ∈ cols

def inColsB (cols : List Pat) (p : Pat) : Bool := cols.contains p

/-- Number of pieces of type `i` the plan produces: `Σ_{(p,c) ∈ plan} p[i]·c`. -/
def produced (plan : Plan) (i : Nat) : Nat := (plan.map fun pc => pc.1.getD i 0 * pc.2).sum

/-- Number of rolls the plan uses. -/
def rolls (plan : Plan) : Nat := (plan.map fun pc => pc.2).sum

/-- A plan is valid for demands `d` when every pattern is admissible and every demand is met. -/
structure ValidPlan (Feas : Pat → Prop) (d : List Nat) (plan : Plan) : Prop where
  feas : ∀ pc ∈ plan, Feas pc.1
  covers : ∀ i, i < d.length → d.getD i 0 ≤ produced plan i

/-- `k` is the true minimum number of rolls: some valid plan uses `k`, none uses fewer. -/
def IsMinRolls (Feas : Pat → Prop) (d : List Nat) (k : Nat) : Prop :=
  (∃ plan, ValidPlan Feas d plan ∧ rolls plan = k) ∧ ∀ plan, ValidPlan Feas d plan → k ≤ rolls plan

/-- The plan checker (T-spec): admissible patterns, demands met, objective = rolls. -/
def checkPlan (feasB : Pat → Bool) (d : List Nat) (plan : Plan) (obj : Nat) : Bool :=
  plan.all (fun pc => feasB pc.1) &&
  (List.range d.length).all (fun i => decide (d.getD i 0 ≤ produced plan i)) &&
  obj == rolls plan

/-! ### exact optimum: level-by-level search over residual demands -/

/-- Lexicographic order on vectors, only used to sort a level before removing duplicates
(correctness does not depend on it). -/
def lexLe : List Nat → List Nat → Bool
  | a :: as, b :: bs => if a < b then true else if b < a then false else lexLe as bs
  | [], _ => true
  | _ :: _, [] => false

/-- Remove adjacent duplicates. -/
def dedupAdj : List (List Nat) → List (List Nat)
  | a :: b :: t => if a == b then dedupAdj (b :: t) else a :: dedupAdj (b :: t)
  | l => l

/-- Residual demands reachable with one more roll. -/
def stepLevel (pats : List Pat) (F : List (List Nat)) : List (List Nat) :=
  dedupAdj ((F.flatMap fun e => pats.map fun p => subv e p).mergeSort lexLe)

/-- `search pats fuel k F`: `F` is the set of residual demands reachable with exactly `k` rolls;
answer the first level that contains the zero vector, give up after `fuel` more levels. -/
def search (pats : List Pat) : Nat → Nat → List (List Nat) → Option Nat
  | 0, k, F => if F.any isZero then some k else none
  | fuel + 1, k, F => if F.any isZero then some k else search pats fuel (k + 1) (stepLevel pats F)

/-- Minimum number of columns of `pats` (with repetition) whose sum covers `d`; `none` when
`fuel` rolls are not enough. -/
def minRolls (pats : List Pat) (d : List Nat) (fuel : Nat) : Option Nat := search pats fuel 0 [d]

/-- Patterns for (W, sizes) with `pᵢ ≤ capsᵢ`; the count of the last piece type is always the
largest that fits (a pattern with fewer copies of it is dominated). -/
def enumPats : Nat → List Nat → List Nat → List Pat
  | _, [], _ => [[]]
  | W, [s], caps => [[min (caps.headD 0) (W / s)]]
  | W, s :: s' :: ss, caps =>
    (List.range (caps.headD 0 + 1)).flatMap fun c =>
      if s * c ≤ W then (enumPats (W - s * c) (s' :: ss) caps.tail).map (c :: ·) else []

/-- Exact cutting-stock optimum.  Fuel `Σ d` always suffices (one roll per demanded piece). -/
def csOpt (W : Nat) (sizes d : List Nat) : Option Nat :=
  minRolls (enumPats W sizes d) d d.sum

/-! ### dual bound: bounded knapsack DP -/

def maxQ (a b : Rat) : Rat := if a ≤ b then b else a

/-- Best value of `c·v + old[w − c·s]` over `0 ≤ c ≤ cmax`. -/
def bestCopies (s : Nat) (v : Rat) (old : List Rat) (w : Nat) : Nat → Rat
  | 0 => old.getD w 0
  | c + 1 => maxQ (bestCopies s v old w c) (((c + 1 : Nat) : Rat) * v + old.getD (w - (c + 1) * s) 0)

/-- DP row: entry `w` (for `0 ≤ w ≤ W`) is the largest `y·p` over patterns `p` of the listed
piece types with `sizes·p ≤ w`.  One row per piece type, built from the row of the remaining
types (`max_copies = w / s` copies at most, as in `knapsack_pricing`). -/
def knapRow (W : Nat) : List Nat → List Rat → List Rat
  | s :: ss, v :: vs =>
    let old := knapRow W ss vs
    (List.range (W + 1)).map fun w => bestCopies s v old w (w / s)
  | _, _ => List.replicate (W + 1) 0

def knapMax (W : Nat) (sizes : List Nat) (y : List Rat) : Rat := (knapRow W sizes y).getD W 0

/-- Decides `y ≥ 0 ∧ ∀ fitting p, y·p ≤ 1` (dual feasibility over ALL patterns). -/
def dualFeasible (W : Nat) (sizes : List Nat) (y : List Rat) : Bool :=
  y.length == sizes.length && y.all (fun q => decide (0 ≤ q)) && decide (knapMax W sizes y ≤ 1)

/-- Same for an explicit column list. -/
def dualFeasibleCols (cols : List Pat) (y : List Rat) : Bool :=
  y.all (fun q => decide (0 ≤ q)) && cols.all (fun p => decide (dotQ y p ≤ 1))

/-- The lower bound `⌈y·d⌉` of column generation. -/
def dualBound (y : List Rat) (d : List Nat) : Int := (dotQ y d).ceil

/-- Scale an arbitrary non-negative `y` into the dual-feasible region: divide by
`max 1 (max_p y·p)`. -/
def scaleDual (m : Rat) (y : List Rat) : List Rat :=
  if 1 < m then y.map (· / m) else y

/-! ### the status rule of the repaired `solve_bp` / `solve_cg`

`OPTIMAL` is claimed exactly when the incumbent does not exceed the rounded-up LP bound of a
converged column generation (cg.py tail; bp.py with the proposed status patch, `gap_tol` at
its default: integers `best`, `lb` with `(best − lb)/best < 1e-6` iff `best ≤ lb`). -/
def claimsOptimal (converged : Bool) (best : Nat) (lb : Int) : Bool :=
  converged && decide ((best : Int) ≤ lb)

end Solvor.Cut
