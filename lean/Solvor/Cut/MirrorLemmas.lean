import Solvor.Cut.Mirror
import Solvor.Cut.LemmasDual
/-! Cut: lemmas about the `solve_cg` mirror that do not need LP correctness
(round-up, demand re-check, status rule, admissibility of every generated pattern). -/
namespace Solvor.Cut.Mirror
open Solvor.Cut

/-! ### `finish` -/

theorem roundUp_mem (cols : List Pat) (xs : List Rat) (eps : Rat) :
    ∀ pc ∈ roundUp cols xs eps, pc.1 ∈ cols := by
  intro pc hpc
  unfold roundUp at hpc
  obtain ⟨px, hpx, h⟩ := List.mem_filterMap.1 hpc
  split at h
  · dsimp only at h
    split at h
    · cases h
      exact (List.of_mem_zip hpx).1
    · cases h
  · cases h

theorem finish_plan (cols : List Pat) (d : List Nat) (eps : Rat) (it : Nat) (conv verify : Bool) :
    (finish cols d eps it conv verify).plan = roundUp cols (masterLP cols d eps).1 eps := rfl

theorem finish_total (cols : List Pat) (d : List Nat) (eps : Rat) (it : Nat) (conv verify : Bool) :
    (finish cols d eps it conv verify).total = rolls (finish cols d eps it conv verify).plan := rfl

theorem finish_duals (cols : List Pat) (d : List Nat) (eps : Rat) (it : Nat) (conv verify : Bool) :
    (finish cols d eps it conv verify).duals = (masterLP cols d eps).2.1 := rfl

theorem finish_lpObj (cols : List Pat) (d : List Nat) (eps : Rat) (it : Nat) (conv verify : Bool) :
    (finish cols d eps it conv verify).lpObj = (masterLP cols d eps).2.2 := rfl

theorem finish_status_eq (cols : List Pat) (d : List Nat) (eps : Rat) (it : Nat) (conv verify : Bool) :
    (finish cols d eps it conv verify).status =
      finishStatus (finish cols d eps it conv verify).plan d (masterLP cols d eps).2.2 eps conv verify := rfl

theorem finishStatus_cases (plan : Plan) (d : List Nat) (obj : Option Rat) (eps : Rat) (conv verify : Bool) :
    finishStatus plan d obj eps conv verify = "OPTIMAL" ∨ finishStatus plan d obj eps conv verify = "FEASIBLE" ∨
    finishStatus plan d obj eps conv verify = "INFEASIBLE" ∨
    finishStatus plan d obj eps conv verify = "OverflowError" := by
  unfold finishStatus
  split
  · right; right; left; rfl
  · split
    · right; right; right; rfl
    · split
      · left; rfl
      · right; left; rfl

/-- A usable status of the cutting-stock tail means the explicit re-check found every demand met. -/
theorem finishStatus_usable_covers (plan : Plan) (d : List Nat) (obj : Option Rat) (eps : Rat) (conv : Bool)
    (h : finishStatus plan d obj eps conv true = "OPTIMAL" ∨ finishStatus plan d obj eps conv true = "FEASIBLE") :
    unmetB plan d = false := by
  cases hu : unmetB plan d with
  | false => rfl
  | true =>
    exfalso
    have hs : finishStatus plan d obj eps conv true = "INFEASIBLE" := by
      unfold finishStatus; rw [if_pos (by simp [hu])]
    rw [hs] at h
    rcases h with h | h <;> exact absurd h (by decide)

/-- What `OPTIMAL` means in the status rule: converged, an LP value exists, rolls ≤ ⌈value − eps⌉. -/
theorem finishStatus_optimal (plan : Plan) (d : List Nat) (obj : Option Rat) (eps : Rat) (conv verify : Bool)
    (h : finishStatus plan d obj eps conv verify = "OPTIMAL") :
    conv = true ∧ ∃ o, obj = some o ∧ (rolls plan : Int) ≤ (o - eps).ceil := by
  unfold finishStatus at h
  split at h
  · exact absurd h (by decide)
  · split at h
    · exact absurd h (by decide)
    · rename_i o
      split at h
      · rename_i hc
        simp only [Bool.and_eq_true, decide_eq_true_eq] at hc
        exact ⟨hc.1, o, rfl, hc.2⟩
      · exact absurd h (by decide)

theorem unmetB_false_covers (plan : Plan) (d : List Nat) (h : unmetB plan d = false) :
    ∀ i, i < d.length → d.getD i 0 ≤ produced plan i := by
  intro i hi
  unfold unmetB at h
  rw [List.any_eq_false] at h
  have := h i (List.mem_range.2 hi)
  simpa using this

/-! ### every pattern of the cutting-stock pool fits the roll -/

theorem dotN_zeros (l : List Nat) (n : Nat) : dotN l (List.replicate n 0) = 0 := by
  induction l generalizing n with
  | nil => rfl
  | cons a t ih => cases n <;> simp [List.replicate_succ, dotN, ih]

theorem dotN_single (sizes : List Nat) (j c : Nat) :
    dotN sizes ((List.range sizes.length).map fun i => if i == j then c else 0) = sizes.getD j 0 * c := by
  induction sizes generalizing j with
  | nil => simp [dotN]
  | cons s ss ih =>
    rw [List.length_cons, List.range_succ_eq_map, List.map_cons, List.map_map]
    cases j with
    | zero =>
      have : (List.map ((fun i => if (i == 0) = true then c else 0) ∘ Nat.succ) (List.range ss.length))
          = List.replicate ss.length 0 := by
        apply List.ext_getElem <;> simp
      simp only [dotN, this, dotN_zeros]; simp
    | succ j' =>
      have : (List.map ((fun i => if (i == j' + 1) = true then c else 0) ∘ Nat.succ) (List.range ss.length))
          = (List.range ss.length).map fun i => if i == j' then c else 0 := by
        apply List.map_congr_left; intro a _; simp
      simp only [dotN, this, ih]; simp

theorem initPats_fit (W : Nat) (sizes d : List Nat) : ∀ p ∈ initPats W sizes d, Fits W sizes p := by
  intro p hp
  unfold initPats at hp
  obtain ⟨j, hj, h⟩ := List.mem_filterMap.1 hp
  split at h
  · cases h
    have hjn : j < sizes.length := List.mem_range.1 hj
    refine ⟨by simp, ?_⟩
    rw [dotN_single]
    have : sizes.getD j 1 = sizes.getD j 0 := by
      simp [List.getD_eq_getElem?_getD, List.getElem?_eq_getElem hjn]
    rw [this]
    exact Nat.mul_div_le W _
  · cases h

/-- Invariant of the pricing DP: the pattern stored at scaled weight `w` weighs exactly `w`. -/
def DpInv (sizes : List Nat) (scale : Nat) (dp : Dp) : Prop :=
  ∀ w v p, dp.getD w none = some (v, p) → p.length = sizes.length ∧ dotN sizes p * scale = w

theorem getD_rangeMap {α : Type} (k : Nat) (f : Nat → Option α) (w : Nat) :
    ((List.range k).toArray.map f).getD w none = if w < k then f w else none := by
  by_cases h : w < k
  · simp [Array.getD, h]
  · simp [Array.getD, h]

theorem dotN_set_succ (sizes : List Nat) (p : List Nat) (i : Nat) (hp : p.length = sizes.length)
    (hi : i < sizes.length) :
    dotN sizes (p.set i (p.getD i 0 + 1)) = dotN sizes p + sizes.getD i 0 := by
  induction sizes generalizing p i with
  | nil => simp at hi
  | cons s ss ih =>
    cases p with
    | nil => simp at hp
    | cons c cs =>
      cases i with
      | zero => simp [dotN, Nat.mul_add]; omega
      | succ i' =>
        simp only [List.set_cons_succ, dotN, List.getD_cons_succ]
        rw [ih cs i' (by simpa using hp) (by simpa using hi)]; omega

theorem knapCell_cases (eps : Rat) (i : Nat) (v : Rat) (cur prev : Option (Rat × List Nat)) :
    knapCell eps i v cur prev = cur ∨
    ∃ pv pp, prev = some (pv, pp) ∧ knapCell eps i v cur prev = some (pv + v, pp.set i (pp.getD i 0 + 1)) := by
  cases prev with
  | none => left; rfl
  | some x =>
    obtain ⟨pv, pp⟩ := x
    by_cases hb : knapBetter eps (pv + v) cur = true
    · right; exact ⟨pv, pp, rfl, by simp [knapCell, hb]⟩
    · left; simp [knapCell, hb]

theorem knapPass_inv (sizes : List Nat) (scale : Nat) (eps : Rat) (i : Nat) (v : Rat)
    (dp : Dp) (hi : i < sizes.length)
    (h : DpInv sizes scale dp) : DpInv sizes scale (knapPass eps i (sizes.getD i 0 * scale) v dp) := by
  intro w v' p hw
  unfold knapPass at hw
  rw [getD_rangeMap] at hw
  generalize hcur : dp.getD w none = cur at hw
  generalize hprev : dp.getD (w - sizes.getD i 0 * scale) none = prev at hw
  by_cases hlt : w < dp.size
  · rw [if_pos hlt] at hw
    by_cases hge : w < sizes.getD i 0 * scale
    · rw [if_pos hge] at hw
      exact h w v' p (by rw [hcur]; exact hw)
    · rw [if_neg hge] at hw
      rcases knapCell_cases eps i v cur prev with hc | ⟨pv, pp, hp, hc⟩
      · rw [hc] at hw; exact h w v' p (by rw [hcur]; exact hw)
      · rw [hc] at hw
        cases hw
        obtain ⟨hl, hwt⟩ := h _ _ _ (hprev.trans hp)
        refine ⟨by simp [hl], ?_⟩
        rw [dotN_set_succ sizes pp i hl hi, Nat.add_mul, hwt]
        omega
  · rw [if_neg hlt] at hw; cases hw

theorem knapPass_size (eps : Rat) (i s : Nat) (v : Rat) (dp : Dp) :
    (knapPass eps i s v dp).size = dp.size := by simp [knapPass]

theorem getD_some_lt {α : Type} (a : Array (Option α)) (w : Nat) (x : α) (h : a.getD w none = some x) :
    w < a.size := by
  by_cases hw : w < a.size
  · exact hw
  · simp [Array.getD, hw] at h

theorem dpInit_inv (sizes : List Nat) (scale capInt : Nat) :
    DpInv sizes scale (dpInit sizes.length capInt) ∧ (dpInit sizes.length capInt).size = capInt + 1 := by
  refine ⟨?_, by simp [dpInit]⟩
  intro w v p hw
  unfold dpInit at hw
  rw [getD_rangeMap] at hw
  split at hw
  · split at hw
    · rename_i hw0
      cases hw
      have : w = 0 := by simpa using hw0
      subst this
      exact ⟨by simp, by rw [dotN_zeros]; simp⟩
    · cases hw
  · cases hw

theorem dpFill_inv (sizes : List Nat) (W scale : Nat) (values : List Rat) (eps : Rat) (dp0 : Dp) (k : Nat)
    (hpos : ∀ s ∈ sizes, 0 < s) (hscale : 0 < scale)
    (h0 : DpInv sizes scale dp0 ∧ dp0.size = k) :
    DpInv sizes scale (dpFill sizes W scale values eps dp0) ∧ (dpFill sizes W scale values eps dp0).size = k := by
  unfold dpFill
  have hfold : ∀ (items : List Nat) (dp : Dp),
      (∀ i ∈ items, i < sizes.length) → (DpInv sizes scale dp ∧ dp.size = k) →
      (DpInv sizes scale (items.foldl (fun dp i =>
        if values.getD i 0 ≤ eps then dp else
          (List.range (W / sizes.getD i 1)).foldl
            (fun dp _ => knapPass eps i (max 1 (sizes.getD i 1 * scale)) (values.getD i 0) dp) dp) dp) ∧
       (items.foldl (fun dp i =>
        if values.getD i 0 ≤ eps then dp else
          (List.range (W / sizes.getD i 1)).foldl
            (fun dp _ => knapPass eps i (max 1 (sizes.getD i 1 * scale)) (values.getD i 0) dp) dp) dp).size = k) := by
    intro items
    induction items with
    | nil => intro dp _ h; exact h
    | cons i rest ih =>
      intro dp hmem h
      rw [List.foldl_cons]
      apply ih _ (fun j hj => hmem j (List.mem_cons_of_mem _ hj))
      split
      · exact h
      · have hi : i < sizes.length := hmem i (by simp)
        have hs1 : sizes.getD i 1 = sizes.getD i 0 := by
          simp [List.getD_eq_getElem?_getD, List.getElem?_eq_getElem hi]
        have hspos : 0 < sizes.getD i 0 := by
          have : sizes.getD i 0 = sizes[i] := by
            simp [List.getD_eq_getElem?_getD, List.getElem?_eq_getElem hi]
          rw [this]; exact hpos _ (List.getElem_mem hi)
        have hmax : max 1 (sizes.getD i 1 * scale) = sizes.getD i 0 * scale := by
          rw [hs1]
          have : 1 ≤ sizes.getD i 0 * scale := Nat.mul_pos hspos hscale
          omega
        rw [hmax]
        generalize (List.range (W / sizes.getD i 1)) = passes
        induction passes generalizing dp with
        | nil => exact h
        | cons _ t iht =>
          rw [List.foldl_cons]
          exact iht _ ⟨knapPass_inv sizes scale eps i _ dp hi h.1, by rw [knapPass_size]; exact h.2⟩
  exact hfold (List.range sizes.length) dp0 (fun i hi => List.mem_range.1 hi) h0

/-- The pattern returned by the pricing DP fits the roll (so the greedy fall-back of
`knapsack_pricing`, taken when `total_size > capacity + eps`, is unreachable for integer data). -/
theorem knapsackPricing_fits (sizes : List Nat) (W : Nat) (values : List Rat) (eps : Rat)
    (hpos : ∀ s ∈ sizes, 0 < s) : Fits W sizes (knapsackPricing sizes W values eps).1 := by
  unfold knapsackPricing
  split
  · rename_i h0
    have : sizes = [] := List.length_eq_zero_iff.1 (by simpa using h0)
    subst this; exact ⟨rfl, by simp [dotN]⟩
  · have hscale : 0 < Solvor.Gen.Cut.pricingScale.toNat := by decide
    dsimp only
    generalize Solvor.Gen.Cut.pricingScale.toNat = scale at hscale ⊢
    obtain ⟨hinv, hsize⟩ := dpFill_inv sizes W scale values eps _ _ hpos hscale
      (dpInit_inv sizes scale (W * scale))
    generalize dpFill sizes W scale values eps (dpInit sizes.length (W * scale)) = dp at hinv hsize ⊢
    generalize dpBest dp (W * scale) eps = best
    have hzero : Fits W sizes (List.replicate sizes.length 0) := ⟨by simp, by rw [dotN_zeros]; omega⟩
    split
    · split
      · rename_i v p hb
        obtain ⟨hl, hw⟩ := hinv _ _ _ hb
        have hlt := getD_some_lt _ _ _ hb
        refine ⟨hl, ?_⟩
        rw [hsize] at hlt
        have : dotN sizes p * scale ≤ W * scale := by omega
        exact Nat.le_of_mul_le_mul_right this hscale
      · exact hzero
    · exact hzero

theorem csLoop_fit (W : Nat) (sizes d : List Nat) (eps : Rat) (stop : Nat → Bool) (hpos : ∀ s ∈ sizes, 0 < s) :
    ∀ (fuel it : Nat) (pats : List Pat), (∀ p ∈ pats, Fits W sizes p) →
      ∀ p ∈ (csLoop W sizes d eps stop fuel it pats).1, Fits W sizes p := by
  intro fuel
  induction fuel with
  | zero => intro it pats h; simpa [csLoop] using h
  | succ fuel ih =>
    intro it pats h
    unfold csLoop
    split
    · exact h
    · dsimp only
      split
      · exact h
      · apply ih
        split
        · exact h
        · intro p hp
          rcases List.mem_append.1 hp with hp | hp
          · exact h p hp
          · have : p = (knapsackPricing sizes W (masterLP pats d eps).2.1 eps).1 := by simpa using hp
            rw [this]; exact knapsackPricing_fits sizes W _ eps hpos

/-- The pricing loop reports `converged` only when it stopped because no pattern prices above
`1 + eps` under the duals of the *returned* pool (never after a stop requested by the callback or
when `max_iter` ran out). -/
theorem csLoop_converged (W : Nat) (sizes d : List Nat) (eps : Rat) (stop : Nat → Bool) :
    ∀ (fuel it : Nat) (pats : List Pat), (csLoop W sizes d eps stop fuel it pats).2.2 = true →
      (knapsackPricing sizes W (masterLP (csLoop W sizes d eps stop fuel it pats).1 d eps).2.1 eps).2 ≤ 1 + eps := by
  intro fuel
  induction fuel with
  | zero => intro it pats h; simp [csLoop] at h
  | succ fuel ih =>
    intro it pats h
    unfold csLoop at h ⊢
    split
    · rename_i hs; rw [if_pos hs] at h; simp at h
    · rename_i hs
      rw [if_neg hs] at h
      dsimp only at h ⊢
      split
      · rename_i hle; exact hle
      · rename_i hle
        rw [if_neg hle] at h
        exact ih _ _ h

theorem pricingCols_mem (cols : List Pat) (duals : List Rat) :
    ∀ c, (pricingCols cols duals).1 = some c → c ∈ cols := by
  unfold pricingCols
  have gen : ∀ (l : List Pat) (acc : Option Pat × Rat), (∀ c, acc.1 = some c → c ∈ cols) →
      (∀ c ∈ l, c ∈ cols) →
      ∀ c, (l.foldl (fun (acc : Option Pat × Rat) c =>
        let rc := 1 - dotQ duals c
        if rc < acc.2 - (1 : Rat) / 1000000000000 then (some c, rc) else acc) acc).1 = some c → c ∈ cols := by
    intro l
    induction l with
    | nil => intro acc h _ c hc; exact h c hc
    | cons x t ih =>
      intro acc h hl c hc
      rw [List.foldl_cons] at hc
      refine ih _ ?_ (fun c hc => hl c (List.mem_cons_of_mem _ hc)) c hc
      intro c' hc'
      dsimp only at hc'
      split at hc'
      · cases hc'; exact hl _ (by simp)
      · exact h c' hc'
  exact gen cols (none, 0) (by simp) (fun c hc => hc)

theorem customLoop_mem (cols : List Pat) (d : List Nat) (eps : Rat) (stop : Nat → Bool) :
    ∀ (fuel it : Nat) (cur : List Pat), ∀ p ∈ (customLoop cols d eps stop fuel it cur).1, p ∈ cur ∨ p ∈ cols := by
  intro fuel
  induction fuel with
  | zero => intro it cur p hp; left; simpa [customLoop] using hp
  | succ fuel ih =>
    intro it cur p hp
    unfold customLoop at hp
    split at hp
    · left; exact hp
    · split at hp
      · left; exact hp
      · rename_i c rc hpc
        split at hp
        · left; exact hp
        · have hc : c ∈ cols := pricingCols_mem cols _ c (by rw [hpc])
          rcases ih _ _ p hp with h | h
          · split at h
            · left; exact h
            · rcases List.mem_append.1 h with h | h
              · left; exact h
              · right; have : p = c := by simpa using h
                exact this ▸ hc
          · right; exact h

end Solvor.Cut.Mirror
