import Solvor.Cut.Lemmas
import Mathlib.Tactic.Linarith
import Mathlib.Tactic.Ring
import Mathlib.Algebra.Order.Field.Rat
/-! Cut: helper lemmas for the dual bound (rational arithmetic; Mathlib tactics only). -/
namespace Solvor.Cut

theorem dotQ_nil_right (y : List Rat) : dotQ y [] = 0 := by cases y <;> rfl

theorem dotQ_nil_left (p : List Nat) : dotQ [] p = 0 := rfl

theorem dotQ_nonneg (y : List Rat) (hy : ∀ q ∈ y, 0 ≤ q) (p : List Nat) : 0 ≤ dotQ y p := by
  induction y generalizing p with
  | nil => simp [dotQ]
  | cons a ys ih =>
    cases p with
    | nil => simp [dotQ]
    | cons c cs =>
      simp only [dotQ]
      have h1 : 0 ≤ a := hy a (by simp)
      have h2 : (0 : Rat) ≤ (c : Rat) := Nat.cast_nonneg c
      have h3 := ih (fun q hq => hy q (List.mem_cons_of_mem _ hq)) cs
      have h4 := mul_nonneg h1 h2
      linarith

/-- The plan with the first piece type dropped from every pattern. -/
def tailPlan (plan : Plan) : Plan := plan.map fun pc => (pc.1.tail, pc.2)

theorem produced_tailPlan (plan : Plan) (i : Nat) :
    produced (tailPlan plan) i = produced plan (i + 1) := by
  induction plan with
  | nil => simp [tailPlan, produced]
  | cons pc t ih =>
    have h1 : produced (tailPlan (pc :: t)) i = pc.1.tail.getD i 0 * pc.2 + produced (tailPlan t) i := by
      simp [tailPlan, produced]
    have h2 : produced (pc :: t) (i + 1) = pc.1.getD (i + 1) 0 * pc.2 + produced t (i + 1) := by
      simp [produced]
    have h3 : pc.1.tail.getD i 0 = pc.1.getD (i + 1) 0 := by cases pc.1 <;> simp
    rw [h1, h2, ih, h3]

/-- `Σ_{(p,c) ∈ plan} c · (y·p)`. -/
def wsum (y : List Rat) (plan : Plan) : Rat := (plan.map fun pc => (pc.2 : Rat) * dotQ y pc.1).sum

theorem wsum_cons (y : List Rat) (pc : Pat × Nat) (t : Plan) :
    wsum y (pc :: t) = (pc.2 : Rat) * dotQ y pc.1 + wsum y t := by simp [wsum]

theorem wsum_nil_left (plan : Plan) : wsum [] plan = 0 := by
  induction plan with
  | nil => simp [wsum]
  | cons pc t ih => rw [wsum_cons, ih, dotQ_nil_left]; simp

theorem wsum_nonneg (y : List Rat) (hy : ∀ q ∈ y, 0 ≤ q) (plan : Plan) : 0 ≤ wsum y plan := by
  induction plan with
  | nil => simp [wsum]
  | cons pc t ih =>
    rw [wsum_cons]
    have h1 := dotQ_nonneg y hy pc.1
    have h2 : (0 : Rat) ≤ (pc.2 : Rat) := Nat.cast_nonneg _
    have := mul_nonneg h2 h1
    linarith

theorem produced_cons (pc : Pat × Nat) (t : Plan) (i : Nat) :
    produced (pc :: t) i = pc.1.getD i 0 * pc.2 + produced t i := by simp [produced]

theorem wsum_cons_left (a : Rat) (ys : List Rat) (plan : Plan) :
    wsum (a :: ys) plan = a * (produced plan 0 : Rat) + wsum ys (tailPlan plan) := by
  induction plan with
  | nil => simp [wsum, produced, tailPlan]
  | cons pc t ih =>
    have ht : tailPlan (pc :: t) = (pc.1.tail, pc.2) :: tailPlan t := by simp [tailPlan]
    rw [wsum_cons, ih, ht, wsum_cons, produced_cons]
    obtain ⟨p, c⟩ := pc
    cases p with
    | nil => simp [dotQ_nil_right]
    | cons h tl => simp only [dotQ, List.getD_cons_zero, List.tail_cons]; push_cast; ring

theorem dot_le_wsum : ∀ (y : List Rat) (d : List Nat) (plan : Plan), (∀ q ∈ y, 0 ≤ q) →
    (∀ i, i < d.length → d.getD i 0 ≤ produced plan i) → dotQ y d ≤ wsum y plan := by
  intro y
  induction y with
  | nil => intro d plan _ _; rw [wsum_nil_left, dotQ_nil_left]
  | cons a ys ih =>
    intro d plan hy hc
    cases d with
    | nil => rw [dotQ_nil_right]; exact wsum_nonneg _ hy _
    | cons d0 ds =>
      rw [wsum_cons_left]
      simp only [dotQ]
      have ha : 0 ≤ a := hy a (by simp)
      have h0 : d0 ≤ produced plan 0 := by simpa using hc 0 (by simp)
      have h0' : (d0 : Rat) ≤ (produced plan 0 : Rat) := by exact_mod_cast h0
      have h1 := mul_le_mul_of_nonneg_left h0' ha
      have h2 := ih ds (tailPlan plan) (fun q hq => hy q (List.mem_cons_of_mem _ hq)) (by
        intro i hi
        rw [produced_tailPlan]
        simpa using hc (i + 1) (by simpa using hi))
      linarith

theorem wsum_le_rolls (y : List Rat) (plan : Plan) (h : ∀ pc ∈ plan, dotQ y pc.1 ≤ 1) :
    wsum y plan ≤ (rolls plan : Rat) := by
  induction plan with
  | nil => simp [wsum, rolls]
  | cons pc t ih =>
    have hr : rolls (pc :: t) = pc.2 + rolls t := by simp [rolls]
    rw [wsum_cons, hr]
    have h1 := h pc (by simp)
    have h2 : (0 : Rat) ≤ (pc.2 : Rat) := Nat.cast_nonneg _
    have h3 := ih (fun q hq => h q (List.mem_cons_of_mem _ hq))
    have h4 : (pc.2 : Rat) * dotQ y pc.1 ≤ (pc.2 : Rat) * 1 := mul_le_mul_of_nonneg_left h1 h2
    push_cast
    linarith

/-- Weak duality for covering by columns. -/
theorem dual_bound_core {Feas : Pat → Prop} {y : List Rat} {d : List Nat} {plan : Plan}
    (hy : ∀ q ∈ y, 0 ≤ q) (hf : ∀ p, Feas p → dotQ y p ≤ 1) (hv : ValidPlan Feas d plan) :
    dotQ y d ≤ (rolls plan : Rat) :=
  le_trans (dot_le_wsum y d plan hy hv.covers)
    (wsum_le_rolls y plan fun pc hpc => hf pc.1 (hv.feas pc hpc))

/-! ### the knapsack DP -/

theorem le_maxQ_left (a b : Rat) : a ≤ maxQ a b := by
  unfold maxQ; split
  · assumption
  · exact le_refl _

theorem le_maxQ_right (a b : Rat) : b ≤ maxQ a b := by
  unfold maxQ; split
  · exact le_refl _
  · rename_i h; exact le_of_lt (not_le.1 h)

theorem maxQ_cases (a b : Rat) : maxQ a b = a ∨ maxQ a b = b := by
  unfold maxQ; split
  · right; rfl
  · left; rfl

theorem getD_range_map (f : Nat → Rat) (W w : Nat) (h : w ≤ W) :
    ((List.range (W + 1)).map f).getD w 0 = f w := by
  have hw : w < W + 1 := by omega
  simp [List.getD_eq_getElem?_getD, List.getElem?_map, List.getElem?_range hw]

theorem bestCopies_ge (s : Nat) (v : Rat) (old : List Rat) (w : Nat) :
    ∀ (cmax c : Nat), c ≤ cmax → (c : Rat) * v + old.getD (w - c * s) 0 ≤ bestCopies s v old w cmax := by
  intro cmax
  induction cmax with
  | zero =>
    intro c hc
    have : c = 0 := by omega
    subst this; simp [bestCopies]
  | succ m ih =>
    intro c hc
    unfold bestCopies
    rcases Nat.lt_or_ge c (m + 1) with h | h
    · exact le_trans (ih c (by omega)) (le_maxQ_left _ _)
    · have : c = m + 1 := by omega
      subst this; exact le_maxQ_right _ _

/-- Every value of the DP is attained by `c ≤ cmax` copies. -/
theorem bestCopies_attained (s : Nat) (v : Rat) (old : List Rat) (w : Nat) :
    ∀ cmax : Nat, ∃ c : Nat, c ≤ cmax ∧ bestCopies s v old w cmax = (c : Rat) * v + old.getD (w - c * s) 0 := by
  intro cmax
  induction cmax with
  | zero => exact ⟨0, le_refl _, by simp [bestCopies]⟩
  | succ m ih =>
    obtain ⟨c, hc, he⟩ := ih
    unfold bestCopies
    rcases maxQ_cases (bestCopies s v old w m)
      (((m + 1 : Nat) : Rat) * v + old.getD (w - (m + 1) * s) 0) with h | h
    · exact ⟨c, by omega, by rw [h, he]⟩
    · exact ⟨m + 1, le_refl _, by rw [h]⟩

theorem knapRow_ub (W : Nat) : ∀ (ss : List Nat) (vs : List Rat), ss.length = vs.length →
    (∀ s ∈ ss, 0 < s) → ∀ w, w ≤ W → ∀ p : Pat, p.length = ss.length → dotN ss p ≤ w →
    dotQ vs p ≤ (knapRow W ss vs).getD w 0 := by
  intro ss
  induction ss with
  | nil =>
    intro vs hl _ w hw p hp _
    have : p = [] := List.length_eq_zero_iff.1 hp
    subst this
    rw [dotQ_nil_right]
    cases vs <;> simp [knapRow, List.getD_eq_getElem?_getD, List.getElem?_replicate] <;> split <;> simp
  | cons s ss ih =>
    intro vs hl hpos w hw p hp hd
    cases vs with
    | nil => simp at hl
    | cons v vs =>
      cases p with
      | nil => simp at hp
      | cons c cs =>
        have hs : 0 < s := hpos s (by simp)
        have hd' : s * c + dotN ss cs ≤ w := by simpa [dotN] using hd
        simp only [knapRow]
        rw [getD_range_map _ W w hw]
        have hc : c ≤ w / s := (Nat.le_div_iff_mul_le hs).2 (by rw [Nat.mul_comm]; omega)
        have h1 := bestCopies_ge s v (knapRow W ss vs) w (w / s) c hc
        have h2 := ih vs (by simpa using hl) (fun x hx => hpos x (List.mem_cons_of_mem _ hx))
          (w - c * s) (by omega) cs (by simpa using hp) (by rw [Nat.mul_comm c s]; omega)
        simp only [dotQ]
        have h3 : v * (c : Rat) = (c : Rat) * v := mul_comm _ _
        linarith

/-- The DP value is attained by a pattern that fits. -/
theorem knapRow_attained (W : Nat) : ∀ (ss : List Nat) (vs : List Rat), ss.length = vs.length →
    ∀ w, w ≤ W → ∃ p : Pat, p.length = ss.length ∧ dotN ss p ≤ w ∧
      dotQ vs p = (knapRow W ss vs).getD w 0 := by
  intro ss
  induction ss with
  | nil =>
    intro vs hl w hw
    refine ⟨[], rfl, by simp [dotN], ?_⟩
    rw [dotQ_nil_right]
    cases vs <;> simp [knapRow, List.getD_eq_getElem?_getD, List.getElem?_replicate] <;> split <;> simp
  | cons s ss ih =>
    intro vs hl w hw
    cases vs with
    | nil => simp at hl
    | cons v vs =>
      simp only [knapRow]
      rw [getD_range_map _ W w hw]
      obtain ⟨c, hc, he⟩ := bestCopies_attained s v (knapRow W ss vs) w (w / s)
      have hcs : c * s ≤ w := by
        have := Nat.mul_le_mul_right s hc
        exact le_trans this (Nat.div_mul_le_self w s)
      obtain ⟨cs, hl', hw', hv'⟩ := ih vs (by simpa using hl) (w - c * s) (by omega)
      refine ⟨c :: cs, by simp [hl'], ?_, ?_⟩
      · simp only [dotN]; rw [Nat.mul_comm s c]; omega
      · simp only [dotQ]; rw [he, hv']; ring

end Solvor.Cut
