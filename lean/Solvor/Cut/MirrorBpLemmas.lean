import Solvor.Cut.MirrorBp
import Solvor.Cut.MirrorLp
/-! Cut: lemmas about the `solve_bp` mirror: the status rule for every node solver, and the
root LP (no bounds) is the master LP of `solve_cg`. -/
namespace Solvor.Cut.Mirror
open Solvor.Cut

/-! ### the gap test on integers -/

/-- With `gap_tol ≤ 1` and `gap_tol · best ≤ 1` (default `1e-6`: `best ≤ 10⁶`) the gap test
`(best − lb)/max(best, 1e-10) < gap_tol` says exactly `best ≤ lb`. -/
theorem gapOk_le (best : Nat) (lb : Int) (tol : Rat) (h1 : tol ≤ 1) (h2 : tol * (best : Rat) ≤ 1)
    (h : gapOk best lb tol = true) : (best : Int) ≤ lb := by
  by_contra hlt
  have hlt' : lb + 1 ≤ (best : Int) := by omega
  have hq : ((lb : Rat) + 1) ≤ (best : Rat) := by exact_mod_cast hlt'
  unfold gapOk at h
  simp only [decide_eq_true_eq] at h
  split at h
  · rename_i hsmall
    -- best < 1e-10, so best = 0 and the denominator is 1e-10
    have hb0 : (best : Rat) = 0 := by
      have : best = 0 := by
        by_contra hne
        have : (1 : Rat) ≤ (best : Rat) := by exact_mod_cast Nat.one_le_iff_ne_zero.2 hne
        linarith
      simp [this]
    rw [hb0] at h hq
    have hden : (0 : Rat) < 1 / 10000000000 := by norm_num
    rw [div_lt_iff₀ hden] at h
    have : (1 : Rat) ≤ 0 - (lb : Rat) := by linarith
    nlinarith
  · rename_i hbig
    have hpos : (0 : Rat) < (best : Rat) := by
      have : (0 : Rat) < 1 / 10000000000 := by norm_num
      linarith [not_lt.1 hbig]
    rw [div_lt_iff₀ hpos] at h
    have : (1 : Rat) ≤ (best : Rat) - (lb : Rat) := by linarith
    linarith

/-! ### the loop, for every node solver -/

theorem bpLoop_early (solve : Solver) (eps gapTol : Rat) (lb : Int) (maxNodes : Nat) (stop : Nat → Bool) :
    ∀ (fuel : Nat) (st : BpSt) (s : String),
      (bpLoop solve eps gapTol lb maxNodes stop fuel st).2 = some s →
      s = "OPTIMAL" ∧ ∃ p, (bpLoop solve eps gapTol lb maxNodes stop fuel st).1.best = some p ∧
        gapOk (rolls p) lb gapTol = true := by
  intro fuel
  induction fuel with
  | zero => intro st s h; simp [bpLoop] at h
  | succ fuel ih =>
    intro st s h
    unfold bpLoop at h ⊢
    split
    · rename_i hn; rw [if_pos hn] at h; cases h
    · rename_i hn
      rw [if_neg hn] at h
      split
      · rename_i hp; rw [hp] at h; cases h
      · rename_i bound cnt bounds rest hp
        rw [hp] at h
        dsimp only at h ⊢
        split
        · rename_i hg; rw [if_pos hg] at h; exact ih _ s h
        · rename_i hg
          rw [if_neg hg] at h
          split
          · rename_i hst; rw [if_pos hst] at h; cases h
          · rename_i hst
            rw [if_neg hst] at h
            split
            · rename_i ho; rw [ho] at h; exact ih _ s h
            · rename_i obj ho
              rw [ho] at h
              dsimp only at h ⊢
              split
              · rename_i hg2; rw [if_pos hg2] at h; exact ih _ s h
              · rename_i hg2
                rw [if_neg hg2] at h
                split
                · rename_i hm
                  rw [hm] at h
                  dsimp only at h ⊢
                  split
                  · rename_i hb
                    rw [if_pos hb] at h
                    split
                    · rename_i hgap
                      rw [if_pos hgap] at h
                      cases h
                      exact ⟨rfl, _, rfl, hgap⟩
                    · rename_i hgap; rw [if_neg hgap] at h; exact ih _ s h
                  · rename_i hb; rw [if_neg hb] at h; exact ih _ s h
                · rename_i idx val hm
                  rw [hm] at h
                  exact ih _ s h

/-- C17, `solve_bp` status rule, for EVERY node solver (whatever `_solve_node_lp` returns):
the status is one of three; a usable status comes with a plan whose rolls are the objective;
`OPTIMAL` is claimed only when the root LP was integral and its column generation converged, or
the incumbent passes the gap test against the lower bound `lb`; and `lb` is `⌈root LP − eps⌉`
for a converged root and 0 otherwise. -/
theorem bpRun_rule (solve : Solver) (cols0 : List Pat) (d : List Nat) (eps gapTol : Rat) (maxIter maxNodes : Nat)
    (stop : Nat → Bool) (o : BpOut) (ho : bpRun solve cols0 d eps gapTol maxIter maxNodes stop = o) :
    (o.status = "OPTIMAL" ∨ o.status = "FEASIBLE" ∨ o.status = "INFEASIBLE") ∧
    ((o.status = "OPTIMAL" ∨ o.status = "FEASIBLE") → ∃ p, o.plan = some p ∧ o.total = rolls p) ∧
    (o.status = "OPTIMAL" → (o.rootIntegral = true ∧ o.rootConverged = true) ∨
      (o.rootIntegral = false ∧ ∃ p, o.plan = some p ∧ gapOk (rolls p) o.lb gapTol = true)) ∧
    o.rootObj = (solve cols0 []).obj ∧ o.rootDuals = (solve cols0 []).duals ∧
    (∀ q, (solve cols0 []).obj = some q → o.lb = if o.rootConverged then (q - eps).ceil else 0) ∧
    ((o.status = "OPTIMAL" ∨ o.status = "FEASIBLE") → ∃ q, (solve cols0 []).obj = some q) := by
  unfold bpRun at ho
  dsimp only at ho
  split at ho
  · -- root LP infeasible
    rename_i hroot
    subst ho
    rw [hroot]
    refine ⟨Or.inr (Or.inr rfl), ?_, ?_, rfl, rfl, ?_, ?_⟩
    · rintro (h | h) <;> exact absurd h (by simp)
    · intro h; exact absurd h (by simp)
    · intro q hq; cases hq
    · rintro (h | h) <;> exact absurd h (by simp)
  · rename_i obj hroot
    rw [hroot]
    split at ho
    · -- root LP integral
      subst ho
      refine ⟨?_, ?_, ?_, rfl, rfl, ?_, fun _ => ⟨obj, rfl⟩⟩
      · by_cases hc : (solve cols0 []).iters < maxIter <;> simp [hc]
      · intro _; exact ⟨_, rfl, rfl⟩
      · intro h
        left
        refine ⟨rfl, ?_⟩
        by_cases hc : (solve cols0 []).iters < maxIter
        · simp [hc]
        · simp [hc] at h
      · intro q hq; cases hq; rfl
    · -- tree search
      generalize hloop : bpLoop solve eps gapTol
        (if decide ((solve cols0 []).iters < maxIter) = true then (obj - eps).ceil else 0) maxNodes stop
        (2 * maxNodes + 2)
        ⟨(solve cols0 []).cols, [(obj, 0, [])], 1,
          roundSolution (solve cols0 []).xs (solve cols0 []).cols d eps, 0, false, 0⟩ = res at ho
      obtain ⟨st, early⟩ := res
      dsimp only at ho
      cases early with
      | some s =>
        dsimp only at ho
        subst ho
        have := bpLoop_early solve eps gapTol _ maxNodes stop _ _ s (by rw [hloop])
        rw [hloop] at this
        obtain ⟨hs, p, hp, hg⟩ := this
        dsimp only at hp
        subst hs
        refine ⟨Or.inl rfl, ?_, ?_, rfl, rfl, ?_, fun _ => ⟨obj, rfl⟩⟩
        · intro _; exact ⟨p, hp, by simp [hp]⟩
        · intro _; right; exact ⟨rfl, p, hp, hg⟩
        · intro q hq; cases hq; simp
      | none =>
        dsimp only at ho
        cases hb : st.best with
        | none =>
          rw [hb] at ho
          dsimp only at ho
          subst ho
          refine ⟨Or.inr (Or.inr rfl), ?_, ?_, rfl, rfl, ?_, fun _ => ⟨obj, rfl⟩⟩
          · rintro (h | h) <;> exact absurd h (by simp)
          · intro h; exact absurd h (by simp)
          · intro q hq; cases hq; simp
        | some p =>
          rw [hb] at ho
          dsimp only at ho
          subst ho
          dsimp only
          refine ⟨?_, ?_, ?_, rfl, rfl, ?_, fun _ => ⟨obj, rfl⟩⟩
          · by_cases hg : gapOk (rolls p)
                (if decide ((solve cols0 []).iters < maxIter) = true then (obj - eps).ceil else 0) gapTol = true
            · left; rw [if_pos hg]
            · right; left; rw [if_neg hg]
          · intro _; exact ⟨p, rfl, rfl⟩
          · intro h
            right
            refine ⟨rfl, p, rfl, ?_⟩
            by_contra hg
            rw [if_neg hg] at h
            exact absurd h (by decide)
          · intro q hq; cases hq; simp

/-! ### the root LP is the master LP of `solve_cg` -/

theorem boundedCore_nil (cols : List Pat) (d : List Nat) (eps : Rat) :
    boundedCore cols d [] eps = masterCore cols d eps := by
  unfold boundedCore masterCore
  have hd : boundsDict [] = [] := by simp [boundsDict]
  simp only [hd, List.filter_nil, List.length_nil, List.range_zero, List.map_nil, List.append_nil,
    Nat.add_zero, List.replicate_zero]
  have e : cols.length + d.length + d.length = cols.length + 2 * d.length := by omega
  rw [e]

theorem boundedMasterLP_nil (cols : List Pat) (d : List Nat) (eps : Rat) :
    boundedMasterLP cols d [] eps = masterLP cols d eps := by
  unfold boundedMasterLP masterLP
  have hd : boundsDict [] = [] := by simp [boundsDict]
  simp only [hd, List.filter_nil, List.length_nil, Nat.add_zero, boundedCore_nil]
  have e : cols.length + d.length + d.length = cols.length + 2 * d.length := by omega
  rw [e]
  rfl

/-- The root node's LP value is the dual value of its duals (`nodeLP` with no bounds). -/
theorem nodeLP_root_value (pr : Pricer) (d : List Nat) (eps : Rat) (maxIter : Nat) (cols0 : List Pat) (q : Rat)
    (h : (nodeLP pr d eps maxIter cols0 []).obj = some q) :
    q = dotQ (nodeLP pr d eps maxIter cols0 []).duals d := by
  unfold nodeLP at h ⊢
  dsimp only at h ⊢
  split
  · rename_i hinf; rw [if_pos hinf] at h; cases h
  · rename_i hinf
    rw [if_neg hinf] at h
    dsimp only at h ⊢
    rw [boundedMasterLP_nil] at h ⊢
    exact masterLP_value_eq_dual _ d eps q h

end Solvor.Cut.Mirror
