import Solvor.Cut.Drive
def main : IO Unit := Solvor.Proto.serve Solvor.Cut.handle
