import Solvor.Cut.Model
/-! Cut: property theorems only (helper lemmas live in Lemmas.lean). -/
namespace Solvor.Cut

end Solvor.Cut
