import Solvor.Cut.LemmasDual
import Solvor.Cut.MirrorLp
/-!
Cut: the property theorems of C17 (helper lemmas are in `Lemmas.lean` / `LemmasDual.lean`).

The property's notions are `ValidPlan Feas d plan` (every pattern admissible — `Fits W sizes`
in cutting-stock mode, `InCols cols` for an explicit column set — and every demand met),
`rolls plan` (the objective) and `IsMinRolls Feas d k` (`k` is the true minimum number of rolls).
-/
namespace Solvor.Cut

/-! ### T-spec: the plan checker -/

theorem fitsB_iff (W : Nat) (sizes : List Nat) (p : Pat) : fitsB W sizes p = true ↔ Fits W sizes p := by
  simp [fitsB, Fits]

theorem inColsB_iff (cols : List Pat) (p : Pat) : inColsB cols p = true ↔ InCols cols p := by
  simp [inColsB, InCols]

/-- C17 T-spec: the Boolean checker the driver evaluates on the implementation's plan and
objective decides exactly "valid plan and objective = number of rolls". -/
theorem plan_checker {Feas : Pat → Prop} {feasB : Pat → Bool} (hB : ∀ p, feasB p = true ↔ Feas p)
    (d : List Nat) (plan : Plan) (obj : Nat) :
    checkPlan feasB d plan obj = true ↔ ValidPlan Feas d plan ∧ obj = rolls plan := by
  unfold checkPlan
  simp only [Bool.and_eq_true, List.all_eq_true, decide_eq_true_eq, List.mem_range, beq_iff_eq]
  constructor
  · rintro ⟨⟨h1, h2⟩, h3⟩
    exact ⟨⟨fun pc hpc => (hB _).1 (h1 pc hpc), h2⟩, h3⟩
  · rintro ⟨⟨h1, h2⟩, h3⟩
    exact ⟨⟨fun pc hpc => (hB _).2 (h1 pc hpc), h2⟩, h3⟩

/-- The checker instantiated for cutting stock (`solve_cg`/`solve_bp` with `roll_width`). -/
theorem plan_checker_cs (W : Nat) (sizes d : List Nat) (plan : Plan) (obj : Nat) :
    checkPlan (fitsB W sizes) d plan obj = true ↔ ValidPlan (Fits W sizes) d plan ∧ obj = rolls plan :=
  plan_checker (fitsB_iff W sizes) d plan obj

/-- The checker instantiated for an explicit column set (custom pricing). -/
theorem plan_checker_cols (cols : List Pat) (d : List Nat) (plan : Plan) (obj : Nat) :
    checkPlan (inColsB cols) d plan obj = true ↔ ValidPlan (InCols cols) d plan ∧ obj = rolls plan :=
  plan_checker (inColsB_iff cols) d plan obj

-- non-vacuity: the 1-roll plan for width 7, sizes [2,1], demands [1,4] is accepted, the
-- 2-roll plan solve_bp returns is accepted with objective 2 and rejected with objective 1
example : checkPlan (fitsB 7 [2, 1]) [1, 4] [([1, 4], 1)] 1 = true := by decide
example : checkPlan (fitsB 7 [2, 1]) [1, 4] [([3, 0], 1), ([0, 7], 1)] 2 = true := by decide
example : checkPlan (fitsB 7 [2, 1]) [1, 4] [([3, 0], 1), ([0, 7], 1)] 1 = false := by decide
example : checkPlan (fitsB 7 [2, 1]) [1, 4] [([3, 0], 1)] 1 = false := by decide

/-! ### T-model: the exact optimum -/

/-- C17: `minRolls` over a pattern list that is admissible and dominates every admissible pattern
(after capping at the demands) returns the true minimum number of rolls; `none` means that no
valid plan with at most `fuel` rolls exists. -/
theorem minRolls_correct (Feas : Pat → Prop) (pats : List Pat) (d : List Nat) (fuel : Nat)
    (hs : ∀ q ∈ pats, Feas q)
    (hd : ∀ p, Feas p → ∃ q ∈ pats, ∀ i, min (p.getD i 0) (d.getD i 0) ≤ q.getD i 0) :
    (∀ k, minRolls pats d fuel = some k → IsMinRolls Feas d k) ∧
    (minRolls pats d fuel = none → ∀ plan, ValidPlan Feas d plan → fuel < rolls plan) := by
  constructor
  · intro k hk
    obtain ⟨hc, hmin⟩ := search_some pats d fuel 0 [d] k hk (level_zero pats d) (by omega)
    refine ⟨valid_of_cov hs hc, ?_⟩
    intro plan hv
    rcases Nat.lt_or_ge (rolls plan) k with h | h
    · exact absurd (cov_of_valid hd hv) (hmin _ h)
    · exact h
  · intro hn plan hv
    have := search_none pats d fuel 0 [d] hn (level_zero pats d) (by omega)
    rcases Nat.lt_or_ge fuel (rolls plan) with h | h
    · exact h
    · exact absurd (cov_of_valid hd hv) (this _ (by omega))

/-- C17 `cs_optimum_correct`: for every roll width, positive piece sizes and demands, the value
computed by `csOpt` is attained by a valid cutting plan and no valid plan uses fewer rolls. -/
theorem cs_optimum_correct (W : Nat) (sizes d : List Nat) (hpos : ∀ s ∈ sizes, 0 < s) :
    (∀ k, csOpt W sizes d = some k → IsMinRolls (Fits W sizes) d k) ∧
    (csOpt W sizes d = none → ∀ plan, ValidPlan (Fits W sizes) d plan → d.sum < rolls plan) :=
  minRolls_correct (Fits W sizes) (enumPats W sizes d) d d.sum
    (fun q hq => enumPats_sound sizes W d q hpos hq)
    (fun p hp => enumPats_dom sizes W d p hpos hp)

/-- The same for an explicit column set (custom pricing functions). -/
theorem cols_optimum_correct (cols : List Pat) (d : List Nat) (fuel : Nat) :
    (∀ k, minRolls cols d fuel = some k → IsMinRolls (InCols cols) d k) ∧
    (minRolls cols d fuel = none → ∀ plan, ValidPlan (InCols cols) d plan → fuel < rolls plan) :=
  minRolls_correct (InCols cols) cols d fuel (fun _ hq => hq)
    (fun p hp => ⟨p, hp, fun _ => Nat.min_le_left _ _⟩)

/-- One roll per demanded piece is always a valid cutting plan. -/
theorem singles_plan (W : Nat) : ∀ (sizes d : List Nat), d.length = sizes.length →
    (∀ s ∈ sizes, s ≤ W) → ∃ plan, ValidPlan (Fits W sizes) d plan ∧ rolls plan = d.sum := by
  intro sizes
  induction sizes with
  | nil =>
    intro d hl _
    have : d = [] := List.length_eq_zero_iff.1 hl
    subst this
    exact ⟨[], ⟨by simp, by simp⟩, by simp [rolls]⟩
  | cons s ss ih =>
    intro d hl hW
    cases d with
    | nil => simp at hl
    | cons d0 ds =>
      obtain ⟨plan', hv, hr⟩ := ih ds (by simpa using hl) (fun x hx => hW x (List.mem_cons_of_mem _ hx))
      have hz : ∀ (l : List Nat) (n : Nat), dotN l (List.replicate n 0) = 0 := by
        intro l
        induction l with
        | nil => intro n; rfl
        | cons a t iht => intro n; cases n <;> simp [List.replicate_succ, dotN, iht]
      have hpc : ∀ (t : Plan) (i : Nat),
          produced (t.map fun pc => ((0 :: pc.1 : Pat), pc.2)) (i + 1) = produced t i := by
        intro t i; induction t with
        | nil => simp [produced]
        | cons pc t iht => simp only [List.map_cons, produced_cons, iht, List.getD_cons_succ]
      have hp0 : ∀ (t : Plan), produced (t.map fun pc => ((0 :: pc.1 : Pat), pc.2)) 0 = 0 := by
        intro t; induction t with
        | nil => simp [produced]
        | cons pc t iht => simp only [List.map_cons, produced_cons, iht, List.getD_cons_zero]; omega
      have hrl : ∀ (t : Plan), rolls (t.map fun pc => ((0 :: pc.1 : Pat), pc.2)) = rolls t := by
        intro t; simp [rolls, List.map_map, Function.comp_def]
      refine ⟨((1 :: List.replicate ss.length 0 : Pat), d0) ::
        plan'.map (fun pc => ((0 :: pc.1 : Pat), pc.2)), ⟨?_, ?_⟩, ?_⟩
      · intro pc hpc'
        rcases List.mem_cons.1 hpc' with rfl | h
        · refine ⟨by simp, ?_⟩
          simp only [dotN, hz]
          have := hW s (by simp); omega
        · obtain ⟨pc', hpc'', rfl⟩ := List.mem_map.1 h
          obtain ⟨h1, h2⟩ := hv.feas pc' hpc''
          exact ⟨by simp [h1], by simpa [dotN] using h2⟩
      · intro i hi
        rw [produced_cons]
        cases i with
        | zero => simp only [List.getD_cons_zero, hp0]; omega
        | succ j =>
          have := hv.covers j (by simpa using hi)
          simp only [List.getD_cons_succ, hpc]
          omega
      · have : rolls (((1 :: List.replicate ss.length 0 : Pat), d0) ::
            plan'.map (fun pc => ((0 :: pc.1 : Pat), pc.2))) = d0 + rolls plan' := by
          rw [← hrl plan']; simp [rolls]
        rw [this, hr]; simp

/-- C17: on every well-formed cutting-stock instance (positive sizes not exceeding the width,
one demand per size) `csOpt` returns a value, and it is the true minimum number of rolls. -/
theorem cs_optimum_exists (W : Nat) (sizes d : List Nat) (hl : d.length = sizes.length)
    (hpos : ∀ s ∈ sizes, 0 < s) (hW : ∀ s ∈ sizes, s ≤ W) :
    ∃ k, csOpt W sizes d = some k ∧ IsMinRolls (Fits W sizes) d k := by
  obtain ⟨hsome, hnone⟩ := cs_optimum_correct W sizes d hpos
  cases h : csOpt W sizes d with
  | some k => exact ⟨k, rfl, hsome k h⟩
  | none =>
    obtain ⟨plan, hv, hr⟩ := singles_plan W sizes d hl hW
    have := hnone h plan hv
    omega

-- non-vacuity: on the instance where solve_bp answers 2 rolls / OPTIMAL (width 7, sizes [2,1],
-- demands [1,4]) the hypotheses hold, `csOpt` returns a value and that value is at most 1
example : ∃ k, csOpt 7 [2, 1] [1, 4] = some k ∧ IsMinRolls (Fits 7 [2, 1]) [1, 4] k ∧ k ≤ 1 := by
  obtain ⟨k, hk, hmin⟩ := cs_optimum_exists 7 [2, 1] [1, 4] rfl (by decide) (by decide)
  refine ⟨k, hk, hmin, ?_⟩
  have hv := ((plan_checker_cs 7 [2, 1] [1, 4] [([1, 4], 1)] 1).1 (by decide)).1
  exact hmin.2 _ hv
-- a set-covering instance with explicit columns: 3 columns (2,0),(0,2),(1,1) cover (3,3)
example : ValidPlan (InCols [[2, 0], [0, 2], [1, 1]]) [3, 3] [([1, 1], 3)] :=
  ((plan_checker_cols [[2, 0], [0, 2], [1, 1]] [3, 3] [([1, 1], 3)] 3).1 (by decide)).1

/-! ### T-model: the dual bound (solve_cg's lower-bound argument) -/

/-- The knapsack DP decides dual feasibility over ALL patterns that fit the roll. -/
theorem dualFeasible_iff (W : Nat) (sizes : List Nat) (y : List Rat) (hpos : ∀ s ∈ sizes, 0 < s) :
    dualFeasible W sizes y = true ↔
      y.length = sizes.length ∧ (∀ q ∈ y, 0 ≤ q) ∧ ∀ p, Fits W sizes p → dotQ y p ≤ 1 := by
  unfold dualFeasible knapMax
  simp only [Bool.and_eq_true, beq_iff_eq, List.all_eq_true, decide_eq_true_eq]
  constructor
  · rintro ⟨⟨hl, hy⟩, hk⟩
    refine ⟨hl, hy, ?_⟩
    rintro p ⟨hpl, hpw⟩
    exact le_trans (knapRow_ub W sizes y hl.symm hpos W (le_refl _) p hpl hpw) hk
  · rintro ⟨hl, hy, hp⟩
    refine ⟨⟨hl, hy⟩, ?_⟩
    obtain ⟨p, hpl, hpw, he⟩ := knapRow_attained W sizes y hl.symm W (le_refl _)
    rw [← he]; exact hp p ⟨hpl, hpw⟩

/-- C17 `dual_bound`: if `y ≥ 0` prices every pattern that fits the roll at most 1 (decided by
the knapsack DP), then `⌈y·d⌉` rolls are needed by every valid plan. -/
theorem dual_bound (W : Nat) (sizes d : List Nat) (y : List Rat) (plan : Plan)
    (hpos : ∀ s ∈ sizes, 0 < s) (hy : dualFeasible W sizes y = true)
    (hv : ValidPlan (Fits W sizes) d plan) : dualBound y d ≤ (rolls plan : Int) := by
  obtain ⟨_, hy0, hf⟩ := (dualFeasible_iff W sizes y hpos).1 hy
  unfold dualBound
  rw [Rat.ceil_le_iff]
  exact_mod_cast dual_bound_core hy0 hf hv

-- non-vacuity: for width 7, sizes [2,1] the vector y = (2/7, 1/7) is dual feasible (checked by
-- the DP), (1/2, 1/7) is not (pattern (3,1) is priced 23/14), and y certifies ⌈6/7⌉ = 1 roll
-- for demands [1,4]: every valid plan uses at least one roll
example : dualFeasible 7 [2, 1] [2/7, 1/7] = true := by decide +kernel
example : dualFeasible 7 [2, 1] [1/2, 1/7] = false := by decide +kernel
example : dualBound [2/7, 1/7] [1, 4] = 1 := by decide +kernel
example (plan : Plan) (hv : ValidPlan (Fits 7 [2, 1]) [1, 4] plan) : (1 : Int) ≤ rolls plan := by
  have h := dual_bound 7 [2, 1] [1, 4] [2/7, 1/7] plan (by decide) (by decide +kernel) hv
  have e : dualBound [2/7, 1/7] [1, 4] = 1 := by decide +kernel
  rwa [e] at h

/-- The dual bound never exceeds the true optimum. -/
theorem dual_bound_le_opt (W : Nat) (sizes d : List Nat) (y : List Rat) (k : Nat)
    (hpos : ∀ s ∈ sizes, 0 < s) (hy : dualFeasible W sizes y = true)
    (hk : IsMinRolls (Fits W sizes) d k) : dualBound y d ≤ (k : Int) := by
  obtain ⟨⟨plan, hv, rfl⟩, _⟩ := hk
  exact dual_bound W sizes d y plan hpos hy hv

/-- The same bound for an explicit column set. -/
theorem dual_bound_cols (cols : List Pat) (d : List Nat) (y : List Rat) (plan : Plan)
    (hy : dualFeasibleCols cols y = true) (hv : ValidPlan (InCols cols) d plan) :
    dualBound y d ≤ (rolls plan : Int) := by
  unfold dualFeasibleCols at hy
  simp only [Bool.and_eq_true, List.all_eq_true, decide_eq_true_eq] at hy
  unfold dualBound
  rw [Rat.ceil_le_iff]
  exact_mod_cast dual_bound_core (Feas := InCols cols) hy.1 (fun p hp => hy.2 p hp) hv

/-- The status rule of `solve_cg` (and of `solve_bp` with the proposed status patch) is sound:
a valid plan whose number of rolls does not exceed the rounded-up value of a dual-feasible
vector is a true minimum, so `OPTIMAL` is justified. -/
theorem optimal_claim_sound (W : Nat) (sizes d : List Nat) (y : List Rat) (plan : Plan)
    (hpos : ∀ s ∈ sizes, 0 < s) (hy : dualFeasible W sizes y = true)
    (hv : ValidPlan (Fits W sizes) d plan)
    (hc : claimsOptimal true (rolls plan) (dualBound y d) = true) :
    IsMinRolls (Fits W sizes) d (rolls plan) := by
  refine ⟨⟨plan, hv, rfl⟩, ?_⟩
  intro plan' hv'
  have h1 := dual_bound W sizes d y plan' hpos hy hv'
  have h2 : (rolls plan : Int) ≤ dualBound y d := by simpa [claimsOptimal] using hc
  exact_mod_cast le_trans h2 h1

-- non-vacuity: the 1-roll plan of the witness instance is certified minimal by y = (2/7, 1/7)
example : IsMinRolls (Fits 7 [2, 1]) [1, 4] (rolls [([1, 4], 1)]) :=
  optimal_claim_sound 7 [2, 1] [1, 4] [2/7, 1/7] [([1, 4], 1)] (by decide) (by decide +kernel)
    ((plan_checker_cs 7 [2, 1] [1, 4] [([1, 4], 1)] 1).1 (by decide)).1 (by decide +kernel)

/-! ### T-model: the `solve_cg` mirror (Solvor/Cut/Mirror.lean), for all inputs

None of these needs the simplex to be *correct*: they hold whatever `x` and duals the LP mirror
returns.  Validity rests on the code's own round-up and "Demand not met" re-check and on the
pricing DP only ever producing patterns that fit; optimality rests on the exact identity
`LP value = duals · d` of the tableau (`Mirror.masterLP_value_eq_dual`) plus a *decidable* side
condition the driver evaluates on every input (`dualFeasible` of the duals the mirror returned). -/

open Mirror in
/-- C17 `cg_mirror_valid`: for every cutting-stock input the mirror's status is one of four, its
objective is the number of rolls of its plan, every pattern of the plan fits the roll, and with
a usable status (`OPTIMAL`/`FEASIBLE`) the plan passes the verified checker. -/
theorem cg_mirror_valid (W : Nat) (sizes d : List Nat) (maxIter : Nat) (eps : Rat)
    (hpos : ∀ s ∈ sizes, 0 < s) :
    let o := cgCuttingStock W sizes d maxIter eps
    (o.status = "OPTIMAL" ∨ o.status = "FEASIBLE" ∨ o.status = "INFEASIBLE" ∨ o.status = "OverflowError") ∧
    o.total = rolls o.plan ∧ (∀ pc ∈ o.plan, Fits W sizes pc.1) ∧
    ((o.status = "OPTIMAL" ∨ o.status = "FEASIBLE") → checkPlan (fitsB W sizes) d o.plan o.total = true) := by
  intro o
  have hfit : ∀ pc ∈ o.plan, Fits W sizes pc.1 := by
    intro pc hpc
    have := roundUp_mem _ _ _ pc hpc
    exact csLoop_fit W sizes d eps hpos maxIter 0 _ (initPats_fit W sizes d) _ this
  refine ⟨finishStatus_cases _ _ _ _ _ _, rfl, hfit, ?_⟩
  intro hu
  have hc := finishStatus_usable_covers _ _ _ _ _ hu
  exact (plan_checker_cs W sizes d o.plan o.total).2
    ⟨⟨hfit, unmetB_false_covers _ _ hc⟩, rfl⟩

-- non-vacuity: on the witness instance the mirror answers FEASIBLE with the 2-roll plan of solve_cg
example : (Mirror.cgCuttingStock 7 [2, 1] [1, 4] 1000 Solvor.Gen.Cut.cgEps).status = "FEASIBLE" ∧
    (Mirror.cgCuttingStock 7 [2, 1] [1, 4] 1000 Solvor.Gen.Cut.cgEps).plan = [([0, 7], 1), ([3, 1], 1)] := by
  decide +kernel

theorem ceil_sub_le_ceil (q eps : Rat) (h : 0 ≤ eps) : (q - eps).ceil ≤ q.ceil := by
  rw [Rat.ceil_le_iff]
  have := Rat.le_ceil (x := q)
  linarith

open Mirror in
/-- C17 `cg_mirror_optimal_of_duals`: if the duals the mirror's final LP returned are dual
feasible over all patterns (decided by the verified knapsack DP, evaluated by the driver on every
input) and the mirror says `OPTIMAL`, then its plan is a true minimum.  Uses the mirror's actual
status rule (`converged` flag, `rolls ≤ ⌈LP value − eps⌉`) and the exact identity
`LP value = duals · d`. -/
theorem cg_mirror_optimal_of_duals (W : Nat) (sizes d : List Nat) (maxIter : Nat) (eps : Rat)
    (hpos : ∀ s ∈ sizes, 0 < s) (heps : 0 ≤ eps) :
    let o := cgCuttingStock W sizes d maxIter eps
    dualFeasible W sizes o.duals = true → o.status = "OPTIMAL" →
    IsMinRolls (Fits W sizes) d o.total := by
  intro o hy hs
  obtain ⟨_, htot, _, hchk⟩ := cg_mirror_valid W sizes d maxIter eps hpos
  have hv := ((plan_checker_cs W sizes d o.plan o.total).1 (hchk (Or.inl hs))).1
  obtain ⟨_, q, hq, hle⟩ := finishStatus_optimal _ _ _ _ _ _ hs
  have hq' : q = dotQ o.duals d := masterLP_value_eq_dual _ d eps q hq
  have hb : (rolls o.plan : Int) ≤ dualBound o.duals d := by
    unfold dualBound
    rw [← hq']
    exact le_trans hle (ceil_sub_le_ceil q eps heps)
  have := optimal_claim_sound W sizes d o.duals o.plan hpos hy hv (by simpa [claimsOptimal] using hb)
  rw [htot]; exact this

open Mirror in
/-- Variant for an arbitrary certificate `y` (the driver's scaled duals): mirror plan with usable
status, `y` dual feasible, `rolls ≤ ⌈y·d⌉` ⇒ true minimum. -/
theorem cg_mirror_optimal_of_bound (W : Nat) (sizes d : List Nat) (maxIter : Nat) (eps : Rat) (y : List Rat)
    (hpos : ∀ s ∈ sizes, 0 < s) :
    let o := cgCuttingStock W sizes d maxIter eps
    dualFeasible W sizes y = true → (o.status = "OPTIMAL" ∨ o.status = "FEASIBLE") →
    (o.total : Int) ≤ dualBound y d → IsMinRolls (Fits W sizes) d o.total := by
  intro o hy hs hb
  obtain ⟨_, htot, _, hchk⟩ := cg_mirror_valid W sizes d maxIter eps hpos
  have hv := ((plan_checker_cs W sizes d o.plan o.total).1 (hchk hs)).1
  have := optimal_claim_sound W sizes d y o.plan hpos hy hv (by
    rw [htot] at hb; simpa [claimsOptimal] using hb)
  rw [htot]; exact this

open Mirror in
/-- Custom mode (`_solve_custom` has no demand re-check): status, objective and admissibility hold
for all inputs; coverage is what the verified checker decides per input. -/
theorem cg_custom_mirror_valid_partial (cols init : List Pat) (d : List Nat) (maxIter : Nat) (eps : Rat) :
    let o := cgCustom cols init d maxIter eps
    (o.status = "OPTIMAL" ∨ o.status = "FEASIBLE" ∨ o.status = "INFEASIBLE" ∨ o.status = "OverflowError") ∧
    o.total = rolls o.plan ∧ (∀ pc ∈ o.plan, pc.1 ∈ init ∨ pc.1 ∈ cols) := by
  intro o
  refine ⟨finishStatus_cases _ _ _ _ _ _, rfl, ?_⟩
  intro pc hpc
  exact customLoop_mem cols d eps maxIter 0 init _ (roundUp_mem _ _ _ pc hpc)
-- FULL STATEMENT (not proved): additionally, a usable status implies
-- `checkPlan (inColsB (init ++ cols)) d o.plan o.total = true`.  That needs primal feasibility of
-- the LP mirror's `x` (the code has no re-check in custom mode), and the mirror's eliminations
-- skip factors below `eps`, so `x` is feasible only up to `eps`; decided per input by `checkPlan`.

open Mirror in
/-- Custom mode: checker verdict (decidable, per input) + dual feasibility over the explicit
column list + `OPTIMAL` ⇒ true minimum. -/
theorem cg_custom_mirror_optimal_of_duals (cols init : List Pat) (d : List Nat) (maxIter : Nat) (eps : Rat)
    (heps : 0 ≤ eps) :
    let o := cgCustom cols init d maxIter eps
    checkPlan (inColsB cols) d o.plan o.total = true → dualFeasibleCols cols o.duals = true →
    o.status = "OPTIMAL" → IsMinRolls (InCols cols) d o.total := by
  intro o hchk hy hs
  have hv := ((plan_checker_cols cols d o.plan o.total).1 hchk).1
  obtain ⟨_, q, hq, hle⟩ := finishStatus_optimal _ _ _ _ _ _ hs
  have hq' : q = dotQ o.duals d := masterLP_value_eq_dual _ d eps q hq
  have hb : (rolls o.plan : Int) ≤ dualBound o.duals d := by
    unfold dualBound
    rw [← hq']
    exact le_trans hle (ceil_sub_le_ceil q eps heps)
  refine ⟨⟨o.plan, hv, rfl⟩, ?_⟩
  intro plan' hv'
  have h1 := dual_bound_cols cols d o.duals plan' hy hv'
  exact_mod_cast le_trans hb h1

/-- [S, partial] `master-LP mirror`: the LP value the mirror reports equals `duals · d` for the
duals it reports, on every input and whatever the pivots were (row-space invariant of the
tableau, `Mirror.lpCore_obj`). -/
theorem master_lp_value_is_dual_value (cols : List Pat) (d : List Nat) (eps : Rat) (o : Rat)
    (h : (Mirror.masterLP cols d eps).2.2 = some o) : o = dotQ (Mirror.masterLP cols d eps).2.1 d :=
  Mirror.masterLP_value_eq_dual cols d eps o h
-- FULL STATEMENT (not proved): `master-LP mirror certifies` — on termination by optimality the
-- returned `x` is primal feasible and the duals are dual feasible for the pool (both only up to
-- `eps`, because eliminations with |factor| ≤ eps are skipped), hence the value is the LP optimum
-- up to a multiple of `eps`.

end Solvor.Cut
