import Solvor.Cut.LemmasDual
import Solvor.Cut.MirrorLp
import Solvor.Cut.MirrorBpLemmas
/-!
Cut: the property theorems of C17 (helper lemmas are in `Lemmas.lean` / `LemmasDual.lean`).

The property's notions are `ValidPlan Feas d plan` (every pattern admissible — `Fits W sizes`
in cutting-stock mode, `InCols cols` for an explicit column set — and every demand met),
`rolls plan` (the objective) and `IsMinRolls Feas d k` (`k` is the true minimum number of rolls).
-/
namespace Solvor.Cut

/-! ### T-spec: the plan checker -/

theorem fitsB_iff (W : Nat) (sizes : List Nat) (p : Pat) : fitsB W sizes p = true ↔ Fits W sizes p := by
  simp [fitsB, Fits]

theorem inColsB_iff (cols : List Pat) (p : Pat) : inColsB cols p = true ↔ InCols cols p := by
  simp [inColsB, InCols]

/-- C17 T-spec: the Boolean checker the driver evaluates on the implementation's plan and
objective decides exactly "valid plan and objective = number of rolls". -/
theorem plan_checker {Feas : Pat → Prop} {feasB : Pat → Bool} (hB : ∀ p, feasB p = true ↔ Feas p)
    (d : List Nat) (plan : Plan) (obj : Nat) :
    checkPlan feasB d plan obj = true ↔ ValidPlan Feas d plan ∧ obj = rolls plan := by
  unfold checkPlan
  simp only [Bool.and_eq_true, List.all_eq_true, decide_eq_true_eq, List.mem_range, beq_iff_eq]
  constructor
  · rintro ⟨⟨h1, h2⟩, h3⟩
    exact ⟨⟨fun pc hpc => (hB _).1 (h1 pc hpc), h2⟩, h3⟩
  · rintro ⟨⟨h1, h2⟩, h3⟩
    exact ⟨⟨fun pc hpc => (hB _).2 (h1 pc hpc), h2⟩, h3⟩

/-- The checker instantiated for cutting stock (`solve_cg`/`solve_bp` with `roll_width`). -/
theorem plan_checker_cs (W : Nat) (sizes d : List Nat) (plan : Plan) (obj : Nat) :
    checkPlan (fitsB W sizes) d plan obj = true ↔ ValidPlan (Fits W sizes) d plan ∧ obj = rolls plan :=
  plan_checker (fitsB_iff W sizes) d plan obj

/-- The checker instantiated for an explicit column set (custom pricing). -/
theorem plan_checker_cols (cols : List Pat) (d : List Nat) (plan : Plan) (obj : Nat) :
    checkPlan (inColsB cols) d plan obj = true ↔ ValidPlan (InCols cols) d plan ∧ obj = rolls plan :=
  plan_checker (inColsB_iff cols) d plan obj

-- non-vacuity: the 1-roll plan for width 7, sizes [2,1], demands [1,4] is accepted, the
-- 2-roll plan solve_bp returns is accepted with objective 2 and rejected with objective 1
example : checkPlan (fitsB 7 [2, 1]) [1, 4] [([1, 4], 1)] 1 = true := by decide
example : checkPlan (fitsB 7 [2, 1]) [1, 4] [([3, 0], 1), ([0, 7], 1)] 2 = true := by decide
example : checkPlan (fitsB 7 [2, 1]) [1, 4] [([3, 0], 1), ([0, 7], 1)] 1 = false := by decide
example : checkPlan (fitsB 7 [2, 1]) [1, 4] [([3, 0], 1)] 1 = false := by decide

/-! ### T-model: the exact optimum -/

/-- C17: `minRolls` over a pattern list that is admissible and dominates every admissible pattern
(after capping at the demands) returns the true minimum number of rolls; `none` means that no
valid plan with at most `fuel` rolls exists. -/
theorem minRolls_correct (Feas : Pat → Prop) (pats : List Pat) (d : List Nat) (fuel : Nat)
    (hs : ∀ q ∈ pats, Feas q)
    (hd : ∀ p, Feas p → ∃ q ∈ pats, ∀ i, min (p.getD i 0) (d.getD i 0) ≤ q.getD i 0) :
    (∀ k, minRolls pats d fuel = some k → IsMinRolls Feas d k) ∧
    (minRolls pats d fuel = none → ∀ plan, ValidPlan Feas d plan → fuel < rolls plan) := by
  constructor
  · intro k hk
    obtain ⟨hc, hmin⟩ := search_some pats d fuel 0 [d] k hk (level_zero pats d) (by omega)
    refine ⟨valid_of_cov hs hc, ?_⟩
    intro plan hv
    rcases Nat.lt_or_ge (rolls plan) k with h | h
    · exact absurd (cov_of_valid hd hv) (hmin _ h)
    · exact h
  · intro hn plan hv
    have := search_none pats d fuel 0 [d] hn (level_zero pats d) (by omega)
    rcases Nat.lt_or_ge fuel (rolls plan) with h | h
    · exact h
    · exact absurd (cov_of_valid hd hv) (this _ (by omega))

/-- C17 `cs_optimum_correct`: for every roll width, positive piece sizes and demands, the value
computed by `csOpt` is attained by a valid cutting plan and no valid plan uses fewer rolls. -/
theorem cs_optimum_correct (W : Nat) (sizes d : List Nat) (hpos : ∀ s ∈ sizes, 0 < s) :
    (∀ k, csOpt W sizes d = some k → IsMinRolls (Fits W sizes) d k) ∧
    (csOpt W sizes d = none → ∀ plan, ValidPlan (Fits W sizes) d plan → d.sum < rolls plan) :=
  minRolls_correct (Fits W sizes) (enumPats W sizes d) d d.sum
    (fun q hq => enumPats_sound sizes W d q hpos hq)
    (fun p hp => enumPats_dom sizes W d p hpos hp)

/-- The same for an explicit column set (custom pricing functions). -/
theorem cols_optimum_correct (cols : List Pat) (d : List Nat) (fuel : Nat) :
    (∀ k, minRolls cols d fuel = some k → IsMinRolls (InCols cols) d k) ∧
    (minRolls cols d fuel = none → ∀ plan, ValidPlan (InCols cols) d plan → fuel < rolls plan) :=
  minRolls_correct (InCols cols) cols d fuel (fun _ hq => hq)
    (fun p hp => ⟨p, hp, fun _ => Nat.min_le_left _ _⟩)

/-- One roll per demanded piece is always a valid cutting plan. -/
theorem singles_plan (W : Nat) : ∀ (sizes d : List Nat), d.length = sizes.length →
    (∀ s ∈ sizes, s ≤ W) → ∃ plan, ValidPlan (Fits W sizes) d plan ∧ rolls plan = d.sum := by
  intro sizes
  induction sizes with
  | nil =>
    intro d hl _
    have : d = [] := List.length_eq_zero_iff.1 hl
    subst this
    exact ⟨[], ⟨by simp, by simp⟩, by simp [rolls]⟩
  | cons s ss ih =>
    intro d hl hW
    cases d with
    | nil => simp at hl
    | cons d0 ds =>
      obtain ⟨plan', hv, hr⟩ := ih ds (by simpa using hl) (fun x hx => hW x (List.mem_cons_of_mem _ hx))
      have hz : ∀ (l : List Nat) (n : Nat), dotN l (List.replicate n 0) = 0 := by
        intro l
        induction l with
        | nil => intro n; rfl
        | cons a t iht => intro n; cases n <;> simp [List.replicate_succ, dotN, iht]
      have hpc : ∀ (t : Plan) (i : Nat),
          produced (t.map fun pc => ((0 :: pc.1 : Pat), pc.2)) (i + 1) = produced t i := by
        intro t i; induction t with
        | nil => simp [produced]
        | cons pc t iht => simp only [List.map_cons, produced_cons, iht, List.getD_cons_succ]
      have hp0 : ∀ (t : Plan), produced (t.map fun pc => ((0 :: pc.1 : Pat), pc.2)) 0 = 0 := by
        intro t; induction t with
        | nil => simp [produced]
        | cons pc t iht => simp only [List.map_cons, produced_cons, iht, List.getD_cons_zero]; omega
      have hrl : ∀ (t : Plan), rolls (t.map fun pc => ((0 :: pc.1 : Pat), pc.2)) = rolls t := by
        intro t; simp [rolls, List.map_map, Function.comp_def]
      refine ⟨((1 :: List.replicate ss.length 0 : Pat), d0) ::
        plan'.map (fun pc => ((0 :: pc.1 : Pat), pc.2)), ⟨?_, ?_⟩, ?_⟩
      · intro pc hpc'
        rcases List.mem_cons.1 hpc' with rfl | h
        · refine ⟨by simp, ?_⟩
          simp only [dotN, hz]
          have := hW s (by simp); omega
        · obtain ⟨pc', hpc'', rfl⟩ := List.mem_map.1 h
          obtain ⟨h1, h2⟩ := hv.feas pc' hpc''
          exact ⟨by simp [h1], by simpa [dotN] using h2⟩
      · intro i hi
        rw [produced_cons]
        cases i with
        | zero => simp only [List.getD_cons_zero, hp0]; omega
        | succ j =>
          have := hv.covers j (by simpa using hi)
          simp only [List.getD_cons_succ, hpc]
          omega
      · have : rolls (((1 :: List.replicate ss.length 0 : Pat), d0) ::
            plan'.map (fun pc => ((0 :: pc.1 : Pat), pc.2))) = d0 + rolls plan' := by
          rw [← hrl plan']; simp [rolls]
        rw [this, hr]; simp

/-- C17: on every well-formed cutting-stock instance (positive sizes not exceeding the width,
one demand per size) `csOpt` returns a value, and it is the true minimum number of rolls. -/
theorem cs_optimum_exists (W : Nat) (sizes d : List Nat) (hl : d.length = sizes.length)
    (hpos : ∀ s ∈ sizes, 0 < s) (hW : ∀ s ∈ sizes, s ≤ W) :
    ∃ k, csOpt W sizes d = some k ∧ IsMinRolls (Fits W sizes) d k := by
  obtain ⟨hsome, hnone⟩ := cs_optimum_correct W sizes d hpos
  cases h : csOpt W sizes d with
  | some k => exact ⟨k, rfl, hsome k h⟩
  | none =>
    obtain ⟨plan, hv, hr⟩ := singles_plan W sizes d hl hW
    have := hnone h plan hv
    omega

-- non-vacuity: on the instance where solve_bp answers 2 rolls / OPTIMAL (width 7, sizes [2,1],
-- demands [1,4]) the hypotheses hold, `csOpt` returns a value and that value is at most 1
example : ∃ k, csOpt 7 [2, 1] [1, 4] = some k ∧ IsMinRolls (Fits 7 [2, 1]) [1, 4] k ∧ k ≤ 1 := by
  obtain ⟨k, hk, hmin⟩ := cs_optimum_exists 7 [2, 1] [1, 4] rfl (by decide) (by decide)
  refine ⟨k, hk, hmin, ?_⟩
  have hv := ((plan_checker_cs 7 [2, 1] [1, 4] [([1, 4], 1)] 1).1 (by decide)).1
  exact hmin.2 _ hv
-- a set-covering instance with explicit columns: 3 columns (2,0),(0,2),(1,1) cover (3,3)
example : ValidPlan (InCols [[2, 0], [0, 2], [1, 1]]) [3, 3] [([1, 1], 3)] :=
  ((plan_checker_cols [[2, 0], [0, 2], [1, 1]] [3, 3] [([1, 1], 3)] 3).1 (by decide)).1

/-! ### T-model: the dual bound (solve_cg's lower-bound argument) -/

/-- The knapsack DP decides dual feasibility over ALL patterns that fit the roll. -/
theorem dualFeasible_iff (W : Nat) (sizes : List Nat) (y : List Rat) (hpos : ∀ s ∈ sizes, 0 < s) :
    dualFeasible W sizes y = true ↔
      y.length = sizes.length ∧ (∀ q ∈ y, 0 ≤ q) ∧ ∀ p, Fits W sizes p → dotQ y p ≤ 1 := by
  unfold dualFeasible knapMax
  simp only [Bool.and_eq_true, beq_iff_eq, List.all_eq_true, decide_eq_true_eq]
  constructor
  · rintro ⟨⟨hl, hy⟩, hk⟩
    refine ⟨hl, hy, ?_⟩
    rintro p ⟨hpl, hpw⟩
    exact le_trans (knapRow_ub W sizes y hl.symm hpos W (le_refl _) p hpl hpw) hk
  · rintro ⟨hl, hy, hp⟩
    refine ⟨⟨hl, hy⟩, ?_⟩
    obtain ⟨p, hpl, hpw, he⟩ := knapRow_attained W sizes y hl.symm W (le_refl _)
    rw [← he]; exact hp p ⟨hpl, hpw⟩

/-- C17 `dual_bound`: if `y ≥ 0` prices every pattern that fits the roll at most 1 (decided by
the knapsack DP), then `⌈y·d⌉` rolls are needed by every valid plan. -/
theorem dual_bound (W : Nat) (sizes d : List Nat) (y : List Rat) (plan : Plan)
    (hpos : ∀ s ∈ sizes, 0 < s) (hy : dualFeasible W sizes y = true)
    (hv : ValidPlan (Fits W sizes) d plan) : dualBound y d ≤ (rolls plan : Int) := by
  obtain ⟨_, hy0, hf⟩ := (dualFeasible_iff W sizes y hpos).1 hy
  unfold dualBound
  rw [Rat.ceil_le_iff]
  exact_mod_cast dual_bound_core hy0 hf hv

-- non-vacuity: for width 7, sizes [2,1] the vector y = (2/7, 1/7) is dual feasible (checked by
-- the DP), (1/2, 1/7) is not (pattern (3,1) is priced 23/14), and y certifies ⌈6/7⌉ = 1 roll
-- for demands [1,4]: every valid plan uses at least one roll
example : dualFeasible 7 [2, 1] [2/7, 1/7] = true := by decide +kernel
example : dualFeasible 7 [2, 1] [1/2, 1/7] = false := by decide +kernel
example : dualBound [2/7, 1/7] [1, 4] = 1 := by decide +kernel
example (plan : Plan) (hv : ValidPlan (Fits 7 [2, 1]) [1, 4] plan) : (1 : Int) ≤ rolls plan := by
  have h := dual_bound 7 [2, 1] [1, 4] [2/7, 1/7] plan (by decide) (by decide +kernel) hv
  have e : dualBound [2/7, 1/7] [1, 4] = 1 := by decide +kernel
  rwa [e] at h

/-- The dual bound never exceeds the true optimum. -/
theorem dual_bound_le_opt (W : Nat) (sizes d : List Nat) (y : List Rat) (k : Nat)
    (hpos : ∀ s ∈ sizes, 0 < s) (hy : dualFeasible W sizes y = true)
    (hk : IsMinRolls (Fits W sizes) d k) : dualBound y d ≤ (k : Int) := by
  obtain ⟨⟨plan, hv, rfl⟩, _⟩ := hk
  exact dual_bound W sizes d y plan hpos hy hv

/-- The same bound for an explicit column set. -/
theorem dual_bound_cols (cols : List Pat) (d : List Nat) (y : List Rat) (plan : Plan)
    (hy : dualFeasibleCols cols y = true) (hv : ValidPlan (InCols cols) d plan) :
    dualBound y d ≤ (rolls plan : Int) := by
  unfold dualFeasibleCols at hy
  simp only [Bool.and_eq_true, List.all_eq_true, decide_eq_true_eq] at hy
  unfold dualBound
  rw [Rat.ceil_le_iff]
  exact_mod_cast dual_bound_core (Feas := InCols cols) hy.1 (fun p hp => hy.2 p hp) hv

/-- The status rule of `solve_cg` (and of `solve_bp` with the proposed status patch) is sound:
a valid plan whose number of rolls does not exceed the rounded-up value of a dual-feasible
vector is a true minimum, so `OPTIMAL` is justified. -/
theorem optimal_claim_sound (W : Nat) (sizes d : List Nat) (y : List Rat) (plan : Plan)
    (hpos : ∀ s ∈ sizes, 0 < s) (hy : dualFeasible W sizes y = true)
    (hv : ValidPlan (Fits W sizes) d plan)
    (hc : claimsOptimal true (rolls plan) (dualBound y d) = true) :
    IsMinRolls (Fits W sizes) d (rolls plan) := by
  refine ⟨⟨plan, hv, rfl⟩, ?_⟩
  intro plan' hv'
  have h1 := dual_bound W sizes d y plan' hpos hy hv'
  have h2 : (rolls plan : Int) ≤ dualBound y d := by simpa [claimsOptimal] using hc
  exact_mod_cast le_trans h2 h1

-- non-vacuity: the 1-roll plan of the witness instance is certified minimal by y = (2/7, 1/7)
example : IsMinRolls (Fits 7 [2, 1]) [1, 4] (rolls [([1, 4], 1)]) :=
  optimal_claim_sound 7 [2, 1] [1, 4] [2/7, 1/7] [([1, 4], 1)] (by decide) (by decide +kernel)
    ((plan_checker_cs 7 [2, 1] [1, 4] [([1, 4], 1)] 1).1 (by decide)).1 (by decide +kernel)

/-! ### T-model: the `solve_cg` mirror (Solvor/Cut/Mirror.lean), for all inputs

None of these needs the simplex to be *correct*: they hold whatever `x` and duals the LP mirror
returns.  Validity rests on the code's own round-up and "Demand not met" re-check and on the
pricing DP only ever producing patterns that fit; optimality rests on the exact identity
`LP value = duals · d` of the tableau (`Mirror.masterLP_value_eq_dual`) plus a *decidable* side
condition the driver evaluates on every input (`dualFeasible` of the duals the mirror returned). -/

open Mirror in
/-- C17 `cg_mirror_valid`: for every cutting-stock input the mirror's status is one of four, its
objective is the number of rolls of its plan, every pattern of the plan fits the roll, and with
a usable status (`OPTIMAL`/`FEASIBLE`) the plan passes the verified checker. -/
theorem cg_mirror_valid (W : Nat) (sizes d : List Nat) (maxIter : Nat) (eps : Rat) (stop : Nat → Bool)
    (hpos : ∀ s ∈ sizes, 0 < s) :
    let o := cgCuttingStock W sizes d maxIter eps stop
    (o.status = "OPTIMAL" ∨ o.status = "FEASIBLE" ∨ o.status = "INFEASIBLE" ∨ o.status = "OverflowError") ∧
    o.total = rolls o.plan ∧ (∀ pc ∈ o.plan, Fits W sizes pc.1) ∧
    ((o.status = "OPTIMAL" ∨ o.status = "FEASIBLE") → checkPlan (fitsB W sizes) d o.plan o.total = true) := by
  intro o
  have hfit : ∀ pc ∈ o.plan, Fits W sizes pc.1 := by
    intro pc hpc
    have := roundUp_mem _ _ _ pc hpc
    exact csLoop_fit W sizes d eps stop hpos maxIter 0 _ (initPats_fit W sizes d) _ this
  refine ⟨finishStatus_cases _ _ _ _ _ _, rfl, hfit, ?_⟩
  intro hu
  have hc := finishStatus_usable_covers _ _ _ _ _ hu
  exact (plan_checker_cs W sizes d o.plan o.total).2
    ⟨⟨hfit, unmetB_false_covers _ _ hc⟩, rfl⟩

-- non-vacuity: the only hypothesis is positivity of the sizes
example := cg_mirror_valid 7 [2, 1] [1, 4] 1000 Solvor.Gen.Cut.cgEps (fun _ => false) (by decide)

theorem ceil_sub_le_ceil (q eps : Rat) (h : 0 ≤ eps) : (q - eps).ceil ≤ q.ceil := by
  rw [Rat.ceil_le_iff]
  have := Rat.le_ceil (x := q)
  linarith

open Mirror in
/-- C17 `cg_mirror_optimal_of_duals`: if the duals the mirror's final LP returned are dual
feasible over all patterns (decided by the verified knapsack DP, evaluated by the driver on every
input) and the mirror says `OPTIMAL`, then its plan is a true minimum.  Uses the mirror's actual
status rule (`converged` flag, `rolls ≤ ⌈LP value − eps⌉`) and the exact identity
`LP value = duals · d`. -/
theorem cg_mirror_optimal_of_duals (W : Nat) (sizes d : List Nat) (maxIter : Nat) (eps : Rat) (stop : Nat → Bool)
    (hpos : ∀ s ∈ sizes, 0 < s) (heps : 0 ≤ eps) :
    let o := cgCuttingStock W sizes d maxIter eps stop
    dualFeasible W sizes o.duals = true → o.status = "OPTIMAL" →
    IsMinRolls (Fits W sizes) d o.total := by
  intro o hy hs
  obtain ⟨_, htot, _, hchk⟩ := cg_mirror_valid W sizes d maxIter eps stop hpos
  have hv := ((plan_checker_cs W sizes d o.plan o.total).1 (hchk (Or.inl hs))).1
  obtain ⟨_, q, hq, hle⟩ := finishStatus_optimal _ _ _ _ _ _ hs
  have hq' : q = dotQ o.duals d := masterLP_value_eq_dual _ d eps q hq
  have hb : (rolls o.plan : Int) ≤ dualBound o.duals d := by
    unfold dualBound
    rw [← hq']
    exact le_trans hle (ceil_sub_le_ceil q eps heps)
  have := optimal_claim_sound W sizes d o.duals o.plan hpos hy hv (by simpa [claimsOptimal] using hb)
  rw [htot]; exact this

-- non-vacuity: width 2, one piece of size 1, demand 3 — the mirror answers 2 rolls OPTIMAL, its
-- duals (1/2) pass the knapsack DP, so the theorem applies and 2 is the true minimum
-- (the driver reports on every run how many explored inputs meet the hypotheses)
example : IsMinRolls (Fits 2 [1]) [3] 2 := by
  have h : let o := Mirror.cgCuttingStock 2 [1] [3] 1000 Solvor.Gen.Cut.cgEps
      dualFeasible 2 [1] o.duals = true ∧ o.status = "OPTIMAL" ∧ o.total = 2 := by decide +kernel
  have := cg_mirror_optimal_of_duals 2 [1] [3] 1000 Solvor.Gen.Cut.cgEps (fun _ => false) (by decide) (by decide +kernel)
    h.1 h.2.1
  rwa [h.2.2] at this

open Mirror in
/-- Variant for an arbitrary certificate `y` (the driver's scaled duals): mirror plan with usable
status, `y` dual feasible, `rolls ≤ ⌈y·d⌉` ⇒ true minimum. -/
theorem cg_mirror_optimal_of_bound (W : Nat) (sizes d : List Nat) (maxIter : Nat) (eps : Rat) (y : List Rat)
    (stop : Nat → Bool) (hpos : ∀ s ∈ sizes, 0 < s) :
    let o := cgCuttingStock W sizes d maxIter eps stop
    dualFeasible W sizes y = true → (o.status = "OPTIMAL" ∨ o.status = "FEASIBLE") →
    (o.total : Int) ≤ dualBound y d → IsMinRolls (Fits W sizes) d o.total := by
  intro o hy hs hb
  obtain ⟨_, htot, _, hchk⟩ := cg_mirror_valid W sizes d maxIter eps stop hpos
  have hv := ((plan_checker_cs W sizes d o.plan o.total).1 (hchk hs)).1
  have := optimal_claim_sound W sizes d y o.plan hpos hy hv (by
    rw [htot] at hb; simpa [claimsOptimal] using hb)
  rw [htot]; exact this

open Mirror in
/-- Custom mode (`_solve_custom` has no demand re-check): status, objective and admissibility hold
for all inputs; coverage is what the verified checker decides per input. -/
theorem cg_custom_mirror_valid_partial (cols init : List Pat) (d : List Nat) (maxIter : Nat) (eps : Rat)
    (stop : Nat → Bool) :
    let o := cgCustom cols init d maxIter eps stop
    (o.status = "OPTIMAL" ∨ o.status = "FEASIBLE" ∨ o.status = "INFEASIBLE" ∨ o.status = "OverflowError") ∧
    o.total = rolls o.plan ∧ (∀ pc ∈ o.plan, pc.1 ∈ init ∨ pc.1 ∈ cols) := by
  intro o
  refine ⟨finishStatus_cases o.plan d o.lpObj eps (customLoop cols d eps stop maxIter 0 init).2.2 false, rfl, ?_⟩
  intro pc hpc
  exact customLoop_mem cols d eps stop maxIter 0 init _ (roundUp_mem _ _ _ pc hpc)
-- FULL STATEMENT (not proved): additionally, a usable status implies
-- `checkPlan (inColsB (init ++ cols)) d o.plan o.total = true`.  That needs primal feasibility of
-- the LP mirror's `x` (the code has no re-check in custom mode), and the mirror's eliminations
-- skip factors below `eps`, so `x` is feasible only up to `eps`; decided per input by `checkPlan`.

open Mirror in
/-- Custom mode: checker verdict (decidable, per input) + dual feasibility over the explicit
column list + `OPTIMAL` ⇒ true minimum. -/
theorem cg_custom_mirror_optimal_of_duals (cols init : List Pat) (d : List Nat) (maxIter : Nat) (eps : Rat)
    (stop : Nat → Bool) (heps : 0 ≤ eps) :
    let o := cgCustom cols init d maxIter eps stop
    checkPlan (inColsB cols) d o.plan o.total = true → dualFeasibleCols cols o.duals = true →
    o.status = "OPTIMAL" → IsMinRolls (InCols cols) d o.total := by
  intro o hchk hy hs
  have hv := ((plan_checker_cols cols d o.plan o.total).1 hchk).1
  obtain ⟨_, q, hq, hle⟩ := finishStatus_optimal o.plan d o.lpObj eps
    (customLoop cols d eps stop maxIter 0 init).2.2 false hs
  have hq' : q = dotQ o.duals d := masterLP_value_eq_dual _ d eps q hq
  have hb : (rolls o.plan : Int) ≤ dualBound o.duals d := by
    unfold dualBound
    rw [← hq']
    exact le_trans hle (ceil_sub_le_ceil q eps heps)
  refine ⟨⟨o.plan, hv, rfl⟩, ?_⟩
  intro plan' hv'
  have h1 := dual_bound_cols cols d o.duals plan' hy hv'
  exact_mod_cast le_trans hb h1

-- non-vacuity: columns (2,0),(0,2),(1,1), initial (2,0),(0,2), demands (3,2): 3 columns, OPTIMAL
example : IsMinRolls (InCols [[2, 0], [0, 2], [1, 1]]) [3, 2] 3 := by
  have h : let o := Mirror.cgCustom [[2, 0], [0, 2], [1, 1]] [[2, 0], [0, 2]] [3, 2] 1000 Solvor.Gen.Cut.cgEps
      checkPlan (inColsB [[2, 0], [0, 2], [1, 1]]) [3, 2] o.plan o.total = true ∧
      dualFeasibleCols [[2, 0], [0, 2], [1, 1]] o.duals = true ∧ o.status = "OPTIMAL" ∧ o.total = 3 := by
    decide +kernel
  have := cg_custom_mirror_optimal_of_duals [[2, 0], [0, 2], [1, 1]] [[2, 0], [0, 2]] [3, 2] 1000
    Solvor.Gen.Cut.cgEps (fun _ => false) (by decide +kernel) h.1 h.2.1 h.2.2.1
  rwa [h.2.2.2] at this

/-- [S, partial] `master-LP mirror`: the LP value the mirror reports equals `duals · d` for the
duals it reports, on every input and whatever the pivots were (row-space invariant of the
tableau, `Mirror.lpCore_obj`). -/
theorem master_lp_value_is_dual_value (cols : List Pat) (d : List Nat) (eps : Rat) (o : Rat)
    (h : (Mirror.masterLP cols d eps).2.2 = some o) : o = dotQ (Mirror.masterLP cols d eps).2.1 d :=
  Mirror.masterLP_value_eq_dual cols d eps o h

-- non-vacuity: the master LP over columns (2,0),(0,2) with demands (3,2) has value 5/2
example : (Mirror.masterLP [[2, 0], [0, 2]] [3, 2] Solvor.Gen.Cut.cgEps).2.2 = some (5 / 2) := by
  decide +kernel
-- FULL STATEMENT (not proved): `master-LP mirror certifies` — on termination by optimality the
-- returned `x` is primal feasible and the duals are dual feasible for the pool (both only up to
-- `eps`, because eliminations with |factor| ≤ eps are skipped), hence the value is the LP optimum
-- up to a multiple of `eps`.

/-- [S, partial] `master-LP mirror`, dual side at a regular exit: when the final tableau passes the
entering test of `simplex_phase` (decidable on the output; it is how the loop normally ends), the
duals read off price every non-basic pool column at most `1 + eps` and every dual with a
non-basic surplus column is at least `−eps`.  For all inputs, whatever the pivots were. -/
theorem master_lp_duals_eps_feasible (cols : List Pat) (d : List Nat) (eps : Rat) (t : Mirror.Tab) (b : List Nat)
    (h : Mirror.masterCore cols d eps = some (t, b))
    (hexit : Mirror.findEnter t b (cols.length + d.length) d.length eps = none) :
    (∀ j, j < cols.length → b.contains j = false →
      Mirror.priceOf t cols.length d.length (cols.getD j []) ≤ 1 + eps) ∧
    (∀ i, i < d.length → b.contains (cols.length + i) = false →
      -eps ≤ Mirror.tget t d.length (cols.length + i)) :=
  Mirror.masterCore_duals_eps_feasible cols d eps t b h hexit

-- non-vacuity: the master LP over (2,0),(0,2),(1,1) with demands (3,2) ends regularly
example : (match Mirror.masterCore [[2, 0], [0, 2], [1, 1]] [3, 2] Solvor.Gen.Cut.cgEps with
    | some (t, b) => Mirror.findEnter t b 5 2 Solvor.Gen.Cut.cgEps == none
    | none => false) = true := by decide +kernel

/-! ### T-model: the `solve_bp` mirror (Solvor/Cut/MirrorBp.lean) -/

open Mirror in
/-- C17 `bp_status_rule`: the repaired status rule of `_branch_and_price`, for EVERY node solver
(whatever `_solve_node_lp` returns at any node): the status is OPTIMAL, FEASIBLE or INFEASIBLE;
a usable status carries a plan whose number of rolls is the objective; and — with the default
`gap_tol` and fewer than 10⁶ rolls — `OPTIMAL` is claimed only if the root LP was integral with a
converged column generation, or the incumbent does not exceed the lower bound
`lb = ⌈root LP value − eps⌉` (`0` when the root did not converge). -/
theorem bp_status_rule (solve : Solver) (cols0 : List Pat) (d : List Nat) (eps gapTol : Rat)
    (maxIter maxNodes : Nat) (stop : Nat → Bool) (htol1 : gapTol ≤ 1) :
    let o := bpRun solve cols0 d eps gapTol maxIter maxNodes stop
    (o.status = "OPTIMAL" ∨ o.status = "FEASIBLE" ∨ o.status = "INFEASIBLE") ∧
    ((o.status = "OPTIMAL" ∨ o.status = "FEASIBLE") → ∃ p, o.plan = some p ∧ o.total = rolls p) ∧
    (o.status = "OPTIMAL" → gapTol * (o.total : Rat) ≤ 1 →
      (o.rootIntegral = true ∧ o.rootConverged = true) ∨ ((o.total : Int) ≤ o.lb)) ∧
    (∀ q, (solve cols0 []).obj = some q → o.lb = if o.rootConverged then (q - eps).ceil else 0) := by
  intro o
  obtain ⟨h1, h2, h3, _, _, h6, _⟩ := bpRun_rule solve cols0 d eps gapTol maxIter maxNodes stop o rfl
  refine ⟨h1, h2, ?_, h6⟩
  intro hs htol2
  rcases h3 hs with h | ⟨_, p, hp, hg⟩
  · left; exact h
  · right
    obtain ⟨p', hp', ht⟩ := h2 (Or.inl hs)
    have : p' = p := by rw [hp] at hp'; exact (Option.some.inj hp').symm
    subst this
    rw [ht] at htol2 ⊢
    exact gapOk_le _ _ _ htol1 htol2 hg

-- non-vacuity: a node solver that always reports an integral root LP
example : (Mirror.bpRun (fun cols _ => ⟨cols, [1], [1], some 1, 0, 0, none⟩) [[1]] [1] 0 (1 / 1000000) 5 5).status
    = "OPTIMAL" := by decide +kernel

open Mirror in
/-- Generic core of `bp_mirror_optimal_of_duals`. -/
theorem bp_optimal_core (Feas : Pat → Prop) (pr : Pricer) (cols0 : List Pat) (d : List Nat) (eps gapTol : Rat)
    (maxIter maxNodes : Nat) (stop : Nat → Bool) (heps : 0 ≤ eps) (htol1 : gapTol ≤ 1)
    (o : BpOut) (ho : bpRun (nodeLP pr d eps maxIter) cols0 d eps gapTol maxIter maxNodes stop = o)
    (hs : o.status = "OPTIMAL") (htol2 : gapTol * (o.total : Rat) ≤ 1)
    (hv : ∀ p, o.plan = some p → ValidPlan Feas d p)
    (hcert : ∀ plan', ValidPlan Feas d plan' → dualBound o.rootDuals d ≤ (rolls plan' : Int))
    (hside : o.rootIntegral = true → ∀ q, o.rootObj = some q → (o.total : Int) ≤ (q - eps).ceil) :
    IsMinRolls Feas d o.total := by
  obtain ⟨_, h2, h3, h4, h5, h6, h7⟩ := bpRun_rule _ cols0 d eps gapTol maxIter maxNodes stop o ho
  obtain ⟨p, hp, ht⟩ := h2 (Or.inl hs)
  obtain ⟨q, hq⟩ := h7 (Or.inl hs)
  have hval : q = dotQ o.rootDuals d := by
    rw [h5]; exact nodeLP_root_value pr d eps maxIter cols0 q hq
  have hvp := hv p hp
  -- rolls ≤ ⌈q − eps⌉, or there are no rolls at all
  have hle : (o.total : Int) ≤ (q - eps).ceil ∨ o.total = 0 := by
    rcases h3 hs with ⟨hri, _⟩ | ⟨_, p', hp', hg⟩
    · left; exact hside hri q (by rw [h4]; exact hq)
    · have : p' = p := by rw [hp] at hp'; exact (Option.some.inj hp').symm
      subst this
      have hlb := gapOk_le _ _ _ htol1 (by rw [← ht]; exact htol2) hg
      rw [h6 q hq] at hlb
      split at hlb
      · left; rw [ht]; exact hlb
      · right; rw [ht]; omega
  rcases hle with hle | h0
  · refine ⟨⟨p, hvp, ht.symm⟩, ?_⟩
    intro plan' hv'
    have h1 := hcert plan' hv'
    have h2' : (q - eps).ceil ≤ dualBound o.rootDuals d := by
      unfold dualBound; rw [← hval]; exact ceil_sub_le_ceil q eps heps
    exact_mod_cast le_trans (le_trans hle h2') h1
  · rw [h0]
    exact ⟨⟨p, hvp, by rw [← ht, h0]⟩, fun _ _ => Nat.zero_le _⟩

open Mirror in
/-- C17 `bp_mirror_optimal_of_duals` (cutting stock): if the mirror of `solve_bp` says `OPTIMAL`
and the decidable side conditions the driver evaluates on every input hold — its plan passes the
verified checker, the duals of its root LP pass `dualFeasible` over all patterns, and, in the
case of an integral root LP, `rolls ≤ ⌈root LP value − eps⌉` — then the plan is a true minimum.
Uses the actual status rule (`root_converged`, `lower_bound`, gap test) and the exact identity
`root LP value = root duals · d`. -/
theorem bp_mirror_optimal_of_duals (W : Nat) (sizes d : List Nat) (maxIter maxNodes : Nat) (eps gapTol : Rat)
    (stop : Nat → Bool) (hpos : ∀ s ∈ sizes, 0 < s) (heps : 0 ≤ eps) (htol1 : gapTol ≤ 1) :
    let o := bpCuttingStock W sizes d maxIter maxNodes eps gapTol stop
    o.status = "OPTIMAL" → gapTol * (o.total : Rat) ≤ 1 →
    (∀ p, o.plan = some p → checkPlan (fitsB W sizes) d p o.total = true) →
    dualFeasible W sizes o.rootDuals = true →
    (o.rootIntegral = true → ∀ q, o.rootObj = some q → (o.total : Int) ≤ (q - eps).ceil) →
    IsMinRolls (Fits W sizes) d o.total := by
  intro o hs htol2 hchk hy hside
  exact bp_optimal_core (Fits W sizes) (csPricer W sizes eps) (initPats W sizes d) d eps gapTol maxIter maxNodes
    stop heps htol1 o rfl hs htol2
    (fun p hp => ((plan_checker_cs W sizes d p o.total).1 (hchk p hp)).1)
    (fun plan' hv' => dual_bound W sizes d o.rootDuals plan' hpos hy hv') hside

open Mirror in
/-- The same for an explicit column set (custom pricing). -/
theorem bp_custom_mirror_optimal_of_duals (cols init : List Pat) (d : List Nat) (maxIter maxNodes : Nat)
    (eps gapTol : Rat) (stop : Nat → Bool) (heps : 0 ≤ eps) (htol1 : gapTol ≤ 1) :
    let o := bpCustom cols init d maxIter maxNodes eps gapTol stop
    o.status = "OPTIMAL" → gapTol * (o.total : Rat) ≤ 1 →
    (∀ p, o.plan = some p → checkPlan (inColsB cols) d p o.total = true) →
    dualFeasibleCols cols o.rootDuals = true →
    (o.rootIntegral = true → ∀ q, o.rootObj = some q → (o.total : Int) ≤ (q - eps).ceil) →
    IsMinRolls (InCols cols) d o.total := by
  intro o hs htol2 hchk hy hside
  exact bp_optimal_core (InCols cols) (colsPricer cols eps) init d eps gapTol maxIter maxNodes
    stop heps htol1 o rfl hs htol2
    (fun p hp => ((plan_checker_cols cols d p o.total).1 (hchk p hp)).1)
    (fun plan' hv' => dual_bound_cols cols d o.rootDuals plan' hy hv') hside

-- non-vacuity: columns (2,0),(0,2),(1,1), initial (2,0),(0,2), demands (3,2): the root LP is
-- fractional, the tree search finds 3 columns, OPTIMAL, and every side condition holds
example : IsMinRolls (InCols [[2, 0], [0, 2], [1, 1]]) [3, 2] 3 := by
  have h : let o := (Mirror.bpCustom [[2, 0], [0, 2], [1, 1]] [[2, 0], [0, 2]] [3, 2] 1000 100
        Solvor.Gen.Cut.bpEps Solvor.Gen.Cut.bpGapTol)
      o.status = "OPTIMAL" ∧ o.total = 3 ∧ o.rootIntegral = false ∧
      (match o.plan with
        | some p => checkPlan (inColsB [[2, 0], [0, 2], [1, 1]]) [3, 2] p o.total
        | none => false) = true ∧
      dualFeasibleCols [[2, 0], [0, 2], [1, 1]] o.rootDuals = true := by decide +kernel
  have := bp_custom_mirror_optimal_of_duals [[2, 0], [0, 2], [1, 1]] [[2, 0], [0, 2]] [3, 2] 1000 100
    Solvor.Gen.Cut.bpEps Solvor.Gen.Cut.bpGapTol (fun _ => false) (by decide +kernel) (by decide +kernel) h.1
    (by rw [h.2.1]; decide +kernel)
    (fun p hp => by have := h.2.2.2.1; rw [hp] at this; exact this) h.2.2.2.2
    (fun hri => by rw [h.2.2.1] at hri; cases hri)
  rwa [h.2.1] at this

end Solvor.Cut
