import Solvor.Gen.Kernels
/-!
Dlx: functional Algorithm X, the model of `solvor/dlx.py` (`solve_exact_cover`).

The circular doubly-linked structure is abstracted (DESIGN §3): the state of the search is
the list `cov` of covered column indices.  A row is *active* iff it has no 1 in a covered
column (this is what `_cover` maintains: it unlinks every row having a 1 in the column), the
size of a column is the number of active rows with a 1 in it, the next column is the first
uncovered primary column of least size (strict `<`, as in the `while col is not root` scan;
the early `break` at size 0 picks the same column), rows are tried in index order (`col.down`
order is insertion order and `_uncover` restores it), choosing a row covers all of its columns
including secondary ones, and secondary columns are never chosen for branching.
No Mathlib imports.
-/
namespace Solvor.Dlx
open Solvor.Gen (Status)

structure Mat where
  rows  : List (List Nat)      -- row = the column indices holding a 1, increasing
  ncols : Nat
  prim  : Nat → Bool           -- column index is primary (its name is not in `secondary`)

variable (M : Mat)

def active (cov : List Nat) (r : List Nat) : Bool := r.all fun c => !cov.contains c

/-- active rows (with their indices, increasing) having a 1 in column `c` -/
def cand (cov : List Nat) (c : Nat) : List (List Nat × Nat) :=
  (M.rows.zipIdx).filter fun p => active cov p.1 && p.1.contains c

def size (cov : List Nat) (c : Nat) : Nat := (cand M cov c).length

/-- uncovered primary columns, in header order -/
def upc (cov : List Nat) : List Nat :=
  (List.range M.ncols).filter fun c => M.prim c && !cov.contains c

/-- first element with the least key -/
def argminFirst (f : Nat → Nat) : List Nat → Nat → Nat
  | [], best => best
  | c :: cs, best => argminFirst f cs (if f c < f best then c else best)

def choose (cov : List Nat) : List Nat → Option Nat
  | [] => none
  | c :: cs => some (argminFirst (size M cov) cs c)

/-- Pure Algorithm X: all selections in DFS order (no cut-offs). -/
def search : Nat → List Nat → List (List Nat)
  | 0, _ => []
  | fuel+1, cov =>
    match choose M cov (upc M cov) with
    | none => [[]]
    | some c =>
      if size M cov c = 0 then []
      else (cand M cov c).flatMap fun p => (search fuel (cov ++ p.1)).map (p.2 :: ·)

/-- every level covers at least one more primary column, so `ncols + 1` levels suffice -/
def solve : List (List Nat) := search M (M.ncols + 1) []

/-! ### Verified checker (T-spec side) -/

def rowAt (i : Nat) : List Nat := M.rows.getD i []

/-- `s` is an exact cover: distinct valid rows, pairwise disjoint (so every column, secondary
ones included, is covered at most once), every primary column covered, every row hits a
primary column. -/
def isCover (s : List Nat) : Bool :=
  decide s.Nodup &&
  s.all (fun i => decide (i < M.rows.length)) &&
  s.all (fun i => s.all fun j => i == j || (rowAt M i).all fun c => !(rowAt M j).contains c) &&
  (upc M []).all (fun c => s.any fun i => (rowAt M i).contains c) &&
  s.all (fun i => (upc M []).any fun c => (rowAt M i).contains c)

/-! ### Mirror with the cut-offs of `solve_exact_cover` -/

structure Lim where
  findAll : Bool
  maxSol  : Nat      -- 0 = no limit (`max_solutions` falsy)
  maxIter : Nat

structure St where
  iters : Nat
  sols  : List (List Nat)     -- newest first
  deriving Repr

/-- mirrors the nested `search()`; the Boolean is its return value ("stop") -/
def run (L : Lim) : Nat → List Nat → List Nat → St → St × Bool
  | 0, _, _, st => (st, false)
  | fuel+1, cov, cur, st =>
    let st := { st with iters := st.iters + 1 }
    if st.iters > L.maxIter then (st, false) else
    match choose M cov (upc M cov) with
    | none =>
      let st := { st with sols := cur.reverse :: st.sols }
      if !L.findAll then (st, true)
      else if L.maxSol != 0 && st.sols.length ≥ L.maxSol then (st, true)
      else (st, false)
    | some c =>
      if size M cov c = 0 then (st, false)
      else
        (cand M cov c).foldl (fun (acc : St × Bool) p =>
          if acc.2 then acc else
          let (st', found) := run L fuel (cov ++ p.1) (p.2 :: cur) acc.1
          if found then
            if !L.findAll then (st', true)
            else if L.maxSol != 0 && st'.sols.length ≥ L.maxSol then (st', true)
            else (st', false)
          else (st', false)) (st, false)

structure Out where
  status : Status
  sols   : Option (List (List Nat))   -- `none` = solution None; find_all=false ⇒ singleton
  iters  : Nat

/-- `solve_exact_cover`: the `if not matrix or not matrix[0]` shortcut (no columns: the empty
selection, OPTIMAL, whatever the options), otherwise the search and the status mapping. -/
def solveLim (L : Lim) : Out :=
  if M.ncols = 0 then ⟨.OPTIMAL, some [[]], 0⟩ else
  let (st, _) := run M L (M.ncols + 1) [] [] ⟨0, []⟩
  let sols := st.sols.reverse
  if st.iters > L.maxIter then
    if sols.isEmpty then ⟨.MAX_ITER, none, st.iters⟩
    else ⟨.MAX_ITER, some (if L.findAll then sols else sols.take 1), st.iters⟩
  else if sols.isEmpty then ⟨.INFEASIBLE, none, st.iters⟩
  else if L.findAll then
    ⟨if L.maxSol != 0 && sols.length ≥ L.maxSol then .FEASIBLE else .OPTIMAL, some sols, st.iters⟩
  else ⟨.OPTIMAL, some (sols.take 1), st.iters⟩

end Solvor.Dlx
