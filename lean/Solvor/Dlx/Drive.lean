import Solvor.Common.Proto
import Solvor.Dlx.Model
/-! Dlx: line-protocol handler.

request `["case", rows, ncols, prim, findAll, maxSol, maxIter, implSols]`
  rows     : list of rows, each the list of column indices holding a 1
  prim     : list of 0/1 per column (1 = primary)
  implSols : list of selections returned by the implementation (possibly empty)
reply `[status, sols|null, iters, all, implChecks]`
  status/sols/iters : the mirror `solveLim` (cut-offs included)
  all               : the pure, proved-complete `solve` (every exact cover, DFS order)
  implChecks        : verified checker `isCover` on each implementation selection
-/
namespace Solvor.Dlx
open Solvor.Proto

def handle (line : String) : String :=
  match request line with
  | some ("case", [rows, ncols, prim, fa, ms, mi, impl]) =>
    match rows.toNatss?, ncols.toNat?, prim.toNats?, fa.toBool?, ms.toNat?, mi.toNat?, impl.toNatss? with
    | some rows, some ncols, some prim, some fa, some ms, some mi, some impl =>
      let M : Mat := ⟨rows, ncols, fun c => prim.getD c 0 == 1⟩
      let o := solveLim M ⟨fa, ms, mi⟩
      (Val.arr [Val.str o.status.name, Val.ofOpt Val.ofNatss o.sols, Val.int o.iters,
        Val.ofNatss (solve M), Val.arr (impl.map fun s => Val.bool (isCover M s))]).render
    | _, _, _, _, _, _, _ => err "bad arguments"
  | _ => err "bad request"

end Solvor.Dlx
