import Solvor.Dlx.Lemmas
/-! Dlx: without cut-offs the mirror of `solve_exact_cover` returns exactly the pure search. -/
namespace Solvor.Dlx
variable (M : Mat)

/-- number of `search()` invocations of the full DFS below a node -/
def calls : Nat → List Nat → Nat
  | 0, _ => 0
  | fuel+1, cov =>
    match choose M cov (upc M cov) with
    | none => 1
    | some c =>
      if size M cov c = 0 then 1
      else 1 + ((cand M cov c).map fun p => calls fuel (cov ++ p.1)).sum

theorem run_unlimited (L : Lim) (hfa : L.findAll = true) (hms : L.maxSol = 0) :
    ∀ fuel cov cur (st : St), st.iters + calls M fuel cov ≤ L.maxIter →
      run M L fuel cov cur st =
        (⟨st.iters + calls M fuel cov,
          ((search M fuel cov).map (cur.reverse ++ ·)).reverse ++ st.sols⟩, false) := by
  intro fuel
  induction fuel with
  | zero => intro cov cur st _; simp [run, calls, search]
  | succ fuel ih =>
    intro cov cur st hle
    unfold run calls search
    unfold calls at hle
    cases hch : choose M cov (upc M cov) with
    | none =>
      simp only [hch] at hle ⊢
      have : ¬ (st.iters + 1 > L.maxIter) := by omega
      simp [this, hfa, hms]
    | some c =>
      simp only [hch] at hle ⊢
      by_cases hsz : size M cov c = 0
      · simp only [hsz, if_true] at hle ⊢
        have : ¬ (st.iters + 1 > L.maxIter) := by omega
        simp [this]
      · simp only [hsz, if_false] at hle ⊢
        have h1 : ¬ (st.iters + 1 > L.maxIter) := by omega
        rw [if_neg h1]
        -- the fold over the candidate rows
        have fold : ∀ (l : List (List Nat × Nat)) (st0 : St),
            st0.iters + (l.map fun p => calls M fuel (cov ++ p.1)).sum ≤ L.maxIter →
            l.foldl (fun (acc : St × Bool) p =>
              if acc.2 then acc else
              let (st', found) := run M L fuel (cov ++ p.1) (p.2 :: cur) acc.1
              if found then
                if !L.findAll then (st', true)
                else if L.maxSol != 0 && st'.sols.length ≥ L.maxSol then (st', true)
                else (st', false)
              else (st', false)) (st0, false) =
            (⟨st0.iters + (l.map fun p => calls M fuel (cov ++ p.1)).sum,
              ((l.flatMap fun p => (search M fuel (cov ++ p.1)).map (p.2 :: ·)).map
                (cur.reverse ++ ·)).reverse ++ st0.sols⟩, false) := by
          intro l
          induction l with
          | nil => intro st0 _; simp
          | cons p l ihl =>
            intro st0 hb
            simp only [List.map_cons, List.sum_cons] at hb
            rw [List.foldl_cons]
            have hrun := ih (cov ++ p.1) (p.2 :: cur) st0 (by omega)
            simp only [Bool.false_eq_true, if_false, hrun]
            rw [ihl _ (by simp only []; omega)]
            simp only [List.map_cons, List.sum_cons, List.flatMap_cons, List.map_append,
              List.reverse_append, List.map_map, List.append_assoc, Prod.mk.injEq, and_true]
            rw [St.mk.injEq]
            refine ⟨by omega, ?_⟩
            congr 2
            apply congrArg
            apply List.map_congr_left
            intro s _
            simp [List.reverse_cons, List.append_assoc]
        have := fold (cand M cov c) ⟨st.iters + 1, st.sols⟩ (by simp only []; omega)
        simp only [] at this
        rw [this]
        simp only [Prod.mk.injEq, and_true]
        rw [St.mk.injEq]
        exact ⟨by omega, rfl⟩

/-- **C07, mirror ↔ proved-complete search.**  With `find_all`, no `max_solutions` and an
iteration budget that the (finite) search does not exhaust, the mirror of `solve_exact_cover`
returns exactly the list of the pure Algorithm X — which `algx_complete_nodup` shows to be every
exact cover once — with status OPTIMAL, or INFEASIBLE with no solution when that list is empty. -/
theorem solveLim_unlimited (L : Lim) (hfa : L.findAll = true) (hms : L.maxSol = 0)
    (hn : M.ncols ≠ 0) (hit : calls M (M.ncols + 1) [] ≤ L.maxIter) :
    (solveLim M L).sols = (if (solve M).isEmpty then none else some (solve M)) ∧
    (solveLim M L).status = (if (solve M).isEmpty then .INFEASIBLE else .OPTIMAL) := by
  unfold solveLim
  rw [if_neg hn]
  have hr := run_unlimited M L hfa hms (M.ncols + 1) [] [] ⟨0, []⟩ (by simpa using hit)
  simp only [hr, List.reverse_nil, List.nil_append, List.append_nil, List.map_id', List.reverse_reverse,
    Nat.zero_add, hfa, hms]
  have : ¬ (calls M (M.ncols + 1) [] > L.maxIter) := by omega
  simp only [this, if_false, solve]
  have hid : (search M (M.ncols + 1) []).map (fun x => x) = search M (M.ncols + 1) [] := List.map_id' _
  by_cases he : (search M (M.ncols + 1) []).isEmpty
  · simp [he]
  · simp [he]

end Solvor.Dlx
