import Solvor.Dlx.Model
/-! Dlx: helper lemmas for the Algorithm X theorems (core Lean only). -/
namespace Solvor.Dlx
variable (M : Mat)


structure ResCover (cov : List Nat) (S : List Nat) : Prop where
  nodup  : S.Nodup
  valid  : ∀ i ∈ S, i < M.rows.length
  act    : ∀ i ∈ S, active cov (rowAt M i) = true
  disj   : ∀ i ∈ S, ∀ j ∈ S, i ≠ j → ∀ c, c ∈ rowAt M i → c ∉ rowAt M j
  covers : ∀ c ∈ upc M cov, ∃ i ∈ S, c ∈ rowAt M i
  hits   : ∀ i ∈ S, ∃ c ∈ upc M cov, c ∈ rowAt M i

theorem active_iff {cov r : List Nat} : active cov r = true ↔ ∀ c ∈ r, c ∉ cov := by
  simp [active]

theorem mem_cand {cov : List Nat} {c : Nat} {p : List Nat × Nat} :
    p ∈ cand M cov c ↔ p.2 < M.rows.length ∧ p.1 = rowAt M p.2 ∧ active cov p.1 = true ∧ c ∈ p.1 := by
  unfold cand rowAt
  rw [List.mem_filter, List.mem_zipIdx_iff_getElem?]
  constructor
  · rintro ⟨h1, h2⟩
    have hlt : p.2 < M.rows.length := by
      rcases Nat.lt_or_ge p.2 M.rows.length with h | h
      · exact h
      · rw [List.getElem?_eq_none h] at h1; cases h1
    refine ⟨hlt, ?_, ?_, ?_⟩
    · simp [List.getD, h1]
    · simp only [Bool.and_eq_true] at h2; exact h2.1
    · simp only [Bool.and_eq_true, List.contains_iff_mem] at h2; exact h2.2
  · rintro ⟨hlt, heq, ha, hc⟩
    refine ⟨?_, ?_⟩
    · rw [heq]; simp [List.getD, List.getElem?_eq_getElem hlt]
    · simp [ha, hc]

theorem mem_upc {cov : List Nat} {c : Nat} :
    c ∈ upc M cov ↔ c < M.ncols ∧ M.prim c = true ∧ c ∉ cov := by
  simp [upc]

theorem argminFirst_mem (f : Nat → Nat) (cs : List Nat) (b : Nat) :
    argminFirst f cs b = b ∨ argminFirst f cs b ∈ cs := by
  induction cs generalizing b with
  | nil => left; rfl
  | cons c cs ih =>
    simp only [argminFirst]
    rcases ih (if f c < f b then c else b) with h | h
    · rw [h]; split
      · right; simp
      · left; rfl
    · right; exact List.mem_cons_of_mem _ h

theorem choose_mem {cov l : List Nat} {c : Nat} (h : choose M cov l = some c) : c ∈ l := by
  cases l with
  | nil => simp [choose] at h
  | cons a as =>
    simp only [choose, Option.some.injEq] at h
    rcases argminFirst_mem (size M cov) as a with h' | h'
    · rw [← h, h']; simp
    · rw [← h]; exact List.mem_cons_of_mem _ h'

theorem choose_none {cov l : List Nat} (h : choose M cov l = none) : l = [] := by
  cases l with
  | nil => rfl
  | cons a as => simp [choose] at h


theorem active_append {cov r x : List Nat} :
    active (cov ++ r) x = true ↔ active cov x = true ∧ ∀ c ∈ x, c ∉ r := by
  simp only [active_iff, List.mem_append, not_or]
  constructor
  · intro h; exact ⟨fun c hc => (h c hc).1, fun c hc => (h c hc).2⟩
  · rintro ⟨h1, h2⟩ c hc; exact ⟨h1 c hc, h2 c hc⟩

theorem mem_upc_append {cov r : List Nat} {c : Nat} :
    c ∈ upc M (cov ++ r) ↔ c ∈ upc M cov ∧ c ∉ r := by
  simp only [mem_upc, List.mem_append, not_or, and_assoc]

theorem search_sound (fuel : Nat) (cov : List Nat) :
    ∀ s ∈ search M fuel cov, ResCover M cov s := by
  induction fuel generalizing cov with
  | zero => intro s hs; simp [search] at hs
  | succ fuel ih =>
    intro s hs
    unfold search at hs
    split at hs
    · -- no uncovered primary column
      rename_i hnone
      have hup := choose_none M hnone
      simp only [List.mem_singleton] at hs
      subst hs
      exact ⟨List.nodup_nil, by simp, by simp, by simp, by simp [hup], by simp⟩
    · rename_i c hsome
      have hc := choose_mem M hsome
      split at hs
      · simp at hs
      · rw [List.mem_flatMap] at hs
        obtain ⟨p, hp, hs⟩ := hs
        rw [List.mem_map] at hs
        obtain ⟨s', hs', rfl⟩ := hs
        have R := ih (cov ++ p.1) s' hs'
        obtain ⟨hlt, heq, hact, hcp⟩ := (mem_cand M).1 hp
        -- rows of s' avoid p.1
        have avoid : ∀ j ∈ s', ∀ x ∈ rowAt M j, x ∉ p.1 := fun j hj =>
          ((active_append).1 (R.act j hj)).2
        have hnot : p.2 ∉ s' := by
          intro hmem
          have := avoid p.2 hmem c (by rw [← heq]; exact hcp)
          exact this hcp
        refine ⟨List.nodup_cons.2 ⟨hnot, R.nodup⟩, ?_, ?_, ?_, ?_, ?_⟩
        · intro i hi
          rcases List.mem_cons.1 hi with rfl | hi
          · exact hlt
          · exact R.valid i hi
        · intro i hi
          rcases List.mem_cons.1 hi with rfl | hi
          · rw [← heq]; exact hact
          · exact ((active_append).1 (R.act i hi)).1
        · intro i hi j hj hij x hx
          rcases List.mem_cons.1 hi with rfl | hi <;> rcases List.mem_cons.1 hj with rfl | hj
          · exact absurd rfl hij
          · intro hxj; exact avoid j hj x hxj (by rw [heq]; exact hx)
          · intro hxj; exact avoid i hi x hx (by rw [heq]; exact hxj)
          · exact R.disj i hi j hj hij x hx
        · intro x hx
          by_cases hxp : x ∈ p.1
          · exact ⟨p.2, List.mem_cons_self, by rw [← heq]; exact hxp⟩
          · obtain ⟨i, hi, hxi⟩ := R.covers x ((mem_upc_append M).2 ⟨hx, hxp⟩)
            exact ⟨i, List.mem_cons_of_mem _ hi, hxi⟩
        · intro i hi
          rcases List.mem_cons.1 hi with rfl | hi
          · exact ⟨c, hc, by rw [← heq]; exact hcp⟩
          · obtain ⟨x, hx, hxi⟩ := R.hits i hi
            exact ⟨x, ((mem_upc_append M).1 hx).1, hxi⟩


theorem upc_append_length_lt {cov r : List Nat} {c : Nat} (hc : c ∈ upc M cov) (hr : c ∈ r) :
    (upc M (cov ++ r)).length < (upc M cov).length := by
  have hsub : upc M (cov ++ r) = (upc M cov).filter (fun x => !r.contains x) := by
    unfold upc
    rw [List.filter_filter]
    congr 1
    funext x
    cases M.prim x <;> simp [Bool.and_comm]
  rw [hsub]
  apply List.length_filter_lt_length_iff_exists.2
  exact ⟨c, hc, by simp [hr]⟩

theorem search_complete (fuel : Nat) (cov S : List Nat) (hS : ResCover M cov S)
    (hf : (upc M cov).length < fuel) :
    ∃ S', S'.Perm S ∧ S' ∈ search M fuel cov := by
  induction fuel generalizing cov S with
  | zero => omega
  | succ fuel ih =>
    unfold search
    split
    · rename_i hnone
      have hup := choose_none M hnone
      have : S = [] := by
        cases S with
        | nil => rfl
        | cons i t =>
          obtain ⟨x, hx, _⟩ := hS.hits i List.mem_cons_self
          rw [hup] at hx; cases hx
      subst this
      exact ⟨[], List.Perm.refl _, by simp⟩
    · rename_i c hsome
      have hc := choose_mem M hsome
      obtain ⟨i, hi, hci⟩ := hS.covers c hc
      have hp : (rowAt M i, i) ∈ cand M cov c :=
        (mem_cand M).2 ⟨hS.valid i hi, rfl, hS.act i hi, hci⟩
      have hsz : size M cov c ≠ 0 := by
        unfold size; intro h0
        have := List.eq_nil_of_length_eq_zero h0
        rw [this] at hp; cases hp
      rw [if_neg hsz]
      -- residual cover
      have hS₁ : ResCover M (cov ++ rowAt M i) (S.erase i) := by
        have hmem : ∀ j, j ∈ S.erase i → j ∈ S ∧ j ≠ i := fun j hj =>
          ⟨List.mem_of_mem_erase hj, fun h => by
            subst h; exact (List.Nodup.not_mem_erase hS.nodup) hj⟩
        refine ⟨hS.nodup.erase i, ?_, ?_, ?_, ?_, ?_⟩
        · intro j hj; exact hS.valid j (hmem j hj).1
        · intro j hj
          refine (active_append).2 ⟨hS.act j (hmem j hj).1, ?_⟩
          intro x hx hxi
          exact hS.disj j (hmem j hj).1 i hi (hmem j hj).2 x hx hxi
        · intro a ha b hb hab x hx
          exact hS.disj a (hmem a ha).1 b (hmem b hb).1 hab x hx
        · intro x hx
          obtain ⟨hx1, hx2⟩ := (mem_upc_append M).1 hx
          obtain ⟨j, hj, hxj⟩ := hS.covers x hx1
          have hji : j ≠ i := by rintro rfl; exact hx2 hxj
          exact ⟨j, (List.mem_erase_of_ne hji).2 hj, hxj⟩
        · intro j hj
          obtain ⟨x, hx, hxj⟩ := hS.hits j (hmem j hj).1
          refine ⟨x, (mem_upc_append M).2 ⟨hx, ?_⟩, hxj⟩
          intro hxi
          exact hS.disj j (hmem j hj).1 i hi (hmem j hj).2 x hxj hxi
      have hlen := upc_append_length_lt M hc hci
      obtain ⟨S₁', hperm, hmem⟩ := ih (cov ++ rowAt M i) (S.erase i) hS₁ (by omega)
      refine ⟨i :: S₁', ?_, ?_⟩
      · exact (List.Perm.cons i hperm).trans (List.perm_cons_erase hi).symm
      · rw [List.mem_flatMap]
        exact ⟨(rowAt M i, i), hp, List.mem_map.2 ⟨S₁', hmem, rfl⟩⟩

theorem cand_pairwise (cov : List Nat) (c : Nat) :
    (cand M cov c).Pairwise (fun p q => p.2 ≠ q.2) := by
  unfold cand
  apply List.Pairwise.filter
  have : (M.rows.zipIdx.map Prod.snd).Nodup := by
    rw [List.zipIdx_map_snd]; exact List.nodup_range' ..
  exact (List.pairwise_map.1 this)

theorem search_nodup (fuel : Nat) (cov : List Nat) :
    (search M fuel cov).Pairwise (fun a b => ¬ a.Perm b) := by
  induction fuel generalizing cov with
  | zero => simp [search]
  | succ fuel ih =>
    unfold search
    split
    · simp
    · rename_i c hsome
      split
      · simp
      · rw [List.pairwise_flatMap]
        refine ⟨?_, ?_⟩
        · intro p _
          rw [List.pairwise_map]
          exact (ih (cov ++ p.1)).imp (fun h hp => h ((List.perm_cons _).1 hp))
        · refine (cand_pairwise M cov c).imp_of_mem ?_
          intro p q hp hq hne x hx y hy hperm
          obtain ⟨s', hs', rfl⟩ := List.mem_map.1 hx
          obtain ⟨s'', hs'', rfl⟩ := List.mem_map.1 hy
          obtain ⟨_, heqp, _, hcp⟩ := (mem_cand M).1 hp
          obtain ⟨_, heqq, _, hcq⟩ := (mem_cand M).1 hq
          have hq_in : q.2 ∈ p.2 :: s' := hperm.symm.subset List.mem_cons_self
          rcases List.mem_cons.1 hq_in with h | h
          · exact hne h.symm
          · have R := search_sound M fuel (cov ++ p.1) s' hs'
            have := ((active_append).1 (R.act q.2 h)).2 c (by rw [← heqq]; exact hcq)
            exact this hcp


end Solvor.Dlx
