import Solvor.Dlx.Lemmas
import Solvor.Dlx.Complete
/-!
Dlx: the property theorems of C07 (helper lemmas are in `Lemmas.lean`).

`ResCover M [] s` *is* the property's notion of an exact cover: distinct valid rows, pairwise
disjoint (each column – secondary ones included – covered at most once), every primary column
covered (with disjointness: exactly once), every selected row covers ≥ 1 primary column.
-/
namespace Solvor.Dlx
variable (M : Mat)

/-- C07 soundness: every selection emitted by Algorithm X is an exact cover. -/
theorem algx_sound : ∀ s ∈ solve M, ResCover M [] s := search_sound M _ _

private theorem upc_nil_le : (upc M []).length < M.ncols + 1 := by
  have : (upc M []).length ≤ M.ncols := by
    unfold upc; exact Nat.le_trans (List.length_filter_le _ _) (by simp)
  omega

/-- C07 completeness and no duplicates: without cut-offs the emitted list contains every exact
cover (up to the order in which its rows are listed) and no cover twice. -/
theorem algx_complete_nodup :
    (∀ S, ResCover M [] S → ∃ S', S'.Perm S ∧ S' ∈ solve M) ∧
    (solve M).Pairwise (fun a b => ¬ a.Perm b) :=
  ⟨fun S hS => search_complete M _ _ S hS (upc_nil_le M), search_nodup M _ _⟩

/-- C07: INFEASIBLE (no selection emitted) exactly when no exact cover exists. -/
theorem algx_infeasible_iff : solve M = [] ↔ ¬ ∃ S, ResCover M [] S := by
  constructor
  · rintro h ⟨S, hS⟩
    obtain ⟨S', _, hm⟩ := (algx_complete_nodup M).1 S hS
    rw [h] at hm; cases hm
  · intro h
    cases hs : solve M with
    | nil => rfl
    | cons s t => exact absurd ⟨s, algx_sound M s (by rw [hs]; exact List.mem_cons_self)⟩ h

/-- T-spec: the Boolean checker the driver evaluates on the implementation's selections decides
exactly `ResCover M []`. -/
theorem isCover_iff (s : List Nat) : isCover M s = true ↔ ResCover M [] s := by
  unfold isCover
  simp only [Bool.and_eq_true, decide_eq_true_eq, List.all_eq_true, List.any_eq_true,
    Bool.or_eq_true, beq_iff_eq, Bool.not_eq_eq_eq_not, Bool.not_true, List.contains_iff_mem]
  constructor
  · rintro ⟨⟨⟨⟨h1, h2⟩, h3⟩, h4⟩, h5⟩
    refine ⟨h1, h2, ?_, ?_, ?_, ?_⟩
    · intro i _; simp [active]
    · intro i hi j hj hij c hc
      rcases h3 i hi j hj with h | h
      · exact absurd h hij
      · have := h c hc; simpa using this
    · intro c hc; obtain ⟨i, hi, hci⟩ := h4 c hc; exact ⟨i, hi, hci⟩
    · intro i hi; obtain ⟨c, hc, hci⟩ := h5 i hi; exact ⟨c, hc, hci⟩
  · intro R
    refine ⟨⟨⟨⟨R.nodup, R.valid⟩, ?_⟩, ?_⟩, ?_⟩
    · intro i hi j hj
      by_cases hij : i = j
      · left; exact hij
      · right; intro c hc; simpa using R.disj i hi j hj hij c hc
    · intro c hc; obtain ⟨i, hi, hci⟩ := R.covers c hc; exact ⟨i, hi, hci⟩
    · intro i hi; obtain ⟨c, hc, hci⟩ := R.hits i hi; exact ⟨c, hc, hci⟩

/-- C07 under cut-offs (`find_all` off, `max_solutions`, `max_iter`): whatever the limits, every
selection recorded by the mirror of the nested `search()` is `cur ++ s` for a selection `s` the
pure search emits below the current node, or was recorded before. -/
theorem run_sols (L : Lim) (fuel : Nat) (cov cur : List Nat) (st : St) :
    ∀ x ∈ (run M L fuel cov cur st).1.sols,
      x ∈ st.sols ∨ ∃ s ∈ search M fuel cov, x = cur.reverse ++ s := by
  induction fuel generalizing cov cur st with
  | zero => intro x hx; left; simpa [run] using hx
  | succ fuel ih =>
    intro x hx
    unfold run at hx
    simp only at hx
    split at hx
    · left; exact hx
    · unfold search
      split at hx
      · rename_i hnone
        try simp only [hnone]
        have : x ∈ cur.reverse :: st.sols := by
          split at hx
          · simpa using hx
          · split at hx <;> simpa using hx
        rcases List.mem_cons.1 this with h | h
        · right; exact ⟨[], by simp, by simp [h]⟩
        · left; exact h
      · rename_i c hsome
        try simp only [hsome]
        split at hx
        · left; exact hx
        · rename_i hsz
          rw [if_neg hsz]
          -- generalise the fold over the candidate rows
          have gen : ∀ (l : List (List Nat × Nat)) (acc : St × Bool) (P : List Nat → Prop),
              (∀ y ∈ acc.1.sols, P y) →
              (∀ p ∈ l, ∀ st0 : St, (∀ y ∈ st0.sols, P y) →
                 ∀ y ∈ (run M L fuel (cov ++ p.1) (p.2 :: cur) st0).1.sols, P y) →
              ∀ y ∈ (l.foldl (fun (acc : St × Bool) p =>
                if acc.2 then acc else
                let (st', found) := run M L fuel (cov ++ p.1) (p.2 :: cur) acc.1
                if found then
                  if !L.findAll then (st', true)
                  else if L.maxSol != 0 && st'.sols.length ≥ L.maxSol then (st', true)
                  else (st', false)
                else (st', false)) acc).1.sols, P y := by
            intro l
            induction l with
            | nil => intro acc P h _ y hy; exact h y hy
            | cons p l ihl =>
              intro acc P hacc hstep y hy
              rw [List.foldl_cons] at hy
              refine ihl _ P ?_ (fun q hq => hstep q (List.mem_cons_of_mem _ hq)) y hy
              intro z hz
              split at hz
              · exact hacc z hz
              · have hz' : z ∈ (run M L fuel (cov ++ p.1) (p.2 :: cur) acc.1).1.sols := by
                  revert hz
                  generalize run M L fuel (cov ++ p.1) (p.2 :: cur) acc.1 = r
                  obtain ⟨st', found⟩ := r
                  simp only
                  intro hz
                  split at hz
                  · split at hz
                    · exact hz
                    · split at hz <;> exact hz
                  · exact hz
                exact hstep p List.mem_cons_self acc.1 hacc z hz'
          refine gen (cand M cov c) _
            (fun y => y ∈ st.sols ∨ ∃ s ∈ (cand M cov c).flatMap
              (fun p => (search M fuel (cov ++ p.1)).map (p.2 :: ·)), y = cur.reverse ++ s)
            ?_ ?_ x hx
          · intro y hy; left; simpa using hy
          · intro p hp st0 h0 y hy
            rcases ih (cov ++ p.1) (p.2 :: cur) st0 y hy with h | ⟨s, hs, rfl⟩
            · exact h0 y h
            · right
              refine ⟨p.2 :: s, ?_, by simp⟩
              rw [List.mem_flatMap]
              exact ⟨p, hp, List.mem_map.2 ⟨s, hs, rfl⟩⟩

/-- C07 under cut-offs: every selection `solve_exact_cover`'s mirror returns, for any
`find_all` / `max_solutions` / `max_iter`, is an exact cover. -/
theorem algx_limited_sound (L : Lim) :
    ∀ sols, (solveLim M L).sols = some sols → ∀ s ∈ sols, ResCover M [] s := by
  intro sols h s hs
  have base : ∀ x ∈ (run M L (M.ncols + 1) [] [] ⟨0, []⟩).1.sols, ResCover M [] x := by
    intro x hx
    rcases run_sols M L _ [] [] ⟨0, []⟩ x hx with h | ⟨s', hs', heq⟩
    · simp at h
    · have : x = s' := by simpa using heq
      subst this
      exact algx_sound M x (by unfold solve; exact hs')
  unfold solveLim at h
  split at h
  · rename_i h0
    simp only [Option.some.injEq] at h
    subst h
    simp only [List.mem_singleton] at hs
    subst hs
    refine ⟨List.nodup_nil, by simp, by simp, by simp, ?_, by simp⟩
    intro c hc
    have := (mem_upc M).1 hc
    omega
  simp only at h
  generalize hr : run M L (M.ncols + 1) [] [] ⟨0, []⟩ = r at h base
  obtain ⟨st, b⟩ := r
  simp only at h base
  have mem_rev : ∀ y, y ∈ st.sols.reverse → ResCover M [] y := fun y hy => base y (List.mem_reverse.1 hy)
  split at h
  · split at h
    · cases h
    · simp only [Option.some.injEq] at h
      subst h
      split at hs
      · exact mem_rev s hs
      · exact mem_rev s (List.mem_of_mem_take hs)
  · split at h
    · cases h
    · split at h
      · simp only [Option.some.injEq] at h
        subst h; exact mem_rev s hs
      · simp only [Option.some.injEq] at h
        subst h; exact mem_rev s (List.mem_of_mem_take hs)

/-- C07, tie between the mirror (compared with the code on every run) and the proved-complete
search: with `find_all`, no `max_solutions`, and an iteration budget the search does not
exhaust, the mirror returns every exact cover exactly once (OPTIMAL), or INFEASIBLE iff none
exists. -/
theorem algx_mirror_complete (L : Lim) (hfa : L.findAll = true) (hms : L.maxSol = 0)
    (hn : M.ncols ≠ 0) (hit : calls M (M.ncols + 1) [] ≤ L.maxIter) :
    ((solveLim M L).status = .INFEASIBLE ↔ ¬ ∃ S, ResCover M [] S) ∧
    (∀ sols, (solveLim M L).sols = some sols →
      (∀ S, ResCover M [] S → ∃ S', S'.Perm S ∧ S' ∈ sols) ∧ sols.Pairwise (fun a b => ¬ a.Perm b)) := by
  obtain ⟨h1, h2⟩ := solveLim_unlimited M L hfa hms hn hit
  refine ⟨?_, ?_⟩
  · rw [h2, ← algx_infeasible_iff]
    by_cases he : (solve M).isEmpty
    · simp [he, List.isEmpty_iff.1 he]
    · have : solve M ≠ [] := fun h => he (List.isEmpty_iff.2 h)
      simp [he, this]
  · intro sols hs
    rw [h1] at hs
    by_cases he : (solve M).isEmpty
    · simp [he] at hs
    · simp only [he, Bool.false_eq_true, if_false, Option.some.injEq] at hs
      subst hs
      exact algx_complete_nodup M

/-- C07 "input not modified / same answer again": the model is a pure function of the matrix,
so this is `rfl`; on the implementation it is checked per run (matrix deep-equal before/after,
two calls equal). -/
theorem algx_pure (L : Lim) : solveLim M L = solveLim M L := rfl

/-! Non-vacuity: the docstring example of `solvor/dlx.py` has covers, the checker accepts one. -/
def exM : Mat := ⟨[[0,3,6],[0,3],[3,4,6],[2,4,5],[1,2,5,6],[1,6]], 7, fun _ => true⟩
example : solve exM = [[1, 3, 5]] := by decide
example : isCover exM [1, 3, 5] = true := by decide
example : ∃ S, ResCover exM [] S := ⟨[1,3,5], (isCover_iff exM _).1 (by decide)⟩

end Solvor.Dlx
