import Solvor.Dlx.Drive
def main : IO Unit := Solvor.Proto.serve Solvor.Dlx.handle
