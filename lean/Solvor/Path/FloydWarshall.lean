import Solvor.Path.Lemmas
/-! Path: the easy half of Floyd-Warshall — every finite entry of the mirror's matrix is the weight
of a real walk (so a negative diagonal entry exhibits a negative closed walk). -/
namespace Solvor.Path
set_option linter.unusedVariables false
open Solvor.Gen (Status)

theorem Mat.get_set_cases {m : Mat} {i j i' j' : Nat} {v : Option Int} {c : Int}
    (h : Mat.get (Mat.set m i j v) i' j' = some c) :
    (i' = i ∧ j' = j ∧ v = some c) ∨ Mat.get m i' j' = some c := by
  unfold Mat.get Mat.set at *
  simp only [List.getD_eq_getElem?_getD, List.getElem?_set] at h ⊢
  by_cases hi : i = i'
  · subst hi
    simp only [if_true] at h
    by_cases hl : i < m.length
    · simp only [hl, if_true, Option.getD_some, List.getElem?_set] at h
      by_cases hj : j = j'
      · subst hj
        simp only [if_true] at h
        split at h
        · left; simp only [Option.getD_some] at h; exact ⟨rfl, rfl, h⟩
        · simp at h
      · simp only [hj, if_false] at h
        right; exact h
    · simp only [hl, if_false] at h
      simp at h
  · simp only [hi, if_false] at h
    right; exact h

/-- every finite entry is realised by a walk -/
def FWReal (E : List (Edge Int)) (m : Mat) : Prop := ∀ i j c, Mat.get m i j = some c → Walk E i j c

theorem fwReal_init0 (E : List (Edge Int)) (n : Nat) :
    FWReal E ((List.range n).map fun i => (List.range n).map fun j => if i = j then some 0 else none) := by
  intro i j c h
  unfold Mat.get at h
  simp only [List.getD_eq_getElem?_getD, List.getElem?_map] at h
  by_cases hi : i < n
  · rw [List.getElem?_range hi] at h
    simp only [Option.map_some, Option.getD_some, List.getElem?_map] at h
    by_cases hj : j < n
    · rw [List.getElem?_range hj] at h
      simp only [Option.map_some, Option.getD_some] at h
      split at h
      · next e => subst e; cases h; exact Walk.nil i
      · cases h
    · have hn : (List.range n)[j]? = none := List.getElem?_eq_none (by simp; omega)
      rw [hn] at h; simp at h
  · have hn : (List.range n)[i]? = none := List.getElem?_eq_none (by simp; omega)
    rw [hn] at h; simp at h

theorem fwReal_put {E : List (Edge Int)} {m : Mat} (hr : FWReal E m) {u v : Nat} {w : Int} (he : (u, v, w) ∈ E) :
    FWReal E (fwPut m u v w) := by
  have hnew : FWReal E (Mat.set m u v (some w)) := by
    intro i j c h
    rcases Mat.get_set_cases h with ⟨hi, hj, hv⟩ | h'
    · subst hi; subst hj; cases hv
      have := Walk.single he
      rwa [Int.add_zero] at this
    · exact hr i j c h'
  unfold fwPut
  split
  · exact hnew
  · split
    · exact hnew
    · exact hr

theorem fwReal_relax {E : List (Edge Int)} {m : Mat} (hr : FWReal E m) (k i j : Nat) : FWReal E (fwRelax m k i j) := by
  unfold fwRelax
  split
  · intro i' j' c h
    rcases Mat.get_set_cases h with ⟨hi, hj, hv⟩ | h'
    · subst hi; subst hj
      cases hik : Mat.get m i' k with
      | none => simp [optAdd, hik] at hv
      | some x =>
        cases hkj : Mat.get m k j' with
        | none => simp [optAdd, hik, hkj] at hv
        | some y =>
          simp only [optAdd, hik, hkj, Option.some.injEq] at hv
          subst hv
          exact Walk.append (hr i' k x hik) (hr k j' y hkj)
    · exact hr i' j' c h'
  · exact hr

theorem foldl_inv {α β : Type} (P : β → Prop) (f : β → α → β) (hf : ∀ b a, P b → P (f b a)) :
    ∀ (l : List α) (b : β), P b → P (l.foldl f b) := by
  intro l
  induction l with
  | nil => intro b h; exact h
  | cons a l ih => intro b h; exact ih _ (hf b a h)

theorem fwReal_loop {E : List (Edge Int)} (n : Nat) {m : Mat} (hr : FWReal E m) : FWReal E (fwLoop n m) := by
  unfold fwLoop
  apply foldl_inv (FWReal E) _ _ _ _ hr
  intro m k hm
  apply foldl_inv (FWReal E) _ _ _ _ hm
  intro m i hm
  apply foldl_inv (FWReal E) _ _ _ _ hm
  intro m j hm
  exact fwReal_relax hm k i j

theorem mem_symE {E : List (Edge Int)} {e : Edge Int} (h : e ∈ E) : e ∈ symE E ∧ (e.2.1, e.1, e.2.2) ∈ symE E := by
  simp only [symE, List.mem_flatMap]
  exact ⟨⟨e, h, by simp⟩, ⟨e, h, by simp⟩⟩

theorem fwReal_init (n : Nat) (E : List (Edge Int)) (directed : Bool) :
    FWReal (if directed then E else symE E) (fwInit n E directed) := by
  unfold fwInit
  have key : ∀ (L : List (Edge Int)) (m : Mat), (∀ e ∈ L, e ∈ E) → FWReal (if directed then E else symE E) m →
      FWReal (if directed then E else symE E) (L.foldl (fun m e =>
        let m := fwPut m e.1 e.2.1 e.2.2
        if directed then m else fwPut m e.2.1 e.1 e.2.2) m) := by
    intro L
    induction L with
    | nil => intro m _ h; exact h
    | cons e L ih =>
      intro m hL h
      rw [List.foldl_cons]
      apply ih _ (fun x hx => hL x (List.mem_cons_of_mem _ hx))
      have heE : e ∈ E := hL e List.mem_cons_self
      cases directed with
      | true =>
        simp only [if_true]
        exact fwReal_put h (by simpa using heE)
      | false =>
        simp only [Bool.false_eq_true, if_false]
        obtain ⟨h1, h2⟩ := mem_symE heE
        exact fwReal_put (fwReal_put h (by simpa using h1)) h2
  exact key E _ (fun e h => h) (fwReal_init0 _ n)

end Solvor.Path
