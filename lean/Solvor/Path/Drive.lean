import Solvor.Common.Proto
import Solvor.Gen.PathConsts
import Solvor.Path.Model
/-!
Path: line-protocol handler.

`["graph", n, edges, queries]` — `edges = [[u, v, w], …]` (scaled integer weights), `queries` a list
of sub-requests answered in order (reply = list of sub-replies):

* `["ref", s]` → `[status, dist, negcert]`: the Bellman-Ford model from `s` (`bellman_ford_correct`:
  exact distances unless UNBOUNDED); on UNBOUNDED `negcert = [pathToCycle, cycle, negCycleCert verdict]`.
* `["hop", s]` → hop distances (the same model on unit weights).
* `["fwref", directed]` → `[unbounded, matrix|null, negcertOK|null]`: Bellman-Ford from every source on
  the (symmetrised) edge list.
* `["chk", unit, s, T, bound|null, path|null, cost|null]` → `[distCert, pathOK, pathCost, infeasOK]`:
  the verified checkers on an implementation answer, the potential being the reference distances;
  `infeasOK` = `unreachCert` (bound null) or `lowerCert … (bound+1)` (`max_cost = bound`).
* tolerance helpers for inexact doubles: `["refd", s, delta]`, `["fwrefd", directed, delta]`, `["feas", directed, slack, dist]`.
* mirrors: `["dijkstra", s, T, maxIter|null, maxCost|null]`, `["astar", s, T, h, wnum, wden, maxIter|null, maxCost|null]`
  → `[status, path, cost, rerelax, certOK|null, fuelOut]`; `["bfs"|"dfs", s, T|null, maxIter|null]` →
  `[status, path, cost, visited(sorted), certOK|null]`; `["bf", s, target|null]` → `[status, dist, path, cost]`;
  `["fw", directed]` → `[status, matrix|null]`; `["dall", s]` → dist|null.

`["grid", rows, cols, cells, blocked, costs, scale, eight, [sr,sc], [tr,tc], hname, wnum, wden, maxIter|null,
  implPath|null, implCost|null]` → see `gridCase`.
-/
namespace Solvor.Path
open Solvor.Proto
open Solvor.Gen (Status)

def toEdges (v : Val) : Option (List (Edge Int)) := do
  let rows ← v.toIntss?
  rows.mapM fun r =>
    match r with
    | [u, v, w] => if u < 0 || v < 0 then none else some (u.toNat, v.toNat, w)
    | _ => none

def ofTab (t : Tab Int) : Val := Val.arr (t.map (Val.ofOpt Val.int))
def ofMat (m : Mat) : Val := Val.arr (m.map ofTab)
def ofPath (p : Option (List Nat)) : Val := Val.ofOpt Val.ofNats p
def ofOInt (c : Option Int) : Val := Val.ofOpt Val.int c


def finiteNodes (d : Tab Int) : List Nat := (List.range d.length).filter fun v => (look d v).isSome

/-- negative-cycle certificate for an UNBOUNDED Bellman-Ford run: `(path from s to the cycle, cycle, verdict)` -/
def negCert (n : Nat) (E : List (Edge Int)) (s : Nat) : Option (List Nat × List Nat × Bool) :=
  let st := bfRounds E (n - 1) (bfInit n s)
  match negCycleOf n E st with
  | none => none
  | some cyc =>
    let x := cyc.headD 0
    let p := ((bfs n E s [x] false (n + 1)).path).getD []
    some (p, cyc, negCycleCert E s p cyc)

/-- number of relaxations that improved an already finite distance (non-triviality measure only) -/
def bfCount (E : List (Edge Int)) : Nat → BFSt → Nat → Nat
  | 0, _, c => c
  | k + 1, st, c =>
    let r := E.foldl (fun (acc : BFSt × Bool × Nat) e =>
      if relaxable acc.1.dist e then
        (relax acc.1 e, true, acc.2.2 + (if (look acc.1.dist e.2.1).isSome then 1 else 0))
      else acc) (st, false, c)
    if r.2.1 then bfCount E k r.1 r.2.2 else r.2.2

def sortNats (l : List Nat) : List Nat := l.mergeSort (· ≤ ·)

def natOr (v : Val) (dflt : Int) : Option Nat :=
  match v with
  | Val.null => some dflt.toNat
  | _ => v.toNat?

def subQuery (n : Nat) (E : List (Edge Int)) (cmd : String) (args : List Val) : Option Val :=
  match cmd, args with
  | "ref", [s] => do
    let s ← s.toNat?
    let r := bellmanFord n E s none
    let nc := if r.status = .UNBOUNDED then
        match negCert n E s with
        | some (p, cyc, ok) => Val.arr [Val.ofNats p, Val.ofNats cyc, Val.bool ok]
        | none => Val.arr [Val.ofNats [], Val.ofNats [], Val.bool false]
      else Val.null
    pure (Val.arr [Val.str r.status.name, ofTab r.dist, nc])
  | "hop", [s] => do
    let s ← s.toNat?
    pure (ofTab (bellmanFord n (unitE E) s none).dist)
  | "fwref", [d] => do
    let d ← d.toBool?
    let E' := if d then E else symE E
    let runs := (List.range n).map fun i => bellmanFord n E' i none
    match (List.range n).find? (fun i => (bellmanFord n E' i none).status = .UNBOUNDED) with
    | some i =>
      let ok := match negCert n E' i with | some (_, _, ok) => ok | none => false
      pure (Val.arr [Val.bool true, Val.null, Val.bool ok])
    | none => pure (Val.arr [Val.bool false, ofMat (runs.map (·.dist)), Val.null])
  | "chk", [u, s, T, bound, path, cost] => do
    let u ← u.toBool?
    let s ← s.toNat?
    let T ← T.toNats?
    let bound ← bound.toOpt? Val.toInt?
    let path ← path.toOpt? Val.toNats?
    let cost ← cost.toOpt? Val.toInt?
    let E' := if u then unitE E else E
    let r := bellmanFord n E' s none
    let pot := r.dist
    let okRef := r.status != .UNBOUNDED
    let (dc, po, pc) := match path, cost with
      | some p, some c => (okRef && distCert E' s T pot p c, pathOK E' s T p c, pathCost E' p)
      | some p, none => (false, false, pathCost E' p)
      | _, _ => (false, false, none)
    let inf := okRef && (match bound with
      | none => unreachCert E' s T (finiteNodes pot)
      | some b => lowerCert E' s T pot (b + 1))
    let ends : Bool := match path with
      | some p => p.head? == some s && (match p.getLast? with | some l => T.contains l | none => false)
      | none => false
    pure (Val.arr [Val.bool dc, Val.bool po, ofOInt pc, Val.bool inf, Val.bool ends])
  | "refd", [s, delta] => do
    -- the Bellman-Ford model on weights lowered by `delta`: UNBOUNDED iff a reachable cycle of `k` edges weighs < k*delta
    let s ← s.toNat?
    let delta ← delta.toInt?
    pure (Val.str (bellmanFord n (E.map fun e => (e.1, e.2.1, e.2.2 - delta)) s none).status.name)
  | "fwrefd", [d, delta] => do
    let d ← d.toBool?
    let delta ← delta.toInt?
    let E' := (if d then E else symE E).map fun e => (e.1, e.2.1, e.2.2 - delta)
    pure (Val.bool ((List.range n).any fun i => (bellmanFord n E' i none).status = .UNBOUNDED))
  | "feas", [d, slack, dist] => do
    -- verified checker `feasible` on weights raised by `slack` (potential condition within a tolerance)
    let d ← d.toBool?
    let slack ← slack.toInt?
    let dist ← dist.toArr?
    let dist ← dist.mapM (Val.toOpt? Val.toInt?)
    let E' := (if d then E else symE E).map fun e => (e.1, e.2.1, e.2.2 + slack)
    pure (Val.bool (feasible E' dist))
  | "dijkstra", [s, T, mi, mc] => do
    let s ← s.toNat?
    let T ← T.toNats?
    let mi ← natOr mi Solvor.Gen.Path.dijkstraMaxIter
    let mc ← mc.toOpt? Val.toInt?
    let r := dijkstra n E s T mi mc
    pure (hReply n E s T mc [] r)
  | "astar", [s, T, h, wn, wd, mi, mc] => do
    let s ← s.toNat?
    let T ← T.toNats?
    let h ← h.toInts?
    let wn ← wn.toInt?
    let wd ← wd.toInt?
    let mi ← natOr mi Solvor.Gen.Path.astarMaxIter
    let mc ← mc.toOpt? Val.toInt?
    let r := astar n E s T h wn wd mi mc
    pure (hReply n E s T mc h r)
  | "bfs", [s, T, mi] => do
    let s ← s.toNat?
    let T ← T.toOpt? Val.toNats?
    let mi ← natOr mi Solvor.Gen.Path.bfsMaxIter
    pure (sReply n E s T (bfs n E s (T.getD []) T.isNone mi))
  | "dfs", [s, T, mi] => do
    let s ← s.toNat?
    let T ← T.toOpt? Val.toNats?
    let mi ← natOr mi Solvor.Gen.Path.dfsMaxIter
    pure (sReply n E s T (dfs n E s (T.getD []) T.isNone mi))
  | "bf", [s, t] => do
    let s ← s.toNat?
    let t ← t.toOpt? Val.toNat?
    let r := bellmanFord n E s t
    pure (Val.arr [Val.str r.status.name, ofTab r.dist, ofPath r.path, ofOInt r.cost,
      Val.int (bfCount E (n - 1) (bfInit n s) 0)])
  | "fw", [d] => do
    let d ← d.toBool?
    let r := floydWarshall n E d
    pure (Val.arr [Val.str r.status.name, Val.ofOpt ofMat r.mat])
  | "dall", [s] => do
    let s ← s.toNat?
    pure (Val.ofOpt ofTab (dijkstraAll n E s))
  | _, _ => none
where
  hReply (n : Nat) (E : List (Edge Int)) (s : Nat) (T : List Nat) (mc : Option Int) (h : List Int) (r : HRes Int) : Val :=
    let cert : Val := match r.status, r.path, r.cost with
      | .OPTIMAL, some p, some c => Val.bool (distCert E s T (astarPot n r.g h c) p c)
      | .FEASIBLE, some p, some c => Val.bool (pathOK E s T p c)
      | .INFEASIBLE, _, _ => if mc.isNone then Val.bool (unreachCert E s T r.closed) else Val.null
      | _, _, _ => Val.null
    Val.arr [Val.str r.status.name, ofPath r.path, ofOInt r.cost, Val.int r.rerelax, cert, Val.bool r.fuelOut]
  sReply (_n : Nat) (E : List (Edge Int)) (s : Nat) (T : Option (List Nat)) (r : SRes) : Val :=
    let E1 := unitE E
    let cert : Val := match r.status, r.path, r.cost, T with
      | .INFEASIBLE, _, _, some T => Val.bool (unreachCert E1 s T r.visited)
      | _, some p, some c, some T => Val.bool (pathOK E1 s T p (c : Int))
      | _, _, _, none => Val.bool (r.visited.contains s)
      | _, _, _, _ => Val.null
    Val.arr [Val.str r.status.name, ofPath r.path, Val.ofOpt (fun (c : Nat) => Val.int c) r.cost,
      Val.ofNats (sortNats r.visited), cert]

def ofZ2 (x : Z2) : Val := Val.arr [Val.int x.a, Val.int x.b]

def tol : Rat := (1 : Rat) / 1000000000

/-- reply `[exStatus, exOpt|null, exPath|null, exCert|null, mStatus, mPath|null, mCostBits|null, mFuel,
  implPathCost|null, implEnds, implSumOK|null, implOptOK|null]` -/
def gridCase (args : List Val) : Option Val :=
  match args with
  | [rows, cols, cells, blocked, costs, scale, eight, sp, tp, hname, wn, wd, mi, ipath, icost] => do
    let rows ← rows.toNat?
    let cols ← cols.toNat?
    let cells ← cells.toIntss?
    let blocked ← blocked.toInts?
    let costs ← costs.toIntss?
    let costs ← costs.mapM fun r => match r with | [a, b] => some (a, b) | _ => none
    let scale ← scale.toNat?
    let eight ← eight.toBool?
    let sp ← sp.toNats?
    let tp ← tp.toNats?
    let hname ← hname.toStr?
    let wn ← wn.toInt?
    let wd ← wd.toInt?
    let mi ← natOr mi Solvor.Gen.Path.astarGridMaxIter
    let ipath ← ipath.toOpt? Val.toNatss?
    let icost ← icost.toOpt? Val.toRat?
    let G : Grid := ⟨rows, cols, cells, blocked, costs, scale, eight⟩
    let (s, t) ← match sp, tp with
      | [a, b], [c, d] => some (G.id a b, G.id c d)
      | _, _ => none
    let n := rows * cols
    let E := G.edgesZ2
    let ex := gridExact G s t
    let exCert : Val := match ex.status, ex.path, ex.cost with
      | .OPTIMAL, some p, some c => Val.bool (distCert E s [t] (cappedPotZ2 n ex.g c) p c)
      | .INFEASIBLE, _, _ => Val.bool (unreachCert E s [t] ex.closed)
      | _, _, _ => Val.null
    let m := gridFloat G s t hname (Float.ofInt wn / Float.ofInt wd) mi
    let cell (v : Nat) : Val := if cols = 0 then Val.ofNats [v, 0] else Val.ofNats [v / cols, v % cols]
    let pv (p : Option (List Nat)) : Val := Val.ofOpt (fun (l : List Nat) => Val.arr (l.map cell)) p
    let ip : Option (List Nat) := ipath.bind fun l => l.mapM fun rc => match rc with | [a, b] => some (G.id a b) | _ => none
    let ipc : Option Z2 := ip.bind (pathCost E)
    let ends : Bool := match ip with
      | some p => p.head? == some s && p.getLast? == some t
      | none => false
    let sumOK : Val := match ipc, icost with
      | some c, some q => Val.bool (withinTol q c scale tol)
      | _, _ => Val.null
    let optOK : Val := match ex.cost, icost with
      | some c, some q => Val.bool (withinTol q c scale tol)
      | _, _ => Val.null
    pure (Val.arr [Val.str ex.status.name, Val.ofOpt ofZ2 ex.cost, pv ex.path, exCert,
      Val.str m.status.name, pv m.path, Val.ofOpt (fun (c : Float) => Val.int c.toBits.toNat) m.cost, Val.bool m.fuelOut,
      Val.ofOpt ofZ2 ipc, Val.bool ends, sumOK, optOK])
  | _ => none

def handle (line : String) : String :=
  match request line with
  | some ("graph", [n, edges, queries]) =>
    match n.toNat?, toEdges edges, queries.toArr? with
    | some n, some E, some qs =>
      let rs := qs.map fun q =>
        match q with
        | Val.arr (Val.str cmd :: args) =>
          match subQuery n E cmd args with
          | some v => v
          | none => Val.arr [Val.str "error", Val.str ("bad query " ++ cmd)]
        | _ => Val.arr [Val.str "error", Val.str "bad query"]
      (Val.arr rs).render
    | _, _, _ => err "bad arguments"
  | some ("grid", args) =>
    match gridCase args with
    | some v => v.render
    | none => err "bad grid arguments"
  | _ => err "bad request"

end Solvor.Path
