import Solvor.Common.Proto
import Solvor.Path.Model
/-! Path: line-protocol handler. One request line in, one reply line out. -/
namespace Solvor.Path

def handle (line : String) : String := "unimplemented " ++ line

end Solvor.Path
