import Solvor.Path.Drive
def main : IO Unit := Solvor.Proto.serve Solvor.Path.handle
