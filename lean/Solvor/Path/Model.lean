/-! Path: executable models (no Mathlib imports). -/
namespace Solvor.Path

end Solvor.Path
