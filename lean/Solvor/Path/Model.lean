import Solvor.Gen.Kernels
/-!
Path: executable models of `solvor/bfs.py`, `dijkstra.py`, `a_star.py`, `bellman_ford.py`,
`floyd_warshall.py` and `utils/helpers.py: reconstruct_path` (property C11), plus the Bool
checkers of the specification side.  No Mathlib imports.

Conventions.  Nodes are `Nat` (the harness numbers the labels `0..n-1`).  A graph is its edge list
`List (Edge W)`, an edge is `(u, v, w)`; duplicates, self loops and any order are allowed and the
order is the order in which the callbacks / edge lists of the Python code present the edges.
Weights are generic (`W`): `Int` for all graph solvers (the harness scales dyadic rationals to
integers), `Z2` (pairs `(a, b) ≙ a + b·√2` with the exact order) for the grid optimum and `Float`
for the bit-level mirror of `astar_grid`.  `∞` is `none`.  Tables indexed by node are
`Tab α = List (Option α)` (a Python `dict`/list: `none` = key absent / `inf` / `-1`).
-/
namespace Solvor.Path
open Solvor.Gen (Status)

/-! ## Tables -/

abbrev Tab (α : Type) := List (Option α)

def look {α : Type} (t : Tab α) (i : Nat) : Option α := t.getD i none

def Tab.empty {α : Type} (n : Nat) : Tab α := List.replicate n none

/-! ## Graphs, walks, specification-side checkers -/

abbrev Edge (W : Type) := Nat × Nat × W

/-- The callback `neighbors(u)` the harness hands to the Python code: targets (and weights) of the
edges leaving `u`, in edge-list order. -/
def adjOf {W : Type} (E : List (Edge W)) (u : Nat) : List (Nat × W) :=
  E.filterMap fun e => if e.1 = u then some (e.2.1, e.2.2) else none

/-- the unweighted graph: every edge with weight 1 (walk weight = number of edges) -/
def unitE {W : Type} (E : List (Edge W)) : List (Edge Int) := E.map fun e => (e.1, e.2.1, 1)

/-- unweighted view -/
def succOf {W : Type} (E : List (Edge W)) (u : Nat) : List Nat := (adjOf E u).map (·.1)

/-- `Walk E u t c`: there is a walk from `u` to `t` along edges of `E` whose weights sum to `c`. -/
inductive Walk {W : Type} [Add W] [Zero W] (E : List (Edge W)) : Nat → Nat → W → Prop
  | nil (u : Nat) : Walk E u u 0
  | cons {u v t : Nat} {w c : W} : (u, v, w) ∈ E → Walk E v t c → Walk E u t (w + c)

def Reach {W : Type} [Add W] [Zero W] (E : List (Edge W)) (s t : Nat) : Prop := ∃ c, Walk E s t c

/-- `c` is the shortest-path distance from `s` to `t`. -/
def IsDist {W : Type} [Add W] [Zero W] [LE W] (E : List (Edge W)) (s t : Nat) (c : W) : Prop :=
  Walk E s t c ∧ ∀ c', Walk E s t c' → c ≤ c'

/-- `c` is the least distance from `s` to a node of the goal set `T`. -/
def IsGoalDist {W : Type} [Add W] [Zero W] [LE W] (E : List (Edge W)) (s : Nat) (T : List Nat)
    (c : W) : Prop :=
  (∃ t ∈ T, Walk E s t c) ∧ ∀ t ∈ T, ∀ c', Walk E s t c' → c ≤ c'

section checkers
variable {W : Type} [Add W] [Zero W] [LE W] [DecidableLE W] [DecidableEq W]

/-- one step of the scan for the least weight among the parallel edges `u → v` -/
def edgeCostStep (u v : Nat) (acc : Option W) (e : Edge W) : Option W :=
  if e.1 = u ∧ e.2.1 = v then
    match acc with
    | none => some e.2.2
    | some m => if e.2.2 ≤ m then some e.2.2 else some m
  else acc

/-- least weight among the parallel edges `u → v` (`none`: no such edge) -/
def edgeCost (E : List (Edge W)) (u v : Nat) : Option W := E.foldl (edgeCostStep u v) none

/-- Weight of a node path (cheapest parallel edge at every step); `none` if a step is not an edge
or the path is empty. -/
def pathCost (E : List (Edge W)) : List Nat → Option W
  | [] => none
  | [_] => some 0
  | u :: v :: rest =>
    match edgeCost E u v, pathCost E (v :: rest) with
    | some w, some c => some (w + c)
    | _, _ => none

/-- `d` is a feasible potential: along every edge out of a node with a finite value the value
grows by at most the edge weight (in particular the head's value is finite). -/
def feasible (E : List (Edge W)) (d : Tab W) : Bool :=
  E.all fun e =>
    match look d e.1 with
    | none => true
    | some a =>
      match look d e.2.1 with
      | none => false
      | some b => decide (b ≤ a + e.2.2)

/-- `S` contains every head of an edge whose tail is in `S`. -/
def closedUnder (E : List (Edge W)) (S : List Nat) : Bool :=
  E.all fun e => !S.contains e.1 || S.contains e.2.1

/-- Certificate for "no goal node is reachable": a closed set containing `s` and no goal. -/
def unreachCert (E : List (Edge W)) (s : Nat) (T : List Nat) (S : List Nat) : Bool :=
  S.contains s && closedUnder E S && T.all fun t => !S.contains t

/-- The path starts at `s`, ends in `T`, uses existing edges and its weights sum to `cost`. -/
def pathOK (E : List (Edge W)) (s : Nat) (T : List Nat) (path : List Nat) (cost : W) : Bool :=
  path.head? == some s && (match path.getLast? with | some l => T.contains l | none => false) &&
    pathCost E path == some cost

/-- Certificate for "every walk from `s` to a goal of `T` weighs at least `c`": a feasible
potential that is 0 at `s` and at least `c` (or infinite) on every goal. -/
def lowerCert (E : List (Edge W)) (s : Nat) (T : List Nat) (pot : Tab W) (c : W) : Bool :=
  feasible E pot && look pot s == some 0 &&
    (T.all fun t => match look pot t with | none => true | some b => decide (c ≤ b))

/-- Certificate for "`cost` is the least distance from `s` to the goal set `T` and `path`
realises it". -/
def distCert (E : List (Edge W)) (s : Nat) (T : List Nat) (pot : Tab W) (path : List Nat)
    (cost : W) : Bool :=
  lowerCert E s T pot cost && pathOK E s T path cost

end checkers

/-- Certificate for "a negative cycle is reachable from `s`": a path from `s` to `x` and a closed
path through `x` of negative weight. -/
def negCycleCert (E : List (Edge Int)) (s : Nat) (p cyc : List Nat) : Bool :=
  p.head? == some s && (pathCost E p).isSome && p.getLast? == cyc.head? &&
    cyc.head? == cyc.getLast? && cyc.head?.isSome &&
    (match pathCost E cyc with | some c => decide (c < 0) | none => false)

/-! ## `reconstruct_path` -/

/-- `reconstruct_path(parent, current)`: follow `parent` while the key is present.  The Python
loop has no bound; the mirror stops after `fuel` steps with `none` (= the loop would still be
running; never observed, see `recon_chain` for the searches). -/
def recon (parent : Tab Nat) : Nat → Nat → List Nat → Option (List Nat)
  | 0, _, _ => none
  | fuel + 1, cur, acc =>
    match look parent cur with
    | none => some (cur :: acc)
    | some p => recon parent fuel p (cur :: acc)

/-! ## BFS / DFS (`solvor/bfs.py`) -/

structure SSt where
  visited : List Nat       -- newest first
  parent  : Tab Nat
  frontier : List Nat      -- BFS: queue, head = next to pop; DFS: stack, head = top
  deriving Repr

inductive SOut where
  | found (cur : Nat) (st : SSt)
  | exhausted (st : SSt)        -- `while` left because the frontier is empty
  | cutoff (st : SSt)           -- `iterations >= max_iter`

/-- the body of `for neighbor in neighbors(current)` (BFS: append to the queue) -/
def bfsDiscover (cur : Nat) (st : SSt) (nb : Nat) : SSt :=
  if st.visited.contains nb then st
  else ⟨nb :: st.visited, st.parent.set nb (some cur), st.frontier ++ [nb]⟩

/-- DFS: push on the stack -/
def dfsDiscover (cur : Nat) (st : SSt) (nb : Nat) : SSt :=
  if st.visited.contains nb then st
  else ⟨nb :: st.visited, st.parent.set nb (some cur), nb :: st.frontier⟩

/-- `while queue and iterations < max_iter`: the fuel is `max_iter - iterations`. -/
def searchLoop (disc : Nat → SSt → Nat → SSt) (succ : Nat → List Nat) (isGoal : Nat → Bool) :
    Nat → SSt → SOut
  | 0, st => .cutoff st
  | k + 1, st =>
    match st.frontier with
    | [] => .exhausted st
    | cur :: rest =>
      if isGoal cur then .found cur { st with frontier := rest }
      else searchLoop disc succ isGoal k ((succ cur).foldl (disc cur) { st with frontier := rest })

def searchInit (n s : Nat) : SSt := ⟨[s], Tab.empty n, [s]⟩

def bfsRun (n : Nat) (succ : Nat → List Nat) (s : Nat) (isGoal : Nat → Bool) (maxIter : Nat) : SOut :=
  searchLoop bfsDiscover succ isGoal maxIter (searchInit n s)

def dfsRun (n : Nat) (succ : Nat → List Nat) (s : Nat) (isGoal : Nat → Bool) (maxIter : Nat) : SOut :=
  searchLoop dfsDiscover succ isGoal maxIter (searchInit n s)

/-- What `bfs`/`dfs` return. `path` is `reconstruct_path`'s list, `cost = len(path) - 1`;
`visited` is the returned set when `goal is None`. -/
structure SRes where
  status  : Status
  path    : Option (List Nat)
  cost    : Option Nat
  visited : List Nat
  deriving Repr

/-- `okStatus` = OPTIMAL for bfs, FEASIBLE for dfs; `goalNone` = the `goal is None` mode. -/
def searchResult (okStatus : Status) (goalNone : Bool) : SOut → SRes
  | .found cur st =>
    match recon st.parent st.visited.length cur [] with
    | some p => ⟨okStatus, some p, some (p.length - 1), st.visited⟩
    | none => ⟨okStatus, none, none, st.visited⟩          -- reconstruct_path would not return
  | .exhausted st => if goalNone then ⟨.OPTIMAL, none, none, st.visited⟩ else ⟨.INFEASIBLE, none, none, st.visited⟩
  | .cutoff st => if goalNone then ⟨.OPTIMAL, none, none, st.visited⟩ else ⟨.MAX_ITER, none, none, st.visited⟩

def bfs {W : Type} (n : Nat) (E : List (Edge W)) (s : Nat) (T : List Nat) (goalNone : Bool) (maxIter : Nat) : SRes :=
  searchResult .OPTIMAL goalNone (bfsRun n (succOf E) s (fun v => !goalNone && T.contains v) maxIter)

def dfs {W : Type} (n : Nat) (E : List (Edge W)) (s : Nat) (T : List Nat) (goalNone : Bool) (maxIter : Nat) : SRes :=
  searchResult .FEASIBLE goalNone (dfsRun n (succOf E) s (fun v => !goalNone && T.contains v) maxIter)

/-! ## Bellman-Ford (`solvor/bellman_ford.py`) -/

structure BFSt where
  dist : Tab Int
  par  : Tab Nat
  deriving Repr

/-- `dist[u] != inf and dist[u] + w < dist[v]` -/
def relaxable (dist : Tab Int) (e : Edge Int) : Bool :=
  match look dist e.1 with
  | none => false
  | some du =>
    match look dist e.2.1 with
    | none => true
    | some dv => decide (du + e.2.2 < dv)

def relax (st : BFSt) (e : Edge Int) : BFSt :=
  match look st.dist e.1 with
  | none => st
  | some du => ⟨st.dist.set e.2.1 (some (du + e.2.2)), st.par.set e.2.1 (some e.1)⟩

/-- one pass over the edge list; the flag is `updated` -/
def bfRound (E : List (Edge Int)) (st : BFSt) : BFSt × Bool :=
  E.foldl (fun (acc : BFSt × Bool) e => if relaxable acc.1.dist e then (relax acc.1 e, true) else acc) (st, false)

/-- `for _ in range(n_nodes - 1)` with the `if not updated: break` -/
def bfRounds (E : List (Edge Int)) : Nat → BFSt → BFSt
  | 0, st => st
  | k + 1, st =>
    let r := bfRound E st
    if r.2 then bfRounds E k r.1 else r.1

def bfInit (n s : Nat) : BFSt := ⟨(Tab.empty n).set s (some 0), Tab.empty n⟩

/-- `_reconstruct_indexed`: follow `parent` until `-1` -/
def reconIdx (par : Tab Nat) : Nat → Nat → List Nat → Option (List Nat) := recon par

structure BFRes where
  status : Status
  dist   : Tab Int                 -- final `dist` list (all nodes); meaningful unless UNBOUNDED
  par    : Tab Nat
  path   : Option (List Nat)       -- target mode, reachable target
  cost   : Option Int
  deriving Repr

/-- following `parent` from `v` reaches `-1` within `fuel` steps -/
def chainEnds (par : Tab Nat) : Nat → Nat → Bool
  | 0, _ => false
  | fuel + 1, v => match look par v with | none => true | some p => chainEnds par fuel p

/-- `_has_parent_cycle(parent)`: from some node the predecessor pointers never reach `-1` (on `n` nodes:
not within `n` steps).  The Python helper decides the same predicate with a three-colour walk. -/
def hasParCycle (n : Nat) (par : Tab Nat) : Bool := (List.range n).any fun v => !chainEnds par n v

/-- the detection round, the predecessor-cycle guard and the construction of the result -/
def bfFinish (n : Nat) (E : List (Edge Int)) (st : BFSt) (target : Option Nat) : BFRes :=
  if E.any (relaxable st.dist) then ⟨.UNBOUNDED, st.dist, st.par, none, none⟩
  else if hasParCycle n st.par then ⟨.UNBOUNDED, st.dist, st.par, none, none⟩
  else
    match target with
    | none => ⟨.OPTIMAL, st.dist, st.par, none, none⟩
    | some t =>
      match look st.dist t with
      | none => ⟨.INFEASIBLE, st.dist, st.par, none, none⟩
      | some c => ⟨.OPTIMAL, st.dist, st.par, reconIdx st.par (n + 1) t [], some c⟩

def bellmanFord (n : Nat) (E : List (Edge Int)) (s : Nat) (target : Option Nat) : BFRes :=
  bfFinish n E (bfRounds E (n - 1) (bfInit n s)) target

/-- Negative-cycle extraction for the UNBOUNDED verdict (model side only: the code returns no
cycle).  Relax the first relaxable edge once more, walk `n` parent steps back from its head to land
on a cycle of the parent graph, then collect that cycle. -/
def walkBack (par : Tab Nat) : Nat → Nat → Nat
  | 0, v => v
  | k + 1, v => match look par v with | none => v | some p => walkBack par k p

def collectCycle (par : Tab Nat) (x : Nat) : Nat → Nat → List Nat → Option (List Nat)
  | 0, _, _ => none
  | k + 1, v, acc =>
    match look par v with
    | none => none
    | some p => if p = x then some (x :: v :: acc) else collectCycle par x k p (v :: acc)

def negCycleOf (n : Nat) (E : List (Edge Int)) (st : BFSt) : Option (List Nat) :=
  match E.find? (relaxable st.dist) with
  | none => none
  | some e =>
    let st' := relax st e
    let x := walkBack st'.par n e.2.1
    match collectCycle st'.par x (n + 1) x [] with
    | some c => some c
    | none => none

/-! ## Floyd-Warshall (`solvor/floyd_warshall.py`) -/

abbrev Mat := List (List (Option Int))

def Mat.get (m : Mat) (i j : Nat) : Option Int := List.getD (List.getD m i []) j none
def Mat.set (m : Mat) (i j : Nat) (v : Option Int) : Mat := List.set m i (List.set (List.getD m i []) j v)

/-- `a + b < c` on floats with `inf` -/
def optAddLt (a b c : Option Int) : Bool :=
  match a, b with
  | some x, some y => (match c with | none => true | some z => decide (x + y < z))
  | _, _ => false

def optAdd (a b : Option Int) : Option Int :=
  match a, b with
  | some x, some y => some (x + y)
  | _, _ => none

/-- `dist[u][v] = min(dist[u][v], w)` -/
def fwPut (m : Mat) (u v : Nat) (w : Int) : Mat :=
  match m.get u v with
  | none => m.set u v (some w)
  | some x => if w < x then m.set u v (some w) else m

/-- the edge list with every edge also reversed (`directed=False`) -/
def symE (E : List (Edge Int)) : List (Edge Int) := E.flatMap fun e => [e, (e.2.1, e.1, e.2.2)]

def fwInit (n : Nat) (E : List (Edge Int)) (directed : Bool) : Mat :=
  let m0 : Mat := (List.range n).map fun i => (List.range n).map fun j => if i = j then some 0 else none
  E.foldl (fun m e =>
    let m := fwPut m e.1 e.2.1 e.2.2
    if directed then m else fwPut m e.2.1 e.1 e.2.2) m0

/-- `if dist[i][k] + dist[k][j] < dist[i][j]: dist[i][j] = dist[i][k] + dist[k][j]` -/
def fwRelax (m : Mat) (k i j : Nat) : Mat :=
  if optAddLt (m.get i k) (m.get k j) (m.get i j) then m.set i j (optAdd (m.get i k) (m.get k j)) else m

def fwLoop (n : Nat) (m : Mat) : Mat :=
  (List.range n).foldl (fun m k =>
    (List.range n).foldl (fun m i =>
      (List.range n).foldl (fun m j => fwRelax m k i j) m) m) m

structure FWRes where
  status : Status
  mat    : Option Mat

def floydWarshall (n : Nat) (E : List (Edge Int)) (directed : Bool) : FWRes :=
  let m := fwLoop n (fwInit n E directed)
  if (List.range n).any (fun i => match m.get i i with | some x => decide (x < 0) | none => false)
  then ⟨.UNBOUNDED, none⟩ else ⟨.OPTIMAL, some m⟩

/-! ## Dijkstra and A* (`solvor/dijkstra.py`, `solvor/a_star.py`) -/

/-- The arithmetic the searches need, so that one mirror serves `Int`, `Z2` and `Float`. -/
structure Num (W : Type) where
  add  : W → W → W
  lt   : W → W → Bool
  zero : W

structure HSt (W : Type) where
  g       : Tab W
  parent  : Tab Nat
  closed  : List Nat
  heap    : List (W × W × Nat × Nat)      -- (f, g, counter, node); Dijkstra: f = g
  counter : Nat
  iters   : Nat
  rerelax : Nat                            -- relaxations that improved an already known `g`

inductive HOut (W : Type) where
  | found (cur : Nat) (st : HSt W)
  | infeasible (st : HSt W)
  | maxIter (st : HSt W)
  | fuel                                    -- model fuel exhausted (never: pops ≤ pushes ≤ |E| + 1)

/-- `heappop` on tuples `(f, -g, counter, node)`: least `f`, then largest `g`, then least
counter (counters are unique, so nodes are never compared). -/
def keyLt {W : Type} (N : Num W) (a b : W × W × Nat × Nat) : Bool :=
  N.lt a.1 b.1 || (!N.lt b.1 a.1 && (N.lt b.2.1 a.2.1 || (!N.lt a.2.1 b.2.1 && a.2.2.1 < b.2.2.1)))

def popMin {W : Type} (N : Num W) : List (W × W × Nat × Nat) → Option ((W × W × Nat × Nat) × List (W × W × Nat × Nat))
  | [] => none
  | x :: xs =>
    match popMin N xs with
    | none => some (x, [])
    | some (m, rest) => if keyLt N m x then some (m, x :: rest) else some (x, xs)

/-- body of `for neighbor, edge_cost in neighbors(current)`; `fOf g v` is the heap key
(`g` for Dijkstra, `g + weight * h(v)` for A*) -/
def hRelax {W : Type} (N : Num W) (fOf : W → Nat → W) (cur : Nat) (gcur : W) (st : HSt W) (nb : Nat × W) : HSt W :=
  if st.closed.contains nb.1 then st
  else
    let tg := N.add gcur nb.2
    let better := match look st.g nb.1 with | none => true | some old => N.lt tg old
    if better then
      { st with g := st.g.set nb.1 (some tg), parent := st.parent.set nb.1 (some cur),
                heap := (fOf tg nb.1, tg, st.counter, nb.1) :: st.heap, counter := st.counter + 1,
                rerelax := st.rerelax + (if (look st.g nb.1).isSome then 1 else 0) }
    else st

/-- `iterations += 1; closed.add(current)` (the popped entry already removed from the heap) -/
def hClose {W : Type} (st : HSt W) (cur : Nat) (rest : List (W × W × Nat × Nat)) : HSt W :=
  { st with heap := rest, iters := st.iters + 1, closed := cur :: st.closed }

/-- `g[current]` (the popped `g` if the table has no entry: never the case) -/
def gOf {W : Type} (st : HSt W) (cur : Nat) (gc : W) : W :=
  match look st.g cur with | some x => x | none => gc

/-- `max_cost is not None and g[current] > max_cost` -/
def pruned {W : Type} (N : Num W) (maxCost : Option W) (gcur : W) : Bool :=
  match maxCost with | some m => N.lt m gcur | none => false

/-- `while heap and iterations < max_iter` of `dijkstra` / `astar` (the two differ in the heap key
only: for Dijkstra the popped `cost` equals `g[current]`).  The `max_cost` test comes before the
goal test (the repaired order, see proposed_fixes/C11_max_cost.md). -/
def hLoop {W : Type} (N : Num W) (adj : Nat → List (Nat × W)) (fOf : W → Nat → W) (isGoal : Nat → Bool)
    (maxIter : Nat) (maxCost : Option W) : Nat → HSt W → HOut W
  | 0, _ => .fuel
  | fuel + 1, st =>
    if st.iters < maxIter then
      match popMin N st.heap with
      | none => .infeasible st
      | some (e, rest) =>
        if st.closed.contains e.2.2.2 then hLoop N adj fOf isGoal maxIter maxCost fuel { st with heap := rest }
        else if pruned N maxCost (gOf (hClose st e.2.2.2 rest) e.2.2.2 e.2.1) then
          hLoop N adj fOf isGoal maxIter maxCost fuel (hClose st e.2.2.2 rest)
        else if isGoal e.2.2.2 then .found e.2.2.2 (hClose st e.2.2.2 rest)
        else hLoop N adj fOf isGoal maxIter maxCost fuel
          ((adj e.2.2.2).foldl (hRelax N fOf e.2.2.2 (gOf (hClose st e.2.2.2 rest) e.2.2.2 e.2.1)) (hClose st e.2.2.2 rest))
    else .maxIter st

structure HRes (W : Type) where
  status  : Status
  path    : Option (List Nat)
  cost    : Option W
  g       : Tab W
  closed  : List Nat
  rerelax : Nat
  fuelOut : Bool

def hInit {W : Type} (N : Num W) (n : Nat) (fOf : W → Nat → W) (s : Nat) : HSt W :=
  ⟨(Tab.empty n).set s (some N.zero), Tab.empty n, [], [(fOf N.zero s, N.zero, 0, s)], 1, 0, 0⟩

/-- what `dijkstra` / `astar` return -/
def hResult {W : Type} (n : Nat) (okStatus : Status) : HOut W → HRes W
  | .found cur st => ⟨okStatus, recon st.parent (n + 1) cur [], look st.g cur, st.g, st.closed, st.rerelax, false⟩
  | .infeasible st => ⟨.INFEASIBLE, none, none, st.g, st.closed, st.rerelax, false⟩
  | .maxIter st => ⟨.MAX_ITER, none, none, st.g, st.closed, st.rerelax, false⟩
  | .fuel => ⟨.MAX_ITER, none, none, [], [], 0, true⟩

def hSearch {W : Type} (N : Num W) (n nEdges : Nat) (adj : Nat → List (Nat × W)) (fOf : W → Nat → W)
    (s : Nat) (isGoal : Nat → Bool) (maxIter : Nat) (maxCost : Option W) (okStatus : Status) : HRes W :=
  hResult n okStatus (hLoop N adj fOf isGoal maxIter maxCost (nEdges + 2) (hInit N n fOf s))

def intNum : Num Int := ⟨(· + ·), fun a b => decide (a < b), 0⟩

def dijkstra (n : Nat) (E : List (Edge Int)) (s : Nat) (T : List Nat) (maxIter : Nat) (maxCost : Option Int) : HRes Int :=
  hSearch intNum n E.length (adjOf E) (fun g _ => g) s T.contains maxIter maxCost .OPTIMAL

/-- `astar` with `weight = wnum / wden` (`wden > 0`) and heuristic table `h` (scaled like the
weights).  Heap keys are compared after multiplying by `wden`; `max_cost` is scaled the same. -/
def astar (n : Nat) (E : List (Edge Int)) (s : Nat) (T : List Nat) (h : List Int) (wnum wden : Int)
    (maxIter : Nat) (maxCost : Option Int) : HRes Int :=
  hSearch intNum n E.length (adjOf E) (fun g v => wden * g + wnum * h.getD v 0) s T.contains maxIter maxCost
    (if wnum = wden then .OPTIMAL else .FEASIBLE)

/-- The potential the Dijkstra / A* mirror hands to `distCert` when it stops at a goal of cost
`c` with heuristic `h` (`h = 0` for Dijkstra): `min (g v) (c - h v)` (`c - h v` where `g` is
unknown).  It is Dijkstra's capped `g` map on the reduced weights `w + h v - h u`. -/
def astarPot (n : Nat) (g : Tab Int) (h : List Int) (c : Int) : Tab Int :=
  (List.range n).map fun v =>
    let b := c - h.getD v 0
    match look g v with | some x => some (if x < b then x else b) | none => some b

/-- `dijkstra_edges(..., target=None)`: the lazy-deletion loop with `(dist, node)` heap entries
(ties on `dist` are broken by the node index). -/
def deLoop (adj : Nat → List (Nat × Int)) : Nat → Tab Int → List (Int × Nat) → Option (Tab Int)
  | 0, _, _ => none
  | fuel + 1, dist, heap =>
    match heap with
    | [] => some dist
    | x :: xs =>
      let m := xs.foldl (fun m y => if y.1 < m.1 || (y.1 == m.1 && y.2 < m.2) then y else m) x
      let rest := (x :: xs).erase m
      if (match look dist m.2 with | some d => decide (m.1 > d) | none => false) then deLoop adj fuel dist rest
      else
        let (dist, heap) := (adj m.2).foldl (fun (acc : Tab Int × List (Int × Nat)) nb =>
          let nd := m.1 + nb.2
          if (match look acc.1 nb.1 with | some d => decide (nd < d) | none => true)
          then (acc.1.set nb.1 (some nd), (nd, nb.1) :: acc.2) else acc) (dist, rest)
        deLoop adj fuel dist heap

def dijkstraAll (n : Nat) (E : List (Edge Int)) (s : Nat) : Option (Tab Int) :=
  deLoop (adjOf E) (E.length + 2) ((Tab.empty n).set s (some 0)) [(0, s)]

/-! ## `ℤ[√2]` with its exact order, grids (`astar_grid`) -/

/-- `(a, b) ≙ a + b·√2` -/
structure Z2 where
  a : Int
  b : Int
  deriving DecidableEq, Repr

namespace Z2
instance : Add Z2 := ⟨fun x y => ⟨x.a + y.a, x.b + y.b⟩⟩
instance : Zero Z2 := ⟨⟨0, 0⟩⟩
/-- `0 ≤ a + b√2`, decided by squaring -/
def nonneg (x : Z2) : Bool :=
  if 0 ≤ x.a then (if 0 ≤ x.b then true else decide (2 * (x.b * x.b) ≤ x.a * x.a))
  else (if 0 ≤ x.b then decide (x.a * x.a ≤ 2 * (x.b * x.b)) else false)
def le (x y : Z2) : Bool := nonneg ⟨y.a - x.a, y.b - x.b⟩
def lt (x y : Z2) : Bool := le x y && x != y
instance : LE Z2 := ⟨fun x y => le x y = true⟩
instance : DecidableLE Z2 := fun x y => inferInstanceAs (Decidable (le x y = true))
def num : Num Z2 := ⟨(· + ·), lt, 0⟩
end Z2

/-- `y ≤ b·√2` for a rational `y` -/
def ratLeSqrt2 (y : Rat) (b : Int) : Bool :=
  if 0 ≤ b then decide (y ≤ 0) || decide (y * y ≤ 2 * (b * b : Int))
  else decide (y ≤ 0) && decide ((2 * (b * b : Int) : Rat) ≤ y * y)

/-- `b·√2 ≤ y` -/
def sqrt2LeRat (b : Int) (y : Rat) : Bool :=
  if 0 ≤ b then decide (0 ≤ y) && decide ((2 * (b * b : Int) : Rat) ≤ y * y)
  else decide (0 ≤ y) || decide (y * y ≤ 2 * (b * b : Int))

/-- `|cost - (a + b√2)/scale| ≤ tol·(1 + cost)`, exactly -/
def withinTol (cost : Rat) (opt : Z2) (scale : Nat) (tol : Rat) : Bool :=
  let x := cost * scale - opt.a
  let t := tol * (1 + cost) * scale
  ratLeSqrt2 (x - t) opt.b && sqrt2LeRat opt.b (x + t)

/-- `_DIRS_8` / `_DIRS_4` of `a_star.py` in their `itertools.product` order. -/
def dirs8 : List (Int × Int) := [(-1, -1), (-1, 0), (-1, 1), (0, -1), (0, 1), (1, -1), (1, 0), (1, 1)]
def dirs4 : List (Int × Int) := [(-1, 0), (0, -1), (0, 1), (1, 0)]

structure Grid where
  rows : Nat
  cols : Nat
  cells : List (List Int)
  blocked : List Int
  costs : List (Int × Int)       -- cell value ↦ scaled cost (`cost_map`); default = `scale`
  scale : Int
  eight : Bool

def Grid.cell (G : Grid) (r c : Nat) : Int := (G.cells.getD r []).getD c 0
def Grid.id (G : Grid) (r c : Nat) : Nat := r * G.cols + c

/-- the generator `neighbors(pos)`: `(cell id, base cost scaled, diagonal?)` in direction order -/
def Grid.nbrs (G : Grid) (v : Nat) : List (Nat × Int × Bool) :=
  if G.cols = 0 then [] else
  let r : Int := (v / G.cols : Nat)
  let c : Int := (v % G.cols : Nat)
  (if G.eight then dirs8 else dirs4).filterMap fun d =>
    let nr := r + d.1
    let nc := c + d.2
    if 0 ≤ nr ∧ nr < G.rows ∧ 0 ≤ nc ∧ nc < G.cols then
      let cell := G.cell nr.toNat nc.toNat
      if G.blocked.contains cell then none
      else
        let base := match G.costs.find? (·.1 == cell) with | some p => p.2 | none => G.scale
        some (G.id nr.toNat nc.toNat, base, d.1 != 0 && d.2 != 0)
    else none

/-- the grid as an edge list over `ℤ[√2]` (straight step `(base, 0)`, diagonal `(0, base)`) -/
def Grid.edgesZ2 (G : Grid) : List (Edge Z2) :=
  (List.range (G.rows * G.cols)).flatMap fun v =>
    (G.nbrs v).map fun nb => (v, nb.1, if nb.2.2 then (⟨0, nb.2.1⟩ : Z2) else ⟨nb.2.1, 0⟩)

/-- the neighbour generator with `ℤ[√2]` weights (= `adjOf G.edgesZ2`, without scanning the edge list) -/
def Grid.adjZ2 (G : Grid) (v : Nat) : List (Nat × Z2) :=
  (G.nbrs v).map fun nb => (nb.1, if nb.2.2 then (⟨0, nb.2.1⟩ : Z2) else ⟨nb.2.1, 0⟩)

/-- exact optimum: Dijkstra over `ℤ[√2]` (A* mirror with `h = 0`), no cut-offs; its answer is
certificate-checked against `G.edgesZ2` by the driver -/
def gridExact (G : Grid) (s t : Nat) : HRes Z2 :=
  let n := G.rows * G.cols
  hSearch Z2.num n (8 * n) G.adjZ2 (fun g _ => g) s (· == t) (8 * n + 2) none .OPTIMAL

/-- potential for the grid certificate -/
def cappedPotZ2 (n : Nat) (g : Tab Z2) (c : Z2) : Tab Z2 :=
  (List.range n).map fun v => match look g v with | some x => some (if Z2.lt x c then x else c) | none => some c

def floatNum : Num Float := ⟨(· + ·), fun a b => decide (a < b), 0.0⟩

/-- The built-in heuristics, on floats exactly as written in `astar_grid` (`dr, dc` are Python
ints; `** 0.5` is taken to be `sqrt`, which the harness checks on the values that occur). -/
def gridH (name : String) (dr dc : Nat) : Float :=
  let mx := Nat.max dr dc
  let mn := Nat.min dr dc
  match name with
  | "euclidean" => Float.sqrt (Float.ofNat (dr * dr + dc * dc))
  | "octile" => Float.ofNat mx + (Float.sqrt 2.0 - 1.0) * Float.ofNat mn
  | "chebyshev" => Float.ofNat mx
  | _ => Float.ofNat (dr + dc)

/-- Bit-level mirror of `astar_grid` (floats: Lean's `Float` is CPython's double). -/
def gridFloat (G : Grid) (s t : Nat) (hname : String) (weight : Float) (maxIter : Nat) : HRes Float :=
  let n := G.rows * G.cols
  let sc := Float.ofInt G.scale
  let adj : Nat → List (Nat × Float) := fun v =>
    (G.nbrs v).map fun nb =>
      let base := Float.ofInt nb.2.1 / sc
      (nb.1, if nb.2.2 then base * Float.sqrt 2.0 else base)
  let h : Nat → Float := fun v =>
    if G.cols = 0 then 0.0 else
    let dr := Int.natAbs (Int.ofNat (v / G.cols) - Int.ofNat (t / G.cols))
    let dc := Int.natAbs (Int.ofNat (v % G.cols) - Int.ofNat (t % G.cols))
    gridH (if hname = "auto" then (if G.eight then "octile" else "manhattan") else hname) dr dc
  hSearch floatNum n (8 * n) adj (fun g v => g + weight * h v) s (· == t) maxIter none
    (if weight == 1.0 then .OPTIMAL else .FEASIBLE)

end Solvor.Path
