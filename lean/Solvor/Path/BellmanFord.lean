import Solvor.Path.Lemmas
/-! Path: the loop invariant of the Bellman-Ford mirror and what the detection round adds. -/
namespace Solvor.Path
open Solvor.Gen (Status)

/-- Invariant of the relaxation loop (`E` the edge list, `s` the start, `n` the table size). -/
structure BFInv (E : List (Edge Int)) (n s : Nat) (st : BFSt) : Prop where
  len_d : st.dist.length = n
  len_p : st.par.length = n
  /-- every finite entry is the weight of a real walk -/
  real : ∀ v c, look st.dist v = some c → Walk E s v c
  /-- the start's entry is finite and never positive -/
  start : ∃ c0, look st.dist s = some c0 ∧ c0 ≤ 0
  /-- a parent pointer names an edge that was tight when it was set (`dist` only decreases) -/
  par_edge : ∀ v p, look st.par v = some p →
    ∃ w dp dv, (p, v, w) ∈ E ∧ look st.dist p = some dp ∧ look st.dist v = some dv ∧ dp + w ≤ dv
  /-- only the start has a finite entry without a parent -/
  root : ∀ v c, look st.par v = none → look st.dist v = some c → v = s

theorem bfInv_init (E : List (Edge Int)) {n s : Nat} (hs : s < n) : BFInv E n s (bfInit n s) := by
  have hl : (Tab.empty n : Tab Int).length = n := by simp [Tab.empty]
  have hd : ∀ v, look (bfInit n s).dist v = if v = s then some 0 else none := by
    intro v
    simp only [bfInit]
    rw [look_set, look_empty]
    by_cases h : s = v
    · subst h; simp [hl, hs]
    · have : ¬ v = s := fun e => h e.symm
      simp [h, this]
  refine ⟨by simp [bfInit, Tab.empty], by simp [bfInit, Tab.empty], ?_, ?_, ?_, ?_⟩
  · intro v c h
    rw [hd] at h
    split at h
    · next e => subst e; cases h; exact Walk.nil _
    · cases h
  · exact ⟨0, by rw [hd]; simp, Int.le_refl 0⟩
  · intro v p h
    simp [bfInit, look_empty] at h
  · intro v c _ h
    rw [hd] at h
    split at h
    · next e => exact e
    · cases h

theorem relaxable_iff {dist : Tab Int} {e : Edge Int} :
    relaxable dist e = true ↔
      ∃ du, look dist e.1 = some du ∧ (look dist e.2.1 = none ∨ ∃ dv, look dist e.2.1 = some dv ∧ du + e.2.2 < dv) := by
  unfold relaxable
  cases hu : look dist e.1 with
  | none => simp
  | some du =>
    cases hv : look dist e.2.1 with
    | none => simp
    | some dv => simp

theorem bfInv_relax {E : List (Edge Int)} {n s : Nat} {st : BFSt} (inv : BFInv E n s st) {e : Edge Int}
    (he : e ∈ E) (hr : relaxable st.dist e = true) : BFInv E n s (relax st e) := by
  obtain ⟨u, v, w⟩ := e
  obtain ⟨du, hdu, hcase⟩ := relaxable_iff.mp hr
  simp only at hdu hcase
  have hrel : relax st (u, v, w) = ⟨st.dist.set v (some (du + w)), st.par.set v (some u)⟩ := by
    simp [relax, hdu]
  rw [hrel]
  by_cases hv : v < n
  case neg =>
    -- both `set`s fall outside the tables: nothing changes
    have h1 : st.dist.set v (some (du + w)) = st.dist :=
      List.set_eq_of_length_le (by rw [inv.len_d]; omega)
    have h2 : st.par.set v (some u) = st.par :=
      List.set_eq_of_length_le (by rw [inv.len_p]; omega)
    rw [h1, h2]; exact inv
  case pos =>
  have hvd : v < st.dist.length := by rw [inv.len_d]; exact hv
  have hvp : v < st.par.length := by rw [inv.len_p]; exact hv
  have hD : ∀ x, look (st.dist.set v (some (du + w))) x = if x = v then some (du + w) else look st.dist x := by
    intro x; rw [look_set]
    by_cases h : v = x
    · subst h; simp [hvd]
    · have : ¬ x = v := fun e => h e.symm
      simp [h, this]
  have hP : ∀ x, look (st.par.set v (some u)) x = if x = v then some u else look st.par x := by
    intro x; rw [look_set]
    by_cases h : v = x
    · subst h; simp [hvp]
    · have : ¬ x = v := fun e => h e.symm
      simp [h, this]
  -- the new value is below the old one (if there was one)
  have hlow : ∀ dv, look st.dist v = some dv → du + w < dv := by
    intro dv h
    rcases hcase with h0 | ⟨dv', h1, h2⟩
    · rw [h0] at h; cases h
    · rw [h1] at h; cases h; exact h2
  refine ⟨by simp [inv.len_d], by simp [inv.len_p], ?_, ?_, ?_, ?_⟩
  · intro x c h
    simp only [hD] at h
    split at h
    · next e => subst e; cases h; exact Walk.snoc (inv.real u du hdu) he
    · exact inv.real x c h
  · obtain ⟨c0, hc0, hle⟩ := inv.start
    simp only [hD]
    by_cases h : s = v
    · subst h; simp only [if_true]
      exact ⟨du + w, rfl, by have := hlow c0 hc0; omega⟩
    · simp only [h, if_false]; exact ⟨c0, hc0, hle⟩
  · intro x p h
    simp only [hP] at h
    simp only [hD]
    split at h
    · next e =>
      subst e; cases h
      by_cases hux : u = x
      · subst hux
        have := hlow du hdu
        exact ⟨w, du + w, du + w, he, by simp, by simp, by omega⟩
      · exact ⟨w, du, du + w, he, by simp [hux, hdu], by simp, by omega⟩
    · next hne =>
      obtain ⟨w', dp, dx, hmem, hdp, hdx, hle⟩ := inv.par_edge x p h
      by_cases hpv : p = v
      · subst hpv
        have := hlow dp hdp
        exact ⟨w', du + w, dx, hmem, by simp, by simp [hne, hdx], by omega⟩
      · exact ⟨w', dp, dx, hmem, by simp [hpv, hdp], by simp [hne, hdx], hle⟩
  · intro x c hp hd
    simp only [hP] at hp
    simp only [hD] at hd
    split at hp
    · cases hp
    · next hne => simp only [hne, if_false] at hd; exact inv.root x c hp hd

theorem bfInv_fold {E : List (Edge Int)} {n s : Nat} (L : List (Edge Int)) (hL : ∀ e ∈ L, e ∈ E) :
    ∀ (acc : BFSt × Bool), BFInv E n s acc.1 →
      BFInv E n s (L.foldl (fun (acc : BFSt × Bool) e =>
        if relaxable acc.1.dist e then (relax acc.1 e, true) else acc) acc).1 := by
  induction L with
  | nil => intro acc h; exact h
  | cons e L ih =>
    intro acc h
    rw [List.foldl_cons]
    apply ih (fun e he => hL e (List.mem_cons_of_mem _ he))
    by_cases hr : relaxable acc.1.dist e = true
    · simp only [hr, if_true]; exact bfInv_relax h (hL e List.mem_cons_self) hr
    · simp only [hr]; exact h

theorem bfInv_rounds {E : List (Edge Int)} {n s : Nat} : ∀ (k : Nat) (st : BFSt), BFInv E n s st →
    BFInv E n s (bfRounds E k st) := by
  intro k
  induction k with
  | zero => intro st h; exact h
  | succ k ih =>
    intro st h
    have h1 : BFInv E n s (bfRound E st).1 := bfInv_fold E (fun _ h => h) (st, false) h
    simp only [bfRounds]
    split
    · exact ih _ h1
    · exact h1

/-- the detection round finding nothing *is* the potential condition -/
theorem feasible_of_not_relaxable {E : List (Edge Int)} {dist : Tab Int}
    (h : E.any (relaxable dist) = false) : feasible E dist = true := by
  unfold feasible
  rw [List.all_eq_true]
  intro e he
  have hr : relaxable dist e = false := by
    cases hr : relaxable dist e with
    | false => rfl
    | true =>
      have : E.any (relaxable dist) = true := List.any_eq_true.mpr ⟨e, he, hr⟩
      rw [h] at this; cases this
  unfold relaxable at hr
  cases hu : look dist e.1 with
  | none => rfl
  | some du =>
    cases hv : look dist e.2.1 with
    | none => simp [hu, hv] at hr
    | some dv =>
      simp only [hu, hv, decide_eq_false_iff_not] at hr
      simp only [decide_eq_true_eq]; omega

/-- least parallel edge (integer weights): `edgeCost` is defined whenever an edge exists and is
minimal -/
private theorem edgeCost_fold_min (E : List (Edge Int)) (u v : Nat) :
    ∀ (acc : Option Int),
      let r := E.foldl (edgeCostStep u v) acc
      (∀ m, acc = some m → ∃ m', r = some m' ∧ m' ≤ m) ∧
      (∀ w, (u, v, w) ∈ E → ∃ m', r = some m' ∧ m' ≤ w) := by
  induction E with
  | nil =>
    intro acc
    exact ⟨fun m h => ⟨m, h, Int.le_refl m⟩, fun w h => by cases h⟩
  | cons e E ih =>
    intro acc
    simp only [List.foldl_cons]
    unfold edgeCostStep
    by_cases hc : e.1 = u ∧ e.2.1 = v
    · simp only [hc, and_self, if_true]
      cases acc with
      | none =>
        have := ih (some e.2.2)
        refine ⟨fun m h => (by cases h), ?_⟩
        intro w hw
        rcases List.mem_cons.mp hw with h | h
        · obtain ⟨m', hm', hle⟩ := this.1 e.2.2 rfl
          have hw' : e.2.2 = w := by rw [← h]
          exact ⟨m', hm', by omega⟩
        · exact this.2 w h
      | some m =>
        by_cases hle : e.2.2 ≤ m
        · simp only [hle, if_true]
          have := ih (some e.2.2)
          refine ⟨fun m0 h => ?_, ?_⟩
          · cases h
            obtain ⟨m', hm', hle'⟩ := this.1 e.2.2 rfl
            exact ⟨m', hm', by omega⟩
          · intro w hw
            rcases List.mem_cons.mp hw with h | h
            · obtain ⟨m', hm', hle'⟩ := this.1 e.2.2 rfl
              have hw' : e.2.2 = w := by rw [← h]
              exact ⟨m', hm', by omega⟩
            · exact this.2 w h
        · simp only [hle, if_false]
          have := ih (some m)
          refine ⟨fun m0 h => (by cases h; exact this.1 m rfl), ?_⟩
          intro w hw
          rcases List.mem_cons.mp hw with h | h
          · obtain ⟨m', hm', hle'⟩ := this.1 m rfl
            refine ⟨m', hm', ?_⟩
            have : e.2.2 = w := by rw [← h]
            omega
          · exact this.2 w h
    · simp only [hc, if_false]
      have := ih acc
      refine ⟨this.1, ?_⟩
      intro w hw
      rcases List.mem_cons.mp hw with h | h
      · exfalso; apply hc; rw [← h]; exact ⟨rfl, rfl⟩
      · exact this.2 w h

theorem edgeCost_min {E : List (Edge Int)} {u v : Nat} {w : Int} (h : (u, v, w) ∈ E) :
    ∃ m, edgeCost E u v = some m ∧ m ≤ w ∧ (u, v, m) ∈ E := by
  obtain ⟨m, hm, hle⟩ := (edgeCost_fold_min E u v none).2 w h
  have hm' : edgeCost E u v = some m := hm
  exact ⟨m, hm', hle, edgeCost_mem hm'⟩

/-- Facts about the final tables when the detection round finds nothing. -/
structure BFFinal (E : List (Edge Int)) (s : Nat) (dist : Tab Int) (par : Tab Nat) : Prop where
  feas : feasible E dist = true
  start0 : look dist s = some 0
  real : ∀ v c, look dist v = some c → Walk E s v c
  tight : ∀ v p, look par v = some p →
    ∃ w dp, edgeCost E p v = some w ∧ look dist p = some dp ∧ look dist v = some (dp + w)
  root : ∀ v c, look par v = none → look dist v = some c → v = s

theorem bfFinal_of_inv {E : List (Edge Int)} {n s : Nat} {st : BFSt} (inv : BFInv E n s st)
    (h : E.any (relaxable st.dist) = false) : BFFinal E s st.dist st.par := by
  have hf := feasible_of_not_relaxable h
  obtain ⟨c0, hc0, hle0⟩ := inv.start
  have h0 : c0 = 0 := by
    obtain ⟨b, hb, hle⟩ := potential_walk hf (inv.real s c0 hc0) c0 hc0
    rw [hc0] at hb; cases hb; omega
  subst h0
  refine ⟨hf, hc0, inv.real, ?_, inv.root⟩
  intro v p hp
  obtain ⟨w, dp, dv, hmem, hdp, hdv, hle⟩ := inv.par_edge v p hp
  obtain ⟨m, hm, hmw, hmm⟩ := edgeCost_min hmem
  obtain ⟨b, hb, hble⟩ := feasible_edge hf hmm hdp
  rw [hdv] at hb; cases hb
  exact ⟨m, dp, hm, hdp, by rw [hdv]; congr 1; omega⟩

/-- `_reconstruct_indexed` on the final tables yields a checked path of weight `dist[target]`. -/
theorem recon_final {E : List (Edge Int)} {s : Nat} {dist : Tab Int} {par : Tab Nat}
    (F : BFFinal E s dist par) : ∀ (fuel cur : Nat) (acc q : List Nat) (dc ca : Int),
    recon par fuel cur acc = some q → look dist cur = some dc → pathCost E (cur :: acc) = some ca →
    q.head? = some s ∧ q.getLast? = (cur :: acc).getLast? ∧ pathCost E q = some (dc + ca) := by
  intro fuel
  induction fuel with
  | zero => intro cur acc q dc ca h; simp [recon] at h
  | succ fuel ih =>
    intro cur acc q dc ca h hd hc
    unfold recon at h
    cases hp : look par cur with
    | none =>
      simp only [hp] at h
      cases h
      have := F.root cur dc hp hd
      subst this
      rw [F.start0] at hd; cases hd
      exact ⟨rfl, rfl, by simpa using hc⟩
    | some p =>
      simp only [hp] at h
      obtain ⟨w, dp, hw, hdp, hdv⟩ := F.tight cur p hp
      rw [hd] at hdv; cases hdv
      have hc' : pathCost E (p :: cur :: acc) = some (w + ca) := by
        simp [pathCost, hw, hc]
      obtain ⟨h1, h2, h3⟩ := ih p (cur :: acc) q dp (w + ca) h hdp hc'
      refine ⟨h1, ?_, by rw [h3]; congr 1; omega⟩
      rw [h2, List.getLast?_cons_cons]

end Solvor.Path
