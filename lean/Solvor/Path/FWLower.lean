import Solvor.Path.FloydWarshall
/-! Path: the lower-bound half of Floyd-Warshall — if no diagonal entry ends up negative, every entry
is at most the weight of every walk (induction on the phases over walks whose intermediate nodes are
below `K`). -/
namespace Solvor.Path
set_option linter.unusedVariables false
set_option linter.unusedSimpArgs false
open Solvor.Gen (Status)

/-! ### matrices of fixed dimension -/

def Dim (m : Mat) (n : Nat) : Prop := m.length = n ∧ ∀ r ∈ m, r.length = n

theorem Dim.row {m : Mat} {n : Nat} (h : Dim m n) {i : Nat} (hi : i < n) : (List.getD m i []).length = n := by
  have hl : i < m.length := by rw [h.1]; exact hi
  rw [List.getD_eq_getElem?_getD, List.getElem?_eq_getElem hl]
  exact h.2 _ (List.getElem_mem hl)

theorem Mat.get_set_eq {m : Mat} {n i j : Nat} (h : Dim m n) (hi : i < n) (hj : j < n) (v : Option Int) :
    Mat.get (Mat.set m i j v) i j = v := by
  have hl : i < m.length := by rw [h.1]; exact hi
  have hr := h.row hi
  unfold Mat.get Mat.set
  rw [List.getD_eq_getElem?_getD (l := List.set m i _), List.getElem?_set_self hl]
  simp only [Option.getD_some]
  rw [List.getD_eq_getElem?_getD, List.getElem?_set_self (by rw [hr]; exact hj)]
  rfl

theorem Mat.get_set_ne {m : Mat} {i j i' j' : Nat} (v : Option Int) (hne : i ≠ i' ∨ j ≠ j') :
    Mat.get (Mat.set m i j v) i' j' = Mat.get m i' j' := by
  unfold Mat.get Mat.set
  by_cases hi : i = i'
  · subst hi
    have hj : j ≠ j' := by rcases hne with h | h; exact absurd rfl h; exact h
    by_cases hl : i < m.length
    · rw [List.getD_eq_getElem?_getD (l := List.set m i _), List.getElem?_set_self hl]
      simp only [Option.getD_some]
      rw [List.getD_eq_getElem?_getD, List.getElem?_set_ne hj, ← List.getD_eq_getElem?_getD]
    · rw [List.set_eq_of_length_le (Nat.le_of_not_lt hl)]
  · rw [List.getD_eq_getElem?_getD (l := List.set m i _), List.getElem?_set_ne hi,
      ← List.getD_eq_getElem?_getD]

theorem Dim.set {m : Mat} {n : Nat} (h : Dim m n) (i j : Nat) (v : Option Int) : Dim (Mat.set m i j v) n := by
  unfold Mat.set
  by_cases hi : i < n
  · refine ⟨by simp [h.1], ?_⟩
    intro r hr
    rcases List.mem_or_eq_of_mem_set hr with h' | h'
    · exact h.2 r h'
    · rw [h', List.length_set]; exact h.row hi
  · rw [List.set_eq_of_length_le (by rw [h.1]; omega)]; exact h

/-- entries only decrease (and stay finite) -/
def Mono (m m' : Mat) : Prop := ∀ a b d, Mat.get m a b = some d → ∃ d', Mat.get m' a b = some d' ∧ d' ≤ d

theorem Mono.refl (m : Mat) : Mono m m := fun a b d h => ⟨d, h, Int.le_refl _⟩
theorem Mono.trans {m1 m2 m3 : Mat} (h1 : Mono m1 m2) (h2 : Mono m2 m3) : Mono m1 m3 := by
  intro a b d h
  obtain ⟨d1, hd1, l1⟩ := h1 a b d h
  obtain ⟨d2, hd2, l2⟩ := h2 a b d1 hd1
  exact ⟨d2, hd2, by omega⟩

theorem optAddLt_true {a b c : Option Int} (h : optAddLt a b c = true) :
    ∃ x y, a = some x ∧ b = some y ∧ (c = none ∨ ∃ z, c = some z ∧ x + y < z) := by
  unfold optAddLt at h
  cases a with
  | none => simp at h
  | some x =>
    cases b with
    | none => simp at h
    | some y =>
      cases c with
      | none => exact ⟨x, y, rfl, rfl, Or.inl rfl⟩
      | some z => simp at h; exact ⟨x, y, rfl, rfl, Or.inr ⟨z, rfl, h⟩⟩

theorem fwRelax_spec {m : Mat} {n k i j : Nat} (hd : Dim m n) (hi : i < n) (hj : j < n) :
    Dim (fwRelax m k i j) n ∧ Mono m (fwRelax m k i j) ∧
      ∀ x y, Mat.get m i k = some x → Mat.get m k j = some y →
        ∃ d, Mat.get (fwRelax m k i j) i j = some d ∧ d ≤ x + y := by
  unfold fwRelax
  by_cases hlt : optAddLt (Mat.get m i k) (Mat.get m k j) (Mat.get m i j) = true
  · simp only [hlt, if_true]
    obtain ⟨x, y, hx, hy, hc⟩ := optAddLt_true hlt
    have hsum : optAdd (Mat.get m i k) (Mat.get m k j) = some (x + y) := by rw [hx, hy]; rfl
    rw [hsum]
    refine ⟨hd.set _ _ _, ?_, ?_⟩
    · intro a b d hab
      by_cases hab' : i = a ∧ j = b
      · obtain ⟨h1, h2⟩ := hab'
        subst h1; subst h2
        rw [Mat.get_set_eq hd hi hj]
        rcases hc with h0 | ⟨z, hz, hl⟩
        · rw [h0] at hab; cases hab
        · rw [hz] at hab; cases hab; exact ⟨x + y, rfl, by omega⟩
      · have : i ≠ a ∨ j ≠ b := by
          by_cases h1 : i = a
          · right; exact fun h2 => hab' ⟨h1, h2⟩
          · left; exact h1
        rw [Mat.get_set_ne _ this]; exact ⟨d, hab, Int.le_refl _⟩
    · intro x' y' hx' hy'
      rw [hx] at hx'; rw [hy] at hy'; cases hx'; cases hy'
      exact ⟨x + y, Mat.get_set_eq hd hi hj _, Int.le_refl _⟩
  · rw [if_neg hlt]
    refine ⟨hd, Mono.refl m, ?_⟩
    intro x y hx hy
    have hlt' : optAddLt (Mat.get m i k) (Mat.get m k j) (Mat.get m i j) = false := by simpa using hlt
    rw [hx, hy] at hlt'
    unfold optAddLt at hlt'
    cases hc : Mat.get m i j with
    | none => simp [hc] at hlt'
    | some z => simp [hc] at hlt'; exact ⟨z, rfl, hlt'⟩

/-- one row of a phase -/
theorem fw_inner {n k i : Nat} (hi : i < n) : ∀ (L : List Nat) (m : Mat), (∀ j ∈ L, j < n) → Dim m n →
    Dim (L.foldl (fun m j => fwRelax m k i j) m) n ∧ Mono m (L.foldl (fun m j => fwRelax m k i j) m) ∧
      ∀ j ∈ L, ∀ x y, Mat.get m i k = some x → Mat.get m k j = some y →
        ∃ d, Mat.get (L.foldl (fun m j => fwRelax m k i j) m) i j = some d ∧ d ≤ x + y := by
  intro L
  induction L with
  | nil => intro m _ hd; exact ⟨hd, Mono.refl m, by simp⟩
  | cons j L ih =>
    intro m hL hd
    obtain ⟨d1, m1, a1⟩ := fwRelax_spec (k := k) hd hi (hL j List.mem_cons_self)
    obtain ⟨d2, m2, a2⟩ := ih (fwRelax m k i j) (fun x hx => hL x (List.mem_cons_of_mem _ hx)) d1
    rw [List.foldl_cons]
    refine ⟨d2, m1.trans m2, ?_⟩
    intro j' hj' x y hx hy
    rcases List.mem_cons.mp hj' with h | h
    · subst h
      obtain ⟨d, hd', hl⟩ := a1 x y hx hy
      obtain ⟨d', hd'', hl'⟩ := m2 _ _ d hd'
      exact ⟨d', hd'', by omega⟩
    · obtain ⟨x1, hx1, lx⟩ := m1 _ _ x hx
      obtain ⟨y1, hy1, ly⟩ := m1 _ _ y hy
      obtain ⟨d, hd', hl⟩ := a2 j' h x1 y1 hx1 hy1
      exact ⟨d, hd', by omega⟩

def fwPhase (n : Nat) (m : Mat) (k : Nat) : Mat :=
  (List.range n).foldl (fun m i => (List.range n).foldl (fun m j => fwRelax m k i j) m) m

theorem fw_outer {n k : Nat} : ∀ (L : List Nat) (m : Mat), (∀ i ∈ L, i < n) → Dim m n →
    Dim (L.foldl (fun m i => (List.range n).foldl (fun m j => fwRelax m k i j) m) m) n ∧
      Mono m (L.foldl (fun m i => (List.range n).foldl (fun m j => fwRelax m k i j) m) m) ∧
      ∀ i ∈ L, ∀ j, j < n → ∀ x y, Mat.get m i k = some x → Mat.get m k j = some y →
        ∃ d, Mat.get (L.foldl (fun m i => (List.range n).foldl (fun m j => fwRelax m k i j) m) m) i j = some d ∧
          d ≤ x + y := by
  intro L
  induction L with
  | nil => intro m _ hd; exact ⟨hd, Mono.refl m, by simp⟩
  | cons i L ih =>
    intro m hL hd
    obtain ⟨d1, m1, a1⟩ := fw_inner (k := k) (hL i List.mem_cons_self) (List.range n) m
      (fun j hj => List.mem_range.mp hj) hd
    obtain ⟨d2, m2, a2⟩ := ih _ (fun x hx => hL x (List.mem_cons_of_mem _ hx)) d1
    rw [List.foldl_cons]
    refine ⟨d2, m1.trans m2, ?_⟩
    intro i' hi' j hj x y hx hy
    rcases List.mem_cons.mp hi' with h | h
    · subst h
      obtain ⟨d, hd', hl⟩ := a1 j (List.mem_range.mpr hj) x y hx hy
      obtain ⟨d', hd'', hl'⟩ := m2 _ _ d hd'
      exact ⟨d', hd'', by omega⟩
    · obtain ⟨x1, hx1, lx⟩ := m1 _ _ x hx
      obtain ⟨y1, hy1, ly⟩ := m1 _ _ y hy
      obtain ⟨d, hd', hl⟩ := a2 i' h j hj x1 y1 hx1 hy1
      exact ⟨d, hd', by omega⟩

theorem fwPhase_spec {n k : Nat} {m : Mat} (hd : Dim m n) :
    Dim (fwPhase n m k) n ∧ Mono m (fwPhase n m k) ∧
      ∀ i j, i < n → j < n → ∀ x y, Mat.get m i k = some x → Mat.get m k j = some y →
        ∃ d, Mat.get (fwPhase n m k) i j = some d ∧ d ≤ x + y := by
  obtain ⟨d1, m1, a1⟩ := fw_outer (k := k) (List.range n) m (fun i hi => List.mem_range.mp hi) hd
  exact ⟨d1, m1, fun i j hi hj => a1 i (List.mem_range.mpr hi) j hj⟩

/-! ### walks whose intermediate nodes are below `K` -/

inductive WalkK (E : List (Edge Int)) (K : Nat) : Nat → Nat → Int → Prop
  | nil (u : Nat) : WalkK E K u u 0
  | edge {u v : Nat} {w : Int} : (u, v, w) ∈ E → WalkK E K u v w
  | cons {u v t : Nat} {w c : Int} : (u, v, w) ∈ E → v < K → WalkK E K v t c → WalkK E K u t (w + c)

theorem Walk.toK {E : List (Edge Int)} {n : Nat} (hE : ∀ e ∈ E, e.2.1 < n) {u t : Nat} {c : Int}
    (h : Walk E u t c) : WalkK E n u t c := by
  induction h with
  | nil u => exact WalkK.nil u
  | cons he _ ih => exact WalkK.cons he (hE _ he) ih

/-- a walk through nodes `≤ K` either avoids `K` inside, or (closed walks at `K` being non-negative)
is no lighter than a walk to `K` followed by a walk from `K`, both avoiding `K` inside -/
theorem WalkK.decomp {E : List (Edge Int)} {K : Nat} (hloop : ∀ a, WalkK E K K K a → 0 ≤ a) {i j : Nat} {c : Int}
    (h : WalkK E (K + 1) i j c) :
    WalkK E K i j c ∨ ∃ a b, WalkK E K i K a ∧ WalkK E K K j b ∧ a + b ≤ c := by
  induction h with
  | nil u => left; exact WalkK.nil u
  | edge he => left; exact WalkK.edge he
  | @cons u v t w c he hv _ ih =>
    by_cases hvK : v < K
    · rcases ih with h1 | ⟨a, b, h1, h2, h3⟩
      · left; exact WalkK.cons he hvK h1
      · right; exact ⟨w + a, b, WalkK.cons he hvK h1, h2, by omega⟩
    · have hvK' : v = K := by omega
      subst hvK'
      right
      rcases ih with h1 | ⟨a, b, h1, h2, h3⟩
      · exact ⟨w, c, WalkK.edge he, h1, Int.le_refl _⟩
      · have := hloop a h1
        exact ⟨w, b, WalkK.edge he, h2, by omega⟩

/-- every entry bounds the walks with intermediate nodes below `K` -/
def PK (E : List (Edge Int)) (n K : Nat) (m : Mat) : Prop :=
  ∀ i j c, i < n → j < n → WalkK E K i j c → ∃ d, Mat.get m i j = some d ∧ d ≤ c

theorem pk_step {E : List (Edge Int)} {n K : Nat} {m : Mat} (hK : K < n) (hd : Dim m n) (hp : PK E n K m)
    (hdiag : ∀ d, Mat.get m K K = some d → 0 ≤ d) : PK E n (K + 1) (fwPhase n m K) := by
  obtain ⟨_, hm, ha⟩ := fwPhase_spec (k := K) hd
  have hloop : ∀ a, WalkK E K K K a → 0 ≤ a := by
    intro a hw
    obtain ⟨d, hd', hl⟩ := hp K K a hK hK hw
    have := hdiag d hd'; omega
  intro i j c hi hj hw
  rcases hw.decomp hloop with h1 | ⟨a, b, h1, h2, h3⟩
  · obtain ⟨d, hd', hl⟩ := hp i j c hi hj h1
    obtain ⟨d', hd'', hl'⟩ := hm _ _ d hd'
    exact ⟨d', hd'', by omega⟩
  · obtain ⟨x, hx, lx⟩ := hp i K a hi hK h1
    obtain ⟨y, hy, ly⟩ := hp K j b hK hj h2
    obtain ⟨d, hd', hl⟩ := ha i j hi hj x y hx hy
    exact ⟨d, hd', by omega⟩

/-! ### the phases -/

def fwUpTo (n : Nat) (m0 : Mat) (k : Nat) : Mat := (List.range k).foldl (fwPhase n) m0

theorem fwUpTo_succ (n : Nat) (m0 : Mat) (k : Nat) : fwUpTo n m0 (k + 1) = fwPhase n (fwUpTo n m0 k) k := by
  simp [fwUpTo, List.range_succ, List.foldl_append]

theorem fwLoop_eq (n : Nat) (m0 : Mat) : fwLoop n m0 = fwUpTo n m0 n := rfl

theorem fwUpTo_dim {n : Nat} {m0 : Mat} (hd : Dim m0 n) : ∀ k, Dim (fwUpTo n m0 k) n := by
  intro k
  induction k with
  | zero => exact hd
  | succ k ih => rw [fwUpTo_succ]; exact (fwPhase_spec ih).1

theorem fwUpTo_mono {n : Nat} {m0 : Mat} (hd : Dim m0 n) (k : Nat) :
    ∀ j, Mono (fwUpTo n m0 k) (fwUpTo n m0 (k + j)) := by
  intro j
  induction j with
  | zero => exact Mono.refl _
  | succ j ih =>
    have : k + (j + 1) = (k + j) + 1 := by omega
    rw [this, fwUpTo_succ]
    exact ih.trans (fwPhase_spec (fwUpTo_dim hd _)).2.1

theorem fw_lower {E : List (Edge Int)} {n : Nat} {m0 : Mat} (hd : Dim m0 n) (h0 : PK E n 0 m0)
    (hfin : ∀ i, i < n → ∀ d, Mat.get (fwLoop n m0) i i = some d → 0 ≤ d) :
    ∀ k, k ≤ n → PK E n k (fwUpTo n m0 k) := by
  intro k
  induction k with
  | zero => intro _; exact h0
  | succ k ih =>
    intro hk
    rw [fwUpTo_succ]
    apply pk_step (by omega) (fwUpTo_dim hd k) (ih (by omega))
    intro d hdk
    have hm := fwUpTo_mono hd k (n - k)
    rw [show k + (n - k) = n by omega, ← fwLoop_eq] at hm
    obtain ⟨d', hd', hl⟩ := hm _ _ d hdk
    have := hfin k (by omega) d' hd'
    omega

/-! ### the initial matrix -/

theorem fwPut_spec {m : Mat} {n u v : Nat} (w : Int) (hd : Dim m n) (hu : u < n) (hv : v < n) :
    Dim (fwPut m u v w) n ∧ Mono m (fwPut m u v w) ∧ ∃ d, Mat.get (fwPut m u v w) u v = some d ∧ d ≤ w := by
  unfold fwPut
  cases hg : Mat.get m u v with
  | none =>
    simp only
    refine ⟨hd.set _ _ _, ?_, ⟨w, Mat.get_set_eq hd hu hv _, Int.le_refl _⟩⟩
    intro a b d hab
    by_cases hab' : u = a ∧ v = b
    · obtain ⟨h1, h2⟩ := hab'; subst h1; subst h2; rw [hg] at hab; cases hab
    · have : u ≠ a ∨ v ≠ b := by
        by_cases h1 : u = a
        · right; exact fun h2 => hab' ⟨h1, h2⟩
        · left; exact h1
      rw [Mat.get_set_ne _ this]; exact ⟨d, hab, Int.le_refl _⟩
  | some x =>
    simp only
    by_cases hlt : w < x
    · simp only [hlt, if_true]
      refine ⟨hd.set _ _ _, ?_, ⟨w, Mat.get_set_eq hd hu hv _, Int.le_refl _⟩⟩
      intro a b d hab
      by_cases hab' : u = a ∧ v = b
      · obtain ⟨h1, h2⟩ := hab'; subst h1; subst h2
        rw [hg] at hab; cases hab
        rw [Mat.get_set_eq hd hu hv]; exact ⟨w, rfl, by omega⟩
      · have : u ≠ a ∨ v ≠ b := by
          by_cases h1 : u = a
          · right; exact fun h2 => hab' ⟨h1, h2⟩
          · left; exact h1
        rw [Mat.get_set_ne _ this]; exact ⟨d, hab, Int.le_refl _⟩
    · simp only [hlt, if_false]
      exact ⟨hd, Mono.refl m, ⟨x, hg, by omega⟩⟩

theorem fwInit0_spec (n : Nat) :
    Dim ((List.range n).map fun i => (List.range n).map fun j => if i = j then some (0 : Int) else none) n ∧
      ∀ i, i < n → Mat.get ((List.range n).map fun i => (List.range n).map fun j =>
        if i = j then some (0 : Int) else none) i i = some 0 := by
  refine ⟨⟨by simp, ?_⟩, ?_⟩
  · intro r hr
    simp only [List.mem_map] at hr
    obtain ⟨i, _, rfl⟩ := hr
    simp
  · intro i hi
    unfold Mat.get
    simp only [List.getD_eq_getElem?_getD, List.getElem?_map, List.getElem?_range hi, Option.map_some,
      Option.getD_some]
    simp

theorem fwInit_spec (n : Nat) (E : List (Edge Int)) (directed : Bool) (hE : ∀ e ∈ E, e.1 < n ∧ e.2.1 < n) :
    Dim (fwInit n E directed) n ∧ PK (if directed then E else symE E) n 0 (fwInit n E directed) := by
  -- fold invariant: dimension, diagonal ≤ 0, processed edges bounded
  have key : ∀ (L : List (Edge Int)) (m : Mat), (∀ e ∈ L, e.1 < n ∧ e.2.1 < n) → Dim m n →
      Dim (L.foldl (fun m e =>
        let m := fwPut m e.1 e.2.1 e.2.2
        if directed then m else fwPut m e.2.1 e.1 e.2.2) m) n ∧
      Mono m (L.foldl (fun m e =>
        let m := fwPut m e.1 e.2.1 e.2.2
        if directed then m else fwPut m e.2.1 e.1 e.2.2) m) ∧
      ∀ e ∈ L, (∃ d, Mat.get (L.foldl (fun m e =>
        let m := fwPut m e.1 e.2.1 e.2.2
        if directed then m else fwPut m e.2.1 e.1 e.2.2) m) e.1 e.2.1 = some d ∧ d ≤ e.2.2) ∧
        (directed = false → ∃ d, Mat.get (L.foldl (fun m e =>
        let m := fwPut m e.1 e.2.1 e.2.2
        if directed then m else fwPut m e.2.1 e.1 e.2.2) m) e.2.1 e.1 = some d ∧ d ≤ e.2.2) := by
    intro L
    induction L with
    | nil => intro m _ hd; exact ⟨hd, Mono.refl m, by simp⟩
    | cons e L ih =>
      intro m hL hd
      obtain ⟨hu, hv⟩ := hL e List.mem_cons_self
      obtain ⟨d1, m1, a1⟩ := fwPut_spec e.2.2 hd hu hv
      rw [List.foldl_cons]
      cases directed with
      | true =>
        simp only [if_true] at *
        obtain ⟨d2, m2, a2⟩ := ih _ (fun x hx => hL x (List.mem_cons_of_mem _ hx)) d1
        refine ⟨d2, m1.trans m2, ?_⟩
        intro e' he'
        rcases List.mem_cons.mp he' with h | h
        · subst h
          obtain ⟨d, hd', hl⟩ := a1
          obtain ⟨d', hd'', hl'⟩ := m2 _ _ d hd'
          exact ⟨⟨d', hd'', by omega⟩, fun h => by cases h⟩
        · exact a2 e' h
      | false =>
        simp only [Bool.false_eq_true, if_false] at *
        obtain ⟨d1', m1', a1'⟩ := fwPut_spec e.2.2 d1 hv hu
        obtain ⟨d2, m2, a2⟩ := ih _ (fun x hx => hL x (List.mem_cons_of_mem _ hx)) d1'
        refine ⟨d2, (m1.trans m1').trans m2, ?_⟩
        intro e' he'
        rcases List.mem_cons.mp he' with h | h
        · subst h
          obtain ⟨d, hd', hl⟩ := a1
          obtain ⟨da, hda, hla⟩ := m1' _ _ d hd'
          obtain ⟨db, hdb, hlb⟩ := m2 _ _ da hda
          obtain ⟨dr, hdr, hlr⟩ := a1'
          obtain ⟨dr', hdr', hlr'⟩ := m2 _ _ dr hdr
          exact ⟨⟨db, hdb, by omega⟩, fun _ => ⟨dr', hdr', by omega⟩⟩
        · exact a2 e' h
  obtain ⟨hd0, hdiag0⟩ := fwInit0_spec n
  obtain ⟨hd, hm, ha⟩ := key E _ hE hd0
  refine ⟨hd, ?_⟩
  intro i j c hi hj hw
  cases hw with
  | nil u =>
    obtain ⟨d, hd', hl⟩ := hm _ _ 0 (hdiag0 i hi)
    exact ⟨d, hd', hl⟩
  | @edge u v w he =>
    cases directed with
    | true =>
      simp only [if_true] at he
      exact (ha _ he).1
    | false =>
      simp only [Bool.false_eq_true, if_false, symE, List.mem_flatMap] at he
      obtain ⟨e, heE, hmem⟩ := he
      simp only [List.mem_cons, List.mem_nil_iff, or_false] at hmem
      rcases hmem with h | h
      · have := (ha _ heE).1
        rw [← h] at this; exact this
      · have := (ha _ heE).2 rfl
        simp only [Prod.mk.injEq] at h
        obtain ⟨h1, h2, h3⟩ := h
        rw [h1, h2, h3]; exact this
  | cons he hv _ => exact absurd hv (Nat.not_lt_zero _)

end Solvor.Path
