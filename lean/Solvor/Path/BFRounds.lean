import Solvor.Path.Lemmas
import Solvor.Path.BellmanFord
import Solvor.Path.Search
import Solvor.Path.BFAcyc
/-! Path: `bf_rounds_bound` — if no negative cycle is reachable, `n - 1` rounds of Bellman-Ford leave no
relaxable edge (walks are shortened to at most `n - 1` edges by removing non-negative cycles). -/
namespace Solvor.Path
set_option linter.unusedVariables false
set_option linter.unusedSimpArgs false
open Solvor.Gen (Status)

/-! ### walks as explicit edge lists -/

inductive WalkL (E : List (Edge Int)) : Nat → Nat → List (Edge Int) → Prop
  | nil (u : Nat) : WalkL E u u []
  | cons {u v t : Nat} {w : Int} {es : List (Edge Int)} : (u, v, w) ∈ E → WalkL E v t es →
      WalkL E u t ((u, v, w) :: es)

def wsum (es : List (Edge Int)) : Int := (es.map (·.2.2)).sum

/-- the nodes visited, start included -/
def nodesOf (u : Nat) (es : List (Edge Int)) : List Nat := u :: es.map (·.2.1)

theorem wsum_append (a b : List (Edge Int)) : wsum (a ++ b) = wsum a + wsum b := by
  simp [wsum, List.sum_append]

theorem wsum_cons (e : Edge Int) (a : List (Edge Int)) : wsum (e :: a) = e.2.2 + wsum a := by
  simp [wsum]

theorem WalkL.walk {E : List (Edge Int)} {u t : Nat} {es : List (Edge Int)} (h : WalkL E u t es) :
    Walk E u t (wsum es) := by
  induction h with
  | nil u => exact Walk.nil u
  | cons he _ ih => rw [wsum_cons]; exact Walk.cons he ih

theorem Walk.toL {E : List (Edge Int)} {u t : Nat} {c : Int} (h : Walk E u t c) :
    ∃ es, WalkL E u t es ∧ wsum es = c := by
  induction h with
  | nil u => exact ⟨[], WalkL.nil u, rfl⟩
  | cons he _ ih =>
    obtain ⟨es, h1, h2⟩ := ih
    exact ⟨_ :: es, WalkL.cons he h1, by rw [wsum_cons, h2]⟩

theorem WalkL.append {E : List (Edge Int)} {u v t : Nat} {a b : List (Edge Int)} (h1 : WalkL E u v a)
    (h2 : WalkL E v t b) : WalkL E u t (a ++ b) := by
  induction h1 with
  | nil u => exact h2
  | cons he _ ih => exact WalkL.cons he (ih h2)

/-- the last edge of a non-empty walk -/
theorem WalkL.snoc_cases {E : List (Edge Int)} {u t : Nat} {es : List (Edge Int)} (h : WalkL E u t es) :
    es = [] ∧ u = t ∨ ∃ es0 x w, es = es0 ++ [(x, t, w)] ∧ WalkL E u x es0 ∧ (x, t, w) ∈ E := by
  induction h with
  | nil u => left; exact ⟨rfl, rfl⟩
  | @cons u v t w es he hw ih =>
    right
    rcases ih with ⟨h1, h2⟩ | ⟨es0, x, w', h1, h2, h3⟩
    · subst h1; subst h2
      exact ⟨[], u, w, rfl, WalkL.nil u, he⟩
    · exact ⟨(u, v, w) :: es0, x, w', by rw [h1]; rfl, WalkL.cons he h2, h3⟩

/-- split a walk at (the first occurrence of) a visited node -/
theorem WalkL.split {E : List (Edge Int)} {u t : Nat} {es : List (Edge Int)} (h : WalkL E u t es) {x : Nat}
    (hx : x ∈ nodesOf u es) : ∃ a b, es = a ++ b ∧ WalkL E u x a ∧ WalkL E x t b := by
  induction h with
  | nil u =>
    simp [nodesOf] at hx; subst hx
    exact ⟨[], [], rfl, WalkL.nil _, WalkL.nil _⟩
  | @cons u v t w es he hw ih =>
    by_cases hxu : x = u
    · subst hxu
      exact ⟨[], _, rfl, WalkL.nil _, WalkL.cons he hw⟩
    · have hx' : x ∈ nodesOf v es := by
        simp only [nodesOf, List.map_cons, List.mem_cons] at hx ⊢
        rcases hx with h | h | h
        · exact absurd h hxu
        · left; exact h
        · right; exact h
      obtain ⟨a, b, h1, h2, h3⟩ := ih hx'
      exact ⟨(u, v, w) :: a, b, by rw [h1]; rfl, WalkL.cons he h2, h3⟩

theorem nodesOf_lt {E : List (Edge Int)} {n : Nat} (hE : ∀ e ∈ E, e.2.1 < n) {u t : Nat} {es : List (Edge Int)}
    (h : WalkL E u t es) (hu : u < n) : ∀ x ∈ nodesOf u es, x < n := by
  induction h with
  | nil u => intro x hx; simp [nodesOf] at hx; subst hx; exact hu
  | @cons u v t w es he hw ih =>
    intro x hx
    simp only [nodesOf, List.map_cons, List.mem_cons] at hx
    rcases hx with h | h | h
    · rw [h]; exact hu
    · rw [h]; exact hE _ he
    · exact ih (hE _ he) x (by simp only [nodesOf, List.mem_cons]; right; exact h)

/-- every visited node is reachable from the start of the walk -/
theorem nodesOf_reach {E : List (Edge Int)} {u t : Nat} {es : List (Edge Int)} (h : WalkL E u t es) :
    ∀ x ∈ nodesOf u es, Reach E u x := by
  intro x hx
  obtain ⟨a, _, _, h2, _⟩ := h.split hx
  exact ⟨_, h2.walk⟩

/-- remove one (non-negative) cycle from a walk that repeats a node -/
theorem WalkL.shorten1 {E : List (Edge Int)} {u t : Nat} {es : List (Edge Int)} (h : WalkL E u t es)
    (hnn : ∀ x ∈ nodesOf u es, ∀ c, Walk E x x c → 0 ≤ c) (hdup : ¬ (nodesOf u es).Nodup) :
    ∃ es', WalkL E u t es' ∧ es'.length < es.length ∧ wsum es' ≤ wsum es := by
  induction h with
  | nil u => simp [nodesOf] at hdup
  | @cons u v t w es he hw ih =>
    have hnodes : nodesOf u ((u, v, w) :: es) = u :: nodesOf v es := by simp [nodesOf]
    rw [hnodes, List.nodup_cons] at hdup
    by_cases hu : u ∈ nodesOf v es
    · obtain ⟨a, b, h1, h2, h3⟩ := hw.split hu
      have hcyc : Walk E u u (wsum ((u, v, w) :: a)) := (WalkL.cons he h2).walk
      have h0 := hnn u (by rw [hnodes]; exact List.mem_cons_self) _ hcyc
      refine ⟨b, h3, by rw [h1]; simp; omega, ?_⟩
      rw [wsum_cons, h1, wsum_append]
      rw [wsum_cons] at h0
      simp only at h0 ⊢
      omega
    · have hd' : ¬ (nodesOf v es).Nodup := fun h => hdup ⟨hu, h⟩
      obtain ⟨es', h1, h2, h3⟩ := ih (fun x hx => hnn x (by rw [hnodes]; exact List.mem_cons_of_mem _ hx)) hd'
      exact ⟨(u, v, w) :: es', WalkL.cons he h1, by simp; omega, by rw [wsum_cons, wsum_cons]; omega⟩

/-- a walk can be shortened to at most `n - 1` edges without increasing its weight -/
theorem WalkL.shorten {E : List (Edge Int)} {n : Nat} (hE : ∀ e ∈ E, e.2.1 < n) :
    ∀ (k : Nat) {u t : Nat} {es : List (Edge Int)}, es.length ≤ k → WalkL E u t es → u < n →
      (∀ x, Reach E u x → ∀ c, Walk E x x c → 0 ≤ c) →
      ∃ es', WalkL E u t es' ∧ es'.length + 1 ≤ n ∧ wsum es' ≤ wsum es := by
  intro k
  induction k with
  | zero =>
    intro u t es hk h hu _
    have : es = [] := List.eq_nil_of_length_eq_zero (by omega)
    subst this
    exact ⟨[], h, by simp; omega, Int.le_refl _⟩
  | succ k ih =>
    intro u t es hk h hu hnn
    by_cases hlen : es.length + 1 ≤ n
    · exact ⟨es, h, hlen, Int.le_refl _⟩
    · have hdup : ¬ (nodesOf u es).Nodup := by
        intro hnd
        have := nodup_length_le n _ hnd (nodesOf_lt hE h hu)
        simp [nodesOf] at this
        omega
      obtain ⟨es1, h1, h2, h3⟩ := h.shorten1 (fun x hx => hnn x (nodesOf_reach h x hx)) hdup
      obtain ⟨es', h4, h5, h6⟩ := ih (by omega) h1 hu hnn
      exact ⟨es', h4, h5, by omega⟩

/-! ### one round -/

theorem relax_mono {st : BFSt} {e : Edge Int} (hr : relaxable st.dist e = true) :
    ∀ v d, look st.dist v = some d → ∃ d', look (relax st e).dist v = some d' ∧ d' ≤ d := by
  intro v d hv
  obtain ⟨du, hdu, hcase⟩ := relaxable_iff.mp hr
  have hrel : relax st e = ⟨st.dist.set e.2.1 (some (du + e.2.2)), st.par.set e.2.1 (some e.1)⟩ := by
    simp [relax, hdu]
  rw [hrel]
  simp only [look_set]
  by_cases h : e.2.1 = v ∧ e.2.1 < st.dist.length
  · rw [if_pos h]
    rcases hcase with h0 | ⟨dv, h1, h2⟩
    · rw [h.1, hv] at h0; cases h0
    · rw [h.1, hv] at h1; cases h1
      exact ⟨du + e.2.2, rfl, by omega⟩
  · rw [if_neg h]; exact ⟨d, hv, Int.le_refl _⟩

/-- processing a list of edges only lowers the entries -/
theorem fold_mono (L : List (Edge Int)) : ∀ (acc : BFSt × Bool) v d, look acc.1.dist v = some d →
    ∃ d', look (L.foldl (fun (acc : BFSt × Bool) e =>
      if relaxable acc.1.dist e then (relax acc.1 e, true) else acc) acc).1.dist v = some d' ∧ d' ≤ d := by
  induction L with
  | nil => intro acc v d h; exact ⟨d, h, Int.le_refl _⟩
  | cons e L ih =>
    intro acc v d h
    rw [List.foldl_cons]
    by_cases hr : relaxable acc.1.dist e = true
    · simp only [hr, if_true]
      obtain ⟨d1, h1, l1⟩ := relax_mono hr v d h
      obtain ⟨d2, h2, l2⟩ := ih (relax acc.1 e, true) v d1 h1
      exact ⟨d2, h2, by omega⟩
    · simp only [hr]
      exact ih acc v d h

/-- after processing `L`, every edge of `L` has been relaxed against the value its tail had before -/
theorem fold_edge {n : Nat} (L : List (Edge Int)) : ∀ (acc : BFSt × Bool), acc.1.dist.length = n →
    ∀ e ∈ L, e.2.1 < n → ∀ du, look acc.1.dist e.1 = some du →
    ∃ dv, look (L.foldl (fun (acc : BFSt × Bool) e =>
      if relaxable acc.1.dist e then (relax acc.1 e, true) else acc) acc).1.dist e.2.1 = some dv ∧ dv ≤ du + e.2.2 := by
  induction L with
  | nil => intro acc _ e he; cases he
  | cons e0 L ih =>
    intro acc hlen e he hvn du hdu
    rw [List.foldl_cons]
    have hlen' : ∀ (st : BFSt), st.dist.length = n → (relax st e0).dist.length = n := by
      intro st h
      unfold relax
      split
      · exact h
      · simp [h]
    rcases List.mem_cons.mp he with h | h
    · subst h
      by_cases hr : relaxable acc.1.dist e = true
      · simp only [hr, if_true]
        obtain ⟨du', hdu', _⟩ := relaxable_iff.mp hr
        rw [hdu] at hdu'; cases hdu'
        have hrel : relax acc.1 e = ⟨acc.1.dist.set e.2.1 (some (du + e.2.2)), acc.1.par.set e.2.1 (some e.1)⟩ := by
          simp [relax, hdu]
        have hv : look (relax acc.1 e).dist e.2.1 = some (du + e.2.2) := by
          rw [hrel]; exact look_set_eq _ _ _ (by rw [hlen]; exact hvn)
        obtain ⟨d2, h2, l2⟩ := fold_mono L (relax acc.1 e, true) e.2.1 _ hv
        exact ⟨d2, h2, l2⟩
      · simp only [hr]
        have hr' : relaxable acc.1.dist e = false := by simpa using hr
        unfold relaxable at hr'
        simp only [hdu] at hr'
        cases hv : look acc.1.dist e.2.1 with
        | none => simp [hv] at hr'
        | some dv =>
          simp only [hv, decide_eq_false_iff_not] at hr'
          obtain ⟨d2, h2, l2⟩ := fold_mono L acc e.2.1 dv hv
          exact ⟨d2, h2, by omega⟩
    · by_cases hr : relaxable acc.1.dist e0 = true
      · simp only [hr, if_true]
        obtain ⟨du1, h1, l1⟩ := relax_mono hr e.1 du hdu
        obtain ⟨dv, h2, l2⟩ := ih (relax acc.1 e0, true) (hlen' _ hlen) e h hvn du1 h1
        exact ⟨dv, h2, by omega⟩
      · simp only [hr]
        exact ih acc hlen e h hvn du hdu

/-- a sweep that reports no update changed nothing and found no relaxable edge -/
theorem fold_no_update (L : List (Edge Int)) : ∀ (acc : BFSt × Bool),
    (L.foldl (fun (acc : BFSt × Bool) e =>
      if relaxable acc.1.dist e then (relax acc.1 e, true) else acc) acc).2 = false →
    acc.2 = false ∧ (L.foldl (fun (acc : BFSt × Bool) e =>
      if relaxable acc.1.dist e then (relax acc.1 e, true) else acc) acc).1 = acc.1 ∧
      ∀ e ∈ L, relaxable acc.1.dist e = false := by
  induction L with
  | nil => intro acc h; exact ⟨h, rfl, by simp⟩
  | cons e L ih =>
    intro acc h
    rw [List.foldl_cons] at h ⊢
    by_cases hr : relaxable acc.1.dist e = true
    · simp only [hr, if_true] at h
      have := (ih _ h).1
      cases this
    · simp only [hr] at h ⊢
      obtain ⟨h1, h2, h3⟩ := ih acc h
      refine ⟨h1, h2, ?_⟩
      intro e' he'
      rcases List.mem_cons.mp he' with h' | h'
      · rw [h']; simpa using hr
      · exact h3 e' h'

/-! ### `k` rounds bound the walks with at most `k` edges -/

def Bounded (E : List (Edge Int)) (s k : Nat) (st : BFSt) : Prop :=
  ∀ v es, WalkL E s v es → es.length ≤ k → ∃ d, look st.dist v = some d ∧ d ≤ wsum es

theorem bounded_round {E : List (Edge Int)} {n s k : Nat} (hE : ∀ e ∈ E, e.2.1 < n) {st : BFSt}
    (inv : BFInv E n s st) (hb : Bounded E s k st) : Bounded E s (k + 1) (bfRound E st).1 := by
  intro v es hw hlen
  rcases hw.snoc_cases with ⟨h1, h2⟩ | ⟨es0, x, w, h1, h2, h3⟩
  · subst h1; subst h2
    obtain ⟨c0, hc0, hle⟩ := inv.start
    obtain ⟨d', hd', hl⟩ := fold_mono E (st, false) s c0 hc0
    exact ⟨d', hd', by simp [wsum]; omega⟩
  · subst h1
    have hl0 : es0.length ≤ k := by simp at hlen; omega
    obtain ⟨du, hdu, hle⟩ := hb x es0 h2 hl0
    obtain ⟨dv, hdv, hle2⟩ := fold_edge (n := n) E (st, false) inv.len_d (x, v, w) h3 (hE _ h3) du hdu
    refine ⟨dv, hdv, ?_⟩
    have h1w : wsum [(x, v, w)] = w := by simp [wsum]
    rw [wsum_append, h1w]
    simp only at hle2
    omega

theorem bounded_rounds {E : List (Edge Int)} {n s : Nat} (hE : ∀ e ∈ E, e.2.1 < n) :
    ∀ (k k0 : Nat) (st : BFSt), BFInv E n s st → Bounded E s k0 st →
      E.any (relaxable (bfRounds E k st).dist) = false ∨ Bounded E s (k0 + k) (bfRounds E k st) := by
  intro k
  induction k with
  | zero => intro k0 st _ hb; right; exact hb
  | succ k ih =>
    intro k0 st inv hb
    simp only [bfRounds]
    have inv1 : BFInv E n s (bfRound E st).1 := bfInv_fold E (fun _ h => h) (st, false) inv
    by_cases hu : (bfRound E st).2 = true
    · simp only [hu, if_true]
      have := ih (k0 + 1) _ inv1 (bounded_round hE inv hb)
      rcases this with h | h
      · left; exact h
      · right; rw [show k0 + (k + 1) = k0 + 1 + k by omega]; exact h
    · have hu' : (bfRound E st).2 = false := by simpa using hu
      rw [if_neg hu]
      left
      obtain ⟨_, h2, h3⟩ := fold_no_update E (st, false) hu'
      have h2' : (bfRound E st).1 = st := h2
      rw [h2']
      cases hany : E.any (relaxable st.dist) with
      | false => rfl
      | true =>
        obtain ⟨e, he, hr⟩ := List.any_eq_true.mp hany
        rw [h3 e he] at hr; cases hr

/-- C11 `bf_rounds_bound`: an UNBOUNDED answer of the Bellman-Ford mirror means that a negative cycle
is reachable from the start. -/
theorem bf_unbounded_neg_cycle {E : List (Edge Int)} {n s : Nat} (target : Option Nat) (hs : s < n)
    (hE : ∀ e ∈ E, e.2.1 < n) (hu : (bellmanFord n E s target).status = .UNBOUNDED) :
    ∃ x c, Reach E s x ∧ Walk E x x c ∧ c < 0 := by
  apply Classical.byContradiction
  intro hno
  have hnn : ∀ x, Reach E s x → ∀ c, Walk E x x c → 0 ≤ c := by
    intro x hx c hc
    apply Classical.byContradiction
    intro hneg
    exact hno ⟨x, c, hx, hc, by omega⟩
  have inv := bfInv_rounds (E := E) (n - 1) (bfInit n s) (bfInv_init E hs)
  have hb0 : Bounded E s 0 (bfInit n s) := by
    intro v es hw hlen
    have : es = [] := List.eq_nil_of_length_eq_zero (by omega)
    subst this
    cases hw
    obtain ⟨c0, hc0, hle⟩ := (bfInv_init E hs).start
    exact ⟨c0, hc0, by simp [wsum]; exact hle⟩
  have hfin : E.any (relaxable (bfRounds E (n - 1) (bfInit n s)).dist) = false := by
    rcases bounded_rounds hE (n - 1) 0 (bfInit n s) (bfInv_init E hs) hb0 with h | hb
    · exact h
    · cases hany : E.any (relaxable (bfRounds E (n - 1) (bfInit n s)).dist) with
      | false => rfl
      | true =>
        exfalso
        obtain ⟨e, he, hr⟩ := List.any_eq_true.mp hany
        obtain ⟨du, hdu, hcase⟩ := relaxable_iff.mp hr
        obtain ⟨es, hes, hsum⟩ := (inv.real e.1 du hdu).toL
        have hw : WalkL E s e.2.1 (es ++ [(e.1, e.2.1, e.2.2)]) :=
          hes.append (WalkL.cons (by simpa using he) (WalkL.nil _))
        obtain ⟨es', h1, h2, h3⟩ := WalkL.shorten hE _ (Nat.le_refl _) hw hs hnn
        have hl' : es'.length ≤ 0 + (n - 1) := by omega
        obtain ⟨dv, hdv, hle⟩ := hb e.2.1 es' h1 hl'
        have h1w : wsum [(e.1, e.2.1, e.2.2)] = e.2.2 := by simp [wsum]
        rw [wsum_append, hsum, h1w] at h3
        rcases hcase with h0 | ⟨dv', h4, h5⟩
        · rw [hdv] at h0; cases h0
        · rw [hdv] at h4; cases h4; omega
  have hpc := no_par_cycle (E := E) hs hnn
  unfold bellmanFord bfFinish at hu
  simp [hfin, hpc] at hu
  cases target with
  | none => simp at hu
  | some t =>
    simp only at hu
    cases hl : look (bfRounds E (n - 1) (bfInit n s)).dist t <;> simp [hl] at hu

end Solvor.Path
