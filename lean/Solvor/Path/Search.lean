import Solvor.Path.Lemmas
import Solvor.Path.BellmanFord
/-! Path: loop invariants of the BFS / DFS mirror (`searchLoop`), parent-pointer reconstruction,
the iteration bound, and the BFS layering invariant. -/
namespace Solvor.Path
set_option linter.unusedSectionVars false
set_option linter.unusedVariables false
set_option linter.unusedSimpArgs false

/-! ### small facts -/

theorem mem_succOf {W : Type} {E : List (Edge W)} {u v : Nat} :
    v ∈ succOf E u ↔ ∃ w, (u, v, w) ∈ E := by
  simp only [succOf, adjOf, List.mem_map, List.mem_filterMap]
  constructor
  · rintro ⟨⟨a, b⟩, ⟨⟨x, y, z⟩, hm, hx⟩, rfl⟩
    simp only at hx
    split at hx
    · next h => cases hx; subst h; exact ⟨_, hm⟩
    · cases hx
  · rintro ⟨w, hm⟩
    exact ⟨(v, w), ⟨(u, v, w), hm, by simp⟩, rfl⟩

theorem mem_unitE {W : Type} {E : List (Edge W)} {u v : Nat} {w : W} (h : (u, v, w) ∈ E) :
    (u, v, (1 : Int)) ∈ unitE E := by
  simp only [unitE, List.mem_map]
  exact ⟨(u, v, w), h, rfl⟩

theorem unitE_weight {W : Type} {E : List (Edge W)} {e : Edge Int} (h : e ∈ unitE E) :
    e.2.2 = 1 ∧ ∃ w, (e.1, e.2.1, w) ∈ E := by
  simp only [unitE, List.mem_map] at h
  obtain ⟨⟨a, b, c⟩, hm, rfl⟩ := h
  exact ⟨rfl, c, hm⟩

theorem edgeCost_unitE {W : Type} {E : List (Edge W)} {u v : Nat} {w : W} (h : (u, v, w) ∈ E) :
    edgeCost (unitE E) u v = some 1 := by
  obtain ⟨m, hm, _, hmm⟩ := edgeCost_min (mem_unitE h)
  have := (unitE_weight hmm).1
  simp only at this
  rw [hm, this]

theorem pathCost_snoc {E : List (Edge Int)} : ∀ (p : List Nat) (u v : Nat) (c w : Int),
    pathCost E p = some c → p.getLast? = some u → edgeCost E u v = some w →
    pathCost E (p ++ [v]) = some (c + w) := by
  intro p
  induction p with
  | nil => intro u v c w h; simp [pathCost] at h
  | cons a rest ih =>
    intro u v c w hc hl hw
    cases rest with
    | nil =>
      simp only [pathCost, Option.some.injEq] at hc
      simp only [List.getLast?_singleton, Option.some.injEq] at hl
      subst hl; subst hc
      simp [pathCost, hw]
    | cons b rest' =>
      simp only [pathCost] at hc
      cases he : edgeCost E a b with
      | none => simp [he] at hc
      | some x =>
        cases hr : pathCost E (b :: rest') with
        | none => simp [he, hr] at hc
        | some y =>
          simp only [he, hr, Option.some.injEq] at hc
          rw [List.getLast?_cons_cons] at hl
          have := ih u v y w hr hl hw
          simp only [List.cons_append] at this ⊢
          simp only [pathCost, he, this]
          congr 1; omega

/-- pigeonhole: a duplicate-free list of numbers below `n` has at most `n` elements -/
theorem nodup_length_le : ∀ (n : Nat) (l : List Nat), l.Nodup → (∀ x ∈ l, x < n) → l.length ≤ n := by
  intro n
  induction n with
  | zero =>
    intro l _ h
    cases l with
    | nil => simp
    | cons a l => exact absurd (h a List.mem_cons_self) (Nat.not_lt_zero a)
  | succ n ih =>
    intro l hnd h
    have hnd' : (l.erase n).Nodup := hnd.erase n
    have hlt : ∀ x ∈ l.erase n, x < n := by
      intro x hx
      have hx' := (List.Nodup.mem_erase_iff hnd).mp hx
      have := h x hx'.2
      omega
    have := ih (l.erase n) hnd' hlt
    by_cases hm : n ∈ l
    · rw [List.length_erase_of_mem hm] at this; omega
    · rw [List.erase_of_not_mem hm] at this; omega

/-! ### parent chains -/

section search
variable {W : Type} (E : List (Edge W)) (n s : Nat) (isGoal : Nat → Bool)

/-- `Chain E s par V v k`: following `par` from `v` reaches `s` after `k` steps, every step
being an edge of `E` and every node on the way lying in `V`. -/
inductive Chain (par : Tab Nat) (V : List Nat) : Nat → Nat → Prop
  | root : look par s = none → s ∈ V → Chain par V s 0
  | step {u v k : Nat} {w : W} : look par v = some u → (u, v, w) ∈ E → v ∈ V → Chain par V u k →
      Chain par V v (k + 1)

variable {E n s isGoal}

theorem Chain.mem {par : Tab Nat} {V : List Nat} {v k : Nat} (h : Chain E s par V v k) : v ∈ V := by
  cases h with
  | root _ h => exact h
  | step _ _ h _ => exact h

theorem Chain.extend {par : Tab Nat} {V : List Nat} {v k : Nat} (h : Chain E s par V v k) (nb : Nat)
    (x : Option Nat) (hnb : nb ∉ V) : Chain E s (par.set nb x) (nb :: V) v k := by
  induction h with
  | root h0 hs =>
    refine Chain.root ?_ (List.mem_cons_of_mem _ hs)
    rw [look_set_ne _ _ _ _ (fun e => hnb (by rw [e]; exact hs))]; exact h0
  | step hp he hv _ ih =>
    refine Chain.step ?_ he (List.mem_cons_of_mem _ hv) ih
    rw [look_set_ne _ _ _ _ (fun e => hnb (by rw [e]; exact hv))]; exact hp

/-- `reconstruct_path` along a chain: a checked path from `s` with `k` edges. -/
theorem recon_chain {par : Tab Nat} {V : List Nat} {v k : Nat} (h : Chain E s par V v k) :
    ∀ (fuel : Nat) (acc : List Nat), k < fuel →
      ∃ p, recon par fuel v acc = some (p ++ acc) ∧ p.length = k + 1 ∧ p.head? = some s ∧
        p.getLast? = some v ∧ pathCost (unitE E) p = some (k : Int) := by
  induction h with
  | root h0 hs =>
    intro fuel acc hf
    obtain ⟨f, rfl⟩ : ∃ f, fuel = f + 1 := ⟨fuel - 1, by omega⟩
    exact ⟨[s], by simp [recon, h0], rfl, rfl, rfl, by simp [pathCost]⟩
  | @step u v k w hp he hv _ ih =>
    intro fuel acc hf
    obtain ⟨f, rfl⟩ : ∃ f, fuel = f + 1 := ⟨fuel - 1, by omega⟩
    obtain ⟨p, hr, hlen, hh, hl, hc⟩ := ih f (v :: acc) (by omega)
    refine ⟨p ++ [v], ?_, by simp [hlen], ?_, by simp, ?_⟩
    · simp only [recon, hp, hr, List.append_assoc, List.singleton_append]
    · cases p with
      | nil => simp at hlen
      | cons a p => simpa using hh
    · have := pathCost_snoc p u v k 1 hc hl (edgeCost_unitE he)
      rw [this]; simp

theorem Chain.unique {par : Tab Nat} {V : List Nat} {v k k' : Nat} (h : Chain E s par V v k)
    (h' : Chain E s par V v k') : k = k' := by
  induction h generalizing k' with
  | root h0 _ =>
    cases h' with
    | root _ _ => rfl
    | step hp _ _ _ => rw [h0] at hp; cases hp
  | step hp _ _ _ ih =>
    cases h' with
    | root h0 _ => rw [h0] at hp; cases hp
    | step hp' _ _ hc' =>
      rw [hp] at hp'; cases hp'
      rw [ih hc']

theorem Chain.walk {par : Tab Nat} {V : List Nat} {v k : Nat} (h : Chain E s par V v k) :
    Walk (unitE E) s v (k : Int) := by
  induction h with
  | root _ _ => exact Walk.nil s
  | step _ he _ _ ih =>
    have := Walk.snoc ih (mem_unitE he)
    rw [Int.natCast_succ]; exact this

/-! ### the generic loop -/

/-- both `for neighbor in neighbors(current)` bodies, the frontier update being `push` -/
def discW (push : List Nat → Nat → List Nat) (cur : Nat) (st : SSt) (nb : Nat) : SSt :=
  if st.visited.contains nb then st
  else ⟨nb :: st.visited, st.parent.set nb (some cur), push st.frontier nb⟩

theorem bfsDiscover_eq : bfsDiscover = discW (fun fr nb => fr ++ [nb]) := rfl
theorem dfsDiscover_eq : dfsDiscover = discW (fun fr nb => nb :: fr) := rfl

structure PushOK (push : List Nat → Nat → List Nat) : Prop where
  mem : ∀ fr nb x, x ∈ push fr nb ↔ x ∈ fr ∨ x = nb
  nodup : ∀ fr nb, fr.Nodup → nb ∉ fr → (push fr nb).Nodup
  len : ∀ fr nb, (push fr nb).length = fr.length + 1

theorem pushOK_bfs : PushOK (fun fr nb => fr ++ [nb]) where
  mem := by intro fr nb x; simp
  nodup := by
    intro fr nb h hn
    rw [List.nodup_append]
    refine ⟨h, by simp, ?_⟩
    intro a ha b hb
    simp at hb; subst hb
    exact fun e => hn (e ▸ ha)
  len := by intro fr nb; simp

theorem pushOK_dfs : PushOK (fun fr nb => nb :: fr) where
  mem := by intro fr nb x; simp [or_comm]
  nodup := by intro fr nb h hn; exact List.nodup_cons.mpr ⟨hn, h⟩
  len := by intro fr nb; simp

/-- a generic invariant-preservation principle for `searchLoop` -/
theorem loop_gen (disc : Nat → SSt → Nat → SSt) (succ : Nat → List Nat) (I : SSt → Prop)
    (hstep : ∀ st cur rest, I st → st.frontier = cur :: rest → isGoal cur = false →
      I ((succ cur).foldl (disc cur) { st with frontier := rest })) :
    ∀ (fuel : Nat) (st : SSt), I st →
      match searchLoop disc succ isGoal fuel st with
      | .found cur st' => ∃ st0 rest, I st0 ∧ st0.frontier = cur :: rest ∧ isGoal cur = true ∧
          st' = { st0 with frontier := rest }
      | .exhausted st' => I st' ∧ st'.frontier = []
      | .cutoff st' => I st' := by
  intro fuel
  induction fuel with
  | zero => intro st hI; simpa [searchLoop] using hI
  | succ k ih =>
    intro st hI
    unfold searchLoop
    cases hf : st.frontier with
    | nil => simp only; exact ⟨hI, hf⟩
    | cons cur rest =>
      simp only
      by_cases hg : isGoal cur = true
      · simp only [hg, if_true]
        exact ⟨st, rest, hI, hf, by first | trivial | exact hg, rfl⟩
      · have hg' : isGoal cur = false := by simpa using hg
        simp only [hg', Bool.false_eq_true, if_false]
        exact ih _ (hstep st cur rest hI hf hg')

/-- The tree invariant shared by BFS and DFS.  `ex` marks the node whose adjacency list is being
scanned (its out-edges are not all handled yet). -/
structure SInvG (E : List (Edge W)) (n s : Nat) (isGoal : Nat → Bool) (ex : Nat → Prop) (st : SSt) : Prop where
  plen : st.parent.length = n
  s_vis : s ∈ st.visited
  vis_lt : ∀ v ∈ st.visited, v < n
  nodup : st.visited.Nodup
  fr_nodup : st.frontier.Nodup
  fr_vis : ∀ v ∈ st.frontier, v ∈ st.visited
  chain : ∀ v ∈ st.visited, ∃ k, Chain E s st.parent st.visited v k ∧ k < st.visited.length
  closed : ∀ u ∈ st.visited, u ∉ st.frontier → ¬ ex u → ∀ e ∈ E, e.1 = u → e.2.1 ∈ st.visited
  nongoal : ∀ u ∈ st.visited, u ∉ st.frontier → isGoal u = false

abbrev SInv (E : List (Edge W)) (n s : Nat) (isGoal : Nat → Bool) (st : SSt) : Prop :=
  SInvG E n s isGoal (fun _ => False) st

theorem sinv_init (hs : s < n) : SInv E n s isGoal (searchInit n s) := by
  refine ⟨by simp [searchInit, Tab.empty], by simp [searchInit], ?_, by simp [searchInit], by simp [searchInit],
    by simp [searchInit], ?_, ?_, ?_⟩
  · intro v hv; simp [searchInit] at hv; omega
  · intro v hv
    simp [searchInit] at hv; subst hv
    exact ⟨0, Chain.root (look_empty _ _) (by simp [searchInit]), by simp [searchInit]⟩
  · intro u hu hnf; simp [searchInit] at hu hnf; exact absurd hu hnf
  · intro u hu hnf; simp [searchInit] at hu hnf; exact absurd hu hnf

variable {push : List Nat → Nat → List Nat}

theorem disc_step (hp : PushOK push) (hE : ∀ e ∈ E, e.2.1 < n) {ex : Nat → Prop} {st : SSt} {cur nb : Nat}
    {w : W} (inv : SInvG E n s isGoal ex st) (hcv : cur ∈ st.visited) (hcf : cur ∉ st.frontier)
    (hgc : isGoal cur = false) (he : (cur, nb, w) ∈ E) :
    SInvG E n s isGoal ex (discW push cur st nb) ∧ nb ∈ (discW push cur st nb).visited ∧
      (∀ v ∈ st.visited, v ∈ (discW push cur st nb).visited) ∧ cur ∉ (discW push cur st nb).frontier ∧
      (discW push cur st nb).visited.length + st.frontier.length =
        st.visited.length + (discW push cur st nb).frontier.length ∧
      (∀ v ∈ st.frontier, v ∈ (discW push cur st nb).frontier) ∧
      (∀ v ∈ (discW push cur st nb).visited, v ∉ st.visited → v ∈ (discW push cur st nb).frontier) := by
  unfold discW
  by_cases hv : st.visited.contains nb = true
  · simp only [hv, if_true]
    exact ⟨inv, by simpa using hv, fun v h => h, hcf, by first | rfl | trivial, fun v h => h, fun v h h' => absurd h h'⟩
  · have hnv : nb ∉ st.visited := by simpa using hv
    simp only [hv]
    have hnbn : nb < n := hE _ he
    have hnf : nb ∉ st.frontier := fun h => hnv (inv.fr_vis nb h)
    have hnc : nb ≠ cur := fun e => hnv (e ▸ hcv)
    refine ⟨⟨by simp [inv.plen], List.mem_cons_of_mem _ inv.s_vis, ?_, List.nodup_cons.mpr ⟨hnv, inv.nodup⟩,
      hp.nodup _ _ inv.fr_nodup hnf, ?_, ?_, ?_, ?_⟩, List.mem_cons_self, fun v h => List.mem_cons_of_mem _ h, ?_, ?_,
      fun v h => (hp.mem _ _ _).mpr (Or.inl h), ?_⟩
    · intro v hv'
      rcases List.mem_cons.mp hv' with h | h
      · rw [h]; exact hnbn
      · exact inv.vis_lt v h
    · intro v hv'
      rcases (hp.mem _ _ _).mp hv' with h | h
      · exact List.mem_cons_of_mem _ (inv.fr_vis v h)
      · rw [h]; exact List.mem_cons_self
    · intro v hv'
      rcases List.mem_cons.mp hv' with h | h
      · subst h
        obtain ⟨k, hk, hkl⟩ := inv.chain cur hcv
        refine ⟨k + 1, Chain.step ?_ he List.mem_cons_self (hk.extend v _ hnv), by simp; omega⟩
        exact look_set_eq _ _ _ (by rw [inv.plen]; exact hnbn)
      · obtain ⟨k, hk, hkl⟩ := inv.chain v h
        exact ⟨k, hk.extend nb _ hnv, by simp; omega⟩
    · intro u hu huf hex e he' heu
      have huf' : u ∉ st.frontier ∧ u ≠ nb := by
        constructor
        · exact fun h => huf ((hp.mem _ _ _).mpr (Or.inl h))
        · exact fun h => huf ((hp.mem _ _ _).mpr (Or.inr h))
      rcases List.mem_cons.mp hu with h | h
      · exact absurd h huf'.2
      · exact List.mem_cons_of_mem _ (inv.closed u h huf'.1 hex e he' heu)
    · intro u hu huf
      have huf' : u ∉ st.frontier ∧ u ≠ nb := by
        constructor
        · exact fun h => huf ((hp.mem _ _ _).mpr (Or.inl h))
        · exact fun h => huf ((hp.mem _ _ _).mpr (Or.inr h))
      rcases List.mem_cons.mp hu with h | h
      · exact absurd h huf'.2
      · exact inv.nongoal u h huf'.1
    · intro h
      rcases (hp.mem _ _ _).mp h with h | h
      · exact hcf h
      · exact hnc h.symm
    · have := hp.len st.frontier nb
      show (nb :: st.visited).length + st.frontier.length = st.visited.length + (push st.frontier nb).length
      rw [List.length_cons]; omega
    · intro v hv' hnv'
      rcases List.mem_cons.mp hv' with h | h
      · exact (hp.mem _ _ _).mpr (Or.inr h)
      · exact absurd h hnv'

theorem disc_fold (hp : PushOK push) (hE : ∀ e ∈ E, e.2.1 < n) {ex : Nat → Prop} {cur : Nat}
    (hgc : isGoal cur = false) : ∀ (L : List Nat) (st : SSt), (∀ nb ∈ L, ∃ w, (cur, nb, w) ∈ E) →
    SInvG E n s isGoal ex st → cur ∈ st.visited → cur ∉ st.frontier →
    SInvG E n s isGoal ex (L.foldl (discW push cur) st) ∧ (∀ nb ∈ L, nb ∈ (L.foldl (discW push cur) st).visited) ∧
      (∀ v ∈ st.visited, v ∈ (L.foldl (discW push cur) st).visited) ∧ cur ∉ (L.foldl (discW push cur) st).frontier ∧
      (L.foldl (discW push cur) st).visited.length + st.frontier.length =
        st.visited.length + (L.foldl (discW push cur) st).frontier.length ∧
      (∀ v ∈ st.frontier, v ∈ (L.foldl (discW push cur) st).frontier) ∧
      (∀ v ∈ (L.foldl (discW push cur) st).visited, v ∉ st.visited → v ∈ (L.foldl (discW push cur) st).frontier) := by
  intro L
  induction L with
  | nil => intro st _ inv hcv hcf; exact ⟨inv, by simp, fun v h => h, hcf, rfl, fun v h => h, fun v h h' => absurd h h'⟩
  | cons nb L ih =>
    intro st hL inv hcv hcf
    obtain ⟨w, he⟩ := hL nb List.mem_cons_self
    obtain ⟨i1, m1, sub1, f1, l1, fm1, nw1⟩ := disc_step hp hE inv hcv hcf hgc he
    obtain ⟨i2, m2, sub2, f2, l2, fm2, nw2⟩ := ih (discW push cur st nb) (fun x hx => hL x (List.mem_cons_of_mem _ hx)) i1
      (sub1 cur hcv) f1
    rw [List.foldl_cons]
    refine ⟨i2, ?_, fun v h => sub2 v (sub1 v h), f2, by omega, fun v h => fm2 v (fm1 v h), ?_⟩
    · intro x hx
      rcases List.mem_cons.mp hx with h | h
      · rw [h]; exact sub2 nb m1
      · exact m2 x h
    · intro v hv hnv
      by_cases h1 : v ∈ (discW push cur st nb).visited
      · exact fm2 v (nw1 v h1 hnv)
      · exact nw2 v hv h1

/-- one whole iteration of the `while` loop (non-goal node popped, its neighbours scanned) -/
theorem sinv_iter (hp : PushOK push) (hE : ∀ e ∈ E, e.2.1 < n) {st : SSt} {cur : Nat} {rest : List Nat}
    (inv : SInv E n s isGoal st) (hf : st.frontier = cur :: rest) (hg : isGoal cur = false) :
    let st' := (succOf E cur).foldl (discW push cur) { st with frontier := rest }
    SInv E n s isGoal st' ∧ (∀ v ∈ st.visited, v ∈ st'.visited) ∧
      st'.visited.length + rest.length = st.visited.length + st'.frontier.length ∧
      (∀ nb ∈ succOf E cur, nb ∈ st'.visited) ∧ cur ∉ st'.frontier ∧
      (∀ v ∈ rest, v ∈ st'.frontier) ∧ (∀ v ∈ st'.visited, v ∉ st.visited → v ∈ st'.frontier) := by
  have hnd : (cur :: rest).Nodup := hf ▸ inv.fr_nodup
  have hcr : cur ∉ rest := (List.nodup_cons.mp hnd).1
  have hcv : cur ∈ st.visited := inv.fr_vis cur (by rw [hf]; exact List.mem_cons_self)
  have mid : SInvG E n s isGoal (· = cur) { st with frontier := rest } := by
    refine ⟨inv.plen, inv.s_vis, inv.vis_lt, inv.nodup, (List.nodup_cons.mp hnd).2, ?_, inv.chain, ?_, ?_⟩
    · intro v hv; exact inv.fr_vis v (by rw [hf]; exact List.mem_cons_of_mem _ hv)
    · intro u hu hur hex
      have : u ∉ st.frontier := by
        rw [hf]; intro h
        rcases List.mem_cons.mp h with h | h
        · exact hex h
        · exact hur h
      exact inv.closed u hu this (fun h => h)
    · intro u hu hur
      by_cases huc : u = cur
      · rw [huc]; exact hg
      · have : u ∉ st.frontier := by
          rw [hf]; intro h
          rcases List.mem_cons.mp h with h | h
          · exact huc h
          · exact hur h
        exact inv.nongoal u hu this
  obtain ⟨i, m, sub, f, l, fm, nw⟩ := disc_fold hp hE hg (succOf E cur) { st with frontier := rest }
    (fun nb h => mem_succOf.mp h) mid hcv hcr
  refine ⟨⟨i.plen, i.s_vis, i.vis_lt, i.nodup, i.fr_nodup, i.fr_vis, i.chain, ?_, i.nongoal⟩, sub, l, m, f, fm, nw⟩
  intro u hu huf _ e he heu
  by_cases huc : u = cur
  · apply m
    rw [mem_succOf]
    obtain ⟨a, b, c⟩ := e
    simp only at heu
    exact ⟨c, by rw [← huc, ← heu]; exact he⟩
  · exact i.closed u hu huf huc e he heu

/-- the loop cannot be cut off by `max_iter` once `max_iter` exceeds the number of nodes -/
theorem loop_no_cutoff (hp : PushOK push) (hE : ∀ e ∈ E, e.2.1 < n) :
    ∀ (fuel : Nat) (st : SSt), SInv E n s isGoal st → n + st.frontier.length < fuel + st.visited.length →
      ∀ st', searchLoop (discW push) (succOf E) isGoal fuel st ≠ .cutoff st' := by
  intro fuel
  induction fuel with
  | zero =>
    intro st inv h
    have := nodup_length_le n st.visited inv.nodup inv.vis_lt
    omega
  | succ k ih =>
    intro st inv h st'
    unfold searchLoop
    cases hf : st.frontier with
    | nil => simp
    | cons cur rest =>
      simp only
      by_cases hg : isGoal cur = true
      · simp [hg]
      · have hg' : isGoal cur = false := by simpa using hg
        simp only [hg', Bool.false_eq_true, if_false]
        obtain ⟨i, _, l, _, _, _, _⟩ := sinv_iter hp hE inv hf hg'
        apply ih _ i
        rw [hf] at h
        simp only [List.length_cons] at h
        omega

/-- exhausted search: the visited set is closed, so nothing outside it is reachable -/
theorem closed_reach {V : List Nat} (hc : ∀ u ∈ V, ∀ e ∈ E, e.1 = u → e.2.1 ∈ V) {u t : Nat} {c : Int}
    (hw : Walk (unitE E) u t c) : u ∈ V → t ∈ V := by
  induction hw with
  | nil u => exact id
  | @cons u v t w c he _ ih =>
    intro hu
    apply ih
    obtain ⟨_, w', hm⟩ := unitE_weight he
    exact hc u hu _ hm rfl

end search

/-! ### BFS layering -/

section bfs
variable {W : Type} {E : List (Edge W)} {n s : Nat} {isGoal : Nat → Bool}

/-- potential argument with a function instead of a table -/
theorem fn_potential_walk {E' : List (Edge Int)} (f : Nat → Int)
    (hf : ∀ e ∈ E', f e.2.1 ≤ f e.1 + e.2.2) {u t : Nat} {c : Int} (hw : Walk E' u t c) :
    f t ≤ f u + c := by
  induction hw with
  | nil u => omega
  | @cons u v t w c he _ ih => have := hf _ he; simp only at this; omega

/-- BFS layering: the queue holds depth-`D` nodes followed by depth-`D+1` nodes, popped nodes have
depth `≤ D` and their out-edges raise the depth by at most one. -/
structure BInv (E : List (Edge W)) (s : Nat) (dep : Nat → Nat) (D : Nat) (st : SSt) : Prop where
  dep_s : dep s = 0
  dchain : ∀ v ∈ st.visited, Chain E s st.parent st.visited v (dep v)
  layer : ∃ A B, st.frontier = A ++ B ∧ (∀ a ∈ A, dep a = D) ∧ (∀ b ∈ B, dep b = D + 1)
  proc_le : ∀ u ∈ st.visited, u ∉ st.frontier → dep u ≤ D
  edge : ∀ u ∈ st.visited, u ∉ st.frontier → ∀ e ∈ E, e.1 = u → dep e.2.1 ≤ dep u + 1

theorem BInv.vis_le {dep : Nat → Nat} {D : Nat} {st : SSt} (b : BInv E s dep D st) :
    ∀ v ∈ st.visited, dep v ≤ D + 1 := by
  intro v hv
  by_cases hf : v ∈ st.frontier
  · obtain ⟨A, B, hAB, hA, hB⟩ := b.layer
    rw [hAB] at hf
    rcases List.mem_append.mp hf with h | h
    · have := hA v h; omega
    · have := hB v h; omega
  · have := b.proc_le v hv hf; omega

theorem BInv.fr_ge {dep : Nat → Nat} {D : Nat} {st : SSt} (b : BInv E s dep D st) :
    ∀ v ∈ st.frontier, D ≤ dep v := by
  intro v hf
  obtain ⟨A, B, hAB, hA, hB⟩ := b.layer
  rw [hAB] at hf
  rcases List.mem_append.mp hf with h | h
  · have := hA v h; omega
  · have := hB v h; omega

/-- if the depth-`D` block is empty the queue is a depth-`D+1` block -/
theorem BInv.bump {dep : Nat → Nat} {D : Nat} {st : SSt} (b : BInv E s dep D st)
    (h : ∀ A B, st.frontier = A ++ B → (∀ a ∈ A, dep a = D) → (∀ b ∈ B, dep b = D + 1) → A = []) :
    BInv E s dep (D + 1) st := by
  obtain ⟨A, B, hAB, hA, hB⟩ := b.layer
  have hAe := h A B hAB hA hB
  subst hAe
  refine ⟨b.dep_s, b.dchain, ⟨B, [], by simpa using hAB, hB, by simp⟩, ?_, b.edge⟩
  intro u hu huf
  have := b.proc_le u hu huf; omega

/-- the BFS discovery step keeps the layering (the node being scanned has depth `D`) -/
theorem bfs_disc_step {dep : Nat → Nat} {D : Nat} {st : SSt} {cur nb : Nat} {w : W}
    (hE : ∀ e ∈ E, e.2.1 < n) (inv : SInvG E n s isGoal (· = cur) st)
    (hcv : cur ∈ st.visited) (hdc : dep cur = D) (he : (cur, nb, w) ∈ E)
    (dep_s : dep s = 0)
    (dchain : ∀ v ∈ st.visited, Chain E s st.parent st.visited v (dep v))
    (layer : ∃ A B, st.frontier = A ++ B ∧ (∀ a ∈ A, dep a = D) ∧ (∀ b ∈ B, dep b = D + 1)) :
    ∃ dep' : Nat → Nat, (∀ v ∈ st.visited, dep' v = dep v) ∧ dep' s = 0 ∧
      (∀ v ∈ (bfsDiscover cur st nb).visited,
        Chain E s (bfsDiscover cur st nb).parent (bfsDiscover cur st nb).visited v (dep' v)) ∧
      (∃ A B, (bfsDiscover cur st nb).frontier = A ++ B ∧ (∀ a ∈ A, dep' a = D) ∧ (∀ b ∈ B, dep' b = D + 1)) ∧
      (∀ v ∈ (bfsDiscover cur st nb).visited, v ∉ st.visited → dep' v = D + 1) := by
  unfold bfsDiscover
  by_cases hv : st.visited.contains nb = true
  · simp only [hv, if_true]
    exact ⟨dep, fun _ _ => rfl, dep_s, dchain, layer, fun v h h' => absurd h h'⟩
  · have hnv : nb ∉ st.visited := by simpa using hv
    simp only [hv]
    have hnbn : nb < n := hE _ he
    refine ⟨fun v => if v = nb then D + 1 else dep v, ?_, ?_, ?_, ?_, ?_⟩
    · intro v hv'
      have : v ≠ nb := fun e => hnv (e ▸ hv')
      simp [this]
    · have : s ≠ nb := fun e => hnv (e ▸ inv.s_vis)
      simp [this, dep_s]
    · intro v hv'
      rcases List.mem_cons.mp hv' with h | h
      · subst h
        simp only [if_true]
        have hc := (dchain cur hcv).extend v (some cur) hnv
        rw [hdc] at hc
        exact Chain.step (look_set_eq _ _ _ (by rw [inv.plen]; exact hnbn)) he List.mem_cons_self hc
      · have : v ≠ nb := fun e => hnv (e ▸ h)
        simp only [this, if_false]
        exact (dchain v h).extend nb _ hnv
    · obtain ⟨A, B, hAB, hA, hB⟩ := layer
      refine ⟨A, B ++ [nb], by simp [hAB], ?_, ?_⟩
      · intro a ha
        have : a ≠ nb := by
          intro e; subst e
          exact hnv (inv.fr_vis _ (by rw [hAB]; exact List.mem_append_left _ ha))
        simp [this, hA a ha]
      · intro b hb
        rcases List.mem_append.mp hb with h | h
        · have : b ≠ nb := by
            intro e; subst e
            exact hnv (inv.fr_vis _ (by rw [hAB]; exact List.mem_append_right _ h))
          simp [this, hB b h]
        · simp at h; simp [h]
    · intro v hv' hnv'
      rcases List.mem_cons.mp hv' with h | h
      · simp [h]
      · exact absurd h hnv'

/-- scanning the whole adjacency list of the popped node `cur` (depth `D`) -/
theorem bfs_fold {D : Nat} {cur : Nat} (hE : ∀ e ∈ E, e.2.1 < n) (hgc : isGoal cur = false) :
    ∀ (L : List Nat) (st : SSt) (dep : Nat → Nat), (∀ nb ∈ L, ∃ w, (cur, nb, w) ∈ E) →
    SInvG E n s isGoal (· = cur) st → cur ∈ st.visited → cur ∉ st.frontier → dep cur = D → dep s = 0 →
    (∀ v ∈ st.visited, Chain E s st.parent st.visited v (dep v)) →
    (∃ A B, st.frontier = A ++ B ∧ (∀ a ∈ A, dep a = D) ∧ (∀ b ∈ B, dep b = D + 1)) →
    ∃ dep' : Nat → Nat, (∀ v ∈ st.visited, dep' v = dep v) ∧ dep' s = 0 ∧
      (∀ v ∈ (L.foldl (bfsDiscover cur) st).visited,
        Chain E s (L.foldl (bfsDiscover cur) st).parent (L.foldl (bfsDiscover cur) st).visited v (dep' v)) ∧
      (∃ A B, (L.foldl (bfsDiscover cur) st).frontier = A ++ B ∧ (∀ a ∈ A, dep' a = D) ∧ (∀ b ∈ B, dep' b = D + 1)) ∧
      (∀ v ∈ (L.foldl (bfsDiscover cur) st).visited, v ∉ st.visited → dep' v = D + 1) := by
  intro L
  induction L with
  | nil =>
    intro st dep _ _ _ _ _ hs0 hch hly
    exact ⟨dep, fun _ _ => rfl, hs0, hch, hly, fun v h h' => absurd h h'⟩
  | cons nb L ih =>
    intro st dep hL inv hcv hcf hdc hs0 hch hly
    obtain ⟨w, he⟩ := hL nb List.mem_cons_self
    obtain ⟨dep1, ag1, s1, ch1, ly1, nw1⟩ := bfs_disc_step hE inv hcv hdc he hs0 hch hly
    have hstep := disc_step pushOK_bfs hE inv hcv hcf hgc he
    rw [← bfsDiscover_eq] at hstep
    obtain ⟨i1, m1, sub1, f1, _, _, _⟩ := hstep
    obtain ⟨dep2, ag2, s2, ch2, ly2, nw2⟩ := ih (bfsDiscover cur st nb) dep1
      (fun x hx => hL x (List.mem_cons_of_mem _ hx)) i1 (sub1 cur hcv) f1
      (by rw [ag1 cur hcv]; exact hdc) s1 ch1 ly1
    rw [List.foldl_cons]
    refine ⟨dep2, fun v hv => by rw [ag2 v (sub1 v hv), ag1 v hv], s2, ch2, ly2, ?_⟩
    intro v hv hnv
    by_cases h1 : v ∈ (bfsDiscover cur st nb).visited
    · rw [ag2 v h1]; exact nw1 v h1 hnv
    · exact nw2 v hv h1

/-- the head of the queue has the depth of the first block (after renaming `D` if that block is empty) -/
theorem BInv.head {dep : Nat → Nat} {D : Nat} {st : SSt} {cur : Nat} {rest : List Nat}
    (b : BInv E s dep D st) (hf : st.frontier = cur :: rest) :
    ∃ D0 A' B, BInv E s dep D0 st ∧ rest = A' ++ B ∧ dep cur = D0 ∧ (∀ a ∈ A', dep a = D0) ∧
      (∀ b ∈ B, dep b = D0 + 1) := by
  obtain ⟨A, B, hAB, hA, hB⟩ := b.layer
  cases A with
  | nil =>
    simp only [List.nil_append] at hAB
    have hB' : ∀ x ∈ cur :: rest, dep x = D + 1 := by rw [← hf, hAB]; exact hB
    refine ⟨D + 1, rest, [], ?_, by simp, hB' cur List.mem_cons_self,
      fun a ha => hB' a (List.mem_cons_of_mem _ ha), by simp⟩
    refine ⟨b.dep_s, b.dchain, ⟨cur :: rest, [], by simp [hf], hB', by simp⟩, ?_, b.edge⟩
    intro u hu huf
    have := b.proc_le u hu huf; omega
  | cons a A' =>
    rw [hf] at hAB
    simp only [List.cons_append, List.cons.injEq] at hAB
    obtain ⟨h1, h2⟩ := hAB
    subst h1
    exact ⟨D, A', B, b, h2, hA cur List.mem_cons_self, fun a ha => hA a (List.mem_cons_of_mem _ ha), hB⟩

/-- one whole BFS iteration keeps the layering -/
theorem bfs_iter {dep : Nat → Nat} {D : Nat} (hE : ∀ e ∈ E, e.2.1 < n) {st : SSt} {cur : Nat} {rest : List Nat}
    (inv : SInv E n s isGoal st) (b : BInv E s dep D st) (hf : st.frontier = cur :: rest)
    (hg : isGoal cur = false) :
    ∃ dep' D', BInv E s dep' D' ((succOf E cur).foldl (bfsDiscover cur) { st with frontier := rest }) := by
  obtain ⟨D0, A', B, b0, hrest, hdc, hA', hB⟩ := b.head hf
  have hnd : (cur :: rest).Nodup := hf ▸ inv.fr_nodup
  have hcr : cur ∉ rest := (List.nodup_cons.mp hnd).1
  have hcv : cur ∈ st.visited := inv.fr_vis cur (by rw [hf]; exact List.mem_cons_self)
  -- facts of the generic iteration
  have hit := sinv_iter pushOK_bfs hE inv hf hg
  rw [← bfsDiscover_eq] at hit
  obtain ⟨i, sub, _, m, f, fm, nw⟩ := hit
  -- the mid state invariant (as in `sinv_iter`)
  have mid : SInvG E n s isGoal (· = cur) { st with frontier := rest } := by
    refine ⟨inv.plen, inv.s_vis, inv.vis_lt, inv.nodup, (List.nodup_cons.mp hnd).2, ?_, inv.chain, ?_, ?_⟩
    · intro v hv; exact inv.fr_vis v (by rw [hf]; exact List.mem_cons_of_mem _ hv)
    · intro u hu hur hex
      have : u ∉ st.frontier := by
        rw [hf]; intro h
        rcases List.mem_cons.mp h with h | h
        · exact hex h
        · exact hur h
      exact inv.closed u hu this (fun h => h)
    · intro u hu hur
      by_cases huc : u = cur
      · rw [huc]; exact hg
      · have : u ∉ st.frontier := by
          rw [hf]; intro h
          rcases List.mem_cons.mp h with h | h
          · exact huc h
          · exact hur h
        exact inv.nongoal u hu this
  obtain ⟨dep', ag, s0, ch, ly, nwd⟩ := bfs_fold (D := D0) hE hg (succOf E cur) { st with frontier := rest } dep
    (fun nb h => mem_succOf.mp h) mid hcv hcr hdc b0.dep_s b0.dchain ⟨A', B, hrest, hA', hB⟩
  refine ⟨dep', D0, s0, ch, ly, ?_, ?_⟩
  · intro u hu huf
    by_cases hold : u ∈ st.visited
    · rw [ag u hold]
      by_cases huc : u = cur
      · rw [huc, hdc]; exact Nat.le_refl _
      · have : u ∉ st.frontier := by
          rw [hf]; intro h
          rcases List.mem_cons.mp h with h | h
          · exact huc h
          · exact huf (fm u h)
        exact b0.proc_le u hold this
    · exact absurd (nw u hu hold) huf
  · intro u hu huf e he heu
    have hold : u ∈ st.visited := by
      by_cases hold : u ∈ st.visited
      · exact hold
      · exact absurd (nw u hu hold) huf
    have hvis : e.2.1 ∈ ((succOf E cur).foldl (bfsDiscover cur) { st with frontier := rest }).visited :=
      i.closed u hu huf (fun h => h) e he heu
    rw [ag u hold]
    by_cases huc : u = cur
    · rw [huc, hdc]
      by_cases hvo : e.2.1 ∈ st.visited
      · rw [ag _ hvo]; exact b0.vis_le _ hvo
      · rw [nwd _ hvis hvo]; exact Nat.le_refl _
    · have hnf : u ∉ st.frontier := by
        rw [hf]; intro h
        rcases List.mem_cons.mp h with h | h
        · exact huc h
        · exact huf (fm u h)
      have hvo : e.2.1 ∈ st.visited := inv.closed u hold hnf (fun h => h) e he heu
      rw [ag _ hvo]
      exact b0.edge u hold hnf e he heu

theorem binv_init (hs : s < n) : BInv E s (fun _ => 0) 0 (searchInit n s) := by
  refine ⟨rfl, ?_, ⟨[s], [], by simp [searchInit], by simp, by simp⟩, ?_, ?_⟩
  · intro v hv
    simp [searchInit] at hv; subst hv
    exact Chain.root (look_empty _ _) (by simp [searchInit])
  · intro u hu huf; simp [searchInit] at hu huf; exact absurd hu huf
  · intro u hu huf; simp [searchInit] at hu huf; exact absurd hu huf

/-- when BFS pops a goal `cur`, every walk from `s` to any goal has at least `dep cur` edges -/
theorem bfs_lower_bound {dep : Nat → Nat} {D : Nat} {st : SSt} {cur : Nat} {rest : List Nat}
    (inv : SInv E n s isGoal st) (b : BInv E s dep D st) (hf : st.frontier = cur :: rest) :
    ∀ t, isGoal t = true → ∀ c, Walk (unitE E) s t c → (dep cur : Int) ≤ c := by
  obtain ⟨D0, A', B, b0, hrest, hdc, hA', hB⟩ := b.head hf
  intro t ht c hw
  let f : Nat → Int := fun v => if v ∈ st.visited then (if dep v < D0 then (dep v : Int) else D0) else D0
  have hfe : ∀ e ∈ unitE E, f e.2.1 ≤ f e.1 + e.2.2 := by
    intro e he
    obtain ⟨hw1, w', hm⟩ := unitE_weight he
    rw [hw1]
    have hfle : ∀ v, f v ≤ D0 := by
      intro v; simp only [f]; split
      · split <;> omega
      · omega
    by_cases hu : e.1 ∈ st.visited
    · by_cases huf : e.1 ∈ st.frontier
      · have := b0.fr_ge _ huf
        have hfu : f e.1 = D0 := by
          simp only [f, hu, if_true]
          split <;> omega
        have := hfle e.2.1; omega
      · have hv : e.2.1 ∈ st.visited := inv.closed _ hu huf (fun h => h) _ hm rfl
        have hed := b0.edge _ hu huf _ hm rfl
        simp only at hed
        have hpl := b0.proc_le _ hu huf
        simp only [f, hu, hv, if_true]
        split <;> split <;> omega
    · have hfu : f e.1 = D0 := by simp only [f, hu, if_false]
      have := hfle e.2.1; omega
  have h1 := fn_potential_walk f hfe hw
  have hs0 : f s = 0 := by
    simp only [f, inv.s_vis, if_true, b0.dep_s]
    split <;> omega
  have hft : f t = D0 := by
    simp only [f]
    by_cases hv : t ∈ st.visited
    · simp only [hv, if_true]
      by_cases htf : t ∈ st.frontier
      · have := b0.fr_ge _ htf
        split <;> omega
      · have := inv.nongoal t hv htf
        rw [ht] at this; cases this
    · simp only [hv, if_false]
  rw [hdc]; omega

end bfs

section found
variable {W : Type} {E : List (Edge W)} {n s : Nat} {isGoal : Nat → Bool}

/-- what `searchResult` builds when a goal is popped -/
theorem found_path {st : SSt} {cur : Nat} (inv : SInv E n s isGoal st) (hc : cur ∈ st.frontier) :
    ∃ p k, recon st.parent st.visited.length cur [] = some p ∧ Chain E s st.parent st.visited cur k ∧
      p.length = k + 1 ∧ p.head? = some s ∧ p.getLast? = some cur ∧ pathCost (unitE E) p = some (k : Int) := by
  obtain ⟨k, hk, hkl⟩ := inv.chain cur (inv.fr_vis cur hc)
  obtain ⟨p, hr, hlen, hh, hl, hpc⟩ := recon_chain hk st.visited.length [] hkl
  rw [List.append_nil] at hr
  exact ⟨p, k, hr, hk, hlen, hh, hl, hpc⟩

end found

section outcome
variable {W : Type} {E : List (Edge W)} {n s : Nat} {isGoal : Nat → Bool} {push : List Nat → Nat → List Nat}

/-- What the loop returns, for BFS and DFS alike (`J` is an extra invariant carried along). -/
theorem search_outcome (hp : PushOK push) (hs : s < n) (hE : ∀ e ∈ E, e.2.1 < n) (J : SSt → Prop)
    (hJ0 : J (searchInit n s))
    (hJstep : ∀ st cur rest, SInv E n s isGoal st → J st → st.frontier = cur :: rest → isGoal cur = false →
      J ((succOf E cur).foldl (discW push cur) { st with frontier := rest })) (maxIter : Nat) :
    match searchLoop (discW push) (succOf E) isGoal maxIter (searchInit n s) with
    | .found cur st' => ∃ st0 rest, SInv E n s isGoal st0 ∧ J st0 ∧ st0.frontier = cur :: rest ∧
        isGoal cur = true ∧ st' = { st0 with frontier := rest }
    | .exhausted st' => SInv E n s isGoal st' ∧ st'.frontier = []
    | .cutoff st' => SInv E n s isGoal st' ∧ ¬ n < maxIter := by
  have h := loop_gen (isGoal := isGoal) (discW push) (succOf E) (fun st => SInv E n s isGoal st ∧ J st)
    (fun st cur rest hI hf hg => ⟨(sinv_iter hp hE hI.1 hf hg).1, hJstep st cur rest hI.1 hI.2 hf hg⟩)
    maxIter (searchInit n s) ⟨sinv_init hs, hJ0⟩
  have hc := loop_no_cutoff (isGoal := isGoal) hp hE maxIter (searchInit n s) (sinv_init hs)
  cases hout : searchLoop (discW push) (succOf E) isGoal maxIter (searchInit n s) with
  | found cur st' =>
    rw [hout] at h
    obtain ⟨st0, rest, hI, hf, hg, he⟩ := h
    exact ⟨st0, rest, hI.1, hI.2, hf, hg, he⟩
  | exhausted st' => rw [hout] at h; exact ⟨h.1.1, h.2⟩
  | cutoff st' =>
    rw [hout] at h
    refine ⟨h.1, fun hlt => ?_⟩
    apply hc _ st' hout
    simp [searchInit]; omega

end outcome

section results
variable {W : Type} {E : List (Edge W)} {n s : Nat} {isGoal : Nat → Bool}
open Solvor.Gen (Status)

theorem result_found (okStatus : Status) {T : List Nat} {st0 : SSt} {cur : Nat} {rest : List Nat}
    (inv : SInv E n s isGoal st0) (hf : st0.frontier = cur :: rest) (hT : T.contains cur = true) :
    ∃ p k, searchResult okStatus false (.found cur { st0 with frontier := rest }) =
        ⟨okStatus, some p, some k, st0.visited⟩ ∧
      Chain E s st0.parent st0.visited cur k ∧ k + 1 = p.length ∧ pathOK (unitE E) s T p (k : Int) = true := by
  obtain ⟨p, k, hr, hk, hlen, hh, hl, hpc⟩ := found_path inv (by rw [hf]; exact List.mem_cons_self)
  refine ⟨p, k, ?_, hk, hlen.symm, ?_⟩
  · simp only [searchResult, hr, hlen]; simp
  · simp only [pathOK, hh, hl, hpc, hT]; simp

theorem result_exhausted {st : SSt} (inv : SInv E n s isGoal st) (hf : st.frontier = []) :
    ∀ t, isGoal t = true → ¬ Reach (unitE E) s t := by
  rintro t ht ⟨c, hw⟩
  have hcl : ∀ u ∈ st.visited, ∀ e ∈ E, e.1 = u → e.2.1 ∈ st.visited := by
    intro u hu e he heu
    exact inv.closed u hu (by rw [hf]; simp) (fun h => h) e he heu
  have htv := closed_reach hcl hw inv.s_vis
  have := inv.nongoal t htv (by rw [hf]; simp)
  rw [ht] at this; cases this

/-- `goal is None`: the returned set contains only reachable nodes, and all of them once the
frontier is exhausted -/
theorem result_explore {st : SSt} (inv : SInv E n s isGoal st) :
    (∀ v ∈ st.visited, Reach (unitE E) s v) ∧ s ∈ st.visited ∧ st.visited.Nodup ∧
      (st.frontier = [] → ∀ v, Reach (unitE E) s v → v ∈ st.visited) := by
  refine ⟨fun v hv => ?_, inv.s_vis, inv.nodup, fun hf v ⟨c, hw⟩ => ?_⟩
  · obtain ⟨k, hk, _⟩ := inv.chain v hv
    exact ⟨k, hk.walk⟩
  · have hcl : ∀ u ∈ st.visited, ∀ e ∈ E, e.1 = u → e.2.1 ∈ st.visited := by
      intro u hu e he heu
      exact inv.closed u hu (by rw [hf]; simp) (fun h => h) e he heu
    exact closed_reach hcl hw inv.s_vis

end results

end Solvor.Path
