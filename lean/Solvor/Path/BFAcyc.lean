import Solvor.Path.Lemmas
import Solvor.Path.BellmanFord
import Solvor.Path.Search
/-! Path: the predecessor graph of the Bellman-Ford mirror stays acyclic as long as no negative cycle is
reachable (a relaxation that closes a predecessor cycle exhibits a negative cycle).  Hence, in exact
arithmetic, the predecessor-cycle guard of the repaired `bellman_ford` never fires on its own. -/
namespace Solvor.Path
set_option linter.unusedVariables false
set_option linter.unusedSimpArgs false

/-- `Anc par a x`: `a` is `x` or an ancestor of `x` in the predecessor graph -/
inductive Anc (par : Tab Nat) (a : Nat) : Nat → Prop
  | refl : Anc par a a
  | step {x p : Nat} : look par x = some p → Anc par a p → Anc par a x

/-- `PC dist par x k`: following `par` from `x` reaches a root after `k` steps, all nodes having a finite
entry in `dist` -/
inductive PC (dist : Tab Int) (par : Tab Nat) : Nat → Nat → Prop
  | root {x : Nat} {d : Int} : look par x = none → look dist x = some d → PC dist par x 0
  | step {x p k : Nat} {d : Int} : look par x = some p → look dist x = some d → PC dist par p k →
      PC dist par x (k + 1)

theorem PC.unique {dist : Tab Int} {par : Tab Nat} {x k k' : Nat} (h : PC dist par x k) (h' : PC dist par x k') :
    k = k' := by
  induction h generalizing k' with
  | root h0 _ =>
    cases h' with
    | root _ _ => rfl
    | step hp _ _ => rw [h0] at hp; cases hp
  | step hp _ _ ih =>
    cases h' with
    | root h0 _ => rw [h0] at hp; cases hp
    | step hp' _ hc' => rw [hp] at hp'; cases hp'; rw [ih hc']

/-- the nodes of a chain are distinct and in range -/
theorem PC.nodes {dist : Tab Int} {par : Tab Nat} {n : Nat} (hl : dist.length = n) {x k : Nat}
    (h : PC dist par x k) :
    ∃ l : List Nat, l.length = k + 1 ∧ l.Nodup ∧ ∀ y ∈ l, y < n ∧ ∃ j, j ≤ k ∧ PC dist par y j := by
  induction h with
  | @root x d h0 hd =>
    refine ⟨[x], rfl, by simp, ?_⟩
    intro y hy; simp at hy; subst hy
    exact ⟨by rw [← hl]; exact look_some_lt hd, 0, Nat.le_refl _, PC.root h0 hd⟩
  | @step x p k d hp hd hc ih =>
    obtain ⟨l, hlen, hnd, hall⟩ := ih
    refine ⟨x :: l, by simp [hlen], List.nodup_cons.mpr ⟨?_, hnd⟩, ?_⟩
    · intro hx
      obtain ⟨_, j, hj, hpc⟩ := hall x hx
      have := (PC.step hp hd hc).unique hpc
      omega
    · intro y hy
      rcases List.mem_cons.mp hy with h | h
      · rw [h]; exact ⟨by rw [← hl]; exact look_some_lt hd, k + 1, Nat.le_refl _, PC.step hp hd hc⟩
      · obtain ⟨h1, j, hj, hpc⟩ := hall y h
        exact ⟨h1, j, by omega, hpc⟩

theorem PC.lt {dist : Tab Int} {par : Tab Nat} {n : Nat} (hl : dist.length = n) {x k : Nat}
    (h : PC dist par x k) : k + 1 ≤ n := by
  obtain ⟨l, hlen, hnd, hall⟩ := h.nodes hl
  have := nodup_length_le n l hnd (fun y hy => (hall y hy).1)
  omega

theorem PC.ends {dist : Tab Int} {par : Tab Nat} {x k : Nat} (h : PC dist par x k) :
    ∀ fuel, k < fuel → chainEnds par fuel x = true := by
  induction h with
  | root h0 _ =>
    intro fuel hf
    obtain ⟨f, rfl⟩ : ∃ f, fuel = f + 1 := ⟨fuel - 1, by omega⟩
    simp [chainEnds, h0]
  | step hp _ _ ih =>
    intro fuel hf
    obtain ⟨f, rfl⟩ : ∃ f, fuel = f + 1 := ⟨fuel - 1, by omega⟩
    simp only [chainEnds, hp]
    exact ih f (by omega)

/-- along predecessor pointers the entries grow at least by the edge weights -/
theorem Anc.slack {E : List (Edge Int)} {n s : Nat} {st : BFSt} (inv : BFInv E n s st) {a x : Nat}
    (h : Anc st.par a x) : ∀ dx, look st.dist x = some dx →
    ∃ da W, look st.dist a = some da ∧ Walk E a x W ∧ da + W ≤ dx := by
  induction h with
  | refl => intro dx hdx; exact ⟨dx, 0, hdx, Walk.nil a, by omega⟩
  | @step x p hp _ ih =>
    intro dx hdx
    obtain ⟨w, dp, dx', hmem, hdp, hdx'', hle⟩ := inv.par_edge x p hp
    rw [hdx] at hdx''; cases hdx''
    obtain ⟨da, W, hda, hw, hle2⟩ := ih dp hdp
    exact ⟨da, W + w, hda, Walk.snoc hw hmem, by omega⟩

/-- every node with a finite entry has a finite predecessor chain -/
def AC (st : BFSt) : Prop := ∀ v d, look st.dist v = some d → ∃ k, PC st.dist st.par v k

theorem ac_init (n s : Nat) (hs : s < n) : AC (bfInit n s) := by
  intro v d h
  have hl : (Tab.empty n : Tab Int).length = n := by simp [Tab.empty]
  have hd : look (bfInit n s).dist v = if v = s then some 0 else none := by
    simp only [bfInit]
    rw [look_set, look_empty]
    by_cases h' : s = v
    · subst h'; simp [hl, hs]
    · have : ¬ v = s := fun e => h' e.symm
      simp [h', this]
  rw [hd] at h
  split at h
  · next e =>
    subst e
    exact ⟨0, PC.root (d := 0) (by simp [bfInit, look_empty]) (by rw [hd]; simp)⟩
  · cases h

/-- relaxing an edge keeps the predecessor graph acyclic, unless it exhibits a reachable negative cycle -/
theorem ac_relax {E : List (Edge Int)} {n s : Nat} {st : BFSt} (inv : BFInv E n s st) (ac : AC st)
    (hnn : ∀ x, Reach E s x → ∀ c, Walk E x x c → 0 ≤ c) {e : Edge Int} (he : e ∈ E)
    (hr : relaxable st.dist e = true) : AC (relax st e) := by
  obtain ⟨u, v, w⟩ := e
  obtain ⟨du, hdu, hcase⟩ := relaxable_iff.mp hr
  simp only at hdu hcase
  have hrel : relax st (u, v, w) = ⟨st.dist.set v (some (du + w)), st.par.set v (some u)⟩ := by
    simp [relax, hdu]
  rw [hrel]
  by_cases hv : v < n
  case neg =>
    have h1 : st.dist.set v (some (du + w)) = st.dist :=
      List.set_eq_of_length_le (by rw [inv.len_d]; omega)
    have h2 : st.par.set v (some u) = st.par :=
      List.set_eq_of_length_le (by rw [inv.len_p]; omega)
    rw [h1, h2]; exact ac
  case pos =>
  have hvd : v < st.dist.length := by rw [inv.len_d]; exact hv
  have hvp : v < st.par.length := by rw [inv.len_p]; exact hv
  have hD : ∀ x, look (st.dist.set v (some (du + w))) x = if x = v then some (du + w) else look st.dist x := by
    intro x; rw [look_set]
    by_cases h : v = x
    · subst h; simp [hvd]
    · have : ¬ x = v := fun e => h e.symm
      simp [h, this]
  have hP : ∀ x, look (st.par.set v (some u)) x = if x = v then some u else look st.par x := by
    intro x; rw [look_set]
    by_cases h : v = x
    · subst h; simp [hvp]
    · have : ¬ x = v := fun e => h e.symm
      simp [h, this]
  -- `v` is not on the predecessor chain of `u`: otherwise the cycle `v ⇝ u → v` would be negative
  have hnanc : ¬ Anc st.par v u := by
    intro hanc
    obtain ⟨dv, W, hdv, hw, hle⟩ := hanc.slack inv du hdu
    have hlt : du + w < dv := by
      rcases hcase with h0 | ⟨dv', h1, h2⟩
      · rw [hdv] at h0; cases h0
      · rw [hdv] at h1; cases h1; exact h2
    have hcyc : Walk E v v (W + w) := Walk.snoc hw he
    have := hnn v ⟨dv, inv.real v dv hdv⟩ _ hcyc
    omega
  -- chains that avoid `v` are untouched
  have keep : ∀ x k, PC st.dist st.par x k → ¬ Anc st.par v x →
      PC (st.dist.set v (some (du + w))) (st.par.set v (some u)) x k := by
    intro x k h
    induction h with
    | @root x d h0 hd =>
      intro hna
      have hxv : x ≠ v := fun e => hna (by rw [e]; exact Anc.refl)
      exact PC.root (by rw [hP]; simp [hxv, h0]) (by rw [hD]; simp only [hxv, if_false]; exact hd)
    | @step x p k d hp hd _ ih =>
      intro hna
      have hxv : x ≠ v := fun e => hna (by rw [e]; exact Anc.refl)
      have hnp : ¬ Anc st.par v p := fun h => hna (Anc.step hp h)
      exact PC.step (by rw [hP]; simp [hxv, hp]) (by rw [hD]; simp only [hxv, if_false]; exact hd) (ih hnp)
  obtain ⟨ku, hku⟩ := ac u du hdu
  have hu' := keep u ku hku hnanc
  have hv' : PC (st.dist.set v (some (du + w))) (st.par.set v (some u)) v (ku + 1) :=
    PC.step (d := du + w) (by rw [hP]; simp) (by rw [hD]; simp) hu'
  -- every old chain is redirected at `v`
  have redirect : ∀ x k, PC st.dist st.par x k →
      ∃ k', PC (st.dist.set v (some (du + w))) (st.par.set v (some u)) x k' := by
    intro x k h
    induction h with
    | @root x d h0 hd =>
      by_cases hxv : x = v
      · rw [hxv]; exact ⟨_, hv'⟩
      · exact ⟨0, PC.root (by rw [hP]; simp [hxv, h0]) (by rw [hD]; simp only [hxv, if_false]; exact hd)⟩
    | @step x p k d hp hd _ ih =>
      by_cases hxv : x = v
      · rw [hxv]; exact ⟨_, hv'⟩
      · obtain ⟨k', hk'⟩ := ih
        exact ⟨k' + 1, PC.step (by rw [hP]; simp [hxv, hp]) (by rw [hD]; simp only [hxv, if_false]; exact hd) hk'⟩
  intro x d hx
  simp only [hD] at hx
  by_cases hxv : x = v
  · rw [hxv]; exact ⟨_, hv'⟩
  · simp only [hxv, if_false] at hx
    obtain ⟨k, hk⟩ := ac x d hx
    exact redirect x k hk

theorem ac_fold {E : List (Edge Int)} {n s : Nat} (hnn : ∀ x, Reach E s x → ∀ c, Walk E x x c → 0 ≤ c)
    (L : List (Edge Int)) (hL : ∀ e ∈ L, e ∈ E) :
    ∀ (acc : BFSt × Bool), BFInv E n s acc.1 → AC acc.1 →
      AC (L.foldl (fun (acc : BFSt × Bool) e =>
        if relaxable acc.1.dist e then (relax acc.1 e, true) else acc) acc).1 := by
  induction L with
  | nil => intro acc _ h; exact h
  | cons e L ih =>
    intro acc inv h
    rw [List.foldl_cons]
    by_cases hr : relaxable acc.1.dist e = true
    · simp only [hr, if_true]
      exact ih (fun e he => hL e (List.mem_cons_of_mem _ he)) _
        (bfInv_relax inv (hL e List.mem_cons_self) hr) (ac_relax inv h hnn (hL e List.mem_cons_self) hr)
    · simp only [hr]
      exact ih (fun e he => hL e (List.mem_cons_of_mem _ he)) acc inv h

theorem ac_rounds {E : List (Edge Int)} {n s : Nat} (hnn : ∀ x, Reach E s x → ∀ c, Walk E x x c → 0 ≤ c) :
    ∀ (k : Nat) (st : BFSt), BFInv E n s st → AC st → AC (bfRounds E k st) := by
  intro k
  induction k with
  | zero => intro st _ h; exact h
  | succ k ih =>
    intro st inv h
    have i1 : BFInv E n s (bfRound E st).1 := bfInv_fold E (fun _ h => h) (st, false) inv
    have a1 : AC (bfRound E st).1 := ac_fold hnn E (fun _ h => h) (st, false) inv h
    simp only [bfRounds]
    split
    · exact ih _ i1 a1
    · exact a1

/-- with no reachable negative cycle the predecessor-cycle guard does not fire -/
theorem no_par_cycle {E : List (Edge Int)} {n s : Nat} (hs : s < n)
    (hnn : ∀ x, Reach E s x → ∀ c, Walk E x x c → 0 ≤ c) :
    hasParCycle n (bfRounds E (n - 1) (bfInit n s)).par = false := by
  have inv := bfInv_rounds (E := E) (n - 1) (bfInit n s) (bfInv_init E hs)
  have ac := ac_rounds hnn (n - 1) (bfInit n s) (bfInv_init E hs) (ac_init n s hs)
  generalize bfRounds E (n - 1) (bfInit n s) = st at inv ac
  unfold hasParCycle
  cases hany : (List.range n).any (fun v => !chainEnds st.par n v) with
  | false => rfl
  | true =>
    exfalso
    obtain ⟨v, hv, hc⟩ := List.any_eq_true.mp hany
    have hvn : v < n := List.mem_range.mp hv
    have hends : chainEnds st.par n v = true := by
      cases hp : look st.par v with
      | none =>
        obtain ⟨f, hf⟩ : ∃ f, n = f + 1 := ⟨n - 1, by omega⟩
        rw [hf]; simp [chainEnds, hp]
      | some p =>
        obtain ⟨_, _, dv, _, _, hdv, _⟩ := inv.par_edge v p hp
        obtain ⟨k, hk⟩ := ac v dv hdv
        exact hk.ends n (by have := hk.lt inv.len_d; omega)
    rw [hends] at hc; cases hc

end Solvor.Path
