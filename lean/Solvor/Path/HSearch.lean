import Solvor.Path.Lemmas
import Solvor.Path.BellmanFord
import Solvor.Path.Search
/-! Path: loop invariant of the Dijkstra / A* mirror (`hLoop` at integer weights): whatever the heap
key (`fOf`: any heuristic, any weight) and the cut-offs, a returned path is a checked path whose
weights sum to the reported cost, and INFEASIBLE without `max_cost` means unreachable. -/
namespace Solvor.Path
set_option linter.unusedSectionVars false
set_option linter.unusedVariables false
set_option linter.unusedSimpArgs false

abbrev Ent := Int × Int × Nat × Nat

/-! ### `popMin` -/

theorem popMin_none {N : Num Int} : ∀ {l : List Ent}, popMin N l = none ↔ l = [] := by
  intro l
  cases l with
  | nil => simp [popMin]
  | cons x xs =>
    simp only [popMin]
    cases popMin N xs with
    | none => simp
    | some p => obtain ⟨m, rest⟩ := p; simp only []; split <;> simp

theorem popMin_some {N : Num Int} : ∀ {l : List Ent} {m : Ent} {rest : List Ent},
    popMin N l = some (m, rest) → m ∈ l ∧ (∀ x ∈ rest, x ∈ l) ∧ (∀ x ∈ l, x = m ∨ x ∈ rest) := by
  intro l
  induction l with
  | nil => intro m rest h; simp [popMin] at h
  | cons x xs ih =>
    intro m rest h
    simp only [popMin] at h
    cases hp : popMin N xs with
    | none =>
      have hxs : xs = [] := popMin_none.mp hp
      simp only [hp, Option.some.injEq, Prod.mk.injEq] at h
      obtain ⟨h1, h2⟩ := h
      subst h1; subst h2; subst hxs
      simp
    | some p =>
      obtain ⟨m', rest'⟩ := p
      obtain ⟨i1, i2, i3⟩ := ih hp
      simp only [hp] at h
      split at h
      · simp only [Option.some.injEq, Prod.mk.injEq] at h
        obtain ⟨h1, h2⟩ := h
        subst h1; subst h2
        refine ⟨List.mem_cons_of_mem _ i1, ?_, ?_⟩
        · intro y hy
          rcases List.mem_cons.mp hy with h | h
          · rw [h]; exact List.mem_cons_self
          · exact List.mem_cons_of_mem _ (i2 y h)
        · intro y hy
          rcases List.mem_cons.mp hy with h | h
          · right; rw [h]; exact List.mem_cons_self
          · rcases i3 y h with h' | h'
            · left; exact h'
            · right; exact List.mem_cons_of_mem _ h'
      · simp only [Option.some.injEq, Prod.mk.injEq] at h
        obtain ⟨h1, h2⟩ := h
        subst h1; subst h2
        refine ⟨List.mem_cons_self, fun y hy => List.mem_cons_of_mem _ hy, ?_⟩
        intro y hy
        rcases List.mem_cons.mp hy with h | h
        · left; exact h
        · right; exact h

theorem mem_adjOf {E : List (Edge Int)} {u v : Nat} {w : Int} : (v, w) ∈ adjOf E u ↔ (u, v, w) ∈ E := by
  simp only [adjOf, List.mem_filterMap]
  constructor
  · rintro ⟨⟨x, y, z⟩, hm, hx⟩
    simp only at hx
    split at hx
    · next h => simp only [Option.some.injEq, Prod.mk.injEq] at hx; obtain ⟨h1, h2⟩ := hx; subst h; subst h1; subst h2; exact hm
    · cases hx
  · intro hm
    exact ⟨(u, v, w), hm, by simp⟩

/-! ### weighted parent chains -/

section chains
variable (E : List (Edge Int)) (s : Nat)

/-- `WChain E s g par C v c k`: following `par` from `v` reaches `s` in `k` steps through nodes of `C`,
each step an edge whose weight is the difference of the `g` values; `c = g v`. -/
inductive WChain (g : Tab Int) (par : Tab Nat) (C : List Nat) : Nat → Int → Nat → Prop
  | root : look par s = none → look g s = some 0 → WChain g par C s 0 0
  | step {u v k : Nat} {w cu : Int} : look par v = some u → u ∈ C → (u, v, w) ∈ E →
      look g u = some cu → look g v = some (cu + w) → WChain g par C u cu k →
      WChain g par C v (cu + w) (k + 1)

variable {E s}

theorem WChain.update {g : Tab Int} {par : Tab Nat} {C : List Nat} {x k : Nat} {c : Int}
    (h : WChain E s g par C x c k) (v : Nat) (a : Option Int) (b : Option Nat) (hv : v ∉ C) (hx : x ≠ v) :
    WChain E s (g.set v a) (par.set v b) C x c k := by
  induction h with
  | root hp hg =>
    exact WChain.root (by rw [look_set_ne _ _ _ _ (Ne.symm hx)]; exact hp)
      (by rw [look_set_ne _ _ _ _ (Ne.symm hx)]; exact hg)
  | @step u x k w cu hp hu he hgu hgx _ ih =>
    have huv : u ≠ v := fun e => hv (e ▸ hu)
    exact WChain.step (by rw [look_set_ne _ _ _ _ (Ne.symm hx)]; exact hp) hu he
      (by rw [look_set_ne _ _ _ _ (Ne.symm huv)]; exact hgu)
      (by rw [look_set_ne _ _ _ _ (Ne.symm hx)]; exact hgx) (ih huv)

theorem WChain.mono {g : Tab Int} {par : Tab Nat} {C C' : List Nat} {x k : Nat} {c : Int}
    (h : WChain E s g par C x c k) (hsub : ∀ u ∈ C, u ∈ C') : WChain E s g par C' x c k := by
  induction h with
  | root hp hg => exact WChain.root hp hg
  | step hp hu he hgu hgx _ ih => exact WChain.step hp (hsub _ hu) he hgu hgx ih

theorem WChain.g_eq {g : Tab Int} {par : Tab Nat} {C : List Nat} {x k : Nat} {c : Int}
    (h : WChain E s g par C x c k) : look g x = some c := by
  cases h with
  | root _ hg => exact hg
  | step _ _ _ _ hgx _ => exact hgx

/-- `reconstruct_path` along a weighted chain whose parent edges are relaxed: a checked path of
weight `c` -/
theorem recon_wchain {g : Tab Int} {par : Tab Nat} {C : List Nat} {v k : Nat} {c : Int}
    (h : WChain E s g par C v c k)
    (rel : ∀ x u, look par x = some u → ∀ w', (u, x, w') ∈ E →
      ∃ gu gx, look g u = some gu ∧ look g x = some gx ∧ gx ≤ gu + w') :
    ∀ (fuel : Nat) (acc : List Nat), k < fuel →
      ∃ p, recon par fuel v acc = some (p ++ acc) ∧ p.head? = some s ∧ p.getLast? = some v ∧
        pathCost E p = some c := by
  induction h with
  | root hp hg =>
    intro fuel acc hf
    obtain ⟨f, rfl⟩ : ∃ f, fuel = f + 1 := ⟨fuel - 1, by omega⟩
    exact ⟨[s], by simp [recon, hp], rfl, rfl, by simp [pathCost]⟩
  | @step u v k w cu hp hu he hgu hgv _ ih =>
    intro fuel acc hf
    obtain ⟨f, rfl⟩ : ∃ f, fuel = f + 1 := ⟨fuel - 1, by omega⟩
    obtain ⟨p, hr, hh, hl, hc⟩ := ih f (v :: acc) (by omega)
    obtain ⟨m, hm, hmw, hmm⟩ := edgeCost_min he
    obtain ⟨gu, gx, h1, h2, h3⟩ := rel v u hp m hmm
    rw [hgu] at h1; cases h1
    rw [hgv] at h2; cases h2
    have hmw' : m = w := by omega
    subst hmw'
    refine ⟨p ++ [v], ?_, ?_, by simp, ?_⟩
    · simp only [recon, hp, hr, List.append_assoc, List.singleton_append]
    · cases p with
      | nil => simp at hh
      | cons a p => simpa using hh
    · exact pathCost_snoc p u v cu _ hc hl hm

end chains

/-! ### the invariant -/

section inv
variable (E : List (Edge Int)) (n s : Nat) (isGoal : Nat → Bool) (noCost : Prop)

/-- `cur?` is the node whose adjacency list is being scanned (closed, but not yet relaxed). -/
structure HInv (cur? : Option Nat) (st : HSt Int) : Prop where
  len_g : st.g.length = n
  len_p : st.parent.length = n
  heap_lt : ∀ e ∈ st.heap, e.2.2.2 < n
  heap_g : ∀ e ∈ st.heap, ∃ c, look st.g e.2.2.2 = some c
  closed_lt : ∀ u ∈ st.closed, u < n
  closed_nodup : st.closed.Nodup
  closed_g : ∀ u ∈ st.closed, ∃ c, look st.g u = some c
  start_g : look st.g s = some 0
  start_p : look st.parent s = none
  start_c : s ∈ st.closed ∨ (st.closed = [] ∧ ∀ e ∈ st.heap, e.2.2.2 = s)
  open_heap : ∀ v c, look st.g v = some c → v ∈ st.closed ∨ ∃ e ∈ st.heap, e.2.2.2 = v
  par_closed : ∀ v u, look st.parent v = some u → u ∈ st.closed
  chain : ∀ v c, look st.g v = some c →
    ∃ k, WChain E s st.g st.parent st.closed v c k ∧ (v ∈ st.closed → k < st.closed.length) ∧ k ≤ st.closed.length
  relaxed : ∀ v u, look st.parent v = some u → cur? ≠ some u → ∀ w', (u, v, w') ∈ E →
    ∃ gu gv, look st.g u = some gu ∧ look st.g v = some gv ∧ gv ≤ gu + w'
  expanded : noCost → ∀ u ∈ st.closed, cur? ≠ some u →
    isGoal u = false ∧ ∀ e ∈ E, e.1 = u → ∃ c, look st.g e.2.1 = some c

variable {E n s isGoal noCost}

theorem hinv_init (fOf : Int → Nat → Int) (hs : s < n) :
    HInv E n s isGoal noCost none (hInit intNum n fOf s) := by
  show HInv E n s isGoal noCost none
      ⟨(Tab.empty n).set s (some 0), Tab.empty n, [], [(fOf 0 s, 0, 0, s)], 1, 0, 0⟩
  have hl : (Tab.empty n : Tab Int).length = n := by simp [Tab.empty]
  have hg : ∀ v, look ((Tab.empty n : Tab Int).set s (some 0)) v = if v = s then some 0 else none := by
    intro v
    rw [look_set, look_empty]
    by_cases h : s = v
    · subst h; simp [hl, hs]
    · have : ¬ v = s := fun e => h e.symm
      simp [h, this]
  refine ⟨by simp [Tab.empty], by simp [Tab.empty], ?_, ?_, by simp, by simp, by simp, by simp [hg],
    look_empty _ _, Or.inr ⟨rfl, by simp⟩, ?_, ?_, ?_, ?_, ?_⟩
  · intro e he; simp at he; subst he; exact hs
  · intro e he; simp at he; subst he; exact ⟨0, by simp [hg]⟩
  · intro v c h
    simp only [hg] at h
    split at h
    · next e => right; exact ⟨_, List.mem_singleton.mpr rfl, e.symm⟩
    · cases h
  · intro v u h; simp [look_empty] at h
  · intro v c h
    simp only [hg] at h
    split at h
    · next e =>
      subst e; cases h
      exact ⟨0, WChain.root (look_empty _ _) (by simp [hg]), by simp, by simp⟩
    · cases h
  · intro v u h; simp [look_empty] at h
  · intro _ u hu; simp at hu

/-- what `hRelax` does at integer weights -/
theorem hRelax_cases (fOf : Int → Nat → Int) (cur : Nat) (gcur : Int) (st : HSt Int) (v : Nat) (w : Int) :
    (hRelax intNum fOf cur gcur st (v, w) = st ∧
      (v ∈ st.closed ∨ ∃ old, look st.g v = some old ∧ old ≤ gcur + w)) ∨
    (v ∉ st.closed ∧ (look st.g v = none ∨ ∃ old, look st.g v = some old ∧ gcur + w < old) ∧
      hRelax intNum fOf cur gcur st (v, w) =
        { st with g := st.g.set v (some (gcur + w)), parent := st.parent.set v (some cur),
                  heap := (fOf (gcur + w) v, gcur + w, st.counter, v) :: st.heap, counter := st.counter + 1,
                  rerelax := st.rerelax + (if (look st.g v).isSome then 1 else 0) }) := by
  unfold hRelax
  by_cases hc : st.closed.contains v = true
  · left; simp only [hc, if_true]; exact ⟨trivial, Or.inl (by simpa using hc)⟩
  · have hnc : v ∉ st.closed := by simpa using hc
    simp only [hc, intNum]
    cases hg : look st.g v with
    | none => right; simp [hnc, hg]
    | some old =>
      by_cases hlt : gcur + w < old
      · right; simp [hnc, hg, hlt]
      · left; simp only [hg, hlt, decide_false]
        exact ⟨by simp, Or.inr ⟨old, rfl, by omega⟩⟩

/-- one neighbour -/
theorem hrelax_step (fOf : Int → Nat → Int) (hE : ∀ e ∈ E, e.2.1 < n) {cur : Nat} {gcur : Int} {st : HSt Int}
    (inv : HInv E n s isGoal noCost (some cur) st) (hcc : cur ∈ st.closed) (hgc : look st.g cur = some gcur)
    (hpc : ∀ x, look st.parent x = some cur → x ∉ st.closed) {v : Nat} {w : Int} (he : (cur, v, w) ∈ E) :
    HInv E n s isGoal noCost (some cur) (hRelax intNum fOf cur gcur st (v, w)) ∧
      (hRelax intNum fOf cur gcur st (v, w)).closed = st.closed ∧
      look (hRelax intNum fOf cur gcur st (v, w)).g cur = some gcur ∧
      (∀ x, look (hRelax intNum fOf cur gcur st (v, w)).parent x = some cur → x ∉ st.closed) ∧
      (v ∈ st.closed ∨ ∃ gv, look (hRelax intNum fOf cur gcur st (v, w)).g v = some gv ∧ gv ≤ gcur + w) ∧
      (∀ x gx, look st.g x = some gx → ∃ gx', look (hRelax intNum fOf cur gcur st (v, w)).g x = some gx' ∧ gx' ≤ gx) := by
  rcases hRelax_cases fOf cur gcur st v w with ⟨heq, hdone⟩ | ⟨hnc, hbetter, heq⟩
  · rw [heq]
    exact ⟨inv, rfl, hgc, hpc, hdone, fun x gx h => ⟨gx, h, Int.le_refl _⟩⟩
  · rw [heq]
    have hvn : v < n := hE _ he
    have hvc : v ≠ cur := fun e => hnc (e ▸ hcc)
    have hsc : s ∈ st.closed := by
      rcases inv.start_c with h | ⟨h, _⟩
      · exact h
      · rw [h] at hcc; cases hcc
    have hvs : v ≠ s := fun e => hnc (e ▸ hsc)
    have hG : ∀ x, look (st.g.set v (some (gcur + w))) x = if x = v then some (gcur + w) else look st.g x := by
      intro x; rw [look_set]
      by_cases h : v = x
      · subst h; simp [inv.len_g, hvn]
      · have : ¬ x = v := fun e => h e.symm
        simp [h, this]
    have hP : ∀ x, look (st.parent.set v (some cur)) x = if x = v then some cur else look st.parent x := by
      intro x; rw [look_set]
      by_cases h : v = x
      · subst h; simp [inv.len_p, hvn]
      · have : ¬ x = v := fun e => h e.symm
        simp [h, this]
    have hlow : ∀ old, look st.g v = some old → gcur + w < old := by
      intro old h
      rcases hbetter with h0 | ⟨o, h1, h2⟩
      · rw [h0] at h; cases h
      · rw [h1] at h; cases h; exact h2
    refine ⟨⟨by simp [inv.len_g], by simp [inv.len_p], ?_, ?_, inv.closed_lt, inv.closed_nodup, ?_, ?_, ?_,
      inv.start_c |>.imp id (fun h => by rw [h.1] at hcc; cases hcc), ?_, ?_, ?_, ?_, ?_⟩, rfl, ?_, ?_, ?_, ?_⟩
    · -- heap_lt
      intro e he'
      rcases List.mem_cons.mp he' with h | h
      · rw [h]; exact hvn
      · exact inv.heap_lt e h
    · -- heap_g
      intro e he'
      rcases List.mem_cons.mp he' with h | h
      · rw [h]; exact ⟨gcur + w, by simp [hG]⟩
      · obtain ⟨c, hc⟩ := inv.heap_g e h
        by_cases hx : e.2.2.2 = v
        · exact ⟨gcur + w, by simp [hG, hx]⟩
        · exact ⟨c, by simp [hG, hx, hc]⟩
    · -- closed_g
      intro u hu
      obtain ⟨c, hc⟩ := inv.closed_g u hu
      have : u ≠ v := fun e => hnc (e ▸ hu)
      exact ⟨c, by simp [hG, this, hc]⟩
    · -- start_g
      simp [hG, Ne.symm hvs, inv.start_g]
    · -- start_p
      simp [hP, Ne.symm hvs, inv.start_p]
    · -- open_heap
      intro x c hx
      simp only [hG] at hx
      by_cases hxv : x = v
      · right; exact ⟨_, List.mem_cons_self, hxv.symm⟩
      · simp only [hxv, if_false] at hx
        rcases inv.open_heap x c hx with h | ⟨e, he', hn⟩
        · left; exact h
        · right; exact ⟨e, List.mem_cons_of_mem _ he', hn⟩
    · -- par_closed
      intro x u hx
      simp only [hP] at hx
      split at hx
      · cases hx; exact hcc
      · exact inv.par_closed x u hx
    · -- chain
      intro x c hx
      simp only [hG] at hx
      by_cases hxv : x = v
      · subst hxv
        simp only [if_true, Option.some.injEq] at hx
        subst hx
        obtain ⟨k, hk, hks, _⟩ := inv.chain cur gcur hgc
        refine ⟨k + 1, ?_, fun h => absurd h hnc, by have := hks hcc; show k + 1 ≤ st.closed.length; omega⟩
        exact WChain.step (by simp [hP]) hcc he (by simp [hG, Ne.symm hvc, hgc]) (by simp [hG])
          (hk.update x _ _ hnc (Ne.symm hvc))
      · simp only [hxv, if_false] at hx
        obtain ⟨k, hk, hks, hkl⟩ := inv.chain x c hx
        exact ⟨k, hk.update v _ _ hnc hxv, hks, hkl⟩
    · -- relaxed
      intro x u hx hne w' he'
      simp only [hP] at hx
      split at hx
      · cases hx; exact absurd rfl hne
      · next hxv =>
        obtain ⟨gu, gx, h1, h2, h3⟩ := inv.relaxed x u hx hne w' he'
        have huv : u ≠ v := fun e => hnc (e ▸ inv.par_closed x u hx)
        exact ⟨gu, gx, by simp [hG, huv, h1], by simp [hG, hxv, h2], h3⟩
    · -- expanded
      intro hn u hu hne
      obtain ⟨h1, h2⟩ := inv.expanded hn u hu hne
      refine ⟨h1, fun e he' heu => ?_⟩
      obtain ⟨c, hc⟩ := h2 e he' heu
      by_cases hx : e.2.1 = v
      · exact ⟨gcur + w, by simp [hG, hx]⟩
      · exact ⟨c, by simp [hG, hx, hc]⟩
    · simp [hG, Ne.symm hvc, hgc]
    · intro x hx
      simp only [hP] at hx
      split at hx
      · next hxv => rw [hxv]; exact hnc
      · exact hpc x hx
    · right; exact ⟨gcur + w, by simp [hG], Int.le_refl _⟩
    · intro x gx hx
      by_cases hxv : x = v
      · subst hxv
        exact ⟨gcur + w, by simp [hG], by have := hlow gx hx; omega⟩
      · exact ⟨gx, by simp [hG, hxv, hx], Int.le_refl _⟩

/-- the whole adjacency list -/
theorem hrelax_fold (fOf : Int → Nat → Int) (hE : ∀ e ∈ E, e.2.1 < n) {cur : Nat} {gcur : Int} :
    ∀ (L : List (Nat × Int)) (st : HSt Int), (∀ nb ∈ L, (cur, nb.1, nb.2) ∈ E) →
    HInv E n s isGoal noCost (some cur) st → cur ∈ st.closed → look st.g cur = some gcur →
    (∀ x, look st.parent x = some cur → x ∉ st.closed) →
    HInv E n s isGoal noCost (some cur) (L.foldl (hRelax intNum fOf cur gcur) st) ∧
      (L.foldl (hRelax intNum fOf cur gcur) st).closed = st.closed ∧
      look (L.foldl (hRelax intNum fOf cur gcur) st).g cur = some gcur ∧
      (∀ x, look (L.foldl (hRelax intNum fOf cur gcur) st).parent x = some cur → x ∉ st.closed) ∧
      (∀ nb ∈ L, nb.1 ∈ st.closed ∨
        ∃ gv, look (L.foldl (hRelax intNum fOf cur gcur) st).g nb.1 = some gv ∧ gv ≤ gcur + nb.2) ∧
      (∀ x gx, look st.g x = some gx →
        ∃ gx', look (L.foldl (hRelax intNum fOf cur gcur) st).g x = some gx' ∧ gx' ≤ gx) := by
  intro L
  induction L with
  | nil =>
    intro st _ inv hcc hgc hpc
    exact ⟨inv, rfl, hgc, hpc, by simp, fun x gx h => ⟨gx, h, Int.le_refl _⟩⟩
  | cons nb L ih =>
    intro st hL inv hcc hgc hpc
    obtain ⟨v, w⟩ := nb
    have he : (cur, v, w) ∈ E := hL (v, w) List.mem_cons_self
    obtain ⟨i1, c1, g1, p1, d1, m1⟩ := hrelax_step fOf hE inv hcc hgc hpc he
    obtain ⟨i2, c2, g2, p2, d2, m2⟩ := ih (hRelax intNum fOf cur gcur st (v, w))
      (fun x hx => hL x (List.mem_cons_of_mem _ hx)) i1 (by rw [c1]; exact hcc) g1 (by rw [c1]; exact p1)
    rw [List.foldl_cons]
    refine ⟨i2, by rw [c2, c1], g2, by rw [c1] at p2; exact p2, ?_, ?_⟩
    · intro x hx
      rcases List.mem_cons.mp hx with h | h
      · subst h
        rcases d1 with h | ⟨gv, hgv, hle⟩
        · left; exact h
        · right
          obtain ⟨gv', hgv', hle'⟩ := m2 v gv hgv
          exact ⟨gv', hgv', by omega⟩
      · rcases d2 x h with h' | h'
        · left; rw [c1] at h'; exact h'
        · right; exact h'
    · intro x gx hx
      obtain ⟨g1', h1, l1⟩ := m1 x gx hx
      obtain ⟨g2', h2, l2⟩ := m2 x g1' h1
      exact ⟨g2', h2, by omega⟩

/-- popping an entry whose node is already closed -/
theorem hinv_skip {st : HSt Int} (inv : HInv E n s isGoal noCost none st) {e : Ent} {rest : List Ent}
    (hp : popMin intNum st.heap = some (e, rest)) (hc : e.2.2.2 ∈ st.closed) :
    HInv E n s isGoal noCost none { st with heap := rest } := by
  obtain ⟨hm, hsub, hcov⟩ := popMin_some hp
  refine ⟨inv.len_g, inv.len_p, fun x hx => inv.heap_lt x (hsub x hx), fun x hx => inv.heap_g x (hsub x hx),
    inv.closed_lt, inv.closed_nodup, inv.closed_g, inv.start_g, inv.start_p, ?_, ?_, inv.par_closed, inv.chain,
    inv.relaxed, inv.expanded⟩
  · rcases inv.start_c with h | ⟨h, _⟩
    · exact Or.inl h
    · rw [h] at hc; cases hc
  · intro v c hv
    rcases inv.open_heap v c hv with h | ⟨e', he', hn⟩
    · exact Or.inl h
    · rcases hcov e' he' with h | h
      · left; rw [← hn, h]; exact hc
      · right; exact ⟨e', h, hn⟩

/-- popping an entry whose node is open: close it -/
theorem hinv_close {st : HSt Int} (inv : HInv E n s isGoal noCost none st) {e : Ent} {rest : List Ent}
    (hp : popMin intNum st.heap = some (e, rest)) (hc : e.2.2.2 ∉ st.closed) :
    HInv E n s isGoal noCost (some e.2.2.2) (hClose st e.2.2.2 rest) ∧
      (∃ c, look st.g e.2.2.2 = some c ∧ gOf (hClose st e.2.2.2 rest) e.2.2.2 e.2.1 = c) ∧
      (∀ x, look st.parent x ≠ some e.2.2.2) := by
  obtain ⟨hm, hsub, hcov⟩ := popMin_some hp
  obtain ⟨c, hgc⟩ := inv.heap_g e hm
  have hnp : ∀ x, look st.parent x ≠ some e.2.2.2 := fun x h => hc (inv.par_closed x _ h)
  refine ⟨⟨inv.len_g, inv.len_p, fun x hx => inv.heap_lt x (hsub x hx), fun x hx => inv.heap_g x (hsub x hx),
    ?_, List.nodup_cons.mpr ⟨hc, inv.closed_nodup⟩, ?_, inv.start_g, inv.start_p, ?_, ?_, ?_, ?_, ?_, ?_⟩,
    ⟨c, hgc, by simp [gOf, hClose, hgc]⟩, hnp⟩
  · intro u hu
    rcases List.mem_cons.mp hu with h | h
    · rw [h]; exact inv.heap_lt e hm
    · exact inv.closed_lt u h
  · intro u hu
    rcases List.mem_cons.mp hu with h | h
    · rw [h]; exact ⟨c, hgc⟩
    · exact inv.closed_g u h
  · left
    rcases inv.start_c with h | ⟨_, h⟩
    · exact List.mem_cons_of_mem _ h
    · rw [h e hm]; exact List.mem_cons_self
  · intro v c' hv
    rcases inv.open_heap v c' hv with h | ⟨e', he', hn⟩
    · exact Or.inl (List.mem_cons_of_mem _ h)
    · rcases hcov e' he' with h | h
      · left; rw [← hn, h]; exact List.mem_cons_self
      · right; exact ⟨e', h, hn⟩
  · intro v u h; exact List.mem_cons_of_mem _ (inv.par_closed v u h)
  · intro v c' hv
    obtain ⟨k, hk, hks, hkl⟩ := inv.chain v c' hv
    refine ⟨k, hk.mono (fun u hu => List.mem_cons_of_mem _ hu), ?_, by simp [hClose]; omega⟩
    intro hvc
    simp only [hClose, List.length_cons]
    rcases List.mem_cons.mp hvc with h | h
    · omega
    · have := hks h; omega
  · intro v u h _ w' he'; exact inv.relaxed v u h (by simp) w' he'
  · intro hn u hu hne
    rcases List.mem_cons.mp hu with h | h
    · exact absurd (by rw [h]) hne
    · exact inv.expanded hn u h (by simp)

/-- after the adjacency list of `cur` has been scanned the node counts as expanded -/
theorem hinv_finish {cur : Nat} {gcur : Int} {st : HSt Int} (inv : HInv E n s isGoal noCost (some cur) st)
    (hcc : cur ∈ st.closed) (hgc : look st.g cur = some gcur) (hg : isGoal cur = false)
    (hpc : ∀ x, look st.parent x = some cur → x ∉ st.closed)
    (hdone : ∀ nb ∈ adjOf E cur, nb.1 ∈ st.closed ∨ ∃ gv, look st.g nb.1 = some gv ∧ gv ≤ gcur + nb.2) :
    HInv E n s isGoal noCost none st := by
  refine ⟨inv.len_g, inv.len_p, inv.heap_lt, inv.heap_g, inv.closed_lt, inv.closed_nodup, inv.closed_g, inv.start_g,
    inv.start_p, inv.start_c, inv.open_heap, inv.par_closed, inv.chain, ?_, ?_⟩
  · intro v u hp _ w' he'
    by_cases huc : u = cur
    · subst huc
      rcases hdone (v, w') (mem_adjOf.mpr he') with h | ⟨gv, hgv, hle⟩
      · exact absurd h (hpc v hp)
      · exact ⟨gcur, gv, hgc, hgv, hle⟩
    · exact inv.relaxed v u hp (fun h => huc (Option.some.inj h).symm) w' he'
  · intro hn u hu _
    by_cases huc : u = cur
    · subst huc
      refine ⟨hg, fun e he' heu => ?_⟩
      obtain ⟨a, b, c⟩ := e
      simp only at heu
      subst heu
      rcases hdone (b, c) (mem_adjOf.mpr he') with h | ⟨gv, hgv, _⟩
      · exact inv.closed_g b h
      · exact ⟨gv, hgv⟩
    · exact inv.expanded hn u hu (fun h => huc (Option.some.inj h).symm)

/-- a pruned node (`max_cost` given) is closed without being expanded -/
theorem hinv_prune {cur : Nat} {st : HSt Int} (hnc : ¬ noCost) (inv : HInv E n s isGoal noCost (some cur) st)
    (hnp : ∀ x, look st.parent x ≠ some cur) : HInv E n s isGoal noCost none st := by
  refine ⟨inv.len_g, inv.len_p, inv.heap_lt, inv.heap_g, inv.closed_lt, inv.closed_nodup, inv.closed_g, inv.start_g,
    inv.start_p, inv.start_c, inv.open_heap, inv.par_closed, inv.chain, ?_, fun h => absurd h hnc⟩
  intro v u hp _ w' he'
  by_cases huc : u = cur
  · subst huc; exact absurd hp (hnp v)
  · exact inv.relaxed v u hp (fun h => huc (Option.some.inj h).symm) w' he'

end inv

/-! ### the loop -/

section loop
variable {E : List (Edge Int)} {n s : Nat} {isGoal : Nat → Bool}

theorem hloop_inv (fOf : Int → Nat → Int) (maxIter : Nat) (maxCost : Option Int) (hE : ∀ e ∈ E, e.2.1 < n) :
    ∀ (fuel : Nat) (st : HSt Int), HInv E n s isGoal (maxCost = none) none st →
      match hLoop intNum (adjOf E) fOf isGoal maxIter maxCost fuel st with
      | .found cur st' => HInv E n s isGoal (maxCost = none) (some cur) st' ∧ cur ∈ st'.closed ∧
          isGoal cur = true ∧ (∀ x, look st'.parent x ≠ some cur) ∧ ∃ c, look st'.g cur = some c
      | .infeasible st' => HInv E n s isGoal (maxCost = none) none st' ∧ st'.heap = []
      | .maxIter _ => True
      | .fuel => True := by
  intro fuel
  induction fuel with
  | zero => intro st _; simp [hLoop]
  | succ k ih =>
    intro st inv
    unfold hLoop
    by_cases hit : st.iters < maxIter
    · simp only [hit, if_true]
      cases hp : popMin intNum st.heap with
      | none => simp only; exact ⟨inv, popMin_none.mp hp⟩
      | some p =>
        obtain ⟨e, rest⟩ := p
        simp only
        by_cases hc : st.closed.contains e.2.2.2 = true
        · simp only [hc, if_true]
          exact ih _ (hinv_skip inv hp (by simpa using hc))
        · have hnc : e.2.2.2 ∉ st.closed := by simpa using hc
          simp only [hc]
          obtain ⟨mid, ⟨c, hgc, hgof⟩, hnp⟩ := hinv_close inv hp hnc
          have hcc : e.2.2.2 ∈ (hClose st e.2.2.2 rest).closed := by simp [hClose]
          have hgc' : look (hClose st e.2.2.2 rest).g e.2.2.2 = some c := by simpa [hClose] using hgc
          have hnp' : ∀ x, look (hClose st e.2.2.2 rest).parent x ≠ some e.2.2.2 := by simpa [hClose] using hnp
          rw [hgof]
          by_cases hpr : pruned intNum maxCost c = true
          · simp only [hpr, if_true]
            apply ih
            apply hinv_prune _ mid hnp'
            intro h; rw [h] at hpr; simp [pruned] at hpr
          · simp only [hpr]
            by_cases hg : isGoal e.2.2.2 = true
            · simp only [hg, if_true]
              exact ⟨mid, hcc, hg, hnp', c, hgc'⟩
            · have hg' : isGoal e.2.2.2 = false := by simpa using hg
              simp only [hg', Bool.false_eq_true, if_false]
              apply ih
              obtain ⟨i, cl, gcur, pc, dn, _⟩ := hrelax_fold fOf hE (adjOf E e.2.2.2) (hClose st e.2.2.2 rest)
                (fun nb h => mem_adjOf.mp h) mid hcc hgc' (fun x h => absurd h (hnp' x))
              apply hinv_finish i (by rw [cl]; exact hcc) gcur hg' (by rw [cl]; exact pc)
              intro nb hnb
              rcases dn nb hnb with h | h
              · left; rw [cl]; exact h
              · right; exact h
    · rw [if_neg hit]; trivial

end loop

/-! ### what `hSearch` returns -/

section result
variable {E : List (Edge Int)} {n s : Nat}
open Solvor.Gen (Status)

theorem hresult_sound (T : List Nat) (maxCost : Option Int) (okStatus : Status)
    (hok : okStatus ≠ .INFEASIBLE ∧ okStatus ≠ .MAX_ITER) (out : HOut Int)
    (h : match out with
      | .found cur st' => HInv E n s T.contains (maxCost = none) (some cur) st' ∧ cur ∈ st'.closed ∧
          T.contains cur = true ∧ (∀ x, look st'.parent x ≠ some cur) ∧ ∃ c, look st'.g cur = some c
      | .infeasible st' => HInv E n s T.contains (maxCost = none) none st' ∧ st'.heap = []
      | .maxIter _ => True
      | .fuel => True) :
    ((hResult n okStatus out).status = okStatus →
      ∃ p c, (hResult n okStatus out).path = some p ∧ (hResult n okStatus out).cost = some c ∧ pathOK E s T p c = true) ∧
    ((hResult n okStatus out).status = .INFEASIBLE → maxCost = none → ∀ t ∈ T, ¬ Reach E s t) := by
  cases out with
  | found cur st' =>
    obtain ⟨inv, hcc, hg, hnp, c, hgc⟩ := h
    obtain ⟨k, hk, hks, _⟩ := inv.chain cur c hgc
    have hlen : st'.closed.length ≤ n := nodup_length_le n _ inv.closed_nodup inv.closed_lt
    have rel : ∀ x u, look st'.parent x = some u → ∀ w', (u, x, w') ∈ E →
        ∃ gu gx, look st'.g u = some gu ∧ look st'.g x = some gx ∧ gx ≤ gu + w' := by
      intro x u hp w' he
      refine inv.relaxed x u hp (fun h => hnp x ?_) w' he
      rw [hp]; exact h.symm
    obtain ⟨p, hr, hh, hl, hpc⟩ := recon_wchain hk rel (n + 1) [] (by have := hks hcc; omega)
    rw [List.append_nil] at hr
    refine ⟨fun _ => ⟨p, c, hr, hgc, ?_⟩, fun h => absurd h hok.1⟩
    simp only [pathOK, hh, hl, hpc, hg]; simp
  | infeasible st' =>
    obtain ⟨inv, hheap⟩ := h
    refine ⟨fun h => absurd h.symm hok.1, fun _ hmc t ht hreach => ?_⟩
    obtain ⟨c, hw⟩ := hreach
    -- with an empty heap every node that has a `g` is closed
    have hfin : ∀ v c, look st'.g v = some c → v ∈ st'.closed := by
      intro v c hv
      rcases inv.open_heap v c hv with h | ⟨e, he, _⟩
      · exact h
      · rw [hheap] at he; cases he
    have hsc : s ∈ st'.closed := hfin s 0 inv.start_g
    have hcl : ∀ (u t : Nat) (c : Int), Walk E u t c → u ∈ st'.closed → t ∈ st'.closed := by
      intro u t c hw
      induction hw with
      | nil u => exact id
      | @cons u v t w c he _ ih =>
        intro hu
        apply ih
        obtain ⟨_, h2⟩ := inv.expanded hmc u hu (by simp)
        obtain ⟨gv, hgv⟩ := h2 _ he rfl
        exact hfin v gv hgv
    have htc := hcl s t c hw hsc
    have := (inv.expanded hmc t htc (by simp)).1
    have ht' : T.contains t = true := by simpa using ht
    rw [ht'] at this; cases this
  | maxIter st' =>
    exact ⟨fun h => absurd h.symm hok.2, fun h => (by cases h)⟩
  | fuel =>
    exact ⟨fun h => absurd h.symm hok.2, fun h => (by cases h)⟩

theorem hsearch_sound (fOf : Int → Nat → Int) (T : List Nat) (maxIter : Nat) (maxCost : Option Int)
    (okStatus : Status) (hok : okStatus ≠ .INFEASIBLE ∧ okStatus ≠ .MAX_ITER) (hs : s < n) (hE : ∀ e ∈ E, e.2.1 < n) :
    ((hSearch intNum n E.length (adjOf E) fOf s T.contains maxIter maxCost okStatus).status = okStatus →
      ∃ p c, (hSearch intNum n E.length (adjOf E) fOf s T.contains maxIter maxCost okStatus).path = some p ∧
        (hSearch intNum n E.length (adjOf E) fOf s T.contains maxIter maxCost okStatus).cost = some c ∧
        pathOK E s T p c = true) ∧
    ((hSearch intNum n E.length (adjOf E) fOf s T.contains maxIter maxCost okStatus).status = .INFEASIBLE →
      maxCost = none → ∀ t ∈ T, ¬ Reach E s t) :=
  hresult_sound T maxCost okStatus hok _
    (hloop_inv (E := E) (n := n) (s := s) (isGoal := T.contains) fOf maxIter maxCost hE (E.length + 2) _
      (hinv_init (noCost := maxCost = none) fOf hs))

end result

end Solvor.Path
