import Mathlib.Analysis.Real.Sqrt
import Mathlib.Tactic.Linarith
import Solvor.Path.Lemmas
/-! Path: `ℤ[√2]` — the Bool order of `Model.lean` (comparison by squaring) is the order of the
real numbers `a + b·√2`; hence `Z2` satisfies `OrdW` and the certificate theorems apply to the
grid graphs of `astar_grid`.  Also the exact tolerance test `withinTol`. -/
namespace Solvor.Path

/-- the real number a pair stands for -/
noncomputable def Z2.ev (x : Z2) : ℝ := (x.a : ℝ) + (x.b : ℝ) * Real.sqrt 2

theorem sqrt2_mul_self : Real.sqrt 2 * Real.sqrt 2 = 2 := Real.mul_self_sqrt (by norm_num)
theorem sqrt2_pos : 0 < Real.sqrt 2 := Real.sqrt_pos.mpr (by norm_num)

/-- sign of `a + b√2` for real `a`, `b`, by squaring -/
theorem sign_by_squaring (a b : ℝ) :
    0 ≤ a + b * Real.sqrt 2 ↔
      (0 ≤ a ∧ 0 ≤ b) ∨ (0 ≤ a ∧ b < 0 ∧ 2 * (b * b) ≤ a * a) ∨ (a < 0 ∧ 0 ≤ b ∧ a * a ≤ 2 * (b * b)) := by
  have h2 := sqrt2_mul_self
  have hpos := sqrt2_pos
  have h4 : b * b * (Real.sqrt 2 * Real.sqrt 2) = 2 * (b * b) := by rw [h2]; ring
  constructor
  · intro h
    by_cases ha : 0 ≤ a <;> by_cases hb : 0 ≤ b
    · exact Or.inl ⟨ha, hb⟩
    · right; left
      have hb' := not_le.mp hb
      have h3 : 0 ≤ a - b * Real.sqrt 2 := by nlinarith [mul_pos (neg_pos.mpr hb') hpos]
      exact ⟨ha, hb', by nlinarith [mul_nonneg h h3]⟩
    · right; right
      have ha' := not_le.mp ha
      have h3 : 0 ≤ b * Real.sqrt 2 - a := by nlinarith [mul_nonneg hb hpos.le]
      exact ⟨ha', hb, by nlinarith [mul_nonneg h h3]⟩
    · exfalso
      have ha' := not_le.mp ha
      have hb' := not_le.mp hb
      nlinarith [mul_pos (neg_pos.mpr hb') hpos]
  · rintro (⟨ha, hb⟩ | ⟨ha, hb, h⟩ | ⟨ha, hb, h⟩)
    · have := mul_nonneg hb hpos.le; linarith
    · by_contra hc
      have hc' := not_le.mp hc
      have h3 : 0 < a - b * Real.sqrt 2 := by nlinarith [mul_pos (neg_pos.mpr hb) hpos]
      nlinarith [mul_pos (neg_pos.mpr hc') h3]
    · by_contra hc
      have hc' := not_le.mp hc
      have h3 : 0 ≤ b * Real.sqrt 2 - a := by nlinarith [mul_nonneg hb hpos.le]
      have h5 : 0 < b * Real.sqrt 2 - a := by nlinarith
      nlinarith [mul_pos (neg_pos.mpr hc') h5]

theorem Z2.nonneg_iff (x : Z2) : Z2.nonneg x = true ↔ 0 ≤ x.ev := by
  obtain ⟨a, b⟩ := x
  rw [Z2.ev, sign_by_squaring]
  simp only [Z2.nonneg]
  by_cases ha : 0 ≤ a <;> by_cases hb : 0 ≤ b <;> simp only [ha, hb, if_true, if_false]
  · have : (0:ℝ) ≤ a := by exact_mod_cast ha
    have : (0:ℝ) ≤ b := by exact_mod_cast hb
    simp [*]
  · have ha' : (0:ℝ) ≤ a := by exact_mod_cast ha
    have hb' : (b:ℝ) < 0 := by exact_mod_cast (not_le.mp hb)
    have hb'' : ¬ (0:ℝ) ≤ b := not_le.mpr hb'
    have e : (2 * (b * b) ≤ a * a) ↔ ((2:ℝ) * ((b:ℝ) * b) ≤ (a:ℝ) * a) := by
      constructor <;> intro h <;> exact_mod_cast h
    simp only [decide_eq_true_eq, e, ha', hb', hb'', true_and, false_and, and_false, false_or, or_false,
      not_lt.mpr ha']
  · have ha' : (a:ℝ) < 0 := by exact_mod_cast (not_le.mp ha)
    have hb' : (0:ℝ) ≤ b := by exact_mod_cast hb
    have ha'' : ¬ (0:ℝ) ≤ a := not_le.mpr ha'
    have e : (a * a ≤ 2 * (b * b)) ↔ ((a:ℝ) * a ≤ (2:ℝ) * ((b:ℝ) * b)) := by
      constructor <;> intro h <;> exact_mod_cast h
    simp only [decide_eq_true_eq, e, ha', hb', ha'', true_and, false_and, and_false, false_or,
      not_lt.mpr hb']
  · have ha' : (a:ℝ) < 0 := by exact_mod_cast (not_le.mp ha)
    have hb' : (b:ℝ) < 0 := by exact_mod_cast (not_le.mp hb)
    simp [not_le.mpr ha', not_le.mpr hb']

theorem Z2.ev_add (x y : Z2) : (x + y).ev = x.ev + y.ev := by
  show Z2.ev ⟨x.a + y.a, x.b + y.b⟩ = _
  simp only [Z2.ev]; push_cast; ring

theorem Z2.ev_zero : (0 : Z2).ev = 0 := by
  show Z2.ev ⟨0, 0⟩ = 0
  simp [Z2.ev]

/-- order embedding: the Bool comparison by squaring is the order of the reals `a + b√2` -/
theorem Z2.le_iff_ev (x y : Z2) : x ≤ y ↔ x.ev ≤ y.ev := by
  show Z2.le x y = true ↔ _
  unfold Z2.le
  rw [Z2.nonneg_iff]
  simp only [Z2.ev]; push_cast
  constructor <;> intro h <;> nlinarith

theorem Z2.add_assoc' (a b c : Z2) : a + b + c = a + (b + c) := by
  show (⟨a.a + b.a + c.a, a.b + b.b + c.b⟩ : Z2) = ⟨a.a + (b.a + c.a), a.b + (b.b + c.b)⟩
  rw [Int.add_assoc, Int.add_assoc]

instance : OrdW Z2 where
  le_refl := fun a => (Z2.le_iff_ev a a).mpr (le_refl _)
  le_trans := fun h1 h2 => (Z2.le_iff_ev _ _).mpr (le_trans ((Z2.le_iff_ev _ _).mp h1) ((Z2.le_iff_ev _ _).mp h2))
  add_le_add_right := fun c h => by
    rw [Z2.le_iff_ev, Z2.ev_add, Z2.ev_add]
    have := (Z2.le_iff_ev _ _).mp h
    linarith
  add_assoc := Z2.add_assoc'
  zero_add := fun a => by
    show (⟨0 + a.a, 0 + a.b⟩ : Z2) = a
    simp
  add_zero := fun a => by
    show (⟨a.a + 0, a.b + 0⟩ : Z2) = a
    simp

/-! ### the tolerance test -/

theorem ratLeSqrt2_iff (y : Rat) (b : Int) : ratLeSqrt2 y b = true ↔ (y : ℝ) ≤ (b : ℝ) * Real.sqrt 2 := by
  have key : (y : ℝ) ≤ (b : ℝ) * Real.sqrt 2 ↔ 0 ≤ (-(y : ℝ)) + (b : ℝ) * Real.sqrt 2 := by
    constructor <;> intro h <;> linarith
  rw [key, sign_by_squaring]
  have e1 : (y * y ≤ 2 * ((b * b : Int) : Rat)) ↔ ((y : ℝ) * y ≤ 2 * ((b : ℝ) * b)) := by
    constructor
    · intro h
      have : ((y * y : Rat) : ℝ) ≤ ((2 * ((b * b : Int) : Rat) : Rat) : ℝ) := by exact_mod_cast h
      push_cast at this; linarith
    · intro h
      have : ((y * y : Rat) : ℝ) ≤ ((2 * ((b * b : Int) : Rat) : Rat) : ℝ) := by push_cast; linarith
      exact_mod_cast this
  have e2 : (2 * ((b * b : Int) : Rat) ≤ y * y) ↔ (2 * ((b : ℝ) * b) ≤ (y : ℝ) * y) := by
    constructor
    · intro h
      have : ((2 * ((b * b : Int) : Rat) : Rat) : ℝ) ≤ ((y * y : Rat) : ℝ) := by exact_mod_cast h
      push_cast at this; linarith
    · intro h
      have : ((2 * ((b * b : Int) : Rat) : Rat) : ℝ) ≤ ((y * y : Rat) : ℝ) := by push_cast; linarith
      exact_mod_cast this
  have e0 : (y ≤ 0) ↔ ((y : ℝ) ≤ 0) := by
    constructor <;> intro h <;> exact_mod_cast h
  unfold ratLeSqrt2
  by_cases hb : 0 ≤ b
  · have hb' : (0 : ℝ) ≤ b := by exact_mod_cast hb
    simp only [hb, if_true, Bool.or_eq_true, decide_eq_true_eq, e0, e1]
    constructor
    · rintro (h | h)
      · exact Or.inl ⟨by linarith, hb'⟩
      · by_cases hy : (y : ℝ) ≤ 0
        · exact Or.inl ⟨by linarith, hb'⟩
        · exact Or.inr (Or.inr ⟨by linarith [not_le.mp hy], hb', by nlinarith⟩)
    · rintro (⟨h, _⟩ | ⟨_, h, _⟩ | ⟨_, _, h⟩)
      · left; linarith
      · exact absurd hb' (not_le.mpr h)
      · right; nlinarith
  · have hb' : (b : ℝ) < 0 := by exact_mod_cast (not_le.mp hb)
    simp only [hb, if_false, Bool.and_eq_true, decide_eq_true_eq, e0, e2]
    constructor
    · rintro ⟨h1, h2⟩
      exact Or.inr (Or.inl ⟨by linarith, hb', by nlinarith⟩)
    · rintro (⟨_, h⟩ | ⟨h1, _, h2⟩ | ⟨_, h, _⟩)
      · exact absurd h (not_le.mpr hb')
      · exact ⟨by linarith, by nlinarith⟩
      · exact absurd h (not_le.mpr hb')

theorem sqrt2LeRat_iff (b : Int) (y : Rat) : sqrt2LeRat b y = true ↔ (b : ℝ) * Real.sqrt 2 ≤ (y : ℝ) := by
  have key : (b : ℝ) * Real.sqrt 2 ≤ (y : ℝ) ↔ 0 ≤ (y : ℝ) + (-(b : ℝ)) * Real.sqrt 2 := by
    constructor <;> intro h <;> linarith
  rw [key, sign_by_squaring]
  have e1 : (y * y ≤ 2 * ((b * b : Int) : Rat)) ↔ ((y : ℝ) * y ≤ 2 * ((b : ℝ) * b)) := by
    constructor
    · intro h
      have : ((y * y : Rat) : ℝ) ≤ ((2 * ((b * b : Int) : Rat) : Rat) : ℝ) := by exact_mod_cast h
      push_cast at this; linarith
    · intro h
      have : ((y * y : Rat) : ℝ) ≤ ((2 * ((b * b : Int) : Rat) : Rat) : ℝ) := by push_cast; linarith
      exact_mod_cast this
  have e2 : (2 * ((b * b : Int) : Rat) ≤ y * y) ↔ (2 * ((b : ℝ) * b) ≤ (y : ℝ) * y) := by
    constructor
    · intro h
      have : ((2 * ((b * b : Int) : Rat) : Rat) : ℝ) ≤ ((y * y : Rat) : ℝ) := by exact_mod_cast h
      push_cast at this; linarith
    · intro h
      have : ((2 * ((b * b : Int) : Rat) : Rat) : ℝ) ≤ ((y * y : Rat) : ℝ) := by push_cast; linarith
      exact_mod_cast this
  have e0 : (0 ≤ y) ↔ ((0 : ℝ) ≤ y) := by
    constructor <;> intro h <;> exact_mod_cast h
  unfold sqrt2LeRat
  by_cases hb : 0 ≤ b
  · have hb' : (0 : ℝ) ≤ b := by exact_mod_cast hb
    simp only [hb, if_true, Bool.and_eq_true, decide_eq_true_eq, e0, e2]
    constructor
    · rintro ⟨h1, h2⟩
      by_cases hb0 : (b : ℝ) = 0
      · exact Or.inl ⟨h1, by rw [hb0]; simp⟩
      · have : (0 : ℝ) < b := lt_of_le_of_ne hb' (Ne.symm hb0)
        exact Or.inr (Or.inl ⟨h1, by linarith, by nlinarith⟩)
    · rintro (⟨h1, h2⟩ | ⟨h1, _, h2⟩ | ⟨h, _, _⟩)
      · have : (b : ℝ) = 0 := by linarith
        exact ⟨h1, by rw [this]; nlinarith [mul_self_nonneg (y : ℝ)]⟩
      · exact ⟨h1, by nlinarith⟩
      · exact absurd h (not_lt.mpr (by
          rename_i h2 h3
          nlinarith [mul_nonneg (by linarith : (0:ℝ) ≤ -(-(b:ℝ))) sqrt2_pos.le]))
  · have hb' : (b : ℝ) < 0 := by exact_mod_cast (not_le.mp hb)
    simp only [hb, if_false, Bool.or_eq_true, decide_eq_true_eq, e0, e1]
    constructor
    · rintro (h | h)
      · exact Or.inl ⟨h, by linarith⟩
      · by_cases hy : (0 : ℝ) ≤ y
        · exact Or.inl ⟨hy, by linarith⟩
        · exact Or.inr (Or.inr ⟨not_le.mp hy, by linarith, by nlinarith⟩)
    · rintro (⟨h, _⟩ | ⟨_, h, _⟩ | ⟨_, _, h⟩)
      · left; exact h
      · exact absurd h (not_lt.mpr (by linarith))
      · right; nlinarith

/-- `withinTol cost opt scale tol` decides `|cost − (a + b√2)/scale| ≤ tol·(1 + cost)` exactly. -/
theorem withinTol_iff (cost : Rat) (opt : Z2) (scale : Nat) (tol : Rat) (hs : 0 < scale) :
    withinTol cost opt scale tol = true ↔
      |(cost : ℝ) - opt.ev / scale| ≤ (tol : ℝ) * (1 + (cost : ℝ)) := by
  unfold withinTol
  simp only [Bool.and_eq_true, ratLeSqrt2_iff, sqrt2LeRat_iff]
  have hs' : (0 : ℝ) < scale := by exact_mod_cast hs
  rw [abs_le]
  have hq : opt.ev / scale * scale = opt.ev := div_mul_cancel₀ _ (ne_of_gt hs')
  have hev : opt.ev = (opt.a : ℝ) + (opt.b : ℝ) * Real.sqrt 2 := rfl
  generalize opt.ev / (scale : ℝ) = q at hq ⊢
  push_cast
  constructor
  · rintro ⟨h1, h2⟩
    constructor
    · apply le_of_mul_le_mul_right _ hs'; nlinarith
    · apply le_of_mul_le_mul_right _ hs'; nlinarith
  · rintro ⟨h1, h2⟩
    have h1' := mul_le_mul_of_nonneg_right h1 hs'.le
    have h2' := mul_le_mul_of_nonneg_right h2 hs'.le
    constructor <;> nlinarith

end Solvor.Path
