import Solvor.Path.Lemmas
import Solvor.Path.BellmanFord
import Solvor.Path.Search
import Solvor.Path.Sqrt2
import Solvor.Path.HSearch
import Solvor.Path.Dijkstra
import Solvor.Path.FloydWarshall
import Solvor.Path.BFRounds
import Solvor.Path.FWLower
/-!
Path: the property theorems of C11.  Helper lemmas: `Lemmas.lean` (walks, potentials, paths),
`BellmanFord.lean` + `BFRounds.lean`, `Search.lean` (BFS/DFS), `HSearch.lean` + `Dijkstra.lean`
(Dijkstra/A*), `FloydWarshall.lean` + `FWLower.lean`, `Sqrt2.lean` (`ℤ[√2]`, imports Mathlib reals).

Specification vocabulary (`Model.lean`): `Walk E u t c` — a walk from `u` to `t` along edges of the
edge list `E` whose weights sum to `c`; `Reach E s t`; `IsDist E s t c` — `c` is the weight of a
walk and no walk is lighter; `IsGoalDist E s T c` — the same towards a goal set `T` (goal given as a
value: `T = [t]`; as a predicate: the nodes satisfying it).
-/
namespace Solvor.Path
set_option linter.unusedSectionVars false
open Solvor.Gen (Status)

section certificates
variable {W : Type} [Add W] [Zero W] [LE W] [DecidableLE W] [DecidableEq W] [OrdW W]

/-! ## T-spec: certificate theorems (for every graph, every candidate answer) -/

/-- C11 `potential_lower_bound`: if `d s = 0` and `d v ≤ d u + w` along every edge `(u, v, w)` (the
Bool checker `feasible`), then `d t` is finite and at most the weight of every walk from `s` to `t`. -/
theorem potential_lower_bound {E : List (Edge W)} {d : Tab W} {s t : Nat} {c : W}
    (hf : feasible E d = true) (hs : look d s = some 0) (hw : Walk E s t c) :
    ∃ b, look d t = some b ∧ b ≤ c := by
  obtain ⟨b, hb, hle⟩ := potential_walk hf hw 0 hs
  exact ⟨b, hb, by rwa [OrdW.zero_add] at hle⟩

example : feasible [((0 : Nat), (1 : Nat), (2 : Int)), (1, 2, -1), (0, 2, 5), (2, 2, 0)] [some 0, some 2, some 1] = true ∧
    look ([some 0, some 2, some 1] : Tab Int) 0 = some 0 := by decide

/-- the Bool checker `lowerCert` is sound: every walk from `s` into the goal set weighs at least `c` -/
theorem lowerCert_sound {E : List (Edge W)} {s : Nat} {T : List Nat} {pot : Tab W} {c : W}
    (h : lowerCert E s T pot c = true) : ∀ t ∈ T, ∀ c', Walk E s t c' → c ≤ c' := by
  unfold lowerCert at h
  simp only [Bool.and_eq_true, beq_iff_eq, List.all_eq_true] at h
  obtain ⟨⟨hf, hs⟩, hT⟩ := h
  intro t ht c' hw
  obtain ⟨b, hb, hle⟩ := potential_lower_bound hf hs hw
  have := hT t ht
  simp only [hb, decide_eq_true_eq] at this
  exact OrdW.le_trans this hle

omit [OrdW W] in
/-- C11 `path_upper_bound`: a path accepted by the Bool checker `pathOK` starts at `s`, ends at a goal
node, uses only existing edges, and is a walk whose weights sum to the reported `cost`. -/
theorem path_upper_bound {E : List (Edge W)} {s : Nat} {T : List Nat} {path : List Nat} {cost : W}
    (h : pathOK E s T path cost = true) :
    ∃ t ∈ T, path.head? = some s ∧ path.getLast? = some t ∧ pathCost E path = some cost ∧ Walk E s t cost := by
  unfold pathOK at h
  simp only [Bool.and_eq_true, beq_iff_eq] at h
  obtain ⟨⟨hh, hl⟩, hc⟩ := h
  cases path with
  | nil => simp at hh
  | cons u p =>
    simp only [List.head?_cons, Option.some.injEq] at hh
    subst hh
    have hw := pathCost_walk p u cost hc
    rw [List.getLast?_eq_some_getLast (List.cons_ne_nil _ _)] at hl
    simp only [List.contains_iff_mem] at hl
    exact ⟨_, hl, rfl, List.getLast?_eq_some_getLast _, hc, hw⟩

example : pathOK [((0 : Nat), (1 : Nat), (2 : Int)), (0, 1, 1), (1, 2, -1), (0, 2, 5)] 0 [2] [0, 1, 2] 0 = true := by decide

/-- C11 `dist_exact_cert`: an answer accepted by `distCert` (potential + path) is exact: `cost` is the
least weight of a walk from `s` into the goal set, and the returned path is such a walk. -/
theorem dist_exact_cert {E : List (Edge W)} {s : Nat} {T : List Nat} {pot : Tab W} {path : List Nat} {cost : W}
    (h : distCert E s T pot path cost = true) :
    IsGoalDist E s T cost ∧
      ∃ t ∈ T, path.head? = some s ∧ path.getLast? = some t ∧ pathCost E path = some cost ∧ IsDist E s t cost := by
  unfold distCert at h
  rw [Bool.and_eq_true] at h
  obtain ⟨t, ht, hh, hl, hc, hw⟩ := path_upper_bound h.2
  have hlow := lowerCert_sound h.1
  exact ⟨⟨⟨t, ht, hw⟩, hlow⟩, t, ht, hh, hl, hc, hw, hlow t ht⟩

example : distCert [((0 : Nat), (1 : Nat), (2 : Int)), (0, 1, 1), (1, 2, -1), (0, 2, 5)] 0 [2]
    [some 0, some 1, some 0] [0, 1, 2] 0 = true := by decide

omit [LE W] [DecidableLE W] [DecidableEq W] [OrdW W] in
/-- C11 `closed_set_unreachable`: a set containing `s`, closed under the edges and containing no goal
node (Bool checker `unreachCert`) shows that no goal node is reachable. -/
theorem closed_set_unreachable {E : List (Edge W)} {s : Nat} {T S : List Nat}
    (h : unreachCert E s T S = true) : ∀ t ∈ T, ¬ Reach E s t := by
  unfold unreachCert at h
  simp only [Bool.and_eq_true, List.all_eq_true, List.contains_iff_mem, Bool.not_eq_eq_eq_not,
    Bool.not_true] at h
  obtain ⟨⟨hs, hc⟩, hT⟩ := h
  rintro t ht ⟨c, hw⟩
  have := hT t ht
  simp only [List.contains_eq_mem, decide_eq_false_iff_not] at this
  exact this (closed_walk hc hw hs)

example : unreachCert [((0 : Nat), (1 : Nat), (2 : Int)), (1, 0, 1), (2, 1, 1)] 0 [2] [0, 1] = true := by decide

end certificates

/-- C11 `neg_cycle_cert`: a certificate accepted by `negCycleCert` (a path from `s` to `x` and a closed
path through `x` of negative weight) shows that a negative cycle is reachable from `s`, hence that
walks from `s` to `x` of arbitrarily small weight exist (no finite shortest distance). -/
theorem neg_cycle_cert {E : List (Edge Int)} {s : Nat} {p cyc : List Nat} (h : negCycleCert E s p cyc = true) :
    ∃ x, Reach E s x ∧ (∃ c, c < 0 ∧ Walk E x x c) ∧ ∀ B : Int, ∃ w, Walk E s x w ∧ w < B := by
  unfold negCycleCert at h
  simp only [Bool.and_eq_true, beq_iff_eq] at h
  obtain ⟨⟨⟨⟨⟨hh, hp⟩, hpl⟩, hcl⟩, hcs⟩, hneg⟩ := h
  cases p with
  | nil => simp at hh
  | cons u p =>
    simp only [List.head?_cons, Option.some.injEq] at hh
    subst hh
    cases cyc with
    | nil => simp at hcs
    | cons x cyc =>
      obtain ⟨a, ha⟩ := Option.isSome_iff_exists.mp hp
      have hw1 := pathCost_walk p u a ha
      rw [List.getLast?_eq_some_getLast (List.cons_ne_nil _ _)] at hpl
      simp only [List.head?_cons, Option.some.injEq] at hpl
      rw [hpl] at hw1
      cases hcc : pathCost E (x :: cyc) with
      | none => simp [hcc] at hneg
      | some c =>
        simp only [hcc, decide_eq_true_eq] at hneg
        have hw2 := pathCost_walk cyc x c hcc
        rw [List.getLast?_eq_some_getLast (List.cons_ne_nil _ _)] at hcl
        simp only [List.head?_cons, Option.some.injEq] at hcl
        rw [← hcl] at hw2
        exact ⟨x, ⟨a, hw1⟩, ⟨c, hneg, hw2⟩, neg_cycle_unbounded hw1 hw2 hneg⟩

example : negCycleCert [((0 : Nat), (1 : Nat), (1 : Int)), (1, 2, -3), (2, 1, 1)] 0 [0, 1] [1, 2, 1] = true := by decide

/-! ## T-model: Bellman-Ford (`solvor/bellman_ford.py`), for every input -/

/-- C11 `bellman_ford_correct` [C].  For every edge list (duplicates, self loops, negative weights,
endpoints not even required to be in range), start `s < n` and optional target: if the mirror of
`bellman_ford` (detection round and predecessor-cycle guard) does not answer UNBOUNDED then
* every finite entry of `dist` is the exact shortest-path distance, every infinite entry belongs to
  an unreachable node, and no negative cycle is reachable from `s` (so: a reachable negative
  cycle ⇒ UNBOUNDED);
* in target mode INFEASIBLE is answered exactly when the target is unreachable, the reported
  objective is the exact distance, and the returned path is accepted by the checker `pathOK`:
  it starts at `s`, ends at the target, uses existing edges and its weights sum to the objective.
(The converse "UNBOUNDED ⇒ a negative cycle is reachable" is `bf_rounds_bound` below; on every explored
input it is also decided by `neg_cycle_cert` on the cycle the model extracts.) -/
theorem bellman_ford_correct (n : Nat) (E : List (Edge Int)) (s : Nat) (target : Option Nat) (hs : s < n)
    (hnu : (bellmanFord n E s target).status ≠ .UNBOUNDED) :
    (∀ v c, look (bellmanFord n E s target).dist v = some c → IsDist E s v c) ∧
    (∀ v, look (bellmanFord n E s target).dist v = none → ¬ Reach E s v) ∧
    (∀ x c, Reach E s x → Walk E x x c → 0 ≤ c) ∧
    (target = none → (bellmanFord n E s target).status = .OPTIMAL) ∧
    (∀ t, target = some t →
      ((bellmanFord n E s target).status = .INFEASIBLE ↔ ¬ Reach E s t) ∧
      ((bellmanFord n E s target).status = .OPTIMAL ↔ Reach E s t) ∧
      (∀ c, (bellmanFord n E s target).cost = some c → IsDist E s t c) ∧
      (∀ p, (bellmanFord n E s target).path = some p →
        ∃ c, (bellmanFord n E s target).cost = some c ∧ pathOK E s [t] p c = true)) := by
  have inv := bfInv_rounds (E := E) (n - 1) (bfInit n s) (bfInv_init E hs)
  unfold bellmanFord at hnu ⊢
  generalize bfRounds E (n - 1) (bfInit n s) = st at inv hnu ⊢
  by_cases hany : E.any (relaxable st.dist) = true
  · simp [bfFinish, hany] at hnu
  · have hany' : E.any (relaxable st.dist) = false := by simpa using hany
    by_cases hcyc : hasParCycle n st.par = true
    · simp [bfFinish, hany', hcyc] at hnu
    have hcyc' : hasParCycle n st.par = false := by simpa using hcyc
    have F := bfFinal_of_inv inv hany'
    have hdist : (bfFinish n E st target).dist = st.dist := by
      simp only [bfFinish, hany', hcyc']
      cases target with
      | none => rfl
      | some t => simp only []; cases look st.dist t <;> rfl
    have exact : ∀ v c, look st.dist v = some c → IsDist E s v c := by
      intro v c h
      refine ⟨F.real v c h, fun c' hw => ?_⟩
      obtain ⟨b, hb, hle⟩ := potential_lower_bound F.feas F.start0 hw
      rw [h] at hb; cases hb; exact hle
    have unreach : ∀ v, look st.dist v = none → ¬ Reach E s v := by
      rintro v h ⟨c, hw⟩
      obtain ⟨b, hb, _⟩ := potential_lower_bound F.feas F.start0 hw
      rw [h] at hb; cases hb
    refine ⟨by rw [hdist]; exact exact, by rw [hdist]; exact unreach, ?_, ?_, ?_⟩
    · rintro x c ⟨a, hw⟩ hc
      obtain ⟨b, hb, _⟩ := potential_lower_bound F.feas F.start0 hw
      obtain ⟨b', hb', hle⟩ := potential_walk F.feas hc b hb
      rw [hb] at hb'; cases hb'; omega
    · intro ht; subst ht; simp [bfFinish, hany', hcyc']
    · intro t ht
      subst ht
      cases hd : look st.dist t with
      | none =>
        have hr : bfFinish n E st (some t) = ⟨.INFEASIBLE, st.dist, st.par, none, none⟩ := by
          simp [bfFinish, hany', hcyc', hd]
        rw [hr]
        refine ⟨⟨fun _ => unreach t hd, fun _ => rfl⟩, ⟨fun h => (by cases h), fun h => absurd h (unreach t hd)⟩, ?_, ?_⟩
        · intro c h; cases h
        · intro p h; cases h
      | some c =>
        have hr : bfFinish n E st (some t) = ⟨.OPTIMAL, st.dist, st.par, reconIdx st.par (n + 1) t [], some c⟩ := by
          simp [bfFinish, hany', hcyc', hd]
        rw [hr]
        have hreach : Reach E s t := ⟨c, F.real t c hd⟩
        refine ⟨⟨fun h => (by cases h), fun h => absurd hreach h⟩, ⟨fun _ => hreach, fun _ => rfl⟩, ?_, ?_⟩
        · intro c' h; cases h; exact exact t c hd
        · intro p h
          obtain ⟨h1, h2, h3⟩ := recon_final F (n + 1) t [] p c 0 h hd (by simp [pathCost])
          refine ⟨c, rfl, ?_⟩
          simp only [pathOK, h1, h2, h3, Int.add_zero]
          simp

example : (bellmanFord 4 [(0, 1, 4), (0, 2, 1), (2, 1, -2), (1, 3, 1), (3, 3, 0), (2, 1, 5)] 0 (some 3)).status ≠ .UNBOUNDED ∧
    (bellmanFord 4 [(0, 1, 4), (0, 2, 1), (2, 1, -2), (1, 3, 1), (3, 3, 0), (2, 1, 5)] 0 (some 3)).path = some [0, 2, 1, 3] ∧
    (bellmanFord 4 [(0, 1, 4), (0, 2, 1), (2, 1, -2), (1, 3, 1), (3, 3, 0), (2, 1, 5)] 0 (some 3)).cost = some 0 := by
  decide

/-- C11 `bf_rounds_bound` [S]: the converse of `bellman_ford_correct`.  With all edge heads in range, an
UNBOUNDED answer of the Bellman-Ford mirror means that a negative cycle is reachable from the start: if
none were, every walk could be shortened to at most `n - 1` edges without gaining weight, `k` rounds bound
all walks of at most `k` edges, and so the detection round after `n - 1` rounds would find nothing.
Together: UNBOUNDED ⇔ a negative cycle is reachable. -/
theorem bf_rounds_bound (n : Nat) (E : List (Edge Int)) (s : Nat) (target : Option Nat) (hs : s < n)
    (hE : ∀ e ∈ E, e.2.1 < n) :
    (bellmanFord n E s target).status = .UNBOUNDED ↔ ∃ x c, Reach E s x ∧ Walk E x x c ∧ c < 0 := by
  constructor
  · exact bf_unbounded_neg_cycle target hs hE
  · rintro ⟨x, c, hx, hc, hneg⟩
    apply Classical.byContradiction
    intro hnu
    have := (bellman_ford_correct n E s target hs hnu).2.2.1 x c hx hc
    omega

example : (bellmanFord 3 [(0, 1, 1), (1, 2, -3), (2, 1, 1)] 0 none).status = .UNBOUNDED := by decide

/-! ## T-model: DFS and BFS (`solvor/bfs.py`), for every input

Nodes are `0..n-1` (`hE`: every edge head is `< n`, `hs`: so is the start); `unitE E` is the unweighted
graph (every edge of weight 1), so the weight of a walk is its number of edges. -/

section searches
variable {W : Type}

/-- C11 `dfs_path_valid` [C].  For the mirror of `dfs` in goal mode, with any `max_iter`:
* FEASIBLE comes with a path accepted by `pathOK`: it starts at `s`, ends at a goal node, follows
  existing edges, and the objective is its number of edges (`len(path) - 1`);
* INFEASIBLE is answered only if no goal node is reachable;
* MAX_ITER is impossible once `max_iter` exceeds the number of nodes — hence, then, *a genuine path
  is returned whenever one exists*. -/
theorem dfs_path_valid (n : Nat) (E : List (Edge W)) (s : Nat) (T : List Nat) (maxIter : Nat)
    (hs : s < n) (hE : ∀ e ∈ E, e.2.1 < n) :
    ((dfs n E s T false maxIter).status = .FEASIBLE →
      ∃ p c, (dfs n E s T false maxIter).path = some p ∧ (dfs n E s T false maxIter).cost = some c ∧
        c + 1 = p.length ∧ pathOK (unitE E) s T p (c : Int) = true) ∧
    ((dfs n E s T false maxIter).status = .INFEASIBLE → ∀ t ∈ T, ¬ Reach (unitE E) s t) ∧
    (n < maxIter → (dfs n E s T false maxIter).status ≠ .MAX_ITER) ∧
    (n < maxIter → (∃ t ∈ T, Reach (unitE E) s t) → (dfs n E s T false maxIter).status = .FEASIBLE) := by
  have h := search_outcome (E := E) (isGoal := fun v => T.contains v) pushOK_dfs hs hE (fun _ => True) trivial
    (fun _ _ _ _ _ _ _ => trivial) maxIter
  have hd : dfs n E s T false maxIter = searchResult .FEASIBLE false
      (searchLoop (discW (fun fr nb => nb :: fr)) (succOf E) (fun v => T.contains v) maxIter (searchInit n s)) := by
    simp only [dfs, dfsRun, dfsDiscover_eq, Bool.not_false, Bool.true_and]
  rw [hd]
  cases hout : searchLoop (discW (fun fr nb => nb :: fr)) (succOf E) (fun v => T.contains v) maxIter (searchInit n s) with
  | found cur st' =>
    rw [hout] at h
    obtain ⟨st0, rest, inv, _, hf, hg, rfl⟩ := h
    obtain ⟨p, k, hres, _, hlen, hok⟩ := result_found .FEASIBLE inv hf hg
    rw [hres]
    exact ⟨fun _ => ⟨p, k, rfl, rfl, hlen, hok⟩, fun h => (by cases h), fun _ h => (by cases h), fun _ _ => rfl⟩
  | exhausted st' =>
    rw [hout] at h
    have hun := result_exhausted h.1 h.2
    simp only [searchResult, Bool.false_eq_true, if_false]
    refine ⟨fun h => (by cases h), fun _ t ht => hun t (by simpa using ht), fun _ h => (by cases h), ?_⟩
    rintro _ ⟨t, ht, hr⟩
    exact absurd hr (hun t (by simpa using ht))
  | cutoff st' =>
    rw [hout] at h
    simp only [searchResult, Bool.false_eq_true, if_false]
    exact ⟨fun h => (by cases h), fun h => (by cases h), fun hlt => absurd hlt h.2, fun hlt => absurd hlt h.2⟩

example : (dfs 4 [((0 : Nat), (1 : Nat), ()), (0, 2, ()), (2, 3, ()), (1, 0, ())] 0 [3] false 10).status = .FEASIBLE ∧
    (dfs 4 [((0 : Nat), (1 : Nat), ()), (0, 2, ()), (2, 3, ()), (1, 0, ())] 0 [3] false 10).path = some [0, 2, 3] := by
  decide

/-- C11 `bfs_correct` [C].  For the mirror of `bfs` in goal mode, with any `max_iter`:
* OPTIMAL comes with a path accepted by `pathOK` (starts at `s`, ends at a goal node, follows
  existing edges), the objective is its number of edges, and that number is the **hop distance**:
  no walk from `s` to any goal node has fewer edges;
* INFEASIBLE is answered only if no goal node is reachable; with `max_iter` above the number of nodes
  MAX_ITER is impossible, so INFEASIBLE ⇔ unreachable and OPTIMAL ⇔ reachable. -/
theorem bfs_correct (n : Nat) (E : List (Edge W)) (s : Nat) (T : List Nat) (maxIter : Nat)
    (hs : s < n) (hE : ∀ e ∈ E, e.2.1 < n) :
    ((bfs n E s T false maxIter).status = .OPTIMAL →
      ∃ p c, (bfs n E s T false maxIter).path = some p ∧ (bfs n E s T false maxIter).cost = some c ∧
        c + 1 = p.length ∧ pathOK (unitE E) s T p (c : Int) = true ∧ IsGoalDist (unitE E) s T (c : Int)) ∧
    ((bfs n E s T false maxIter).status = .INFEASIBLE → ∀ t ∈ T, ¬ Reach (unitE E) s t) ∧
    (n < maxIter → (bfs n E s T false maxIter).status ≠ .MAX_ITER) ∧
    (n < maxIter → ((bfs n E s T false maxIter).status = .INFEASIBLE ↔ ∀ t ∈ T, ¬ Reach (unitE E) s t)) ∧
    (n < maxIter → ((bfs n E s T false maxIter).status = .OPTIMAL ↔ ∃ t ∈ T, Reach (unitE E) s t)) := by
  have h := search_outcome (E := E) (isGoal := fun v => T.contains v) pushOK_bfs hs hE
    (fun st => ∃ dep D, BInv E s dep D st) ⟨_, _, binv_init hs⟩
    (fun st cur rest inv hJ hf hg => by
      obtain ⟨dep, D, b⟩ := hJ
      have := bfs_iter hE inv b hf hg
      rw [bfsDiscover_eq] at this
      exact this) maxIter
  have hd : bfs n E s T false maxIter = searchResult .OPTIMAL false
      (searchLoop (discW (fun fr nb => fr ++ [nb])) (succOf E) (fun v => T.contains v) maxIter (searchInit n s)) := by
    simp only [bfs, bfsRun, bfsDiscover_eq, Bool.not_false, Bool.true_and]
  rw [hd]
  cases hout : searchLoop (discW (fun fr nb => fr ++ [nb])) (succOf E) (fun v => T.contains v) maxIter (searchInit n s) with
  | found cur st' =>
    rw [hout] at h
    obtain ⟨st0, rest, inv, ⟨dep, D, b⟩, hf, hg, rfl⟩ := h
    obtain ⟨p, k, hres, hk, hlen, hok⟩ := result_found .OPTIMAL inv hf hg
    have hkd : k = dep cur :=
      hk.unique (b.dchain cur (inv.fr_vis cur (by rw [hf]; exact List.mem_cons_self)))
    have hlow := bfs_lower_bound inv b hf
    obtain ⟨t, ht, _, _, _, hw⟩ := path_upper_bound hok
    have hgd : IsGoalDist (unitE E) s T (k : Int) :=
      ⟨⟨t, ht, hw⟩, fun t' ht' c' hw' => by rw [hkd]; exact hlow t' (by simpa using ht') c' hw'⟩
    rw [hres]
    refine ⟨fun _ => ⟨p, k, rfl, rfl, hlen, hok, hgd⟩, fun h => (by cases h), fun _ h => (by cases h), fun _ => ?_, fun _ => ?_⟩
    · exact ⟨fun h => (by cases h), fun hall => absurd ⟨_, hw⟩ (hall t ht)⟩
    · exact ⟨fun _ => ⟨t, ht, _, hw⟩, fun _ => rfl⟩
  | exhausted st' =>
    rw [hout] at h
    have hun := result_exhausted h.1 h.2
    have hun' : ∀ t ∈ T, ¬ Reach (unitE E) s t := fun t ht => hun t (by simpa using ht)
    simp only [searchResult, Bool.false_eq_true, if_false]
    refine ⟨fun h => (by cases h), fun _ => hun', fun _ h => (by cases h), fun _ => ⟨fun _ => hun', fun _ => (by first | rfl | trivial)⟩, fun _ => ?_⟩
    exact ⟨fun h => (by cases h), fun ⟨t, ht, hr⟩ => absurd hr (hun' t ht)⟩
  | cutoff st' =>
    rw [hout] at h
    simp only [searchResult, Bool.false_eq_true, if_false]
    exact ⟨fun h => (by cases h), fun h => (by cases h), fun hlt => absurd hlt h.2, fun hlt => absurd hlt h.2,
      fun hlt => absurd hlt h.2⟩

example : (bfs 5 [((0 : Nat), (1 : Nat), ()), (1, 2, ()), (2, 4, ()), (0, 3, ()), (3, 4, ()), (4, 0, ())] 0 [4] false 10).status = .OPTIMAL ∧
    (bfs 5 [((0 : Nat), (1 : Nat), ()), (1, 2, ()), (2, 4, ()), (0, 3, ()), (3, 4, ()), (4, 0, ())] 0 [4] false 10).path = some [0, 3, 4] := by
  decide

/-- C11, `goal is None` mode of `bfs` / `dfs` ("explores all reachable nodes"): the returned set is
duplicate-free, contains the start and only nodes reachable from it, status OPTIMAL; and once
`max_iter` exceeds the number of nodes it is exactly the set of reachable nodes. -/
theorem search_explore_reachable (n : Nat) (E : List (Edge W)) (s : Nat) (T : List Nat) (maxIter : Nat)
    (hs : s < n) (hE : ∀ e ∈ E, e.2.1 < n) :
    (∀ r, r = bfs n E s T true maxIter ∨ r = dfs n E s T true maxIter →
      r.status = .OPTIMAL ∧ r.path = none ∧ r.visited.Nodup ∧ s ∈ r.visited ∧
      (∀ v ∈ r.visited, Reach (unitE E) s v) ∧
      (n < maxIter → ∀ v, Reach (unitE E) s v → v ∈ r.visited)) := by
  have key : ∀ (push : List Nat → Nat → List Nat), PushOK push → ∀ okStatus,
      let r := searchResult okStatus true
        (searchLoop (discW push) (succOf E) (fun _ => false) maxIter (searchInit n s))
      r.status = .OPTIMAL ∧ r.path = none ∧ r.visited.Nodup ∧ s ∈ r.visited ∧
      (∀ v ∈ r.visited, Reach (unitE E) s v) ∧
      (n < maxIter → ∀ v, Reach (unitE E) s v → v ∈ r.visited) := by
    intro push hp okStatus
    have h := search_outcome (E := E) (isGoal := fun _ => false) hp hs hE (fun _ => True) trivial
      (fun _ _ _ _ _ _ _ => trivial) maxIter
    cases hout : searchLoop (discW push) (succOf E) (fun _ => false) maxIter (searchInit n s) with
    | found cur st' =>
      rw [hout] at h
      obtain ⟨_, _, _, _, _, hg, _⟩ := h
      cases hg
    | exhausted st' =>
      rw [hout] at h
      obtain ⟨a, b, c, d⟩ := result_explore h.1
      simp only [searchResult, if_true]
      exact ⟨trivial, trivial, c, b, a, fun _ => d h.2⟩
    | cutoff st' =>
      rw [hout] at h
      obtain ⟨a, b, c, _⟩ := result_explore h.1
      simp only [searchResult, if_true]
      exact ⟨trivial, trivial, c, b, a, fun hlt => absurd hlt h.2⟩
  intro r hr
  rcases hr with hr | hr
  · subst hr
    have := key _ pushOK_bfs .OPTIMAL
    simpa only [bfs, bfsRun, bfsDiscover_eq, Bool.not_true, Bool.false_and] using this
  · subst hr
    have := key _ pushOK_dfs .FEASIBLE
    simpa only [dfs, dfsRun, dfsDiscover_eq, Bool.not_true, Bool.false_and] using this

example : (bfs 5 [((0 : Nat), (1 : Nat), ()), (1, 2, ()), (2, 0, ()), (3, 4, ())] 0 [] true 10).visited = [2, 1, 0] := by
  decide

end searches

/-! ## `astar_grid`: exact arithmetic in `ℤ[√2]` -/

/-- C11 (`ℤ[√2]` order embedding): the pair `(a, b)` stands for the real number `a + b·√2`, and the
Bool comparison by squaring used by the grid model and its certificate checker is exactly the order
of these real numbers. -/
theorem zsqrt2_order_embedding (x y : Z2) : Z2.le x y = true ↔ x.ev ≤ y.ev := Z2.le_iff_ev x y

example : Z2.le ⟨3, 0⟩ ⟨0, 3⟩ = true ∧ Z2.le ⟨0, 2⟩ ⟨3, 0⟩ = true ∧ Z2.le ⟨3, 0⟩ ⟨0, 2⟩ = false := by decide

/-- C11 grid certificate: an `astar_grid` answer accepted by `distCert` over `ℤ[√2]` weights (straight
step `(c, 0)`, diagonal step `(0, c)`) is a real grid path whose weight `cost` is, as a real number, at
most the weight of every walk from the start to the goal. -/
theorem grid_dist_exact_cert {E : List (Edge Z2)} {s : Nat} {T : List Nat} {pot : Tab Z2} {path : List Nat}
    {cost : Z2} (h : distCert E s T pot path cost = true) :
    (∃ t ∈ T, path.head? = some s ∧ path.getLast? = some t ∧ pathCost E path = some cost ∧ Walk E s t cost) ∧
      ∀ t ∈ T, ∀ c', Walk E s t c' → cost.ev ≤ c'.ev := by
  obtain ⟨hgd, t, ht, hh, hl, hc, hd⟩ := dist_exact_cert h
  exact ⟨⟨t, ht, hh, hl, hc, hd.1⟩, fun t' ht' c' hw => (Z2.le_iff_ev _ _).mp (hgd.2 t' ht' c' hw)⟩

example : distCert [((0 : Nat), (1 : Nat), (⟨0, 1⟩ : Z2)), (0, 2, ⟨1, 0⟩), (2, 1, ⟨1, 0⟩)] 0 [1]
    [some ⟨0, 0⟩, some ⟨0, 1⟩, some ⟨1, 0⟩] [0, 1] ⟨0, 1⟩ = true := by decide

/-- C11 grid tolerance: the Bool test the driver applies to the implementation's floating-point cost
(converted exactly to a rational) decides `|cost − (a + b√2)/scale| ≤ tol·(1 + cost)` over the reals. -/
theorem grid_withinTol_iff (cost : Rat) (opt : Z2) (scale : Nat) (tol : Rat) (hs : 0 < scale) :
    withinTol cost opt scale tol = true ↔
      |(cost : ℝ) - opt.ev / scale| ≤ (tol : ℝ) * (1 + (cost : ℝ)) := withinTol_iff cost opt scale tol hs

example : withinTol ((3414213562373095 : Rat) / 1000000000000000) ⟨2, 1⟩ 1 ((1 : Rat) / 1000000000) = true ∧
    withinTol ((3414 : Rat) / 1000) ⟨2, 1⟩ 1 ((1 : Rat) / 1000000000) = false := by decide +kernel

/-! ## T-model: Dijkstra and A* (`solvor/dijkstra.py`, `solvor/a_star.py`), the ∀-input part -/

/-- C11 `dijkstra_sound_any_weights` (∀-input, no hypothesis on the weights): whatever the weights (even
negative), goal set, `max_iter` and `max_cost`, if the mirror of `dijkstra` answers OPTIMAL then it returns a path and
a cost accepted by `pathOK` — the path starts at `s`, ends at a goal node, uses existing edges and its
weights sum to the reported cost (`reconstruct_path` terminates within `n + 1` steps) — and if it
answers INFEASIBLE without `max_cost` then no goal node is reachable. -/
theorem dijkstra_sound_any_weights (n : Nat) (E : List (Edge Int)) (s : Nat) (T : List Nat) (maxIter : Nat)
    (maxCost : Option Int) (hs : s < n) (hE : ∀ e ∈ E, e.2.1 < n) :
    ((dijkstra n E s T maxIter maxCost).status = .OPTIMAL →
      ∃ p c, (dijkstra n E s T maxIter maxCost).path = some p ∧ (dijkstra n E s T maxIter maxCost).cost = some c ∧
        pathOK E s T p c = true) ∧
    ((dijkstra n E s T maxIter maxCost).status = .INFEASIBLE → maxCost = none → ∀ t ∈ T, ¬ Reach E s t) :=
  hsearch_sound (fun g _ => g) T maxIter maxCost .OPTIMAL ⟨by decide, by decide⟩ hs hE

example : (dijkstra 4 [(0, 1, 1), (0, 2, 6), (1, 3, 100), (2, 3, 1)] 0 [3] 100 none).status = .OPTIMAL ∧
    (dijkstra 4 [(0, 1, 1), (0, 2, 6), (1, 3, 100), (2, 3, 1)] 0 [3] 100 none).path = some [0, 2, 3] ∧
    (dijkstra 4 [(0, 1, 1), (0, 2, 6), (1, 3, 100), (2, 3, 1)] 0 [3] 100 (some 5)).status = .INFEASIBLE := by
  decide

/-- C11 `dijkstra_certifies` [S].  For non-negative weights, every goal set, `max_iter` and `max_cost`:
* if the mirror of `dijkstra` answers OPTIMAL, its path and cost together with the capped `g` map
  `astarPot n g [] cost` pass the verified checker `distCert` — so (by `dist_exact_cert`) the reported
  cost is the exact least distance from `s` to the goal set and the path is a real path of that weight;
* if it answers INFEASIBLE, no goal node is reachable (no `max_cost`), respectively every walk from `s` to
  a goal node weighs more than `max_cost`. -/
theorem dijkstra_certifies (n : Nat) (E : List (Edge Int)) (s : Nat) (T : List Nat) (maxIter : Nat)
    (maxCost : Option Int) (hs : s < n) (hE : ∀ e ∈ E, e.2.1 < n) (hW : ∀ e ∈ E, 0 ≤ e.2.2) :
    ((dijkstra n E s T maxIter maxCost).status = .OPTIMAL →
      ∃ p c, (dijkstra n E s T maxIter maxCost).path = some p ∧ (dijkstra n E s T maxIter maxCost).cost = some c ∧
        distCert E s T (astarPot n (dijkstra n E s T maxIter maxCost).g [] c) p c = true ∧
        IsGoalDist E s T c) ∧
    ((dijkstra n E s T maxIter maxCost).status = .INFEASIBLE →
      ∀ t ∈ T, ∀ c, Walk E s t c → match maxCost with | none => False | some m => m < c) := by
  obtain ⟨h1, h2⟩ := hsearch_cert (E := E) (n := n) (s := s) T [] (fun g _ => g) (fun g v => by simp) maxIter maxCost
    hs hE hW (fun e he => by simpa using hW e he) (fun v => by simp) (fun t _ => by simp)
  refine ⟨fun hst => ?_, h2⟩
  obtain ⟨p, c, hp, hc, hcert⟩ := h1 hst
  exact ⟨p, c, hp, hc, hcert, (dist_exact_cert hcert).1⟩

example : (dijkstra 4 [(0, 1, 1), (0, 2, 6), (1, 3, 100), (2, 3, 1), (3, 3, 0)] 0 [3] 100 none).status = .OPTIMAL ∧
    (dijkstra 4 [(0, 1, 1), (0, 2, 6), (1, 3, 100), (2, 3, 1), (3, 3, 0)] 0 [3] 100 none).cost = some 7 ∧
    (∀ e ∈ [((0 : Nat), (1 : Nat), (1 : Int)), (0, 2, 6), (1, 3, 100), (2, 3, 1), (3, 3, 0)], e.2.1 < 4 ∧ 0 ≤ e.2.2) := by
  decide

/-- C11 `astar_certifies` [S].  For non-negative weights, heuristic weight 1 and a heuristic table `h`
that is non-negative, consistent (`h u ≤ w + h v` on every edge) and 0 on the goal nodes, with any
`max_iter` and `max_cost`:
* if the mirror of `astar` answers OPTIMAL, its path and cost together with the potential
  `astarPot n g h cost` (`min (g v) (cost - h v)`) pass the verified checker `distCert`, so the reported
  cost is the exact least distance from `s` to the goal set and the path is a real path of that weight;
* if it answers INFEASIBLE, no goal node is reachable (no `max_cost`), respectively every walk from `s` to
  a goal node weighs more than `max_cost`. -/
theorem astar_certifies (n : Nat) (E : List (Edge Int)) (s : Nat) (T : List Nat) (h : List Int) (maxIter : Nat)
    (maxCost : Option Int) (hs : s < n) (hE : ∀ e ∈ E, e.2.1 < n) (hW : ∀ e ∈ E, 0 ≤ e.2.2)
    (hcons : ∀ e ∈ E, h.getD e.1 0 ≤ e.2.2 + h.getD e.2.1 0) (hh0 : ∀ v, 0 ≤ h.getD v 0)
    (hgoal : ∀ t ∈ T, h.getD t 0 = 0) :
    ((astar n E s T h 1 1 maxIter maxCost).status = .OPTIMAL →
      ∃ p c, (astar n E s T h 1 1 maxIter maxCost).path = some p ∧ (astar n E s T h 1 1 maxIter maxCost).cost = some c ∧
        distCert E s T (astarPot n (astar n E s T h 1 1 maxIter maxCost).g h c) p c = true ∧
        IsGoalDist E s T c) ∧
    ((astar n E s T h 1 1 maxIter maxCost).status = .INFEASIBLE →
      ∀ t ∈ T, ∀ c, Walk E s t c → match maxCost with | none => False | some m => m < c) := by
  obtain ⟨h1, h2⟩ := hsearch_cert (E := E) (n := n) (s := s) T h (fun g v => 1 * g + 1 * h.getD v 0)
    (fun g v => by simp) maxIter maxCost hs hE hW hcons hh0 hgoal
  have ha : astar n E s T h 1 1 maxIter maxCost =
      hSearch intNum n E.length (adjOf E) (fun g v => 1 * g + 1 * h.getD v 0) s T.contains maxIter maxCost .OPTIMAL := by
    simp [astar]
  rw [ha]
  refine ⟨fun hst => ?_, h2⟩
  obtain ⟨p, c, hp, hc, hcert⟩ := h1 hst
  exact ⟨p, c, hp, hc, hcert, (dist_exact_cert hcert).1⟩

example : (astar 4 [(0, 1, 1), (0, 2, 6), (1, 3, 100), (2, 3, 1)] 0 [3] [7, 8, 1, 0] 1 1 100 none).status = .OPTIMAL ∧
    (astar 4 [(0, 1, 1), (0, 2, 6), (1, 3, 100), (2, 3, 1)] 0 [3] [7, 8, 1, 0] 1 1 100 none).cost = some 7 ∧
    (∀ e ∈ [((0 : Nat), (1 : Nat), (1 : Int)), (0, 2, 6), (1, 3, 100), (2, 3, 1)],
      e.2.1 < 4 ∧ 0 ≤ e.2.2 ∧ [7, 8, 1, (0 : Int)].getD e.1 0 ≤ e.2.2 + [7, 8, 1, (0 : Int)].getD e.2.1 0) := by
  decide

/-- C11 `astar_sound_any_heuristic` (∀-input, no hypothesis on weights or heuristic): for **every** heuristic
table (consistent or not), every heuristic weight `wnum / wden`, `max_iter` and `max_cost`: a path returned by the mirror of
`astar` (status OPTIMAL for weight 1, FEASIBLE otherwise) is accepted by `pathOK` with the reported
cost, and INFEASIBLE without `max_cost` means that no goal node is reachable. -/
theorem astar_sound_any_heuristic (n : Nat) (E : List (Edge Int)) (s : Nat) (T : List Nat) (h : List Int)
    (wnum wden : Int) (maxIter : Nat) (maxCost : Option Int) (hs : s < n) (hE : ∀ e ∈ E, e.2.1 < n) :
    ((astar n E s T h wnum wden maxIter maxCost).status = (if wnum = wden then Status.OPTIMAL else Status.FEASIBLE) →
      ∃ p c, (astar n E s T h wnum wden maxIter maxCost).path = some p ∧
        (astar n E s T h wnum wden maxIter maxCost).cost = some c ∧ pathOK E s T p c = true) ∧
    ((astar n E s T h wnum wden maxIter maxCost).status = .INFEASIBLE → maxCost = none → ∀ t ∈ T, ¬ Reach E s t) :=
  hsearch_sound (fun g v => wden * g + wnum * h.getD v 0) T maxIter maxCost
    (if wnum = wden then Status.OPTIMAL else Status.FEASIBLE) ⟨by split <;> decide, by split <;> decide⟩ hs hE

example : (astar 4 [(0, 1, 1), (0, 2, 6), (1, 3, 100), (2, 3, 1)] 0 [3] [7, 100, 1, 0] 1 1 100 none).path = some [0, 2, 3] ∧
    (astar 4 [(0, 1, 1), (0, 2, 6), (1, 3, 100), (2, 3, 1)] 0 [3] [0, 0, 50, 0] 2 1 100 none).status = .FEASIBLE := by
  decide

/-! ## T-model: Floyd-Warshall (`solvor/floyd_warshall.py`), the ∀-input half -/

/-- C11 `floyd_warshall_real` (∀-input, no range hypothesis): for every edge list (`directed` or not),
every finite entry `dist[i][j]` of the mirror's matrix is the weight of a real walk from `i` to `j` (a reported
distance is always attained), and an UNBOUNDED answer comes with a closed walk of negative weight (a negative
cycle is present). -/
theorem floyd_warshall_real (n : Nat) (E : List (Edge Int)) (directed : Bool) :
    ((floydWarshall n E directed).status = .UNBOUNDED →
      ∃ x c, c < 0 ∧ Walk (if directed then E else symE E) x x c) ∧
    (∀ m, (floydWarshall n E directed).mat = some m →
      ∀ i j c, Mat.get m i j = some c → Walk (if directed then E else symE E) i j c) := by
  have hr := fwReal_loop n (fwReal_init n E directed)
  unfold floydWarshall
  simp only []
  split
  · next hany =>
    refine ⟨fun _ => ?_, fun m h => (by cases h)⟩
    obtain ⟨i, _, hi⟩ := List.any_eq_true.mp hany
    cases hg : Mat.get (fwLoop n (fwInit n E directed)) i i with
    | none => simp [hg] at hi
    | some x =>
      simp only [hg, decide_eq_true_eq] at hi
      exact ⟨i, x, hi, hr i i x hg⟩
  · refine ⟨fun h => (by cases h), fun m h => ?_⟩
    cases h
    exact hr

/-- C11 `floyd_warshall_certifies` [S].  For every edge list with endpoints in range (duplicates, self
loops, negative weights, `directed` or not; `E'` = the edge list, symmetrised if undirected):
* UNBOUNDED is answered **exactly when** a negative cycle is present (a closed walk of negative weight);
* otherwise every entry of the returned matrix is exact: a finite `dist[i][j]` is the shortest-path
  distance from `i` to `j`, an infinite one means `j` is unreachable from `i`.
(Proof: every entry is a real walk; if no diagonal entry ends negative then none was negative during the
run, so phase `K` makes every entry at most the weight of every walk with intermediate nodes `≤ K`.) -/
theorem floyd_warshall_certifies (n : Nat) (E : List (Edge Int)) (directed : Bool)
    (hE : ∀ e ∈ E, e.1 < n ∧ e.2.1 < n) :
    ((floydWarshall n E directed).status = .UNBOUNDED ↔
      ∃ x c, c < 0 ∧ Walk (if directed then E else symE E) x x c) ∧
    (∀ m, (floydWarshall n E directed).mat = some m → ∀ i j, i < n → j < n →
      (∀ c, Mat.get m i j = some c → IsDist (if directed then E else symE E) i j c) ∧
      (Mat.get m i j = none → ¬ Reach (if directed then E else symE E) i j)) := by
  have hE' : ∀ e ∈ (if directed then E else symE E), e.1 < n ∧ e.2.1 < n := by
    intro e he
    cases directed with
    | true => exact hE e (by simpa using he)
    | false =>
      simp only [Bool.false_eq_true, if_false, symE, List.mem_flatMap] at he
      obtain ⟨e0, h0, hm⟩ := he
      simp only [List.mem_cons, List.mem_nil_iff, or_false] at hm
      rcases hm with h | h
      · rw [h]; exact hE e0 h0
      · rw [h]; exact ⟨(hE e0 h0).2, (hE e0 h0).1⟩
  obtain ⟨hd0, hp0⟩ := fwInit_spec n E directed hE
  have hreal := fwReal_loop n (fwReal_init n E directed)
  -- if no diagonal entry is negative at the end, every entry bounds every walk
  have hlow : (∀ i, i < n → ∀ d, Mat.get (fwLoop n (fwInit n E directed)) i i = some d → 0 ≤ d) →
      ∀ i j c, i < n → j < n → Walk (if directed then E else symE E) i j c →
        ∃ d, Mat.get (fwLoop n (fwInit n E directed)) i j = some d ∧ d ≤ c := by
    intro hfin i j c hi hj hw
    have := fw_lower hd0 hp0 hfin n (Nat.le_refl n)
    rw [← fwLoop_eq] at this
    exact this i j c hi hj (Walk.toK (fun e he => (hE' e he).2) hw)
  have hpart := floyd_warshall_real n E directed
  unfold floydWarshall at hpart ⊢
  simp only [] at hpart ⊢
  split
  · next hany =>
    rw [if_pos hany] at hpart
    refine ⟨⟨fun _ => hpart.1 rfl, fun _ => rfl⟩, fun m h => (by cases h)⟩
  · next hany =>
    have hfin : ∀ i, i < n → ∀ d, Mat.get (fwLoop n (fwInit n E directed)) i i = some d → 0 ≤ d := by
      intro i hi d hdd
      apply Classical.byContradiction
      intro hneg
      apply hany
      exact List.any_eq_true.mpr ⟨i, List.mem_range.mpr hi, by simp only [hdd, decide_eq_true_eq]; omega⟩
    refine ⟨⟨fun h => (by cases h), ?_⟩, ?_⟩
    · rintro ⟨x, c, hneg, hw⟩
      exfalso
      have hx : x < n := by
        cases hw with
        | nil => omega
        | cons he _ => exact (hE' _ he).1
      obtain ⟨d, hdd, hle⟩ := hlow hfin x x c hx hx hw
      have := hfin x hx d hdd
      omega
    · intro m hm i j hi hj
      cases hm
      refine ⟨fun c hc => ⟨hreal i j c hc, fun c' hw => ?_⟩, fun hnone ⟨c, hw⟩ => ?_⟩
      · obtain ⟨d, hdd, hle⟩ := hlow hfin i j c' hi hj hw
        rw [hc] at hdd; cases hdd; exact hle
      · obtain ⟨d, hdd, _⟩ := hlow hfin i j c hi hj hw
        rw [hnone] at hdd; cases hdd

example : (floydWarshall 3 [(0, 1, 1), (1, 2, -3), (2, 1, 1)] true).status = .UNBOUNDED ∧
    (floydWarshall 3 [(0, 1, 4), (1, 2, -3), (0, 2, 2)] true).mat = some [[some 0, some 4, some 1], [none, some 0, some (-3)], [none, none, some 0]] := by
  decide +kernel

end Solvor.Path
