import Solvor.Path.Model
/-! Path: property theorems only (helper lemmas live in Lemmas.lean). -/
namespace Solvor.Path

end Solvor.Path
