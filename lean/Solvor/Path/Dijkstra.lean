import Solvor.Path.HSearch
/-! Path: the optimality invariant of the Dijkstra / A* mirror (heap key `f = g + h`, `h` a consistent
heuristic — `h = 0` for Dijkstra —, non-negative weights): closed nodes have `f` at most the last
popped key `M`, heap keys are at least `M`, every open node has a heap entry carrying its current `f`,
and expanded nodes are relaxed along all their out-edges.  At a goal pop the map
`astarPot n g h c = min (g v) (c - h v)` is therefore a feasible potential (`dijkstra_certifies`,
`astar_certifies`). -/
namespace Solvor.Path
set_option linter.unusedSectionVars false
set_option linter.unusedVariables false
set_option linter.unusedSimpArgs false

theorem keyLt_le {a b : Ent} (h : keyLt intNum a b = true) : a.1 ≤ b.1 := by
  simp only [keyLt, intNum, Bool.or_eq_true, decide_eq_true_eq, Bool.and_eq_true, Bool.not_eq_eq_eq_not,
    Bool.not_true, decide_eq_false_iff_not] at h
  rcases h with h | ⟨h, _⟩ <;> omega

theorem keyLt_ge {a b : Ent} (h : keyLt intNum a b = false) : b.1 ≤ a.1 := by
  have : ¬ (a.1 < b.1) := by
    intro hlt
    have : keyLt intNum a b = true := by simp [keyLt, intNum, hlt]
    rw [h] at this; cases this
  omega

theorem popMin_min : ∀ {l : List Ent} {m : Ent} {rest : List Ent},
    popMin intNum l = some (m, rest) → ∀ x ∈ l, m.1 ≤ x.1 := by
  intro l
  induction l with
  | nil => intro m rest h; simp [popMin] at h
  | cons x xs ih =>
    intro m rest h
    simp only [popMin] at h
    cases hp : popMin intNum xs with
    | none =>
      have hxs : xs = [] := popMin_none.mp hp
      simp only [hp, Option.some.injEq, Prod.mk.injEq] at h
      obtain ⟨h1, _⟩ := h
      subst h1; subst hxs
      intro y hy; simp at hy; subst hy; exact Int.le_refl _
    | some p =>
      obtain ⟨m', rest'⟩ := p
      have i := ih hp
      simp only [hp] at h
      by_cases hk : keyLt intNum m' x = true
      · simp only [hk, if_true, Option.some.injEq, Prod.mk.injEq] at h
        obtain ⟨h1, _⟩ := h
        subst h1
        intro y hy
        rcases List.mem_cons.mp hy with h | h
        · rw [h]; exact keyLt_le hk
        · exact i y h
      · have hk' : keyLt intNum m' x = false := by simpa using hk
        simp only [hk', Bool.false_eq_true, if_false, Option.some.injEq, Prod.mk.injEq] at h
        obtain ⟨h1, _⟩ := h
        subst h1
        intro y hy
        rcases List.mem_cons.mp hy with h | h
        · rw [h]; exact Int.le_refl _
        · have := i y h; have := keyLt_ge hk'; omega

theorem pruned_mono {maxCost : Option Int} {a b : Int} (hab : a ≤ b) (h : pruned intNum maxCost a = true) :
    pruned intNum maxCost b = true := by
  cases maxCost with
  | none => simp [pruned] at h
  | some m => simp only [pruned, intNum, decide_eq_true_eq] at h ⊢; omega

section dinv
variable (E : List (Edge Int)) (maxCost : Option Int) (isGoal : Nat → Bool) (h : List Int)

structure DInv (cur? : Option Nat) (M : Int) (st : HSt Int) : Prop where
  key_ge : ∀ e ∈ st.heap, ∃ c, look st.g e.2.2.2 = some c ∧ c + h.getD e.2.2.2 0 ≤ e.1
  open_key : ∀ v c, look st.g v = some c → v ∉ st.closed → ∃ e ∈ st.heap, e.2.2.2 = v ∧ e.1 = c + h.getD v 0
  closed_le : ∀ u ∈ st.closed, ∃ c, look st.g u = some c ∧ c + h.getD u 0 ≤ M
  heap_ge : ∀ e ∈ st.heap, M ≤ e.1
  nonneg : ∀ v c, look st.g v = some c → 0 ≤ c
  relaxed_all : ∀ u ∈ st.closed, cur? ≠ some u → ∀ cu, look st.g u = some cu → pruned intNum maxCost cu = false →
    ∀ e ∈ E, e.1 = u → ∃ gv, look st.g e.2.1 = some gv ∧ gv ≤ cu + e.2.2
  nongoal : ∀ u ∈ st.closed, cur? ≠ some u → ∀ cu, look st.g u = some cu → pruned intNum maxCost cu = false →
    isGoal u = false

variable {E maxCost isGoal h}

/-- the heap key is `g + h` -/
def KeyIs (fOf : Int → Nat → Int) (h : List Int) : Prop := ∀ g v, fOf g v = g + h.getD v 0

/-- `h` is consistent on `E` -/
def Consistent (E : List (Edge Int)) (h : List Int) : Prop := ∀ e ∈ E, h.getD e.1 0 ≤ e.2.2 + h.getD e.2.1 0

theorem dinv_init {n s : Nat} {fOf : Int → Nat → Int} (hf : KeyIs fOf h) (hs : s < n) :
    DInv E maxCost isGoal h none (h.getD s 0) (hInit intNum n fOf s) := by
  show DInv E maxCost isGoal h none (h.getD s 0)
      ⟨(Tab.empty n).set s (some 0), Tab.empty n, [], [(fOf 0 s, 0, 0, s)], 1, 0, 0⟩
  have hl : (Tab.empty n : Tab Int).length = n := by simp [Tab.empty]
  have hg : ∀ v, look ((Tab.empty n : Tab Int).set s (some 0)) v = if v = s then some 0 else none := by
    intro v
    rw [look_set, look_empty]
    by_cases h : s = v
    · subst h; simp [hl, hs]
    · have : ¬ v = s := fun e => h e.symm
      simp [h, this]
  have hk : fOf 0 s = h.getD s 0 := by rw [hf]; omega
  refine ⟨?_, ?_, by simp, ?_, ?_, by simp, by simp⟩
  · intro e he; simp at he; subst he; exact ⟨0, by simp [hg], by simp only; omega⟩
  · intro v c hv _
    simp only [hg] at hv
    split at hv
    · next e => cases hv; subst e; exact ⟨_, List.mem_singleton.mpr rfl, rfl, by simp only; omega⟩
    · cases hv
  · intro e he; simp at he; subst he; simp only; omega
  · intro v c hv
    simp only [hg] at hv
    split at hv
    · cases hv; exact Int.le_refl _
    · cases hv

/-- one neighbour (optimality part) -/
theorem drelax_step {n s : Nat} {noCost : Prop} {fOf : Int → Nat → Int} (hf : KeyIs fOf h) (hcons : Consistent E h)
    (hE : ∀ e ∈ E, e.2.1 < n) {cur : Nat} {gcur : Int} {st : HSt Int}
    (inv : HInv E n s isGoal noCost (some cur) st) (D : DInv E maxCost isGoal h (some cur) (gcur + h.getD cur 0) st)
    (hcc : cur ∈ st.closed) (hgc : look st.g cur = some gcur) {v : Nat} {w : Int} (he : (cur, v, w) ∈ E)
    (hw : 0 ≤ w) :
    DInv E maxCost isGoal h (some cur) (gcur + h.getD cur 0) (hRelax intNum fOf cur gcur st (v, w)) := by
  rcases hRelax_cases fOf cur gcur st v w with ⟨heq, _⟩ | ⟨hnc, hbetter, heq⟩
  · rw [heq]; exact D
  · rw [heq]
    have hvn : v < n := hE _ he
    have hcv : h.getD cur 0 ≤ w + h.getD v 0 := hcons _ he
    have hG : ∀ x, look (st.g.set v (some (gcur + w))) x = if x = v then some (gcur + w) else look st.g x := by
      intro x; rw [look_set]
      by_cases h : v = x
      · subst h; simp [inv.len_g, hvn]
      · have : ¬ x = v := fun e => h e.symm
        simp [h, this]
    have hlow : ∀ old, look st.g v = some old → gcur + w < old := by
      intro old h
      rcases hbetter with h0 | ⟨o, h1, h2⟩
      · rw [h0] at h; cases h
      · rw [h1] at h; cases h; exact h2
    have hg0 : 0 ≤ gcur := D.nonneg cur gcur hgc
    have hkey : fOf (gcur + w) v = gcur + w + h.getD v 0 := hf _ _
    refine ⟨?_, ?_, ?_, ?_, ?_, ?_, ?_⟩
    · intro e he'
      rcases List.mem_cons.mp he' with h' | h'
      · rw [h']; exact ⟨gcur + w, by simp [hG], by simp only [hkey]; omega⟩
      · obtain ⟨c, hc, hle⟩ := D.key_ge e h'
        by_cases hx : e.2.2.2 = v
        · refine ⟨gcur + w, by simp [hG, hx], ?_⟩
          rw [hx] at hc hle ⊢
          have := hlow c hc; omega
        · exact ⟨c, by simp [hG, hx, hc], hle⟩
    · intro x c hx hxc
      simp only [hG] at hx
      by_cases hxv : x = v
      · simp only [hxv, if_true, Option.some.injEq] at hx
        refine ⟨_, List.mem_cons_self, hxv.symm, ?_⟩
        simp only [hkey, hxv]; omega
      · simp only [hxv, if_false] at hx
        obtain ⟨e, he', hn, hk⟩ := D.open_key x c hx hxc
        exact ⟨e, List.mem_cons_of_mem _ he', hn, hk⟩
    · intro u hu
      obtain ⟨c, hc, hle⟩ := D.closed_le u hu
      have : u ≠ v := fun e => hnc (e ▸ hu)
      exact ⟨c, by simp [hG, this, hc], hle⟩
    · intro e he'
      rcases List.mem_cons.mp he' with h' | h'
      · rw [h']; simp only [hkey]; omega
      · exact D.heap_ge e h'
    · intro x c hx
      simp only [hG] at hx
      split at hx
      · cases hx; omega
      · exact D.nonneg x c hx
    · intro u hu hne cu hcu hpr e he' heu
      have huv : u ≠ v := fun e => hnc (e ▸ hu)
      have hcu' : look st.g u = some cu := by simpa [hG, huv] using hcu
      obtain ⟨gv, hgv, hle⟩ := D.relaxed_all u hu hne cu hcu' hpr e he' heu
      by_cases hx : e.2.1 = v
      · refine ⟨gcur + w, by simp [hG, hx], ?_⟩
        rw [hx] at hgv
        have := hlow gv hgv; omega
      · exact ⟨gv, by simp [hG, hx, hgv], hle⟩
    · intro u hu hne cu hcu hpr
      have huv : u ≠ v := fun e => hnc (e ▸ hu)
      have hcu' : look st.g u = some cu := by simpa [hG, huv] using hcu
      exact D.nongoal u hu hne cu hcu' hpr

theorem drelax_fold {n s : Nat} {noCost : Prop} {fOf : Int → Nat → Int} (hf : KeyIs fOf h) (hcons : Consistent E h)
    (hE : ∀ e ∈ E, e.2.1 < n) (hW : ∀ e ∈ E, 0 ≤ e.2.2) {cur : Nat}
    {gcur : Int} : ∀ (L : List (Nat × Int)) (st : HSt Int), (∀ nb ∈ L, (cur, nb.1, nb.2) ∈ E) →
    HInv E n s isGoal noCost (some cur) st → DInv E maxCost isGoal h (some cur) (gcur + h.getD cur 0) st →
    cur ∈ st.closed → look st.g cur = some gcur → (∀ x, look st.parent x = some cur → x ∉ st.closed) →
    DInv E maxCost isGoal h (some cur) (gcur + h.getD cur 0) (L.foldl (hRelax intNum fOf cur gcur) st) := by
  intro L
  induction L with
  | nil => intro st _ _ D _ _ _; exact D
  | cons nb L ih =>
    intro st hL inv D hcc hgc hpc
    obtain ⟨v, w⟩ := nb
    have he : (cur, v, w) ∈ E := hL (v, w) List.mem_cons_self
    obtain ⟨i1, c1, g1, p1, _, _⟩ := hrelax_step fOf hE inv hcc hgc hpc he
    have D1 := drelax_step hf hcons hE inv D hcc hgc he (hW _ he)
    rw [List.foldl_cons]
    exact ih _ (fun x hx => hL x (List.mem_cons_of_mem _ hx)) i1 D1 (by rw [c1]; exact hcc) g1
      (by rw [c1]; exact p1)

theorem dinv_skip {M : Int} {st : HSt Int} (D : DInv E maxCost isGoal h none M st) {e : Ent} {rest : List Ent}
    (hp : popMin intNum st.heap = some (e, rest)) (hc : e.2.2.2 ∈ st.closed) :
    DInv E maxCost isGoal h none M { st with heap := rest } := by
  obtain ⟨hm, hsub, hcov⟩ := popMin_some hp
  refine ⟨fun x hx => D.key_ge x (hsub x hx), ?_, D.closed_le, fun x hx => D.heap_ge x (hsub x hx), D.nonneg,
    D.relaxed_all, D.nongoal⟩
  intro v c hv hvc
  obtain ⟨e', he', hn, hk⟩ := D.open_key v c hv hvc
  rcases hcov e' he' with h' | h'
  · exact absurd (by rw [← hn, h']; exact hc) hvc
  · exact ⟨e', h', hn, hk⟩

/-- closing the popped node: its `f` is the popped key, which becomes the new `M` -/
theorem dinv_close {M : Int} {st : HSt Int} (D : DInv E maxCost isGoal h none M st) {e : Ent} {rest : List Ent}
    (hp : popMin intNum st.heap = some (e, rest)) (hc : e.2.2.2 ∉ st.closed) {c : Int}
    (hgc : look st.g e.2.2.2 = some c) :
    DInv E maxCost isGoal h (some e.2.2.2) (c + h.getD e.2.2.2 0) (hClose st e.2.2.2 rest) := by
  obtain ⟨hm, hsub, hcov⟩ := popMin_some hp
  have hmin := popMin_min hp
  obtain ⟨c', hc', hle⟩ := D.key_ge e hm
  rw [hgc] at hc'; cases hc'
  obtain ⟨e', he', hn', hk'⟩ := D.open_key _ c hgc hc
  have hce : c + h.getD e.2.2.2 0 = e.1 := by have := hmin e' he'; omega
  have hMc : M ≤ c + h.getD e.2.2.2 0 := by have := D.heap_ge e hm; omega
  refine ⟨fun x hx => D.key_ge x (hsub x hx), ?_, ?_, ?_, D.nonneg, ?_, ?_⟩
  · intro v cv hv hvc
    have hvc' : v ∉ st.closed := fun h => hvc (List.mem_cons_of_mem _ h)
    obtain ⟨e'', he'', hn, hk⟩ := D.open_key v cv hv hvc'
    rcases hcov e'' he'' with h' | h'
    · exact absurd (by rw [← hn, h']; exact List.mem_cons_self) hvc
    · exact ⟨e'', h', hn, hk⟩
  · intro u hu
    rcases List.mem_cons.mp hu with h' | h'
    · rw [h']; exact ⟨c, hgc, Int.le_refl _⟩
    · obtain ⟨cu, hcu, hl⟩ := D.closed_le u h'
      exact ⟨cu, hcu, by omega⟩
  · intro x hx
    have := hmin x (hsub x hx); omega
  · intro u hu hne cu hcu hpr e' he' heu
    rcases List.mem_cons.mp hu with h' | h'
    · exact absurd (by rw [h']) hne
    · exact D.relaxed_all u h' (by simp) cu hcu hpr e' he' heu
  · intro u hu hne cu hcu hpr
    rcases List.mem_cons.mp hu with h' | h'
    · exact absurd (by rw [h']) hne
    · exact D.nongoal u h' (by simp) cu hcu hpr

/-- after the scan: `cur` is relaxed along all its out-edges (closed neighbours by monotonicity
and consistency) -/
theorem dinv_finish (hcons : Consistent E h) {cur : Nat} {gcur : Int} {st : HSt Int}
    (D : DInv E maxCost isGoal h (some cur) (gcur + h.getD cur 0) st) (hgc : look st.g cur = some gcur)
    (hg : isGoal cur = false)
    (hdone : ∀ nb ∈ adjOf E cur, nb.1 ∈ st.closed ∨ ∃ gv, look st.g nb.1 = some gv ∧ gv ≤ gcur + nb.2) :
    DInv E maxCost isGoal h none (gcur + h.getD cur 0) st := by
  refine ⟨D.key_ge, D.open_key, D.closed_le, D.heap_ge, D.nonneg, ?_, ?_⟩
  · intro u hu _ cu hcu hpr e he heu
    by_cases huc : u = cur
    · subst huc
      rw [hgc] at hcu; cases hcu
      obtain ⟨a, b, c⟩ := e
      simp only at heu
      subst heu
      rcases hdone (b, c) (mem_adjOf.mpr he) with h' | ⟨gv, hgv, hle⟩
      · obtain ⟨cb, hcb, hl⟩ := D.closed_le b h'
        exact ⟨cb, hcb, by have := hcons _ he; simp only at this ⊢; omega⟩
      · exact ⟨gv, hgv, hle⟩
    · exact D.relaxed_all u hu (fun h => huc (Option.some.inj h).symm) cu hcu hpr e he heu
  · intro u hu _ cu hcu hpr
    by_cases huc : u = cur
    · subst huc; exact hg
    · exact D.nongoal u hu (fun h => huc (Option.some.inj h).symm) cu hcu hpr

theorem dinv_prune {cur : Nat} {gcur M : Int} {st : HSt Int} (D : DInv E maxCost isGoal h (some cur) M st)
    (hgc : look st.g cur = some gcur) (hpr : pruned intNum maxCost gcur = true) :
    DInv E maxCost isGoal h none M st := by
  refine ⟨D.key_ge, D.open_key, D.closed_le, D.heap_ge, D.nonneg, ?_, ?_⟩
  · intro u hu _ cu hcu hpr' e he heu
    by_cases huc : u = cur
    · subst huc; rw [hgc] at hcu; cases hcu; rw [hpr] at hpr'; cases hpr'
    · exact D.relaxed_all u hu (fun h => huc (Option.some.inj h).symm) cu hcu hpr' e he heu
  · intro u hu _ cu hcu hpr'
    by_cases huc : u = cur
    · subst huc; rw [hgc] at hcu; cases hcu; rw [hpr] at hpr'; cases hpr'
    · exact D.nongoal u hu (fun h => huc (Option.some.inj h).symm) cu hcu hpr'

end dinv

section dloop
variable {E : List (Edge Int)} {n s : Nat} {isGoal : Nat → Bool} {h : List Int}

theorem dloop_inv {fOf : Int → Nat → Int} (hf : KeyIs fOf h) (hcons : Consistent E h) (maxIter : Nat)
    (maxCost : Option Int) (hE : ∀ e ∈ E, e.2.1 < n) (hW : ∀ e ∈ E, 0 ≤ e.2.2) :
    ∀ (fuel : Nat) (st : HSt Int) (M : Int), HInv E n s isGoal (maxCost = none) none st →
      DInv E maxCost isGoal h none M st →
      match hLoop intNum (adjOf E) fOf isGoal maxIter maxCost fuel st with
      | .found cur st' => ∃ c, look st'.g cur = some c ∧ HInv E n s isGoal (maxCost = none) (some cur) st' ∧
          DInv E maxCost isGoal h (some cur) (c + h.getD cur 0) st' ∧ pruned intNum maxCost c = false ∧
          cur ∈ st'.closed ∧ isGoal cur = true
      | .infeasible st' => ∃ M', DInv E maxCost isGoal h none M' st'
      | _ => True := by
  intro fuel
  induction fuel with
  | zero => intro st M _ _; simp [hLoop]
  | succ k ih =>
    intro st M inv D
    unfold hLoop
    by_cases hit : st.iters < maxIter
    · simp only [hit, if_true]
      cases hp : popMin intNum st.heap with
      | none => simp only; exact ⟨M, D⟩
      | some p =>
        obtain ⟨e, rest⟩ := p
        simp only
        by_cases hc : st.closed.contains e.2.2.2 = true
        · simp only [hc, if_true]
          exact ih _ M (hinv_skip inv hp (by simpa using hc)) (dinv_skip D hp (by simpa using hc))
        · have hnc : e.2.2.2 ∉ st.closed := by simpa using hc
          simp only [hc]
          obtain ⟨mid, ⟨c, hgc, hgof⟩, hnp⟩ := hinv_close inv hp hnc
          have Dmid := dinv_close D hp hnc hgc
          have hcc : e.2.2.2 ∈ (hClose st e.2.2.2 rest).closed := by simp [hClose]
          have hgc' : look (hClose st e.2.2.2 rest).g e.2.2.2 = some c := by simpa [hClose] using hgc
          have hnp' : ∀ x, look (hClose st e.2.2.2 rest).parent x ≠ some e.2.2.2 := by simpa [hClose] using hnp
          rw [hgof]
          by_cases hpr : pruned intNum maxCost c = true
          · simp only [hpr, if_true]
            apply ih _ (c + h.getD e.2.2.2 0)
            · apply hinv_prune _ mid hnp'
              intro h; rw [h] at hpr; simp [pruned] at hpr
            · exact dinv_prune Dmid hgc' hpr
          · have hpr' : pruned intNum maxCost c = false := by simpa using hpr
            simp only [hpr]
            by_cases hg : isGoal e.2.2.2 = true
            · simp only [hg, if_true]
              exact ⟨c, hgc', mid, Dmid, hpr', hcc, hg⟩
            · have hg' : isGoal e.2.2.2 = false := by simpa using hg
              simp only [hg', Bool.false_eq_true, if_false]
              obtain ⟨i, cl, gcur, pc, dn, _⟩ := hrelax_fold fOf hE (adjOf E e.2.2.2) (hClose st e.2.2.2 rest)
                (fun nb h => mem_adjOf.mp h) mid hcc hgc' (fun x h => absurd h (hnp' x))
              have Df := drelax_fold hf hcons hE hW (adjOf E e.2.2.2) (hClose st e.2.2.2 rest)
                (fun nb h => mem_adjOf.mp h) mid Dmid hcc hgc' (fun x h => absurd h (hnp' x))
              have hdone : ∀ nb ∈ adjOf E e.2.2.2, nb.1 ∈ ((adjOf E e.2.2.2).foldl (hRelax intNum fOf e.2.2.2 c)
                  (hClose st e.2.2.2 rest)).closed ∨ ∃ gv, look ((adjOf E e.2.2.2).foldl (hRelax intNum fOf e.2.2.2 c)
                  (hClose st e.2.2.2 rest)).g nb.1 = some gv ∧ gv ≤ c + nb.2 := by
                intro nb hnb
                rcases dn nb hnb with h' | h'
                · left; rw [cl]; exact h'
                · right; exact h'
              apply ih _ (c + h.getD e.2.2.2 0)
              · exact hinv_finish i (by rw [cl]; exact hcc) gcur hg' (by rw [cl]; exact pc) hdone
              · exact dinv_finish hcons Df gcur hg' hdone
    · rw [if_neg hit]; trivial

end dloop

/-! ### the certificate at a goal pop -/

theorem look_astarPot (n : Nat) (g : Tab Int) (h : List Int) (c : Int) (v : Nat) :
    look (astarPot n g h c) v =
      if v < n then (match look g v with
        | some x => some (if x < c - h.getD v 0 then x else c - h.getD v 0)
        | none => some (c - h.getD v 0)) else none := by
  unfold astarPot look
  rw [List.getD_eq_getElem?_getD, List.getElem?_map]
  by_cases hv : v < n
  · simp only [hv, if_true, List.getElem?_range hv, Option.map_some, Option.getD_some]
    simp only [List.getD_eq_getElem?_getD]
    cases (g[v]?).getD none <;> simp
  · simp only [hv, if_false]
    rw [List.getElem?_eq_none (by simp; omega)]
    rfl

theorem astar_cap_cert {E : List (Edge Int)} {n s : Nat} {T : List Nat} {maxCost : Option Int} {h : List Int}
    (hs : s < n) (hE : ∀ e ∈ E, e.2.1 < n) (hcons : Consistent E h)
    (hgoal : ∀ t ∈ T, h.getD t 0 = 0) {cur? : Option Nat} {c M : Int} {st : HSt Int}
    (hc0 : h.getD s 0 ≤ c) (hstart : look st.g s = some 0) (D : DInv E maxCost T.contains h cur? M st)
    (hbelow : ∀ u cu, look st.g u = some cu → cu + h.getD u 0 < c →
      u ∈ st.closed ∧ cur? ≠ some u ∧ pruned intNum maxCost cu = false) :
    lowerCert E s T (astarPot n st.g h c) c = true := by
  unfold lowerCert
  simp only [Bool.and_eq_true, beq_iff_eq, List.all_eq_true]
  refine ⟨⟨?_, ?_⟩, ?_⟩
  · -- feasibility
    unfold feasible
    rw [List.all_eq_true]
    intro e he
    have hvn : e.2.1 < n := hE e he
    have hce := hcons e he
    rw [look_astarPot, look_astarPot]
    simp only [hvn, if_true]
    by_cases hun : e.1 < n
    · simp only [hun, if_true]
      cases hgu : look st.g e.1 with
      | none =>
        simp only
        cases hgv : look st.g e.2.1 with
        | none => simp only [decide_eq_true_eq]; omega
        | some gv => simp only [decide_eq_true_eq]; split <;> omega
      | some cu =>
        simp only
        by_cases hlt : cu < c - h.getD e.1 0
        · obtain ⟨h1, h2, h3⟩ := hbelow e.1 cu hgu (by omega)
          obtain ⟨gv, hgv, hle⟩ := D.relaxed_all e.1 h1 h2 cu hgu h3 e he rfl
          simp only [hgv, hlt, if_true, decide_eq_true_eq]
          split <;> omega
        · simp only [hlt, if_false]
          cases hgv : look st.g e.2.1 with
          | none => simp only [decide_eq_true_eq]; omega
          | some gv => simp only [decide_eq_true_eq]; split <;> omega
    · simp only [hun, if_false]
  · rw [look_astarPot]
    simp only [hs, if_true, hstart]
    congr 1
    split <;> omega
  · intro t ht
    rw [look_astarPot]
    have hgt0 := hgoal t ht
    by_cases htn : t < n
    · simp only [htn, if_true, hgt0, Int.sub_zero]
      cases hgt : look st.g t with
      | none => simp
      | some ct =>
        simp only
        by_cases hlt : ct < c
        · obtain ⟨h1, h2, h3⟩ := hbelow t ct hgt (by omega)
          have := D.nongoal t h1 h2 ct hgt h3
          have ht' : T.contains t = true := by simpa using ht
          rw [ht'] at this; cases this
        · simp [hlt]
    · simp [htn]

theorem astar_found_cert {E : List (Edge Int)} {n s : Nat} {T : List Nat} {maxCost : Option Int} {h : List Int}
    (hs : s < n) (hE : ∀ e ∈ E, e.2.1 < n) (hcons : Consistent E h) (hh0 : ∀ v, 0 ≤ h.getD v 0)
    (hgoal : ∀ t ∈ T, h.getD t 0 = 0) {cur : Nat} {c : Int} {st : HSt Int}
    (hgc : look st.g cur = some c) (inv : HInv E n s T.contains (maxCost = none) (some cur) st)
    (D : DInv E maxCost T.contains h (some cur) (c + h.getD cur 0) st) (hpr : pruned intNum maxCost c = false)
    (hcc : cur ∈ st.closed) (hg : T.contains cur = true) :
    lowerCert E s T (astarPot n st.g h c) c = true := by
  have hcur0 : h.getD cur 0 = 0 := hgoal cur (by simpa using hg)
  have hsc : s ∈ st.closed := by
    rcases inv.start_c with h' | ⟨h', _⟩
    · exact h'
    · rw [h'] at hcc; cases hcc
  have hs0 : h.getD s 0 ≤ c := by
    obtain ⟨c0, hc0, hle⟩ := D.closed_le s hsc
    rw [inv.start_g] at hc0; cases hc0
    omega
  apply astar_cap_cert hs hE hcons hgoal hs0 inv.start_g D
  intro u cu hcu hlt
  refine ⟨?_, ?_, ?_⟩
  · by_cases huc : u ∈ st.closed
    · exact huc
    · obtain ⟨e, he, _, hk⟩ := D.open_key u cu hcu huc
      have := D.heap_ge e he; omega
  · intro h'
    have : cur = u := Option.some.inj h'
    subst this
    rw [hgc] at hcu; cases hcu; omega
  · cases hp : pruned intNum maxCost cu with
    | false => rfl
    | true =>
      have := hh0 u
      have := pruned_mono (a := cu) (b := c) (by omega) hp; rw [hpr] at this; cases this

theorem walk_nonneg {E : List (Edge Int)} (hW : ∀ e ∈ E, 0 ≤ e.2.2) {u t : Nat} {c : Int} (h : Walk E u t c) :
    0 ≤ c := by
  induction h with
  | nil u => exact Int.le_refl 0
  | cons he _ ih => have := hW _ he; simp only at this; omega

/-- a consistent heuristic that vanishes on the goals never overestimates -/
theorem consistent_admissible {E : List (Edge Int)} {h : List Int} (hcons : Consistent E h) {u t : Nat} {c : Int}
    (hw : Walk E u t c) : h.getD u 0 ≤ c + h.getD t 0 := by
  induction hw with
  | nil u => omega
  | @cons u v t w c he _ ih => have := hcons _ he; simp only at this; omega

open Solvor.Gen (Status) in
/-- the optimality certificate for any `g + h` keyed search with a consistent heuristic -/
theorem hsearch_cert {E : List (Edge Int)} {n s : Nat} (T : List Nat) (h : List Int) (fOf : Int → Nat → Int)
    (hf : KeyIs fOf h) (maxIter : Nat) (maxCost : Option Int)
    (hs : s < n) (hE : ∀ e ∈ E, e.2.1 < n) (hW : ∀ e ∈ E, 0 ≤ e.2.2) (hcons : Consistent E h)
    (hh0 : ∀ v, 0 ≤ h.getD v 0) (hgoal : ∀ t ∈ T, h.getD t 0 = 0) :
    ((hSearch intNum n E.length (adjOf E) fOf s T.contains maxIter maxCost .OPTIMAL).status = .OPTIMAL →
      ∃ p c, (hSearch intNum n E.length (adjOf E) fOf s T.contains maxIter maxCost .OPTIMAL).path = some p ∧
        (hSearch intNum n E.length (adjOf E) fOf s T.contains maxIter maxCost .OPTIMAL).cost = some c ∧
        distCert E s T (astarPot n (hSearch intNum n E.length (adjOf E) fOf s T.contains maxIter maxCost .OPTIMAL).g h c)
          p c = true) ∧
    ((hSearch intNum n E.length (adjOf E) fOf s T.contains maxIter maxCost .OPTIMAL).status = .INFEASIBLE →
      ∀ t ∈ T, ∀ c, Walk E s t c → match maxCost with | none => False | some m => m < c) := by
  have h1 := hloop_inv (E := E) (n := n) (s := s) (isGoal := T.contains) fOf maxIter maxCost hE
    (E.length + 2) _ (hinv_init (noCost := maxCost = none) fOf hs)
  have h2 := dloop_inv (E := E) (n := n) (s := s) (isGoal := T.contains) hf hcons maxIter maxCost hE hW
    (E.length + 2) _ _ (hinv_init (noCost := maxCost = none) fOf hs) (dinv_init hf hs)
  have h3 := hresult_sound (E := E) (n := n) (s := s) T maxCost .OPTIMAL ⟨by decide, by decide⟩ _ h1
  unfold hSearch
  generalize hLoop intNum (adjOf E) fOf T.contains maxIter maxCost (E.length + 2)
    (hInit intNum n fOf s) = out at h1 h2 h3 ⊢
  cases out with
  | found cur st' =>
    refine ⟨fun hst => ?_, fun h => (by cases h)⟩
    obtain ⟨c, hgc, inv, D, hpr, hcc, hg⟩ := h2
    obtain ⟨p, c', hp, hc', hok⟩ := h3.1 hst
    have hcc' : c' = c := by
      have : (hResult n Status.OPTIMAL (HOut.found cur st')).cost = look st'.g cur := rfl
      rw [this, hgc] at hc'; exact (Option.some.inj hc').symm
    subst hcc'
    refine ⟨p, c', hp, hc', ?_⟩
    unfold distCert
    rw [Bool.and_eq_true]
    exact ⟨astar_found_cert hs hE hcons hh0 hgoal hgc inv D hpr hcc hg, hok⟩
  | infeasible st' =>
    refine ⟨fun h => (by cases h), fun _ t ht c hw => ?_⟩
    cases hmc : maxCost with
    | none => exact h3.2 rfl hmc t ht ⟨c, hw⟩
    | some m =>
      simp only
      obtain ⟨inv, hheap⟩ := h1
      obtain ⟨M', D⟩ := h2
      by_cases hm : h.getD s 0 ≤ m + 1
      · have hcert : lowerCert E s T (astarPot n st'.g h (m + 1)) (m + 1) = true := by
          apply astar_cap_cert hs hE hcons hgoal hm inv.start_g D
          intro u cu hcu hlt
          refine ⟨?_, by simp, ?_⟩
          · by_cases huc : u ∈ st'.closed
            · exact huc
            · obtain ⟨e, he, _, _⟩ := D.open_key u cu hcu huc
              rw [hheap] at he; cases he
          · have := hh0 u
            rw [hmc]; simp only [pruned, intNum, decide_eq_false_iff_not]; omega
        have := lowerCert_sound' hcert t ht c hw
        omega
      · have := consistent_admissible hcons hw
        have := hgoal t ht
        omega
  | maxIter st' => exact ⟨fun h => (by cases h), fun h => (by cases h)⟩
  | fuel => exact ⟨fun h => (by cases h), fun h => (by cases h)⟩

end Solvor.Path
