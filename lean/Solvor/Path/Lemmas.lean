import Solvor.Path.Model
/-! Path: helper lemmas for the certificate theorems (walks, potentials, paths, closed sets,
negative cycles).  Core Lean only. -/
namespace Solvor.Path
set_option linter.unusedSectionVars false

/-- What the potential argument needs of the weights: an ordered additive monoid. -/
class OrdW (W : Type) [Add W] [Zero W] [LE W] : Prop where
  le_refl : ∀ a : W, a ≤ a
  le_trans : ∀ {a b c : W}, a ≤ b → b ≤ c → a ≤ c
  add_le_add_right : ∀ {a b : W} (c : W), a ≤ b → a + c ≤ b + c
  add_assoc : ∀ a b c : W, a + b + c = a + (b + c)
  zero_add : ∀ a : W, 0 + a = a
  add_zero : ∀ a : W, a + 0 = a

instance : OrdW Int where
  le_refl := Int.le_refl
  le_trans := Int.le_trans
  add_le_add_right := fun c h => Int.add_le_add_right h c
  add_assoc := Int.add_assoc
  zero_add := Int.zero_add
  add_zero := Int.add_zero

/-! ### tables -/

theorem look_set_eq {α : Type} (t : Tab α) (i : Nat) (v : Option α) (h : i < t.length) :
    look (t.set i v) i = v := by
  simp [look, List.getD_eq_getElem?_getD, h]

theorem look_set_ne {α : Type} (t : Tab α) (i j : Nat) (v : Option α) (h : i ≠ j) :
    look (t.set i v) j = look t j := by
  simp [look, List.getD_eq_getElem?_getD, List.getElem?_set_ne h]

theorem look_empty {α : Type} (n i : Nat) : look (Tab.empty n : Tab α) i = none := by
  simp only [look, Tab.empty, List.getD_eq_getElem?_getD, List.getElem?_replicate]
  split <;> rfl

theorem look_set {α : Type} (t : Tab α) (i j : Nat) (v : Option α) :
    look (t.set i v) j = if i = j ∧ i < t.length then v else look t j := by
  by_cases h : i = j
  · subst h
    by_cases hl : i < t.length
    · simp [hl, look_set_eq]
    · simp [hl, look, List.set_eq_of_length_le (Nat.le_of_not_lt hl)]
  · simp [h, look_set_ne]

theorem look_some_lt {α : Type} {t : Tab α} {i : Nat} {a : α} (h : look t i = some a) : i < t.length := by
  unfold look at h
  rw [List.getD_eq_getElem?_getD] at h
  by_cases hl : i < t.length
  · exact hl
  · rw [List.getElem?_eq_none (Nat.le_of_not_lt hl)] at h; simp at h

/-! ### walks -/

section walks
variable {W : Type} [Add W] [Zero W]

theorem Walk.single {E : List (Edge W)} {u v : Nat} {w : W} (h : (u, v, w) ∈ E) : Walk E u v (w + 0) :=
  Walk.cons h (Walk.nil v)

theorem Walk.mono {E E' : List (Edge W)} (hsub : ∀ e ∈ E, e ∈ E') {u t : Nat} {c : W} (h : Walk E u t c) :
    Walk E' u t c := by
  induction h with
  | nil u => exact Walk.nil u
  | cons he _ ih => exact Walk.cons (hsub _ he) ih

theorem closed_walk {E : List (Edge W)} {S : List Nat} (hc : closedUnder E S = true) {u t : Nat} {c : W}
    (hw : Walk E u t c) : u ∈ S → t ∈ S := by
  induction hw with
  | nil u => exact id
  | @cons u v t w c he _ ih =>
    intro hu
    apply ih
    unfold closedUnder at hc
    rw [List.all_eq_true] at hc
    have := hc _ he
    simp at this
    rcases this with h | h
    · exact absurd hu h
    · exact h

variable [LE W] [OrdW W]

theorem Walk.append {E : List (Edge W)} {u v t : Nat} {a b : W} (h1 : Walk E u v a) (h2 : Walk E v t b) :
    Walk E u t (a + b) := by
  induction h1 with
  | nil u => rw [OrdW.zero_add]; exact h2
  | cons he _ ih => rw [OrdW.add_assoc]; exact Walk.cons he (ih h2)

/-- appending an edge at the end -/
theorem Walk.snoc {E : List (Edge W)} {s u v : Nat} {a w : W} (h1 : Walk E s u a) (he : (u, v, w) ∈ E) :
    Walk E s v (a + w) := by
  have := Walk.append h1 (Walk.single he)
  rwa [OrdW.add_zero] at this

variable [DecidableLE W]

theorem feasible_edge {E : List (Edge W)} {d : Tab W} (hf : feasible E d = true) {u v : Nat} {w a : W}
    (he : (u, v, w) ∈ E) (hu : look d u = some a) : ∃ b, look d v = some b ∧ b ≤ a + w := by
  unfold feasible at hf
  rw [List.all_eq_true] at hf
  have := hf _ he
  simp only [hu] at this
  cases hv : look d v with
  | none => simp [hv] at this
  | some b => simp [hv] at this; exact ⟨b, rfl, this⟩

/-- The potential argument: a feasible potential grows along a walk by at most its weight. -/
theorem potential_walk {E : List (Edge W)} {d : Tab W} (hf : feasible E d = true) {u t : Nat} {c : W}
    (hw : Walk E u t c) : ∀ a, look d u = some a → ∃ b, look d t = some b ∧ b ≤ a + c := by
  induction hw with
  | nil u => intro a ha; exact ⟨a, ha, by rw [OrdW.add_zero]; exact OrdW.le_refl a⟩
  | @cons u v t w c he _ ih =>
    intro a ha
    obtain ⟨b1, hb1, hle1⟩ := feasible_edge hf he ha
    obtain ⟨b, hb, hle⟩ := ih b1 hb1
    refine ⟨b, hb, OrdW.le_trans hle ?_⟩
    rw [← OrdW.add_assoc]
    exact OrdW.add_le_add_right c hle1

end walks

/-! ### path weights -/

section paths
variable {W : Type} [Add W] [Zero W] [LE W] [DecidableLE W] [DecidableEq W]

private theorem edgeCost_fold (E : List (Edge W)) (u v : Nat) (acc : Option W) (w : W)
    (h : E.foldl (edgeCostStep u v) acc = some w) : acc = some w ∨ (u, v, w) ∈ E := by
  induction E generalizing acc with
  | nil => left; simpa using h
  | cons e E ih =>
    rw [List.foldl_cons] at h
    rcases ih _ h with h1 | h1
    · unfold edgeCostStep at h1
      by_cases hc : e.1 = u ∧ e.2.1 = v
      · simp only [hc, and_self, if_true] at h1
        have hmem : ∀ x, x = e.2.2 → (u, v, x) ∈ e :: E := by
          intro x hx; subst hx
          have : e = (u, v, e.2.2) := by
            obtain ⟨a, b, c⟩ := e; simp at hc; simp [hc.1, hc.2]
          rw [← this]; exact List.mem_cons_self
        cases acc with
        | none => simp at h1; right; exact hmem w h1.symm
        | some m =>
          simp only at h1
          by_cases hle : e.2.2 ≤ m
          · simp [hle] at h1; right; exact hmem w h1.symm
          · simp [hle] at h1; left; rw [h1]
      · simp only [hc, if_false] at h1; left; exact h1
    · right; exact List.mem_cons_of_mem _ h1

theorem edgeCost_mem {E : List (Edge W)} {u v : Nat} {w : W} (h : edgeCost E u v = some w) :
    (u, v, w) ∈ E := by
  rcases edgeCost_fold E u v none w h with h1 | h1
  · cases h1
  · exact h1

/-- A checked path realises its weight. -/
theorem pathCost_walk {E : List (Edge W)} : ∀ (p : List Nat) (u : Nat) (c : W),
    pathCost E (u :: p) = some c → Walk E u ((u :: p).getLast (List.cons_ne_nil _ _)) c := by
  intro p
  induction p with
  | nil => intro u c h; simp [pathCost] at h; subst h; exact Walk.nil u
  | cons v rest ih =>
    intro u c h
    unfold pathCost at h
    cases hw : edgeCost E u v with
    | none => simp [hw] at h
    | some w =>
      cases hc : pathCost E (v :: rest) with
      | none => simp [hw, hc] at h
      | some c' =>
        simp [hw, hc] at h
        subst h
        have := ih v c' hc
        rw [List.getLast_cons (List.cons_ne_nil _ _)]
        exact Walk.cons (edgeCost_mem hw) this

end paths

/-! ### negative cycles (integer weights) -/

theorem walk_cycle_pow {E : List (Edge Int)} {x : Nat} {c : Int} (h : Walk E x x c) :
    ∀ k : Nat, Walk E x x (k * c) := by
  intro k
  induction k with
  | zero => simpa using Walk.nil x
  | succ k ih =>
    have := Walk.append ih h
    have e : ((k + 1 : Nat) : Int) * c = k * c + c := by
      rw [Int.natCast_succ, Int.add_mul, Int.one_mul]
    rw [e]; exact this

theorem neg_cycle_unbounded {E : List (Edge Int)} {s x : Nat} {a c : Int} (hp : Walk E s x a)
    (hc : Walk E x x c) (hneg : c < 0) : ∀ B : Int, ∃ w, Walk E s x w ∧ w < B := by
  intro B
  let k : Nat := (a - B).toNat + 1
  refine ⟨a + k * c, Walk.append hp (walk_cycle_pow hc k), ?_⟩
  have hk : (k : Int) ≥ a - B + 1 := by
    simp only [k]; omega
  have hk0 : (0 : Int) ≤ k := Int.natCast_nonneg k
  have : (k : Int) * c ≤ (k : Int) * (-1) := Int.mul_le_mul_of_nonneg_left (by omega) hk0
  omega

/-- soundness of `lowerCert` (restated as a property theorem in `Theorems.lean`) -/
theorem lowerCert_sound' {W : Type} [Add W] [Zero W] [LE W] [DecidableLE W] [DecidableEq W] [OrdW W]
    {E : List (Edge W)} {s : Nat} {T : List Nat} {pot : Tab W} {c : W}
    (h : lowerCert E s T pot c = true) : ∀ t ∈ T, ∀ c', Walk E s t c' → c ≤ c' := by
  unfold lowerCert at h
  simp only [Bool.and_eq_true, beq_iff_eq, List.all_eq_true] at h
  obtain ⟨⟨hf, hs⟩, hT⟩ := h
  intro t ht c' hw
  obtain ⟨b, hb, hle⟩ := potential_walk hf hw 0 hs
  rw [OrdW.zero_add] at hle
  have := hT t ht
  simp only [hb, decide_eq_true_eq] at this
  exact OrdW.le_trans this hle

end Solvor.Path