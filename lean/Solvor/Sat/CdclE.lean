import Solvor.Sat.CdclH3
import Solvor.Sat.Certify
/-!
Sat.CdclE: every clause the CDCL mirror learns (before the first blocking clause) is entailed by the
input formula – the chain check `chainOk` it runs on each learned clause is sound by
`learn_chain_sound` – and the certificate `certify` it checks before answering INFEASIBLE is sound.
-/
namespace Solvor.Sat.Cdcl
open Solvor.Sat

/-! ### entailment is insensitive to the order of literals / clauses -/

theorem clauseTrue_perm {σ : Asg} {c d : List Int} (h : c.Perm d) : clauseTrue σ c = clauseTrue σ d := by
  apply Bool.eq_iff_iff.2
  rw [clauseTrue_iff, clauseTrue_iff]
  exact ⟨fun ⟨l, hl, ht⟩ => ⟨l, (h.mem_iff).1 hl, ht⟩, fun ⟨l, hl, ht⟩ => ⟨l, (h.mem_iff).2 hl, ht⟩⟩

theorem entails_perm {F : Cnf} {c d : List Int} (h : c.Perm d) (he : Entails F c) : Entails F d :=
  fun σ hσ => by rw [← clauseTrue_perm h]; exact he σ hσ

theorem entails_mem {F : Cnf} {c : List Int} (h : c ∈ F) : Entails F c :=
  fun σ hσ => clauseTrue_iff.2 ((cnfTrue_iff.1 hσ) c h)

/-- the clauses as stored now, as lists -/
def stored (st : St) : Cnf := st.clauses.toList.map (·.toList)

theorem cnfTrue_stored {F st k} (h : Inv F st k) (σ : Asg) : cnfTrue σ (stored st) = cnfTrue σ F := by
  apply Bool.eq_iff_iff.2
  rw [cnfTrue_iff, cnfTrue_iff]
  unfold stored
  constructor
  · intro hs c hc
    obtain ⟨i, hi, rfl⟩ := List.getElem_of_mem hc
    have hmem : (cl st i).toList ∈ st.clauses.toList.map (·.toList) := by
      apply List.mem_map.2
      refine ⟨cl st i, ?_, rfl⟩
      rw [mem_toList_iff_get!]; exact ⟨i, by rw [h.csize]; exact hi, rfl⟩
    obtain ⟨l, hl, ht⟩ := hs _ hmem
    exact ⟨l, (h.clMem hi).1 hl, ht⟩
  · intro hF c hc
    obtain ⟨C, hC, rfl⟩ := List.mem_map.1 hc
    obtain ⟨i, hi, rfl⟩ := (mem_toList_iff_get! _ _).1 hC
    have hi' : i < F.length := by rw [← h.csize]; exact hi
    obtain ⟨l, hl, ht⟩ := hF _ (List.getElem_mem hi')
    exact ⟨l, (h.clMem hi').2 hl, ht⟩

/-! ### the entailment invariant -/

structure EInv (F : Cnf) (st : St) (ever : Array (Array Int)) : Prop where
  learned : st.nBlocking = 0 → ∀ j, j < st.learned.size → Entails F (st.learned[j]!).toList
  ever : st.nBlocking = 0 → ∀ C ∈ ever.toList, Entails F C.toList

/-- learned clauses only permuted, none added or removed -/
structure LPerm (st st' : St) : Prop where
  size : st'.learned.size = st.learned.size
  perm : ∀ j : Nat, (Array.toList (st'.learned[j]!)).Perm (Array.toList (st.learned[j]!))
  nb : st'.nBlocking = st.nBlocking

theorem LPerm.refl (st : St) : LPerm st st := ⟨rfl, fun _ => List.Perm.refl _, rfl⟩
theorem LPerm.trans {a b c : St} (h1 : LPerm a b) (h2 : LPerm b c) : LPerm a c :=
  ⟨h2.size.trans h1.size, fun j => (h2.perm j).trans (h1.perm j), h2.nb.trans h1.nb⟩

theorem lperm_of_eq {st st' : St} (e1 : st'.learned = st.learned) (e2 : st'.nBlocking = st.nBlocking) : LPerm st st' :=
  ⟨by rw [e1], fun j => by rw [e1], e2⟩

theorem EInv.lperm {F st st' ever} (h : EInv F st ever) (p : LPerm st st') : EInv F st' ever :=
  ⟨fun hb j hj => entails_perm (p.perm j).symm (h.learned (p.nb ▸ hb) j (p.size ▸ hj)), fun hb => h.ever (p.nb ▸ hb)⟩

theorem lperm_setClause (st : St) (cidx : Nat) (X : Array Int) (hX : X.toList.Perm (getClause st cidx).toList) :
    LPerm st (setClause st cidx X) := by
  unfold setClause
  split
  · exact lperm_of_eq rfl rfl
  · rename_i hc
    have hno : st.nOrig ≤ cidx := by omega
    rw [getClause_learned st hno] at hX
    refine ⟨by show (st.learned.set! _ X).size = _; rw [size_set!], ?_, rfl⟩
    intro j
    show ((st.learned.set! (cidx - st.nOrig) X)[j]!).toList.Perm _
    rw [get!_set!]
    split
    · rename_i hh; rw [← hh.1]; exact hX
    · exact List.Perm.refl _

theorem lperm_assign (st : St) (v : Nat) (b : Bool) (r : Int) : LPerm st (assign st v b r) := lperm_of_eq rfl rfl

theorem lperm_moveWatch (st : St) (fl : Int) (i c : Nat) (X : Array Int) (hX : X.toList.Perm (getClause st c).toList) :
    LPerm st (moveWatch st fl i c X) := by
  unfold moveWatch
  exact (lperm_setClause st c X hX).trans (lperm_of_eq rfl rfl)

theorem lperm_watchStep (fl : Int) (st : St) (i : Nat) :
    (∀ st' i', watchStep fl st i = .inl (st', i') → LPerm st st') ∧
    (∀ st' r, watchStep fl st i = .inr (st', r) → LPerm st st') := by
  unfold watchStep
  simp only
  split
  case isFalse => exact ⟨fun _ _ hs => (by cases hs), fun _ _ hs => (by cases hs; exact LPerm.refl _)⟩
  case isTrue =>
  generalize (watchOf st fl)[i]! = cidx
  split
  · exact ⟨fun _ _ hs => (by cases hs), fun _ _ hs => (by cases hs; exact LPerm.refl _)⟩
  · split
    · refine ⟨fun _ _ hs => ?_, fun _ _ hs => (by cases hs)⟩
      simp only [Sum.inl.injEq, Prod.mk.injEq] at hs
      obtain ⟨rfl, rfl⟩ := hs
      exact lperm_setClause _ _ _ (orient_perm _ _)
    · split
      · refine ⟨fun _ _ hs => ?_, fun _ _ hs => (by cases hs)⟩
        simp only [Sum.inl.injEq, Prod.mk.injEq] at hs
        obtain ⟨rfl, rfl⟩ := hs
        exact lperm_moveWatch _ _ _ _ _ ((swapIB_perm _ _ _).trans (orient_perm _ _))
      · split
        · refine ⟨fun _ _ hs => (by cases hs), fun _ _ hs => ?_⟩
          simp only [Sum.inr.injEq, Prod.mk.injEq] at hs
          obtain ⟨rfl, rfl⟩ := hs
          exact lperm_setClause _ _ _ (orient_perm _ _)
        · refine ⟨fun _ _ hs => ?_, fun _ _ hs => (by cases hs)⟩
          simp only [Sum.inl.injEq, Prod.mk.injEq] at hs
          obtain ⟨rfl, rfl⟩ := hs
          exact (lperm_setClause _ _ _ (orient_perm _ _)).trans (lperm_assign _ _ _ _)

theorem lperm_watchLoop (fl : Int) : ∀ (fuel : Nat) (st : St) (i : Nat), LPerm st (watchLoop fl fuel st i).1 := by
  intro fuel
  induction fuel with
  | zero => intro st i; exact LPerm.refl _
  | succ fuel ih =>
    intro st i
    unfold watchLoop
    obtain ⟨k1, k2⟩ := lperm_watchStep fl st i
    split
    · rename_i st1 i1 hstep; exact (k1 st1 i1 hstep).trans (ih st1 i1)
    · rename_i r hstep; obtain ⟨st', r'⟩ := r; exact k2 st' r' hstep

theorem lperm_implLoop : ∀ (xs : List (Int × Nat)) (st : St), LPerm st (implLoop xs st).1 := by
  intro xs
  induction xs with
  | nil => intro st; exact LPerm.refl _
  | cons e t ih =>
    intro st
    obtain ⟨implied, cidx⟩ := e
    unfold implLoop
    simp only
    split
    · exact (lperm_assign _ _ _ _).trans (ih _)
    · split
      · exact LPerm.refl _
      · exact ih st

theorem lperm_assumeLoop : ∀ (xs : List Int) (st : St), LPerm st (assumeLoop xs st).1 := by
  intro xs
  induction xs with
  | nil => intro st; exact LPerm.refl _
  | cons a t ih =>
    intro st
    unfold assumeLoop
    simp only
    split
    · exact (lperm_assign _ _ _ _).trans (ih _)
    · split
      · exact LPerm.refl _
      · exact ih st

theorem lperm_propStep (st : St) :
    (∀ st2, propStep st = .inl st2 → LPerm st st2) ∧ (∀ st' r, propStep st = .inr (st', r) → LPerm st st') := by
  unfold propStep
  simp only
  split
  · exact ⟨fun _ hs => (by cases hs), fun _ _ hs => (by cases hs; exact LPerm.refl _)⟩
  · generalize (if (st.vals[st.trail[st.propHead]!]! == 0) = true then (st.trail[st.propHead]! : Int)
      else -(st.trail[st.propHead]! : Int)) = fl
    have h0 : LPerm st { st with propHead := st.propHead + 1 } := lperm_of_eq rfl rfl
    have h1 := lperm_implLoop (implications { st with propHead := st.propHead + 1 } fl).toList
      { st with propHead := st.propHead + 1 }
    split
    · rename_i st1 cidx himp
      rw [himp] at h1
      refine ⟨fun _ hs => (by cases hs), fun st' r hs => ?_⟩
      simp only [Sum.inr.injEq, Prod.mk.injEq] at hs
      obtain ⟨rfl, rfl⟩ := hs
      exact (h0.trans h1).trans (lperm_of_eq rfl rfl)
    · rename_i st1 himp
      rw [himp] at h1
      have h2 := lperm_watchLoop fl ((watchOf st1 fl).size + 1) st1 0
      split
      · rename_i st2 hw
        rw [hw] at h2
        refine ⟨fun st2' hs => ?_, fun _ _ hs => (by cases hs)⟩
        simp only [Sum.inl.injEq] at hs
        subst hs; exact (h0.trans h1).trans h2
      · rename_i st2 cidx hw
        rw [hw] at h2
        refine ⟨fun _ hs => (by cases hs), fun st' r hs => ?_⟩
        simp only [Sum.inr.injEq, Prod.mk.injEq] at hs
        obtain ⟨rfl, rfl⟩ := hs
        exact ((h0.trans h1).trans h2).trans (lperm_of_eq rfl rfl)
      · rename_i st2 r2 _ _ hw
        rw [hw] at h2
        refine ⟨fun _ hs => (by cases hs), fun st' r hs => ?_⟩
        simp only [Sum.inr.injEq, Prod.mk.injEq] at hs
        obtain ⟨rfl, rfl⟩ := hs
        exact (h0.trans h1).trans h2

theorem lperm_propLoop : ∀ (fuel : Nat) (st : St), LPerm st (propLoop fuel st).1 := by
  intro fuel
  induction fuel with
  | zero => intro st; exact LPerm.refl _
  | succ fuel ih =>
    intro st
    unfold propLoop
    obtain ⟨k1, k2⟩ := lperm_propStep st
    split
    · rename_i st2 hstep; exact (k1 st2 hstep).trans (ih st2)
    · rename_i r hstep; obtain ⟨st', r'⟩ := r; exact k2 st' r' hstep

theorem lperm_propagate (st : St) : LPerm st (propagate st).1 := by
  unfold propagate
  simp only
  generalize hq : (if (st.trailLim.size == 0) = true then assumeLoop st.assumptions st else (st, false)) = q
  obtain ⟨s1, bad⟩ := q
  have h1 : LPerm st s1 := by
    split at hq
    · have := lperm_assumeLoop st.assumptions st; rw [hq] at this; exact this
    · simp only [Prod.mk.injEq] at hq; obtain ⟨rfl, _⟩ := hq; exact LPerm.refl _
  simp only
  split
  · exact h1.trans (lperm_of_eq rfl rfl)
  · exact h1.trans (lperm_propLoop _ _)

/-! ### the chain check on a learned clause -/

theorem getClause_entails {F st k ever} (hI : Inv F st k) (hE : EInv F st ever) (hnb : st.nBlocking = 0)
    {idx : Nat} (hr : idx < st.nOrig + st.learned.size) : Entails F (getClause st idx).toList := by
  by_cases hc : idx < st.nOrig
  · rw [getClause_orig st hc]
    have hcF : idx < F.length := by rw [← hI.nOrig]; exact hc
    exact entails_perm (hI.perm idx hcF).symm (entails_mem (List.getElem_mem hcF))
  · have hno : st.nOrig ≤ idx := by omega
    rw [getClause_learned st hno]
    exact hE.learned hnb _ (by omega)

theorem chainOk_sound {F st k ever} (hI : Inv F st k) (hE : EInv F st ever) (hnb : st.nBlocking = 0)
    {cidx : Nat} {steps : Array (Nat × Int)} {lc : Array Int} (h : chainOk st cidx steps lc = true) :
    Entails F lc.toList := by
  unfold chainOk at h
  simp only [Bool.and_eq_true, decide_eq_true_eq, List.all_eq_true, bne_iff_ne, List.contains_iff_mem] at h
  obtain ⟨⟨h0, hs⟩, hsub⟩ := h
  have hch := entails_chain (f := F) (steps.toList.map fun s => ((getClause st s.1).toList, s.2))
    (getClause st cidx).toList (getClause_entails hI hE hnb h0) (by
      intro s hs'
      obtain ⟨t, ht, rfl⟩ := List.mem_map.1 hs'
      obtain ⟨a, b⟩ := hs t ht
      exact ⟨getClause_entails hI hE hnb a, b⟩)
  intro σ hσ
  obtain ⟨l, hl, ht⟩ := clauseTrue_iff.1 (hch σ hσ)
  exact clauseTrue_iff.2 ⟨l, hsub l hl, ht⟩

/-! ### the certificate before INFEASIBLE -/

theorem certify_unsat {F st ever as} (hcnf : ∀ σ, cnfTrue σ (stored st) = cnfTrue σ F) (hE : EInv F st ever)
    (hnb : st.nBlocking = 0)
    (hasm : st.assumptions = as) {usePure : Bool} (h : certify st usePure ever = true) : ¬ ∃ σ, Models σ F as := by
  unfold certify at h
  simp only at h
  have hever : ∀ C ∈ ever.toList.map (·.toList), Entails (stored st) C := by
    intro C hC σ hσ
    obtain ⟨X, hX, rfl⟩ := List.mem_map.1 hC
    exact hE.ever hnb X hX σ (by rw [← hcnf]; exact hσ)
  have := certify_sound (stored st) st.assumptions st.nVars usePure _ hever h
  rintro ⟨σ, hσ⟩
  apply this
  refine ⟨σ, ?_, hasm ▸ hσ.2⟩
  exact cnfTrue_iff.1 (by rw [hcnf]; exact cnfTrue_iff.2 hσ.1)

/-! ### the invariant through the sub-steps that add or drop learned clauses -/

theorem unassignTo_nb (st : St) (level : Nat) : (unassignTo st level).nBlocking = st.nBlocking := by
  unfold unassignTo
  split
  · rfl
  · simp only
    have key : ∀ (fuel : Nat) (s : St) (t : Nat), (popTrail t fuel s).nBlocking = s.nBlocking := by
      intro fuel
      induction fuel with
      | zero => intro s t; rfl
      | succ fuel ih =>
        intro s t
        unfold popTrail
        split
        · rfl
        · rw [ih]; unfold popOne; simp only; split <;> rfl
    exact key _ _ _

theorem attach_nb (st : St) (c : Array Int) (idx : Nat) : (attach st c idx).nBlocking = st.nBlocking := by
  unfold attach; split
  · rfl
  · split <;> rfl

theorem einv_push {F st ever} (h : EInv F st ever) (lc : Array Int) (hlc : st.nBlocking = 0 → Entails F lc.toList)
    (LB : Array Nat) : EInv F { st with learned := st.learned.push lc, lbd := LB } (ever.push lc) := by
  refine ⟨fun hb j hj => ?_, fun hb C hC => ?_⟩
  · show Entails F ((st.learned.push lc)[j]!).toList
    rw [get!_push]
    split
    · exact hlc hb
    · have hj' : j < (st.learned.push lc).size := hj
      simp at hj'
      exact h.learned hb j (by omega)
  · rw [Array.toList_push, List.mem_append] at hC
    rcases hC with hC | hC
    · exact h.ever hb C hC
    · simp at hC; subst hC; exact hlc hb

theorem einv_learnAndJump {F st ever} (h : EInv F st ever) (lc : Array Int) (hlc : st.nBlocking = 0 → Entails F lc.toList)
    (bt lbd : Nat) : EInv F (learnAndJump st lc bt lbd) (ever.push lc) := by
  unfold learnAndJump
  simp only
  obtain ⟨_, _, l1⟩ := unassignTo_nVars st bt
  have n1 := unassignTo_nb st bt
  have h1 : EInv F (unassignTo st bt) ever := h.lperm (lperm_of_eq l1 n1)
  generalize unassignTo st bt = s1 at h1 n1
  have h2 := einv_push h1 lc (fun hb => hlc (n1 ▸ hb)) (s1.lbd.push lbd)
  obtain ⟨_, _, _, _, _, _, _, _, _, e10⟩ := attach_core { s1 with learned := s1.learned.push lc, lbd := s1.lbd.push lbd } lc
    (s1.nOrig + s1.learned.size)
  exact (h2.lperm (lperm_of_eq e10 (attach_nb _ _ _))).lperm (lperm_assign _ _ _ _)

theorem reattach_learned (no : Nat) (keep : Array (Array Int)) : ∀ (fuel j : Nat) (st : St),
    (reattach no keep fuel j st).learned = st.learned ∧ (reattach no keep fuel j st).nBlocking = st.nBlocking := by
  intro fuel
  induction fuel with
  | zero => intro j st; exact ⟨rfl, rfl⟩
  | succ fuel ih =>
    intro j st
    unfold reattach
    simp only
    have hat : (if (keep[j]!).size == 2 then bigAdd st (keep[j]!)[0]! (keep[j]!)[1]! (no + j)
        else if (keep[j]!).size > 2 then addWatch (addWatch st (keep[j]!)[0]! (no + j)) (keep[j]!)[1]! (no + j) else st) =
        attach st keep[j]! (no + j) := by unfold attach; rfl
    rw [hat]
    obtain ⟨a, b⟩ := ih (j + 1) (attach st keep[j]! (no + j))
    obtain ⟨_, _, _, _, _, _, _, _, _, e10⟩ := attach_core st keep[j]! (no + j)
    exact ⟨a.trans e10, b.trans (attach_nb _ _ _)⟩

theorem einv_reduceDb {F st ever} (h : EInv F st ever) : EInv F (reduceDb st) ever := by
  unfold reduceDb
  split
  · exact h
  · simp only
    refine ⟨fun hb j hj => ?_, fun hb => ?_⟩
    · obtain ⟨el, en⟩ := reattach_learned st.nOrig _ _ 0
        { st with learned := _, lbd := _, watch := st.watch.map (·.filter (· < st.nOrig)), big := _ }
      rw [el] at hj ⊢
      rw [en] at hb
      simp only at hj hb ⊢
      have hmem := (mem_toList_iff_get! _ _).2 ⟨j, hj, rfl⟩
      simp only [List.mem_map] at hmem
      obtain ⟨p, hp, hpe⟩ := hmem
      rw [← hpe]
      -- `p.1` is an index into the old `learned`
      have hin : p.1 < st.learned.size := by
        have h1 := (List.mem_filter.1 hp).1
        obtain ⟨i, hi⟩ := List.mem_iff_getElem?.1 h1
        have h2 := List.mem_of_getElem? (List.mem_zipIdx_iff_getElem?.1 h1)
        have h3 := (List.mergeSort_perm _ _).mem_iff.1 h2
        simpa using h3
      exact h.learned hb p.1 hin
    · obtain ⟨_, en⟩ := reattach_learned st.nOrig _ _ 0
        { st with learned := _, lbd := _, watch := st.watch.map (·.filter (· < st.nOrig)), big := _ }
      rw [en] at hb
      exact h.ever hb

theorem einv_restartSt {F st ever} (h : EInv F st ever) : EInv F (restartSt st) ever := by
  unfold restartSt
  obtain ⟨_, _, l1⟩ := unassignTo_nVars { st with restarts := st.restarts + 1 } 0
  have n1 := unassignTo_nb { st with restarts := st.restarts + 1 } 0
  exact einv_reduceDb ((h.lperm (lperm_of_eq (st' := { st with restarts := st.restarts + 1 }) rfl rfl)).lperm
    (lperm_of_eq l1 n1))

/-- after a blocking clause the invariant holds vacuously -/
theorem einv_of_blocked {F : Cnf} {st : St} {ever : Array (Array Int)} (h : st.nBlocking ≠ 0) : EInv F st ever :=
  ⟨fun hb => absurd hb h, fun hb => absurd hb h⟩

theorem blockSt_nb (st : St) (blocking : Array Int) : (blockSt st blocking).nBlocking = st.nBlocking + 1 := by
  unfold blockSt
  simp only
  split
  · show (unassignTo _ 0).nBlocking = _; rw [unassignTo_nb]
  · rw [attach_nb, unassignTo_nb]

theorem learnAndJump_nb (st : St) (lc : Array Int) (bt lbd : Nat) : (learnAndJump st lc bt lbd).nBlocking = st.nBlocking := by
  unfold learnAndJump
  simp only
  show (attach _ lc _).nBlocking = _
  rw [attach_nb]; exact unassignTo_nb st bt

theorem reduceDb_nb (st : St) : (reduceDb st).nBlocking = st.nBlocking := by
  unfold reduceDb
  split
  · rfl
  · simp only
    exact (reattach_learned st.nOrig _ _ 0 _).2

theorem restartSt_nb (st : St) : (restartSt st).nBlocking = st.nBlocking := by
  unfold restartSt; rw [reduceDb_nb, unassignTo_nb]

theorem lperm_applyBumps (st : St) (bs : List Nat) : LPerm st (applyBumps st bs) := by
  have key : ∀ (bs : List Nat) (st : St), LPerm st (bs.foldl bumpOne st) := by
    intro bs
    induction bs with
    | nil => intro st; exact LPerm.refl _
    | cons v t ih =>
      intro st
      simp only [List.foldl_cons]
      refine LPerm.trans ?_ (ih _)
      unfold bumpOne; simp only; split <;> exact lperm_of_eq rfl rfl
  unfold applyBumps
  exact (key bs st).trans (lperm_of_eq rfl rfl)

theorem lperm_pickLoop : ∀ (fuel : Nat) (st : St), LPerm st (pickLoop fuel st).1 := by
  intro fuel
  induction fuel with
  | zero => intro st; exact LPerm.refl _
  | succ fuel ih =>
    intro st
    rw [pickLoop_eq_ref]
    unfold pickLoopRef
    split
    · exact LPerm.refl _
    · rename_i f v hp _
      simp only
      split
      · exact lperm_of_eq rfl rfl
      · rw [← pickLoop_eq_ref]
        have h2 := ih { st with heap := hp, inHeap := st.inHeap.set! v false }
        exact ⟨h2.size, h2.perm, h2.nb⟩

theorem lperm_decideSt (st : St) (var : Nat) : LPerm st (decideSt st var) := by
  unfold decideSt; exact lperm_of_eq rfl rfl

end Solvor.Sat.Cdcl
