import Solvor.Sat.CdclProp
import Solvor.Sat.CdclBack
import Solvor.Sat.CdclHeap
/-!
Sat.CdclH: the second invariant of the CDCL mirror – the VSIDS heap holds an entry for every
unassigned variable, variable 0 is never assigned, learned clauses are structurally sound (no literal
0, watched ones are in range with at least two literals).  It gives totality of the assignment read
off when `pick_var` finds the heap exhausted.
-/
namespace Solvor.Sat.Cdcl

/-- `x` = the variable just popped by `pick_var` and about to be assigned (0 = none) -/
structure HInvX (st : St) (x : Nat) : Prop where
  isz : st.inHeap.size = st.nVars + 1
  vsz : st.vals.size = st.nVars + 1
  tr : ∀ v ∈ st.trail.toList, v ≤ st.nVars
  he : ∀ e ∈ st.heap.toList, 1 ≤ e.2
  hf : ∀ v, 1 ≤ v → st.inHeap[v]! = true → ∃ e ∈ st.heap.toList, e.2 = v
  hu : ∀ v, 1 ≤ v → v ≤ st.nVars → v ≠ x → valAt st v = UNDEF → st.inHeap[v]! = true
  v0 : valAt st 0 = UNDEF
  t0 : 0 ∉ st.trail.toList
  anz : ∀ a ∈ st.assumptions, a ≠ 0
  lnz : ∀ j, j < st.learned.size → ∀ l ∈ (st.learned[j]!).toList, l ≠ 0
  wlr : ∀ l idx, idx ∈ wl st l → st.nOrig ≤ idx →
    idx - st.nOrig < st.learned.size ∧ 2 ≤ (st.learned[idx - st.nOrig]!).size
  bnz : ∀ l e, e ∈ il st l → e.1 ≠ 0

abbrev HInv (st : St) : Prop := HInvX st 0

theorem hinv_frame {st st' x} (h : HInvX st x) (e1 : st'.nVars = st.nVars) (e2 : st'.nOrig = st.nOrig)
    (e3 : st'.assumptions = st.assumptions) (e4 : st'.vals = st.vals) (e5 : st'.trail = st.trail)
    (e6 : st'.learned = st.learned) (e7 : st'.watch = st.watch) (e8 : st'.big = st.big)
    (e9 : st'.heap = st.heap) (e10 : st'.inHeap = st.inHeap) : HInvX st' x := by
  cases st'
  simp only at e1 e2 e3 e4 e5 e6 e7 e8 e9 e10
  subst e1 e2 e3 e4 e5 e6 e7 e8 e9 e10
  exact ⟨h.isz, h.vsz, h.tr, h.he, h.hf, h.hu, h.v0, h.t0, h.anz, h.lnz, h.wlr, h.bnz⟩

/-! ### `assign` -/

theorem le_nVars_of_undef {st x} (h : HInvX st x) {v : Nat} (hu : valAt st v = UNDEF) : v ≤ st.nVars := by
  apply Classical.byContradiction
  intro hn
  unfold valAt at hu
  rw [get!_of_ge _ _ (by rw [h.vsz]; omega)] at hu
  cases hu

theorem hinv_assign {st x} (h : HInvX st x) {v : Nat} (hv : v ≠ 0) (hvn : v ≤ st.nVars) (b : Bool) (r : Int) :
    HInvX (assign st v b r) x := by
  have hval0 : valAt (assign st v b r) 0 = valAt st 0 := by
    rw [valAt_assign]; simp [hv]
  refine ⟨h.isz, by show (st.vals.set! v _).size = _; rw [size_set!]; exact h.vsz, ?_, h.he, h.hf, ?_,
    by rw [hval0]; exact h.v0, ?_, h.anz, h.lnz, h.wlr, h.bnz⟩
  · intro u hu
    have hu' : u ∈ (st.trail.push v).toList := hu
    rw [Array.toList_push, List.mem_append] at hu'
    rcases hu' with hm | hm
    · exact h.tr u hm
    · simp at hm; subst hm; exact hvn
  · intro u hu1 hu2 hux huu
    apply h.hu u hu1 hu2 hux
    rw [valAt_assign] at huu
    split at huu
    · cases b <;> simp [UNDEF] at huu
    · exact huu
  · show 0 ∉ (st.trail.push v).toList
    rw [Array.toList_push, List.mem_append]
    rintro (hm | hm)
    · exact h.t0 hm
    · simp at hm; exact hv hm.symm

/-- assigning the popped variable restores the full invariant -/
theorem hinv_assign_restore {st x} (h : HInvX st x) (hx : x ≠ 0) (hxn : x ≤ st.nVars) (b : Bool) (r : Int) :
    HInv (assign st x b r) := by
  have hxs : x < st.vals.size := by rw [h.vsz]; omega
  have h1 := hinv_assign h hx hxn b r
  refine { h1 with hu := ?_ }
  intro u hu1 hu2 _ huu
  by_cases hux : u = x
  · subst hux
    rw [valAt_assign] at huu
    simp only [hxs, and_self, if_true] at huu
    cases b <;> simp [UNDEF] at huu
  · exact h1.hu u hu1 hu2 hux huu

/-! ### clause and watch-list edits -/

theorem hinv_setClauses {st x} (h : HInvX st x) (C : Array (Array Int)) : HInvX { st with clauses := C } x :=
  hinv_frame h rfl rfl rfl rfl rfl rfl rfl rfl rfl rfl

theorem hinv_setLearned_perm {st x} (h : HInvX st x) (j : Nat) (X : Array Int)
    (hp : X.toList.Perm (st.learned[j]!).toList) : HInvX { st with learned := st.learned.set! j X } x := by
  have hsz : X.size = (st.learned[j]!).size := by simpa using hp.length_eq
  refine ⟨h.isz, h.vsz, h.tr, h.he, h.hf, h.hu, h.v0, h.t0, h.anz, ?_, ?_, h.bnz⟩
  · intro i hi l hl
    have hi' : i < st.learned.size := by
      have : i < (st.learned.set! j X).size := hi
      simpa [size_set!] using this
    have hget : (st.learned.set! j X)[i]! = if j = i ∧ j < st.learned.size then X else st.learned[i]! := get!_set! _ _ _ _
    have hl' : l ∈ ((st.learned.set! j X)[i]!).toList := hl
    rw [hget] at hl'
    split at hl'
    · rename_i hji
      obtain ⟨rfl, _⟩ := hji
      exact h.lnz j hi' l ((hp.mem_iff).1 hl')
    · exact h.lnz i hi' l hl'
  · intro l idx hidx hno
    obtain ⟨a, b⟩ := h.wlr l idx hidx hno
    refine ⟨by show _ < (st.learned.set! j X).size; rw [size_set!]; exact a, ?_⟩
    show 2 ≤ ((st.learned.set! j X)[idx - st.nOrig]!).size
    rw [get!_set!]
    split
    · rename_i hji
      obtain ⟨rfl, _⟩ := hji
      rw [hsz]; exact b
    · exact b

theorem hinv_addWatch {st x} (h : HInvX st x) (l : Int) (idx : Nat)
    (hok : st.nOrig ≤ idx → idx - st.nOrig < st.learned.size ∧ 2 ≤ (st.learned[idx - st.nOrig]!).size) :
    HInvX (addWatch st l idx) x := by
  refine ⟨h.isz, h.vsz, h.tr, h.he, h.hf, h.hu, h.v0, h.t0, h.anz, h.lnz, ?_, h.bnz⟩
  intro l' idx' hm hno
  rw [wl_addWatch] at hm
  split at hm
  · rcases List.mem_append.1 hm with hm | hm
    · exact h.wlr l' idx' hm hno
    · simp at hm; subst hm; exact hok hno
  · exact h.wlr l' idx' hm hno

theorem hinv_removeWatchAt {st x} (h : HInvX st x) (fl : Int) (i : Nat) (hi : i < (watchOf st fl).size) :
    HInvX (removeWatchAt st fl i) x := by
  obtain ⟨hperm, _⟩ := removeAt_facts (watchOf st fl) i hi
  refine ⟨h.isz, h.vsz, h.tr, h.he, h.hf, h.hu, h.v0, h.t0, h.anz, h.lnz, ?_, h.bnz⟩
  intro l' idx' hm hno
  rw [wl_removeWatchAt] at hm
  split at hm
  · rename_i hh
    apply h.wlr l' idx' _ hno
    rw [hh.1]
    exact (List.eraseIdx_sublist _ _).subset ((hperm.mem_iff).1 hm)
  · exact h.wlr l' idx' hm hno

theorem hinv_bigAdd {st x} (h : HInvX st x) {a b : Int} (ha : a ≠ 0) (hb : b ≠ 0) (idx : Nat) :
    HInvX (bigAdd st a b idx) x := by
  refine ⟨h.isz, h.vsz, h.tr, h.he, h.hf, h.hu, h.v0, h.t0, h.anz, h.lnz, h.wlr, ?_⟩
  intro l e he
  unfold il implications bigAdd at he
  simp only at he
  rw [get!_modify, get!_modify] at he
  have old : e ∈ (st.big[litIdx l]!).toList → e.1 ≠ 0 := fun hm => h.bnz l e hm
  split at he
  · split at he
    · simp only [Array.toList_push, List.mem_append, List.mem_singleton] at he
      rcases he with (he | he) | he
      · exact old he
      · subst he; exact hb
      · subst he; exact ha
    · simp only [Array.toList_push, List.mem_append, List.mem_singleton] at he
      rcases he with he | he
      · exact old he
      · subst he; exact ha
  · split at he
    · simp only [Array.toList_push, List.mem_append, List.mem_singleton] at he
      rcases he with he | he
      · exact old he
      · subst he; exact hb
    · exact old he

/-! ### `propagate` -/

theorem h_assumeLoop {x} : ∀ (xs : List Int) (st : St), HInvX st x → (∀ a ∈ xs, a ≠ 0) → HInvX (assumeLoop xs st).1 x := by
  intro xs
  induction xs with
  | nil => intro st h _; exact h
  | cons a t ih =>
    intro st h hnz
    unfold assumeLoop
    simp only
    have ha : a.natAbs ≠ 0 := by have := hnz a List.mem_cons_self; omega
    have ht : ∀ b ∈ t, b ≠ 0 := fun b hb => hnz b (List.mem_cons_of_mem _ hb)
    split
    · rename_i hu
      have hu' : valAt st a.natAbs = UNDEF := by simpa [valAt] using hu
      exact ih _ (hinv_assign h ha (le_nVars_of_undef h hu') _ _) ht
    · split
      · exact h
      · exact ih _ h ht

theorem h_implLoop {x} : ∀ (xs : List (Int × Nat)) (st : St), HInvX st x → (∀ e ∈ xs, e.1 ≠ 0) →
    HInvX (implLoop xs st).1 x := by
  intro xs
  induction xs with
  | nil => intro st h _; exact h
  | cons e t ih =>
    intro st h hnz
    obtain ⟨implied, cidx⟩ := e
    unfold implLoop
    simp only
    have ha : implied.natAbs ≠ 0 := by have := hnz (implied, cidx) List.mem_cons_self; simp only at this; omega
    have ht : ∀ b ∈ t, b.1 ≠ 0 := fun b hb => hnz b (List.mem_cons_of_mem _ hb)
    split
    · rename_i hu
      have hu' : valAt st implied.natAbs = UNDEF := by simpa [valAt] using hu
      exact ih _ (hinv_assign h ha (le_nVars_of_undef h hu') _ _) ht
    · split
      · exact h
      · exact ih _ h ht

theorem orient_perm (fl : Int) (C : Array Int) : (orient fl C).toList.Perm C.toList := by
  unfold orient; split
  · exact swapIB_perm _ _ _
  · exact List.Perm.refl _

theorem getClause_learned (st : St) {c : Nat} (h : st.nOrig ≤ c) : getClause st c = st.learned[c - st.nOrig]! := by
  unfold getClause; simp [Nat.not_lt.2 h]

theorem hinv_moveWatch {st x} (h : HInvX st x) (fl : Int) (i c : Nat) (X : Array Int)
    (hi : i < (watchOf st fl).size)
    (hX : st.nOrig ≤ c → X.toList.Perm (st.learned[c - st.nOrig]!).toList ∧ c - st.nOrig < st.learned.size ∧
      2 ≤ (st.learned[c - st.nOrig]!).size) : HInvX (moveWatch st fl i c X) x := by
  unfold moveWatch
  by_cases hc : c < st.nOrig
  · rw [setClause_orig st hc]
    have h1 := hinv_setClauses h (st.clauses.set! c X)
    have h2 := hinv_removeWatchAt h1 fl i hi
    exact hinv_addWatch h2 _ _ (fun hno => by
      have : (removeWatchAt { st with clauses := st.clauses.set! c X } fl i).nOrig = st.nOrig := rfl
      rw [this] at hno; omega)
  · have hno : st.nOrig ≤ c := by omega
    obtain ⟨hp, hr, h2⟩ := hX hno
    rw [setClause_learned st hno]
    have h1 := hinv_setLearned_perm h (c - st.nOrig) X hp
    have h2' := hinv_removeWatchAt h1 fl i hi
    refine hinv_addWatch h2' _ _ (fun _ => ?_)
    show c - st.nOrig < (st.learned.set! (c - st.nOrig) X).size ∧ 2 ≤ ((st.learned.set! (c - st.nOrig) X)[c - st.nOrig]!).size
    rw [size_set!, get!_set!_self _ _ _ hr]
    have : X.size = (st.learned[c - st.nOrig]!).size := by simpa using hp.length_eq
    exact ⟨hr, by omega⟩

/-- one step of the watch loop keeps the second invariant (both outcomes) -/
theorem h_watchStep {F st p fl i x} (hI : Inv F st p) (h : HInvX st x) :
    (∀ st' i', watchStep fl st i = .inl (st', i') → HInvX st' x) ∧
    (∀ st' r, watchStep fl st i = .inr (st', r) → HInvX st' x) := by
  unfold watchStep
  simp only
  split
  case isFalse => exact ⟨fun _ _ hs => (by cases hs), fun _ _ hs => (by cases hs; exact h)⟩
  case isTrue hisz =>
  have hi := wl_getElem?_of_lt st fl hisz
  generalize hcidx : (watchOf st fl)[i]! = cidx at hi
  have hm : cidx ∈ wl st fl := List.mem_of_getElem? hi
  have hGo : cidx < st.nOrig → getClause st cidx = cl st cidx := fun hc => getClause_orig st hc
  have hGl : st.nOrig ≤ cidx → getClause st cidx = st.learned[cidx - st.nOrig]! := fun hno => getClause_learned st hno
  generalize getClause st cidx = G at hGo hGl
  -- facts about the clause, oriented
  have hX : ∀ (Y : Array Int), Y.toList.Perm G.toList →
      (st.nOrig ≤ cidx → Y.toList.Perm (st.learned[cidx - st.nOrig]!).toList ∧ cidx - st.nOrig < st.learned.size ∧
        2 ≤ (st.learned[cidx - st.nOrig]!).size) := by
    intro Y hY hno
    obtain ⟨a, b⟩ := h.wlr fl cidx hm hno
    rw [hGl hno] at hY
    exact ⟨hY, a, b⟩
  have hset : ∀ (Y : Array Int), Y.toList.Perm G.toList → HInvX (setClause st cidx Y) x := by
    intro Y hY
    by_cases hc : cidx < st.nOrig
    · rw [setClause_orig st hc]; exact hinv_setClauses h _
    · have hno : st.nOrig ≤ cidx := by omega
      rw [setClause_learned st hno]
      exact hinv_setLearned_perm h _ _ (hX Y hY hno).1
  -- the first literal of the oriented clause is a non-zero literal
  have hnz0 : 2 ≤ G.size → (orient fl G)[0]! ≠ 0 := by
    intro h2
    have hsz : (orient fl G).size = G.size := by simpa using (orient_perm fl G).length_eq
    have hmem : (orient fl G)[0]! ∈ G.toList :=
      ((orient_perm fl _).mem_iff).1 ((mem_toList_iff_get! _ _).2 ⟨0, by omega, rfl⟩)
    by_cases hc : cidx < st.nOrig
    · have hmem' : (orient fl G)[0]! ∈ (cl st cidx).toList := by rw [← hGo hc]; exact hmem
      have hcF : cidx < F.length := by rw [← hI.nOrig]; exact hc
      exact hI.fok.nz _ (List.getElem_mem hcF) _ ((hI.clMem hcF).1 hmem')
    · have hno : st.nOrig ≤ cidx := by omega
      have hmem' : (orient fl G)[0]! ∈ (st.learned[cidx - st.nOrig]!).toList := by rw [← hGl hno]; exact hmem
      exact h.lnz _ (h.wlr fl cidx hm hno).1 _ hmem'
  have hsz2 : ¬ (G.size == 1) = true → 2 ≤ G.size := by
    intro hne
    have hne' : G.size ≠ 1 := by simpa using hne
    by_cases hc : cidx < st.nOrig
    · have hcF : cidx < F.length := by rw [← hI.nOrig]; exact hc
      have := (hI.wsound fl cidx hm hcF).1
      rw [hGo hc]; omega
    · have hno : st.nOrig ≤ cidx := by omega
      rw [hGl hno]; exact (h.wlr fl cidx hm hno).2
  split
  · exact ⟨fun _ _ hs => (by cases hs), fun _ _ hs => (by cases hs; exact h)⟩
  · rename_i hne1
    have h2 := hsz2 hne1
    split
    · refine ⟨fun _ _ hs => ?_, fun _ _ hs => (by cases hs)⟩
      simp only [Sum.inl.injEq, Prod.mk.injEq] at hs
      obtain ⟨rfl, rfl⟩ := hs
      exact hset _ (orient_perm _ _)
    · rename_i hft
      split
      · rename_i k hk
        refine ⟨fun _ _ hs => ?_, fun _ _ hs => (by cases hs)⟩
        simp only [Sum.inl.injEq, Prod.mk.injEq] at hs
        obtain ⟨rfl, rfl⟩ := hs
        have hperm : (swap1k (orient fl G) k).toList.Perm G.toList :=
          (swapIB_perm _ _ _).trans (orient_perm _ _)
        exact hinv_moveWatch h fl i cidx _ hisz (hX _ hperm)
      · split
        · refine ⟨fun _ _ hs => (by cases hs), fun _ _ hs => ?_⟩
          simp only [Sum.inr.injEq, Prod.mk.injEq] at hs
          obtain ⟨rfl, rfl⟩ := hs
          exact hset _ (orient_perm _ _)
        · rename_i hff
          refine ⟨fun _ _ hs => ?_, fun _ _ hs => (by cases hs)⟩
          simp only [Sum.inl.injEq, Prod.mk.injEq] at hs
          obtain ⟨rfl, rfl⟩ := hs
          have := hnz0 h2
          have hS := hset _ (orient_perm fl G)
          have hnone : litValue (setClause st cidx (orient fl G)) (orient fl G)[0]! = none := by
            have : litValue (setClause st cidx (orient fl G)) (orient fl G)[0]! = litValue st (orient fl G)[0]! := by
              unfold setClause; split <;> rfl
            rw [this]; exact litValue_ne_cases hft hff
          exact hinv_assign hS (by omega) (le_nVars_of_undef hS (undef_of_litValue_none hnone)) _ _

theorem h_watchLoop {F p fl x} : ∀ (fuel : Nat) (st : St) (i : Nat), Inv F st p → Ctx st p fl → Done F st fl i →
    HInvX st x → HInvX (watchLoop fl fuel st i).1 x := by
  intro fuel
  induction fuel with
  | zero => intro st i _ _ _ h; exact h
  | succ fuel ih =>
    intro st i hI ctx hd h
    unfold watchLoop
    obtain ⟨k1, k2⟩ := h_watchStep (fl := fl) (i := i) hI h
    split
    · rename_i st1 i1 hstep
      obtain ⟨h1, e1, d1⟩ := watchStep_inl hI ctx hd hstep
      exact ih st1 i1 h1 (ctx.ext e1) d1 (k1 st1 i1 hstep)
    · rename_i r hstep
      obtain ⟨st', r'⟩ := r
      exact k2 st' r' hstep

theorem h_propStep {F st x} (hI : Inv F st st.propHead) (h : HInvX st x) :
    (∀ st2, propStep st = .inl st2 → HInvX st2 x) ∧ (∀ st' r, propStep st = .inr (st', r) → HInvX st' x) := by
  unfold propStep
  simp only
  split
  · exact ⟨fun _ hs => (by cases hs), fun _ _ hs => (by cases hs; exact h)⟩
  · rename_i hlt
    have hp : st.propHead < st.trail.size := by omega
    have h0 : Inv F { st with propHead := st.propHead + 1 } st.propHead :=
      inv_frame hI rfl rfl rfl rfl rfl rfl rfl rfl rfl
    have hh0 : HInvX { st with propHead := st.propHead + 1 } x := hinv_frame h rfl rfl rfl rfl rfl rfl rfl rfl rfl rfl
    have ctx0 := ctx_of_trail h0 hp
    simp only at ctx0
    generalize hfl : (if st.vals[st.trail[st.propHead]!]! == 0 then (st.trail[st.propHead]! : Int)
      else -(st.trail[st.propHead]! : Int)) = fl at ctx0
    have hbn : ∀ e ∈ (implications { st with propHead := st.propHead + 1 } fl).toList, e.1 ≠ 0 :=
      fun e he => hh0.bnz fl e he
    have hh1 := h_implLoop _ _ hh0 hbn
    split
    · rename_i st1 cidx himp
      rw [himp] at hh1
      refine ⟨fun _ hs => (by cases hs), fun st' r hs => ?_⟩
      simp only [Sum.inr.injEq, Prod.mk.injEq] at hs
      obtain ⟨rfl, rfl⟩ := hs
      exact hinv_frame hh1 rfl rfl rfl rfl rfl rfl rfl rfl rfl rfl
    · rename_i st1 himp
      rw [himp] at hh1
      obtain ⟨h1, e1, _⟩ := implLoop_spec _ _ _ _ h0 himp
      have ctx1 := ctx0.ext e1
      have hh2 := h_watchLoop (F := F) (p := st.propHead) (fl := fl) ((watchOf st1 fl).size + 1) st1 0 h1 ctx1
        (fun j c hj => by omega) hh1
      split
      · rename_i st2 hw
        rw [hw] at hh2
        refine ⟨fun st2' hs => ?_, fun _ _ hs => (by cases hs)⟩
        simp only [Sum.inl.injEq] at hs
        subst hs; exact hh2
      · rename_i st2 cidx hw
        rw [hw] at hh2
        refine ⟨fun _ hs => (by cases hs), fun st' r hs => ?_⟩
        simp only [Sum.inr.injEq, Prod.mk.injEq] at hs
        obtain ⟨rfl, rfl⟩ := hs
        exact hinv_frame hh2 rfl rfl rfl rfl rfl rfl rfl rfl rfl rfl
      · rename_i st2 r2 _ _ hw
        rw [hw] at hh2
        refine ⟨fun _ hs => (by cases hs), fun st' r hs => ?_⟩
        simp only [Sum.inr.injEq, Prod.mk.injEq] at hs
        obtain ⟨rfl, rfl⟩ := hs
        exact hh2

theorem h_propLoop {F x} : ∀ (fuel : Nat) (st : St), Inv F st st.propHead → HInvX st x → HInvX (propLoop fuel st).1 x := by
  intro fuel
  induction fuel with
  | zero => intro st _ h; exact h
  | succ fuel ih =>
    intro st hI h
    unfold propLoop
    obtain ⟨k1, k2⟩ := h_propStep hI h
    obtain ⟨s1, _⟩ := propStep_spec hI
    split
    · rename_i st2 hstep
      exact ih st2 (s1 st2 hstep).1 (k1 st2 hstep)
    · rename_i r hstep
      obtain ⟨st', r'⟩ := r
      exact k2 st' r' hstep

theorem h_propagate {F st x} (hI : Inv F st st.propHead) (h : HInvX st x) : HInvX (propagate st).1 x := by
  unfold propagate
  simp only
  generalize hq : (if (st.trailLim.size == 0) = true then assumeLoop st.assumptions st else (st, false)) = q
  obtain ⟨s1, bad⟩ := q
  have hs1 : HInvX s1 x ∧ Inv F s1 s1.propHead := by
    split at hq
    · have := h_assumeLoop st.assumptions st h h.anz
      obtain ⟨a, _, c, _⟩ := assumeLoop_spec _ _ _ _ hI hq
      rw [hq] at this
      exact ⟨this, c ▸ a⟩
    · simp only [Prod.mk.injEq] at hq; obtain ⟨rfl, rfl⟩ := hq; exact ⟨h, hI⟩
  simp only
  split
  · exact hinv_frame hs1.1 rfl rfl rfl rfl rfl rfl rfl rfl rfl rfl
  · exact h_propLoop _ _ hs1.2 hs1.1

end Solvor.Sat.Cdcl
