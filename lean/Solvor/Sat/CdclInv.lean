import Solvor.Sat.CdclKit
/-!
Sat.CdclInv: the watch / trail invariant of the CDCL mirror and its preservation by the primitive
state changes (`assign`, clause swaps, watch moves, `unassignTo`, attaching learned clauses).

Only the *input* clauses (index `< nOrig`) are constrained: learned and blocking clauses may be
watched arbitrarily – `solve_sat` itself does not keep the two-watched-literal invariant for them
(the second watch of a learned clause is not its highest-level literal) – and nothing below depends
on what they contain.
-/
namespace Solvor.Sat.Cdcl

/-! ### reading the state -/

def valAt (st : St) (v : Nat) : Nat := st.vals[v]!
def lvlAt (st : St) (v : Nat) : Nat := st.levels[v]!
/-- watch list of a literal, as a list -/
def wl (st : St) (l : Int) : List Nat := (watchOf st l).toList
/-- implication list of a (false) literal -/
def il (st : St) (l : Int) : List (Int × Nat) := (implications st l).toList
/-- input clause number `c` as stored now -/
def cl (st : St) (c : Nat) : Array Int := st.clauses[c]!

def IsTrue (st : St) (l : Int) : Prop := litValue st l = some true
def IsFalse (st : St) (l : Int) : Prop := litValue st l = some false
/-- the variable of `l` sits on the trail below position `k` -/
def Proc (st : St) (k : Nat) (l : Int) : Prop := ∃ i, i < k ∧ i < st.trail.size ∧ st.trail[i]! = l.natAbs

/-- watched literal `w` false and already processed ⇒ the other watch `o` is true, on a level that
cannot be undone before `w`'s -/
def Sem2 (st : St) (k : Nat) (w o : Int) : Prop :=
  IsFalse st w → Proc st k w → IsTrue st o ∧ lvlAt st o.natAbs ≤ lvlAt st w.natAbs

/-- what is assumed of the input -/
structure FOK (F : List (List Int)) (N : Nat) : Prop where
  nodup : ∀ c ∈ F, c.Nodup
  nz : ∀ c ∈ F, ∀ l ∈ c, l ≠ 0
  rng : ∀ c ∈ F, ∀ l ∈ c, l.natAbs ≤ N

structure Inv (F : List (List Int)) (st : St) (k : Nat) : Prop where
  nOrig : st.nOrig = F.length
  csize : st.clauses.size = F.length
  perm : ∀ c (h : c < F.length), (cl st c).toList.Perm F[c]
  fok : FOK F st.nVars
  vsize : st.vals.size = st.nVars + 1
  vrange : ∀ v, valAt st v ≤ 2
  lsize : st.levels.size = st.nVars + 1
  wsize : st.watch.size = 2 * (st.nVars + 1)
  bsize : st.big.size = 2 * (st.nVars + 1)
  tnodup : st.trail.toList.Nodup
  tmem : ∀ v, v ∈ st.trail.toList ↔ (v ≤ st.nVars ∧ valAt st v ≠ UNDEF)
  limSorted : ∀ j1 j2, j1 ≤ j2 → j2 < st.trailLim.size → st.trailLim[j1]! ≤ st.trailLim[j2]!
  limLe : ∀ j, j < st.trailLim.size → st.trailLim[j]! ≤ k
  kLe : k ≤ st.trail.size
  tl : ∀ i j, i < st.trail.size → j < st.trailLim.size → (st.trailLim[j]! ≤ i ↔ j < lvlAt st (st.trail[i]!))
  lvlLe : ∀ i, i < st.trail.size → lvlAt st (st.trail[i]!) ≤ st.trailLim.size
  wsound : ∀ l c, c ∈ wl st l → c < F.length → 3 ≤ (cl st c).size ∧ ((cl st c)[0]! = l ∨ (cl st c)[1]! = l)
  wnodup : ∀ l, ((wl st l).filter (· < F.length)).Nodup
  wattach : ∀ c, c < F.length → 3 ≤ (cl st c).size → c ∈ wl st (cl st c)[0]! ∧ c ∈ wl st (cl st c)[1]!
  wsem : ∀ c, c < F.length → 3 ≤ (cl st c).size →
    Sem2 st k (cl st c)[0]! (cl st c)[1]! ∧ Sem2 st k (cl st c)[1]! (cl st c)[0]!
  battach : ∀ c, c < F.length → (cl st c).size = 2 →
    ((cl st c)[1]!, c) ∈ il st (cl st c)[0]! ∧ ((cl st c)[0]!, c) ∈ il st (cl st c)[1]!
  bsem : ∀ c, c < F.length → (cl st c).size = 2 →
    Sem2 st k (cl st c)[0]! (cl st c)[1]! ∧ Sem2 st k (cl st c)[1]! (cl st c)[0]!

/-- a literal true at decision level 0 (unit clauses, assumptions): never undone -/
def True0 (st : St) (l : Int) : Prop := IsTrue st l ∧ lvlAt st l.natAbs = 0

/-! ### literals of stored clauses -/

theorem Inv.clMem {F st k} (h : Inv F st k) {c : Nat} (hc : c < F.length) {l : Int} :
    l ∈ (cl st c).toList ↔ l ∈ F[c] := (h.perm c hc).mem_iff

theorem Inv.clSize {F st k} (h : Inv F st k) {c : Nat} (hc : c < F.length) :
    (cl st c).size = F[c].length := by
  have := (h.perm c hc).length_eq
  simpa using this

theorem Inv.clNodup {F st k} (h : Inv F st k) {c : Nat} (hc : c < F.length) : (cl st c).toList.Nodup :=
  (h.perm c hc).nodup_iff.2 (h.fok.nodup _ (List.getElem_mem hc))

theorem Inv.clGet {F st k} (h : Inv F st k) {c : Nat} (hc : c < F.length) {i : Nat} (hi : i < (cl st c).size) :
    (cl st c)[i]! ∈ F[c] := by
  rw [← h.clMem hc, mem_toList_iff_get!]
  exact ⟨i, hi, rfl⟩

theorem Inv.clNe {F st k} (h : Inv F st k) {c : Nat} (hc : c < F.length) {i j : Nat}
    (hi : i < (cl st c).size) (hj : j < (cl st c).size) (hij : i ≠ j) : (cl st c)[i]! ≠ (cl st c)[j]! := by
  have hnd := h.clNodup hc
  rw [get!_of_lt _ _ hi, get!_of_lt _ _ hj]
  have hp := List.pairwise_iff_getElem.1 hnd
  intro heq
  rcases Nat.lt_or_gt_of_ne hij with hlt | hlt
  · exact hp i j (by simpa using hi) (by simpa using hj) hlt (by simpa using heq)
  · exact hp j i (by simpa using hj) (by simpa using hi) hlt (by simpa using heq.symm)

/-! ### values -/

theorem litValue_def (st : St) (l : Int) :
    litValue st l = if valAt st l.natAbs = UNDEF then none else some ((valAt st l.natAbs == 1) == decide (0 < l)) := by
  unfold litValue valAt
  by_cases h : st.vals[l.natAbs]! = UNDEF <;> simp [h]

theorem IsTrue.assigned {st l} (h : IsTrue st l) : valAt st l.natAbs ≠ UNDEF := by
  unfold IsTrue at h; rw [litValue_def] at h
  intro hh; simp [hh] at h

theorem IsFalse.assigned {st l} (h : IsFalse st l) : valAt st l.natAbs ≠ UNDEF := by
  unfold IsFalse at h; rw [litValue_def] at h
  intro hh; simp [hh] at h

theorem not_true_and_false {st l} (h1 : IsTrue st l) (h2 : IsFalse st l) : False := by
  unfold IsTrue at h1; unfold IsFalse at h2; rw [h1] at h2; cases h2

/-- same variable, both false ⇒ same literal -/
theorem IsFalse.eq_of_natAbs {st} {a b : Int} (ha : IsFalse st a) (hb : IsFalse st b)
    (h : a.natAbs = b.natAbs) : a = b := by
  unfold IsFalse at ha hb
  rw [litValue_def] at ha hb
  rw [h] at ha
  by_cases hu : valAt st b.natAbs = UNDEF
  · simp [hu] at hb
  · simp only [hu, if_false, Option.some.injEq] at ha hb
    have : decide (0 < a) = decide (0 < b) := by
      cases h1 : valAt st b.natAbs == 1 <;> cases h3 : decide (0 < a) <;> cases h4 : decide (0 < b) <;> simp_all
    have h2 : (0 < a ↔ 0 < b) := by simpa using this
    omega

/-- values of a variable that is not touched -/
theorem litValue_congr {st st' : St} {l : Int} (h : valAt st' l.natAbs = valAt st l.natAbs) :
    litValue st' l = litValue st l := by
  rw [litValue_def, litValue_def, h]

/-! ### `assign` -/

theorem valAt_assign (st : St) (v : Nat) (b : Bool) (r : Int) (u : Nat) :
    valAt (assign st v b r) u = if v = u ∧ v < st.vals.size then (if b then 1 else 0) else valAt st u := by
  unfold valAt assign; simp only; rw [get!_set!]

theorem lvlAt_assign (st : St) (v : Nat) (b : Bool) (r : Int) (u : Nat) :
    lvlAt (assign st v b r) u = if v = u ∧ v < st.levels.size then st.trailLim.size else lvlAt st u := by
  unfold lvlAt assign; simp only; rw [get!_set!]

theorem valAt_lt_of_undef {F st k} (h : Inv F st k) {v : Nat} (hv : valAt st v = UNDEF) : v < st.nVars + 1 := by
  apply Classical.byContradiction
  intro hn
  unfold valAt at hv
  rw [get!_of_ge _ _ (by rw [h.vsize]; omega)] at hv
  cases hv

theorem Inv.trailGet {F st k} (h : Inv F st k) {i : Nat} (hi : i < st.trail.size) :
    st.trail[i]! ≤ st.nVars ∧ valAt st (st.trail[i]!) ≠ UNDEF :=
  (h.tmem _).1 ((mem_toList_iff_get! _ _).2 ⟨i, hi, rfl⟩)

theorem inv_assign {F st k} (h : Inv F st k) {v : Nat} (hv : valAt st v = UNDEF) (b : Bool) (r : Int) :
    Inv F (assign st v b r) k := by
  have hvlt := valAt_lt_of_undef h hv
  have hvs : v < st.vals.size := by rw [h.vsize]; exact hvlt
  have hls : v < st.levels.size := by rw [h.lsize]; exact hvlt
  have hnot : v ∉ st.trail.toList := fun hm => ((h.tmem v).1 hm).2 hv
  have hval : ∀ u, u ≠ v → valAt (assign st v b r) u = valAt st u := by
    intro u hu; rw [valAt_assign]; simp [Ne.symm hu]
  have hlvl : ∀ u, u ≠ v → lvlAt (assign st v b r) u = lvlAt st u := by
    intro u hu; rw [lvlAt_assign]; simp [Ne.symm hu]
  have htr : ∀ i, i < st.trail.size → (assign st v b r).trail[i]! = st.trail[i]! := by
    intro i hi; show (st.trail.push v)[i]! = _; rw [get!_push]; simp [Nat.ne_of_lt hi]
  have htrne : ∀ i, i < st.trail.size → st.trail[i]! ≠ v := by
    intro i hi heq; exact hnot (heq ▸ (mem_toList_iff_get! _ _).2 ⟨i, hi, rfl⟩)
  have hsz : (assign st v b r).trail.size = st.trail.size + 1 := by show (st.trail.push v).size = _; simp
  -- literals whose variable is assigned keep value and level
  have hkeepT : ∀ l, IsTrue st l → IsTrue (assign st v b r) l ∧ lvlAt (assign st v b r) l.natAbs = lvlAt st l.natAbs := by
    intro l hl
    have hne : l.natAbs ≠ v := fun he => hl.assigned (he ▸ hv)
    exact ⟨by unfold IsTrue; rw [litValue_congr (hval _ hne)]; exact hl, hlvl _ hne⟩
  have hsem : ∀ w o, Sem2 st k w o → Sem2 (assign st v b r) k w o := by
    intro w o hs hf hp
    obtain ⟨i, hik, hi, hti⟩ := hp
    have hi' : i < st.trail.size := by have := h.kLe; omega
    rw [htr i hi'] at hti
    have hne : w.natAbs ≠ v := by rw [← hti]; exact htrne i hi'
    have hf' : IsFalse st w := by unfold IsFalse; rw [← litValue_congr (hval _ hne)]; exact hf
    obtain ⟨ht, hl⟩ := hs hf' ⟨i, hik, hi', hti⟩
    obtain ⟨ht', hl'⟩ := hkeepT o ht
    exact ⟨ht', by rw [hl', hlvl _ hne]; exact hl⟩
  refine { nOrig := h.nOrig, csize := h.csize, perm := h.perm, fok := h.fok
           vsize := by show (st.vals.set! v _).size = _; rw [size_set!]; exact h.vsize
           vrange := ?_
           lsize := by show (st.levels.set! v _).size = _; rw [size_set!]; exact h.lsize
           wsize := h.wsize, bsize := h.bsize
           tnodup := ?_, tmem := ?_, limSorted := h.limSorted, limLe := h.limLe
           kLe := by rw [hsz]; have := h.kLe; omega
           tl := ?_, lvlLe := ?_
           wsound := h.wsound, wnodup := h.wnodup, wattach := h.wattach
           wsem := fun c hc h3 => ⟨hsem _ _ (h.wsem c hc h3).1, hsem _ _ (h.wsem c hc h3).2⟩
           battach := h.battach
           bsem := fun c hc h2 => ⟨hsem _ _ (h.bsem c hc h2).1, hsem _ _ (h.bsem c hc h2).2⟩ }
  · intro u; rw [valAt_assign]; split
    · cases b <;> simp
    · exact h.vrange u
  · show (st.trail.push v).toList.Nodup
    rw [Array.toList_push]
    exact List.nodup_append.2 ⟨h.tnodup, by simp, by intro a ha b' hb; simp at hb; subst hb; intro e; exact hnot (e ▸ ha)⟩
  · intro u
    show u ∈ (st.trail.push v).toList ↔ _
    rw [Array.toList_push, List.mem_append, valAt_assign]
    by_cases hu : u = v
    · subst hu
      simp only [List.mem_singleton, or_true, true_iff, true_and, hvs, if_true]
      exact ⟨Nat.le_of_lt_succ hvlt, by cases b <;> simp [UNDEF]⟩
    · have : ¬ (v = u ∧ v < st.vals.size) := fun hh => hu hh.1.symm
      simp only [List.mem_singleton, hu, or_false, this, if_false]
      exact h.tmem u
  · intro i j hi hj
    rw [hsz] at hi
    show st.trailLim[j]! ≤ i ↔ j < lvlAt (assign st v b r) ((assign st v b r).trail[i]!)
    by_cases hlt : i < st.trail.size
    · rw [htr i hlt, hlvl _ (htrne i hlt)]; exact h.tl i j hlt hj
    · have hie : i = st.trail.size := by omega
      have : (assign st v b r).trail[i]! = v := by show (st.trail.push v)[i]! = v; rw [get!_push]; simp [hie]
      rw [this, lvlAt_assign]; simp only [hls, and_self, if_true]
      have h1 := h.limLe j hj; have h2 := h.kLe
      constructor
      · intro _; exact hj
      · intro _; omega
  · intro i hi
    rw [hsz] at hi
    show lvlAt (assign st v b r) ((assign st v b r).trail[i]!) ≤ st.trailLim.size
    by_cases hlt : i < st.trail.size
    · rw [htr i hlt, hlvl _ (htrne i hlt)]; exact h.lvlLe i hlt
    · have hie : i = st.trail.size := by omega
      have : (assign st v b r).trail[i]! = v := by show (st.trail.push v)[i]! = v; rw [get!_push]; simp [hie]
      rw [this, lvlAt_assign]; simp [hls]

/-! ### watch lists -/

theorem litIdx_inj {a b : Int} (h : litIdx a = litIdx b) : a = b := by
  unfold litIdx at h
  by_cases ha : 0 < a <;> by_cases hb : 0 < b <;> simp only [ha, hb, if_true, if_false] at h <;> omega

theorem litIdx_lt {l : Int} {N : Nat} (h : l.natAbs ≤ N) : litIdx l < 2 * (N + 1) := by
  unfold litIdx; split <;> omega

theorem wl_addWatch (st : St) (l : Int) (idx : Nat) (l' : Int) :
    wl (addWatch st l idx) l' = if l' = l ∧ litIdx l < st.watch.size then wl st l' ++ [idx] else wl st l' := by
  unfold wl watchOf addWatch
  simp only
  rw [get!_modify]
  by_cases h : l' = l
  · subst h
    by_cases h2 : litIdx l' < st.watch.size
    · simp [h2]
    · simp [h2]
  · have : ¬ (litIdx l = litIdx l' ∧ litIdx l < st.watch.size) := fun hh => h (litIdx_inj hh.1).symm
    simp [h, this]

theorem wl_removeWatchAt (st : St) (l : Int) (i : Nat) (l' : Int) :
    wl (removeWatchAt st l i) l' =
      if l' = l ∧ litIdx l < st.watch.size then ((wl st l).set i (watchOf st l).back!).dropLast else wl st l' := by
  unfold wl watchOf removeWatchAt
  simp only
  rw [get!_modify]
  by_cases h : l' = l
  · subst h
    by_cases h2 : litIdx l' < st.watch.size
    · simp [h2, Array.set!_eq_setIfInBounds]
    · simp [h2]
  · have : ¬ (litIdx l = litIdx l' ∧ litIdx l < st.watch.size) := fun hh => h (litIdx_inj hh.1).symm
    simp [h, this]

/-- the list left after `watches[i] = watches[-1]; watches.pop()` is the old one without entry `i`, up
to order; entries before `i` keep their place -/
theorem removeAt_facts (w : Array Nat) (i : Nat) (hi : i < w.size) :
    (((w.toList).set i w.back!).dropLast).Perm (w.toList.eraseIdx i) ∧
    ∀ j, j < i → (((w.toList).set i w.back!).dropLast)[j]? = w.toList[j]? := by
  have hne : w.toList ≠ [] := by
    intro h; have := congrArg List.length h; simp only [Array.length_toList, List.length_nil] at this; omega
  have hlast : w.toList.getLast? = some w.back! := by
    rw [Array.back!_eq_back?, Array.back?_eq_getElem?, List.getLast?_eq_getElem?]
    simp only [Array.length_toList, Array.getElem?_toList]
    have : w.size - 1 < w.size := by omega
    simp [this]
  refine ⟨dropLast_set_getLast_perm _ i (by simpa using hi) _ hlast, ?_⟩
  intro j hj
  rw [List.getElem?_dropLast]
  have hlen : j < (w.toList.set i w.back!).length - 1 := by simp; omega
  simp only [hlen, if_true]
  rw [List.getElem?_set]
  simp [Nat.ne_of_gt hj]

end Solvor.Sat.Cdcl
