import Solvor.Sat.Model
/-! Sat: helper lemmas (core Lean only). -/
namespace Solvor.Sat

/-! ### literals and assignments -/

theorem litTrue_neg {σ : Asg} {l : Int} (h : l ≠ 0) : litTrue σ (-l) = !litTrue σ l := by
  unfold litTrue
  have : (-l).natAbs = l.natAbs := Int.natAbs_neg l
  rw [this]
  by_cases hp : 0 < l
  · simp [hp]; omega
  · simp [hp]; omega

/-- update the variable of `l` so that `l` becomes true -/
def setLit (σ : Asg) (l : Int) : Asg :=
  fun v => if v = l.natAbs then decide (0 < l) else σ v

theorem litTrue_setLit_self {σ : Asg} {l : Int} : litTrue (setLit σ l) l = true := by
  unfold litTrue setLit
  by_cases hp : 0 < l <;> simp [hp]

theorem litTrue_setLit_other {σ : Asg} {l m : Int} (h1 : m ≠ l) (h2 : m ≠ -l) :
    litTrue (setLit σ l) m = litTrue σ m := by
  unfold litTrue setLit
  have : m.natAbs ≠ l.natAbs := by omega
  simp [this]

theorem setLit_other {σ : Asg} {l : Int} {v : Nat} (h : v ≠ l.natAbs) : setLit σ l v = σ v := by
  simp [setLit, h]

theorem clauseTrue_iff {σ : Asg} {c : Clause} : clauseTrue σ c = true ↔ ∃ l ∈ c, litTrue σ l = true := by
  simp [clauseTrue, List.any_eq_true]

theorem cnfTrue_iff {σ : Asg} {f : Cnf} : cnfTrue σ f = true ↔ ∀ c ∈ f, ∃ l ∈ c, litTrue σ l = true := by
  simp [cnfTrue, clauseTrue, List.all_eq_true, List.any_eq_true]

theorem cnfTrue_withAssumptions {σ : Asg} {f : Cnf} {as : List Int} :
    cnfTrue σ (withAssumptions f as) = true ↔ Models σ f as := by
  rw [cnfTrue_iff]
  unfold withAssumptions Models
  constructor
  · intro h
    refine ⟨fun c hc => h c (List.mem_append_right _ hc), fun a ha => ?_⟩
    obtain ⟨l, hl, ht⟩ := h [a] (List.mem_append_left _ (List.mem_map.2 ⟨a, ha, rfl⟩))
    have : l = a := by simpa using hl
    exact this ▸ ht
  · rintro ⟨h1, h2⟩ c hc
    rcases List.mem_append.1 hc with hc | hc
    · obtain ⟨a, ha, rfl⟩ := List.mem_map.1 hc
      exact ⟨a, by simp, h2 a ha⟩
    · exact h1 c hc

theorem WF_withAssumptions {f : Cnf} {as : List Int} (hf : WF f) (ha : ∀ a ∈ as, a ≠ 0) :
    WF (withAssumptions f as) := by
  intro c hc l hl
  rcases List.mem_append.1 hc with hc | hc
  · obtain ⟨a, ha', rfl⟩ := List.mem_map.1 hc
    have : l = a := by simpa using hl
    exact this ▸ ha a ha'
  · exact hf c hc l hl

theorem wfB_iff {f : Cnf} : wfB f = true ↔ WF f := by
  simp [wfB, WF, List.all_eq_true]

/-! ### `assign` -/

theorem mem_assign {l : Int} {f : Cnf} {d : Clause} :
    d ∈ assign l f ↔ ∃ c ∈ f, l ∉ c ∧ d = c.filter (· != -l) := by
  unfold assign
  simp only [List.mem_map, List.mem_filter]
  constructor
  · rintro ⟨c, ⟨hc, hl⟩, rfl⟩; exact ⟨c, hc, by simpa using hl, rfl⟩
  · rintro ⟨c, hc, hl, rfl⟩; exact ⟨c, ⟨hc, by simpa using hl⟩, rfl⟩

/-- under an assignment making `l` true, `f` and `assign l f` agree -/
theorem cnfTrue_assign {σ : Asg} {l : Int} {f : Cnf} (hl0 : l ≠ 0)
    (hl : litTrue σ l = true) : cnfTrue σ (assign l f) = cnfTrue σ f := by
  have hneg : litTrue σ (-l) = false := by rw [litTrue_neg hl0, hl]; rfl
  apply Bool.eq_iff_iff.2
  simp only [cnfTrue, List.all_eq_true]
  constructor
  · intro h c hc
    by_cases hlc : l ∈ c
    · simp only [clauseTrue, List.any_eq_true]; exact ⟨l, hlc, hl⟩
    · have := h _ ((mem_assign).2 ⟨c, hc, hlc, rfl⟩)
      simp only [clauseTrue, List.any_eq_true, List.mem_filter] at this ⊢
      obtain ⟨m, ⟨hm, _⟩, hmt⟩ := this
      exact ⟨m, hm, hmt⟩
  · intro h d hd
    obtain ⟨c, hc, hlc, rfl⟩ := (mem_assign).1 hd
    have := h c hc
    simp only [clauseTrue, List.any_eq_true, List.mem_filter] at this ⊢
    obtain ⟨m, hm, hmt⟩ := this
    refine ⟨m, ⟨hm, ?_⟩, hmt⟩
    have : m ≠ -l := by rintro rfl; rw [hneg] at hmt; cases hmt
    simpa using this

/-- `assign l f` does not mention the variable of `l` -/
theorem assign_free {l : Int} {f : Cnf} : ∀ d ∈ assign l f, ∀ m ∈ d, m ≠ l ∧ m ≠ -l := by
  intro d hd m hm
  obtain ⟨c, _, hlc, rfl⟩ := (mem_assign).1 hd
  simp only [List.mem_filter] at hm
  refine ⟨?_, by simpa using hm.2⟩
  rintro rfl; exact hlc hm.1

theorem cnfTrue_setLit_assign {σ : Asg} {l : Int} {f : Cnf} :
    cnfTrue (setLit σ l) (assign l f) = cnfTrue σ (assign l f) := by
  have key : ∀ d ∈ assign l f, clauseTrue (setLit σ l) d = clauseTrue σ d := by
    intro d hd
    unfold clauseTrue
    apply Bool.eq_iff_iff.2
    simp only [List.any_eq_true]
    constructor
    · rintro ⟨m, hm, ht⟩
      have := assign_free d hd m hm
      exact ⟨m, hm, by rw [← litTrue_setLit_other this.1 this.2]; exact ht⟩
    · rintro ⟨m, hm, ht⟩
      have := assign_free d hd m hm
      exact ⟨m, hm, by rw [litTrue_setLit_other this.1 this.2]; exact ht⟩
  unfold cnfTrue
  apply Bool.eq_iff_iff.2
  simp only [List.all_eq_true]
  constructor
  · intro h d hd; rw [← key d hd]; exact h d hd
  · intro h d hd; rw [key d hd]; exact h d hd

theorem WF_assign {l : Int} {f : Cnf} (h : WF f) : WF (assign l f) := by
  intro d hd m hm
  obtain ⟨c, hc, _, rfl⟩ := (mem_assign).1 hd
  exact h c hc m (List.mem_filter.1 hm).1

/-! ### the fuel measure -/

theorem size_cons (c : Clause) (f : Cnf) : size (c :: f) = c.length + size f := by
  simp [size]

theorem size_filter_le (p : Clause → Bool) (f : Cnf) : size (f.filter p) ≤ size f := by
  induction f with
  | nil => simp
  | cons c f ih =>
    simp only [List.filter_cons]; split
    · simp only [size_cons]; omega
    · simp only [size_cons]; omega

theorem size_map_filter_le (q : Int → Bool) (f : Cnf) :
    size (f.map fun c => c.filter q) ≤ size f := by
  induction f with
  | nil => simp
  | cons c f ih =>
    simp only [List.map_cons, size_cons]
    have := List.length_filter_le q c; omega

/-- measure used as fuel: literals + clauses -/
def meas (f : Cnf) : Nat := size f + f.length

theorem assign_cons (l : Int) (c : Clause) (f : Cnf) :
    assign l (c :: f) = if c.contains l then assign l f else c.filter (· != -l) :: assign l f := by
  unfold assign
  rw [List.filter_cons]
  by_cases h : c.contains l = true
  · simp only [h, Bool.not_true, Bool.false_eq_true, if_false, if_true]
  · have h' : c.contains l = false := by simpa using h
    simp only [h', Bool.not_false, if_true, Bool.false_eq_true, if_false, List.map_cons]

theorem length_filter_ne_lt {l : Int} {c : Clause} (hl : l ∈ c) :
    (c.filter (· != l)).length < c.length := by
  induction c with
  | nil => cases hl
  | cons a c ih =>
    rw [List.filter_cons]
    by_cases h : a = l
    · subst h
      have := List.length_filter_le (· != a) c
      simp only [bne_self_eq_false, Bool.false_eq_true, if_false, List.length_cons]; omega
    · have hl' : l ∈ c := by
        rcases List.mem_cons.1 hl with h' | h'
        · exact absurd h'.symm h
        · exact h'
      have := ih hl'
      have hne : (a != l) = true := by simpa using h
      simp only [hne, if_true, List.length_cons]; omega

theorem meas_assign_le (l : Int) (f : Cnf) : meas (assign l f) ≤ meas f := by
  induction f with
  | nil => simp [assign, meas, size]
  | cons c f ih =>
    rw [assign_cons]
    have := List.length_filter_le (· != -l) c
    split <;> simp only [meas, size_cons, List.length_cons] at ih ⊢ <;> omega

/-- branching on a literal of a clause of `f`: that clause disappears -/
theorem meas_assign_pos {l : Int} {c : Clause} {f : Cnf} (hc : c ∈ f) (hl : l ∈ c) :
    meas (assign l f) < meas f := by
  induction f with
  | nil => cases hc
  | cons d f ih =>
    rw [assign_cons]
    rcases List.mem_cons.1 hc with rfl | hc
    · have : c.contains l = true := by simpa using hl
      simp only [this, if_true]
      have := meas_assign_le l f
      simp only [meas, size_cons, List.length_cons] at this ⊢; omega
    · have := ih hc
      have := List.length_filter_le (· != -l) d
      split <;> simp only [meas, size_cons, List.length_cons] at * <;> omega

/-- branching on the negation of a literal of a clause of `f`: that clause loses a literal (or
disappears) -/
theorem meas_assign_neg {l : Int} {c : Clause} {f : Cnf} (hc : c ∈ f) (hl : l ∈ c) :
    meas (assign (-l) f) < meas f := by
  induction f with
  | nil => cases hc
  | cons d f ih =>
    rw [assign_cons]
    rcases List.mem_cons.1 hc with rfl | hc
    · have hlt : (c.filter (· != - -l)).length < c.length := by
        rw [Int.neg_neg]; exact length_filter_ne_lt hl
      have := meas_assign_le (-l) f
      split <;> simp only [meas, size_cons, List.length_cons] at * <;> omega
    · have := ih hc
      have := List.length_filter_le (· != - -l) d
      split <;> simp only [meas, size_cons, List.length_cons] at * <;> omega

/-! ### `pick` -/

theorem pick_mem {f : Cnf} {c : Clause} (h : pick f = some c) : c ∈ f := by
  induction f generalizing c with
  | nil => simp [pick] at h
  | cons d f ih =>
    unfold pick at h
    split at h
    · cases h; exact List.mem_cons_self
    · rename_i e he
      split at h
      · cases h; exact List.mem_cons_self
      · cases h; exact List.mem_cons_of_mem _ (ih he)

theorem pick_none {f : Cnf} (h : pick f = none) : f = [] := by
  cases f with
  | nil => rfl
  | cons d f =>
    unfold pick at h
    split at h
    · cases h
    · split at h <;> cases h

/-! ### DPLL correctness -/

theorem dpll_correct : ∀ (fuel : Nat) (f : Cnf), WF f → meas f < fuel →
    (dpll fuel f = true ↔ ∃ σ, cnfTrue σ f = true) := by
  intro fuel
  induction fuel with
  | zero => intro f _ h; omega
  | succ fuel ih =>
    intro f hwf hm
    unfold dpll
    split
    · rename_i hp
      rw [pick_none hp]; simp [cnfTrue]
    · rename_i hp
      have hmem := pick_mem hp
      simp only [Bool.false_eq_true, false_iff]
      rintro ⟨σ, hσ⟩
      have := (cnfTrue_iff.1 hσ) [] hmem
      simp at this
    · rename_i l c hp
      have hmem := pick_mem hp
      have hl0 : l ≠ 0 := hwf (l :: c) hmem l List.mem_cons_self
      have hnl0 : -l ≠ 0 := by omega
      have m1 := meas_assign_pos hmem (List.mem_cons_self (a := l) (l := c))
      have m2 := meas_assign_neg hmem (List.mem_cons_self (a := l) (l := c))
      have i1 := ih (assign l f) (WF_assign hwf) (by omega)
      have i2 := ih (assign (-l) f) (WF_assign hwf) (by omega)
      simp only [Bool.or_eq_true, i1, i2]
      constructor
      · rintro (⟨σ, hσ⟩ | ⟨σ, hσ⟩)
        · refine ⟨setLit σ l, ?_⟩
          rw [← cnfTrue_assign hl0 litTrue_setLit_self, cnfTrue_setLit_assign]; exact hσ
        · refine ⟨setLit σ (-l), ?_⟩
          rw [← cnfTrue_assign hnl0 litTrue_setLit_self, cnfTrue_setLit_assign]; exact hσ
      · rintro ⟨σ, hσ⟩
        by_cases ht : litTrue σ l = true
        · left; exact ⟨σ, by rw [cnfTrue_assign hl0 ht]; exact hσ⟩
        · right
          have : litTrue σ (-l) = true := by
            rw [litTrue_neg hl0]; simpa using ht
          exact ⟨σ, by rw [cnfTrue_assign hnl0 this]; exact hσ⟩

theorem solve_correct (f : Cnf) (h : WF f) : solve f = true ↔ ∃ σ, cnfTrue σ f = true :=
  dpll_correct _ f h (by unfold meas; omega)

/-! ### entailment through DPLL -/

theorem cnfTrue_negUnits {σ : Asg} {f : Cnf} {c : Clause} (hc : ∀ l ∈ c, l ≠ 0) :
    cnfTrue σ (c.map (fun l => [-l]) ++ f) = true ↔ (∀ l ∈ c, litTrue σ l = false) ∧ cnfTrue σ f = true := by
  rw [cnfTrue_iff, cnfTrue_iff]
  constructor
  · intro h
    refine ⟨fun l hl => ?_, fun d hd => h d (List.mem_append_right _ hd)⟩
    obtain ⟨k, hk, hkt⟩ := h [-l] (List.mem_append_left _ (List.mem_map.2 ⟨l, hl, rfl⟩))
    have : k = -l := by simpa using hk
    subst this
    rw [litTrue_neg (hc l hl)] at hkt
    simpa using hkt
  · rintro ⟨h1, h2⟩ d hd
    rcases List.mem_append.1 hd with hd | hd
    · obtain ⟨l, hl, rfl⟩ := List.mem_map.1 hd
      refine ⟨-l, by simp, ?_⟩
      rw [litTrue_neg (hc l hl), h1 l hl]; rfl
    · exact h2 d hd

theorem entailsB_correct {f : Cnf} {c : Clause} (hf : WF f) (hc : ∀ l ∈ c, l ≠ 0) :
    entailsB f c = true ↔ Entails f c := by
  have hwf : WF (c.map (fun l => [-l]) ++ f) := by
    intro d hd l hl
    rcases List.mem_append.1 hd with hd | hd
    · obtain ⟨k, hk, rfl⟩ := List.mem_map.1 hd
      have : l = -k := by simpa using hl
      have := hc k hk
      omega
    · exact hf d hd l hl
  unfold entailsB Entails
  rw [Bool.not_eq_true', ← Bool.not_eq_true, solve_correct _ hwf]
  constructor
  · intro h σ hσ
    apply Classical.byContradiction
    intro hn
    apply h
    refine ⟨σ, (cnfTrue_negUnits hc).2 ⟨fun l hl => ?_, hσ⟩⟩
    cases hb : litTrue σ l with
    | false => rfl
    | true => exact absurd (clauseTrue_iff.2 ⟨l, hl, hb⟩) hn
  · rintro h ⟨σ, hσ⟩
    obtain ⟨h1, h2⟩ := (cnfTrue_negUnits hc).1 hσ
    obtain ⟨l, hl, hlt⟩ := clauseTrue_iff.1 (h σ h2)
    rw [h1 l hl] at hlt; cases hlt

/-! ### checkers -/

theorem lookup_none_of_not_mem {m : AList} {v : Nat} (h : v ∉ m.map Prod.fst) : m.lookup v = none := by
  induction m with
  | nil => rfl
  | cons p m ih =>
    obtain ⟨k, b⟩ := p
    simp only [List.map_cons, List.mem_cons, not_or] at h
    have hk : (v == k) = false := by simpa using h.1
    simp only [List.lookup, hk]
    exact ih h.2

theorem lookup_mem {m : AList} {v : Nat} {b : Bool} (h : m.lookup v = some b) : (v, b) ∈ m := by
  induction m with
  | nil => simp [List.lookup] at h
  | cons p m ih =>
    obtain ⟨k, c⟩ := p
    by_cases hk : v = k
    · subst hk
      simp only [List.lookup, beq_self_eq_true] at h
      cases h; exact List.mem_cons_self
    · have hk' : (v == k) = false := by simpa using hk
      simp only [List.lookup, hk'] at h
      exact List.mem_cons_of_mem _ (ih h)

theorem litHolds_iff {m : AList} {l : Int} : litHolds m l = true ↔ m.lookup l.natAbs = some (decide (0 < l)) := by
  simp [litHolds]

theorem litTrue_asgOf_of_holds {m : AList} {l : Int} (h : litHolds m l = true) : litTrue (asgOf m) l = true := by
  rw [litHolds_iff] at h
  unfold litTrue asgOf
  rw [h]
  by_cases hp : 0 < l <;> simp [hp]

theorem holds_of_litTrue_asgOf {m : AList} {l : Int} (ht : (m.lookup l.natAbs).isSome = true)
    (h : litTrue (asgOf m) l = true) : litHolds m l = true := by
  rw [litHolds_iff]
  obtain ⟨b, hb⟩ := Option.isSome_iff_exists.1 ht
  unfold litTrue asgOf at h
  rw [hb] at h ⊢
  by_cases hp : 0 < l <;> simp [hp] at h ⊢ <;> exact h

theorem differ_iff {a b : AList} : differ a b = true ↔ ∃ v, a.lookup v ≠ b.lookup v := by
  unfold differ
  simp only [List.any_eq_true, bne_iff_ne]
  constructor
  · rintro ⟨v, _, h⟩; exact ⟨v, h⟩
  · rintro ⟨v, h⟩
    refine ⟨v, ?_, h⟩
    apply Classical.byContradiction
    intro hn
    simp only [List.mem_append, not_or] at hn
    exact h (by rw [lookup_none_of_not_mem hn.1, lookup_none_of_not_mem hn.2])

theorem pairwiseDistinct_iff' (ms : List AList) :
    pairwiseDistinct ms = true ↔ ms.Pairwise (fun a b => ∃ v, a.lookup v ≠ b.lookup v) := by
  induction ms with
  | nil => simp [pairwiseDistinct]
  | cons a ms ih =>
    simp only [pairwiseDistinct, Bool.and_eq_true, List.all_eq_true, differ_iff, ih, List.pairwise_cons]

theorem nodupNat_iff (xs : List Nat) : nodupNat xs = true ↔ xs.Pairwise (· ≠ ·) := by
  induction xs with
  | nil => simp [nodupNat]
  | cons a r ih =>
    simp only [nodupNat, Bool.and_eq_true, List.all_eq_true, bne_iff_ne, ih, List.pairwise_cons]
    constructor
    · rintro ⟨h1, h2⟩; exact ⟨fun b hb => (h1 b hb).symm, h2⟩
    · rintro ⟨h1, h2⟩; exact ⟨fun b hb => (h1 b hb).symm, h2⟩

theorem fastDistinct_sound {vs : List Nat} {ms : List AList} (h : fastDistinct vs ms = true) :
    ms.Pairwise (fun a b => ∃ v, a.lookup v ≠ b.lookup v) := by
  unfold fastDistinct at h
  rw [nodupNat_iff, List.pairwise_map] at h
  refine h.imp ?_
  intro a b hne
  apply Classical.byContradiction
  intro hall
  apply hne
  have : (fun v => a.lookup v) = (fun v => b.lookup v) := by
    funext v
    apply Classical.byContradiction
    intro hv; exact hall ⟨v, hv⟩
  rw [this]

/-! ### enumerator -/

theorem litTrue_natCast {σ : Asg} {v : Nat} (hv : v ≠ 0) : litTrue σ (v : Int) = σ v := by
  unfold litTrue
  have : (0 : Int) < v := by omega
  rw [if_pos this]; simp

theorem litTrue_neg_natCast {σ : Asg} {v : Nat} (hv : v ≠ 0) : litTrue σ (-(v : Int)) = !σ v := by
  rw [litTrue_neg (by omega), litTrue_natCast hv]

theorem enum_keys : ∀ (vs : List Nat) (f : Cnf), ∀ m ∈ enumModels vs f, m.map Prod.fst = vs := by
  intro vs
  induction vs with
  | nil =>
    intro f m hm
    unfold enumModels at hm
    split at hm
    · simp at hm; subst hm; rfl
    · cases hm
  | cons v vs ih =>
    intro f m hm
    unfold enumModels at hm
    split at hm
    · rcases List.mem_append.1 hm with h | h
      · obtain ⟨m', hm', rfl⟩ := List.mem_map.1 h
        simp [ih _ _ hm']
      · obtain ⟨m', hm', rfl⟩ := List.mem_map.1 h
        simp [ih _ _ hm']
    · cases hm

theorem enum_sound : ∀ (vs : List Nat) (f : Cnf), vs.Nodup → (∀ v ∈ vs, v ≠ 0) → WF f →
    ∀ m ∈ enumModels vs f, ∃ σ, cnfTrue σ f = true ∧ ∀ p ∈ m, σ p.1 = p.2 := by
  intro vs
  induction vs with
  | nil =>
    intro f _ _ hf m hm
    unfold enumModels at hm
    split at hm
    · rename_i hs
      obtain ⟨σ, hσ⟩ := (solve_correct f hf).1 hs
      simp at hm; subst hm
      exact ⟨σ, hσ, by simp⟩
    · cases hm
  | cons v vs ih =>
    intro f hnd h0 hf m hm
    have hv0 : v ≠ 0 := h0 v List.mem_cons_self
    have hnd' := (List.nodup_cons.1 hnd)
    have h0' : ∀ w ∈ vs, w ≠ 0 := fun w hw => h0 w (List.mem_cons_of_mem _ hw)
    unfold enumModels at hm
    split at hm
    · have key : ∀ (l : Int) (b : Bool), l.natAbs = v → l ≠ 0 → b = decide (0 < l) →
          ∀ m' ∈ enumModels vs (assign l f), ∃ σ, cnfTrue σ f = true ∧ ∀ p ∈ (v, b) :: m', σ p.1 = p.2 := by
        intro l b hlv hl0 hb m' hm'
        obtain ⟨σ, hσ, hag⟩ := ih (assign l f) hnd'.2 h0' (WF_assign hf) m' hm'
        refine ⟨setLit σ l, ?_, ?_⟩
        · rw [← cnfTrue_assign hl0 litTrue_setLit_self, cnfTrue_setLit_assign]; exact hσ
        · intro p hp
          rcases List.mem_cons.1 hp with rfl | hp
          · simp [setLit, hlv, hb]
          · have hk : p.1 ∈ vs := by
              rw [← enum_keys vs _ m' hm']; exact List.mem_map.2 ⟨p, hp, rfl⟩
            have : p.1 ≠ l.natAbs := by rw [hlv]; rintro h; exact hnd'.1 (h ▸ hk)
            rw [setLit_other this]; exact hag p hp
      rcases List.mem_append.1 hm with h | h
      · obtain ⟨m', hm', rfl⟩ := List.mem_map.1 h
        exact key (v : Int) true (by simp) (by omega) (by simp; omega) m' hm'
      · obtain ⟨m', hm', rfl⟩ := List.mem_map.1 h
        exact key (-(v : Int)) false (by simp) (by omega) (by simp) m' hm'
    · cases hm

theorem enum_complete : ∀ (vs : List Nat) (f : Cnf), (∀ v ∈ vs, v ≠ 0) → WF f →
    ∀ σ, cnfTrue σ f = true → vs.map (fun v => (v, σ v)) ∈ enumModels vs f := by
  intro vs
  induction vs with
  | nil =>
    intro f _ hf σ hσ
    have : solve f = true := (solve_correct f hf).2 ⟨σ, hσ⟩
    simp [enumModels, this]
  | cons v vs ih =>
    intro f h0 hf σ hσ
    have hv0 : v ≠ 0 := h0 v List.mem_cons_self
    have h0' : ∀ w ∈ vs, w ≠ 0 := fun w hw => h0 w (List.mem_cons_of_mem _ hw)
    have hs : solve f = true := (solve_correct f hf).2 ⟨σ, hσ⟩
    unfold enumModels
    simp only [hs, if_true, List.map_cons]
    apply List.mem_append.2
    cases hb : σ v with
    | true =>
      left
      have ht : litTrue σ (v : Int) = true := by rw [litTrue_natCast hv0]; exact hb
      have := ih (assign (v : Int) f) h0' (WF_assign hf) σ (by rw [cnfTrue_assign (by omega) ht]; exact hσ)
      exact List.mem_map.2 ⟨_, this, rfl⟩
    | false =>
      right
      have ht : litTrue σ (-(v : Int)) = true := by rw [litTrue_neg_natCast hv0, hb]; rfl
      have := ih (assign (-(v : Int)) f) h0' (WF_assign hf) σ (by rw [cnfTrue_assign (by omega) ht]; exact hσ)
      exact List.mem_map.2 ⟨_, this, rfl⟩

theorem enum_nodup : ∀ (vs : List Nat) (f : Cnf), (enumModels vs f).Nodup := by
  intro vs
  induction vs with
  | nil => intro f; unfold enumModels; split <;> simp
  | cons v vs ih =>
    intro f
    unfold enumModels
    split
    · apply List.nodup_append.2
      refine ⟨?_, ?_, ?_⟩
      · exact List.Pairwise.map _ (fun a b h => by simpa using h) (ih _)
      · exact List.Pairwise.map _ (fun a b h => by simpa using h) (ih _)
      · intro a ha b hb
        obtain ⟨a', _, rfl⟩ := List.mem_map.1 ha
        obtain ⟨b', _, rfl⟩ := List.mem_map.1 hb
        simp
    · simp

/-! ### blocking clauses, resolution -/

theorem resolve_true {σ : Asg} {c d : Clause} {p : Int} (hp : p ≠ 0)
    (hc : clauseTrue σ c = true) (hd : clauseTrue σ d = true) : clauseTrue σ (resolve c d p) = true := by
  rw [clauseTrue_iff] at hc hd ⊢
  obtain ⟨l, hl, hlt⟩ := hc
  obtain ⟨k, hk, hkt⟩ := hd
  unfold resolve
  by_cases h : litTrue σ p = true
  · -- `-p` is false, so the true literal of `d` survives
    have hneg : litTrue σ (-p) = false := by rw [litTrue_neg hp, h]; rfl
    refine ⟨k, List.mem_append_right _ (List.mem_filter.2 ⟨hk, ?_⟩), hkt⟩
    have : k ≠ -p := by rintro rfl; rw [hneg] at hkt; cases hkt
    simpa using this
  · refine ⟨l, List.mem_append_left _ (List.mem_filter.2 ⟨hl, ?_⟩), hlt⟩
    have : l ≠ p := by rintro rfl; exact h hlt
    simpa using this

theorem entails_chain {f : Cnf} : ∀ (steps : List (Clause × Int)) (c0 : Clause), Entails f c0 →
    (∀ s ∈ steps, Entails f s.1 ∧ s.2 ≠ 0) → Entails f (chain c0 steps) := by
  intro steps
  induction steps with
  | nil => intro c0 h _; exact h
  | cons s steps ih =>
    intro c0 h0 hs
    unfold chain
    simp only [List.foldl_cons]
    apply ih
    · intro σ hσ
      exact resolve_true (hs s List.mem_cons_self).2 ((hs s List.mem_cons_self).1 σ hσ) (h0 σ hσ)
    · intro t ht; exact hs t (List.mem_cons_of_mem _ ht)

end Solvor.Sat
