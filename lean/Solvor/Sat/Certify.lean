import Solvor.Sat.Lemmas
/-! Sat.Certify: soundness of the unit-propagation refutation checker `upRefutes` and of the
pure-literal rule – the two ingredients of the certificate the CDCL mirror checks before it answers
INFEASIBLE. -/
namespace Solvor.Sat

/-- the partial assignment `a` only fixes values that `σ` has -/
def Agree (σ : Asg) (a : Array Nat) : Prop :=
  ∀ v x, a[v]? = some x → (x = 1 → σ v = true) ∧ (x = 0 → σ v = false)

theorem litValA_agree {σ : Asg} {a : Array Nat} (h : Agree σ a) {l : Int} {b : Bool} (hb : litValA a l = some b) :
    litTrue σ l = b := by
  unfold litValA at hb
  unfold litTrue
  split at hb
  · rename_i hx
    cases hb
    have := (h _ _ hx).1 rfl
    by_cases hp : 0 < l <;> simp [hp, this]
  · rename_i hx
    cases hb
    have := (h _ _ hx).2 rfl
    by_cases hp : 0 < l <;> simp [hp, this]
  · cases hb

theorem upPass_sound {σ : Asg} : ∀ (cs : List Clause) (a : Array Nat) (ch : Bool),
    (∀ c ∈ cs, clauseTrue σ c = true) → Agree σ a →
    (upPass cs a ch ≠ none) ∧ ∀ a' ch', upPass cs a ch = some (a', ch') → Agree σ a' := by
  intro cs
  induction cs with
  | nil => intro a ch _ ha; exact ⟨by simp [upPass], fun a' ch' h => by simp only [upPass, Option.some.injEq, Prod.mk.injEq] at h; exact h.1 ▸ ha⟩
  | cons c cs ih =>
    intro a ch hc ha
    have hcs : ∀ d ∈ cs, clauseTrue σ d = true := fun d hd => hc d (List.mem_cons_of_mem _ hd)
    obtain ⟨l', hl', ht'⟩ := clauseTrue_iff.1 (hc c List.mem_cons_self)
    unfold upPass
    split
    · exact ih a ch hcs ha
    · rename_i hany
      -- the literal of `c` true under `σ` is unassigned in `a`
      have hnone : litValA a l' = none := by
        cases hv : litValA a l' with
        | none => rfl
        | some b =>
          exfalso
          have := litValA_agree ha hv
          rw [ht'] at this
          subst this
          apply hany
          exact List.any_eq_true.2 ⟨l', hl', by simp [hv]⟩
      have hmem : l' ∈ c.filter (fun l => litValA a l == none) := List.mem_filter.2 ⟨hl', by simp [hnone]⟩
      split
      · rename_i hf; rw [hf] at hmem; cases hmem
      · rename_i l hf
        rw [hf] at hmem
        have hll : l' = l := by simpa using hmem
        subst hll
        apply ih _ true hcs
        intro v x hx
        rw [Array.getElem?_setIfInBounds] at hx
        split at hx
        · rename_i hv
          split at hx
          · cases hx
            subst hv
            unfold litTrue at ht'
            by_cases hp : 0 < l'
            · simp only [hp, if_true] at ht' ⊢
              exact ⟨fun _ => ht', fun h => (by cases h)⟩
            · simp only [hp, if_false] at ht' ⊢
              exact ⟨fun h => (by cases h), fun _ => (by simpa using ht')⟩
          · cases hx
        · exact ha v x hx
      · exact ih a ch hcs ha

theorem upLoop_sound {σ : Asg} : ∀ (fuel : Nat) (cs : List Clause) (a : Array Nat),
    (∀ c ∈ cs, clauseTrue σ c = true) → Agree σ a → upLoop fuel cs a = false := by
  intro fuel
  induction fuel with
  | zero => intro cs a _ _; rfl
  | succ fuel ih =>
    intro cs a hc ha
    unfold upLoop
    obtain ⟨h1, h2⟩ := upPass_sound cs a false hc ha
    split
    · rename_i hn; exact absurd hn h1
    · rename_i a' ch' hs
      split
      · exact ih cs a' hc (h2 a' ch' hs)
      · rfl

/-- T-spec (C02): if the checker reports a refutation, the clause set has no model. -/
theorem upRefutes_unsat (n : Nat) (cs : List Clause) (h : upRefutes n cs = true) : ¬ ∃ σ, cnfTrue σ cs = true := by
  rintro ⟨σ, hσ⟩
  have hc : ∀ c ∈ cs, clauseTrue σ c = true := by
    intro c hc; exact clauseTrue_iff.2 ((cnfTrue_iff.1 hσ) c hc)
  have ha : Agree σ (Array.replicate (n + 1) 2) := by
    intro v x hx
    rw [Array.getElem?_replicate] at hx
    split at hx
    · cases hx; exact ⟨fun h => (by cases h), fun h => (by cases h)⟩
    · cases hx
  have := upLoop_sound (n + 2) cs _ hc ha
  unfold upRefutes at h
  rw [this] at h; cases h

/-! ### the pure-literal rule -/

/-- make every literal of `ps` true -/
def forcePure (σ : Asg) (ps : List Int) : Asg :=
  fun v => if (v : Int) ∈ ps then true else if -(v : Int) ∈ ps then false else σ v

theorem occursB_iff {f : Cnf} {as : List Int} {l : Int} : occursB f as l = true ↔ (∃ c ∈ f, l ∈ c) ∨ l ∈ as := by
  unfold occursB; simp [List.any_eq_true]

theorem mem_pureUnits {f : Cnf} {as : List Int} {n : Nat} {p : Int} (h : p ∈ pureUnits f as n) :
    p ≠ 0 ∧ occursB f as p = true ∧ occursB f as (-p) = false := by
  unfold pureUnits at h
  simp only [List.mem_flatMap, List.mem_range'_1, List.mem_append] at h
  obtain ⟨v, ⟨hv1, _⟩, hp | hp⟩ := h
  · split at hp
    · rename_i hc
      simp at hp; subst hp
      simp only [Bool.and_eq_true, Bool.not_eq_eq_eq_not, Bool.not_true] at hc
      exact ⟨by omega, hc.1, hc.2⟩
    · cases hp
  · split at hp
    · rename_i hc
      simp at hp; subst hp
      simp only [Bool.and_eq_true, Bool.not_eq_eq_eq_not, Bool.not_true] at hc
      exact ⟨by omega, hc.1, by rw [Int.neg_neg]; exact hc.2⟩
    · cases hp

theorem litTrue_forcePure_of_occurs {σ : Asg} {f : Cnf} {as : List Int} {n : Nat} {l : Int}
    (hocc : occursB f as l = true) (ht : litTrue σ l = true) : litTrue (forcePure σ (pureUnits f as n)) l = true := by
  unfold litTrue forcePure
  by_cases hp : 0 < l
  · have hl : (l.natAbs : Int) = l := by omega
    simp only [hp, if_true, hl]
    split
    · rfl
    · split
      · rename_i hneg
        have := (mem_pureUnits hneg).2.2
        rw [Int.neg_neg, hocc] at this; cases this
      · unfold litTrue at ht; simpa [hp] using ht
  · by_cases h0 : l = 0
    · subst h0
      have h1 : ((0 : Int).natAbs : Int) = 0 := rfl
      simp only [Int.lt_irrefl, if_false, h1, Int.neg_zero]
      have : (0 : Int) ∉ pureUnits f as n := fun hm => (mem_pureUnits hm).1 rfl
      simp only [this, if_false]
      unfold litTrue at ht; simpa using ht
    · have hl : (l.natAbs : Int) = -l := by omega
      simp only [hp, if_false, hl, Int.neg_neg]
      split
      · rename_i hpos
        have := (mem_pureUnits hpos).2.2
        rw [Int.neg_neg, hocc] at this; cases this
      · split
        · rfl
        · unfold litTrue at ht; simpa [hp] using ht

theorem litTrue_forcePure_self {σ : Asg} {f : Cnf} {as : List Int} {n : Nat} {p : Int} (hp : p ∈ pureUnits f as n) :
    litTrue (forcePure σ (pureUnits f as n)) p = true := by
  obtain ⟨h0, hocc, hnocc⟩ := mem_pureUnits hp
  unfold litTrue forcePure
  by_cases hpos : 0 < p
  · have hl : (p.natAbs : Int) = p := by omega
    simp [hpos, hl, hp]
  · have hl : (p.natAbs : Int) = -p := by omega
    have hnot : -p ∉ pureUnits f as n := by
      intro hm
      have := (mem_pureUnits hm).2.1
      rw [hnocc] at this; cases this
    simp [hpos, hl, hp, hnot]

/-- forcing the pure literals keeps a model of clauses + assumptions a model -/
theorem models_forcePure {σ : Asg} {f : Cnf} {as : List Int} (n : Nat) (h : Models σ f as) :
    Models (forcePure σ (pureUnits f as n)) f as := by
  refine ⟨fun c hc => ?_, fun a ha => ?_⟩
  · obtain ⟨l, hl, ht⟩ := h.1 c hc
    exact ⟨l, hl, litTrue_forcePure_of_occurs (occursB_iff.2 (Or.inl ⟨c, hc, hl⟩)) ht⟩
  · exact litTrue_forcePure_of_occurs (occursB_iff.2 (Or.inr ha)) (h.2 a ha)

/-- the certificate checked by the CDCL mirror before it answers INFEASIBLE: unit propagation refutes
clauses + assumption units + (optionally) pure-literal units + clauses entailed by the formula -/
theorem certify_sound (f : Cnf) (as : List Int) (n : Nat) (usePure : Bool) (ever : List Clause)
    (hever : ∀ C ∈ ever, Entails f C)
    (h : upRefutes n (f ++ as.map (fun a => [a]) ++
        (if usePure then (pureUnits f as n).map (fun p => [p]) else []) ++ ever) = true) :
    ¬ ∃ σ, Models σ f as := by
  rintro ⟨σ, hσ⟩
  apply upRefutes_unsat _ _ h
  -- the witness: `σ` itself, or `σ` with the pure literals forced
  have key : ∀ τ : Asg, Models τ f as → (usePure = true → ∀ p ∈ pureUnits f as n, litTrue τ p = true) →
      cnfTrue τ (f ++ as.map (fun a => [a]) ++
        (if usePure then (pureUnits f as n).map (fun p => [p]) else []) ++ ever) = true := by
    intro τ hτ hp
    have hf : cnfTrue τ f = true := cnfTrue_iff.2 hτ.1
    rw [cnfTrue_iff]
    intro c hc
    rcases List.mem_append.1 hc with hc | hc
    · rcases List.mem_append.1 hc with hc | hc
      · rcases List.mem_append.1 hc with hc | hc
        · exact hτ.1 c hc
        · obtain ⟨a, ha, rfl⟩ := List.mem_map.1 hc
          exact ⟨a, by simp, hτ.2 a ha⟩
      · split at hc
        · rename_i hu
          obtain ⟨p, hp', rfl⟩ := List.mem_map.1 hc
          exact ⟨p, by simp, hp hu p hp'⟩
        · cases hc
    · exact clauseTrue_iff.1 (hever c hc τ hf)
  by_cases hu : usePure = true
  · exact ⟨_, key _ (models_forcePure n hσ) (fun _ p hp => litTrue_forcePure_self hp)⟩
  · exact ⟨σ, key σ hσ (fun h => absurd h hu)⟩

end Solvor.Sat
