import Solvor.Sat.Model
/-! Sat: facts about the regenerated `luby()` loop (`Solvor.Gen.lubyLoop`, rewritten from
`solvor/sat.py` on every run).  They hold for the loop as repaired by
`proposed_fixes/C02_luby_loop.diff`; on the unrepaired source (`if i >= (1 << (k - 1))`)
`luby(2)` does not terminate, `lubyLoop n 2 1 = 0` for every `n`, and this file does not build. -/
namespace Solvor.Sat
open Solvor.Gen

theorem two_pow_ge (k : Nat) (h : 2 ≤ k) : k + 2 ≤ 2 ^ k := by
  induction k with
  | zero => omega
  | succ k ih =>
    rcases Nat.lt_or_ge k 2 with h' | h'
    · have : k = 1 := by omega
      subst this; decide
    · have := ih h'; rw [Nat.pow_succ]; omega

theorem pow_pred (k : Nat) (h : 1 ≤ k) : 2 ^ k = 2 * 2 ^ (k - 1) := by
  cases k with
  | zero => omega
  | succ k => simp [Nat.pow_succ, Nat.mul_comm]

/-- main invariant: from a state `(i,k)` with `2^(k-1) ≤ i`, fuel `2*i+2-k` suffices and the
result is a power of two, independent of extra fuel -/
theorem lubyLoop_spec : ∀ (fuel i k : Nat), 1 ≤ k → 2 ^ (k - 1) ≤ i → 2 * i + 2 ≤ fuel + k →
    (∃ j, lubyLoop fuel i k = 2 ^ j) ∧ ∀ extra, lubyLoop (fuel + extra) i k = lubyLoop fuel i k := by
  intro fuel
  induction fuel with
  | zero =>
    intro i k hk hi hf
    have : k < 2 ^ k := Nat.lt_two_pow_self
    have := pow_pred k hk
    omega
  | succ fuel ih =>
    intro i k hk hi hf
    have hp := pow_pred k hk
    have hpos : 0 < 2 ^ (k - 1) := Nat.two_pow_pos _
    have e1 : (1 <<< k) = 2 ^ k := Nat.one_shiftLeft k
    have e2 : (1 <<< (k - 1)) = 2 ^ (k - 1) := Nat.one_shiftLeft _
    by_cases h1 : i = 2 ^ k - 1
    · refine ⟨⟨k - 1, ?_⟩, fun extra => ?_⟩
      · unfold lubyLoop; simp [e1, e2, h1]
      · rw [show fuel + 1 + extra = (fuel + extra) + 1 by omega]
        unfold lubyLoop; simp [e1, e2, h1]
    · by_cases h2 : i < 2 ^ k - 1
      · have hk2 : 2 ≤ k := by
          rcases Nat.lt_or_ge k 2 with h' | h'
          · have : k = 1 := by omega
            subst this; simp at h2 hi; omega
          · exact h'
        have hge := two_pow_ge k hk2
        have := ih (i - (2 ^ (k - 1) - 1)) 1 (by omega) (by simp; omega) (by omega)
        refine ⟨?_, fun extra => ?_⟩
        · unfold lubyLoop; simp only [e1, e2, h1, h2, if_false, if_true]; exact this.1
        · rw [show fuel + 1 + extra = (fuel + extra) + 1 by omega]
          unfold lubyLoop; simp only [e1, e2, h1, h2, if_false, if_true]; exact this.2 extra
      · have := ih i (k + 1) (by omega) (by simp; omega) (by omega)
        refine ⟨?_, fun extra => ?_⟩
        · unfold lubyLoop; simp only [e1, e2, h1, h2, if_false]; exact this.1
        · rw [show fuel + 1 + extra = (fuel + extra) + 1 by omega]
          unfold lubyLoop; simp only [e1, e2, h1, h2, if_false]; exact this.2 extra

theorem lubyLoop_succ (fuel i k : Nat) : lubyLoop (fuel + 1) i k =
    if i = ((1 <<< k) - 1) then (1 <<< (k - 1)) else if i < ((1 <<< k) - 1) then lubyLoop fuel (i - ((1 <<< (k - 1)) - 1)) 1 else lubyLoop fuel i (k + 1) := by
  rw [lubyLoop]

theorem lubyLoop_climb : ∀ (d k0 fuel i : Nat), (∀ k', k0 ≤ k' → k' < k0 + d → 2 ^ k' - 1 < i) →
    lubyLoop (fuel + d) i k0 = lubyLoop fuel i (k0 + d) := by
  intro d
  induction d with
  | zero => intro k0 fuel i _; rfl
  | succ d ih =>
    intro k0 fuel i h
    have h0 := h k0 (Nat.le_refl _) (by omega)
    have e1 : (1 <<< k0) = 2 ^ k0 := Nat.one_shiftLeft k0
    rw [show fuel + (d + 1) = (fuel + d) + 1 by omega, lubyLoop_succ]
    have h1 : ¬ i = 2 ^ k0 - 1 := by omega
    have h2 : ¬ i < 2 ^ k0 - 1 := by omega
    simp only [e1, h1, h2, if_false]
    rw [ih (k0 + 1) fuel i (fun k' a b => h k' (by omega) (by omega))]
    congr 1; omega

theorem pow_mono_lt {a b : Nat} (h : a < b) : 2 ^ a < 2 ^ b := Nat.pow_lt_pow_right (by omega) h

theorem luby_at_pow (k : Nat) (hk : 1 ≤ k) : luby (2 ^ k - 1) = 2 ^ (k - 1) := by
  have hlt : k < 2 ^ k := Nat.lt_two_pow_self
  have hp := pow_pred k hk
  unfold luby lubyK0
  have hc := lubyLoop_climb (k - 1) 1 (2 * (2 ^ k - 1) + 2 - (k - 1)) (2 ^ k - 1) (by
    intro k' a b
    have : 2 ^ k' < 2 ^ k := pow_mono_lt (by omega)
    have : 0 < 2 ^ k' := Nat.two_pow_pos _
    omega)
  rw [show 2 * (2 ^ k - 1) + 2 - (k - 1) + (k - 1) = 2 * (2 ^ k - 1) + 2 by omega,
    show 1 + (k - 1) = k by omega] at hc
  rw [hc]
  obtain ⟨n, hn⟩ : ∃ n, 2 * (2 ^ k - 1) + 2 - (k - 1) = n + 1 := ⟨2 * (2 ^ k - 1) + 2 - (k - 1) - 1, by omega⟩
  rw [hn, lubyLoop_succ]
  simp [Nat.one_shiftLeft]

theorem luby_rec (i k : Nat) (hk : 1 ≤ k) (h1 : 2 ^ (k - 1) ≤ i) (h2 : i < 2 ^ k - 1) :
    luby i = luby (i - (2 ^ (k - 1) - 1)) := by
  have hp := pow_pred k hk
  have hpos : 0 < 2 ^ (k - 1) := Nat.two_pow_pos _
  have hk2 : 2 ≤ k := by
    rcases Nat.lt_or_ge k 2 with h' | h'
    · have : k = 1 := by omega
      subst this; simp at h1 h2; omega
    · exact h'
  have hge := two_pow_ge k hk2
  have hlt : k < 2 ^ k := Nat.lt_two_pow_self
  unfold luby lubyK0
  have hc := lubyLoop_climb (k - 1) 1 (2 * i + 2 - (k - 1)) i (by
    intro k' a b
    have : 2 ^ k' ≤ 2 ^ (k - 1) := Nat.pow_le_pow_right (by omega) (by omega)
    omega)
  rw [show 2 * i + 2 - (k - 1) + (k - 1) = 2 * i + 2 by omega, show 1 + (k - 1) = k by omega] at hc
  rw [hc]
  obtain ⟨n, hn⟩ : ∃ n, 2 * i + 2 - (k - 1) = n + 1 := ⟨2 * i + 2 - (k - 1) - 1, by omega⟩
  generalize hR : lubyLoop (2 * (i - (2 ^ (k - 1) - 1)) + 2) (i - (2 ^ (k - 1) - 1)) 1 = R
  rw [hn, lubyLoop_succ]
  have e1 : (1 <<< k) = 2 ^ k := Nat.one_shiftLeft k
  have e2 : (1 <<< (k - 1)) = 2 ^ (k - 1) := Nat.one_shiftLeft _
  have n1 : ¬ i = 2 ^ k - 1 := by omega
  simp only [e1, e2, n1, h2, if_false, if_true]
  have := (lubyLoop_spec (2 * (i - (2 ^ (k - 1) - 1)) + 2) (i - (2 ^ (k - 1) - 1)) 1 (by omega) (by simp; omega) (by omega)).2
    (n - (2 * (i - (2 ^ (k - 1) - 1)) + 2))
  rw [← hR, ← this]; congr 1; omega


end Solvor.Sat
