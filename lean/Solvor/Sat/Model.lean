/-! Sat: executable models (no Mathlib imports). -/
namespace Solvor.Sat

end Solvor.Sat
