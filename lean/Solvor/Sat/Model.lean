import Solvor.Gen.Kernels
import Solvor.Gen.LubyKernels
/-!
Sat: executable models and Boolean checkers (no Mathlib imports).

* semantics of CNF formulas over `Int` literals (`litTrue`, `clauseTrue`, `cnfTrue`);
* `evalCnf` / `pairwiseDistinct` – the verified checkers the driver evaluates on every
  assignment `solve_sat` returns (C01);
* `solve` – reference DPLL (shortest-clause branching, so unit clauses propagate first),
  `enumModels` – all models projected to a list of variables (C01/C02/C06 oracle);
* `blocking`, `resolve`, `chain` – blocking clauses and the 1-UIP resolution chain;
* `luby` – the regenerated `luby()` loop of `solvor/sat.py` with the fuel `2*i+2`.
-/
namespace Solvor.Sat

abbrev Clause := List Int
abbrev Cnf := List Clause
/-- total assignments (semantic side) -/
abbrev Asg := Nat → Bool
/-- an assignment as `solve_sat` returns it: `dict[int,bool]` as its item list -/
abbrev AList := List (Nat × Bool)

/-! ### semantics -/

def litTrue (σ : Asg) (l : Int) : Bool := if 0 < l then σ l.natAbs else !σ l.natAbs
def clauseTrue (σ : Asg) (c : Clause) : Bool := c.any (litTrue σ)
def cnfTrue (σ : Asg) (f : Cnf) : Bool := f.all (clauseTrue σ)

/-- `σ` satisfies every clause of `f` and every assumption literal of `as`. -/
def Models (σ : Asg) (f : Cnf) (as : List Int) : Prop :=
  (∀ c ∈ f, ∃ l ∈ c, litTrue σ l = true) ∧ ∀ a ∈ as, litTrue σ a = true

/-- literals are non-zero (what `solve_sat` assumes of its input) -/
def WF (f : Cnf) : Prop := ∀ c ∈ f, ∀ l ∈ c, l ≠ 0

def wfB (f : Cnf) : Bool := f.all fun c => c.all fun l => l != 0

/-- assumptions are unit clauses -/
def withAssumptions (f : Cnf) (as : List Int) : Cnf := as.map (fun a => [a]) ++ f

/-! ### checkers for returned assignments -/

/-- the literal's variable is assigned, with the literal's sign -/
def litHolds (m : AList) (l : Int) : Bool := m.lookup l.natAbs == some (decide (0 < l))

/-- every variable occurring in `f` or `as` has an entry in `m` -/
def totalOn (m : AList) (f : Cnf) (as : List Int) : Bool :=
  f.all (fun c => c.all fun l => (m.lookup l.natAbs).isSome) && as.all fun a => (m.lookup a.natAbs).isSome

/-- C01 checker: `m` is total on the occurring variables, makes a literal of every clause true and
agrees with every assumption literal. -/
def evalCnf (f : Cnf) (as : List Int) (m : AList) : Bool :=
  totalOn m f as && f.all (fun c => c.any (litHolds m)) && as.all (litHolds m)

/-- the total assignment read off an item list (unassigned ↦ false) -/
def asgOf (m : AList) : Asg := fun v => (m.lookup v).getD false

/-- two item lists differ on some key of either -/
def differ (a b : AList) : Bool :=
  (a.map Prod.fst ++ b.map Prod.fst).any fun v => a.lookup v != b.lookup v

/-- C01 checker: the returned assignments are pairwise different. -/
def pairwiseDistinct : List AList → Bool
  | [] => true
  | a :: rest => rest.all (differ a) && pairwiseDistinct rest

/-- base-3 code of `m`'s values on `vs` (a function of `m.lookup` only) -/
def codeOf (vs : List Nat) (look : Nat → Option Bool) : Nat :=
  vs.foldl (fun acc v => 3 * acc + (match look v with | none => 0 | some false => 1 | some true => 2)) 0

def nodupNat : List Nat → Bool
  | [] => true
  | a :: r => r.all (· != a) && nodupNat r

/-- fast path of the distinctness check: the codes over `vs` are pairwise different -/
def fastDistinct (vs : List Nat) (ms : List AList) : Bool := nodupNat (ms.map fun m => codeOf vs (fun v => m.lookup v))

/-- the distinctness checker the driver runs (quadratic in cheap `Nat` comparisons on the fast
path, exact fallback) -/
def distinctB (vs : List Nat) (ms : List AList) : Bool := fastDistinct vs ms || pairwiseDistinct ms

/-! ### reference DPLL -/

/-- make literal `l` true: drop satisfied clauses, delete `-l` elsewhere -/
def assign (l : Int) (f : Cnf) : Cnf :=
  (f.filter fun c => !c.contains l).map fun c => c.filter (· != -l)

def size (f : Cnf) : Nat := (f.map List.length).sum

/-- a shortest clause (the first among equals) -/
def pick : Cnf → Option Clause
  | [] => none
  | c :: f =>
    match pick f with
    | none => some c
    | some d => if c.length ≤ d.length then some c else some d

def dpll : Nat → Cnf → Bool
  | 0, _ => false
  | fuel + 1, f =>
    match pick f with
    | none => true
    | some [] => false
    | some (l :: _) => dpll fuel (assign l f) || dpll fuel (assign (-l) f)

/-- fuel = literals + clauses + 1 (proved sufficient in `Lemmas.dpll_correct`) -/
def solve (f : Cnf) : Bool := dpll (size f + f.length + 1) f

/-- all models of `f`, projected to the variables `vs` (in that order), each exactly once -/
def enumModels : List Nat → Cnf → List AList
  | [], f => if solve f then [[]] else []
  | v :: vs, f =>
    if solve f then
      (enumModels vs (assign (v : Int) f)).map ((v, true) :: ·) ++
        (enumModels vs (assign (-(v : Int)) f)).map ((v, false) :: ·)
    else []

/-- number of variables `solve_sat` works with: the largest variable index -/
def nVars (f : Cnf) (as : List Int) : Nat :=
  (f.foldl (fun n c => c.foldl (fun n l => max n l.natAbs) n) 0) |> fun n => as.foldl (fun n l => max n l.natAbs) n

/-! ### blocking clauses and resolution -/

/-- the clause excluding `σ` on the variables `vs` (what `solve_sat` adds after each model) -/
def blocking (σ : Asg) (vs : List Nat) : Clause := vs.map fun v => if σ v then -(v : Int) else (v : Int)

/-- resolvent of `c` (containing `p`) and `d` (containing `-p`) -/
def resolve (c d : Clause) (p : Int) : Clause := c.filter (· != p) ++ d.filter (· != -p)

/-- the 1-UIP chain: starting from the conflict clause, resolve with the antecedent `r` of the
pivot `p` (`p ∈ r`, `-p` in the running clause), one step per expanded trail literal -/
def chain (c0 : Clause) (steps : List (Clause × Int)) : Clause :=
  steps.foldl (fun c s => resolve s.1 c s.2) c0

/-- `c` is a consequence of `f` -/
def Entails (f : Cnf) (c : Clause) : Prop := ∀ σ, cnfTrue σ f = true → clauseTrue σ c = true

/-- decision procedure for `Entails f c` through the reference DPLL: `f ∧ ¬c` is unsatisfiable -/
def entailsB (f : Cnf) (c : Clause) : Bool := !solve (c.map (fun l => [-l]) ++ f)

/-! ### a unit-propagation refutation checker (used by the CDCL mirror to certify INFEASIBLE) -/

/-- value of a literal under a partial assignment stored as `0 = False, 1 = True, other = unassigned`
per variable (out of range = unassigned) -/
def litValA (a : Array Nat) (l : Int) : Option Bool :=
  match a[l.natAbs]? with
  | some 1 => some (decide (0 < l))
  | some 0 => some (!decide (0 < l))
  | _ => none

/-- one pass over the clauses: `none` = a clause with every literal false was met; otherwise the
extended assignment and whether a unit clause fired -/
def upPass : List Clause → Array Nat → Bool → Option (Array Nat × Bool)
  | [], a, ch => some (a, ch)
  | c :: cs, a, ch =>
    if c.any (fun l => litValA a l == some true) then upPass cs a ch else
      match c.filter (fun l => litValA a l == none) with
      | [] => none
      | [l] => upPass cs (a.setIfInBounds l.natAbs (if 0 < l then 1 else 0)) true
      | _ => upPass cs a ch

/-- repeat `upPass` until a conflict (`true`), a fixpoint or the fuel runs out (`false`) -/
def upLoop : Nat → List Clause → Array Nat → Bool
  | 0, _, _ => false
  | fuel + 1, cs, a =>
    match upPass cs a false with
    | none => true
    | some (a', ch) => if ch then upLoop fuel cs a' else false

/-- `true` ⇒ unit propagation alone refutes `cs` (variables `0..n`) -/
def upRefutes (n : Nat) (cs : List Clause) : Bool := upLoop (n + 2) cs (Array.replicate (n + 1) 2)

/-- `l` occurs in the clauses or among the assumptions -/
def occursB (f : Cnf) (as : List Int) (l : Int) : Bool := f.any (·.contains l) || as.contains l

/-- the pure literals of formula + assumptions over the variables `1..n` -/
def pureUnits (f : Cnf) (as : List Int) (n : Nat) : List Int :=
  (List.range' 1 n).flatMap fun (v : Nat) =>
    (if occursB f as (v : Int) && !occursB f as (-(v : Int)) then [(v : Int)] else []) ++
    (if occursB f as (-(v : Int)) && !occursB f as (v : Int) then [-(v : Int)] else [])

/-! ### Luby -/

/-- `luby(i)` of `solvor/sat.py`: the regenerated loop with fuel `2*i+2` -/
def luby (i : Nat) : Nat := Solvor.Gen.lubyLoop (2 * i + 2) i Solvor.Gen.lubyK0

end Solvor.Sat
