import Solvor.Sat.CdclKit
/-! Sat.CdclHeap: the binary heap of `(-activity, var)` entries only ever permutes its entries:
`heapPush` adds one, `heapPop` removes one. -/
namespace Solvor.Sat.Cdcl

theorem siftUp_perm : ∀ (fuel : Nat) (h : Array (Float × Nat)) (i : Nat), (siftUp fuel h i).toList.Perm h.toList := by
  intro fuel
  induction fuel with
  | zero => intro h i; exact List.Perm.refl _
  | succ fuel ih =>
    intro h i
    unfold siftUp
    split
    · exact List.Perm.refl _
    · simp only
      split
      · exact (ih _ _).trans (swapIB_perm _ _ _)
      · exact List.Perm.refl _

theorem siftDown_perm : ∀ (fuel : Nat) (h : Array (Float × Nat)) (i : Nat), (siftDown fuel h i).toList.Perm h.toList := by
  intro fuel
  induction fuel with
  | zero => intro h i; exact List.Perm.refl _
  | succ fuel ih =>
    intro h i
    unfold siftDown
    simp only
    generalize siftChild h i = m
    split
    · exact List.Perm.refl _
    · exact (ih _ _).trans (swapIB_perm _ _ _)

theorem heapPush_perm (h : Array (Float × Nat)) (e : Float × Nat) : (heapPush h e).toList.Perm (e :: h.toList) := by
  unfold heapPush
  simp only
  refine (siftUp_perm _ _ _).trans ?_
  rw [Array.toList_push]
  exact List.perm_append_singleton e h.toList

theorem mem_heapPush {h : Array (Float × Nat)} {e x : Float × Nat} :
    x ∈ (heapPush h e).toList ↔ x = e ∨ x ∈ h.toList := by
  rw [(heapPush_perm h e).mem_iff]; simp

theorem heapPop_none {h : Array (Float × Nat)} (hp : heapPop h = none) : h.toList = [] := by
  unfold heapPop at hp
  split at hp
  · rename_i h0
    have : h.size = 0 := by simpa using h0
    simpa using this
  · simp only at hp; split at hp <;> cases hp

theorem heapPop_some {h h' : Array (Float × Nat)} {top : Float × Nat} (hp : heapPop h = some (top, h')) :
    h.toList.Perm (top :: h'.toList) := by
  unfold heapPop at hp
  split at hp
  · cases hp
  · rename_i h0
    have hpos : 0 < h.size := by
      have : ¬ h.size = 0 := by simpa using h0
      omega
    simp only at hp
    have hne : h.toList ≠ [] := by
      intro e; have := congrArg List.length e; simp only [Array.length_toList, List.length_nil] at this; omega
    have hlast : h.toList.getLast? = some h[h.size - 1]! := by
      rw [List.getLast?_eq_getElem?]
      simp only [Array.length_toList, Array.getElem?_toList]
      rw [get!_eq]; have : h.size - 1 < h.size := by omega
      simp [this]
    obtain ⟨ys, hys⟩ := List.getLast?_eq_some_iff.1 hlast
    have hpoplist : h.pop.toList = ys := by rw [Array.toList_pop, hys, List.dropLast_concat]
    have htop : h.toList.head? = some h[0]! := by
      rw [List.head?_eq_getElem?, Array.getElem?_toList, get!_eq]; simp [hpos]
    split at hp
    · rename_i hz
      simp only [Option.some.injEq, Prod.mk.injEq] at hp
      obtain ⟨rfl, rfl⟩ := hp
      have hys0 : ys = [] := by
        have hz0 : h.pop.size = 0 := by simpa using hz
        have hlen := congrArg List.length hpoplist
        simp only [Array.length_toList] at hlen
        cases ys with
        | nil => rfl
        | cons a t => rw [Array.size_pop] at hz0; simp at hlen; omega
      rw [hys, hys0] at htop ⊢
      simp at htop
      rw [hpoplist, hys0, htop]
      simp
    · rename_i hz
      simp only [Option.some.injEq, Prod.mk.injEq] at hp
      obtain ⟨rfl, rfl⟩ := hp
      refine List.Perm.trans ?_ (List.Perm.cons _ (siftDown_perm _ _ _).symm)
      cases ys with
      | nil =>
        exfalso
        have := congrArg List.length hpoplist
        simp only [Array.length_toList, List.length_nil] at this
        have : ¬ h.pop.size = 0 := by simpa using hz
        omega
      | cons a t =>
        rw [hys] at htop
        simp only [List.cons_append, List.head?_cons, Option.some.injEq] at htop
        have hset : (h.pop.set! 0 h[h.size - 1]!).toList = h[h.size - 1]! :: t := by
          rw [Array.set!_eq_setIfInBounds, Array.toList_setIfInBounds, hpoplist]; rfl
        rw [hset, hys, ← htop]
        simp only [List.cons_append]
        exact List.Perm.cons _ (List.perm_append_singleton _ _)

end Solvor.Sat.Cdcl
