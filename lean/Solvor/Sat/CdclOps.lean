import Solvor.Sat.CdclInv
/-! Sat.CdclOps: the invariant under the watch-list and clause edits of `propagate`, and the
"extension" relation between the states of one `propagate` call. -/
namespace Solvor.Sat.Cdcl

/-- `st'` is `st` after some more propagation: nothing assigned is changed -/
structure Ext (st st' : St) : Prop where
  lim : st'.trailLim = st.trailLim
  nV : st'.nVars = st.nVars
  asm : st'.assumptions = st.assumptions
  tsize : st.trail.size ≤ st'.trail.size
  tpre : ∀ i, i < st.trail.size → st'.trail[i]! = st.trail[i]!
  vkeep : ∀ v, valAt st v ≠ UNDEF → valAt st' v = valAt st v ∧ lvlAt st' v = lvlAt st v
  big : st'.big = st.big
  csz : ∀ c, (cl st' c).size = (cl st c).size
  bin : ∀ c, (cl st c).size ≤ 2 → cl st' c = cl st c

theorem Ext.refl (st : St) : Ext st st :=
  ⟨rfl, rfl, rfl, Nat.le_refl _, fun _ _ => rfl, fun _ _ => ⟨rfl, rfl⟩, rfl, fun _ => rfl, fun _ _ => rfl⟩

theorem Ext.trans {a b c : St} (h1 : Ext a b) (h2 : Ext b c) : Ext a c where
  lim := h2.lim.trans h1.lim
  nV := h2.nV.trans h1.nV
  asm := h2.asm.trans h1.asm
  tsize := Nat.le_trans h1.tsize h2.tsize
  tpre := fun i hi => (h2.tpre i (Nat.lt_of_lt_of_le hi h1.tsize)).trans (h1.tpre i hi)
  vkeep := fun v hv => by
    obtain ⟨e1, e2⟩ := h1.vkeep v hv
    obtain ⟨f1, f2⟩ := h2.vkeep v (by rw [e1]; exact hv)
    exact ⟨f1.trans e1, f2.trans e2⟩
  big := h2.big.trans h1.big
  csz := fun c => (h2.csz c).trans (h1.csz c)
  bin := fun c hc => (h2.bin c (by rw [h1.csz]; exact hc)).trans (h1.bin c hc)

theorem Ext.isTrue {st st'} (h : Ext st st') {l : Int} (ht : IsTrue st l) : IsTrue st' l := by
  unfold IsTrue; rw [litValue_congr (h.vkeep _ ht.assigned).1]; exact ht

theorem Ext.isFalse {st st'} (h : Ext st st') {l : Int} (ht : IsFalse st l) : IsFalse st' l := by
  unfold IsFalse; rw [litValue_congr (h.vkeep _ ht.assigned).1]; exact ht

theorem Ext.lvl {st st'} (h : Ext st st') {v : Nat} (ht : valAt st v ≠ UNDEF) : lvlAt st' v = lvlAt st v :=
  (h.vkeep v ht).2

theorem ext_assign {F st k} (_h : Inv F st k) {v : Nat} (hv : valAt st v = UNDEF) (b : Bool) (r : Int) :
    Ext st (assign st v b r) where
  lim := rfl
  nV := rfl
  asm := rfl
  tsize := by show st.trail.size ≤ (st.trail.push v).size; simp
  tpre := fun i hi => by show (st.trail.push v)[i]! = _; rw [get!_push]; simp [Nat.ne_of_lt hi]
  vkeep := fun u hu => by
    have hne : ¬ (v = u ∧ v < st.vals.size) := fun hh => hu (hh.1 ▸ hv)
    have hne' : ¬ (v = u ∧ v < st.levels.size) := fun hh => hu (hh.1 ▸ hv)
    rw [valAt_assign, lvlAt_assign]; simp [hne, hne']
  big := rfl
  csz := fun _ => rfl
  bin := fun _ _ => rfl

/-! ### states that differ in the watch lists only -/

theorem inv_setWatch {F st k} (h : Inv F st k) (W : Array (Array Nat)) (hsz : W.size = 2 * (st.nVars + 1))
    (hs : ∀ l c, c ∈ wl { st with watch := W } l → c < F.length →
        3 ≤ (cl st c).size ∧ ((cl st c)[0]! = l ∨ (cl st c)[1]! = l))
    (hn : ∀ l, ((wl { st with watch := W } l).filter (· < F.length)).Nodup)
    (ha : ∀ c, c < F.length → 3 ≤ (cl st c).size →
        c ∈ wl { st with watch := W } (cl st c)[0]! ∧ c ∈ wl { st with watch := W } (cl st c)[1]!) :
    Inv F { st with watch := W } k :=
  { nOrig := h.nOrig, csize := h.csize, perm := h.perm, fok := h.fok, vsize := h.vsize, vrange := h.vrange, lsize := h.lsize,
    wsize := hsz, bsize := h.bsize, tnodup := h.tnodup, tmem := h.tmem, limSorted := h.limSorted, limLe := h.limLe,
    kLe := h.kLe, tl := h.tl, lvlLe := h.lvlLe, wsound := hs, wnodup := hn, wattach := ha, wsem := h.wsem,
    battach := h.battach, bsem := h.bsem }

theorem ext_setWatch (st : St) (W : Array (Array Nat)) : Ext st { st with watch := W } :=
  ⟨rfl, rfl, rfl, Nat.le_refl _, fun _ _ => rfl, fun _ _ => ⟨rfl, rfl⟩, rfl, fun _ => rfl, fun _ _ => rfl⟩

/-- adding a learned clause index to a watch list -/
theorem inv_addWatch_learned {F st k} (h : Inv F st k) (l : Int) {idx : Nat} (hidx : F.length ≤ idx) :
    Inv F (addWatch st l idx) k := by
  have key : ∀ l' c, c ∈ wl (addWatch st l idx) l' → c < F.length → c ∈ wl st l' := by
    intro l' c hc hlt
    rw [wl_addWatch] at hc
    split at hc
    · rcases List.mem_append.1 hc with hc | hc
      · exact hc
      · simp at hc; omega
    · exact hc
  have mono : ∀ l' c, c ∈ wl st l' → c ∈ wl (addWatch st l idx) l' := by
    intro l' c hc
    rw [wl_addWatch]; split
    · exact List.mem_append_left _ hc
    · exact hc
  refine inv_setWatch h _ (by rw [Array.size_modify]; exact h.wsize) ?_ ?_ ?_
  · intro l' c hc hlt; exact h.wsound l' c (key l' c hc hlt) hlt
  · intro l'
    show ((wl (addWatch st l idx) l').filter _).Nodup
    rw [wl_addWatch]; split
    · rw [List.filter_append]
      have : ([idx].filter (· < F.length)) = [] := by simp; omega
      rw [this, List.append_nil]; exact h.wnodup l'
    · exact h.wnodup l'
  · intro c hc h3
    exact ⟨mono _ _ (h.wattach c hc h3).1, mono _ _ (h.wattach c hc h3).2⟩

/-- removing entry `i` of the watch list of `fl` when that entry is a learned clause index -/
theorem inv_removeWatch_learned {F st k} (h : Inv F st k) (fl : Int) {i c0 : Nat}
    (hi : (wl st fl)[i]? = some c0) (hc0 : F.length ≤ c0) :
    Inv F (removeWatchAt st fl i) k := by
  have hisz : i < (watchOf st fl).size := by
    have := (List.getElem?_eq_some_iff.1 hi).1; simpa [wl] using this
  obtain ⟨hperm, _⟩ := removeAt_facts (watchOf st fl) i hisz
  have sub : ∀ l' c, c ∈ wl (removeWatchAt st fl i) l' → c ∈ wl st l' := by
    intro l' c hc
    rw [wl_removeWatchAt] at hc
    split at hc
    · rename_i hh
      rw [hh.1]
      have := (hperm.mem_iff).1 hc
      exact (List.eraseIdx_sublist _ _).subset this
    · exact hc
  have keep : ∀ l' c, c < F.length → c ∈ wl st l' → c ∈ wl (removeWatchAt st fl i) l' := by
    intro l' c hlt hc
    rw [wl_removeWatchAt]
    split
    · rename_i hh
      rw [hh.1] at hc
      apply (hperm.mem_iff).2
      rw [List.mem_eraseIdx_iff_getElem?]
      obtain ⟨j, hj⟩ := List.mem_iff_getElem?.1 hc
      refine ⟨j, ?_, hj⟩
      intro hji; subst hji
      have : some c = some c0 := by rw [← hj]; exact hi
      cases this; omega
    · exact hc
  refine inv_setWatch h _ (by rw [Array.size_modify]; exact h.wsize) ?_ ?_ ?_
  · intro l' c hc hlt; exact h.wsound l' c (sub l' c hc) hlt
  · intro l'
    show ((wl (removeWatchAt st fl i) l').filter _).Nodup
    rw [wl_removeWatchAt]; split
    · rename_i hh
      have hp := hperm.filter (· < F.length)
      exact (hp.nodup_iff).2 (((List.eraseIdx_sublist _ _).filter _).nodup (h.wnodup fl))
    · exact h.wnodup l'
  · intro c hc h3
    exact ⟨keep _ _ hc (h.wattach c hc h3).1, keep _ _ hc (h.wattach c hc h3).2⟩

/-- `setClause` on a learned clause does not touch the input clauses -/
theorem setClause_learned (st : St) {idx : Nat} (h : st.nOrig ≤ idx) (c : Array Int) :
    setClause st idx c = { st with learned := st.learned.set! (idx - st.nOrig) c } := by
  unfold setClause; simp [Nat.not_lt.2 h]

theorem inv_setLearned {F st k} (h : Inv F st k) (L : Array (Array Int)) : Inv F { st with learned := L } k :=
  { nOrig := h.nOrig, csize := h.csize, perm := h.perm, fok := h.fok, vsize := h.vsize, vrange := h.vrange, lsize := h.lsize,
    wsize := h.wsize, bsize := h.bsize, tnodup := h.tnodup, tmem := h.tmem, limSorted := h.limSorted, limLe := h.limLe,
    kLe := h.kLe, tl := h.tl, lvlLe := h.lvlLe, wsound := h.wsound, wnodup := h.wnodup, wattach := h.wattach,
    wsem := h.wsem, battach := h.battach, bsem := h.bsem }

theorem ext_setLearned (st : St) (L : Array (Array Int)) : Ext st { st with learned := L } :=
  ⟨rfl, rfl, rfl, Nat.le_refl _, fun _ _ => rfl, fun _ _ => ⟨rfl, rfl⟩, rfl, fun _ => rfl, fun _ _ => rfl⟩

/-! ### editing an input clause (literal swaps) together with the watch lists -/

theorem setClause_orig (st : St) {idx : Nat} (h : idx < st.nOrig) (c : Array Int) :
    setClause st idx c = { st with clauses := st.clauses.set! idx c } := by
  unfold setClause; simp [h]

theorem cl_edit (st : St) (c0 : Nat) (C' : Array Int) (W : Array (Array Nat)) (h : c0 < st.clauses.size) (c : Nat) :
    cl { st with clauses := st.clauses.set! c0 C', watch := W } c = if c = c0 then C' else cl st c := by
  unfold cl; simp only; rw [get!_set!]
  by_cases hc : c = c0
  · subst hc; simp [h]
  · have : ¬ (c0 = c ∧ c0 < st.clauses.size) := fun hh => hc hh.1.symm
    simp [hc, this]

theorem inv_edit {F st k} (h : Inv F st k) {c0 : Nat} (hc0 : c0 < F.length) (C' : Array Int)
    (hperm : C'.toList.Perm (cl st c0).toList) (h3 : 3 ≤ (cl st c0).size)
    (W : Array (Array Nat)) (hsz : W.size = 2 * (st.nVars + 1))
    (hs : ∀ l c, c ∈ wl { st with clauses := st.clauses.set! c0 C', watch := W } l → c < F.length →
        3 ≤ (cl { st with clauses := st.clauses.set! c0 C', watch := W } c).size ∧
        ((cl { st with clauses := st.clauses.set! c0 C', watch := W } c)[0]! = l ∨
         (cl { st with clauses := st.clauses.set! c0 C', watch := W } c)[1]! = l))
    (hn : ∀ l, ((wl { st with clauses := st.clauses.set! c0 C', watch := W } l).filter (· < F.length)).Nodup)
    (ha : ∀ c, c < F.length → 3 ≤ (cl { st with clauses := st.clauses.set! c0 C', watch := W } c).size →
        c ∈ wl { st with clauses := st.clauses.set! c0 C', watch := W }
              (cl { st with clauses := st.clauses.set! c0 C', watch := W } c)[0]! ∧
        c ∈ wl { st with clauses := st.clauses.set! c0 C', watch := W }
              (cl { st with clauses := st.clauses.set! c0 C', watch := W } c)[1]!)
    (hsem : Sem2 st k C'[0]! C'[1]! ∧ Sem2 st k C'[1]! C'[0]!) :
    Inv F { st with clauses := st.clauses.set! c0 C', watch := W } k := by
  have hcs : c0 < st.clauses.size := by rw [h.csize]; exact hc0
  have hcl := cl_edit st c0 C' W hcs
  have hsize : C'.size = (cl st c0).size := by simpa using hperm.length_eq
  refine { nOrig := h.nOrig, csize := by show (st.clauses.set! c0 C').size = _; rw [size_set!]; exact h.csize
           perm := ?_, fok := h.fok, vsize := h.vsize, vrange := h.vrange, lsize := h.lsize, wsize := hsz, bsize := h.bsize
           tnodup := h.tnodup, tmem := h.tmem, limSorted := h.limSorted, limLe := h.limLe, kLe := h.kLe
           tl := h.tl, lvlLe := h.lvlLe, wsound := hs, wnodup := hn, wattach := ha
           wsem := ?_, battach := ?_, bsem := ?_ }
  · intro c hc
    rw [hcl c]
    by_cases hcc : c = c0
    · subst hcc; simp only [if_true]; exact hperm.trans (h.perm c hc)
    · simp only [hcc, if_false]; exact h.perm c hc
  · intro c hc hc3
    rw [hcl c] at hc3 ⊢
    by_cases hcc : c = c0
    · subst hcc; simp only [if_true]; exact hsem
    · simp only [hcc, if_false] at hc3 ⊢; exact h.wsem c hc hc3
  · intro c hc hc2
    rw [hcl c] at hc2 ⊢
    by_cases hcc : c = c0
    · subst hcc; simp only [if_true] at hc2; omega
    · simp only [hcc, if_false] at hc2 ⊢; exact h.battach c hc hc2
  · intro c hc hc2
    rw [hcl c] at hc2 ⊢
    by_cases hcc : c = c0
    · subst hcc; simp only [if_true] at hc2; omega
    · simp only [hcc, if_false] at hc2 ⊢; exact h.bsem c hc hc2

theorem ext_edit {F st k} (h : Inv F st k) {c0 : Nat} (hc0 : c0 < F.length) (C' : Array Int)
    (hsize : C'.size = (cl st c0).size) (h3 : 3 ≤ (cl st c0).size) (W : Array (Array Nat)) :
    Ext st { st with clauses := st.clauses.set! c0 C', watch := W } := by
  have hcs : c0 < st.clauses.size := by rw [h.csize]; exact hc0
  have hcl := cl_edit st c0 C' W hcs
  refine ⟨rfl, rfl, rfl, Nat.le_refl _, fun _ _ => rfl, fun _ _ => ⟨rfl, rfl⟩, rfl, ?_, ?_⟩
  · intro c; rw [hcl c]; by_cases hcc : c = c0
    · subst hcc; simp [hsize]
    · simp [hcc]
  · intro c hc2; rw [hcl c]; by_cases hcc : c = c0
    · subst hcc; omega
    · simp [hcc]

/-! ### states that agree on everything the invariant reads -/

theorem inv_frame {F st st' k} (h : Inv F st k) (e1 : st'.nVars = st.nVars) (e2 : st'.nOrig = st.nOrig)
    (e3 : st'.clauses = st.clauses) (e4 : st'.vals = st.vals) (e5 : st'.levels = st.levels)
    (e6 : st'.trail = st.trail) (e7 : st'.trailLim = st.trailLim) (e8 : st'.watch = st.watch)
    (e9 : st'.big = st.big) : Inv F st' k := by
  cases st'
  simp only at e1 e2 e3 e4 e5 e6 e7 e8 e9
  subst e1 e2 e3 e4 e5 e6 e7 e8 e9
  exact { nOrig := h.nOrig, csize := h.csize, perm := h.perm, fok := h.fok, vsize := h.vsize, vrange := h.vrange,
          lsize := h.lsize, wsize := h.wsize, bsize := h.bsize, tnodup := h.tnodup, tmem := h.tmem,
          limSorted := h.limSorted, limLe := h.limLe, kLe := h.kLe, tl := h.tl, lvlLe := h.lvlLe,
          wsound := h.wsound, wnodup := h.wnodup, wattach := h.wattach, wsem := h.wsem,
          battach := h.battach, bsem := h.bsem }

theorem ext_frame {st st'} (e1 : st'.nVars = st.nVars) (e0 : st'.assumptions = st.assumptions)
    (e3 : st'.clauses = st.clauses) (e4 : st'.vals = st.vals) (e5 : st'.levels = st.levels)
    (e6 : st'.trail = st.trail) (e7 : st'.trailLim = st.trailLim) (e9 : st'.big = st.big) : Ext st st' := by
  cases st'
  simp only at e1 e0 e3 e4 e5 e6 e7 e9
  subst e1 e0 e3 e4 e5 e6 e7 e9
  exact ⟨rfl, rfl, rfl, Nat.le_refl _, fun _ _ => rfl, fun _ _ => ⟨rfl, rfl⟩, rfl, fun _ => rfl, fun _ _ => rfl⟩

end Solvor.Sat.Cdcl
