import Solvor.Sat.Cdcl
/-! Sat.CdclKit: small facts about `Array` reads after writes (`a[i]!` after `set!`, `push`, `modify`,
`pop`, `extract`) and about the swap-with-last removal used by the watch lists.  Core Lean only. -/
namespace Solvor.Sat.Cdcl

theorem get!_eq {α} [Inhabited α] (a : Array α) (i : Nat) : a[i]! = a[i]?.getD default := by
  rw [Array.getElem!_eq_getD, Array.getD_eq_getD_getElem?]

theorem get!_of_lt {α} [Inhabited α] (a : Array α) (i : Nat) (h : i < a.size) : a[i]! = a[i] := by
  rw [get!_eq]; simp [h]

theorem get!_of_ge {α} [Inhabited α] (a : Array α) (i : Nat) (h : a.size ≤ i) : a[i]! = default := by
  rw [get!_eq]; simp [h]

theorem get!_set! {α} [Inhabited α] (a : Array α) (i j : Nat) (x : α) :
    (a.set! i x)[j]! = if i = j ∧ i < a.size then x else a[j]! := by
  simp only [get!_eq, Array.set!_eq_setIfInBounds, Array.getElem?_setIfInBounds]
  by_cases h : i = j
  · subst h
    by_cases h2 : i < a.size
    · simp [h2]
    · simp [h2]
  · simp [h]

theorem get!_set!_self {α} [Inhabited α] (a : Array α) (i : Nat) (x : α) (h : i < a.size) :
    (a.set! i x)[i]! = x := by rw [get!_set!]; simp [h]

theorem get!_set!_ne {α} [Inhabited α] (a : Array α) (i j : Nat) (x : α) (h : i ≠ j) :
    (a.set! i x)[j]! = a[j]! := by rw [get!_set!]; simp [h]

theorem size_set! {α} (a : Array α) (i : Nat) (x : α) : (a.set! i x).size = a.size := by
  simp [Array.set!_eq_setIfInBounds]

theorem get!_push {α} [Inhabited α] (a : Array α) (x : α) (j : Nat) :
    (a.push x)[j]! = if j = a.size then x else a[j]! := by
  simp only [get!_eq, Array.getElem?_push]
  by_cases h : j = a.size <;> simp [h]

theorem get!_modify {α} [Inhabited α] (a : Array α) (i j : Nat) (f : α → α) :
    (a.modify i f)[j]! = if i = j ∧ i < a.size then f a[j]! else a[j]! := by
  simp only [get!_eq, Array.getElem?_modify]
  by_cases h : i = j
  · subst h
    by_cases h2 : i < a.size
    · simp [h2]
    · simp [h2]
  · simp [h]

theorem mem_toList_iff_get! {α} [Inhabited α] (a : Array α) (x : α) :
    x ∈ a.toList ↔ ∃ i, i < a.size ∧ a[i]! = x := by
  rw [List.mem_iff_getElem?]
  constructor
  · rintro ⟨i, hi⟩
    rw [Array.getElem?_toList] at hi
    have hlt : i < a.size := by
      apply Classical.byContradiction; intro hn
      rw [Array.getElem?_eq_none (by omega)] at hi; cases hi
    exact ⟨i, hlt, by rw [get!_eq, hi]; rfl⟩
  · rintro ⟨i, hlt, rfl⟩
    exact ⟨i, by rw [Array.getElem?_toList, get!_eq]; simp [hlt]⟩

/-! ### swap-with-last removal -/

theorem dropLast_set_getLast_perm {α} : ∀ (l : List α) (i : Nat) (h : i < l.length) (x : α),
    l.getLast? = some x → ((l.set i x).dropLast).Perm (l.eraseIdx i) := by
  intro l
  induction l with
  | nil => intro i h; simp at h
  | cons a t ih =>
    intro i h x hx
    cases t with
    | nil =>
      have : i = 0 := by simp at h; omega
      subst this; simp
    | cons b t' =>
      have hx' : (b :: t').getLast? = some x := by simpa [List.getLast?_cons_cons] using hx
      cases i with
      | zero =>
        simp only [List.set_cons_zero, List.eraseIdx_cons_zero]
        obtain ⟨ys, hys⟩ := List.getLast?_eq_some_iff.1 hx'
        rw [List.dropLast_cons_of_ne_nil (by simp), hys, List.dropLast_concat]
        exact (List.perm_append_singleton x ys).symm
      | succ i' =>
        have h' : i' < (b :: t').length := by simpa using h
        have := ih i' h' x hx'
        simp only [List.set_cons_succ, List.eraseIdx_cons_succ]
        have hne : ((b :: t').set i' x) ≠ [] := by
          intro hh; have := congrArg List.length hh; simp at this
        rw [List.dropLast_cons_of_ne_nil hne]
        exact List.Perm.cons a this

/-! ### swapping two positions -/

theorem swapIB_size {α} (a : Array α) (i j : Nat) : (a.swapIfInBounds i j).size = a.size :=
  Array.size_swapIfInBounds

theorem swapIB_get! {α} [Inhabited α] (a : Array α) (i j m : Nat) (hi : i < a.size) (hj : j < a.size) :
    (a.swapIfInBounds i j)[m]! = if m = j then a[i]! else if m = i then a[j]! else a[m]! := by
  unfold Array.swapIfInBounds
  simp only [hi, hj, dif_pos]
  rw [get!_eq, Array.getElem?_swap]
  by_cases h1 : j = m
  · subst h1; simp [get!_of_lt _ _ hi]
  · have h1' : ¬ m = j := fun e => h1 e.symm
    by_cases h2 : i = m
    · subst h2; simp [h1, h1', get!_of_lt _ _ hj]
    · have h2' : ¬ m = i := fun e => h2 e.symm
      simp [h1, h1', h2, h2', get!_eq]

theorem swapIB_perm {α} (a : Array α) (i j : Nat) : (a.swapIfInBounds i j).toList.Perm a.toList := by
  unfold Array.swapIfInBounds
  split
  · split
    · exact Array.perm_iff_toList_perm.1 (Array.swap_perm _ _)
    · exact List.Perm.refl _
  · exact List.Perm.refl _

end Solvor.Sat.Cdcl
