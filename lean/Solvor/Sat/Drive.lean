import Solvor.Common.Proto
import Solvor.Sat.Model
/-! Sat: line-protocol handler. One request line in, one reply line out. -/
namespace Solvor.Sat

def handle (line : String) : String := "unimplemented " ++ line

end Solvor.Sat
