import Solvor.Common.Proto
import Solvor.Sat.Model
import Solvor.Sat.Cdcl
/-! Sat: line-protocol handler.

request `["case", clauses, assumptions, single, multi, wantEnum, [maxConflicts, maxRestarts, solutionLimit, lubyFactor]]`
  clauses     : list of clauses (lists of ints)
  assumptions : list of ints
  single      : `Result.solution` as a list with 0 or 1 assignments, an assignment being a list
                of `[var, 0|1]` pairs;  multi : `Result.solutions` likewise (empty if None)
  wantEnum    : bool – also enumerate all models over the variables `1..nVars` (small inputs only)
reply `[wf, sat, nVars, count|null, singleChecks, multiChecks, distinct, branches, conflicts, statOk, mirror]`
  mirror    : `Sat.Cdcl.solve` on the same input and parameters:
              `[status, solution|null, #solutions|null, solution = single, solutions = multi,
                [decisions, propagations, conflicts, restarts, learned, loop iterations, fuel], first 3 solutions,
                [learned clauses checked with the verified `entailsB`, of which not entailed]]`
  wf        : no literal is 0 (hypothesis of `dpll_sat_iff` / `dpll_unsat_iff`)
  sat       : verdict of the proved reference DPLL on clauses + assumptions
  count     : number of models over `1..nVars` (proved-complete enumerator), if requested
  *Checks   : per assignment `[evalCnf, total, clausesTrue, assumptionsTrue]` – the verified
              checker and its three conjuncts
  distinct  : verified checker `distinctB` on `multi`
  branches, conflicts, statOk : statistics of an instrumented DPLL run (non-triviality rule only)
              and whether its verdict equals `solve`'s

optional 7th/8th arguments `lite` (bool: skip the reference DPLL – `sat` is then `null`) and `witness`
(assignments known to the harness, e.g. a planted solution): the reply ends with `evalCnf` on each of them;
the mirror's counter list ends with the number of `reduce_db` reductions

request `["luby", n]` → `[luby 1, …, luby n]` (the regenerated loop with the proved fuel)
-/
namespace Solvor.Sat
open Solvor.Proto

/-- instrumented copy of `dpll` (same branching), used only to classify inputs as non-trivial:
returns (verdict, branchings on a clause of length ≥ 2, empty clauses met) -/
def dpllStat : Nat → Cnf → Bool × Nat × Nat
  | 0, _ => (false, 0, 0)
  | fuel + 1, f =>
    match pick f with
    | none => (true, 0, 0)
    | some [] => (false, 0, 1)
    | some (l :: rest) =>
      let b := if rest.isEmpty then 0 else 1
      let (r1, b1, c1) := dpllStat fuel (assign l f)
      if r1 then (true, b + b1, c1)
      else
        let (r2, b2, c2) := dpllStat fuel (assign (-l) f)
        (r2, b + b1 + b2, c1 + c2)

def parseAsg (xs : List (List Int)) : Option AList :=
  xs.mapM fun p => match p with
    | [v, b] => if v < 0 then none else some (v.toNat, b != 0)
    | _ => none

/-- verdict of the verified checker `evalCnf` plus its three conjuncts (for the explanation) -/
def checkVal (f : Cnf) (as : List Int) (m : AList) : Val :=
  Val.arr [Val.bool (evalCnf f as m), Val.bool (totalOn m f as),
    Val.bool (f.all fun c => c.any (litHolds m)), Val.bool (as.all (litHolds m))]

def parseAsgs (v : Val) : Option (List AList) := do
  let xs ← v.toArr?
  let ys ← xs.mapM Val.toIntss?
  ys.mapM parseAsg

def asgVal (m : AList) : Val := Val.arr (m.map fun p => Val.arr [Val.int p.1, Val.int (if p.2 then 1 else 0)])

/-- the reply to a `case` request; `lite` = skip the reference DPLL (large planted instances), `wit` =
assignments known to the harness (e.g. the planted solution), checked with `evalCnf` -/
def caseReply (f : List (List Int)) (as : List Int) (s1 ms : List AList) (we : Bool) (prm : Nat × Nat × Nat × Nat)
    (lite : Bool) (wit : List AList) : String :=
  let (mc, mr, sl, lf) := prm
  let g := withAssumptions f as
  let n := nVars f as
  let sat : Option Bool := if lite then none else some (solve g)
  let cnt : Option Nat := if we then some (enumModels (List.range' 1 n) g).length else none
  let (r, br, cf) := if lite then (false, 0, 0) else dpllStat (size g + g.length + 1) g
  -- the CDCL mirror (R_trace side)
  let o := Cdcl.solve f as ⟨mc, mr, sl, lf⟩
  -- every logged learned clause must be entailed by the clauses + the blocking clauses added before it
  let (_, chk, bad) := if n ≤ 60 && !lite then
      o.log.foldl (fun (acc : Cnf × Nat × Nat) e =>
        let (db, chk, bad) := acc
        if e.1 then (e.2.toList :: db, chk, bad)
        else if entailsB db e.2.toList then (db, chk + 1, bad) else (db, chk + 1, bad + 1)) (f, 0, 0)
    else (f, 0, 0)
  let mSingle : List AList := match o.solution with | some m => [m] | none => []
  let mMulti : List AList := o.solutions.getD []
  let eqS := decide (mSingle = s1)
  let eqM := decide (mMulti = ms)
  let mirror := Val.arr [Val.str (if o.status == .UNBOUNDED then (if o.note == "" then "FUEL" else o.note) else o.status.name),
    Val.ofOpt asgVal o.solution, Val.ofOpt (fun (x : List AList) => Val.int x.length) o.solutions,
    Val.bool eqS, Val.bool eqM,
    Val.arr [Val.int o.decisions, Val.int o.propagations, Val.int o.conflicts, Val.int o.restarts,
      Val.int o.learnedTotal, Val.int o.iterations, Val.int o.fuel, Val.int o.reduced],
    Val.arr ((mMulti.take 3).map asgVal), Val.arr [Val.int chk, Val.int bad]]
  (Val.arr [Val.bool (wfB g), Val.ofOpt Val.bool sat, Val.int n, Val.ofOpt (fun (k : Nat) => Val.int k) cnt,
    Val.arr (s1.map (checkVal f as)), Val.arr (ms.map (checkVal f as)), Val.bool (distinctB (List.range' 1 n) ms),
    Val.int br, Val.int cf, Val.bool (lite || (some r == sat)), mirror,
    Val.arr (wit.map fun m => Val.bool (evalCnf f as m))]).render

def handle (line : String) : String :=
  match request line with
  | some ("case", cls :: asm :: single :: multi :: we :: prm :: rest) =>
    match cls.toIntss?, asm.toInts?, parseAsgs single, parseAsgs multi, we.toBool?, prm.toNats? with
    | some f, some as, some s1, some ms, some we, some [mc, mr, sl, lf] =>
      match rest with
      | [] => caseReply f as s1 ms we (mc, mr, sl, lf) false []
      | [lite, wit] =>
        match lite.toBool?, parseAsgs wit with
        | some lite, some wit => caseReply f as s1 ms we (mc, mr, sl, lf) lite wit
        | _, _ => err "bad arguments"
      | _ => err "bad arguments"
    | _, _, _, _, _, _ => err "bad arguments"
  | some ("luby", [n]) =>
    match n.toNat? with
    | some n => (Val.ofNats ((List.range' 1 n).map luby)).render
    | none => err "bad arguments"
  | _ => err "bad request"

end Solvor.Sat
