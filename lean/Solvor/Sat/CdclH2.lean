import Solvor.Sat.CdclH
import Solvor.Sat.CdclLoop
/-! Sat.CdclH2: the heap / learned-clause invariant through backjumps, clause learning, `reduceDb`,
activity bumps and `pick_var`; totality of the assignment read off when the heap is exhausted. -/
namespace Solvor.Sat.Cdcl

/-! ### `unassignTo` -/

theorem popOne_fields (st : St) :
    (popOne st).vals = st.vals.set! st.trail.back! UNDEF ∧ (popOne st).trail = st.trail.pop ∧
    (popOne st).nVars = st.nVars ∧ (popOne st).nOrig = st.nOrig ∧ (popOne st).assumptions = st.assumptions ∧
    (popOne st).learned = st.learned ∧ (popOne st).watch = st.watch ∧ (popOne st).big = st.big ∧
    ((st.inHeap[st.trail.back!]! = false ∧ (popOne st).heap = heapPush st.heap (-(st.activity[st.trail.back!]!), st.trail.back!) ∧
        (popOne st).inHeap = st.inHeap.set! st.trail.back! true) ∨
     (st.inHeap[st.trail.back!]! = true ∧ (popOne st).heap = st.heap ∧ (popOne st).inHeap = st.inHeap)) := by
  unfold popOne
  simp only
  split
  · rename_i hh
    exact ⟨rfl, rfl, rfl, rfl, rfl, rfl, rfl, rfl, Or.inl ⟨by simpa using hh, rfl, rfl⟩⟩
  · rename_i hh
    exact ⟨rfl, rfl, rfl, rfl, rfl, rfl, rfl, rfl, Or.inr ⟨by simpa using hh, rfl, rfl⟩⟩

theorem hinv_popOne {st x} (h : HInvX st x) (hne : 0 < st.trail.size) : HInvX (popOne st) x := by
  have hmem : st.trail.back! ∈ st.trail.toList := by
    rw [mem_toList_iff_get!]
    refine ⟨st.trail.size - 1, by omega, ?_⟩
    rw [Array.back!_eq_back?, Array.back?_eq_getElem?, get!_eq]
  have hv0 : st.trail.back! ≠ 0 := fun e => h.t0 (e ▸ hmem)
  have hvn : st.trail.back! ≤ st.nVars := h.tr _ hmem
  obtain ⟨e1, e2, e3, e4, e5, e6, e7, e8, e9⟩ := popOne_fields st
  generalize popOne st = s1 at e1 e2 e3 e4 e5 e6 e7 e8 e9 ⊢
  generalize st.trail.back! = var at hmem hv0 hvn e1 e9
  have hs : var < st.vals.size := by rw [h.vsz]; omega
  have hvi : var < st.inHeap.size := by rw [h.isz]; omega
  have hval : ∀ u, valAt s1 u = if u = var then UNDEF else valAt st u := by
    intro u; unfold valAt; rw [e1, get!_set!]
    by_cases hu : u = var
    · subst hu; simp [hs]
    · have : ¬ (var = u ∧ var < st.vals.size) := fun hh => hu hh.1.symm
      simp [hu, this]
  have hsub : ∀ u, u ∈ s1.trail.toList → u ∈ st.trail.toList := by
    intro u hu; rw [e2, Array.toList_pop] at hu; exact List.dropLast_subset _ hu
  have hwl : ∀ l, wl s1 l = wl st l := by intro l; unfold wl watchOf; rw [e7]
  have hil : ∀ l, il s1 l = il st l := by intro l; unfold il implications; rw [e8]
  have hv00 : valAt s1 0 = UNDEF := by
    rw [hval 0]; have h00 : ¬ (0 = var) := fun e => hv0 e.symm
    simp only [h00, if_false]; exact h.v0
  have common : (∀ e ∈ s1.heap.toList, 1 ≤ e.2) → (∀ v, 1 ≤ v → s1.inHeap[v]! = true → ∃ e ∈ s1.heap.toList, e.2 = v) →
      (∀ v, 1 ≤ v → v ≤ s1.nVars → v ≠ x → valAt s1 v = UNDEF → s1.inHeap[v]! = true) → s1.inHeap.size = s1.nVars + 1 →
      HInvX s1 x := by
    intro k1 k2 k3 k4
    refine ⟨k4, by rw [e1, size_set!, e3]; exact h.vsz, fun u hu => e3 ▸ h.tr u (hsub u hu), k1, k2, k3, hv00,
      fun hm => h.t0 (hsub 0 hm), e5 ▸ h.anz, by rw [e6]; exact h.lnz, ?_, ?_⟩
    · intro l idx hidx hno; rw [hwl] at hidx; rw [e4] at hno; rw [e4, e6]; exact h.wlr l idx hidx hno
    · intro l e he; rw [hil] at he; exact h.bnz l e he
  rcases e9 with ⟨hin, eh, ei⟩ | ⟨hin, eh, ei⟩
  · apply common
    · intro e he
      rw [eh] at he
      rcases mem_heapPush.1 he with rfl | he
      · exact Nat.pos_of_ne_zero hv0
      · exact h.he e he
    · intro u hu1 hu2
      rw [ei, get!_set!] at hu2
      rw [eh]
      split at hu2
      · rename_i hh
        exact ⟨_, mem_heapPush.2 (Or.inl rfl), hh.1⟩
      · obtain ⟨e, he, hev⟩ := h.hf u hu1 hu2
        exact ⟨e, mem_heapPush.2 (Or.inr he), hev⟩
    · intro u hu1 hu2 hux huu
      rw [ei, get!_set!]
      by_cases huv : u = var
      · subst huv; simp [hvi]
      · have : ¬ (var = u ∧ var < st.inHeap.size) := fun hh => huv hh.1.symm
        simp only [this, if_false]
        have hvu := hval u
        simp only [huv, if_false] at hvu
        exact h.hu u hu1 (e3 ▸ hu2) hux (by rw [← hvu]; exact huu)
    · rw [ei, size_set!, e3]; exact h.isz
  · apply common
    · intro e he; rw [eh] at he; exact h.he e he
    · intro u hu1 hu2; rw [ei] at hu2; rw [eh]; exact h.hf u hu1 hu2
    · intro u hu1 hu2 hux huu
      rw [ei]
      by_cases huv : u = var
      · subst huv; exact hin
      · have hvu := hval u
        simp only [huv, if_false] at hvu
        exact h.hu u hu1 (e3 ▸ hu2) hux (by rw [← hvu]; exact huu)
    · rw [ei, e3]; exact h.isz

theorem hinv_popTrail {x} (target : Nat) : ∀ (fuel : Nat) (st : St), HInvX st x → HInvX (popTrail target fuel st) x := by
  intro fuel
  induction fuel with
  | zero => intro st h; exact h
  | succ fuel ih =>
    intro st h
    unfold popTrail
    split
    · exact h
    · exact ih _ (hinv_popOne h (by omega))

theorem hinv_unassignTo {st x} (h : HInvX st x) (level : Nat) : HInvX (unassignTo st level) x := by
  unfold unassignTo
  split
  · exact h
  · simp only
    have h0 : HInvX { st with trailLim := st.trailLim.extract 0 level } x :=
      hinv_frame h rfl rfl rfl rfl rfl rfl rfl rfl rfl rfl
    exact hinv_frame (hinv_popTrail _ _ _ h0) rfl rfl rfl rfl rfl rfl rfl rfl rfl rfl

/-! ### learned and blocking clauses -/

theorem hinv_pushLearned {st x} (h : HInvX st x) (X : Array Int) (hX : ∀ l ∈ X.toList, l ≠ 0) (LB : Array Nat) (nb : Nat) :
    HInvX { st with learned := st.learned.push X, lbd := LB, nBlocking := nb } x := by
  refine ⟨h.isz, h.vsz, h.tr, h.he, h.hf, h.hu, h.v0, h.t0, h.anz, ?_, ?_, h.bnz⟩
  · intro j hj l hl
    have hl' : l ∈ ((st.learned.push X)[j]!).toList := hl
    rw [get!_push] at hl'
    split at hl'
    · exact hX l hl'
    · rename_i hne
      have hj' : j < st.learned.size := by
        have : j < (st.learned.push X).size := hj
        simp at this; omega
      exact h.lnz j hj' l hl'
  · intro l idx hidx hno
    obtain ⟨a, b⟩ := h.wlr l idx hidx hno
    refine ⟨by show _ < (st.learned.push X).size; simp; omega, ?_⟩
    show 2 ≤ ((st.learned.push X)[idx - st.nOrig]!).size
    rw [get!_push]
    have : ¬ idx - st.nOrig = st.learned.size := by omega
    simp only [this, if_false]; exact b

theorem hinv_attach {st x} (h : HInvX st x) (c : Array Int) (idx : Nat)
    (_hno : st.nOrig ≤ idx) (hr : idx - st.nOrig < st.learned.size) (hc : st.learned[idx - st.nOrig]! = c) :
    HInvX (attach st c idx) x := by
  have hnz : ∀ l ∈ c.toList, l ≠ 0 := fun l hl => h.lnz _ hr l (hc ▸ hl)
  unfold attach
  split
  · rename_i h2
    have h2' : c.size = 2 := by simpa using h2
    exact hinv_bigAdd h (hnz _ ((mem_toList_iff_get! _ _).2 ⟨0, by omega, rfl⟩))
      (hnz _ ((mem_toList_iff_get! _ _).2 ⟨1, by omega, rfl⟩)) idx
  · split
    · rename_i h3
      have hok : st.nOrig ≤ idx → idx - st.nOrig < st.learned.size ∧ 2 ≤ (st.learned[idx - st.nOrig]!).size :=
        fun _ => ⟨hr, by rw [hc]; omega⟩
      exact hinv_addWatch (hinv_addWatch h _ _ hok) _ _ hok
    · exact h

/-! ### `reduce_db` -/

theorem hinv_reattach {x} (no : Nat) (keep : Array (Array Int)) : ∀ (fuel j : Nat) (st : St), HInvX st x →
    st.nOrig = no → st.learned = keep → j + fuel ≤ keep.size → HInvX (reattach no keep fuel j st) x := by
  intro fuel
  induction fuel with
  | zero => intro j st h _ _ _; exact h
  | succ fuel ih =>
    intro j st h hno hl hj
    unfold reattach
    simp only
    have hat : (if (keep[j]!).size == 2 then bigAdd st (keep[j]!)[0]! (keep[j]!)[1]! (no + j)
        else if (keep[j]!).size > 2 then addWatch (addWatch st (keep[j]!)[0]! (no + j)) (keep[j]!)[1]! (no + j) else st) =
        attach st keep[j]! (no + j) := by unfold attach; rfl
    rw [hat]
    have h1 : HInvX (attach st keep[j]! (no + j)) x :=
      hinv_attach h _ _ (by omega) (by rw [hno, hl]; omega) (by rw [hno, hl]; congr 1; omega)
    obtain ⟨_, _, _, _, _, _, _, _, e9, e10⟩ := attach_core st keep[j]! (no + j)
    exact ih (j + 1) _ h1 (e9.trans hno) (e10.trans hl) (by omega)

theorem hinv_reduceDb {st x} (h : HInvX st x) : HInvX (reduceDb st) x := by
  unfold reduceDb
  split
  · exact h
  · simp only
    apply hinv_reattach
    · -- the filtered state
      refine ⟨h.isz, h.vsz, h.tr, h.he, h.hf, h.hu, h.v0, h.t0, h.anz, ?_, ?_, ?_⟩
      · intro j hj l hl
        simp only at hj hl
        have hmem := (mem_toList_iff_get! _ _).2 ⟨j, hj, rfl⟩
        simp only [List.mem_map] at hmem
        obtain ⟨p, _, hp⟩ := hmem
        rw [← hp] at hl
        by_cases hps : p.1 < st.learned.size
        · exact h.lnz p.1 hps l hl
        · rw [get!_of_ge _ _ (by omega)] at hl
          have : (default : Array Int).toList = [] := rfl
          rw [this] at hl; cases hl
      · intro l idx hidx hno
        exfalso
        have : idx ∈ (wl st l).filter (· < st.nOrig) := by
          have : wl { st with watch := st.watch.map (·.filter (· < st.nOrig)) } l = (wl st l).filter (· < st.nOrig) := by
            unfold wl watchOf; exact get!_map_filter _ _ _
          rw [← this]; exact hidx
        have := (List.mem_filter.1 this).2
        simp only [decide_eq_true_eq] at this
        have hno' : st.nOrig ≤ idx := hno
        omega
      · intro l e he
        have : e ∈ (il st l).filter (·.2 < st.nOrig) := by
          have : il { st with big := st.big.map (·.filter (·.2 < st.nOrig)) } l = (il st l).filter (·.2 < st.nOrig) := by
            unfold il implications; exact get!_map_filter _ _ _
          rw [← this]; exact he
        exact h.bnz l e (List.mem_filter.1 this).1
    · rfl
    · rfl
    · omega

/-! ### activity bumps and `pick_var` -/

theorem hinv_bumpOne {st x} (h : HInvX st x) {v : Nat} (hv : 1 ≤ v) : HInvX (bumpOne st v) x := by
  unfold bumpOne
  simp only
  split
  · refine ⟨h.isz, h.vsz, h.tr, ?_, ?_, h.hu, h.v0, h.t0, h.anz, h.lnz, h.wlr, h.bnz⟩
    · intro e he
      rcases mem_heapPush.1 he with rfl | he
      · exact hv
      · exact h.he e he
    · intro u hu1 hu2
      obtain ⟨e, he, hev⟩ := h.hf u hu1 hu2
      exact ⟨e, mem_heapPush.2 (Or.inr he), hev⟩
  · exact hinv_frame h rfl rfl rfl rfl rfl rfl rfl rfl rfl rfl

theorem hinv_applyBumps {x} : ∀ (bs : List Nat) (st : St), HInvX st x → (∀ v ∈ bs, 1 ≤ v) → HInvX (applyBumps st bs) x := by
  intro bs st h hb
  unfold applyBumps
  simp only
  have key : ∀ (bs : List Nat) (st : St), HInvX st x → (∀ v ∈ bs, 1 ≤ v) → HInvX (bs.foldl bumpOne st) x := by
    intro bs
    induction bs with
    | nil => intro st h _; exact h
    | cons v t ih =>
      intro st h hb
      exact ih _ (hinv_bumpOne h (hb v List.mem_cons_self)) (fun u hu => hb u (List.mem_cons_of_mem _ hu))
  exact hinv_frame (key bs st h hb) rfl rfl rfl rfl rfl rfl rfl rfl rfl rfl

/-- `pick_var`: the popped variable (if any) is the only unassigned one that may lack a heap entry;
when the heap runs empty every variable is assigned -/
theorem h_pickLoop : ∀ (fuel : Nat) (st st' : St) (var : Nat), HInv st → st.heap.size < fuel →
    pickLoop fuel st = (st', var) →
    HInvX st' var ∧ (var = 0 → ∀ v, 1 ≤ v → v ≤ st'.nVars → valAt st' v ≠ UNDEF) := by
  intro fuel
  induction fuel with
  | zero => intro st st' var _ hf; omega
  | succ fuel ih =>
    intro st st' var h hfuel hs
    rw [pickLoop_eq_ref] at hs
    unfold pickLoopRef at hs
    split at hs
    · rename_i hpop
      simp only [Prod.mk.injEq] at hs
      obtain ⟨rfl, rfl⟩ := hs
      refine ⟨h, fun _ v hv1 hv2 hu => ?_⟩
      obtain ⟨e, he, _⟩ := h.hf v hv1 (h.hu v hv1 hv2 (by omega) hu)
      rw [heapPop_none hpop] at he; cases he
    · rename_i f v hp hpop
      have hperm := heapPop_some hpop
      have hv1 : 1 ≤ v := h.he (f, v) ((hperm.mem_iff).2 List.mem_cons_self)
      have hsz : hp.size < fuel := by
        have := hperm.length_eq
        simp only [Array.length_toList, List.length_cons] at this
        omega
      -- the state after the pop
      have h1 : HInvX { st with heap := hp, inHeap := st.inHeap.set! v false } v := by
        refine ⟨by show (st.inHeap.set! v false).size = _; rw [size_set!]; exact h.isz, h.vsz, h.tr, ?_, ?_, ?_,
          h.v0, h.t0, h.anz, h.lnz, h.wlr, h.bnz⟩
        · intro e he; exact h.he e ((hperm.mem_iff).2 (List.mem_cons_of_mem _ he))
        · intro u hu1 hu2
          have hu2' : (st.inHeap.set! v false)[u]! = true := hu2
          rw [get!_set!] at hu2'
          split at hu2'
          · cases hu2'
          · rename_i hne
            obtain ⟨e, he, hev⟩ := h.hf u hu1 hu2'
            rcases List.mem_cons.1 ((hperm.mem_iff).1 he) with rfl | he'
            · -- the popped entry belongs to `v`, so `u = v`: impossible unless the flag was just cleared
              exfalso
              simp only at hev
              have hvi : v < st.inHeap.size := by
                apply Classical.byContradiction
                intro hn
                rw [← hev, get!_of_ge _ _ (by omega)] at hu2'
                cases hu2'
              exact hne ⟨hev, hvi⟩
            · exact ⟨e, he', hev⟩
        · intro u hu1 hu2 hux huu
          show (st.inHeap.set! v false)[u]! = true
          rw [get!_set!]
          have : ¬ (v = u ∧ v < st.inHeap.size) := fun hh => hux hh.1.symm
          simp only [this, if_false]
          exact h.hu u hu1 hu2 (by omega) huu
      simp only at hs
      split at hs
      · simp only [Prod.mk.injEq] at hs
        obtain ⟨rfl, rfl⟩ := hs
        exact ⟨h1, fun h0 => by omega⟩
      · rename_i hasg
        -- `v` is assigned: the full invariant holds again
        have h2 : HInv { st with heap := hp, inHeap := st.inHeap.set! v false } := by
          refine { h1 with hu := ?_ }
          intro u hu1 hu2 _ huu
          by_cases huv : u = v
          · subst huv
            exfalso
            have : ¬ (st.vals[u]! == UNDEF) = true := hasg
            exact this (by simpa [valAt] using huu)
          · exact h1.hu u hu1 hu2 huv huu
        rw [← pickLoop_eq_ref] at hs
        exact ih _ _ _ h2 hsz hs

end Solvor.Sat.Cdcl
