import Solvor.Sat.CdclE
/-! Sat.CdclFuel: the fuel the mirror's loops run on is never exhausted. -/
namespace Solvor.Sat.Cdcl

theorem nodup_length_le : ∀ (N : Nat) (l : List Nat), l.Nodup → (∀ x ∈ l, x < N) → l.length ≤ N := by
  intro N
  induction N with
  | zero =>
    intro l _ h
    cases l with
    | nil => simp
    | cons a t => have := h a List.mem_cons_self; omega
  | succ N ih =>
    intro l hn h
    have h1 : (l.erase N).length ≤ N := by
      apply ih _ (hn.erase N)
      intro x hx
      have hx' := (List.Nodup.mem_erase_iff hn).1 hx
      have := h x hx'.2
      omega
    by_cases hm : N ∈ l
    · rw [List.length_erase_of_mem hm] at h1; omega
    · rw [List.erase_of_not_mem hm] at h1; omega

theorem Inv.trailLe {F st k} (h : Inv F st k) : st.trail.size ≤ st.nVars + 1 := by
  have := nodup_length_le (st.nVars + 1) st.trail.toList h.tnodup (fun x hx => by have := ((h.tmem x).1 hx).1; omega)
  simpa using this

/-! ### the watch loop -/

theorem wl_length_setClause (st : St) (c : Nat) (X : Array Int) (l : Int) : wl (setClause st c X) l = wl st l := by
  unfold setClause; split <;> rfl

theorem wl_assign (st : St) (v : Nat) (b : Bool) (r : Int) (l : Int) : wl (assign st v b r) l = wl st l := rfl

/-- every continuing step of the watch loop brings the position closer to the end of the list -/
theorem watchStep_measure {fl : Int} {st : St} {i : Nat} {st' : St} {i' : Nat} (hfalse : litValue st fl = some false)
    (hr : litIdx fl < st.watch.size)
    (hs : watchStep fl st i = .inl (st', i')) :
    i' ≤ (wl st' fl).length ∧ (wl st' fl).length - i' < (wl st fl).length - i := by
  unfold watchStep at hs
  simp only at hs
  split at hs
  case isFalse => cases hs
  case isTrue hisz =>
  have hlen : (wl st fl).length = (watchOf st fl).size := by simp [wl]
  generalize (watchOf st fl)[i]! = cidx at hs
  split at hs
  · cases hs
  · split at hs
    · simp only [Sum.inl.injEq, Prod.mk.injEq] at hs
      obtain ⟨rfl, rfl⟩ := hs
      rw [wl_length_setClause]; omega
    · split at hs
      · rename_i k hk
        simp only [Sum.inl.injEq, Prod.mk.injEq] at hs
        obtain ⟨rfl, rfl⟩ := hs
        obtain ⟨_, _, hknf⟩ := findNonFalse_some st _ _ _ _ hk
        generalize hX : swap1k (orient fl (getClause st cidx)) k = X
        -- the new watched literal is not `fl`
        have hX1 : X[1]! ≠ fl := by
          intro e
          have : X[1]! = (orient fl (getClause st cidx))[k]! := by
            rw [← hX]; unfold swap1k
            by_cases hb : 1 < (orient fl (getClause st cidx)).size ∧ k < (orient fl (getClause st cidx)).size
            · rw [swapIB_get! _ 1 k 1 hb.1 hb.2]
              by_cases hk1 : 1 = k
              · subst hk1; simp
              · simp [hk1]
            · unfold Array.swapIfInBounds
              by_cases h1 : 1 < (orient fl (getClause st cidx)).size
              · have h2 : ¬ k < (orient fl (getClause st cidx)).size := fun h2 => hb ⟨h1, h2⟩
                simp only [h1, h2, dif_pos, dif_neg, not_false_eq_true]
                rw [get!_of_ge _ k (by omega)]
                exfalso
                rw [get!_of_ge _ k (by omega)] at hknf
                -- the literal 0 read out of range: cannot be reached, `findNonFalse` stays in range
                obtain ⟨a, b, _⟩ := findNonFalse_some st _ _ _ _ hk
                omega
              · obtain ⟨a, b, _⟩ := findNonFalse_some st _ _ _ _ hk
                omega
          rw [this] at e
          rw [e] at hknf
          exact hknf hfalse
        unfold moveWatch
        rw [wl_addWatch]
        have hne : ¬ (fl = X[1]! ∧ litIdx X[1]! < (removeWatchAt (setClause st cidx X) fl i).watch.size) :=
          fun hh => hX1 hh.1.symm
        simp only [hne, if_false]
        rw [wl_removeWatchAt]
        have hsz : (setClause st cidx X).watch.size = st.watch.size := by unfold setClause; split <;> rfl
        rw [hsz]
        simp only [hr, and_self, if_true]
        have hwl : wl (setClause st cidx X) fl = wl st fl := wl_length_setClause _ _ _ _
        rw [hwl]
        simp only [List.length_dropLast, List.length_set]
        omega
      · split at hs
        · cases hs
        · simp only [Sum.inl.injEq, Prod.mk.injEq] at hs
          obtain ⟨rfl, rfl⟩ := hs
          rw [wl_assign, wl_length_setClause]; omega

theorem watchStep_inr_nofuel {fl : Int} {st : St} {i : Nat} {st' : St} {r : PRes}
    (hs : watchStep fl st i = .inr (st', r)) : r ≠ .fuel := by
  unfold watchStep at hs
  simp only at hs
  split at hs
  · split at hs
    · simp only [Sum.inr.injEq, Prod.mk.injEq] at hs; obtain ⟨_, rfl⟩ := hs; intro h; cases h
    · split at hs
      · cases hs
      · split at hs
        · cases hs
        · split at hs
          · simp only [Sum.inr.injEq, Prod.mk.injEq] at hs; obtain ⟨_, rfl⟩ := hs; intro h; cases h
          · cases hs
  · simp only [Sum.inr.injEq, Prod.mk.injEq] at hs; obtain ⟨_, rfl⟩ := hs; intro h; cases h

theorem ctx_false {F st p fl x} (hI : Inv F st p) (ctx : Ctx st p fl) (h : HInvX st x) : litValue st fl = some false := by
  apply ctx.isF
  intro e
  have hm : st.trail[p]! ∈ st.trail.toList := (mem_toList_iff_get! _ _).2 ⟨p, ctx.pLt, rfl⟩
  rw [ctx.var, e] at hm
  exact h.t0 hm

theorem watchLoop_nofuel {F p fl x} : ∀ (fuel : Nat) (st : St) (i : Nat), Inv F st p → Ctx st p fl → Done F st fl i →
    HInvX st x → (wl st fl).length - i < fuel → (watchLoop fl fuel st i).2 ≠ .fuel := by
  intro fuel
  induction fuel with
  | zero => intro st i _ _ _ _ h; omega
  | succ fuel ih =>
    intro st i hI ctx hd h hm
    unfold watchLoop
    split
    · rename_i st1 i1 hstep
      obtain ⟨h1, e1, d1⟩ := watchStep_inl hI ctx hd hstep
      obtain ⟨k1, _⟩ := h_watchStep (fl := fl) (i := i) hI h
      obtain ⟨_, m2⟩ := watchStep_measure (ctx_false hI ctx h) (ctx.litIdxLt hI) hstep
      exact ih st1 i1 h1 (ctx.ext e1) d1 (k1 st1 i1 hstep) (by omega)
    · rename_i r hstep
      obtain ⟨st', r'⟩ := r
      exact watchStep_inr_nofuel hstep

/-! ### the propagation loop -/

theorem propStep_nofuel {F st x} (hI : Inv F st st.propHead) (h : HInvX st x) :
    ∀ st' r, propStep st = .inr (st', r) → r ≠ .fuel := by
  unfold propStep
  simp only
  split
  · intro st' r hs; simp only [Sum.inr.injEq, Prod.mk.injEq] at hs; obtain ⟨_, rfl⟩ := hs; intro hh; cases hh
  · rename_i hlt
    have hp : st.propHead < st.trail.size := by omega
    have h0 : Inv F { st with propHead := st.propHead + 1 } st.propHead :=
      inv_frame hI rfl rfl rfl rfl rfl rfl rfl rfl rfl
    have hh0 : HInvX { st with propHead := st.propHead + 1 } x := hinv_frame h rfl rfl rfl rfl rfl rfl rfl rfl rfl rfl
    have ctx0 := ctx_of_trail h0 hp
    simp only at ctx0
    generalize hfl : (if st.vals[st.trail[st.propHead]!]! == 0 then (st.trail[st.propHead]! : Int)
      else -(st.trail[st.propHead]! : Int)) = fl at ctx0
    have hbn : ∀ e ∈ (implications { st with propHead := st.propHead + 1 } fl).toList, e.1 ≠ 0 :=
      fun e he => hh0.bnz fl e he
    have hh1 := h_implLoop _ _ hh0 hbn
    split
    · intro st' r hs; simp only [Sum.inr.injEq, Prod.mk.injEq] at hs; obtain ⟨_, rfl⟩ := hs; intro hh; cases hh
    · rename_i st1 himp
      rw [himp] at hh1
      obtain ⟨h1, e1, _⟩ := implLoop_spec _ _ _ _ h0 himp
      have ctx1 := ctx0.ext e1
      have hnf := watchLoop_nofuel (F := F) (p := st.propHead) (fl := fl) ((watchOf st1 fl).size + 1) st1 0 h1 ctx1
        (fun j c hj => by omega) hh1 (by simp [wl])
      split
      · intro st' r hs; cases hs
      · intro st' r hs; simp only [Sum.inr.injEq, Prod.mk.injEq] at hs; obtain ⟨_, rfl⟩ := hs; intro hh; cases hh
      · rename_i st2 r2 _ _ hw
        rw [hw] at hnf
        intro st' r hs; simp only [Sum.inr.injEq, Prod.mk.injEq] at hs; obtain ⟨_, rfl⟩ := hs
        exact hnf

theorem propLoop_nofuel {F x} : ∀ (fuel : Nat) (st : St), Inv F st st.propHead → HInvX st x →
    st.nVars + 1 - st.propHead < fuel → (propLoop fuel st).2 ≠ .fuel := by
  intro fuel
  induction fuel with
  | zero => intro st _ _ h; omega
  | succ fuel ih =>
    intro st hI h hm
    unfold propLoop
    obtain ⟨s1, _⟩ := propStep_spec hI
    obtain ⟨k1, _⟩ := h_propStep hI h
    split
    · rename_i st2 hstep
      obtain ⟨h2, e2, hph⟩ := s1 st2 hstep
      have hle := h2.trailLe
      have hk := h2.kLe
      apply ih st2 h2 (k1 st2 hstep)
      rw [e2.nV, hph]
      -- the head was below the trail size, which is at most `nVars + 1`
      have : st.propHead + 1 ≤ st2.trail.size := by rw [← hph]; exact hk
      rw [e2.nV] at hle
      omega
    · rename_i r hstep
      obtain ⟨st', r'⟩ := r
      exact propStep_nofuel hI h st' r' hstep

theorem propagate_nofuel {F st x} (hI : Inv F st st.propHead) (h : HInvX st x) : (propagate st).2 ≠ .fuel := by
  unfold propagate
  simp only
  generalize hq : (if (st.trailLim.size == 0) = true then assumeLoop st.assumptions st else (st, false)) = q
  obtain ⟨s1, bad⟩ := q
  have hs1 : HInvX s1 x ∧ Inv F s1 s1.propHead := by
    split at hq
    · have := h_assumeLoop st.assumptions st h h.anz
      obtain ⟨a, _, c, _⟩ := assumeLoop_spec _ _ _ _ hI hq
      rw [hq] at this
      exact ⟨this, c ▸ a⟩
    · simp only [Prod.mk.injEq] at hq; obtain ⟨rfl, rfl⟩ := hq; exact ⟨h, hI⟩
  simp only
  split
  · intro hh; cases hh
  · exact propLoop_nofuel _ _ hs1.2 hs1.1 (by omega)

/-! ### counters -/

/-- `decisions` and `conflicts` unchanged -/
def CD (st st' : St) : Prop := st'.decisions = st.decisions ∧ st'.conflicts = st.conflicts ∧ st'.restarts = st.restarts

theorem CD.refl (st : St) : CD st st := ⟨rfl, rfl, rfl⟩
theorem CD.trans {a b c : St} (h1 : CD a b) (h2 : CD b c) : CD a c :=
  ⟨h2.1.trans h1.1, h2.2.1.trans h1.2.1, h2.2.2.trans h1.2.2⟩

theorem cd_setClause (st : St) (c : Nat) (X : Array Int) : CD st (setClause st c X) := by
  unfold setClause; split <;> exact ⟨rfl, rfl, rfl⟩

theorem cd_watchStep (fl : Int) (st : St) (i : Nat) :
    (∀ st' i', watchStep fl st i = .inl (st', i') → CD st st') ∧ (∀ st' r, watchStep fl st i = .inr (st', r) → CD st st') := by
  unfold watchStep
  simp only
  split
  case isFalse => exact ⟨fun _ _ hs => (by cases hs), fun _ _ hs => (by cases hs; exact CD.refl _)⟩
  case isTrue =>
  generalize (watchOf st fl)[i]! = cidx
  split
  · exact ⟨fun _ _ hs => (by cases hs), fun _ _ hs => (by cases hs; exact CD.refl _)⟩
  · split
    · refine ⟨fun _ _ hs => ?_, fun _ _ hs => (by cases hs)⟩
      simp only [Sum.inl.injEq, Prod.mk.injEq] at hs
      obtain ⟨rfl, rfl⟩ := hs
      exact cd_setClause _ _ _
    · split
      · refine ⟨fun _ _ hs => ?_, fun _ _ hs => (by cases hs)⟩
        simp only [Sum.inl.injEq, Prod.mk.injEq] at hs
        obtain ⟨rfl, rfl⟩ := hs
        unfold moveWatch
        exact (cd_setClause _ _ _).trans ⟨rfl, rfl, rfl⟩
      · split
        · refine ⟨fun _ _ hs => (by cases hs), fun _ _ hs => ?_⟩
          simp only [Sum.inr.injEq, Prod.mk.injEq] at hs
          obtain ⟨rfl, rfl⟩ := hs
          exact cd_setClause _ _ _
        · refine ⟨fun _ _ hs => ?_, fun _ _ hs => (by cases hs)⟩
          simp only [Sum.inl.injEq, Prod.mk.injEq] at hs
          obtain ⟨rfl, rfl⟩ := hs
          exact (cd_setClause _ _ _).trans ⟨rfl, rfl, rfl⟩

theorem cd_watchLoop (fl : Int) : ∀ (fuel : Nat) (st : St) (i : Nat), CD st (watchLoop fl fuel st i).1 := by
  intro fuel
  induction fuel with
  | zero => intro st i; exact CD.refl _
  | succ fuel ih =>
    intro st i
    unfold watchLoop
    obtain ⟨k1, k2⟩ := cd_watchStep fl st i
    split
    · rename_i st1 i1 hstep; exact (k1 st1 i1 hstep).trans (ih st1 i1)
    · rename_i r hstep; obtain ⟨st', r'⟩ := r; exact k2 st' r' hstep

theorem cd_implLoop : ∀ (xs : List (Int × Nat)) (st : St), CD st (implLoop xs st).1 := by
  intro xs
  induction xs with
  | nil => intro st; exact CD.refl _
  | cons e t ih =>
    intro st
    obtain ⟨implied, cidx⟩ := e
    unfold implLoop
    simp only
    split
    · exact CD.trans ⟨rfl, rfl, rfl⟩ (ih _)
    · split
      · exact CD.refl _
      · exact ih st

theorem cd_assumeLoop : ∀ (xs : List Int) (st : St), CD st (assumeLoop xs st).1 := by
  intro xs
  induction xs with
  | nil => intro st; exact CD.refl _
  | cons a t ih =>
    intro st
    unfold assumeLoop
    simp only
    split
    · exact CD.trans ⟨rfl, rfl, rfl⟩ (ih _)
    · split
      · exact CD.refl _
      · exact ih st

/-- number of conflicts a `propagate` outcome adds -/
def pend : PRes → Nat
  | .conflict _ => 1
  | .assumption => 1
  | _ => 0

theorem propStep_cnt (st : St) :
    (∀ st2, propStep st = .inl st2 → CD st st2) ∧
    (∀ st' r, propStep st = .inr (st', r) → st'.decisions = st.decisions ∧ st'.restarts = st.restarts ∧
      st'.conflicts = st.conflicts + pend r) := by
  unfold propStep
  simp only
  split
  · refine ⟨fun _ hs => (by cases hs), fun st' r hs => ?_⟩
    simp only [Sum.inr.injEq, Prod.mk.injEq] at hs; obtain ⟨rfl, rfl⟩ := hs; exact ⟨rfl, rfl, rfl⟩
  · generalize (if (st.vals[st.trail[st.propHead]!]! == 0) = true then (st.trail[st.propHead]! : Int)
      else -(st.trail[st.propHead]! : Int)) = fl
    have h1 := cd_implLoop (implications { st with propHead := st.propHead + 1 } fl).toList
      { st with propHead := st.propHead + 1 }
    split
    · rename_i st1 cidx himp
      rw [himp] at h1
      refine ⟨fun _ hs => (by cases hs), fun st' r hs => ?_⟩
      simp only [Sum.inr.injEq, Prod.mk.injEq] at hs
      obtain ⟨rfl, rfl⟩ := hs
      exact ⟨h1.1, h1.2.2, by show st1.conflicts + 1 = _; rw [h1.2.1]; rfl⟩
    · rename_i st1 himp
      rw [himp] at h1
      have h2 := cd_watchLoop fl ((watchOf st1 fl).size + 1) st1 0
      split
      · rename_i st2 hw
        rw [hw] at h2
        refine ⟨fun st2' hs => ?_, fun _ _ hs => (by cases hs)⟩
        simp only [Sum.inl.injEq] at hs
        subst hs
        exact CD.trans (a := st) ⟨h1.1, h1.2.1, h1.2.2⟩ h2
      · rename_i st2 cidx hw
        rw [hw] at h2
        refine ⟨fun _ hs => (by cases hs), fun st' r hs => ?_⟩
        simp only [Sum.inr.injEq, Prod.mk.injEq] at hs
        obtain ⟨rfl, rfl⟩ := hs
        exact ⟨h2.1.trans h1.1, h2.2.2.trans h1.2.2, by show st2.conflicts + 1 = _; rw [h2.2.1, h1.2.1]; rfl⟩
      · rename_i st2 r2 hnok hncf hw
        rw [hw] at h2
        refine ⟨fun _ hs => (by cases hs), fun st' r hs => ?_⟩
        simp only [Sum.inr.injEq, Prod.mk.injEq] at hs
        obtain ⟨rfl, rfl⟩ := hs
        refine ⟨h2.1.trans h1.1, h2.2.2.trans h1.2.2, ?_⟩
        have hp : pend r2 = 0 := by
          cases r2 with
          | ok => exact (hnok rfl).elim
          | conflict c => exact (hncf c rfl).elim
          | assumption =>
            exfalso
            -- the watch loop never reports an assumption conflict
            have : ∀ (fuel : Nat) (s : St) (i : Nat), (watchLoop fl fuel s i).2 ≠ .assumption := by
              intro fuel
              induction fuel with
              | zero => intro s i hh; cases hh
              | succ fuel ih =>
                intro s i
                unfold watchLoop
                split
                · exact ih _ _
                · rename_i r hstep
                  obtain ⟨s', r'⟩ := r
                  intro hh
                  simp only at hh
                  subst hh
                  unfold watchStep at hstep
                  simp only at hstep
                  split at hstep
                  · split at hstep
                    · cases hstep
                    · split at hstep
                      · cases hstep
                      · split at hstep
                        · cases hstep
                        · split at hstep <;> cases hstep
                  · cases hstep
            exact this _ _ _ (by rw [hw])
          | fuel => rfl
        rw [hp]; exact h2.2.1.trans h1.2.1

theorem propLoop_cnt : ∀ (fuel : Nat) (st : St), (propLoop fuel st).1.decisions = st.decisions ∧
    (propLoop fuel st).1.restarts = st.restarts ∧
    (propLoop fuel st).1.conflicts = st.conflicts + pend (propLoop fuel st).2 := by
  intro fuel
  induction fuel with
  | zero => intro st; exact ⟨rfl, rfl, rfl⟩
  | succ fuel ih =>
    intro st
    unfold propLoop
    obtain ⟨k1, k2⟩ := propStep_cnt st
    split
    · rename_i st2 hstep
      obtain ⟨a, b, c⟩ := k1 st2 hstep
      obtain ⟨d, e, f⟩ := ih st2
      exact ⟨d.trans a, e.trans c, by rw [f, b]⟩
    · rename_i r hstep
      obtain ⟨st', r'⟩ := r
      exact k2 st' r' hstep

theorem propagate_cnt (st : St) : (propagate st).1.decisions = st.decisions ∧ (propagate st).1.restarts = st.restarts ∧
    (propagate st).1.conflicts = st.conflicts + pend (propagate st).2 := by
  unfold propagate
  simp only
  generalize hq : (if (st.trailLim.size == 0) = true then assumeLoop st.assumptions st else (st, false)) = q
  obtain ⟨s1, bad⟩ := q
  have h1 : CD st s1 := by
    split at hq
    · have := cd_assumeLoop st.assumptions st; rw [hq] at this; exact this
    · simp only [Prod.mk.injEq] at hq; obtain ⟨rfl, _⟩ := hq; exact CD.refl _
  simp only
  split
  · exact ⟨h1.1, h1.2.2, by show s1.conflicts + 1 = _; rw [h1.2.1]; rfl⟩
  · obtain ⟨a, b, c⟩ := propLoop_cnt (s1.nVars + 2) s1
    exact ⟨a.trans h1.1, b.trans h1.2.2, by rw [c, h1.2.1]⟩

/-! ### the operations of the main loop: decision / conflict counters, decision level, trail length -/

/-- counters, trail and decision levels untouched (heap, watch-list and clause-database operations) -/
structure Sh (st st' : St) : Prop where
  dec : st'.decisions = st.decisions
  con : st'.conflicts = st.conflicts
  lim : st'.trailLim = st.trailLim
  tr : st'.trail = st.trail

theorem Sh.refl (st : St) : Sh st st := ⟨rfl, rfl, rfl, rfl⟩
theorem Sh.trans {a b c : St} (h1 : Sh a b) (h2 : Sh b c) : Sh a c :=
  ⟨h2.dec.trans h1.dec, h2.con.trans h1.con, h2.lim.trans h1.lim, h2.tr.trans h1.tr⟩

theorem sh_addWatch (st : St) (l : Int) (i : Nat) : Sh st (addWatch st l i) := ⟨rfl, rfl, rfl, rfl⟩
theorem sh_bigAdd (st : St) (a b : Int) (i : Nat) : Sh st (bigAdd st a b i) := ⟨rfl, rfl, rfl, rfl⟩

theorem sh_attach (st : St) (c : Array Int) (i : Nat) : Sh st (attach st c i) := by
  unfold attach
  split
  · exact sh_bigAdd _ _ _ _
  · split
    · exact (sh_addWatch _ _ _).trans (sh_addWatch _ _ _)
    · exact Sh.refl _

theorem sh_reattach (no : Nat) (keep : Array (Array Int)) : ∀ (fuel j : Nat) (st : St), Sh st (reattach no keep fuel j st) := by
  intro fuel
  induction fuel with
  | zero => intro j st; exact Sh.refl _
  | succ fuel ih =>
    intro j st
    unfold reattach
    simp only
    refine Sh.trans ?_ (ih _ _)
    split
    · exact sh_bigAdd _ _ _ _
    · split
      · exact (sh_addWatch _ _ _).trans (sh_addWatch _ _ _)
      · exact Sh.refl _

theorem sh_reduceDb (st : St) : Sh st (reduceDb st) := by
  unfold reduceDb
  split
  · exact Sh.refl _
  · exact ⟨(sh_reattach _ _ _ _ _).dec, (sh_reattach _ _ _ _ _).con, (sh_reattach _ _ _ _ _).lim, (sh_reattach _ _ _ _ _).tr⟩

theorem sh_bumpOne (st : St) (v : Nat) : Sh st (bumpOne st v) := by
  unfold bumpOne; simp only; split <;> exact ⟨rfl, rfl, rfl, rfl⟩

theorem sh_applyBumps (bs : List Nat) (st : St) : Sh st (applyBumps st bs) := by
  have key : ∀ (bs : List Nat) (st : St), Sh st (bs.foldl bumpOne st) := by
    intro bs
    induction bs with
    | nil => intro st; exact Sh.refl _
    | cons b t ih => intro st; exact (sh_bumpOne st b).trans (ih _)
  unfold applyBumps
  exact (key bs st).trans ⟨rfl, rfl, rfl, rfl⟩

theorem sh_pickLoop : ∀ (fuel : Nat) (st : St), Sh st (pickLoop fuel st).1 := by
  intro fuel
  induction fuel with
  | zero => intro st; exact Sh.refl _
  | succ fuel ih =>
    intro st
    rw [pickLoop_eq_ref]
    unfold pickLoopRef
    split
    · exact Sh.refl _
    · simp only
      split
      · exact ⟨rfl, rfl, rfl, rfl⟩
      · rw [← pickLoop_eq_ref]; exact ⟨(ih _).dec, (ih _).con, (ih _).lim, (ih _).tr⟩

theorem popOne_cnt (st : St) : (popOne st).decisions = st.decisions ∧ (popOne st).conflicts = st.conflicts ∧
    (popOne st).trailLim = st.trailLim := by
  unfold popOne; simp only; split <;> exact ⟨rfl, rfl, rfl⟩

theorem popTrail_cnt (target : Nat) : ∀ (fuel : Nat) (st : St), (popTrail target fuel st).decisions = st.decisions ∧
    (popTrail target fuel st).conflicts = st.conflicts ∧ (popTrail target fuel st).trailLim = st.trailLim := by
  intro fuel
  induction fuel with
  | zero => intro st; exact ⟨rfl, rfl, rfl⟩
  | succ fuel ih =>
    intro st
    unfold popTrail
    split
    · exact ⟨rfl, rfl, rfl⟩
    · obtain ⟨a, b, c⟩ := ih (popOne st)
      obtain ⟨a', b', c'⟩ := popOne_cnt st
      exact ⟨a.trans a', b.trans b', c.trans c'⟩

/-- `unassign_to(level)`: counters untouched, at most `level` decision levels remain -/
theorem unassignTo_cnt (st : St) (level : Nat) : (unassignTo st level).decisions = st.decisions ∧
    (unassignTo st level).conflicts = st.conflicts ∧ (unassignTo st level).trailLim.size ≤ level ∧
    (unassignTo st level).trailLim.size ≤ st.trailLim.size := by
  unfold unassignTo
  split
  · rename_i h; exact ⟨rfl, rfl, h, Nat.le_refl _⟩
  · simp only
    obtain ⟨a, b, c⟩ := popTrail_cnt (st.trailLim[level]!) st.trail.size { st with trailLim := st.trailLim.extract 0 level }
    refine ⟨a, b, ?_, ?_⟩
    · show (popTrail _ _ _).trailLim.size ≤ level
      rw [c]; simp only [Array.size_extract]; omega
    · show (popTrail _ _ _).trailLim.size ≤ _
      rw [c]; simp only [Array.size_extract]; omega

theorem learnAndJump_cnt (st : St) (lc : Array Int) (bt lbd : Nat) :
    (learnAndJump st lc bt lbd).decisions = st.decisions ∧ (learnAndJump st lc bt lbd).conflicts = st.conflicts ∧
    (learnAndJump st lc bt lbd).trailLim.size ≤ bt := by
  unfold learnAndJump
  simp only
  obtain ⟨a, b, c, _⟩ := unassignTo_cnt st bt
  have h := sh_attach { unassignTo st bt with learned := (unassignTo st bt).learned.push lc, lbd := (unassignTo st bt).lbd.push lbd } lc
    ((unassignTo st bt).nOrig + (unassignTo st bt).learned.size)
  refine ⟨?_, ?_, ?_⟩
  · show (attach _ _ _).decisions = _; rw [h.dec]; exact a
  · show (attach _ _ _).conflicts = _; rw [h.con]; exact b
  · show (attach _ _ _).trailLim.size ≤ _; rw [h.lim]; exact c

theorem restartSt_cnt (st : St) : (restartSt st).decisions = st.decisions ∧ (restartSt st).conflicts = st.conflicts ∧
    (restartSt st).trailLim.size = 0 := by
  unfold restartSt
  have h := sh_reduceDb (unassignTo { st with restarts := st.restarts + 1 } 0)
  obtain ⟨a, b, c, _⟩ := unassignTo_cnt { st with restarts := st.restarts + 1 } 0
  exact ⟨h.dec.trans a, h.con.trans b, by rw [h.lim]; omega⟩

theorem blockSt_cnt (st : St) (blocking : Array Int) : (blockSt st blocking).decisions = st.decisions ∧
    (blockSt st blocking).conflicts = st.conflicts ∧ (blockSt st blocking).trailLim.size = 0 := by
  unfold blockSt
  simp only
  generalize hs0 : ({ st with learned := st.learned.push blocking, lbd := st.lbd.push 0, nBlocking := st.nBlocking + 1 } : St) = s0
  have e0 : s0.decisions = st.decisions ∧ s0.conflicts = st.conflicts := by subst hs0; exact ⟨rfl, rfl⟩
  obtain ⟨a, b, c, _⟩ := unassignTo_cnt s0 0
  split
  · exact ⟨a.trans e0.1, b.trans e0.2, by show (unassignTo s0 0).trailLim.size = 0; omega⟩
  · have h := sh_attach (unassignTo s0 0) blocking (st.nOrig + st.learned.size)
    exact ⟨h.dec.trans (a.trans e0.1), h.con.trans (b.trans e0.2), by rw [h.lim]; omega⟩

theorem decideSt_cnt (st : St) (var : Nat) : (decideSt st var).decisions = st.decisions + 1 ∧
    (decideSt st var).conflicts = st.conflicts ∧ (decideSt st var).trailLim.size = st.trailLim.size + 1 ∧
    (decideSt st var).trail.size = st.trail.size + 1 := by
  unfold decideSt assign
  exact ⟨rfl, rfl, by simp, by simp⟩

end Solvor.Sat.Cdcl
