import Solvor.Sat.Drive
def main : IO Unit := Solvor.Proto.serve Solvor.Sat.handle
