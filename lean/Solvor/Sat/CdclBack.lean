import Solvor.Sat.CdclOps
/-! Sat.CdclBack: `unassignTo` (backjump / restart) keeps the invariant; everything at or below
the target level stays assigned. -/
namespace Solvor.Sat.Cdcl

/-- fields `popTrail` does not touch -/
structure PopFrame (st st' : St) : Prop where
  nVars : st'.nVars = st.nVars
  nOrig : st'.nOrig = st.nOrig
  asm : st'.assumptions = st.assumptions
  clauses : st'.clauses = st.clauses
  levels : st'.levels = st.levels
  trailLim : st'.trailLim = st.trailLim
  watch : st'.watch = st.watch
  big : st'.big = st.big
  vsize : st'.vals.size = st.vals.size

theorem popTrail_spec (target : Nat) : ∀ (fuel : Nat) (st : St), st.trail.size ≤ target + fuel →
    PopFrame st (popTrail target fuel st) ∧
    (popTrail target fuel st).trail.toList = st.trail.toList.take target ∧
    (∀ v, v < st.vals.size → valAt (popTrail target fuel st) v =
      if v ∈ st.trail.toList.drop target then UNDEF else valAt st v) ∧
    (∀ v, st.vals.size ≤ v → valAt (popTrail target fuel st) v = valAt st v) := by
  intro fuel
  induction fuel with
  | zero =>
    intro st hsz
    unfold popTrail
    refine ⟨⟨rfl, rfl, rfl, rfl, rfl, rfl, rfl, rfl, rfl⟩, ?_, ?_, fun _ _ => rfl⟩
    · rw [List.take_of_length_le (by simpa using hsz)]
    · intro v _
      have : st.trail.toList.drop target = [] := List.drop_of_length_le (by simpa using hsz)
      simp [this]
  | succ fuel ih =>
    intro st hsz
    unfold popTrail
    split
    · rename_i hle
      refine ⟨⟨rfl, rfl, rfl, rfl, rfl, rfl, rfl, rfl, rfl⟩, ?_, ?_, fun _ _ => rfl⟩
      · rw [List.take_of_length_le (by simpa using hle)]
      · intro v _
        have : st.trail.toList.drop target = [] := List.drop_of_length_le (by simpa using hle)
        simp [this]
    · rename_i hgt
      generalize hs1 : popOne st = s1
      have f1 : s1.nVars = st.nVars ∧ s1.nOrig = st.nOrig ∧ s1.assumptions = st.assumptions ∧ s1.clauses = st.clauses ∧
          s1.levels = st.levels ∧ s1.trailLim = st.trailLim ∧ s1.watch = st.watch ∧ s1.big = st.big ∧
          s1.vals = st.vals.set! st.trail.back! UNDEF ∧ s1.trail = st.trail.pop := by
        subst hs1; unfold popOne; simp only; split <;> exact ⟨rfl, rfl, rfl, rfl, rfl, rfl, rfl, rfl, rfl, rfl⟩
      obtain ⟨g1, g2, g3, g4, g5, g6, g7, g8, g9, g10⟩ := f1
      have hsz1 : s1.trail.size ≤ target + fuel := by rw [g10, Array.size_pop]; omega
      obtain ⟨fr, ht, hv, hv'⟩ := ih s1 hsz1
      have hne : st.trail.toList ≠ [] := by
        intro e; have := congrArg List.length e; simp only [Array.length_toList, List.length_nil] at this; omega
      have hlast : st.trail.toList.getLast? = some st.trail.back! := by
        rw [Array.back!_eq_back?, Array.back?_eq_getElem?, List.getLast?_eq_getElem?]
        simp only [Array.length_toList, Array.getElem?_toList]
        have : st.trail.size - 1 < st.trail.size := by omega
        simp [this]
      obtain ⟨ys, hys⟩ := List.getLast?_eq_some_iff.1 hlast
      have hpop : s1.trail.toList = ys := by rw [g10, Array.toList_pop, hys, List.dropLast_concat]
      have hlen : ys.length = st.trail.size - 1 := by
        have := congrArg List.length hys; simp at this; omega
      have htl : target ≤ ys.length := by omega
      refine ⟨⟨fr.nVars.trans g1, fr.nOrig.trans g2, fr.asm.trans g3, fr.clauses.trans g4, fr.levels.trans g5,
        fr.trailLim.trans g6, fr.watch.trans g7, fr.big.trans g8, ?_⟩, ?_, ?_, ?_⟩
      · rw [fr.vsize, g9, size_set!]
      · rw [ht, hpop, hys, List.take_append_of_le_length htl]
      · intro v hvs
        have hvs1 : v < s1.vals.size := by rw [g9, size_set!]; exact hvs
        rw [hv v hvs1, hpop, hys, List.drop_append_of_le_length htl]
        have hval1 : valAt s1 v = if st.trail.back! = v ∧ st.trail.back! < st.vals.size then UNDEF else valAt st v := by
          unfold valAt; rw [g9, get!_set!]
        by_cases hin : v ∈ ys.drop target
        · simp [hin]
        · simp only [hin, if_false, List.mem_append, false_or, List.mem_singleton]
          rw [hval1]
          by_cases hb : v = st.trail.back!
          · subst hb; simp [hvs]
          · have : ¬ (st.trail.back! = v ∧ st.trail.back! < st.vals.size) := fun hh => hb hh.1.symm
            simp [hb, this]
      · intro v hvs
        have hvs1 : s1.vals.size ≤ v := by rw [g9, size_set!]; exact hvs
        rw [hv' v hvs1]
        unfold valAt; rw [g9, get!_set!]
        have : ¬ (st.trail.back! = v ∧ st.trail.back! < st.vals.size) := fun hh => by omega
        simp [this]

/-- what a backjump to `level` does to the assignment -/
structure Back (st st' : St) (level : Nat) : Prop where
  nVars : st'.nVars = st.nVars
  nOrig : st'.nOrig = st.nOrig
  asm : st'.assumptions = st.assumptions
  clauses : st'.clauses = st.clauses
  levels : st'.levels = st.levels
  watch : st'.watch = st.watch
  big : st'.big = st.big
  keep : ∀ v, lvlAt st v ≤ level → valAt st' v = valAt st v
  gone : ∀ v, v ≤ st.nVars → valAt st v ≠ UNDEF → level < lvlAt st v → valAt st' v = UNDEF
  undef : ∀ v, valAt st v = UNDEF → valAt st' v = UNDEF

theorem get!_toList_take {α} [Inhabited α] (a b : Array α) (n i : Nat) (h : b.toList = a.toList.take n) (hi : i < n) :
    b[i]! = a[i]! := by
  rw [get!_eq, get!_eq, ← Array.getElem?_toList, h, List.getElem?_take, if_pos hi, Array.getElem?_toList]

theorem unassignTo_spec {F st k level} (h : Inv F st k) (hl : level < st.trailLim.size) :
    Inv F (unassignTo st level) (unassignTo st level).trail.size ∧
    (unassignTo st level).propHead = (unassignTo st level).trail.size ∧
    (unassignTo st level).trailLim.size = level ∧ Back st (unassignTo st level) level := by
  have hnle : ¬ st.trailLim.size ≤ level := by omega
  unfold unassignTo
  simp only [hnle, if_false]
  generalize hs0 : ({ st with trailLim := st.trailLim.extract 0 level } : St) = s0
  have hs0t : s0.trail = st.trail := by subst hs0; rfl
  have hs0v : s0.vals = st.vals := by subst hs0; rfl
  obtain ⟨fr, htr, hv, hv'⟩ := popTrail_spec (st.trailLim[level]!) st.trail.size s0 (by rw [hs0t]; omega)
  generalize hs1 : popTrail (st.trailLim[level]!) st.trail.size s0 = s1 at fr htr hv hv'
  rw [hs0t] at htr hv; rw [hs0v] at hv hv' 
  have hvals0 : ∀ v, valAt s0 v = valAt st v := by intro v; rw [← hs0]; rfl
  -- basic facts about the result
  have tgt_le_k : st.trailLim[level]! ≤ k := h.limLe level hl
  have tgt_le : st.trailLim[level]! ≤ st.trail.size := Nat.le_trans tgt_le_k h.kLe
  have hsize : s1.trail.size = st.trailLim[level]! := by
    have := congrArg List.length htr
    simp at this
    omega
  have htget : ∀ i, i < st.trailLim[level]! → s1.trail[i]! = st.trail[i]! :=
    fun i hi => get!_toList_take st.trail s1.trail _ i htr hi
  have e_nV : s1.nVars = st.nVars := by rw [fr.nVars, ← hs0]
  have e_nO : s1.nOrig = st.nOrig := by rw [fr.nOrig, ← hs0]
  have e_as : s1.assumptions = st.assumptions := by rw [fr.asm, ← hs0]
  have e_cl : s1.clauses = st.clauses := by rw [fr.clauses, ← hs0]
  have e_lv : s1.levels = st.levels := by rw [fr.levels, ← hs0]
  have e_w : s1.watch = st.watch := by rw [fr.watch, ← hs0]
  have e_b : s1.big = st.big := by rw [fr.big, ← hs0]
  have e_lim : s1.trailLim = st.trailLim.extract 0 level := by rw [fr.trailLim, ← hs0]
  have e_vs : s1.vals.size = st.vals.size := by rw [fr.vsize, ← hs0]
  have hlimsz : s1.trailLim.size = level := by rw [e_lim, Array.size_extract]; omega
  have hlimget : ∀ j, j < level → s1.trailLim[j]! = st.trailLim[j]! := by
    intro j hj
    rw [e_lim, get!_eq, get!_eq, Array.getElem?_extract]
    have : j < min level st.trailLim.size := by omega
    simp [this]
  -- positions on the old trail
  have dropLvl : ∀ v, v ∈ st.trail.toList.drop (st.trailLim[level]!) → level < lvlAt st v := by
    intro v hvm
    obtain ⟨i, hi⟩ := List.mem_iff_getElem?.1 hvm
    rw [List.getElem?_drop] at hi
    have hlt : st.trailLim[level]! + i < st.trail.size := by
      have := (List.getElem?_eq_some_iff.1 hi).1; simpa using this
    have hget : st.trail[st.trailLim[level]! + i]! = v := by
      rw [get!_eq, ← Array.getElem?_toList, hi]; rfl
    have := (h.tl _ level hlt hl).1 (Nat.le_add_right _ _)
    rw [hget] at this; exact this
  have takeLvl : ∀ i, i < st.trailLim[level]! → lvlAt st (st.trail[i]!) ≤ level := by
    intro i hi
    apply Classical.byContradiction
    intro hn
    have := (h.tl i level (by omega) hl).2 (by omega)
    omega
  have hval : ∀ v, valAt s1 v = if v ∈ st.trail.toList.drop (st.trailLim[level]!) then UNDEF else valAt st v := by
    intro v
    by_cases hvs : v < st.vals.size
    · rw [hv v hvs, hvals0]
    · rw [hv' v (by omega), hvals0]
      have : v ∉ st.trail.toList.drop (st.trailLim[level]!) := by
        intro hm
        have := ((h.tmem v).1 (List.mem_of_mem_drop hm)).1
        rw [h.vsize] at hvs; omega
      simp [this]
  have hkeep : ∀ v, lvlAt st v ≤ level → valAt s1 v = valAt st v := by
    intro v hle
    rw [hval]
    have : v ∉ st.trail.toList.drop (st.trailLim[level]!) := fun hm => by have := dropLvl v hm; omega
    simp [this]
  have hlvl : ∀ v, lvlAt s1 v = lvlAt st v := by intro v; unfold lvlAt; rw [e_lv]
  -- the final state only differs from `s1` in `propHead`
  refine ⟨?_, trivial, hlimsz, ⟨e_nV, e_nO, e_as, e_cl, e_lv, e_w, e_b, hkeep, ?_, ?_⟩⟩
  · suffices hI : Inv F s1 s1.trail.size from inv_frame hI rfl rfl rfl rfl rfl rfl rfl rfl rfl
    have hcl : ∀ c, cl s1 c = cl st c := by intro c; unfold cl; rw [e_cl]
    have hwl : ∀ l, wl s1 l = wl st l := by intro l; unfold wl watchOf; rw [e_w]
    have hil : ∀ l, il s1 l = il st l := by intro l; unfold il implications; rw [e_b]
    have hsem : ∀ w o, Sem2 st k w o → Sem2 s1 s1.trail.size w o := by
      intro w o hs hf hp
      obtain ⟨i, hi, _, hti⟩ := hp
      rw [hsize] at hi
      rw [htget i hi] at hti
      have hlw : lvlAt st w.natAbs ≤ level := by rw [← hti]; exact takeLvl i hi
      have hf' : IsFalse st w := by unfold IsFalse; rw [← litValue_congr (hkeep _ hlw)]; exact hf
      obtain ⟨ht, hle⟩ := hs hf' ⟨i, by omega, by omega, hti⟩
      refine ⟨?_, by rw [hlvl, hlvl]; exact hle⟩
      unfold IsTrue; rw [litValue_congr (hkeep _ (by omega))]; exact ht
    refine { nOrig := by rw [e_nO]; exact h.nOrig, csize := by rw [e_cl]; exact h.csize
             perm := by intro c hc; rw [hcl]; exact h.perm c hc
             fok := by rw [e_nV]; exact h.fok
             vsize := by rw [e_vs, e_nV]; exact h.vsize
             vrange := ?_
             lsize := by rw [e_lv, e_nV]; exact h.lsize
             wsize := by rw [e_w, e_nV]; exact h.wsize, bsize := by rw [e_b, e_nV]; exact h.bsize
             tnodup := by rw [htr]; exact (List.take_sublist _ _).nodup h.tnodup
             tmem := ?_, limSorted := ?_, limLe := ?_, kLe := Nat.le_refl _, tl := ?_, lvlLe := ?_
             wsound := by intro l c; rw [hwl, hcl]; exact h.wsound l c
             wnodup := by intro l; rw [hwl]; exact h.wnodup l
             wattach := by intro c; rw [hcl, hwl, hwl]; exact h.wattach c
             wsem := by intro c hc h3; rw [hcl] at h3 ⊢; exact ⟨hsem _ _ (h.wsem c hc h3).1, hsem _ _ (h.wsem c hc h3).2⟩
             battach := by intro c; rw [hcl, hil, hil]; exact h.battach c
             bsem := by intro c hc h2; rw [hcl] at h2 ⊢; exact ⟨hsem _ _ (h.bsem c hc h2).1, hsem _ _ (h.bsem c hc h2).2⟩ }
    · intro v; rw [hval]; split
      · simp [UNDEF]
      · exact h.vrange v
    · intro v
      rw [htr, hval, e_nV]
      constructor
      · intro hm
        have hmem := List.mem_of_mem_take hm
        obtain ⟨a, b⟩ := (h.tmem v).1 hmem
        have hnd : v ∉ st.trail.toList.drop (st.trailLim[level]!) := by
          intro hd
          have hnodup := h.tnodup
          rw [← List.take_append_drop (st.trailLim[level]!) st.trail.toList] at hnodup
          exact (List.nodup_append.1 hnodup).2.2 v hm v hd rfl
        simp [hnd, a, b]
      · rintro ⟨a, b⟩
        by_cases hd : v ∈ st.trail.toList.drop (st.trailLim[level]!)
        · simp [hd] at b
        · simp only [hd, if_false] at b
          have := (h.tmem v).2 ⟨a, b⟩
          rw [← List.take_append_drop (st.trailLim[level]!) st.trail.toList] at this
          rcases List.mem_append.1 this with t | t
          · exact t
          · exact absurd t hd
    · intro j1 j2 hj hj2
      rw [hlimsz] at hj2
      rw [hlimget j1 (by omega), hlimget j2 hj2]
      exact h.limSorted j1 j2 hj (by omega)
    · intro j hj
      rw [hlimsz] at hj
      rw [hlimget j hj, hsize]
      exact h.limSorted j level (by omega) hl
    · intro i j hi hj
      rw [hsize] at hi; rw [hlimsz] at hj
      rw [htget i hi, hlimget j hj, hlvl]
      exact h.tl i j (by omega) (by omega)
    · intro i hi
      rw [hsize] at hi
      rw [htget i hi, hlvl, hlimsz]
      exact takeLvl i hi
  · intro v hvn hva hlv
    show valAt s1 v = UNDEF
    rw [hval]
    have hm := (h.tmem v).2 ⟨hvn, hva⟩
    rw [← List.take_append_drop (st.trailLim[level]!) st.trail.toList] at hm
    rcases List.mem_append.1 hm with t | t
    · exfalso
      obtain ⟨i, hi⟩ := List.mem_iff_getElem?.1 t
      rw [List.getElem?_take] at hi
      split at hi
      · rename_i hlt
        have hget : st.trail[i]! = v := by rw [get!_eq, ← Array.getElem?_toList, hi]; rfl
        have := takeLvl i hlt
        rw [hget] at this; omega
      · cases hi
    · simp [t]

  · intro v hu
    show valAt s1 v = UNDEF
    rw [hval, hu]; simp

end Solvor.Sat.Cdcl
