import Solvor.Gen.Kernels
import Solvor.Gen.LubyKernels
import Solvor.Gen.SatConsts
/-!
Sat.Cdcl: executable mirror of `solve_sat` (solvor/sat.py, as repaired by the proposed fixes
C01_level0_persistence, C02_pure_literal_assumptions, C02_degenerate_inputs, C02_luby_loop).

Same data structures and the same order of every operation: trail / trail_lim / prop_head,
two watched literals with in-place swaps inside the clause, binary-implication lists, VSIDS
activities as IEEE doubles (`Float`, increments and the division by 0.95 bit-identical to
CPython), the `heapq` of `(-activity, var)` entries as a binary heap popping the least entry
(entries with equal keys are indistinguishable, so any correct priority queue yields the same
pop sequence), phase saving, Luby restarts through the regenerated `lubyLoop`, `reduce_db` with a
stable sort, blocking clauses.  `while` loops run on explicit fuel (`for _ in [0:fuel]`).

No theorem is stated about this model (DESIGN's [S] items); it serves R_trace: the returned
status and assignments must equal the implementation's, in order.
-/
namespace Solvor.Sat.Cdcl
open Solvor.Gen

abbrev UNDEF : Nat := 2

structure Params where
  maxConflicts : Nat
  maxRestarts : Nat
  solutionLimit : Nat
  lubyFactor : Nat

/-- heap entries `(-activity, var)` ordered as Python tuples -/
def entryLt (a b : Float × Nat) : Bool := a.1 < b.1 || (a.1 == b.1 && a.2 < b.2)

def heapPush (h : Array (Float × Nat)) (e : Float × Nat) : Array (Float × Nat) := Id.run do
  let mut h := h.push e
  let mut i := h.size - 1
  for _ in [0:64] do
    if i == 0 then break
    let p := (i - 1) / 2
    if entryLt (h[i]!) (h[p]!) then
      let t := h[i]!
      h := h.set! i (h[p]!)
      h := h.set! p t
      i := p
    else break
  return h

def heapPop (h : Array (Float × Nat)) : Option ((Float × Nat) × Array (Float × Nat)) :=
  if h.size == 0 then none else Id.run do
    let top := h[0]!
    let last := h[h.size - 1]!
    let mut h := h.pop
    if h.size == 0 then return some (top, h)
    h := h.set! 0 last
    let mut i := 0
    for _ in [0:64] do
      let l := 2 * i + 1
      let r := 2 * i + 2
      let mut m := i
      if l < h.size && entryLt (h[l]!) (h[m]!) then m := l
      if r < h.size && entryLt (h[r]!) (h[m]!) then m := r
      if m == i then break
      let t := h[i]!
      h := h.set! i (h[m]!)
      h := h.set! m t
      i := m
    return some (top, h)

structure St where
  nVars : Nat
  nOrig : Nat
  assumptions : Array Int
  clauses : Array (Array Int)      -- original clauses followed by nothing; learned are separate
  learned : Array (Array Int)
  lbd : Array Nat
  vals : Array Nat
  levels : Array Nat
  reasons : Array Int
  trail : Array Nat
  trailLim : Array Nat
  propHead : Nat
  watchPos : Array (Array Nat)
  watchNeg : Array (Array Nat)
  bigPos : Array (Array (Int × Nat))
  bigNeg : Array (Array (Int × Nat))
  activity : Array Float
  activityInc : Float
  heap : Array (Float × Nat)
  inHeap : Array Bool
  phase : Array Bool
  decisions : Nat
  propagations : Nat
  conflicts : Nat
  restarts : Nat
  nBlocking : Nat := 0

def decay : Float := Float.ofBits Solvor.Gen.Sat.vsidsDecay_bits

def getClause (st : St) (idx : Nat) : Array Int :=
  if idx < st.nOrig then st.clauses[idx]! else st.learned[idx - st.nOrig]!

def setClause (st : St) (idx : Nat) (c : Array Int) : St :=
  if idx < st.nOrig then { st with clauses := st.clauses.set! idx c }
  else { st with learned := st.learned.set! (idx - st.nOrig) c }

/-- `lit_value`: `none` = unassigned -/
def litValue (st : St) (l : Int) : Option Bool :=
  let v := st.vals[l.natAbs]!
  if v == UNDEF then none else some ((v == 1) == (decide (0 < l)))

def addWatch (st : St) (l : Int) (idx : Nat) : St :=
  if 0 < l then { st with watchPos := st.watchPos.modify l.natAbs (·.push idx) }
  else { st with watchNeg := st.watchNeg.modify l.natAbs (·.push idx) }

/-- `BinaryImplications.add` -/
def bigAdd (st : St) (a b : Int) (idx : Nat) : St :=
  let st := if 0 < a then { st with bigNeg := st.bigNeg.modify a.natAbs (·.push (b, idx)) }
            else { st with bigPos := st.bigPos.modify a.natAbs (·.push (b, idx)) }
  if 0 < b then { st with bigNeg := st.bigNeg.modify b.natAbs (·.push (a, idx)) }
  else { st with bigPos := st.bigPos.modify b.natAbs (·.push (a, idx)) }

def implications (st : St) (falseLit : Int) : Array (Int × Nat) :=
  if 0 < falseLit then st.bigNeg[falseLit.natAbs]! else st.bigPos[falseLit.natAbs]!

def assign (st : St) (var : Nat) (val : Bool) (reason : Int) : St :=
  { st with propagations := st.propagations + 1
            vals := st.vals.set! var (if val then 1 else 0)
            levels := st.levels.set! var st.trailLim.size
            reasons := st.reasons.set! var reason
            trail := st.trail.push var }

def unassignTo (st : St) (level : Nat) : St :=
  if st.trailLim.size ≤ level then st else Id.run do
    let target := st.trailLim[level]!
    let mut st := { st with trailLim := st.trailLim.extract 0 level }
    for _ in [0:st.trail.size] do
      if st.trail.size ≤ target then break
      let var := st.trail.back!
      st := { st with trail := st.trail.pop
                      phase := st.phase.set! var (st.vals[var]! == 1)
                      vals := st.vals.set! var UNDEF }
      if !st.inHeap[var]! then
        st := { st with heap := heapPush st.heap (-(st.activity[var]!), var), inHeap := st.inHeap.set! var true }
    return { st with propHead := st.trail.size }

/-- `propagate()`: returns the state and -1 (no conflict), -2 (assumption conflict) or the index of
the conflicting clause -/
def propagate (st : St) : St × Int := Id.run do
  let mut st := st
  if st.trailLim.size == 0 then
    for lit in st.assumptions do
      let var := lit.natAbs
      let v := st.vals[var]!
      if v == UNDEF then
        st := assign st var (decide (0 < lit)) (-1)
      else if (v == 1) != (decide (0 < lit)) then
        return ({ st with conflicts := st.conflicts + 1 }, -2)
  for _ in [0:st.nVars + 2] do
    if st.propHead ≥ st.trail.size then break
    let var := st.trail[st.propHead]!
    st := { st with propHead := st.propHead + 1 }
    let falseLit : Int := if st.vals[var]! == 0 then (var : Int) else -(var : Int)
    for (implied, cidx) in implications st falseLit do
      let iv := implied.natAbs
      if st.vals[iv]! == UNDEF then
        st := assign st iv (decide (0 < implied)) cidx
      else if (st.vals[iv]! == 1) != (decide (0 < implied)) then
        return ({ st with conflicts := st.conflicts + 1 }, cidx)
    -- the watch list of `falseLit` is taken out, edited in place, and put back at the end
    let fv := falseLit.natAbs
    let pos := decide (0 < falseLit)
    let mut watches := if pos then st.watchPos[fv]! else st.watchNeg[fv]!
    let mut i := 0
    let mut confl : Int := -1
    for _ in [0:watches.size + 1] do
      if i ≥ watches.size then break
      let cidx := watches[i]!
      let mut clause := getClause st cidx
      if clause.size == 1 then
        confl := cidx
        break
      if clause[0]! == falseLit then
        let t := clause[0]!
        clause := clause.set! 0 (clause[1]!)
        clause := clause.set! 1 t
      let firstVal := litValue st (clause[0]!)
      if firstVal == some true then
        st := setClause st cidx clause
        i := i + 1
        continue
      let mut found := false
      for k in [2:clause.size] do
        if litValue st (clause[k]!) != some false then
          let t := clause[1]!
          clause := clause.set! 1 (clause[k]!)
          clause := clause.set! k t
          watches := watches.set! i (watches.back!)
          watches := watches.pop
          st := setClause st cidx clause
          -- `add_watch(clause[1], clause_idx)`: a different list than `watches` (that literal is not false)
          st := addWatch st (clause[1]!) cidx
          found := true
          break
      if found then continue
      st := setClause st cidx clause
      if firstVal == some false then
        confl := cidx
        break
      else
        st := assign st (clause[0]!).natAbs (decide (0 < clause[0]!)) cidx
      i := i + 1
    st := if pos then { st with watchPos := st.watchPos.set! fv watches }
          else { st with watchNeg := st.watchNeg.set! fv watches }
    if confl ≥ 0 then
      return ({ st with conflicts := st.conflicts + 1 }, confl)
  return (st, -1)

def bumpActivity (st : St) (var : Nat) : St :=
  let a := st.activity[var]! + st.activityInc
  let st := { st with activity := st.activity.set! var a }
  if st.inHeap[var]! then { st with heap := heapPush st.heap (-a, var) } else st

/-- insertion sort, descending, of a duplicate-free list of levels (`sorted(lvl_set, reverse=True)`) -/
def sortDesc (xs : List Nat) : List Nat := (xs.mergeSort (fun a b => decide (b ≤ a)))

/-- `analyze(conflict_idx)` for `conflict_idx ≥ 0`: (state, learned clause or none, backjump level, lbd) -/
def analyze (st : St) (conflictIdx : Nat) : St × Option (Array Int) × Nat × Nat := Id.run do
  let clause := getClause st conflictIdx
  let currentLevel := st.trailLim.size
  if currentLevel == 0 then return (st, none, 0, 0)
  let mut st := st
  let mut seen : Array Bool := Array.replicate (st.nVars + 1) false
  let mut learnedLits : Array Int := #[]
  let mut counter : Nat := 0
  -- add_lit, inlined twice
  for lit in clause do
    let var := lit.natAbs
    if seen[var]! || st.vals[var]! == UNDEF then continue
    seen := seen.set! var true
    st := bumpActivity st var
    if st.levels[var]! == currentLevel then counter := counter + 1
    else learnedLits := learnedLits.push (if (st.vals[var]! == 1) == (decide (0 < lit)) then -lit else lit)
  let mut trailIdx : Int := (st.trail.size : Int) - 1
  for _ in [0:st.trail.size + 2] do
    if counter == 0 then break
    for _ in [0:st.trail.size + 1] do
      if trailIdx ≥ 0 && !seen[st.trail[trailIdx.toNat]!]! then trailIdx := trailIdx - 1 else break
    if trailIdx < 0 then break
    let var := st.trail[trailIdx.toNat]!
    trailIdx := trailIdx - 1
    if st.levels[var]! == currentLevel then
      counter := counter - 1
      if counter == 0 then
        let uip : Int := if st.vals[var]! == 0 then (var : Int) else -(var : Int)
        learnedLits := #[uip] ++ learnedLits
        break
      let reasonIdx := st.reasons[var]!
      if reasonIdx ≥ 0 then
        for lit in getClause st reasonIdx.toNat do
          if lit.natAbs != var then
            let v2 := lit.natAbs
            if seen[v2]! || st.vals[v2]! == UNDEF then continue
            seen := seen.set! v2 true
            st := bumpActivity st v2
            if st.levels[v2]! == currentLevel then counter := counter + 1
            else learnedLits := learnedLits.push (if (st.vals[v2]! == 1) == (decide (0 < lit)) then -lit else lit)
  st := { st with activityInc := st.activityInc / decay }
  if learnedLits.size == 0 then return (st, none, 0, 0)
  let mut lvlSet : List Nat := []
  for lit in learnedLits do
    if st.vals[lit.natAbs]! != UNDEF then
      let l := st.levels[lit.natAbs]!
      if !lvlSet.contains l then lvlSet := l :: lvlSet
  let lvls := sortDesc lvlSet
  let bt := match lvls with
    | _ :: b :: _ => b
    | _ => 0
  return (st, some learnedLits, bt, lvlSet.length)

def pickVar (st : St) : St × Nat := Id.run do
  let mut st := st
  for _ in [0:st.heap.size + 1] do
    match heapPop st.heap with
    | none => break
    | some ((_, var), h) =>
      st := { st with heap := h, inHeap := st.inHeap.set! var false }
      if st.vals[var]! == UNDEF then return (st, var)
  return (st, 0)

def reduceDb (st : St) : St :=
  if ((st.learned.size - st.nBlocking : Nat) : Int) < Solvor.Gen.Sat.reduceDbThreshold then st else Id.run do
    let n := st.learned.size
    let idx := (List.range n).mergeSort fun a b =>
      let ka := (st.lbd[a]!, (st.learned[a]!).size)
      let kb := (st.lbd[b]!, (st.learned[b]!).size)
      decide (ka.1 < kb.1 ∨ (ka.1 = kb.1 ∧ ka.2 ≤ kb.2))
    let mut keep : Array (Array Int) := #[]
    let mut keepLbd : Array Nat := #[]
    let mut i := 0
    for orig in idx do
      if i < n / 2 || (st.lbd[orig]! : Int) ≤ Solvor.Gen.Sat.reduceDbKeepLbd then
        keep := keep.push (st.learned[orig]!)
        keepLbd := keepLbd.push (st.lbd[orig]!)
      i := i + 1
    let no := st.nOrig
    let mut st := { st with learned := keep, lbd := keepLbd
                            watchPos := st.watchPos.map (·.filter (· < no))
                            watchNeg := st.watchNeg.map (·.filter (· < no))
                            bigPos := st.bigPos.map (·.filter (·.2 < no))
                            bigNeg := st.bigNeg.map (·.filter (·.2 < no)) }
    for j in [0:keep.size] do
      let c := keep[j]!
      let ci := no + j
      if c.size == 2 then st := bigAdd st (c[0]!) (c[1]!) ci
      else if c.size > 2 then
        st := addWatch st (c[0]!) ci
        st := addWatch st (c[1]!) ci
    return st

structure Out where
  status : Status
  solution : Option (List (Nat × Bool))
  solutions : Option (List (List (Nat × Bool)))
  decisions : Nat
  propagations : Nat
  conflicts : Nat
  restarts : Nat
  learnedTotal : Nat
  iterations : Nat
  fuel : Nat
  /-- the first learned / blocking clauses in the order they were added (`true` = blocking) -/
  log : Array (Bool × Array Int) := #[]

def luby (i : Nat) : Nat := lubyLoop (2 * i + 2) i lubyK0

def mkOut (st : St) (status : Status) (sol : Option (List (Nat × Bool)))
    (sols : Option (List (List (Nat × Bool)))) (lt it fuel : Nat) : Out :=
  { status := status, solution := sol, solutions := sols, decisions := st.decisions, propagations := st.propagations,
    conflicts := st.conflicts, restarts := st.restarts, learnedTotal := lt, iterations := it, fuel := fuel }

/-- the three "give up / finished enumerating" exits share this shape -/
def finish (st : St) (all : Array (List (Nat × Bool))) (status : Status) (lt it fuel : Nat) : Out :=
  if all.size > 0 then mkOut st status (some all[0]!) (some all.toList) lt it fuel
  else mkOut st status none none lt it fuel

def solve (clausesIn : List (List Int)) (assumptionsIn : List Int) (P : Params) : Out := Id.run do
  let empty : St := ⟨0, 0, #[], #[], #[], #[], #[], #[], #[], #[], #[], 0, #[], #[], #[], #[], #[], 1.0, #[], #[], #[], 0, 0, 0, 0, 0⟩
  if clausesIn.isEmpty && assumptionsIn.isEmpty then
    return mkOut empty .OPTIMAL (some []) none 0 0 0
  let clauses : Array (Array Int) := (clausesIn.map List.toArray).toArray
  let mut nVars := 0
  for c in clauses do
    for l in c do nVars := max nVars l.natAbs
  for l in assumptionsIn do nVars := max nVars l.natAbs
  if nVars == 0 then return mkOut empty .OPTIMAL (some []) none 0 0 0
  let n1 := nVars + 1
  let mut st : St := {
    nVars := nVars, nOrig := clauses.size, assumptions := assumptionsIn.toArray, clauses := clauses,
    learned := #[], lbd := #[], vals := Array.replicate n1 UNDEF, levels := Array.replicate n1 0,
    reasons := Array.replicate n1 (-1), trail := #[], trailLim := #[], propHead := 0,
    watchPos := Array.replicate n1 #[], watchNeg := Array.replicate n1 #[],
    bigPos := Array.replicate n1 #[], bigNeg := Array.replicate n1 #[],
    activity := Array.replicate n1 0.0, activityInc := 1.0,
    heap := #[], inHeap := Array.replicate n1 true, phase := Array.replicate n1 true,
    decisions := 0, propagations := 0, conflicts := 0, restarts := 0 }
  for v in [1:n1] do
    st := { st with heap := heapPush st.heap (-(0.0 : Float), v) }
  -- clause database
  let mut units : Array (Int × Nat) := #[]
  for i in [0:clauses.size] do
    let c := clauses[i]!
    if c.size == 0 then return mkOut { st with propagations := 0 } .INFEASIBLE none none 0 0 0
    else if c.size == 1 then units := units.push (c[0]!, i)
    else if c.size == 2 then st := bigAdd st (c[0]!) (c[1]!) i
    else
      st := addWatch st (c[0]!) i
      st := addWatch st (c[1]!) i
  -- pure literals (single-solution mode only), assumptions counted
  if P.solutionLimit ≤ 1 then
    let mut posC : Array Nat := Array.replicate n1 0
    let mut negC : Array Nat := Array.replicate n1 0
    for c in clauses do
      for l in c do
        if 0 < l then posC := posC.modify l.natAbs (· + 1) else negC := negC.modify l.natAbs (· + 1)
    for l in assumptionsIn do
      if 0 < l then posC := posC.modify l.natAbs (· + 1) else negC := negC.modify l.natAbs (· + 1)
    for v in [1:n1] do
      if posC[v]! > 0 && negC[v]! == 0 then
        if st.vals[v]! == UNDEF then st := assign st v true (-1)
      else if negC[v]! > 0 && posC[v]! == 0 then
        if st.vals[v]! == UNDEF then st := assign st v false (-1)
  for (lit, idx) in units do
    let var := lit.natAbs
    let val := decide (0 < lit)
    if st.vals[var]! == UNDEF then st := assign st var val idx
    else if (st.vals[var]! == 1) != val then return mkOut { st with propagations := 0 } .INFEASIBLE none none 0 0 0
  let (st0, c0) := propagate st
  st := st0
  let mut conflict : Int := c0
  if conflict ≥ 0 then return mkOut st .INFEASIBLE none none 0 0 0
  let mut decLevel : Nat := 0
  let mut sinceRestart : Nat := 0
  let mut lubyIdx : Nat := 1
  let mut nextRestart : Nat := P.lubyFactor * luby lubyIdx
  let mut all : Array (List (Nat × Bool)) := #[]
  let mut learnedTotal : Nat := 0
  let mut iters : Nat := 0
  let mut log : Array (Bool × Array Int) := #[]
  let fuel := (P.maxConflicts + P.solutionLimit + 2) * (nVars + 2) * 2 + 64
  for _ in [0:fuel] do
    iters := iters + 1
    if conflict ≥ 0 || conflict == -2 then
      if decLevel == 0 || conflict == -2 then
        return { finish st all (if all.size > 0 then .OPTIMAL else .INFEASIBLE) learnedTotal iters fuel with log := log }
      let (st1, lc, bt, lbdv) := analyze st conflict.toNat
      st := st1
      match lc with
      | none => return { finish st all (if all.size > 0 then .OPTIMAL else .INFEASIBLE) learnedTotal iters fuel with log := log }
      | some lc =>
        st := unassignTo st bt
        decLevel := bt
        let cidx := st.nOrig + st.learned.size
        st := { st with learned := st.learned.push lc, lbd := st.lbd.push lbdv }
        learnedTotal := learnedTotal + 1
        if log.size < 48 then log := log.push (false, lc)
        if lc.size == 2 then st := bigAdd st (lc[0]!) (lc[1]!) cidx
        else if lc.size > 2 then
          st := addWatch st (lc[0]!) cidx
          st := addWatch st (lc[1]!) cidx
        st := assign st (lc[0]!).natAbs (decide (0 < lc[0]!)) cidx
        sinceRestart := sinceRestart + 1
        if sinceRestart ≥ nextRestart then
          if st.restarts ≥ P.maxRestarts then
            return { finish st all .MAX_ITER learnedTotal iters fuel with log := log }
          st := { st with restarts := st.restarts + 1 }
          lubyIdx := lubyIdx + 1
          nextRestart := P.lubyFactor * luby lubyIdx
          sinceRestart := 0
          st := unassignTo st 0
          decLevel := 0
          st := reduceDb st
        let (st2, c2) := propagate st
        st := st2
        conflict := c2
        continue
    let (st3, var) := pickVar st
    st := st3
    if var == 0 then
      let sol : List (Nat × Bool) := (List.range' 1 nVars).filterMap fun v =>
        if st.vals[v]! != UNDEF then some (v, st.vals[v]! == 1) else none
      all := all.push sol
      if all.size ≥ P.solutionLimit then
        if P.solutionLimit == 1 then return { mkOut st .OPTIMAL (some sol) none learnedTotal iters fuel with log := log }
        return { mkOut st .OPTIMAL (some sol) (some all.toList) learnedTotal iters fuel with log := log }
      let blocking : Array Int := ((List.range' 1 nVars).filterMap fun (v : Nat) =>
        if st.levels[v]! > 0 then some (if st.vals[v]! == 1 then -(Int.ofNat v) else Int.ofNat v) else none).toArray
      if blocking.size == 0 then
        return { finish st all .OPTIMAL learnedTotal iters fuel with log := log }
      let cidx := st.nOrig + st.learned.size
      st := { st with learned := st.learned.push blocking, lbd := st.lbd.push 0, nBlocking := st.nBlocking + 1 }
      if log.size < 48 then log := log.push (true, blocking)
      st := unassignTo st 0
      decLevel := 0
      if blocking.size == 1 then st := assign st (blocking[0]!).natAbs (decide (0 < blocking[0]!)) cidx
      else if blocking.size == 2 then st := bigAdd st (blocking[0]!) (blocking[1]!) cidx
      else
        st := addWatch st (blocking[0]!) cidx
        st := addWatch st (blocking[1]!) cidx
      let (st4, c4) := propagate st
      st := st4
      conflict := c4
      continue
    st := { st with decisions := st.decisions + 1 }
    decLevel := decLevel + 1
    st := { st with trailLim := st.trailLim.push st.trail.size }
    st := assign st var (st.phase[var]!) (-1)
    let (st5, c5) := propagate st
    st := st5
    conflict := c5
    if st.conflicts ≥ P.maxConflicts then
      return { finish st all .MAX_ITER learnedTotal iters fuel with log := log }
  -- fuel exhausted (never observed; reported by the driver as status "FUEL")
  return mkOut st .UNBOUNDED none none learnedTotal iters fuel

end Solvor.Sat.Cdcl
