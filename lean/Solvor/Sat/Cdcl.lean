import Solvor.Gen.Kernels
import Solvor.Gen.LubyKernels
import Solvor.Gen.SatConsts
import Solvor.Sat.Model
/-!
Sat.Cdcl: executable mirror of `solve_sat` (solvor/sat.py).

Same data structures and the same order of every operation: trail / trail_lim / prop_head,
two watched literals with in-place swaps inside the clause, binary-implication lists, VSIDS
activities as IEEE doubles (`Float`, increments and the division by 0.95 bit-identical to
CPython), the `heapq` of `(-activity, var)` entries as a binary heap popping the least entry
(entries with equal keys are indistinguishable, so any correct priority queue yields the same
pop sequence), phase saving, Luby restarts through the regenerated `lubyLoop`, `reduce_db` with a
stable sort, blocking clauses.

Every `while` loop of the source is a structurally recursive function on explicit fuel.  Running
out of fuel – and the one internal sanity check `uipOk` on the result of `analyze` – end the run
with the status `UNBOUNDED` ("FUEL"/"GUARD" in the driver's reply); neither has ever been observed,
and the correspondence check treats it as an infrastructure failure.  The parts that matter for
C01 (`assign`, `unassignTo`, `propagate`, the main loop) are written so that `CdclInv.lean` can
carry the watch/trail invariant through them; `analyze`, the heap and `reduceDb`'s sort are plain
imperative code.
-/
namespace Solvor.Sat.Cdcl
open Solvor.Gen

abbrev UNDEF : Nat := 2

structure Params where
  maxConflicts : Nat
  maxRestarts : Nat
  solutionLimit : Nat
  lubyFactor : Nat

/-! ### the `heapq` of `(-activity, var)` entries -/

/-- heap entries `(-activity, var)` ordered as Python tuples -/
def entryLt (a b : Float × Nat) : Bool := a.1 < b.1 || (a.1 == b.1 && a.2 < b.2)

/-- `_siftdown` of `heapq` (towards the root), at most `fuel` swaps -/
def siftUp : Nat → Array (Float × Nat) → Nat → Array (Float × Nat)
  | 0, h, _ => h
  | fuel + 1, h, i =>
    if i == 0 then h else
      let p := (i - 1) / 2
      if entryLt (h[i]!) (h[p]!) then siftUp fuel (h.swapIfInBounds i p) p else h

def heapPush (h : Array (Float × Nat)) (e : Float × Nat) : Array (Float × Nat) :=
  let h := h.push e
  siftUp 64 h (h.size - 1)

/-- the smallest of the entry at `i` and its children (ties keep the parent / the left child) -/
def siftChild (h : Array (Float × Nat)) (i : Nat) : Nat :=
  let l := 2 * i + 1
  let r := 2 * i + 2
  let m := if l < h.size && entryLt (h[l]!) (h[i]!) then l else i
  if r < h.size && entryLt (h[r]!) (h[m]!) then r else m

/-- move the entry at `i` down until both children are larger -/
def siftDown : Nat → Array (Float × Nat) → Nat → Array (Float × Nat)
  | 0, h, _ => h
  | fuel + 1, h, i =>
    let m := siftChild h i
    if m == i then h else siftDown fuel (h.swapIfInBounds i m) m

def heapPop (h : Array (Float × Nat)) : Option ((Float × Nat) × Array (Float × Nat)) :=
  if h.size == 0 then none else
    let top := h[0]!
    let last := h[h.size - 1]!
    let h := h.pop
    if h.size == 0 then some (top, h) else some (top, siftDown 64 (h.set! 0 last) 0)

/-! ### solver state -/

structure St where
  nVars : Nat
  nOrig : Nat
  assumptions : List Int
  clauses : Array (Array Int)      -- the input clauses (literals are swapped in place by `propagate`)
  learned : Array (Array Int)      -- learned and blocking clauses, index `nOrig + j`
  lbd : Array Nat
  nBlocking : Nat
  vals : Array Nat                 -- 0 = False, 1 = True, 2 = UNDEF
  levels : Array Nat
  reasons : Array Int
  trail : Array Nat
  trailLim : Array Nat
  propHead : Nat
  watch : Array (Array Nat)         -- `watch_pos[v]` / `watch_neg[v]` at index `litIdx (±v)`
  big : Array (Array (Int × Nat))   -- `BinaryImplications`: the list consulted when literal `l` becomes false, at `litIdx l`
  activity : Array Float
  activityInc : Float
  heap : Array (Float × Nat)
  inHeap : Array Bool
  phase : Array Bool
  decisions : Nat
  propagations : Nat
  conflicts : Nat
  restarts : Nat

/-- one slot per literal: `2·var` for the negative, `2·var + 1` for the positive literal -/
def litIdx (l : Int) : Nat := 2 * l.natAbs + (if 0 < l then 1 else 0)

def decay : Float := Float.ofBits Solvor.Gen.Sat.vsidsDecay_bits

def getClause (st : St) (idx : Nat) : Array Int :=
  if idx < st.nOrig then st.clauses[idx]! else st.learned[idx - st.nOrig]!

def setClause (st : St) (idx : Nat) (c : Array Int) : St :=
  if idx < st.nOrig then { st with clauses := st.clauses.set! idx c }
  else { st with learned := st.learned.set! (idx - st.nOrig) c }

/-- `lit_value`: `none` = unassigned -/
def litValue (st : St) (l : Int) : Option Bool :=
  let v := st.vals[l.natAbs]!
  if v == UNDEF then none else some ((v == 1) == (decide (0 < l)))

/-- `watch_list(lit)` -/
def watchOf (st : St) (l : Int) : Array Nat := st.watch[litIdx l]!

def addWatch (st : St) (l : Int) (idx : Nat) : St :=
  { st with watch := st.watch.modify (litIdx l) (·.push idx) }

/-- `watches[i] = watches[-1]; watches.pop()` on the watch list of `l` -/
def removeWatchAt (st : St) (l : Int) (i : Nat) : St :=
  { st with watch := st.watch.modify (litIdx l) (fun w => (w.set! i w.back!).pop) }

/-- `BinaryImplications.add` -/
def bigAdd (st : St) (a b : Int) (idx : Nat) : St :=
  { st with big := (st.big.modify (litIdx a) (·.push (b, idx))).modify (litIdx b) (·.push (a, idx)) }

/-- `BinaryImplications.implications(false_lit)` -/
def implications (st : St) (falseLit : Int) : Array (Int × Nat) := st.big[litIdx falseLit]!

def assign (st : St) (var : Nat) (val : Bool) (reason : Int) : St :=
  { st with propagations := st.propagations + 1
            vals := st.vals.set! var (if val then 1 else 0)
            levels := st.levels.set! var st.trailLim.size
            reasons := st.reasons.set! var reason
            trail := st.trail.push var }

/-- one iteration of the `while len(trail) > target` loop of `unassign_to` -/
def popOne (st : St) : St :=
  let var := st.trail.back!
  let st := { st with trail := st.trail.pop
                      phase := st.phase.set! var (st.vals[var]! == 1)
                      vals := st.vals.set! var UNDEF }
  if !st.inHeap[var]! then
    { st with heap := heapPush st.heap (-(st.activity[var]!), var), inHeap := st.inHeap.set! var true }
  else st

def popTrail (target : Nat) : Nat → St → St
  | 0, st => st
  | fuel + 1, st => if st.trail.size ≤ target then st else popTrail target fuel (popOne st)

def unassignTo (st : St) (level : Nat) : St :=
  if st.trailLim.size ≤ level then st else
    let target := st.trailLim[level]!
    let st := { st with trailLim := st.trailLim.extract 0 level }
    let st := popTrail target st.trail.size st
    { st with propHead := st.trail.size }

/-! ### propagate -/

/-- outcome of `propagate()` -/
inductive PRes where
  | ok                       -- -1
  | conflict (idx : Nat)     -- index of the conflicting clause
  | assumption               -- -2
  | fuel                     -- a loop of the mirror ran out of fuel (never observed)
  deriving Repr, DecidableEq, Inhabited

/-- the `for lit in assumptions` loop at decision level 0; `true` = conflicting assumption -/
def assumeLoop : List Int → St → St × Bool
  | [], st => (st, false)
  | lit :: rest, st =>
    let v := st.vals[lit.natAbs]!
    if v == UNDEF then assumeLoop rest (assign st lit.natAbs (decide (0 < lit)) (-1))
    else if (v == 1) != (decide (0 < lit)) then (st, true)
    else assumeLoop rest st

/-- the `for implied, clause_idx in big.implications(false_lit)` loop -/
def implLoop : List (Int × Nat) → St → St × Option Nat
  | [], st => (st, none)
  | (implied, cidx) :: rest, st =>
    let v := st.vals[implied.natAbs]!
    if v == UNDEF then implLoop rest (assign st implied.natAbs (decide (0 < implied)) cidx)
    else if (v == 1) != (decide (0 < implied)) then (st, some cidx)
    else implLoop rest st

/-- first `k` in `j, j+1, …` (at most `fuel` of them) with `lit_value(clause[k]) is not False` -/
def findNonFalse (st : St) (clause : Array Int) : Nat → Nat → Option Nat
  | 0, _ => none
  | fuel + 1, j => if litValue st (clause[j]!) != some false then some j else findNonFalse st clause fuel (j + 1)

def swap01 (c : Array Int) : Array Int := c.swapIfInBounds 0 1
def swap1k (c : Array Int) (k : Nat) : Array Int := c.swapIfInBounds 1 k

/-- `if clause[0] == false_lit: clause[0], clause[1] = clause[1], clause[0]` -/
def orient (falseLit : Int) (clause : Array Int) : Array Int :=
  if clause[0]! == falseLit then swap01 clause else clause

/-- store the clause whose second watch was just replaced, drop entry `i` from the watch list of
`falseLit` (`watches[i] = watches[-1]; watches.pop()`) and watch the new `clause[1]` -/
def moveWatch (st : St) (falseLit : Int) (i cidx : Nat) (clause : Array Int) : St :=
  addWatch (removeWatchAt (setClause st cidx clause) falseLit i) (clause[1]!) cidx

/-- one iteration of the `while i < len(watches)` loop over the watch list of `falseLit` (edited in
place): `inl (st, i)` = go on at position `i`, `inr` = the loop ends -/
def watchStep (falseLit : Int) (st : St) (i : Nat) : (St × Nat) ⊕ (St × PRes) :=
  let ws := watchOf st falseLit
  if i < ws.size then
    let cidx := ws[i]!
    let clause := getClause st cidx
    if clause.size == 1 then .inr (st, .conflict cidx)
    else
      let clause := orient falseLit clause
      let firstVal := litValue st (clause[0]!)
      if firstVal == some true then .inl (setClause st cidx clause, i + 1)
      else
        match findNonFalse st clause (clause.size - 2) 2 with
        | some k =>
          .inl (moveWatch st falseLit i cidx (swap1k clause k), i)
        | none =>
          let st := setClause st cidx clause
          if firstVal == some false then .inr (st, .conflict cidx)
          else .inl (assign st (clause[0]!).natAbs (decide (0 < clause[0]!)) cidx, i + 1)
  else .inr (st, .ok)

def watchLoop (falseLit : Int) : Nat → St → Nat → St × PRes
  | 0, st, _ => (st, .fuel)
  | fuel + 1, st, i =>
    match watchStep falseLit st i with
    | .inl (st, i) => watchLoop falseLit fuel st i
    | .inr r => r

/-- one iteration of the `while prop_head < len(trail)` loop: `inl` = go on, `inr` = the loop ends -/
def propStep (st : St) : St ⊕ (St × PRes) :=
  if st.propHead ≥ st.trail.size then .inr (st, .ok) else
    let var := st.trail[st.propHead]!
    let st := { st with propHead := st.propHead + 1 }
    let falseLit : Int := if st.vals[var]! == 0 then (var : Int) else -(var : Int)
    match implLoop (implications st falseLit).toList st with
    | (st, some cidx) => .inr ({ st with conflicts := st.conflicts + 1 }, .conflict cidx)
    | (st, none) =>
      match watchLoop falseLit ((watchOf st falseLit).size + 1) st 0 with
      | (st, .ok) => .inl st
      | (st, .conflict cidx) => .inr ({ st with conflicts := st.conflicts + 1 }, .conflict cidx)
      | (st, r) => .inr (st, r)

/-- the `while prop_head < len(trail)` loop -/
def propLoop : Nat → St → St × PRes
  | 0, st => (st, .fuel)
  | fuel + 1, st =>
    match propStep st with
    | .inl st => propLoop fuel st
    | .inr r => r

/-- `propagate()` -/
def propagate (st : St) : St × PRes :=
  let (st, bad) := if st.trailLim.size == 0 then assumeLoop st.assumptions st else (st, false)
  if bad then ({ st with conflicts := st.conflicts + 1 }, .assumption)
  else propLoop (st.nVars + 2) st

/-! ### conflict analysis (plain imperative code: touches only activities and the heap) -/

def sortDesc (xs : List Nat) : List Nat := (xs.mergeSort (fun a b => decide (b ≤ a)))

structure Analysis where
  /-- the variables whose activity is bumped, in the order `bump_activity` is called -/
  bumps : Array Nat
  /-- the resolution steps taken: (index of the antecedent clause, its true literal = the pivot) -/
  steps : Array (Nat × Int)
  learned : Option (Array Int)
  btLevel : Nat
  lbd : Nat

/-- `analyze(conflict_idx)` for `conflict_idx ≥ 0` (reads the state, changes nothing: the activity
bumps are returned as a list and applied by `applyBumps`) -/
def analyze (st : St) (conflictIdx : Nat) : Analysis := Id.run do
  let clause := getClause st conflictIdx
  let currentLevel := st.trailLim.size
  if currentLevel == 0 then return ⟨#[], #[], none, 0, 0⟩
  let mut bumps : Array Nat := #[]
  let mut steps : Array (Nat × Int) := #[]
  let mut seen : Array Bool := Array.replicate (st.nVars + 1) false
  let mut learnedLits : Array Int := #[]
  let mut counter : Nat := 0
  -- add_lit, inlined twice
  for lit in clause do
    let var := lit.natAbs
    if seen[var]! || st.vals[var]! == UNDEF then continue
    seen := seen.set! var true
    bumps := bumps.push var
    if st.levels[var]! == currentLevel then counter := counter + 1
    else learnedLits := learnedLits.push (if (st.vals[var]! == 1) == (decide (0 < lit)) then -lit else lit)
  let mut trailIdx : Int := (st.trail.size : Int) - 1
  for _ in [0:st.trail.size + 2] do
    if counter == 0 then break
    for _ in [0:st.trail.size + 1] do
      if trailIdx ≥ 0 && !seen[st.trail[trailIdx.toNat]!]! then trailIdx := trailIdx - 1 else break
    if trailIdx < 0 then break
    let var := st.trail[trailIdx.toNat]!
    trailIdx := trailIdx - 1
    if st.levels[var]! == currentLevel then
      counter := counter - 1
      if counter == 0 then
        let uip : Int := if st.vals[var]! == 0 then (var : Int) else -(var : Int)
        learnedLits := #[uip] ++ learnedLits
        break
      let reasonIdx := st.reasons[var]!
      if reasonIdx ≥ 0 then
        steps := steps.push (reasonIdx.toNat, if st.vals[var]! == 0 then -(var : Int) else (var : Int))
        for lit in getClause st reasonIdx.toNat do
          if lit.natAbs != var then
            let v2 := lit.natAbs
            if seen[v2]! || st.vals[v2]! == UNDEF then continue
            seen := seen.set! v2 true
            bumps := bumps.push v2
            if st.levels[v2]! == currentLevel then counter := counter + 1
            else learnedLits := learnedLits.push (if (st.vals[v2]! == 1) == (decide (0 < lit)) then -lit else lit)
  if learnedLits.size == 0 then return ⟨bumps, steps, none, 0, 0⟩
  let mut lvlSet : List Nat := []
  for lit in learnedLits do
    if st.vals[lit.natAbs]! != UNDEF then
      let l := st.levels[lit.natAbs]!
      if !lvlSet.contains l then lvlSet := l :: lvlSet
  let lvls := sortDesc lvlSet
  let bt := match lvls with
    | _ :: b :: _ => b
    | _ => 0
  return ⟨bumps, steps, some learnedLits, bt, lvlSet.length⟩

/-- `bump_activity(var)` -/
def bumpOne (st : St) (var : Nat) : St :=
  let a := st.activity[var]! + st.activityInc
  let st := { st with activity := st.activity.set! var a }
  if st.inHeap[var]! then { st with heap := heapPush st.heap (-a, var) } else st

/-- `bump_activity(var)` for each bumped variable, in order, then `decay_activity()` -/
def applyBumps (st : St) (bumps : List Nat) : St :=
  let st := bumps.foldl bumpOne st
  { st with activityInc := st.activityInc / decay }

/-- sanity check on the result of `analyze` (always true in a correct 1-UIP analysis; the mirror
gives up with status `UNBOUNDED` otherwise): the asserted literal's variable sits on the current
decision level and the backjump level is below it, so that variable is unassigned after the
backjump. -/
def uipOk (st : St) (lc : Array Int) (bt : Nat) : Bool :=
  lc.size > 0 && st.vals[(lc[0]!).natAbs]! != UNDEF && st.levels[(lc[0]!).natAbs]! == st.trailLim.size
    && bt < st.trailLim.size

/-- further sanity checks on `analyze` (same status as `uipOk`): no literal 0 in the learned clause,
no variable 0 among the bumped ones -/
def analysisOk (A : Analysis) : Bool :=
  A.bumps.toList.all (fun v => decide (1 ≤ v)) &&
    (match A.learned with | some lc => lc.toList.all (· != 0) | none => true)

/-- certificate check for a learned clause (same status as `uipOk`): every clause index used is in
range, no pivot is 0, and the resolution chain – conflict clause resolved in turn with the logged
antecedents (`Sat.chain`) – yields only literals of the learned clause; by `learn_chain_sound` the
learned clause is then entailed by the clause database -/
def chainOk (st : St) (conflictIdx : Nat) (steps : Array (Nat × Int)) (lc : Array Int) : Bool :=
  let inRange := fun (i : Nat) => decide (i < st.nOrig + st.learned.size)
  inRange conflictIdx && steps.toList.all (fun s => inRange s.1 && s.2 != 0) &&
    (Solvor.Sat.chain (getClause st conflictIdx).toList
      (steps.toList.map fun s => ((getClause st s.1).toList, s.2))).all (fun l => lc.toList.contains l)

/-- certificate check before INFEASIBLE is reported (the mirror gives up with `GUARD` otherwise): unit
propagation from scratch refutes the input clauses + the assumptions as unit clauses + (when pure
literals were fixed) the pure literals as unit clauses + every clause learned so far -/
def certify (st : St) (usePure : Bool) (ever : Array (Array Int)) : Bool :=
  let f : List (List Int) := st.clauses.toList.map (·.toList)
  Solvor.Sat.upRefutes st.nVars (f ++ st.assumptions.map (fun a => [a]) ++
    (if usePure then (Solvor.Sat.pureUnits f st.assumptions st.nVars).map (fun p => [p]) else []) ++
    ever.toList.map (·.toList))

/-- the `while var_heap` loop of `pick_var`, in the form the theorems are stated about -/
def pickLoopRef : Nat → St → St × Nat
  | 0, st => (st, 0)
  | fuel + 1, st =>
    match heapPop st.heap with
    | none => (st, 0)
    | some ((_, var), h) =>
      let st := { st with heap := h, inHeap := st.inHeap.set! var false }
      if st.vals[var]! == UNDEF then (st, var) else pickLoopRef fuel st

/-- the `while var_heap` loop of `pick_var`.  Same function as `pickLoopRef` (`pickLoop_eq_ref`); written so
that the heap array is detached from the state before `heapPop` updates it, i.e. the compiled code pops in
place instead of copying the (lazily cleaned, hence large) heap at every pop -/
def pickLoop : Nat → St → St × Nat
  | 0, st => (st, 0)
  | fuel + 1, st =>
    if st.heap.size == 0 then (st, 0) else
    let hp := st.heap
    let st := { st with heap := #[] }
    match heapPop hp with
    | none => (st, 0)
    | some ((_, var), h) =>
      let st := { st with heap := h, inHeap := st.inHeap.set! var false }
      if st.vals[var]! == UNDEF then (st, var) else pickLoop fuel st

theorem heapPop_eq_none_iff (h : Array (Float × Nat)) : heapPop h = none ↔ h.size = 0 := by
  unfold heapPop
  by_cases hz : h.size = 0
  · simp [hz]
  · simp only [beq_iff_eq, hz, if_false]
    constructor
    · intro hh; split at hh <;> cases hh
    · intro hh; exact hh.elim

theorem pickLoop_eq_ref : ∀ (fuel : Nat) (st : St), pickLoop fuel st = pickLoopRef fuel st := by
  intro fuel
  induction fuel with
  | zero => intro st; rfl
  | succ fuel ih =>
    intro st
    unfold pickLoop pickLoopRef
    by_cases hz : st.heap.size = 0
    · have hn := (heapPop_eq_none_iff st.heap).2 hz
      simp only [beq_iff_eq, hz, if_true, hn]
    · simp only [beq_iff_eq, hz, if_false]
      cases hp : heapPop st.heap with
      | none => exact absurd ((heapPop_eq_none_iff st.heap).1 hp) hz
      | some r =>
        obtain ⟨⟨f, var⟩, h⟩ := r
        simp only
        split
        · rfl
        · exact ih _

def pickVar (st : St) : St × Nat := pickLoop (st.heap.size + 1) st

/-- re-attach the kept learned clauses (`for i, clause in enumerate(learned)` of `reduce_db`) -/
def reattach (no : Nat) (keep : Array (Array Int)) : Nat → Nat → St → St
  | 0, _, st => st
  | fuel + 1, j, st =>
    let c := keep[j]!
    let ci := no + j
    let st := if c.size == 2 then bigAdd st (c[0]!) (c[1]!) ci
      else if c.size > 2 then addWatch (addWatch st (c[0]!) ci) (c[1]!) ci
      else st
    reattach no keep fuel (j + 1) st

def reduceDb (st : St) : St :=
  if ((st.learned.size - st.nBlocking : Nat) : Int) < Solvor.Gen.Sat.reduceDbThreshold then st else
    let n := st.learned.size
    let idx := (List.range n).mergeSort fun a b =>
      let ka := (st.lbd[a]!, (st.learned[a]!).size)
      let kb := (st.lbd[b]!, (st.learned[b]!).size)
      decide (ka.1 < kb.1 ∨ (ka.1 = kb.1 ∧ ka.2 ≤ kb.2))
    let kept := (idx.zipIdx).filter fun (orig, i) => i < n / 2 || (st.lbd[orig]! : Int) ≤ Solvor.Gen.Sat.reduceDbKeepLbd
    let keep : Array (Array Int) := (kept.map fun (orig, _) => st.learned[orig]!).toArray
    let keepLbd : Array Nat := (kept.map fun (orig, _) => st.lbd[orig]!).toArray
    let no := st.nOrig
    let st := { st with learned := keep, lbd := keepLbd
                        watch := st.watch.map (·.filter (· < no))
                        big := st.big.map (·.filter (·.2 < no)) }
    reattach no keep keep.size 0 st

/-! ### the main loop -/

structure Out where
  status : Status
  solution : Option (List (Nat × Bool))
  solutions : Option (List (List (Nat × Bool)))
  decisions : Nat
  propagations : Nat
  conflicts : Nat
  restarts : Nat
  learnedTotal : Nat
  iterations : Nat
  fuel : Nat
  /-- how often `reduce_db` actually reduced the clause database -/
  reduced : Nat := 0
  /-- the first learned / blocking clauses in the order they were added (`true` = blocking) -/
  log : Array (Bool × Array Int) := #[]
  /-- why the mirror gave up when `status = UNBOUNDED`: "FUEL" or "GUARD" -/
  note : String := ""

def luby (i : Nat) : Nat := lubyLoop (2 * i + 2) i lubyK0

/-- everything the `while True` loop of `solve_sat` carries from one iteration to the next -/
structure Loop where
  st : St
  conflict : PRes
  decLevel : Nat
  sinceRestart : Nat
  lubyIdx : Nat
  nextRestart : Nat
  all : Array (List (Nat × Bool))
  learnedTotal : Nat
  iters : Nat
  log : Array (Bool × Array Int)
  /-- every clause learned so far (blocking clauses excluded), as learned -/
  ever : Array (Array Int) := #[]
  /-- how often `reduce_db` actually reduced the clause database (statistics only) -/
  reduced : Nat := 0

def mkOut (L : Loop) (status : Status) (sol : Option (List (Nat × Bool)))
    (sols : Option (List (List (Nat × Bool)))) (fuel : Nat) (note : String := "") : Out :=
  { status := status, solution := sol, solutions := sols, decisions := L.st.decisions,
    propagations := L.st.propagations, conflicts := L.st.conflicts, restarts := L.st.restarts,
    learnedTotal := L.learnedTotal, iterations := L.iters, fuel := fuel, reduced := L.reduced, log := L.log, note := note }

/-- the three "give up / finished enumerating" exits share this shape -/
def finish (L : Loop) (status : Status) (fuel : Nat) : Out :=
  if L.all.size > 0 then mkOut L status (some L.all[0]!) (some L.all.toList) fuel
  else mkOut L status none none fuel

def giveUp (L : Loop) (fuel : Nat) (note : String) : Out := mkOut L .UNBOUNDED none none fuel note

/-- the "no (more) solutions" exit: the solutions found so far, or INFEASIBLE – certified – if none -/
def finishInf (usePure : Bool) (L : Loop) (fuel : Nat) : Out :=
  if L.all.size > 0 then mkOut L .OPTIMAL (some L.all[0]!) (some L.all.toList) fuel
  else if certify L.st usePure L.ever then mkOut L .INFEASIBLE none none fuel
  else giveUp L fuel "GUARD"

/-- the assignment read off `vals` (`{v: vals[v] == 1 for v in 1..n_vars if vals[v] != UNDEF}`) -/
def readSol (st : St) : List (Nat × Bool) :=
  (List.range' 1 st.nVars).filterMap fun v =>
    if st.vals[v]! != UNDEF then some (v, st.vals[v]! == 1) else none

def blockingOf (st : St) : Array Int :=
  ((List.range' 1 st.nVars).filterMap fun (v : Nat) =>
    if st.levels[v]! > 0 then some (if st.vals[v]! == 1 then -(Int.ofNat v) else Int.ofNat v) else none).toArray

/-- attach a clause that was just appended to `learned` at index `cidx` -/
def attach (st : St) (c : Array Int) (cidx : Nat) : St :=
  if c.size == 2 then bigAdd st (c[0]!) (c[1]!) cidx
  else if c.size > 2 then addWatch (addWatch st (c[0]!) cidx) (c[1]!) cidx
  else st

/-- backjump to `bt`, store the learned clause `lc`, attach it and assert its first literal -/
def learnAndJump (st : St) (lc : Array Int) (bt lbd : Nat) : St :=
  let st := unassignTo st bt
  let cidx := st.nOrig + st.learned.size
  let st := { st with learned := st.learned.push lc, lbd := st.lbd.push lbd }
  let st := attach st lc cidx
  assign st (lc[0]!).natAbs (decide (0 < lc[0]!)) cidx

/-- `restarts += 1; unassign_to(0); reduce_db()` -/
def restartSt (st : St) : St :=
  reduceDb (unassignTo { st with restarts := st.restarts + 1 } 0)

/-- store the blocking clause, go back to level 0 and attach it (a unit blocking clause is asserted) -/
def blockSt (st : St) (blocking : Array Int) : St :=
  let cidx := st.nOrig + st.learned.size
  let st := { st with learned := st.learned.push blocking, lbd := st.lbd.push 0, nBlocking := st.nBlocking + 1 }
  let st := unassignTo st 0
  if blocking.size == 1 then assign st (blocking[0]!).natAbs (decide (0 < blocking[0]!)) cidx
  else attach st blocking cidx

/-- `decisions += 1; trail_lim.append(len(trail)); assign(var, phase[var], -1)` -/
def decideSt (st : St) (var : Nat) : St :=
  let st := { st with decisions := st.decisions + 1, trailLim := st.trailLim.push st.trail.size }
  assign st var (st.phase[var]!) (-1)

def emptySt : St := ⟨0, 0, [], #[], #[], #[], 0, #[], #[], #[], #[], #[], 0, #[], #[], #[], 1.0, #[], #[], #[], 0, 0, 0, 0⟩

/-- one iteration of `while True:`; `inl` = the call returns (the form the theorems are stated about) -/
def stepRef (P : Params) (fuel : Nat) (L : Loop) : Out ⊕ Loop :=
  let L := { L with iters := L.iters + 1 }
  match L.conflict with
  | .fuel => .inl (giveUp L fuel "FUEL")
  | .assumption => .inl (finishInf (P.solutionLimit ≤ 1) L fuel)
  | .conflict cidx0 =>
    if L.decLevel == 0 then .inl (finishInf (P.solutionLimit ≤ 1) L fuel) else
    let A := analyze L.st cidx0
    if !analysisOk A then .inl (giveUp L fuel "GUARD") else
    let st := if L.st.trailLim.size == 0 then L.st else applyBumps L.st A.bumps.toList
    match A.learned with
    | none => .inl (finishInf (P.solutionLimit ≤ 1) { L with st := st } fuel)
    | some lc =>
      if !uipOk st lc A.btLevel then .inl (giveUp { L with st := st } fuel "GUARD") else
      if !chainOk st cidx0 A.steps lc then .inl (giveUp { L with st := st } fuel "GUARD") else
      let st := learnAndJump st lc A.btLevel A.lbd
      let log := if L.log.size < 48 then L.log.push (false, lc) else L.log
      let L := { L with st := st, decLevel := A.btLevel, learnedTotal := L.learnedTotal + 1, log := log,
                        sinceRestart := L.sinceRestart + 1, ever := L.ever.push lc }
      if L.sinceRestart ≥ L.nextRestart then
        if st.restarts ≥ P.maxRestarts then .inl (finish L .MAX_ITER fuel) else
        let lubyIdx := L.lubyIdx + 1
        let red := if ((st.learned.size - st.nBlocking : Nat) : Int) < Solvor.Gen.Sat.reduceDbThreshold then L.reduced
                   else L.reduced + 1
        let (st, c) := propagate (restartSt st)
        .inr { L with st := st, conflict := c, lubyIdx := lubyIdx, nextRestart := P.lubyFactor * luby lubyIdx,
                      sinceRestart := 0, decLevel := 0, reduced := red }
      else
        let (st, c) := propagate st
        .inr { L with st := st, conflict := c }
  | .ok =>
    let (st, var) := pickVar L.st
    let L := { L with st := st }
    if var == 0 then
      let sol := readSol st
      let L := { L with all := L.all.push sol }
      if L.all.size ≥ P.solutionLimit then
        if P.solutionLimit == 1 then .inl (mkOut L .OPTIMAL (some sol) none fuel)
        else .inl (mkOut L .OPTIMAL (some sol) (some L.all.toList) fuel)
      else
        let blocking := blockingOf st
        if blocking.size == 0 then .inl (finish L .OPTIMAL fuel) else
        let log := if L.log.size < 48 then L.log.push (true, blocking) else L.log
        let (st, c) := propagate (blockSt st blocking)
        .inr { L with st := st, conflict := c, decLevel := 0, log := log }
    else
      let (st, c) := propagate (decideSt st var)
      let L := { L with st := st, conflict := c, decLevel := L.decLevel + 1 }
      if st.conflicts ≥ P.maxConflicts then .inl (finish L .MAX_ITER fuel) else .inr L

/-- one iteration of `while True:`.  Same function as `stepRef` (`step_eq_ref`); the state is detached from
the loop record before `pickVar` so that the compiled code updates its arrays in place -/
def step (P : Params) (fuel : Nat) (L : Loop) : Out ⊕ Loop :=
  let L := { L with iters := L.iters + 1 }
  match L.conflict with
  | .fuel => .inl (giveUp L fuel "FUEL")
  | .assumption => .inl (finishInf (P.solutionLimit ≤ 1) L fuel)
  | .conflict cidx0 =>
    if L.decLevel == 0 then .inl (finishInf (P.solutionLimit ≤ 1) L fuel) else
    let A := analyze L.st cidx0
    if !analysisOk A then .inl (giveUp L fuel "GUARD") else
    let st := if L.st.trailLim.size == 0 then L.st else applyBumps L.st A.bumps.toList
    match A.learned with
    | none => .inl (finishInf (P.solutionLimit ≤ 1) { L with st := st } fuel)
    | some lc =>
      if !uipOk st lc A.btLevel then .inl (giveUp { L with st := st } fuel "GUARD") else
      if !chainOk st cidx0 A.steps lc then .inl (giveUp { L with st := st } fuel "GUARD") else
      let st := learnAndJump st lc A.btLevel A.lbd
      let log := if L.log.size < 48 then L.log.push (false, lc) else L.log
      let L := { L with st := st, decLevel := A.btLevel, learnedTotal := L.learnedTotal + 1, log := log,
                        sinceRestart := L.sinceRestart + 1, ever := L.ever.push lc }
      if L.sinceRestart ≥ L.nextRestart then
        if st.restarts ≥ P.maxRestarts then .inl (finish L .MAX_ITER fuel) else
        let lubyIdx := L.lubyIdx + 1
        let red := if ((st.learned.size - st.nBlocking : Nat) : Int) < Solvor.Gen.Sat.reduceDbThreshold then L.reduced
                   else L.reduced + 1
        let (st, c) := propagate (restartSt st)
        .inr { L with st := st, conflict := c, lubyIdx := lubyIdx, nextRestart := P.lubyFactor * luby lubyIdx,
                      sinceRestart := 0, decLevel := 0, reduced := red }
      else
        let (st, c) := propagate st
        .inr { L with st := st, conflict := c }
  | .ok =>
    let st0 := L.st
    let L := { L with st := emptySt }
    let (st, var) := pickVar st0
    let L := { L with st := st }
    if var == 0 then
      let sol := readSol st
      let L := { L with all := L.all.push sol }
      if L.all.size ≥ P.solutionLimit then
        if P.solutionLimit == 1 then .inl (mkOut L .OPTIMAL (some sol) none fuel)
        else .inl (mkOut L .OPTIMAL (some sol) (some L.all.toList) fuel)
      else
        let blocking := blockingOf st
        if blocking.size == 0 then .inl (finish L .OPTIMAL fuel) else
        let log := if L.log.size < 48 then L.log.push (true, blocking) else L.log
        let (st, c) := propagate (blockSt st blocking)
        .inr { L with st := st, conflict := c, decLevel := 0, log := log }
    else
      let (st, c) := propagate (decideSt st var)
      let L := { L with st := st, conflict := c, decLevel := L.decLevel + 1 }
      if st.conflicts ≥ P.maxConflicts then .inl (finish L .MAX_ITER fuel) else .inr L

theorem step_eq_ref (P : Params) (fuel : Nat) (L : Loop) : step P fuel L = stepRef P fuel L := by
  unfold step stepRef
  rfl

def run (P : Params) (fuel0 : Nat) : Nat → Loop → Out
  | 0, L => giveUp L fuel0 "FUEL"
  | fuel + 1, L =>
    match step P fuel0 L with
    | .inl o => o
    | .inr L' => run P fuel0 fuel L'

/-- largest variable index in clauses and assumptions -/
def countVars (clauses : List (List Int)) (assumptions : List Int) : Nat :=
  (clauses.foldl (fun n c => c.foldl (fun n l => max n l.natAbs) n) 0) |> fun n => assumptions.foldl (fun n l => max n l.natAbs) n


def initSt (clauses : List (List Int)) (assumptions : List Int) (nVars : Nat) : St :=
  let n1 := nVars + 1
  { nVars := nVars, nOrig := clauses.length, assumptions := assumptions,
    clauses := (clauses.map List.toArray).toArray,
    learned := #[], lbd := #[], nBlocking := 0, vals := Array.replicate n1 UNDEF, levels := Array.replicate n1 0,
    reasons := Array.replicate n1 (-1), trail := #[], trailLim := #[], propHead := 0,
    watch := Array.replicate (2 * n1) #[], big := Array.replicate (2 * n1) #[],
    activity := Array.replicate n1 0.0, activityInc := 1.0,
    heap := (List.range' 1 nVars).foldl (fun h v => heapPush h (-(0.0 : Float), v)) #[],
    inHeap := Array.replicate n1 true, phase := Array.replicate n1 true,
    decisions := 0, propagations := 0, conflicts := 0, restarts := 0 }

/-- the clause-database loop: `none` = an empty clause was met; otherwise the state and the unit
clauses `(lit, idx)` in input order -/
def loadClauses : List (List Int) → Nat → St → List (Int × Nat) → Option (St × List (Int × Nat))
  | [], _, st, units => some (st, units.reverse)
  | c :: rest, i, st, units =>
    match c with
    | [] => none
    | [a] => loadClauses rest (i + 1) st ((a, i) :: units)
    | [a, b] => loadClauses rest (i + 1) (bigAdd st a b i) units
    | a :: b :: _ => loadClauses rest (i + 1) (addWatch (addWatch st a i) b i) units

/-- the occurrence counts of `find_pure_literals()`: assumptions count as unit clauses -/
def pureCounts (nVars : Nat) (clauses : List (List Int)) (assumptions : List Int) : Array Nat × Array Nat := Id.run do
  let n1 := nVars + 1
  let mut posC : Array Nat := Array.replicate n1 0
  let mut negC : Array Nat := Array.replicate n1 0
  for c in clauses do
    for l in c do
      if 0 < l then posC := posC.modify l.natAbs (· + 1) else negC := negC.modify l.natAbs (· + 1)
  for l in assumptions do
    if 0 < l then posC := posC.modify l.natAbs (· + 1) else negC := negC.modify l.natAbs (· + 1)
  return (posC, negC)

/-- `find_pure_literals()` -/
def pureList (nVars : Nat) (clauses : List (List Int)) (assumptions : List Int) : List (Nat × Bool) :=
  let (posC, negC) := pureCounts nVars clauses assumptions
  (List.range' 1 nVars).filterMap fun v =>
    if posC[v]! > 0 && negC[v]! == 0 then some (v, true)
    else if negC[v]! > 0 && posC[v]! == 0 then some (v, false) else none

/-- `for var, val in find_pure_literals(): if vals[var] == UNDEF: assign(var, val, -1)` -/
def pureLits (st : St) (clauses : List (List Int)) (assumptions : List Int) : St :=
  (pureList st.nVars clauses assumptions).foldl
    (fun st (p : Nat × Bool) => if st.vals[p.1]! == UNDEF then assign st p.1 p.2 (-1) else st) st

/-- the unit-clause loop: `none` = two unit clauses clash -/
def loadUnits : List (Int × Nat) → St → Option St
  | [], st => some st
  | (lit, idx) :: rest, st =>
    if st.vals[lit.natAbs]! == UNDEF then loadUnits rest (assign st lit.natAbs (decide (0 < lit)) idx)
    else if (st.vals[lit.natAbs]! == 1) != (decide (0 < lit)) then none
    else loadUnits rest st

def emptyLoop (st : St) : Loop := ⟨st, .ok, 0, 0, 1, 0, #[], 0, 0, #[], #[], 0⟩

/-- decisions the main loop can make before the conflict budget is used up: each learned clause and each
blocking clause is followed by at most `n + 2` of them -/
def loopDmax (mc sl n : Nat) : Nat := (mc + sl) * (n + 2) + (n + 1)

/-- fuel of the main loop – an upper bound on the number of its iterations (decisions + learned clauses +
solutions; proved: `Cdcl.solve_good`, `cdcl_fuel_suffices_partial`).  After the conflict budget is used up
no decision is made any more and every further conflict lowers the decision level, which is at most the
number of decisions made before: at most `mc + loopDmax` clauses are learned. -/
def loopFuel (mc sl n : Nat) : Nat := (mc + loopDmax mc sl n + sl) * (n + 3) + n + 2

/-- last check before an enumeration is returned (the mirror is certifying, as for learned clauses and
INFEASIBLE): the assignments are pairwise different – decided by the verified checker `distinctB`, the one the
driver runs on `Result.solutions`; otherwise the mirror gives up with `GUARD` -/
def guardDistinct (n : Nat) (o : Out) : Out :=
  match o.solutions with
  | some ms =>
    if Solvor.Sat.distinctB (List.range' 1 n) ms then o
    else { o with status := .UNBOUNDED, solution := none, solutions := none, note := "GUARD" }
  | none => o

def solve (clausesIn : List (List Int)) (assumptionsIn : List Int) (P : Params) : Out :=
  if clausesIn.isEmpty && assumptionsIn.isEmpty then
    mkOut (emptyLoop emptySt) .OPTIMAL (some []) none 0
  else
  let nVars := countVars clausesIn assumptionsIn
  if nVars == 0 then mkOut (emptyLoop emptySt) .OPTIMAL (some []) none 0 else
  let st := initSt clausesIn assumptionsIn nVars
  match loadClauses clausesIn 0 st [] with
  | none => finishInf (P.solutionLimit ≤ 1) (emptyLoop { st with propagations := 0 }) 0
  | some (st, units) =>
    let st := if P.solutionLimit ≤ 1 then pureLits st clausesIn assumptionsIn else st
    match loadUnits units st with
    | none => finishInf (P.solutionLimit ≤ 1) (emptyLoop { st with decisions := 0, propagations := 0 }) 0
    | some st =>
      let (st, c0) := propagate st
      match c0 with
      | .conflict _ => finishInf (P.solutionLimit ≤ 1) (emptyLoop st) 0
      | _ =>
        let fuel := loopFuel P.maxConflicts P.solutionLimit nVars
        let L : Loop := { emptyLoop st with conflict := c0, nextRestart := P.lubyFactor * luby 1 }
        guardDistinct nVars (run P fuel fuel L)

end Solvor.Sat.Cdcl
