import Solvor.Sat.CdclProp
import Solvor.Sat.CdclBack
/-! Sat.CdclLoop: the invariant through one iteration of the main loop (`step`): learned / blocking
clause insertion, restarts with `reduceDb`, decisions, and the assignment read off at a solution. -/
namespace Solvor.Sat.Cdcl

/-! ### level-0 facts: unit clauses and assumptions -/

/-- unit input clauses and assumptions are true at decision level 0 -/
def Z (F : List (List Int)) (st : St) : Prop :=
  (∀ c, c < F.length → (cl st c).size = 1 → True0 st (cl st c)[0]!) ∧ (∀ a ∈ st.assumptions, True0 st a)

theorem Z_of_eq {F st st'} (hz : Z F st) (e1 : st'.vals = st.vals) (e2 : st'.levels = st.levels)
    (e3 : st'.clauses = st.clauses) (e4 : st'.assumptions = st.assumptions) : Z F st' := by
  have hT : ∀ l, True0 st l → True0 st' l := by
    intro l ⟨a, b⟩
    refine ⟨?_, by unfold lvlAt; rw [e2]; exact b⟩
    unfold IsTrue litValue; rw [e1]; exact a
  have hcl : ∀ c, cl st' c = cl st c := by intro c; unfold cl; rw [e3]
  exact ⟨fun c hc h1 => by rw [hcl] at h1 ⊢; exact hT _ (hz.1 c hc h1), fun a ha => hT _ (hz.2 a (e4 ▸ ha))⟩

theorem Z_ext {F st st'} (hz : Z F st) (e : Ext st st') : Z F st' := by
  have hT : ∀ l, True0 st l → True0 st' l := fun l ⟨a, b⟩ => ⟨e.isTrue a, by rw [e.lvl a.assigned]; exact b⟩
  refine ⟨fun c hc h1 => ?_, fun a ha => hT _ (hz.2 a (e.asm ▸ ha))⟩
  have hsz : (cl st c).size = 1 := by rw [← e.csz]; exact h1
  rw [e.bin c (by omega)]; exact hT _ (hz.1 c hc hsz)

theorem Z_back {F st st' level} (hz : Z F st) (b : Back st st' level) : Z F st' := by
  have hT : ∀ l, True0 st l → True0 st' l := by
    intro l ⟨a, c⟩
    have hk := b.keep l.natAbs (by omega)
    refine ⟨by unfold IsTrue; rw [litValue_congr hk]; exact a, by unfold lvlAt; rw [b.levels]; exact c⟩
  have hcl : ∀ c, cl st' c = cl st c := by intro c; unfold cl; rw [b.clauses]
  exact ⟨fun c hc h1 => by rw [hcl] at h1 ⊢; exact hT _ (hz.1 c hc h1), fun a ha => hT _ (hz.2 a (b.asm ▸ ha))⟩

/-! ### attaching learned / blocking clauses -/

theorem inv_setBig {F st k} (h : Inv F st k) (B : Array (Array (Int × Nat))) (hsz : B.size = 2 * (st.nVars + 1))
    (hb : ∀ c, c < F.length → (cl st c).size = 2 →
      ((cl st c)[1]!, c) ∈ il { st with big := B } (cl st c)[0]! ∧ ((cl st c)[0]!, c) ∈ il { st with big := B } (cl st c)[1]!) :
    Inv F { st with big := B } k :=
  { nOrig := h.nOrig, csize := h.csize, perm := h.perm, fok := h.fok, vsize := h.vsize, vrange := h.vrange,
    lsize := h.lsize, wsize := h.wsize, bsize := hsz, tnodup := h.tnodup, tmem := h.tmem, limSorted := h.limSorted,
    limLe := h.limLe, kLe := h.kLe, tl := h.tl, lvlLe := h.lvlLe, wsound := h.wsound, wnodup := h.wnodup,
    wattach := h.wattach, wsem := h.wsem, battach := hb, bsem := h.bsem }

theorem il_bigAdd_mono (st : St) (a b : Int) (idx : Nat) (l : Int) (e : Int × Nat) (he : e ∈ il st l) :
    e ∈ il (bigAdd st a b idx) l := by
  unfold il implications bigAdd at *
  simp only
  rw [get!_modify, get!_modify]
  split
  · split
    · simp only [Array.toList_push, List.mem_append]; left; left; exact he
    · simp only [Array.toList_push, List.mem_append]; left; exact he
  · split
    · simp only [Array.toList_push, List.mem_append]; left; exact he
    · exact he

theorem inv_bigAdd {F st k} (h : Inv F st k) (a b : Int) (idx : Nat) : Inv F (bigAdd st a b idx) k := by
  refine inv_setBig h _ (by rw [Array.size_modify, Array.size_modify]; exact h.bsize) ?_
  intro c hc h2
  exact ⟨il_bigAdd_mono st a b idx _ _ (h.battach c hc h2).1, il_bigAdd_mono st a b idx _ _ (h.battach c hc h2).2⟩

theorem inv_attach {F st k} (h : Inv F st k) (c : Array Int) {idx : Nat} (hidx : F.length ≤ idx) :
    Inv F (attach st c idx) k := by
  unfold attach
  split
  · exact inv_bigAdd h _ _ _
  · split
    · exact inv_addWatch_learned (inv_addWatch_learned h _ hidx) _ hidx
    · exact h

theorem attach_core (st : St) (c : Array Int) (idx : Nat) :
    (attach st c idx).vals = st.vals ∧ (attach st c idx).levels = st.levels ∧ (attach st c idx).clauses = st.clauses ∧
    (attach st c idx).assumptions = st.assumptions ∧ (attach st c idx).trail = st.trail ∧
    (attach st c idx).trailLim = st.trailLim ∧ (attach st c idx).propHead = st.propHead ∧
    (attach st c idx).nVars = st.nVars ∧ (attach st c idx).nOrig = st.nOrig ∧ (attach st c idx).learned = st.learned := by
  unfold attach
  split
  · exact ⟨rfl, rfl, rfl, rfl, rfl, rfl, rfl, rfl, rfl, rfl⟩
  · split
    · exact ⟨rfl, rfl, rfl, rfl, rfl, rfl, rfl, rfl, rfl, rfl⟩
    · exact ⟨rfl, rfl, rfl, rfl, rfl, rfl, rfl, rfl, rfl, rfl⟩

/-! ### decisions -/

theorem inv_decide {F st} (h : Inv F st st.trail.size) :
    Inv F { st with trailLim := st.trailLim.push st.trail.size } st.trail.size := by
  have hlimget : ∀ j, j < st.trailLim.size → (st.trailLim.push st.trail.size)[j]! = st.trailLim[j]! := by
    intro j hj; rw [get!_push]; simp [Nat.ne_of_lt hj]
  have hlast : (st.trailLim.push st.trail.size)[st.trailLim.size]! = st.trail.size := by rw [get!_push]; simp
  refine { nOrig := h.nOrig, csize := h.csize, perm := h.perm, fok := h.fok, vsize := h.vsize, vrange := h.vrange,
           lsize := h.lsize, wsize := h.wsize, bsize := h.bsize, tnodup := h.tnodup, tmem := h.tmem,
           limSorted := ?_, limLe := ?_, kLe := Nat.le_refl _, tl := ?_, lvlLe := ?_, wsound := h.wsound,
           wnodup := h.wnodup, wattach := h.wattach, wsem := h.wsem, battach := h.battach, bsem := h.bsem }
  · intro j1 j2 hj hj2
    show (st.trailLim.push st.trail.size)[j1]! ≤ (st.trailLim.push st.trail.size)[j2]!
    have hsz : (st.trailLim.push st.trail.size).size = st.trailLim.size + 1 := by simp
    have hj2' : j2 < st.trailLim.size + 1 := by
      have : j2 < (st.trailLim.push st.trail.size).size := hj2
      omega
    by_cases h2 : j2 < st.trailLim.size
    · rw [hlimget j1 (by omega), hlimget j2 h2]; exact h.limSorted j1 j2 hj h2
    · have : j2 = st.trailLim.size := by omega
      subst this
      rw [hlast]
      by_cases h1 : j1 < st.trailLim.size
      · rw [hlimget j1 h1]; exact h.limLe j1 h1
      · have : j1 = st.trailLim.size := by omega
        rw [this, hlast]; exact Nat.le_refl _
  · intro j hj
    show (st.trailLim.push st.trail.size)[j]! ≤ st.trail.size
    have hj' : j < st.trailLim.size + 1 := by
      have : j < (st.trailLim.push st.trail.size).size := hj
      simpa using this
    by_cases h2 : j < st.trailLim.size
    · rw [hlimget j h2]; exact h.limLe j h2
    · have : j = st.trailLim.size := by omega
      rw [this, hlast]; exact Nat.le_refl _
  · intro i j hi hj
    show (st.trailLim.push st.trail.size)[j]! ≤ i ↔ j < lvlAt st (st.trail[i]!)
    have hj' : j < st.trailLim.size + 1 := by
      have : j < (st.trailLim.push st.trail.size).size := hj
      simpa using this
    by_cases h2 : j < st.trailLim.size
    · rw [hlimget j h2]; exact h.tl i j hi h2
    · have : j = st.trailLim.size := by omega
      rw [this, hlast]
      have := h.lvlLe i hi
      have hi' : i < st.trail.size := hi
      constructor
      · intro hh; omega
      · intro hh; omega
  · intro i hi
    show lvlAt st (st.trail[i]!) ≤ (st.trailLim.push st.trail.size).size
    have := h.lvlLe i hi
    simp; omega

/-! ### `reduce_db` -/

theorem get!_map_filter {α} (a : Array (Array α)) (p : α → Bool) (i : Nat) :
    ((a.map (fun (x : Array α) => x.filter p))[i]!).toList = (a[i]!).toList.filter p := by
  rw [get!_eq, get!_eq, Array.getElem?_map]
  cases h : a[i]? with
  | none => simp; rfl
  | some x => simp

/-- fields of the state that `reduceDb`, `attach`, `pickVar` and the counters leave alone -/
structure CoreEq (st st' : St) : Prop where
  nVars : st'.nVars = st.nVars
  nOrig : st'.nOrig = st.nOrig
  asm : st'.assumptions = st.assumptions
  clauses : st'.clauses = st.clauses
  vals : st'.vals = st.vals
  levels : st'.levels = st.levels
  trail : st'.trail = st.trail
  trailLim : st'.trailLim = st.trailLim
  propHead : st'.propHead = st.propHead

theorem CoreEq.refl (st : St) : CoreEq st st := ⟨rfl, rfl, rfl, rfl, rfl, rfl, rfl, rfl, rfl⟩
theorem CoreEq.trans {a b c : St} (h1 : CoreEq a b) (h2 : CoreEq b c) : CoreEq a c :=
  ⟨h2.nVars.trans h1.nVars, h2.nOrig.trans h1.nOrig, h2.asm.trans h1.asm, h2.clauses.trans h1.clauses,
   h2.vals.trans h1.vals, h2.levels.trans h1.levels, h2.trail.trans h1.trail, h2.trailLim.trans h1.trailLim,
   h2.propHead.trans h1.propHead⟩

theorem CoreEq.Z {F st st'} (e : CoreEq st st') (hz : Z F st) : Z F st' := Z_of_eq hz e.vals e.levels e.clauses e.asm

theorem coreEq_attach (st : St) (c : Array Int) (idx : Nat) : CoreEq st (attach st c idx) := by
  obtain ⟨a, b, c', d, e, f, g, h, i, _⟩ := attach_core st c idx
  exact ⟨h, i, d, c', a, b, e, f, g⟩

theorem reattach_spec {F k} (no : Nat) (hno : F.length ≤ no) (keep : Array (Array Int)) :
    ∀ (fuel j : Nat) (st : St), Inv F st k → Inv F (reattach no keep fuel j st) k ∧ CoreEq st (reattach no keep fuel j st) := by
  intro fuel
  induction fuel with
  | zero => intro j st h; exact ⟨h, CoreEq.refl _⟩
  | succ fuel ih =>
    intro j st h
    unfold reattach
    simp only
    have h1 : Inv F (attach st keep[j]! (no + j)) k := inv_attach h _ (by omega)
    have e1 := coreEq_attach st keep[j]! (no + j)
    have : (if (keep[j]!).size == 2 then bigAdd st (keep[j]!)[0]! (keep[j]!)[1]! (no + j)
        else if (keep[j]!).size > 2 then addWatch (addWatch st (keep[j]!)[0]! (no + j)) (keep[j]!)[1]! (no + j) else st) =
        attach st keep[j]! (no + j) := by unfold attach; rfl
    rw [this]
    obtain ⟨h2, e2⟩ := ih (j + 1) _ h1
    exact ⟨h2, e1.trans e2⟩

theorem inv_reduceDb {F st k} (h : Inv F st k) : Inv F (reduceDb st) k ∧ CoreEq st (reduceDb st) := by
  unfold reduceDb
  split
  · exact ⟨h, CoreEq.refl _⟩
  · simp only
    -- the state with the learned-clause entries filtered out
    have hwl : ∀ l, wl { st with watch := st.watch.map (·.filter (· < st.nOrig)) } l = (wl st l).filter (· < st.nOrig) := by
      intro l; unfold wl watchOf; exact get!_map_filter _ _ _
    have h1 : Inv F { st with watch := st.watch.map (·.filter (· < st.nOrig)) } k := by
      refine inv_setWatch h _ (by rw [Array.size_map]; exact h.wsize) ?_ ?_ ?_
      · intro l c hc hlt
        rw [hwl] at hc
        exact h.wsound l c (List.mem_filter.1 hc).1 hlt
      · intro l
        rw [hwl, h.nOrig, List.filter_filter]
        simpa using h.wnodup l
      · intro c hc h3
        rw [hwl, hwl]
        obtain ⟨a0, a1⟩ := h.wattach c hc h3
        have hlt : decide (c < st.nOrig) = true := by rw [h.nOrig]; simpa using hc
        exact ⟨List.mem_filter.2 ⟨a0, hlt⟩, List.mem_filter.2 ⟨a1, hlt⟩⟩
    have h2 : Inv F { st with watch := st.watch.map (·.filter (· < st.nOrig)),
                              big := st.big.map (·.filter (·.2 < st.nOrig)) } k := by
      refine inv_setBig h1 _ (by rw [Array.size_map]; exact h.bsize) ?_
      intro c hc h2
      obtain ⟨b0, b1⟩ := h.battach c hc h2
      have hlt : decide (c < st.nOrig) = true := by rw [h.nOrig]; simpa using hc
      have hil : ∀ (s : St) (l : Int) (e : Int × Nat), s.big = st.big.map (·.filter (·.2 < st.nOrig)) →
          e ∈ il st l → decide (e.2 < st.nOrig) = true → e ∈ il s l := by
        intro s l e hs he hlt'
        unfold il implications; rw [hs, get!_map_filter]; exact List.mem_filter.2 ⟨he, hlt'⟩
      exact ⟨hil _ _ _ rfl b0 hlt, hil _ _ _ rfl b1 hlt⟩
    generalize st.watch.map (·.filter (· < st.nOrig)) = W at h2 ⊢
    generalize st.big.map (·.filter (·.2 < st.nOrig)) = B at h2 ⊢
    have key : ∀ (L : Array (Array Int)) (LB : Array Nat) (keep : Array (Array Int)) (fuel : Nat),
        Inv F (reattach st.nOrig keep fuel 0 { st with learned := L, lbd := LB, watch := W, big := B }) k ∧
        CoreEq st (reattach st.nOrig keep fuel 0 { st with learned := L, lbd := LB, watch := W, big := B }) := by
      intro L LB keep fuel
      have h3 := reattach_spec (F := F) (k := k) st.nOrig (by rw [h.nOrig]; exact Nat.le_refl _) keep fuel 0
        { st with learned := L, lbd := LB, watch := W, big := B }
        (inv_frame h2 rfl rfl rfl rfl rfl rfl rfl rfl rfl)
      refine ⟨h3.1, ?_⟩
      have e := h3.2
      exact ⟨e.nVars, e.nOrig, e.asm, e.clauses, e.vals, e.levels, e.trail, e.trailLim, e.propHead⟩
    exact key _ _ _ _

/-! ### `pick_var` -/

theorem pickLoop_spec : ∀ (fuel : Nat) (st st' : St) (var : Nat), pickLoop fuel st = (st', var) →
    CoreEq st st' ∧ st'.watch = st.watch ∧ st'.big = st.big ∧ (var = 0 ∨ valAt st' var = UNDEF) := by
  intro fuel
  induction fuel with
  | zero =>
    intro st st' var hs
    simp only [pickLoop, Prod.mk.injEq] at hs
    obtain ⟨rfl, rfl⟩ := hs
    exact ⟨CoreEq.refl _, rfl, rfl, Or.inl rfl⟩
  | succ fuel ih =>
    intro st st' var hs
    rw [pickLoop_eq_ref] at hs
    unfold pickLoopRef at hs
    split at hs
    · simp only [Prod.mk.injEq] at hs
      obtain ⟨rfl, rfl⟩ := hs
      exact ⟨CoreEq.refl _, rfl, rfl, Or.inl rfl⟩
    · rename_i v hpop
      simp only at hs
      split at hs
      · rename_i hu
        simp only [Prod.mk.injEq] at hs
        obtain ⟨rfl, rfl⟩ := hs
        exact ⟨⟨rfl, rfl, rfl, rfl, rfl, rfl, rfl, rfl, rfl⟩, rfl, rfl, Or.inr (by simpa [valAt] using hu)⟩
      · rw [← pickLoop_eq_ref] at hs
        obtain ⟨e, w, b, r⟩ := ih _ _ _ hs
        exact ⟨⟨e.nVars, e.nOrig, e.asm, e.clauses, e.vals, e.levels, e.trail, e.trailLim, e.propHead⟩, w, b, r⟩

/-- the activity bumps touch the activities and the heap only -/
theorem bumpOne_core (st : St) (v : Nat) : CoreEq st (bumpOne st v) ∧
    (bumpOne st v).watch = st.watch ∧ (bumpOne st v).big = st.big ∧ (bumpOne st v).learned = st.learned ∧
    (bumpOne st v).inHeap = st.inHeap := by
  unfold bumpOne; simp only; split <;> exact ⟨⟨rfl, rfl, rfl, rfl, rfl, rfl, rfl, rfl, rfl⟩, rfl, rfl, rfl, rfl⟩

theorem foldBump_core (bs : List Nat) : ∀ (st : St), CoreEq st (bs.foldl bumpOne st) ∧
    (bs.foldl bumpOne st).watch = st.watch ∧ (bs.foldl bumpOne st).big = st.big ∧
    (bs.foldl bumpOne st).learned = st.learned ∧ (bs.foldl bumpOne st).inHeap = st.inHeap := by
  induction bs with
  | nil => intro st; exact ⟨CoreEq.refl _, rfl, rfl, rfl, rfl⟩
  | cons v t ih =>
    intro st
    simp only [List.foldl_cons]
    obtain ⟨e0, w0, b0, l0, i0⟩ := bumpOne_core st v
    obtain ⟨e, w, b, l, i⟩ := ih (bumpOne st v)
    exact ⟨e0.trans e, w.trans w0, b.trans b0, l.trans l0, i.trans i0⟩

theorem applyBumps_core (bs : List Nat) (st : St) : CoreEq st (applyBumps st bs) ∧
    (applyBumps st bs).watch = st.watch ∧ (applyBumps st bs).big = st.big ∧ (applyBumps st bs).learned = st.learned ∧
    (applyBumps st bs).inHeap = st.inHeap := by
  unfold applyBumps
  obtain ⟨e, w, b, l, i⟩ := foldBump_core bs st
  exact ⟨⟨e.nVars, e.nOrig, e.asm, e.clauses, e.vals, e.levels, e.trail, e.trailLim, e.propHead⟩, w, b, l, i⟩

/-! ### the named sub-steps of the main loop -/

/-- ready for `propagate`: the invariant holds up to the propagation head -/
def Ready (F : List (List Int)) (st : St) : Prop := Inv F st st.propHead ∧ Z F st

/-- the part of the loop invariant that depends on the outcome of the last `propagate` -/
def After (F : List (List Int)) (st : St) : PRes → Prop
  | .ok => Inv F st st.trail.size ∧ st.propHead = st.trail.size ∧ Z F st
  | .conflict _ => (∃ k, Inv F st k) ∧ Z F st
  | .assumption => ∃ k, Inv F st k
  | .fuel => True

theorem propagate_after {F st st' c} (h : Ready F st) (hs : propagate st = (st', c)) : After F st' c := by
  obtain ⟨h1, e1, r1⟩ := propagate_spec h.1 hs
  have hz := Z_ext h.2 e1
  cases c with
  | ok => obtain ⟨a, b, _⟩ := r1 rfl; exact ⟨a, b, hz⟩
  | conflict idx => exact ⟨⟨_, h1⟩, hz⟩
  | assumption => exact ⟨_, h1⟩
  | fuel => trivial

theorem propagate_asm {st st' c} (hs : propagate st = (st', c)) {F} (h : Inv F st st.propHead) :
    st'.assumptions = st.assumptions ∧ st'.nVars = st.nVars := by
  obtain ⟨_, e1, _⟩ := propagate_spec h hs
  exact ⟨e1.asm, e1.nV⟩

theorem unassignTo_noop (st : St) (level : Nat) (h : st.trailLim.size ≤ level) : unassignTo st level = st := by
  unfold unassignTo; simp [h]

/-- restart / blocking-clause restart: back to level 0, whichever level we are on -/
theorem unassignTo0_ready {F st} (h : Ready F st) : Ready F (unassignTo st 0) ∧
    (unassignTo st 0).nVars = st.nVars ∧ (unassignTo st 0).nOrig = st.nOrig ∧
    (unassignTo st 0).assumptions = st.assumptions ∧
    (∀ v, valAt st v = UNDEF → valAt (unassignTo st 0) v = UNDEF) ∧
    (∀ v, v ≤ st.nVars → 0 < lvlAt st v → valAt (unassignTo st 0) v = UNDEF) := by
  by_cases h0 : st.trailLim.size ≤ 0
  · rw [unassignTo_noop st 0 h0]
    refine ⟨h, rfl, rfl, rfl, fun _ hh => hh, ?_⟩
    intro v hv hl
    apply Classical.byContradiction
    intro hn
    have := h.1.lvlLeOf hv hn
    omega
  · obtain ⟨a, b, _, d⟩ := unassignTo_spec h.1 (level := 0) (by omega)
    refine ⟨⟨b ▸ a, Z_back h.2 d⟩, d.nVars, d.nOrig, d.asm, d.undef, ?_⟩
    intro v hv hl
    by_cases hu : valAt st v = UNDEF
    · exact d.undef v hu
    · exact d.gone v hv hu hl

theorem learnAndJump_ready {F st k} (h : Inv F st k) (hz : Z F st) {lc : Array Int} {bt : Nat}
    (hg : uipOk st lc bt = true) (lbd : Nat) :
    Ready F (learnAndJump st lc bt lbd) ∧ (learnAndJump st lc bt lbd).assumptions = st.assumptions ∧
    (learnAndJump st lc bt lbd).nVars = st.nVars := by
  unfold uipOk at hg
  simp only [Bool.and_eq_true, decide_eq_true_eq, bne_iff_ne, beq_iff_eq] at hg
  obtain ⟨⟨⟨_, hasg⟩, hlvl⟩, hbt⟩ := hg
  have hasg' : valAt st (lc[0]!).natAbs ≠ UNDEF := hasg
  have hlvl' : lvlAt st (lc[0]!).natAbs = st.trailLim.size := hlvl
  have hvn : (lc[0]!).natAbs ≤ st.nVars := by
    apply Classical.byContradiction
    intro hn
    unfold lvlAt at hlvl'
    rw [get!_of_ge _ _ (by rw [h.lsize]; omega)] at hlvl'
    have : (default : Nat) = 0 := rfl
    omega
  obtain ⟨a, b, _, d⟩ := unassignTo_spec h hbt
  unfold learnAndJump
  simp only
  generalize hs1 : unassignTo st bt = s1 at a b d
  have hu1 : valAt s1 (lc[0]!).natAbs = UNDEF := d.gone _ hvn hasg' (by omega)
  -- push the clause, attach it
  have h2 : Inv F { s1 with learned := s1.learned.push lc, lbd := s1.lbd.push lbd } s1.trail.size :=
    inv_frame a rfl rfl rfl rfl rfl rfl rfl rfl rfl
  have hidx : F.length ≤ s1.nOrig + s1.learned.size := by rw [d.nOrig, h.nOrig]; omega
  have h3 := inv_attach h2 lc hidx
  have e3 := coreEq_attach { s1 with learned := s1.learned.push lc, lbd := s1.lbd.push lbd } lc (s1.nOrig + s1.learned.size)
  have hu3 : valAt (attach { s1 with learned := s1.learned.push lc, lbd := s1.lbd.push lbd } lc (s1.nOrig + s1.learned.size))
      (lc[0]!).natAbs = UNDEF := by unfold valAt; rw [e3.vals]; exact hu1
  have h4 := inv_assign h3 hu3 (decide (0 < lc[0]!)) ((s1.nOrig + s1.learned.size : Nat) : Int)
  have e4 := ext_assign h3 hu3 (decide (0 < lc[0]!)) ((s1.nOrig + s1.learned.size : Nat) : Int)
  have hz1 : Z F s1 := Z_back hz d
  have hz3 := e3.Z (Z_of_eq (st := s1) (st' := { s1 with learned := s1.learned.push lc, lbd := s1.lbd.push lbd }) hz1 rfl rfl rfl rfl)
  refine ⟨⟨?_, Z_ext hz3 e4⟩, ?_, ?_⟩
  · have hp : (assign (attach { s1 with learned := s1.learned.push lc, lbd := s1.lbd.push lbd } lc (s1.nOrig + s1.learned.size))
        (lc[0]!).natAbs (decide (0 < lc[0]!)) ((s1.nOrig + s1.learned.size : Nat) : Int)).propHead = s1.trail.size := by
      show (attach _ lc _).propHead = _
      rw [e3.propHead]; exact b
    rw [hp]; exact h4
  · show (attach _ lc _).assumptions = _
    rw [e3.asm]; exact d.asm
  · show (attach _ lc _).nVars = _
    rw [e3.nVars]; exact d.nVars

theorem restartSt_ready {F st} (h : Ready F st) :
    Ready F (restartSt st) ∧ (restartSt st).assumptions = st.assumptions ∧ (restartSt st).nVars = st.nVars := by
  unfold restartSt
  have h0 : Ready F { st with restarts := st.restarts + 1 } :=
    ⟨inv_frame h.1 rfl rfl rfl rfl rfl rfl rfl rfl rfl, Z_of_eq h.2 rfl rfl rfl rfl⟩
  obtain ⟨h1, n1, _, a1, _⟩ := unassignTo0_ready h0
  generalize unassignTo { st with restarts := st.restarts + 1 } 0 = s1 at h1 n1 a1 ⊢
  obtain ⟨h2, e2⟩ := inv_reduceDb h1.1
  generalize reduceDb s1 = s2 at h2 e2 ⊢
  have hI : Inv F s2 s2.propHead := by rw [e2.propHead]; exact h2
  exact ⟨⟨hI, e2.Z h1.2⟩, e2.asm.trans a1, e2.nVars.trans n1⟩

theorem decideSt_ready {F st} (h : Inv F st st.trail.size) (hp : st.propHead = st.trail.size) (hz : Z F st)
    {var : Nat} (hu : valAt st var = UNDEF) :
    Ready F (decideSt st var) ∧ (decideSt st var).assumptions = st.assumptions ∧ (decideSt st var).nVars = st.nVars := by
  unfold decideSt
  simp only
  have h1 : Inv F { st with decisions := st.decisions + 1, trailLim := st.trailLim.push st.trail.size } st.trail.size :=
    inv_frame (inv_decide h) rfl rfl rfl rfl rfl rfl rfl rfl rfl
  have hu1 : valAt { st with decisions := st.decisions + 1, trailLim := st.trailLim.push st.trail.size } var = UNDEF := hu
  have hz1 : Z F { st with decisions := st.decisions + 1, trailLim := st.trailLim.push st.trail.size } :=
    Z_of_eq hz rfl rfl rfl rfl
  have h2 := inv_assign h1 hu1 (st.phase[var]!) (-1)
  have e2 := ext_assign h1 hu1 (st.phase[var]!) (-1)
  refine ⟨⟨?_, Z_ext hz1 e2⟩, rfl, rfl⟩
  exact (congrArg (fun k => Inv F _ k) hp).mpr h2

/-! ### blocking clauses -/

theorem blockingOf_mem (st : St) (b : Int) (hb : b ∈ (blockingOf st).toList) :
    b.natAbs ≤ st.nVars ∧ 0 < lvlAt st b.natAbs := by
  unfold blockingOf at hb
  simp only [List.mem_filterMap, List.mem_range'_1] at hb
  obtain ⟨v, ⟨hv1, hv2⟩, hf⟩ := hb
  split at hf
  · rename_i hl
    simp only [Option.some.injEq] at hf
    have hn : b.natAbs = v := by
      rw [← hf]; split <;> simp
    rw [hn]
    exact ⟨by omega, hl⟩
  · cases hf

theorem blockSt_ready {F st} (h : Inv F st st.trail.size) (hp : st.propHead = st.trail.size) (hz : Z F st)
    (blocking : Array Int) (hB : ∀ b ∈ blocking.toList, b.natAbs ≤ st.nVars ∧ 0 < lvlAt st b.natAbs) :
    Ready F (blockSt st blocking) ∧ (blockSt st blocking).assumptions = st.assumptions ∧
    (blockSt st blocking).nVars = st.nVars := by
  unfold blockSt
  simp only
  have h1 : Ready F { st with learned := st.learned.push blocking, lbd := st.lbd.push 0, nBlocking := st.nBlocking + 1 } := by
    refine ⟨?_, Z_of_eq hz rfl rfl rfl rfl⟩
    show Inv F _ st.propHead
    exact (congrArg (fun k => Inv F _ k) hp).mpr (inv_frame h rfl rfl rfl rfl rfl rfl rfl rfl rfl)
  obtain ⟨h2, n2, o2, a2, _, g2⟩ := unassignTo0_ready h1
  generalize unassignTo { st with learned := st.learned.push blocking, lbd := st.lbd.push 0, nBlocking := st.nBlocking + 1 } 0 = s2
    at h2 n2 o2 a2 g2 ⊢
  have hidx : F.length ≤ st.nOrig + st.learned.size := by rw [h.nOrig]; omega
  split
  · rename_i hsz
    have hsz' : blocking.size = 1 := by simpa using hsz
    have hmem : blocking[0]! ∈ blocking.toList := (mem_toList_iff_get! _ _).2 ⟨0, by omega, rfl⟩
    obtain ⟨hb1, hb2⟩ := hB _ hmem
    have hu : valAt s2 (blocking[0]!).natAbs = UNDEF := g2 _ hb1 hb2
    have h3 := inv_assign h2.1 hu (decide (0 < blocking[0]!)) ((st.nOrig + st.learned.size : Nat) : Int)
    have e3 := ext_assign h2.1 hu (decide (0 < blocking[0]!)) ((st.nOrig + st.learned.size : Nat) : Int)
    exact ⟨⟨h3, Z_ext h2.2 e3⟩, a2, n2⟩
  · have h3 := inv_attach h2.1 blocking hidx
    have e3 := coreEq_attach s2 blocking (st.nOrig + st.learned.size)
    generalize attach s2 blocking (st.nOrig + st.learned.size) = s3 at h3 e3 ⊢
    have hI : Inv F s3 s3.propHead := by rw [e3.propHead]; exact h3
    exact ⟨⟨hI, e3.Z h2.2⟩, e3.asm.trans a2, e3.nVars.trans n2⟩

/-! ### the assignment read off at a solution -/

/-- what C01 asks of a returned assignment: no input clause is false under it, every assumption
literal is assigned its sign, and every variable `1..n_vars` has a value -/
def GoodSol (F : List (List Int)) (as : List Int) (m : List (Nat × Bool)) : Prop :=
  (∀ c ∈ F, ∃ l ∈ c, m.lookup l.natAbs ≠ some (!decide (0 < l))) ∧
  (∀ a ∈ as, m.lookup a.natAbs = some (decide (0 < a))) ∧
  (∀ v, 1 ≤ v → v ≤ countVars F as → (m.lookup v).isSome = true)

theorem lookup_filterMap (f : Nat → Option (Nat × Bool)) (hf : ∀ v p, f v = some p → p.1 = v) :
    ∀ (l : List Nat) (v : Nat), l.Nodup →
      (l.filterMap f).lookup v = if v ∈ l then (f v).map (·.2) else none := by
  intro l
  induction l with
  | nil => intro v _; rfl
  | cons a t ih =>
    intro v hn
    obtain ⟨hat, hnt⟩ := List.nodup_cons.1 hn
    rw [List.filterMap_cons]
    cases hfa : f a with
    | none =>
      simp only
      rw [ih v hnt]
      by_cases hva : v = a
      · subst hva; simp [hat, hfa]
      · simp [hva]
    | some p =>
      simp only
      have hp := hf a p hfa
      obtain ⟨k, b⟩ := p
      simp only at hp; subst hp
      by_cases hva : v = k
      · subst hva; simp [List.lookup, hfa]
      · have : (v == k) = false := by simpa using hva
        simp only [List.lookup, this]
        rw [ih v hnt]; simp [hva]

theorem readSol_lookup (st : St) (v : Nat) :
    (readSol st).lookup v = if 1 ≤ v ∧ v ≤ st.nVars ∧ valAt st v ≠ UNDEF then some (valAt st v == 1) else none := by
  unfold readSol
  rw [lookup_filterMap _ _ _ v (List.nodup_range' (step := 1) (by omega))]
  · simp only [List.mem_range'_1]
    by_cases h1 : 1 ≤ v ∧ v < 1 + st.nVars
    · have h1' : 1 ≤ v ∧ v ≤ st.nVars := by omega
      by_cases h2 : valAt st v = UNDEF
      · have : (st.vals[v]! != UNDEF) = false := by simpa [valAt] using h2
        simp [h1, h1', h2, this]
      · have : (st.vals[v]! != UNDEF) = true := by simpa [valAt] using h2
        have h2' : ¬ st.vals[v]! = UNDEF := h2
        simp [h1, h1', h2', this, valAt]
    · have h1' : ¬ (1 ≤ v ∧ v ≤ st.nVars ∧ valAt st v ≠ UNDEF) := by omega
      simp [h1, h1']
  · intro w p hp
    split at hp
    · cases hp; rfl
    · cases hp

theorem lookup_of_not_false {st : St} {l : Int} (h0 : l ≠ 0) (hr : l.natAbs ≤ st.nVars) (hnf : ¬ IsFalse st l) :
    (readSol st).lookup l.natAbs ≠ some (!decide (0 < l)) := by
  rw [readSol_lookup]
  have h1 : 1 ≤ l.natAbs := by omega
  by_cases hu : valAt st l.natAbs = UNDEF
  · simp [hu]
  · simp only [h1, hr, hu, ne_eq, not_false_eq_true, and_self, if_true, Option.some.injEq]
    unfold IsFalse at hnf; rw [litValue_def] at hnf
    simp only [hu, if_false, Option.some.injEq] at hnf
    cases hb : (valAt st l.natAbs == 1) <;> cases hd : decide (0 < l) <;> simp_all

theorem lookup_of_true {st : St} {l : Int} (h0 : l ≠ 0) (hr : l.natAbs ≤ st.nVars) (ht : IsTrue st l) :
    (readSol st).lookup l.natAbs = some (decide (0 < l)) := by
  rw [readSol_lookup]
  have h1 : 1 ≤ l.natAbs := by omega
  have hu := ht.assigned
  simp only [h1, hr, hu, ne_eq, not_false_eq_true, and_self, if_true, Option.some.injEq]
  unfold IsTrue at ht; rw [litValue_def] at ht
  simp only [hu, if_false, Option.some.injEq] at ht
  cases hb : (valAt st l.natAbs == 1) <;> cases hd : decide (0 < l) <;> simp_all

theorem good_readSol {F st as} (h : Inv F st st.trail.size) (hz : Z F st) (hne : ∀ c ∈ F, c ≠ [])
    (hasm : st.assumptions = as) (haok : ∀ a ∈ as, a ≠ 0 ∧ a.natAbs ≤ st.nVars)
    (hnv : st.nVars = countVars F as) (htot : ∀ v, 1 ≤ v → v ≤ st.nVars → valAt st v ≠ UNDEF) :
    GoodSol F as (readSol st) := by
  refine ⟨?_, ?_, ?_⟩
  · intro c hc
    obtain ⟨i, hi, rfl⟩ := List.getElem_of_mem hc
    have hsz := h.clSize hi
    have hpos : 0 < F[i].length := List.length_pos_iff.2 (hne _ hc)
    have lit : ∀ a, a < (cl st i).size → (cl st i)[a]! ∈ F[i] ∧ (cl st i)[a]! ≠ 0 ∧ (cl st i)[a]!.natAbs ≤ st.nVars := by
      intro a ha
      have hm := h.clGet hi ha
      exact ⟨hm, h.fok.nz _ hc _ hm, h.fok.rng _ hc _ hm⟩
    -- a false first watch forces a true second one
    have two : ∀ (s : Sem2 st st.trail.size (cl st i)[0]! (cl st i)[1]!), 2 ≤ (cl st i).size →
        ∃ l ∈ F[i], (readSol st).lookup l.natAbs ≠ some (!decide (0 < l)) := by
      intro s h2
      obtain ⟨m0, z0, r0⟩ := lit 0 (by omega)
      obtain ⟨m1, z1, r1⟩ := lit 1 (by omega)
      by_cases hf : IsFalse st (cl st i)[0]!
      · have hp : Proc st st.trail.size (cl st i)[0]! := by
          obtain ⟨j, hj, hjv⟩ := (mem_toList_iff_get! _ _).1 ((h.tmem _).2 ⟨r0, hf.assigned⟩)
          exact ⟨j, hj, hj, hjv⟩
        have ht := (s hf hp).1
        refine ⟨_, m1, lookup_of_not_false z1 r1 (fun hh => not_true_and_false ht hh)⟩
      · exact ⟨_, m0, lookup_of_not_false z0 r0 hf⟩
    by_cases h3 : 3 ≤ (cl st i).size
    · exact two (h.wsem i hi h3).1 (by omega)
    · by_cases h2 : (cl st i).size = 2
      · exact two (h.bsem i hi h2).1 (by omega)
      · have h1 : (cl st i).size = 1 := by omega
        obtain ⟨m0, z0, r0⟩ := lit 0 (by omega)
        have ht := (hz.1 i hi h1).1
        exact ⟨_, m0, lookup_of_not_false z0 r0 (fun hh => not_true_and_false ht hh)⟩
  · intro a ha
    obtain ⟨a0, ar⟩ := haok a ha
    exact lookup_of_true a0 ar (hz.2 a (hasm ▸ ha)).1
  · intro v hv1 hv2
    rw [readSol_lookup]
    have hv2' : v ≤ st.nVars := by rw [hnv]; exact hv2
    simp [hv1, hv2', htot v hv1 hv2']

end Solvor.Sat.Cdcl
