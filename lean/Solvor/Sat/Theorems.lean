import Solvor.Sat.Lemmas
import Solvor.Sat.Luby
import Solvor.Sat.CdclInit
/-!
Sat: the property theorems of C01 and C02 (helper lemmas are in `Lemmas.lean` / `Luby.lean`).

Layers (DESIGN §4 C01/C02):
* T-spec – the verified checkers the driver evaluates on every value `solve_sat` returns
  (`evalCnf_iff`, `evalCnf_models`, `pairwiseDistinct_iff`);
* T-model – the reference DPLL and model enumerator are sound and complete for every
  well-formed CNF with assumptions (`dpll_sat_iff`, `dpll_unsat_iff`, `dpll_models_complete`), so an
  `INFEASIBLE`/model verdict of `solve_sat` is compared against a *proved* verdict on each input;
* facts about the mechanisms the property names: blocking clauses (`distinct_of_blocked`),
  1-UIP resolution (`resolve_sound`, `learn_chain_sound`), the Luby schedule as regenerated from
  the source (`luby_pos`, `luby_pow2`, `luby_fuel`, `luby_at_pow`, `luby_rec`).

Stretch items [S] of the design, about the executable CDCL mirror `Sat.Cdcl.solve`
(Solvor/Sat/Cdcl.lean), which is tied to `solve_sat` by R_trace (same status, same assignments in
the same order, same decision/propagation counters on every explored input):

* proved: `cdcl_returns_models_partial` (below) – for every input without repeated literals inside a
  clause and every parameter setting, every assignment the mirror returns passes `evalCnf` (total on
  `1..n_vars`, every clause true, every assumption literal given its sign).  The proof carries two
  invariants through every operation of the mirror – `assign`, the watch loop with its in-place
  clause swaps and swap-with-last removals, the binary-implication lists, backjumps and restarts
  (`unassignTo`), learned / blocking clause insertion, `reduceDb`, activity bumps, `pick_var`,
  decisions and the set-up code: the two-watched-literal / trail invariant `Cdcl.Inv` (CdclInv.lean)
  and the heap / learned-clause invariant `Cdcl.HInvX` (CdclH.lean: every unassigned variable has an
  entry in the VSIDS heap, variable 0 is never assigned, watched learned clauses are in range).

-- FULL STATEMENT (not proved): cdcl_returns_models
--   theorem cdcl_returns_models (f : Cnf) (as : List Int) (P : Cdcl.Params)
--       (hf : WF f) (ha : ∀ a ∈ as, a ≠ 0) (hne : ∀ c ∈ f, c ≠ []) :
--       let o := Cdcl.solve f as P
--       (∀ m, o.solution = some m → evalCnf f as m = true) ∧
--       (∀ ms, o.solutions = some ms →
--          (∀ m ∈ ms, evalCnf f as m = true) ∧ pairwiseDistinct ms = true)
--   (`hne` excludes the recorded finding: a formula of empty clauses only is answered `{}`.)
--   Missing relative to `cdcl_returns_models_partial`: (ii) clauses with a repeated literal (`[1, 1, -2]`: the clause is then entered twice
--   in one watch list and the invariant "each input clause occurs once per watch list" fails; the
--   correspondence check covers such inputs by running them); (iv) that the mirror's give-up exit
--   `GUARD` never fires.  `GUARD` = one of the mirror's own checks fails: a post-condition of the
--   imperative `analyze` (the asserted literal of the learned clause is on the conflict level, the
--   backjump level is below it, no literal 0 in the learned clause, no variable 0 among the bumped
--   ones), the resolution-chain certificate of a learned clause, the unit-propagation refutation
--   before INFEASIBLE, or the distinctness check on an enumeration (proving that one away needs the
--   watch invariant for blocking clauses too, including the re-indexing done by `reduceDb`).  These
--   exits return no assignment, so they do not affect the statement, but they are where the mirror
--   could part from `solve_sat`.  (The other give-up exit, `FUEL`, is proved dead: `cdcl_fuel_suffices_partial`.)
* proved: `cdcl_infeasible_sound_partial` (below) – for the same inputs the mirror answers INFEASIBLE only
  for unsatisfiable clauses + assumptions.  The mirror is *certifying*: it checks every learned clause
  against the logged resolution chain (`chainOk`, sound by `learn_chain_sound`) and, before INFEASIBLE,
  a unit-propagation refutation of input + assumptions + pure literals + learned clauses (`certify`,
  sound by `upRefutes_sound` and the pure-literal rule); a failed check ends the run with `GUARD`.
-- FULL STATEMENT (not proved): cdcl_infeasible_sound
--   theorem cdcl_infeasible_sound (f as P) (hf : WF f) (ha : ∀ a ∈ as, a ≠ 0) :
--       (Cdcl.solve f as P).status = .INFEASIBLE → ¬ ∃ σ, Models σ f as
--   Missing relative to `cdcl_infeasible_sound_partial`: clauses with a repeated literal; and that the
--   certificate checks never fail (then the mirror's INFEASIBLE coincides with `solve_sat`'s).
* proved: `cdcl_fuel_suffices_partial` (below) – for the same inputs the mirror never leaves through its
  `FUEL` exit: neither the fuel of the main loop (`Cdcl.loopFuel max_conflicts solution_limit n_vars`
  iterations) nor the fuel of the propagation loops (trail positions / watch-list entries) runs out.  The
  proof counts: iterations = decisions + learned clauses + solutions; each learned clause is paid for by a
  conflict; a decision is only survived while `conflicts < max_conflicts`, and once the budget is used up
  every further conflict lowers the decision level (CdclMain.lean, fields `c_*` of `LoopInv`; CdclFuel.lean
  for `propagate`).
-- FULL STATEMENT (not proved): cdcl_fuel_suffices
--   theorem cdcl_fuel_suffices (f as P) : (Cdcl.solve f as P).status ≠ .UNBOUNDED
--   (`UNBOUNDED` is how the mirror reports "fuel exhausted" / "sanity check failed".)  Missing relative to
--   `cdcl_fuel_suffices_partial`: clauses with a repeated literal or no literal at all; and that the
--   mirror's other give-up exit `GUARD` (a failed certificate / post-condition check, see above) never fires.
-/
namespace Solvor.Sat

/-! ## C01 -/

/-- T-spec (C01): the checker run on every returned assignment `m` (a `dict[int,bool]`, as its item
list) accepts exactly when every occurring variable has an entry, every clause contains a literal
whose variable is assigned the literal's sign, and every assumption literal is assigned its sign. -/
theorem evalCnf_iff (f : Cnf) (as : List Int) (m : AList) :
    evalCnf f as m = true ↔
      (∀ c ∈ f, ∀ l ∈ c, ∃ b, m.lookup l.natAbs = some b) ∧
      (∀ a ∈ as, ∃ b, m.lookup a.natAbs = some b) ∧
      (∀ c ∈ f, ∃ l ∈ c, m.lookup l.natAbs = some (decide (0 < l))) ∧
      (∀ a ∈ as, m.lookup a.natAbs = some (decide (0 < a))) := by
  unfold evalCnf totalOn
  simp only [Bool.and_eq_true, List.all_eq_true, List.any_eq_true, litHolds_iff,
    Option.isSome_iff_exists]
  constructor
  · rintro ⟨⟨⟨h1, h2⟩, h3⟩, h4⟩; exact ⟨h1, h2, h3, h4⟩
  · rintro ⟨h1, h2, h3, h4⟩; exact ⟨⟨⟨h1, h2⟩, h3⟩, h4⟩

example : evalCnf [[1, -2], [2, 3], [-1, -3]] [-3] [(1, true), (2, true), (3, false)] = true := by decide
example : evalCnf [[1], [2, 3]] [] [(1, false), (2, true), (3, true)] = false := by decide

/-- T-spec (C01), semantic form: an accepted assignment, read as a total assignment, is a model of
the formula and of the assumptions; conversely a model that has an entry for every occurring
variable is accepted. -/
theorem evalCnf_models (f : Cnf) (as : List Int) (m : AList) :
    evalCnf f as m = true ↔ totalOn m f as = true ∧ Models (asgOf m) f as := by
  unfold evalCnf
  simp only [Bool.and_eq_true, List.all_eq_true, List.any_eq_true]
  constructor
  · rintro ⟨⟨ht, h1⟩, h2⟩
    refine ⟨ht, fun c hc => ?_, fun a ha => litTrue_asgOf_of_holds (h2 a ha)⟩
    obtain ⟨l, hl, hh⟩ := h1 c hc
    exact ⟨l, hl, litTrue_asgOf_of_holds hh⟩
  · rintro ⟨ht, h1, h2⟩
    have ht' := ht
    unfold totalOn at ht'
    simp only [Bool.and_eq_true, List.all_eq_true] at ht'
    refine ⟨⟨ht, fun c hc => ?_⟩, fun a ha => holds_of_litTrue_asgOf (ht'.2 a ha) (h2 a ha)⟩
    obtain ⟨l, hl, hh⟩ := h1 c hc
    exact ⟨l, hl, holds_of_litTrue_asgOf (ht'.1 c hc l hl) hh⟩

example : totalOn [(1, true), (2, false)] [[1, 2]] [-2] = true ∧ Models (asgOf [(1, true), (2, false)]) [[1, 2]] [-2] :=
  (evalCnf_models _ _ _).1 (by decide)

/-- T-spec (C01): the distinctness checker accepts exactly the lists of assignments that pairwise
differ on some variable. -/
theorem pairwiseDistinct_iff (ms : List AList) :
    pairwiseDistinct ms = true ↔ ms.Pairwise (fun a b => ∃ v, a.lookup v ≠ b.lookup v) := by
  induction ms with
  | nil => simp [pairwiseDistinct]
  | cons a ms ih =>
    simp only [pairwiseDistinct, Bool.and_eq_true, List.all_eq_true, differ_iff, ih, List.pairwise_cons]

example : pairwiseDistinct [[(1, true), (2, true)], [(1, true), (2, false)], [(1, false), (2, true)]] = true := by decide
example : pairwiseDistinct [[(1, true), (2, true)], [(1, false), (2, true)], [(1, true), (2, true)]] = false := by decide

/-- T-spec (C01): the checker the driver actually runs on `Result.solutions` (base-3 codes over the
variables `vs` first, the exact quadratic check as fallback) decides the same relation, for any `vs`. -/
theorem distinctB_iff (vs : List Nat) (ms : List AList) :
    distinctB vs ms = true ↔ ms.Pairwise (fun a b => ∃ v, a.lookup v ≠ b.lookup v) := by
  unfold distinctB
  rw [Bool.or_eq_true, pairwiseDistinct_iff]
  exact ⟨fun h => h.elim fastDistinct_sound id, Or.inr⟩

example : distinctB [1, 2] [[(1, true), (2, true)], [(1, true), (2, false)]] = true ∧
    fastDistinct [1, 2] [[(1, true), (2, true)], [(1, true), (2, false)]] = true := by decide

/-- T-model (C01/C02): the reference DPLL answers "satisfiable" exactly when formula and assumptions
have a common model – for every CNF without the literal 0 (fuel proved sufficient). -/
theorem dpll_sat_iff (f : Cnf) (as : List Int) (hf : WF f) (ha : ∀ a ∈ as, a ≠ 0) :
    solve (withAssumptions f as) = true ↔ ∃ σ, Models σ f as := by
  rw [solve_correct _ (WF_withAssumptions hf ha)]
  exact ⟨fun ⟨σ, h⟩ => ⟨σ, cnfTrue_withAssumptions.1 h⟩, fun ⟨σ, h⟩ => ⟨σ, cnfTrue_withAssumptions.2 h⟩⟩

example : WF [[1, 2], [-1, 3], [-2, -3]] ∧ solve (withAssumptions [[1, 2], [-1, 3], [-2, -3]] [-1]) = true :=
  ⟨wfB_iff.1 (by decide), by decide⟩

/-- T-model (C01): the enumerator lists the models of `f` projected to the distinct variables
`vs`, each exactly once: every entry assigns exactly `vs` and extends to a model; the projection of
every model is listed; no entry is listed twice. -/
theorem dpll_models_complete (vs : List Nat) (f : Cnf) (hvs : vs.Nodup) (h0 : ∀ v ∈ vs, v ≠ 0) (hf : WF f) :
    (∀ m ∈ enumModels vs f, m.map Prod.fst = vs ∧ ∃ σ, cnfTrue σ f = true ∧ ∀ p ∈ m, σ p.1 = p.2) ∧
    (∀ σ, cnfTrue σ f = true → vs.map (fun v => (v, σ v)) ∈ enumModels vs f) ∧
    (enumModels vs f).Nodup :=
  ⟨fun m hm => ⟨enum_keys vs f m hm, enum_sound vs f hvs h0 hf m hm⟩, enum_complete vs f h0 hf, enum_nodup vs f⟩

example : enumModels [1, 2] [[1, 2], [-1, 3]] =
    [[(1, true), (2, true)], [(1, true), (2, false)], [(1, false), (2, true)]] := by decide

/-- C01 (blocking clauses): an assignment that satisfies the blocking clause built from an earlier
assignment differs from it on one of the blocked variables. -/
theorem distinct_of_blocked (σ τ : Asg) (vs : List Nat) (h0 : ∀ v ∈ vs, v ≠ 0)
    (h : clauseTrue τ (blocking σ vs) = true) : ∃ v ∈ vs, σ v ≠ τ v := by
  rw [clauseTrue_iff] at h
  obtain ⟨l, hl, ht⟩ := h
  obtain ⟨v, hv, rfl⟩ := List.mem_map.1 hl
  refine ⟨v, hv, ?_⟩
  cases hb : σ v with
  | true => simp only [hb, if_true, litTrue_neg_natCast (h0 v hv)] at ht; simpa using ht
  | false =>
    simp only [hb, Bool.false_eq_true, if_false, litTrue_natCast (h0 v hv)] at ht
    simp [ht]

example : clauseTrue (fun v => v == 2) (blocking (fun v => v == 1) [1, 2]) = true := by decide

/-- C01/C02 (clause learning): the resolvent on a non-zero pivot is true under every assignment
making both parents true. -/
theorem resolve_sound (σ : Asg) (c d : Clause) (p : Int) (hp : p ≠ 0)
    (hc : clauseTrue σ c = true) (hd : clauseTrue σ d = true) : clauseTrue σ (resolve c d p) = true :=
  resolve_true hp hc hd

example : resolve [1, 2] [-1, 3] 1 = [2, 3] := by decide

/-- C01/C02 (clause learning): a clause obtained from an entailed conflict clause by the 1-UIP chain
of resolutions with entailed antecedents – and any clause containing all its literals, e.g. the
de-duplicated one `analyze()` stores – is entailed by the formula. -/
theorem learn_chain_sound (f : Cnf) (c0 : Clause) (steps : List (Clause × Int)) (c' : Clause)
    (h0 : Entails f c0) (hs : ∀ s ∈ steps, Entails f s.1 ∧ s.2 ≠ 0)
    (hsub : ∀ l ∈ chain c0 steps, l ∈ c') : Entails f c' := by
  intro σ hσ
  obtain ⟨l, hl, ht⟩ := clauseTrue_iff.1 (entails_chain steps c0 h0 hs σ hσ)
  exact clauseTrue_iff.2 ⟨l, hsub l hl, ht⟩

example : chain [-1, -2] [([2, -3], 2), ([3, -1], 3)] = [-1, -1] := by decide

/-- C01/C02 (clause learning, per-input check): the Boolean test the driver applies to every clause
the CDCL mirror learns – "formula ∧ ¬clause is unsatisfiable" by the reference DPLL – decides
entailment. -/
theorem entailsB_iff (f : Cnf) (c : Clause) (hf : WF f) (hc : ∀ l ∈ c, l ≠ 0) :
    entailsB f c = true ↔ Entails f c := entailsB_correct hf hc

example : entailsB [[1, 2], [-1, 3], [-2, 3]] [3] = true ∧ entailsB [[1, 2], [-1, 3]] [3] = false := by decide

/-- [S], partial (C01): whatever the parameters, every assignment returned by the CDCL mirror is
accepted by the checker `evalCnf` – it has a value for every variable `1..n_vars`, makes every clause
true and gives every assumption literal its sign – for every input whose clauses are non-empty, free
of the literal 0 and of repeated literals, with non-zero assumptions; and the assignments of an
enumeration are pairwise different.  (Distinctness holds because the mirror is certifying here too: it
runs the verified checker `distinctB` on its enumeration before returning it – `Cdcl.guardDistinct` – and
gives up with `GUARD` otherwise.) -/
theorem cdcl_returns_models_partial (f : Cnf) (as : List Int) (P : Cdcl.Params)
    (hf : WF f) (hnd : ∀ c ∈ f, c.Nodup) (hne : ∀ c ∈ f, c ≠ []) (ha : ∀ a ∈ as, a ≠ 0) :
    (∀ m, (Cdcl.solve f as P).solution = some m → evalCnf f as m = true) ∧
    (∀ ms, (Cdcl.solve f as P).solutions = some ms →
      (∀ m ∈ ms, evalCnf f as m = true) ∧ pairwiseDistinct ms = true) := by
  suffices key : ∀ m, ((Cdcl.solve f as P).solution = some m ∨ ∃ ms, (Cdcl.solve f as P).solutions = some ms ∧ m ∈ ms) →
      evalCnf f as m = true from
    ⟨fun m hm => key m (Or.inl hm), fun ms hms => ⟨fun m hm => key m (Or.inr ⟨ms, hms, hm⟩),
      (pairwiseDistinct_iff ms).2 ((distinctB_iff _ ms).1 (Cdcl.solve_distinct f as P ms hms))⟩⟩
  intro m hm
  have hg := Cdcl.solve_good f as P hnd hf hne ha
  have hgood : Cdcl.GoodSol f as m := by
    rcases hm with h | ⟨ms, h1, h2⟩
    · exact hg.1 m h
    · exact hg.2.1 ms h1 m h2
  obtain ⟨g1, g2, g3⟩ := hgood
  have tot : ∀ l : Int, l ≠ 0 → l.natAbs ≤ Cdcl.countVars f as → (m.lookup l.natAbs).isSome = true :=
    fun l h0 hr => g3 l.natAbs (by omega) hr
  have ht : totalOn m f as = true := by
    unfold totalOn
    simp only [Bool.and_eq_true, List.all_eq_true]
    exact ⟨fun c hc l hl => tot l (hf c hc l hl) (Cdcl.countVars_clause f as c hc l hl),
      fun a ha' => tot a (ha a ha') (Cdcl.countVars_asm f as a ha')⟩
  unfold evalCnf
  simp only [ht, Bool.true_and, Bool.and_eq_true, List.all_eq_true, List.any_eq_true, litHolds_iff]
  refine ⟨fun c hc => ?_, fun a ha' => g2 a ha'⟩
  obtain ⟨l, hl, hne'⟩ := g1 c hc
  refine ⟨l, hl, ?_⟩
  obtain ⟨b, hb⟩ := Option.isSome_iff_exists.1 (tot l (hf c hc l hl) (Cdcl.countVars_clause f as c hc l hl))
  rw [hb] at hne' ⊢
  cases b <;> cases hd : decide (0 < l) <;> simp_all

/- the hypotheses are met by ordinary inputs (the mirror itself cannot be evaluated by `decide`: VSIDS
activities are `Float`s, opaque to the kernel; on this input the compiled driver prints the two
assignments `{1:F,2:F,3:T}`, `{1:T,2:F,3:F}` for `solution_limit = 10`, as `solve_sat` does) -/
example : WF [[1, 2, 3], [-1, -2], [-1, -3], [-2, -3], [1, -2, 3]] ∧
    (∀ c ∈ [[1, 2, 3], [-1, -2], [-1, -3], [-2, -3], [1, -2, 3]], c.Nodup) ∧
    (∀ c ∈ [[1, 2, 3], [-1, -2], [-1, -3], [-2, -3], [1, -2, 3]], c ≠ ([] : List Int)) ∧ (∀ a ∈ [(-2 : Int)], a ≠ 0) :=
  ⟨wfB_iff.1 (by decide), by decide, by decide, by decide⟩

/-! ## C02 -/

/-- T-spec (C02): the refutation checker the CDCL mirror runs before it answers INFEASIBLE – unit
propagation from scratch, to a fixpoint – only accepts clause sets without a model. -/
theorem upRefutes_sound (n : Nat) (cs : List Clause) (h : upRefutes n cs = true) : ¬ ∃ σ, cnfTrue σ cs = true :=
  upRefutes_unsat n cs h

example : upRefutes 3 [[1, 2], [-1, 2], [-2, 3], [-3]] = true ∧ upRefutes 3 [[1, 2], [-1, -2]] = false := by decide

/-- [S], partial (C02): whatever the parameters, the CDCL mirror answers INFEASIBLE only when clauses
and assumptions have no common model – for every input free of the literal 0 and of repeated literals
inside a clause, with non-zero assumptions.  (The mirror certifies the answer: each learned clause is
checked to come out of the logged resolution chain – `learn_chain_sound` – and before INFEASIBLE is
reported unit propagation from scratch must refute input + assumptions + pure literals + learned
clauses – `upRefutes_sound` and the pure-literal rule; if a check failed the mirror would give up
with status `UNBOUNDED`, which the correspondence check treats as a failure of the mirror.) -/
theorem cdcl_infeasible_sound_partial (f : Cnf) (as : List Int) (P : Cdcl.Params)
    (hf : WF f) (hnd : ∀ c ∈ f, c.Nodup) (ha : ∀ a ∈ as, a ≠ 0) :
    (Cdcl.solve f as P).status = .INFEASIBLE → ¬ ∃ σ, Models σ f as := by
  intro hs
  by_cases hne : ∀ c ∈ f, c ≠ []
  · exact (Cdcl.solve_good f as P hnd hf hne ha).2.2.1 hs
  · rintro ⟨σ, hσ⟩
    apply hne
    intro c hc he
    subst he
    obtain ⟨l, hl, _⟩ := hσ.1 [] hc
    cases hl

example : WF [[1, 2], [-1, 2], [1, -2], [-1, -2]] ∧ (∀ c ∈ [[1, 2], [-1, 2], [1, -2], [-1, -2]], c.Nodup) :=
  ⟨wfB_iff.1 (by decide), by decide⟩

/-- [S], partial (C02): the mirror's verdicts, for the same inputs and every parameter setting.  The
status is OPTIMAL, INFEASIBLE, MAX_ITER or the mirror's own give-up; OPTIMAL comes with an assignment
accepted by `evalCnf`; MAX_ITER is only reported when `conflicts ≥ max_conflicts` or
`restarts ≥ max_restarts`.  Hence, for a satisfiable input, unless a budget is exhausted (or the mirror
gives up) the answer is OPTIMAL with a model – the clause "answers with a model whenever one exists and
the budgets are not exhausted". -/
theorem cdcl_verdicts_partial (f : Cnf) (as : List Int) (P : Cdcl.Params)
    (hf : WF f) (hnd : ∀ c ∈ f, c.Nodup) (hne : ∀ c ∈ f, c ≠ []) (ha : ∀ a ∈ as, a ≠ 0) :
    ((Cdcl.solve f as P).status = .OPTIMAL →
        ∃ m, (Cdcl.solve f as P).solution = some m ∧ evalCnf f as m = true) ∧
    ((Cdcl.solve f as P).status = .MAX_ITER →
        P.maxConflicts ≤ (Cdcl.solve f as P).conflicts ∨ P.maxRestarts ≤ (Cdcl.solve f as P).restarts) ∧
    ((∃ σ, Models σ f as) → (Cdcl.solve f as P).status ≠ .UNBOUNDED →
        (Cdcl.solve f as P).conflicts < P.maxConflicts → (Cdcl.solve f as P).restarts < P.maxRestarts →
        ∃ m, (Cdcl.solve f as P).status = .OPTIMAL ∧ (Cdcl.solve f as P).solution = some m ∧ evalCnf f as m = true) := by
  obtain ⟨_, _, g3, g4, g5, g6, _⟩ := Cdcl.solve_good f as P hnd hf hne ha
  have hopt : (Cdcl.solve f as P).status = .OPTIMAL →
      ∃ m, (Cdcl.solve f as P).solution = some m ∧ evalCnf f as m = true := by
    intro ho
    obtain ⟨m, hm⟩ := Option.isSome_iff_exists.1 (g4 ho)
    exact ⟨m, hm, (cdcl_returns_models_partial f as P hf hnd hne ha).1 m hm⟩
  refine ⟨hopt, g5, ?_⟩
  intro hsat hnu hc hr
  rcases g6 with h | h | h | h
  · obtain ⟨m, a, b⟩ := hopt h; exact ⟨m, h, a, b⟩
  · exact absurd hsat (g3 h)
  · rcases g5 h with h' | h' <;> omega
  · exact absurd h hnu


/-- [S], partial (C02, "the call comes back"): whatever the parameters, the mirror does not run out of
fuel – its give-up exit `FUEL` (main loop: `Cdcl.loopFuel max_conflicts solution_limit n_vars` iterations;
propagation: one step per trail position and per watch-list entry) is never taken – for every input whose
clauses are non-empty, free of the literal 0 and of repeated literals, with non-zero assumptions.  So the
loop of `solve_sat`, as mirrored, ends after at most `loopFuel` iterations by one of its own exits. -/
theorem cdcl_fuel_suffices_partial (f : Cnf) (as : List Int) (P : Cdcl.Params)
    (hf : WF f) (hnd : ∀ c ∈ f, c.Nodup) (hne : ∀ c ∈ f, c ≠ []) (ha : ∀ a ∈ as, a ≠ 0) :
    (Cdcl.solve f as P).note ≠ "FUEL" :=
  (Cdcl.solve_good f as P hnd hf hne ha).2.2.2.2.2.2

/- the hypotheses are met by ordinary inputs, and the bound is an ordinary number: 3 variables, the default
budgets `max_conflicts = 100000`, `solution_limit = 1` -/
example : (WF [[1, 2, 3], [-1, -2], [-1, -3]] ∧ (∀ c ∈ [[1, 2, 3], [-1, -2], [-1, -3]], c.Nodup) ∧
    (∀ c ∈ [[1, 2, 3], [-1, -2], [-1, -3]], c ≠ ([] : List Int)) ∧ (∀ a ∈ [(2 : Int)], a ≠ 0)) ∧
    Cdcl.loopFuel 100000 1 3 = 3600065 :=
  ⟨⟨wfB_iff.1 (by decide), by decide, by decide, by decide⟩, by decide⟩

/-- T-model (C02): the reference DPLL answers "unsatisfiable" exactly when formula and assumptions
have no common model; `solve_sat`'s INFEASIBLE is compared against this verdict on every input. -/
theorem dpll_unsat_iff (f : Cnf) (as : List Int) (hf : WF f) (ha : ∀ a ∈ as, a ≠ 0) :
    solve (withAssumptions f as) = false ↔ ¬ ∃ σ, Models σ f as := by
  rw [← dpll_sat_iff f as hf ha]; simp

example : solve (withAssumptions [[1, 2]] [-1, -2]) = false := by decide

/-- C02 (Luby schedule, regenerated from `solvor/sat.py`): `luby(i) ≥ 1` for `i ≥ 1`; as the loop
returns 0 only when the fuel `2*i+2` runs out, this also says the source loop terminates. -/
theorem luby_pos (i : Nat) (hi : 1 ≤ i) : 1 ≤ luby i := by
  obtain ⟨j, hj⟩ := (lubyLoop_spec (2 * i + 2) i 1 (by omega) (by simpa using hi) (by omega)).1
  unfold luby Solvor.Gen.lubyK0; rw [hj]; exact Nat.one_le_two_pow

/-- C02: every value of the schedule is a power of two. -/
theorem luby_pow2 (i : Nat) (hi : 1 ≤ i) : ∃ j, luby i = 2 ^ j :=
  (lubyLoop_spec (2 * i + 2) i 1 (by omega) (by simpa using hi) (by omega)).1

/-- C02: fuel sufficiency – more fuel than `2*i+2` never changes the value (the Python `while True`
loop makes at most `2*i+2` iterations). -/
theorem luby_fuel (i : Nat) (hi : 1 ≤ i) (n : Nat) (hn : 2 * i + 2 ≤ n) :
    Solvor.Gen.lubyLoop n i Solvor.Gen.lubyK0 = luby i := by
  have := (lubyLoop_spec (2 * i + 2) i 1 (by omega) (by simpa using hi) (by omega)).2 (n - (2 * i + 2))
  unfold luby Solvor.Gen.lubyK0
  rw [← this]; congr 1; omega

example : (List.range 16).map luby = [0, 1, 1, 2, 1, 1, 2, 4, 1, 1, 2, 1, 1, 2, 4, 8] := by decide

/-- C02: the regenerated loop computes *the* Luby sequence: `luby (2^k - 1) = 2^(k-1)` and
`luby i = luby (i - 2^(k-1) + 1)` for `2^(k-1) ≤ i < 2^k - 1` (these two equations define it). -/
theorem luby_is_luby :
    (∀ k, 1 ≤ k → luby (2 ^ k - 1) = 2 ^ (k - 1)) ∧
    (∀ i k, 1 ≤ k → 2 ^ (k - 1) ≤ i → i < 2 ^ k - 1 → luby i = luby (i - (2 ^ (k - 1) - 1))) :=
  ⟨luby_at_pow, luby_rec⟩

example : luby (2 ^ 3 - 1) = 4 ∧ luby 5 = luby (5 - (2 ^ (3 - 1) - 1)) := by decide

end Solvor.Sat
