import Solvor.Sat.Model
/-! Sat: property theorems only (helper lemmas live in Lemmas.lean). -/
namespace Solvor.Sat

end Solvor.Sat
