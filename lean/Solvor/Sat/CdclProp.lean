import Solvor.Sat.CdclOps
/-! Sat.CdclProp: `propagate` keeps the invariant and, when it reports no conflict, leaves every
trail literal processed. -/
namespace Solvor.Sat.Cdcl

/-- the literal `fl` being processed: it sits at trail position `p`, is false, on the current level -/
structure Ctx (st : St) (p : Nat) (fl : Int) : Prop where
  pLt : p < st.trail.size
  var : st.trail[p]! = fl.natAbs
  isF : fl ≠ 0 → IsFalse st fl
  asg : valAt st fl.natAbs ≠ UNDEF
  cur : lvlAt st fl.natAbs = st.trailLim.size

theorem Ctx.ext {st st' p fl} (h : Ctx st p fl) (e : Ext st st') : Ctx st' p fl where
  pLt := Nat.lt_of_lt_of_le h.pLt e.tsize
  var := (e.tpre p h.pLt).trans h.var
  isF := fun h0 => e.isFalse (h.isF h0)
  asg := (e.vkeep _ h.asg).1 ▸ h.asg
  cur := by rw [e.lvl h.asg, e.lim]; exact h.cur

/-- input clause `c`, watched by `fl`, has its other watch true -/
def Sat1 (st : St) (fl : Int) (c : Nat) : Prop :=
  ((cl st c)[0]! = fl ∧ IsTrue st (cl st c)[1]!) ∨ ((cl st c)[1]! = fl ∧ IsTrue st (cl st c)[0]!)

/-- the first `i` entries of the watch list of `fl` have been dealt with -/
def Done (F : List (List Int)) (st : St) (fl : Int) (i : Nat) : Prop :=
  ∀ j c, j < i → (wl st fl)[j]? = some c → c < F.length → Sat1 st fl c

theorem filter_nodup_idx : ∀ (l : List Nat) (p : Nat → Bool), (l.filter p).Nodup →
    ∀ (i j c : Nat), l[i]? = some c → l[j]? = some c → p c = true → i = j := by
  intro l p
  induction l with
  | nil => intro _ i j c hi; simp at hi
  | cons a t ih =>
    intro hn i j c hi hj hp
    have hnt : (t.filter p).Nodup := by
      rw [List.filter_cons] at hn; split at hn
      · exact (List.nodup_cons.1 hn).2
      · exact hn
    cases i with
    | zero =>
      cases j with
      | zero => rfl
      | succ j =>
        exfalso
        simp only [List.getElem?_cons_zero, Option.some.injEq] at hi
        simp only [List.getElem?_cons_succ] at hj
        subst hi
        rw [List.filter_cons, if_pos hp] at hn
        exact (List.nodup_cons.1 hn).1 (List.mem_filter.2 ⟨List.mem_of_getElem? hj, hp⟩)
    | succ i =>
      cases j with
      | zero =>
        exfalso
        simp only [List.getElem?_cons_zero, Option.some.injEq] at hj
        simp only [List.getElem?_cons_succ] at hi
        subst hj
        rw [List.filter_cons, if_pos hp] at hn
        exact (List.nodup_cons.1 hn).1 (List.mem_filter.2 ⟨List.mem_of_getElem? hi, hp⟩)
      | succ j =>
        simp only [List.getElem?_cons_succ] at hi hj
        rw [ih hnt i j c hi hj hp]

theorem Inv.posUnique {F st k} (h : Inv F st k) {fl : Int} {i j c : Nat}
    (hi : (wl st fl)[i]? = some c) (hj : (wl st fl)[j]? = some c) (hc : c < F.length) : i = j :=
  filter_nodup_idx _ _ (h.wnodup fl) i j c hi hj (by simpa using hc)

/-- `Done` survives a step that keeps the first `i` entries, the clauses listed there and all true
literals -/
theorem Done.transfer {F st st' fl i} (hd : Done F st fl i)
    (hw : ∀ j, j < i → (wl st' fl)[j]? = (wl st fl)[j]?)
    (hc : ∀ j c, j < i → (wl st fl)[j]? = some c → c < F.length → cl st' c = cl st c)
    (ht : ∀ l, IsTrue st l → IsTrue st' l) : Done F st' fl i := by
  intro j c hj hjc hlt
  rw [hw j hj] at hjc
  have := hd j c hj hjc hlt
  unfold Sat1 at this ⊢
  rw [hc j c hj hjc hlt]
  rcases this with ⟨a, b⟩ | ⟨a, b⟩
  · exact Or.inl ⟨a, ht _ b⟩
  · exact Or.inr ⟨a, ht _ b⟩

theorem Done.mono {F st fl i i'} (hd : Done F st fl i) (h : i' ≤ i) : Done F st fl i' :=
  fun j c hj => hd j c (Nat.lt_of_lt_of_le hj h)

/-! ### assigning a literal -/

theorem isTrue_assign {F st k} (h : Inv F st k) {l : Int} (hv : valAt st l.natAbs = UNDEF) (r : Int) :
    IsTrue (assign st l.natAbs (decide (0 < l)) r) l := by
  have hlt := valAt_lt_of_undef h hv
  unfold IsTrue
  rw [litValue_def, valAt_assign]
  have : l.natAbs < st.vals.size := by rw [h.vsize]; exact hlt
  simp only [this, and_self, if_true]
  by_cases hp : 0 < l <;> simp [hp, UNDEF]

theorem undef_of_litValue_none {st : St} {l : Int} (h : litValue st l = none) : valAt st l.natAbs = UNDEF := by
  rw [litValue_def] at h
  by_cases hu : valAt st l.natAbs = UNDEF
  · exact hu
  · simp [hu] at h

/-! ### the binary-implication loop -/

theorem implLoop_spec {F p} : ∀ (xs : List (Int × Nat)) (st st' : St) (r : Option Nat), Inv F st p →
    implLoop xs st = (st', r) → Inv F st' p ∧ Ext st st' ∧ (r = none → ∀ e ∈ xs, IsTrue st' e.1) := by
  intro xs
  induction xs with
  | nil => intro st st' r h hs; simp only [implLoop, Prod.mk.injEq] at hs; obtain ⟨rfl, rfl⟩ := hs
           exact ⟨h, Ext.refl _, by simp⟩
  | cons e rest ih =>
    intro st st' r h hs
    obtain ⟨implied, cidx⟩ := e
    unfold implLoop at hs
    simp only at hs
    split at hs
    · rename_i hu
      have hu' : valAt st implied.natAbs = UNDEF := by simpa [valAt] using hu
      obtain ⟨h1, e1, t1⟩ := ih _ _ _ (inv_assign h hu' _ _) hs
      refine ⟨h1, (ext_assign h hu' _ _).trans e1, ?_⟩
      intro hr e he
      rcases List.mem_cons.1 he with rfl | he
      · exact e1.isTrue (isTrue_assign h hu' _)
      · exact t1 hr e he
    · rename_i hu
      split at hs
      · simp only [Prod.mk.injEq] at hs; obtain ⟨rfl, rfl⟩ := hs
        exact ⟨h, Ext.refl _, fun hh => by cases hh⟩
      · rename_i hne
        obtain ⟨h1, e1, t1⟩ := ih _ _ _ h hs
        refine ⟨h1, e1, ?_⟩
        intro hr e he
        rcases List.mem_cons.1 he with rfl | he
        · apply e1.isTrue
          unfold IsTrue
          rw [litValue_def]
          have hu' : ¬ valAt st implied.natAbs = UNDEF := by simpa [valAt] using hu
          simp only [hu', if_false, Option.some.injEq]
          have : ((st.vals[implied.natAbs]! == 1) != decide (0 < implied)) = false := by simpa using hne
          simpa [valAt] using this
        · exact t1 hr e he

/-! ### orienting an input clause that is watched by `fl` -/

theorem orient_facts {F st k} (h : Inv F st k) {fl : Int} {c : Nat} (hc : c < F.length) (hm : c ∈ wl st fl) :
    (orient fl (cl st c)).size = (cl st c).size ∧
    (orient fl (cl st c)).toList.Perm (cl st c).toList ∧
    (orient fl (cl st c))[1]! = fl ∧ (orient fl (cl st c))[0]! ≠ fl ∧
    (((orient fl (cl st c))[0]! = (cl st c)[0]! ∧ (orient fl (cl st c))[1]! = (cl st c)[1]!) ∨
     ((orient fl (cl st c))[0]! = (cl st c)[1]! ∧ (orient fl (cl st c))[1]! = (cl st c)[0]!)) := by
  obtain ⟨h3, hor⟩ := h.wsound fl c hm hc
  have hne := h.clNe hc (i := 0) (j := 1) (by omega) (by omega) (by omega)
  by_cases h0 : (cl st c)[0]! = fl
  · have hb : ((cl st c)[0]! == fl) = true := by simpa using h0
    have ho : orient fl (cl st c) = (cl st c).swapIfInBounds 0 1 := by unfold orient swap01; simp only [hb, if_true]
    rw [ho]
    have e0 := swapIB_get! (cl st c) 0 1 0 (by omega) (by omega)
    have e1 := swapIB_get! (cl st c) 0 1 1 (by omega) (by omega)
    simp only [if_true, Nat.zero_ne_one, if_false] at e0 e1
    refine ⟨swapIB_size _ _ _, swapIB_perm _ _ _, by rw [e1]; exact h0, by rw [e0, ← h0]; exact hne.symm,
      Or.inr ⟨e0, e1⟩⟩
  · have hb : ((cl st c)[0]! == fl) = false := by simpa using h0
    have ho : orient fl (cl st c) = cl st c := by unfold orient; simp only [hb, Bool.false_eq_true, if_false]
    rw [ho]
    have h1 : (cl st c)[1]! = fl := by rcases hor with h | h; exact absurd h h0; exact h
    exact ⟨rfl, List.Perm.refl _, h1, h0, Or.inl ⟨rfl, rfl⟩⟩

/-- storing the oriented clause keeps the invariant -/
theorem inv_orient {F st k} (h : Inv F st k) {fl : Int} {c : Nat} (hc : c < F.length) (hm : c ∈ wl st fl) :
    Inv F (setClause st c (orient fl (cl st c))) k ∧ Ext st (setClause st c (orient fl (cl st c))) ∧
    cl (setClause st c (orient fl (cl st c))) c = orient fl (cl st c) ∧
    (∀ c', c' ≠ c → cl (setClause st c (orient fl (cl st c))) c' = cl st c') := by
  obtain ⟨hsz, hperm, _, _, hor⟩ := orient_facts h hc hm
  obtain ⟨h3, _⟩ := h.wsound fl c hm hc
  have hcn : c < st.nOrig := by rw [h.nOrig]; exact hc
  have hcs : c < st.clauses.size := by rw [h.csize]; exact hc
  rw [setClause_orig st hcn]
  have hcl := cl_edit st c (orient fl (cl st c)) st.watch hcs
  refine ⟨?_, ext_edit h hc _ hsz h3 st.watch, by rw [hcl]; simp, fun c' hc' => by rw [hcl]; simp [hc']⟩
  refine inv_edit h hc _ hperm h3 st.watch h.wsize ?_ h.wnodup ?_ ?_
  · intro l c' hc'm hc'lt
    rw [hcl c']
    by_cases hcc : c' = c
    · subst hcc
      simp only [if_true]
      obtain ⟨_, hold⟩ := h.wsound l c' hc'm hc'lt
      refine ⟨by omega, ?_⟩
      rcases hor with ⟨e0, e1⟩ | ⟨e0, e1⟩
      · rw [e0, e1]; exact hold
      · rw [e0, e1]; exact hold.symm
    · simp only [hcc, if_false]; exact h.wsound l c' hc'm hc'lt
  · intro c' hc'lt hc'3
    rw [hcl c'] at hc'3 ⊢
    by_cases hcc : c' = c
    · subst hcc
      simp only [if_true]
      obtain ⟨a0, a1⟩ := h.wattach c' hc'lt h3
      rcases hor with ⟨e0, e1⟩ | ⟨e0, e1⟩
      · rw [e0, e1]; exact ⟨a0, a1⟩
      · rw [e0, e1]; exact ⟨a1, a0⟩
    · simp only [hcc, if_false] at hc'3 ⊢; exact h.wattach c' hc'lt hc'3
  · obtain ⟨s0, s1⟩ := h.wsem c hc h3
    rcases hor with ⟨e0, e1⟩ | ⟨e0, e1⟩
    · rw [e0, e1]; exact ⟨s0, s1⟩
    · rw [e0, e1]; exact ⟨s1, s0⟩

/-! ### moving the second watch of an input clause -/

theorem Inv.litIdxLt {F st k} (h : Inv F st k) {c : Nat} (hc : c < F.length) {i : Nat} (hi : i < (cl st c).size) :
    litIdx (cl st c)[i]! < st.watch.size := by
  rw [h.wsize]; exact litIdx_lt (h.fok.rng _ (List.getElem_mem hc) _ (h.clGet hc hi))

theorem Ctx.litIdxLt {F st p fl} (h : Inv F st p) (ctx : Ctx st p fl) : litIdx fl < st.watch.size := by
  rw [h.wsize]; apply litIdx_lt; rw [← ctx.var]; exact (h.trailGet ctx.pLt).1

theorem inv_move {F st p fl i c k} (h : Inv F st p) (ctx : Ctx st p fl) (hc : c < F.length)
    (hi : (wl st fl)[i]? = some c) (h1 : (cl st c)[1]! = fl) (hk2 : 2 ≤ k) (hk : k < (cl st c).size)
    (hnf : ¬ IsFalse st (cl st c)[k]!) (hd : Done F st fl i) :
    Inv F (moveWatch st fl i c (swap1k (cl st c) k)) p ∧ Ext st (moveWatch st fl i c (swap1k (cl st c) k)) ∧
    Done F (moveWatch st fl i c (swap1k (cl st c) k)) fl i := by
  have hm : c ∈ wl st fl := List.mem_of_getElem? hi
  obtain ⟨h3, _⟩ := h.wsound fl c hm hc
  have hcn : c < st.nOrig := by rw [h.nOrig]; exact hc
  have hcs : c < st.clauses.size := by rw [h.csize]; exact hc
  -- the new clause
  have e0 : (swap1k (cl st c) k)[0]! = (cl st c)[0]! := by
    unfold swap1k; rw [swapIB_get! _ 1 k 0 (by omega) hk]
    have : ¬ (0 = k) := by omega
    simp [this]
  have e1 : (swap1k (cl st c) k)[1]! = (cl st c)[k]! := by
    unfold swap1k; rw [swapIB_get! _ 1 k 1 (by omega) hk]
    have : ¬ (1 = k) := by omega
    simp [this]
  have hsz : (swap1k (cl st c) k).size = (cl st c).size := swapIB_size _ _ _
  have hperm : (swap1k (cl st c) k).toList.Perm (cl st c).toList := swapIB_perm _ _ _
  -- the new watch literal
  have hfl0 : fl ≠ 0 := by rw [← h1]; exact h.fok.nz _ (List.getElem_mem hc) _ (h.clGet hc (by omega))
  have hflF : IsFalse st fl := ctx.isF hfl0
  have hnlfl : (cl st c)[k]! ≠ fl := fun e => hnf (e ▸ hflF)
  have hnl0 : (cl st c)[k]! ≠ (cl st c)[0]! := h.clNe hc hk (by omega) (by omega)
  have hnl1 : (cl st c)[k]! ≠ (cl st c)[1]! := h.clNe hc hk (by omega) (by omega)
  have h01 : (cl st c)[0]! ≠ (cl st c)[1]! := h.clNe hc (by omega) (by omega) (by omega)
  have hnlr : litIdx (cl st c)[k]! < st.watch.size := h.litIdxLt hc hk
  have hflr : litIdx fl < st.watch.size := ctx.litIdxLt h
  have hisz : i < (watchOf st fl).size := by
    have := (List.getElem?_eq_some_iff.1 hi).1; simpa [wl] using this
  obtain ⟨hRperm, hRpre⟩ := removeAt_facts (watchOf st fl) i hisz
  -- shape of the new state
  have hst : moveWatch st fl i c (swap1k (cl st c) k) =
      { st with clauses := st.clauses.set! c (swap1k (cl st c) k),
                watch := (st.watch.modify (litIdx fl) (fun w => (w.set! i w.back!).pop)).modify
                  (litIdx (swap1k (cl st c) k)[1]!) (·.push c) } := by
    unfold moveWatch; rw [setClause_orig st hcn]; rfl
  have hwl : ∀ l, wl (moveWatch st fl i c (swap1k (cl st c) k)) l =
      if l = (cl st c)[k]! then wl st l ++ [c]
      else if l = fl then (((watchOf st fl).toList).set i (watchOf st fl).back!).dropLast else wl st l := by
    intro l
    unfold moveWatch
    rw [wl_addWatch, e1]
    have hs1 : (removeWatchAt (setClause st c (swap1k (cl st c) k)) fl i).watch.size = st.watch.size := by
      rw [setClause_orig st hcn]; show (Array.modify _ _ _).size = _; rw [Array.size_modify]
    rw [hs1]
    have hR : ∀ l', wl (removeWatchAt (setClause st c (swap1k (cl st c) k)) fl i) l' =
        if l' = fl then (((watchOf st fl).toList).set i (watchOf st fl).back!).dropLast else wl st l' := by
      intro l'
      rw [wl_removeWatchAt, setClause_orig st hcn]
      by_cases hl : l' = fl
      · simp only [hl, hflr, and_self, if_true]; rfl
      · simp only [hl, false_and, if_false]; rfl
    by_cases hl : l = (cl st c)[k]!
    · simp only [hl, hnlr, and_self, if_true]; rw [hR]; simp [hnlfl]
    · simp only [hl, false_and, if_false]; exact hR l
  rw [hst] at hwl ⊢
  have hcl := cl_edit st c (swap1k (cl st c) k) ((st.watch.modify (litIdx fl) (fun w => (w.set! i w.back!).pop)).modify
                  (litIdx (swap1k (cl st c) k)[1]!) (·.push c)) hcs
  -- membership in the shortened list
  have hRsub : ∀ x, x ∈ (((watchOf st fl).toList).set i (watchOf st fl).back!).dropLast → x ∈ wl st fl ∧ (x < F.length → x ≠ c) := by
    intro x hx
    have hx' := (hRperm.mem_iff).1 hx
    refine ⟨(List.eraseIdx_sublist _ _).subset hx', fun hxl hxc => ?_⟩
    subst hxc
    obtain ⟨j, hji, hj⟩ := List.mem_eraseIdx_iff_getElem?.1 hx'
    exact hji (h.posUnique (fl := fl) hj hi hc)
  have hRkeep : ∀ x, x ∈ wl st fl → x ≠ c → x ∈ (((watchOf st fl).toList).set i (watchOf st fl).back!).dropLast := by
    intro x hx hxc
    apply (hRperm.mem_iff).2
    rw [List.mem_eraseIdx_iff_getElem?]
    obtain ⟨j, hj⟩ := List.mem_iff_getElem?.1 hx
    refine ⟨j, ?_, hj⟩
    intro hji; subst hji
    have : some x = some c := by rw [← hj]; exact hi
    cases this; exact hxc rfl
  have hcnot : c ∉ wl st (cl st c)[k]! := by
    intro hin
    rcases (h.wsound _ c hin hc).2 with e | e
    · exact hnl0 e.symm
    · exact hnl1 e.symm
  refine ⟨?_, ext_edit h hc _ hsz h3 _, ?_⟩
  · refine inv_edit h hc _ hperm h3 _ (by rw [Array.size_modify, Array.size_modify]; exact h.wsize) ?_ ?_ ?_ ?_
    · -- wsound
      intro l c' hc'm hc'lt
      rw [hwl l] at hc'm
      rw [hcl c']
      by_cases hcc : c' = c
      · subst hcc
        simp only [if_true]
        refine ⟨by omega, ?_⟩
        by_cases hl : l = (cl st c')[k]!
        · right; rw [e1, hl]
        · simp only [hl, if_false] at hc'm
          by_cases hlf : l = fl
          · simp only [hlf, if_true] at hc'm
            exact absurd rfl ((hRsub c' hc'm).2 hc'lt)
          · simp only [hlf, if_false] at hc'm
            rcases (h.wsound l c' hc'm hc'lt).2 with e | e
            · left; rw [e0]; exact e
            · exact absurd (e.symm.trans h1) hlf
      · simp only [hcc, if_false]
        apply h.wsound l c' _ hc'lt
        by_cases hl : l = (cl st c)[k]!
        · simp only [hl, if_true] at hc'm
          rcases List.mem_append.1 hc'm with hh | hh
          · rw [hl]; exact hh
          · simp at hh; exact absurd hh hcc
        · simp only [hl, if_false] at hc'm
          by_cases hlf : l = fl
          · simp only [hlf, if_true] at hc'm; rw [hlf]; exact (hRsub c' hc'm).1
          · simp only [hlf, if_false] at hc'm; exact hc'm
    · -- wnodup
      intro l
      rw [hwl l]
      by_cases hl : l = (cl st c)[k]!
      · simp only [hl, if_true]
        rw [List.filter_append]
        have hf : [c].filter (· < F.length) = [c] := by simp [hc]
        rw [hf]
        apply List.nodup_append.2
        refine ⟨h.wnodup _, by simp, ?_⟩
        intro a ha b hb
        simp at hb; subst hb
        intro hab; subst hab
        exact hcnot (List.mem_filter.1 ha).1
      · simp only [hl, if_false]
        by_cases hlf : l = fl
        · simp only [hlf, if_true]
          have hp := hRperm.filter (· < F.length)
          exact (hp.nodup_iff).2 (((List.eraseIdx_sublist _ _).filter _).nodup (h.wnodup fl))
        · simp only [hlf, if_false]; exact h.wnodup l
    · -- wattach
      intro c' hc'lt hc'3
      rw [hcl c'] at hc'3 ⊢
      by_cases hcc : c' = c
      · subst hcc
        simp only [if_true]
        rw [hwl, hwl, e0, e1]
        have hne0 : (cl st c')[0]! ≠ (cl st c')[k]! := fun e => hnl0 e.symm
        have hne0f : (cl st c')[0]! ≠ fl := fun e => h01 (e.trans h1.symm)
        simp only [hne0, hne0f, if_false, if_true]
        exact ⟨(h.wattach c' hc'lt h3).1, List.mem_append_right _ (by simp)⟩
      · simp only [hcc, if_false] at hc'3 ⊢
        obtain ⟨a0, a1⟩ := h.wattach c' hc'lt hc'3
        have key : ∀ l, c' ∈ wl st l → c' ∈ (if l = (cl st c)[k]! then wl st l ++ [c]
            else if l = fl then (((watchOf st fl).toList).set i (watchOf st fl).back!).dropLast else wl st l) := by
          intro l hl
          by_cases hl1 : l = (cl st c)[k]!
          · simp only [hl1, if_true]; rw [hl1] at hl; exact List.mem_append_left _ hl
          · simp only [hl1, if_false]
            by_cases hl2 : l = fl
            · simp only [hl2, if_true]; rw [hl2] at hl; exact hRkeep c' hl hcc
            · simp only [hl2, if_false]; exact hl
        rw [hwl, hwl]
        exact ⟨key _ a0, key _ a1⟩
    · -- wsem for the edited clause
      rw [e0, e1]
      constructor
      · intro hf hp
        have := ((h.wsem c hc h3).1 hf hp).1
        rw [h1] at this
        exact absurd hflF (fun hh => not_true_and_false this hh)
      · intro hf _; exact absurd hf hnf
  · -- Done
    apply hd.transfer
    · intro j hj
      rw [hwl fl]
      have : ¬ fl = (cl st c)[k]! := fun e => hnlfl e.symm
      simp only [this, if_false, if_true]
      exact hRpre j hj
    · intro j c' hj hjc hc'lt
      rw [hcl c']
      have : c' ≠ c := by
        intro e; subst e
        have := h.posUnique (fl := fl) hjc hi hc
        omega
      simp [this]
    · intro l hl; exact hl

/-! ### one step of the watch loop -/

theorem wl_getElem?_of_lt (st : St) (fl : Int) {i : Nat} (hi : i < (watchOf st fl).size) :
    (wl st fl)[i]? = some (watchOf st fl)[i]! := by
  unfold wl; rw [Array.getElem?_toList, get!_eq]; simp [hi]

/-- the learned-clause case of a watch move: nothing about input clauses changes -/
theorem inv_move_learned {F st p fl i c0} (h : Inv F st p) (hd : Done F st fl i)
    (hi : (wl st fl)[i]? = some c0) (hc0 : F.length ≤ c0) (X : Array Int) :
    Inv F (moveWatch st fl i c0 X) p ∧ Ext st (moveWatch st fl i c0 X) ∧ Done F (moveWatch st fl i c0 X) fl i := by
  have hcn : st.nOrig ≤ c0 := by rw [h.nOrig]; exact hc0
  unfold moveWatch
  rw [setClause_learned st hcn]
  have h1 : Inv F { st with learned := st.learned.set! (c0 - st.nOrig) X } p := inv_setLearned h _
  have hi1 : (wl { st with learned := st.learned.set! (c0 - st.nOrig) X } fl)[i]? = some c0 := hi
  have h2 := inv_removeWatch_learned h1 fl hi1 hc0
  have h3 := inv_addWatch_learned h2 (X[1]!) hc0
  have hisz : i < (watchOf st fl).size := by
    have := (List.getElem?_eq_some_iff.1 hi).1; simpa [wl] using this
  obtain ⟨hRperm, hRpre⟩ := removeAt_facts (watchOf st fl) i hisz
  refine ⟨h3, ?_, ?_⟩
  · exact ((ext_setLearned st _).trans (ext_setWatch _ _)).trans (ext_setWatch _ _)
  · intro j c hj hjc hlt
    rw [wl_addWatch] at hjc
    have hR : wl (removeWatchAt { st with learned := st.learned.set! (c0 - st.nOrig) X } fl i) fl =
        if fl = fl ∧ litIdx fl < st.watch.size then (((watchOf st fl).toList).set i (watchOf st fl).back!).dropLast
        else wl st fl := wl_removeWatchAt _ fl i fl
    have hjold : (wl st fl)[j]? = some c := by
      by_cases hr : litIdx fl < st.watch.size
      · simp only [hr, and_self, if_true] at hR
        have hlen : j < ((((watchOf st fl).toList).set i (watchOf st fl).back!).dropLast).length := by
          simp; omega
        have hjc' : ((((watchOf st fl).toList).set i (watchOf st fl).back!).dropLast)[j]? = some c := by
          split at hjc
          · rw [hR, List.getElem?_append_left hlen] at hjc; exact hjc
          · rw [hR] at hjc; exact hjc
        rw [hRpre j hj] at hjc'; exact hjc'
      · exfalso
        have : watchOf st fl = #[] := by unfold watchOf; rw [get!_of_ge _ _ (by omega)]; rfl
        rw [this] at hisz; simp at hisz
    exact hd j c hj hjold hlt

theorem getClause_orig (st : St) {c : Nat} (h : c < st.nOrig) : getClause st c = cl st c := by
  unfold getClause cl; simp [h]

theorem findNonFalse_some (st : St) (C : Array Int) : ∀ (fuel j k : Nat), findNonFalse st C fuel j = some k →
    j ≤ k ∧ k < j + fuel ∧ litValue st C[k]! ≠ some false := by
  intro fuel
  induction fuel with
  | zero => intro j k h; simp [findNonFalse] at h
  | succ fuel ih =>
    intro j k h
    unfold findNonFalse at h
    split at h
    · rename_i hb
      cases h
      exact ⟨Nat.le_refl _, by omega, by simpa using hb⟩
    · obtain ⟨a, b, c⟩ := ih _ _ h
      exact ⟨by omega, by omega, c⟩

theorem setClause_setClause (st : St) (c : Nat) (X Y : Array Int) :
    setClause (setClause st c X) c Y = setClause st c Y := by
  unfold setClause
  by_cases h : c < st.nOrig
  · simp only [h, if_true]
    congr 1
    apply Array.ext
    · simp
    · intro i h1 h2
      simp [Array.set!_eq_setIfInBounds]
  · simp only [h, if_false]
    congr 1
    apply Array.ext
    · simp
    · intro i h1 h2
      simp [Array.set!_eq_setIfInBounds]

theorem moveWatch_setClause (st : St) (fl : Int) (i c : Nat) (X Y : Array Int) :
    moveWatch (setClause st c X) fl i c Y = moveWatch st fl i c Y := by
  unfold moveWatch; rw [setClause_setClause]

theorem litValue_ne_cases {st : St} {l : Int} (h1 : ¬ (litValue st l == some true) = true)
    (h2 : ¬ (litValue st l == some false) = true) : litValue st l = none := by
  cases h : litValue st l with
  | none => rfl
  | some b => cases b <;> simp [h] at h1 h2

theorem watchStep_inl {F st p fl i st' i'} (h : Inv F st p) (ctx : Ctx st p fl) (hd : Done F st fl i)
    (hs : watchStep fl st i = .inl (st', i')) :
    Inv F st' p ∧ Ext st st' ∧ Done F st' fl i' := by
  unfold watchStep at hs
  simp only at hs
  split at hs
  case isFalse => cases hs
  case isTrue hisz =>
  have hi := wl_getElem?_of_lt st fl hisz
  generalize hcidx : (watchOf st fl)[i]! = cidx at hs hi
  have hm : cidx ∈ wl st fl := List.mem_of_getElem? hi
  split at hs
  · cases hs
  · by_cases hc : cidx < F.length
    · -- an input clause
      have hcn : cidx < st.nOrig := by rw [h.nOrig]; exact hc
      rw [getClause_orig st hcn] at hs
      obtain ⟨hosz, hoperm, ho1, ho0, _⟩ := orient_facts h hc hm
      obtain ⟨h1, e1, hcl1, hclo⟩ := inv_orient h hc hm
      obtain ⟨h3, _⟩ := h.wsound fl cidx hm hc
      -- state after storing the oriented clause: same watch lists and values
      have hd1 : Done F (setClause st cidx (orient fl (cl st cidx))) fl i := by
        apply hd.transfer
        · intro j _; rw [setClause_orig st hcn]; rfl
        · intro j c' hj hjc hc'lt
          apply hclo
          intro e; subst e
          have := h.posUnique (fl := fl) hjc hi hc; omega
        · intro l hl; rw [setClause_orig st hcn]; exact hl
      have hlv : ∀ l, litValue (setClause st cidx (orient fl (cl st cidx))) l = litValue st l := by
        intro l; rw [setClause_orig st hcn]; rfl
      split at hs
      · -- first watch true
        rename_i hft
        simp only [Sum.inl.injEq, Prod.mk.injEq] at hs
        obtain ⟨rfl, rfl⟩ := hs
        refine ⟨h1, e1, ?_⟩
        intro j c' hj hjc hc'lt
        by_cases hji : j = i
        · subst hji
          have hwl1 : wl (setClause st cidx (orient fl (cl st cidx))) fl = wl st fl := by
            rw [setClause_orig st hcn]; rfl
          rw [hwl1, hi] at hjc
          cases hjc
          right
          rw [hcl1]
          refine ⟨ho1, ?_⟩
          unfold IsTrue; rw [hlv]; simpa using hft
        · exact hd1 j c' (by omega) hjc hc'lt
      · rename_i hft
        split at hs
        · -- a replacement watch was found
          rename_i k hk
          simp only [Sum.inl.injEq, Prod.mk.injEq] at hs
          obtain ⟨rfl, rfl⟩ := hs
          obtain ⟨hk2, hklt, hknf⟩ := findNonFalse_some st _ _ _ _ hk
          rw [← moveWatch_setClause st fl i cidx (orient fl (cl st cidx))]
          have hwl1 : wl (setClause st cidx (orient fl (cl st cidx))) fl = wl st fl := by
            rw [setClause_orig st hcn]; rfl
          have := inv_move (k := k) h1 (ctx.ext e1) hc (by rw [hwl1]; exact hi) (by rw [hcl1]; exact ho1) hk2
            (by rw [hcl1]; omega) (by rw [hcl1]; unfold IsFalse; rw [hlv]; exact hknf) hd1
          rw [hcl1] at this
          exact ⟨this.1, e1.trans this.2.1, this.2.2⟩
        · rename_i hnone
          split at hs
          · cases hs
          · rename_i hff
            simp only [Sum.inl.injEq, Prod.mk.injEq] at hs
            obtain ⟨rfl, rfl⟩ := hs
            have hnone' : litValue (setClause st cidx (orient fl (cl st cidx))) (orient fl (cl st cidx))[0]! = none := by
              rw [hlv]; exact litValue_ne_cases hft hff
            have hu := undef_of_litValue_none hnone'
            have ea := ext_assign h1 hu (decide (0 < (orient fl (cl st cidx))[0]!)) (cidx : Int)
            refine ⟨inv_assign h1 hu _ _, e1.trans ea, ?_⟩
            intro j c' hj hjc hc'lt
            have hwl2 : wl (assign (setClause st cidx (orient fl (cl st cidx))) (orient fl (cl st cidx))[0]!.natAbs
                (decide (0 < (orient fl (cl st cidx))[0]!)) (cidx : Int)) fl = wl st fl := by
              rw [setClause_orig st hcn]; rfl
            by_cases hji : j = i
            · subst hji
              rw [hwl2, hi] at hjc
              cases hjc
              right
              have hcl2 : cl (assign (setClause st cidx (orient fl (cl st cidx))) (orient fl (cl st cidx))[0]!.natAbs
                  (decide (0 < (orient fl (cl st cidx))[0]!)) (cidx : Int)) cidx = orient fl (cl st cidx) := hcl1
              rw [hcl2]
              exact ⟨ho1, isTrue_assign h1 hu _⟩
            · have hd2 : Done F (assign (setClause st cidx (orient fl (cl st cidx))) (orient fl (cl st cidx))[0]!.natAbs
                  (decide (0 < (orient fl (cl st cidx))[0]!)) (cidx : Int)) fl i :=
                hd1.transfer (fun _ _ => rfl) (fun _ _ _ _ _ => rfl) (fun l hl => ea.isTrue hl)
              exact hd2 j c' (by omega) hjc hc'lt
    · -- a learned clause
      have hc' : F.length ≤ cidx := by omega
      have hcn : st.nOrig ≤ cidx := by rw [h.nOrig]; exact hc'
      generalize getClause st cidx = X0 at hs
      split at hs
      · simp only [Sum.inl.injEq, Prod.mk.injEq] at hs
        obtain ⟨rfl, rfl⟩ := hs
        rw [setClause_learned st hcn]
        refine ⟨inv_setLearned h _, ext_setLearned st _, ?_⟩
        intro j c' hj hjc hc'lt
        by_cases hji : j = i
        · subst hji
          have : (wl st fl)[j]? = some c' := hjc
          rw [hi] at this; cases this; omega
        · exact hd j c' (by omega) hjc hc'lt
      · rename_i hft
        split at hs
        · simp only [Sum.inl.injEq, Prod.mk.injEq] at hs
          obtain ⟨rfl, rfl⟩ := hs
          exact inv_move_learned h hd hi hc' _
        · split at hs
          · cases hs
          · rename_i hff
            simp only [Sum.inl.injEq, Prod.mk.injEq] at hs
            obtain ⟨rfl, rfl⟩ := hs
            rw [setClause_learned st hcn]
            have h1 : Inv F { st with learned := st.learned.set! (cidx - st.nOrig) (orient fl X0) } p := inv_setLearned h _
            have hnone' : litValue { st with learned := st.learned.set! (cidx - st.nOrig) (orient fl X0) } (orient fl X0)[0]! = none :=
              litValue_ne_cases hft hff
            have hu := undef_of_litValue_none hnone'
            have ea := ext_assign h1 hu (decide (0 < (orient fl X0)[0]!)) (cidx : Int)
            refine ⟨inv_assign h1 hu _ _, (ext_setLearned st _).trans ea, ?_⟩
            intro j c' hj hjc hc'lt
            by_cases hji : j = i
            · subst hji
              have : (wl st fl)[j]? = some c' := hjc
              rw [hi] at this; cases this; omega
            · have hd2 : Done F (assign { st with learned := st.learned.set! (cidx - st.nOrig) (orient fl X0) }
                  (orient fl X0)[0]!.natAbs (decide (0 < (orient fl X0)[0]!)) (cidx : Int)) fl i :=
                hd.transfer (fun _ _ => rfl) (fun _ _ _ _ _ => rfl) (fun l hl => ((ext_setLearned st _).trans ea).isTrue hl)
              exact hd2 j c' (by omega) hjc hc'lt

/-- the steps that end the loop keep the invariant too -/
theorem watchStep_inr {F st p fl i st' r} (h : Inv F st p)
    (hs : watchStep fl st i = .inr (st', r)) :
    Inv F st' p ∧ Ext st st' ∧ (r = .ok → st' = st ∧ (wl st fl).length ≤ i) := by
  unfold watchStep at hs
  simp only at hs
  split at hs
  case isFalse hn =>
    simp only [Sum.inr.injEq, Prod.mk.injEq] at hs
    obtain ⟨rfl, rfl⟩ := hs
    exact ⟨h, Ext.refl _, fun _ => ⟨rfl, by unfold wl; simp; omega⟩⟩
  case isTrue hisz =>
  have hi := wl_getElem?_of_lt st fl hisz
  generalize hcidx : (watchOf st fl)[i]! = cidx at hs hi
  have hm : cidx ∈ wl st fl := List.mem_of_getElem? hi
  split at hs
  · simp only [Sum.inr.injEq, Prod.mk.injEq] at hs
    obtain ⟨rfl, rfl⟩ := hs
    exact ⟨h, Ext.refl _, fun hh => by cases hh⟩
  · split at hs
    · cases hs
    · split at hs
      · cases hs
      · split at hs
        · simp only [Sum.inr.injEq, Prod.mk.injEq] at hs
          obtain ⟨rfl, rfl⟩ := hs
          refine ⟨?_, ?_, fun hh => by cases hh⟩
          · by_cases hc : cidx < F.length
            · have hcn : cidx < st.nOrig := by rw [h.nOrig]; exact hc
              rw [getClause_orig st hcn]; exact (inv_orient h hc hm).1
            · have hcn : st.nOrig ≤ cidx := by rw [h.nOrig]; omega
              rw [setClause_learned st hcn]; exact inv_setLearned h _
          · by_cases hc : cidx < F.length
            · have hcn : cidx < st.nOrig := by rw [h.nOrig]; exact hc
              rw [getClause_orig st hcn]; exact (inv_orient h hc hm).2.1
            · have hcn : st.nOrig ≤ cidx := by rw [h.nOrig]; omega
              rw [setClause_learned st hcn]; exact ext_setLearned st _
        · cases hs

theorem watchLoop_spec {F p fl} : ∀ (fuel : Nat) (st : St) (i : Nat) (st' : St) (r : PRes),
    Inv F st p → Ctx st p fl → Done F st fl i → watchLoop fl fuel st i = (st', r) →
    Inv F st' p ∧ Ext st st' ∧ (r = .ok → Done F st' fl (wl st' fl).length) := by
  intro fuel
  induction fuel with
  | zero =>
    intro st i st' r h _ _ hs
    simp only [watchLoop, Prod.mk.injEq] at hs
    obtain ⟨rfl, rfl⟩ := hs
    exact ⟨h, Ext.refl _, fun hh => by cases hh⟩
  | succ fuel ih =>
    intro st i st' r h ctx hd hs
    unfold watchLoop at hs
    split at hs
    · rename_i st1 i1 hstep
      obtain ⟨h1, e1, d1⟩ := watchStep_inl h ctx hd hstep
      obtain ⟨h2, e2, d2⟩ := ih st1 i1 st' r h1 (ctx.ext e1) d1 hs
      exact ⟨h2, e1.trans e2, d2⟩
    · rename_i r0 hstep
      subst hs
      obtain ⟨h1, e1, d1⟩ := watchStep_inr h hstep
      refine ⟨h1, e1, fun hh => ?_⟩
      obtain ⟨rfl, hlen⟩ := d1 hh
      exact hd.mono hlen

/-! ### after the watch list: the literal at position `p` counts as processed -/

theorem Inv.lvlLeOf {F st k} (h : Inv F st k) {v : Nat} (hv : v ≤ st.nVars) (ha : valAt st v ≠ UNDEF) :
    lvlAt st v ≤ st.trailLim.size := by
  obtain ⟨i, hi, rfl⟩ := (mem_toList_iff_get! _ _).1 ((h.tmem v).2 ⟨hv, ha⟩)
  exact h.lvlLe i hi

theorem inv_weaken {F st k} (h : Inv F st k) {k' : Nat} (hk : k' ≤ k)
    (hl : ∀ j, j < st.trailLim.size → st.trailLim[j]! ≤ k') : Inv F st k' :=
  { h with limLe := hl, kLe := Nat.le_trans hk h.kLe
           wsem := fun c hc h3 =>
             ⟨fun hf ⟨i, hi, hp⟩ => (h.wsem c hc h3).1 hf ⟨i, by omega, hp⟩,
              fun hf ⟨i, hi, hp⟩ => (h.wsem c hc h3).2 hf ⟨i, by omega, hp⟩⟩
           bsem := fun c hc h2 =>
             ⟨fun hf ⟨i, hi, hp⟩ => (h.bsem c hc h2).1 hf ⟨i, by omega, hp⟩,
              fun hf ⟨i, hi, hp⟩ => (h.bsem c hc h2).2 hf ⟨i, by omega, hp⟩⟩ }

theorem inv_advance {F st p fl} (h : Inv F st p) (ctx : Ctx st p fl)
    (hb : ∀ e ∈ il st fl, IsTrue st e.1) (hw : Done F st fl (wl st fl).length) : Inv F st (p + 1) := by
  -- a false literal of an input clause whose variable sits at position `p` is `fl`
  have key : ∀ c (hc : c < F.length) (a : Nat) (ha : a < (cl st c).size), IsFalse st (cl st c)[a]! →
      Proc st (p + 1) (cl st c)[a]! → Proc st p (cl st c)[a]! ∨ (cl st c)[a]! = fl := by
    intro c hc a ha hf ⟨i, hi, his, hti⟩
    by_cases hip : i < p
    · exact Or.inl ⟨i, hip, his, hti⟩
    · right
      have : i = p := by omega
      subst this
      have hn : (cl st c)[a]!.natAbs = fl.natAbs := by rw [← hti, ctx.var]
      have hnz := h.fok.nz _ (List.getElem_mem hc) _ (h.clGet hc ha)
      have hfl0 : fl ≠ 0 := by intro e; rw [e] at hn; simp at hn; exact hnz hn
      exact hf.eq_of_natAbs (ctx.isF hfl0) hn
  have lvlOther : ∀ c (hc : c < F.length) (b : Nat) (hb : b < (cl st c).size), IsTrue st (cl st c)[b]! →
      lvlAt st (cl st c)[b]!.natAbs ≤ lvlAt st fl.natAbs := by
    intro c hc b hb ht
    rw [ctx.cur]
    exact h.lvlLeOf (h.fok.rng _ (List.getElem_mem hc) _ (h.clGet hc hb)) ht.assigned
  refine { h with limLe := fun j hj => Nat.le_succ_of_le (h.limLe j hj), kLe := ctx.pLt, wsem := ?_, bsem := ?_ }
  · intro c hc h3
    have h01 := h.clNe hc (i := 0) (j := 1) (by omega) (by omega) (by omega)
    obtain ⟨a0, a1⟩ := h.wattach c hc h3
    constructor
    · intro hf hp
      rcases key c hc 0 (by omega) hf hp with hp' | he
      · exact (h.wsem c hc h3).1 hf hp'
      · rw [he] at a0
        obtain ⟨j, hj⟩ := List.mem_iff_getElem?.1 a0
        have hjl : j < (wl st fl).length := (List.getElem?_eq_some_iff.1 hj).1
        rcases hw j c hjl hj hc with ⟨_, t⟩ | ⟨e1, _⟩
        · exact ⟨t, by rw [he]; exact lvlOther c hc 1 (by omega) t⟩
        · exact absurd (he.trans e1.symm) h01
    · intro hf hp
      rcases key c hc 1 (by omega) hf hp with hp' | he
      · exact (h.wsem c hc h3).2 hf hp'
      · rw [he] at a1
        obtain ⟨j, hj⟩ := List.mem_iff_getElem?.1 a1
        have hjl : j < (wl st fl).length := (List.getElem?_eq_some_iff.1 hj).1
        rcases hw j c hjl hj hc with ⟨e0, _⟩ | ⟨_, t⟩
        · exact absurd (e0.trans he.symm) h01
        · exact ⟨t, by rw [he]; exact lvlOther c hc 0 (by omega) t⟩
  · intro c hc h2
    obtain ⟨b0, b1⟩ := h.battach c hc h2
    constructor
    · intro hf hp
      rcases key c hc 0 (by omega) hf hp with hp' | he
      · exact (h.bsem c hc h2).1 hf hp'
      · rw [he] at b0
        have t := hb _ b0
        exact ⟨t, by rw [he]; exact lvlOther c hc 1 (by omega) t⟩
    · intro hf hp
      rcases key c hc 1 (by omega) hf hp with hp' | he
      · exact (h.bsem c hc h2).2 hf hp'
      · rw [he] at b1
        have t := hb _ b1
        exact ⟨t, by rw [he]; exact lvlOther c hc 0 (by omega) t⟩

/-! ### the propagation loop -/

theorem ctx_of_trail {F st p} (h : Inv F st p) (hp : p < st.trail.size) :
    Ctx st p (if st.vals[st.trail[p]!]! == 0 then (st.trail[p]! : Int) else -(st.trail[p]! : Int)) := by
  obtain ⟨hle, hasg⟩ := h.trailGet hp
  have hr := h.vrange (st.trail[p]!)
  have hcur : lvlAt st (st.trail[p]!) = st.trailLim.size := by
    apply Nat.le_antisymm (h.lvlLe p hp)
    apply Classical.byContradiction
    intro hn
    have hlt : lvlAt st (st.trail[p]!) < st.trailLim.size := by omega
    have := (h.tl p _ hp hlt).1 (by have := h.limLe _ hlt; omega)
    omega
  generalize hv : st.trail[p]! = v at *
  by_cases h0 : st.vals[v]! = 0
  · have hb : (st.vals[v]! == 0) = true := by simpa using h0
    simp only [hb, if_true]
    refine ⟨hp, by simp [hv], ?_, by simpa using hasg, by simpa using hcur⟩
    intro hne
    unfold IsFalse; rw [litValue_def]
    simp only [Int.natAbs_natCast]
    have hv0 : valAt st v = 0 := h0
    have hpos : (0 : Int) < (v : Int) := by omega
    rw [hv0]; simp [UNDEF]; omega
  · have hb : (st.vals[v]! == 0) = false := by simpa using h0
    simp only [hb, Bool.false_eq_true, if_false]
    refine ⟨hp, by simp [hv], ?_, by simpa using hasg, by simpa using hcur⟩
    intro hne
    unfold IsFalse; rw [litValue_def]
    simp only [Int.natAbs_neg, Int.natAbs_natCast]
    have hv1 : valAt st v = 1 := by
      have h0' : valAt st v ≠ 0 := h0
      unfold UNDEF at hasg; omega
    rw [hv1]; simp [UNDEF]

theorem setClause_head (st : St) (c : Nat) (X : Array Int) : (setClause st c X).propHead = st.propHead := by
  unfold setClause; split <;> rfl

theorem implLoop_head : ∀ (xs : List (Int × Nat)) (st : St), (implLoop xs st).1.propHead = st.propHead := by
  intro xs
  induction xs with
  | nil => intro st; rfl
  | cons e rest ih =>
    intro st
    obtain ⟨implied, cidx⟩ := e
    unfold implLoop
    simp only
    split
    · rw [ih]; rfl
    · split
      · rfl
      · exact ih st

theorem moveWatch_head (st : St) (fl : Int) (i c : Nat) (X : Array Int) :
    (moveWatch st fl i c X).propHead = st.propHead := by
  unfold moveWatch addWatch removeWatchAt; exact setClause_head _ _ _

theorem watchStep_head_inl {fl st i st' i'} (hs : watchStep fl st i = .inl (st', i')) :
    st'.propHead = st.propHead := by
  unfold watchStep at hs
  simp only at hs
  split at hs
  · split at hs
    · cases hs
    · split at hs
      · simp only [Sum.inl.injEq, Prod.mk.injEq] at hs; obtain ⟨rfl, rfl⟩ := hs; exact setClause_head _ _ _
      · split at hs
        · simp only [Sum.inl.injEq, Prod.mk.injEq] at hs; obtain ⟨rfl, rfl⟩ := hs; exact moveWatch_head _ _ _ _ _
        · split at hs
          · cases hs
          · simp only [Sum.inl.injEq, Prod.mk.injEq] at hs; obtain ⟨rfl, rfl⟩ := hs
            show (assign _ _ _ _).propHead = _
            unfold assign; exact setClause_head _ _ _
  · cases hs

theorem watchStep_head_inr {fl st i st' r} (hs : watchStep fl st i = .inr (st', r)) :
    st'.propHead = st.propHead := by
  unfold watchStep at hs
  simp only at hs
  split at hs
  · split at hs
    · simp only [Sum.inr.injEq, Prod.mk.injEq] at hs; obtain ⟨rfl, rfl⟩ := hs; rfl
    · split at hs
      · cases hs
      · split at hs
        · cases hs
        · split at hs
          · simp only [Sum.inr.injEq, Prod.mk.injEq] at hs; obtain ⟨rfl, rfl⟩ := hs; exact setClause_head _ _ _
          · cases hs
  · simp only [Sum.inr.injEq, Prod.mk.injEq] at hs; obtain ⟨rfl, rfl⟩ := hs; rfl

theorem watchLoop_head {fl} : ∀ (fuel : Nat) (st : St) (i : Nat), (watchLoop fl fuel st i).1.propHead = st.propHead := by
  intro fuel
  induction fuel with
  | zero => intro st i; rfl
  | succ fuel ih =>
    intro st i
    unfold watchLoop
    split
    · rename_i st1 i1 hstep
      rw [ih]; exact watchStep_head_inl hstep
    · rename_i r hstep
      obtain ⟨st', r'⟩ := r
      exact watchStep_head_inr hstep

theorem propStep_spec {F st} (h : Inv F st st.propHead) :
    (∀ st2, propStep st = .inl st2 → Inv F st2 st2.propHead ∧ Ext st st2 ∧ st2.propHead = st.propHead + 1) ∧
    (∀ st' r, propStep st = .inr (st', r) → Inv F st' st.propHead ∧ Ext st st' ∧
      (r = .ok → Inv F st' st'.trail.size ∧ st'.propHead = st'.trail.size)) := by
  unfold propStep
  simp only
  split
  · rename_i hge
    refine ⟨fun _ hs => (by cases hs), fun st' r hs => ?_⟩
    simp only [Sum.inr.injEq, Prod.mk.injEq] at hs
    obtain ⟨rfl, rfl⟩ := hs
    have : st.propHead = st.trail.size := by have := h.kLe; omega
    exact ⟨h, Ext.refl _, fun _ => ⟨this ▸ h, this⟩⟩
  · rename_i hlt
    have hp : st.propHead < st.trail.size := by omega
    have h0 : Inv F { st with propHead := st.propHead + 1 } st.propHead :=
      inv_frame h rfl rfl rfl rfl rfl rfl rfl rfl rfl
    have e0 : Ext st { st with propHead := st.propHead + 1 } := ext_frame rfl rfl rfl rfl rfl rfl rfl rfl
    have ctx0 := ctx_of_trail h0 hp
    simp only at ctx0
    generalize hfl : (if st.vals[st.trail[st.propHead]!]! == 0 then (st.trail[st.propHead]! : Int)
      else -(st.trail[st.propHead]! : Int)) = fl at ctx0
    split
    · rename_i st1 cidx himp
      refine ⟨fun _ hs => (by cases hs), fun st' r hs => ?_⟩
      simp only [Sum.inr.injEq, Prod.mk.injEq] at hs
      obtain ⟨rfl, rfl⟩ := hs
      obtain ⟨h1, e1, _⟩ := implLoop_spec _ _ _ _ h0 himp
      exact ⟨inv_frame h1 rfl rfl rfl rfl rfl rfl rfl rfl rfl,
        (e0.trans e1).trans (ext_frame rfl rfl rfl rfl rfl rfl rfl rfl), fun hh => by cases hh⟩
    · rename_i st1 himp
      obtain ⟨h1, e1, t1⟩ := implLoop_spec _ _ _ _ h0 himp
      have ctx1 := ctx0.ext e1
      have hil : il st1 fl = (implications { st with propHead := st.propHead + 1 } fl).toList := by
        unfold il implications; rw [e1.big]
      split
      · rename_i st2 hw
        refine ⟨fun st2' hs => ?_, fun _ _ hs => (by cases hs)⟩
        simp only [Sum.inl.injEq] at hs
        subst hs
        obtain ⟨h2, e2, d2⟩ := watchLoop_spec _ _ _ _ _ h1 ctx1 (fun j c hj => by omega) hw
        have hadv : Inv F st2 (st.propHead + 1) := by
          apply inv_advance h2 (ctx1.ext e2) _ (d2 rfl)
          intro e he
          apply e2.isTrue
          apply t1 rfl
          have : il st2 fl = il st1 fl := by unfold il implications; rw [e2.big]
          rw [this, hil] at he; exact he
        have hph : st2.propHead = st.propHead + 1 := by
          have a1 := implLoop_head (implications { st with propHead := st.propHead + 1 } fl).toList
            { st with propHead := st.propHead + 1 }
          rw [himp] at a1
          have a2 := watchLoop_head (fl := fl) ((watchOf st1 fl).size + 1) st1 0
          rw [hw] at a2
          simp only at a1 a2
          omega
        exact ⟨hph ▸ hadv, (e0.trans e1).trans e2, hph⟩
      · rename_i st2 cidx hw
        refine ⟨fun _ hs => (by cases hs), fun st' r hs => ?_⟩
        simp only [Sum.inr.injEq, Prod.mk.injEq] at hs
        obtain ⟨rfl, rfl⟩ := hs
        obtain ⟨h2, e2, _⟩ := watchLoop_spec _ _ _ _ _ h1 ctx1 (fun j c hj => by omega) hw
        exact ⟨inv_frame h2 rfl rfl rfl rfl rfl rfl rfl rfl rfl,
          ((e0.trans e1).trans e2).trans (ext_frame rfl rfl rfl rfl rfl rfl rfl rfl), fun hh => by cases hh⟩
      · rename_i st2 r2 hnok hncf hw
        refine ⟨fun _ hs => (by cases hs), fun st' r hs => ?_⟩
        simp only [Sum.inr.injEq, Prod.mk.injEq] at hs
        obtain ⟨rfl, rfl⟩ := hs
        obtain ⟨h2, e2, _⟩ := watchLoop_spec _ _ _ _ _ h1 ctx1 (fun j c hj => by omega) hw
        exact ⟨h2, (e0.trans e1).trans e2, fun hh => by subst hh; exact (hnok rfl).elim⟩

theorem propLoop_spec {F} : ∀ (fuel : Nat) (st st' : St) (r : PRes), Inv F st st.propHead →
    propLoop fuel st = (st', r) →
    Inv F st' st.propHead ∧ Ext st st' ∧ (r = .ok → Inv F st' st'.trail.size ∧ st'.propHead = st'.trail.size) := by
  intro fuel
  induction fuel with
  | zero =>
    intro st st' r h hs
    simp only [propLoop, Prod.mk.injEq] at hs
    obtain ⟨rfl, rfl⟩ := hs
    exact ⟨h, Ext.refl _, fun hh => by cases hh⟩
  | succ fuel ih =>
    intro st st' r h hs
    unfold propLoop at hs
    obtain ⟨s1, s2⟩ := propStep_spec h
    split at hs
    · rename_i st2 hstep
      obtain ⟨h2, e2, hph⟩ := s1 st2 hstep
      obtain ⟨h3, e3, r3⟩ := ih st2 st' r h2 hs
      refine ⟨?_, e2.trans e3, r3⟩
      rw [hph] at h3
      exact inv_weaken h3 (Nat.le_succ _) (fun j hj => by
        have := (e2.trans e3).lim
        rw [this] at hj
        have hh := h.limLe j hj
        rw [this]; exact hh)
    · rename_i r0 hstep
      subst hs
      exact s2 st' r hstep

/-! ### assumptions and `propagate` -/

theorem assumeLoop_spec {F k} : ∀ (xs : List Int) (st st' : St) (bad : Bool), Inv F st k →
    assumeLoop xs st = (st', bad) →
    Inv F st' k ∧ Ext st st' ∧ st'.propHead = st.propHead ∧ (bad = false → ∀ a ∈ xs, IsTrue st' a) := by
  intro xs
  induction xs with
  | nil => intro st st' bad h hs; simp only [assumeLoop, Prod.mk.injEq] at hs; obtain ⟨rfl, rfl⟩ := hs
           exact ⟨h, Ext.refl _, rfl, by simp⟩
  | cons lit rest ih =>
    intro st st' bad h hs
    unfold assumeLoop at hs
    simp only at hs
    split at hs
    · rename_i hu
      have hu' : valAt st lit.natAbs = UNDEF := by simpa [valAt] using hu
      obtain ⟨h1, e1, p1, t1⟩ := ih _ _ _ (inv_assign h hu' _ _) hs
      refine ⟨h1, (ext_assign h hu' _ _).trans e1, p1, ?_⟩
      intro hb a ha
      rcases List.mem_cons.1 ha with rfl | ha
      · exact e1.isTrue (isTrue_assign h hu' _)
      · exact t1 hb a ha
    · rename_i hu
      split at hs
      · simp only [Prod.mk.injEq] at hs; obtain ⟨rfl, rfl⟩ := hs
        exact ⟨h, Ext.refl _, rfl, fun hh => by cases hh⟩
      · rename_i hne
        obtain ⟨h1, e1, p1, t1⟩ := ih _ _ _ h hs
        refine ⟨h1, e1, p1, ?_⟩
        intro hb a ha
        rcases List.mem_cons.1 ha with rfl | ha
        · apply e1.isTrue
          unfold IsTrue
          rw [litValue_def]
          have hu' : ¬ valAt st a.natAbs = UNDEF := by simpa [valAt] using hu
          simp only [hu', if_false, Option.some.injEq]
          have : ((st.vals[a.natAbs]! == 1) != decide (0 < a)) = false := by simpa using hne
          simpa [valAt] using this
        · exact t1 hb a ha

theorem propagate_spec {F st st' r} (h : Inv F st st.propHead) (hs : propagate st = (st', r)) :
    Inv F st' st.propHead ∧ Ext st st' ∧
    (r = .ok → Inv F st' st'.trail.size ∧ st'.propHead = st'.trail.size ∧
      (st.trailLim.size = 0 → ∀ a ∈ st.assumptions, IsTrue st' a)) := by
  unfold propagate at hs
  simp only at hs
  -- the assumption phase
  have key : ∀ (s1 : St) (bad : Bool),
      (if (st.trailLim.size == 0) = true then assumeLoop st.assumptions st else (st, false)) = (s1, bad) →
      Inv F s1 st.propHead ∧ Ext st s1 ∧ s1.propHead = st.propHead ∧
      (bad = false → st.trailLim.size = 0 → ∀ a ∈ st.assumptions, IsTrue s1 a) := by
    intro s1 bad hq
    split at hq
    · obtain ⟨a, b, c, d⟩ := assumeLoop_spec _ _ _ _ h hq
      exact ⟨a, b, c, fun hb _ => d hb⟩
    · rename_i hne
      simp only [Prod.mk.injEq] at hq; obtain ⟨rfl, rfl⟩ := hq
      exact ⟨h, Ext.refl _, rfl, fun _ h0 => absurd (by simpa using h0) hne⟩
  generalize hq : (if (st.trailLim.size == 0) = true then assumeLoop st.assumptions st else (st, false)) = q at hs
  obtain ⟨s1, bad⟩ := q
  obtain ⟨h1, e1, p1, t1⟩ := key s1 bad hq
  simp only at hs
  split at hs
  · simp only [Prod.mk.injEq] at hs; obtain ⟨rfl, rfl⟩ := hs
    exact ⟨inv_frame h1 rfl rfl rfl rfl rfl rfl rfl rfl rfl,
      e1.trans (ext_frame rfl rfl rfl rfl rfl rfl rfl rfl), fun hh => by cases hh⟩
  · rename_i hbad
    have hbad' : bad = false := by simpa using hbad
    obtain ⟨h2, e2, r2⟩ := propLoop_spec _ _ _ _ (p1 ▸ h1) hs
    rw [p1] at h2
    refine ⟨h2, e1.trans e2, fun hr => ?_⟩
    obtain ⟨a, b⟩ := r2 hr
    exact ⟨a, b, fun h0 x hx => e2.isTrue (t1 hbad' h0 x hx)⟩

end Solvor.Sat.Cdcl
