import Solvor.Sat.CdclMain
/-! Sat.CdclInit: the set-up code of `solve` (clause database, pure literals, unit clauses, first
`propagate`) establishes the loop invariant. -/
namespace Solvor.Sat.Cdcl

/-! ### `countVars` bounds every variable -/

theorem foldl_max_ge (xs : List Int) (n : Nat) : n ≤ xs.foldl (fun n l => max n l.natAbs) n := by
  induction xs generalizing n with
  | nil => exact Nat.le_refl _
  | cons x t ih => exact Nat.le_trans (Nat.le_max_left _ _) (ih _)

theorem foldl_max_mem (xs : List Int) (n : Nat) (l : Int) (h : l ∈ xs) :
    l.natAbs ≤ xs.foldl (fun n l => max n l.natAbs) n := by
  induction xs generalizing n with
  | nil => cases h
  | cons x t ih =>
    rcases List.mem_cons.1 h with rfl | h
    · exact Nat.le_trans (Nat.le_max_right _ _) (foldl_max_ge t _)
    · exact ih _ h

theorem foldl2_max_ge (F : List (List Int)) (n : Nat) :
    n ≤ F.foldl (fun n c => c.foldl (fun n l => max n l.natAbs) n) n := by
  induction F generalizing n with
  | nil => exact Nat.le_refl _
  | cons c t ih => exact Nat.le_trans (foldl_max_ge c n) (ih _)

theorem foldl2_max_mem (F : List (List Int)) (n : Nat) (c : List Int) (hc : c ∈ F) (l : Int) (hl : l ∈ c) :
    l.natAbs ≤ F.foldl (fun n c => c.foldl (fun n l => max n l.natAbs) n) n := by
  induction F generalizing n with
  | nil => cases hc
  | cons d t ih =>
    rcases List.mem_cons.1 hc with rfl | hc
    · exact Nat.le_trans (foldl_max_mem c n l hl) (foldl2_max_ge t _)
    · exact ih _ hc

theorem countVars_clause (F : List (List Int)) (as : List Int) (c : List Int) (hc : c ∈ F) (l : Int) (hl : l ∈ c) :
    l.natAbs ≤ countVars F as := by
  unfold countVars
  exact Nat.le_trans (foldl2_max_mem F 0 c hc l hl) (foldl_max_ge as _)

theorem countVars_asm (F : List (List Int)) (as : List Int) (a : Int) (ha : a ∈ as) :
    a.natAbs ≤ countVars F as := by
  unfold countVars
  exact foldl_max_mem as _ a ha

/-! ### loading the clause database -/

/-- the watch / implication lists while the first `i` input clauses have been attached -/
structure LoadInv (F : List (List Int)) (N : Nat) (st : St) (i : Nat) : Prop where
  clauses : st.clauses = (F.map List.toArray).toArray
  wsize : st.watch.size = 2 * (N + 1)
  bsize : st.big.size = 2 * (N + 1)
  ws : ∀ l c, c ∈ wl st l → c < i ∧ 3 ≤ (cl st c).size ∧ ((cl st c)[0]! = l ∨ (cl st c)[1]! = l)
  wn : ∀ l, (wl st l).Nodup
  wa : ∀ c, c < i → c < F.length → 3 ≤ (cl st c).size → c ∈ wl st (cl st c)[0]! ∧ c ∈ wl st (cl st c)[1]!
  ba : ∀ c, c < i → c < F.length → (cl st c).size = 2 →
    ((cl st c)[1]!, c) ∈ il st (cl st c)[0]! ∧ ((cl st c)[0]!, c) ∈ il st (cl st c)[1]!

theorem cl_of_clauses {F : List (List Int)} {st : St} (h : st.clauses = (F.map List.toArray).toArray)
    {c : Nat} (hc : c < F.length) : cl st c = F[c].toArray := by
  unfold cl; rw [h, get!_eq]; simp [hc]

theorem il_bigAdd_self (st : St) (a b : Int) (idx : Nat) (ha : litIdx a < st.big.size) (hb : litIdx b < st.big.size) :
    (b, idx) ∈ il (bigAdd st a b idx) a ∧ (a, idx) ∈ il (bigAdd st a b idx) b := by
  unfold il implications bigAdd
  simp only
  constructor
  · rw [get!_modify, get!_modify]
    have hsz : litIdx b < (st.big.modify (litIdx a) (·.push (b, idx))).size := by rw [Array.size_modify]; exact hb
    by_cases hab : litIdx b = litIdx a
    · simp [hab, ha, hsz]
    · simp [hab, ha]
  · rw [get!_modify]
    simp [hb]

theorem loadClauses_spec {F : List (List Int)} {N : Nat} (hf : FOK F N) :
    ∀ (rest done : List (List Int)) (st : St) (units : List (Int × Nat)) (st' : St) (us : List (Int × Nat)),
      F = done ++ rest → LoadInv F N st done.length →
      (∀ idx (h : idx < F.length), idx < done.length → ∀ a, F[idx] = [a] → (a, idx) ∈ units) →
      loadClauses rest done.length st units = some (st', us) →
      LoadInv F N st' F.length ∧ (∀ idx (h : idx < F.length), ∀ a, F[idx] = [a] → (a, idx) ∈ us) ∧
      st'.vals = st.vals ∧ st'.levels = st.levels ∧ st'.trail = st.trail ∧ st'.trailLim = st.trailLim ∧
      st'.propHead = st.propHead ∧ st'.nVars = st.nVars ∧ st'.nOrig = st.nOrig ∧ st'.assumptions = st.assumptions := by
  intro rest
  induction rest with
  | nil =>
    intro done st units st' us hF hli hu hs
    simp only [loadClauses, Option.some.injEq, Prod.mk.injEq] at hs
    obtain ⟨rfl, rfl⟩ := hs
    have hlen : F.length = done.length := by rw [hF]; simp
    refine ⟨hlen ▸ hli, ?_, rfl, rfl, rfl, rfl, rfl, rfl, rfl, rfl⟩
    intro idx h a ha
    exact List.mem_reverse.2 (hu idx h (by omega) a ha)
  | cons c rest ih =>
    intro done st units st' us hF hli hu hs
    have hi : done.length < F.length := by rw [hF]; simp
    have hFi : F[done.length] = c := by simp [hF]
    have hF' : F = (done ++ [c]) ++ rest := by rw [hF]; simp
    have hlen' : (done ++ [c]).length = done.length + 1 := by simp
    have hcl := cl_of_clauses hli.clauses hi
    rw [hFi] at hcl
    have hcF : c ∈ F := hFi ▸ List.getElem_mem hi
    unfold loadClauses at hs
    -- common shape of the recursive call
    have finish : ∀ (st1 : St) (units1 : List (Int × Nat)), LoadInv F N st1 (done.length + 1) →
        (∀ idx (h : idx < F.length), idx < done.length + 1 → ∀ a, F[idx] = [a] → (a, idx) ∈ units1) →
        st1.vals = st.vals → st1.levels = st.levels → st1.trail = st.trail → st1.trailLim = st.trailLim →
        st1.propHead = st.propHead → st1.nVars = st.nVars → st1.nOrig = st.nOrig → st1.assumptions = st.assumptions →
        loadClauses rest (done.length + 1) st1 units1 = some (st', us) →
        LoadInv F N st' F.length ∧ (∀ idx (h : idx < F.length), ∀ a, F[idx] = [a] → (a, idx) ∈ us) ∧
        st'.vals = st.vals ∧ st'.levels = st.levels ∧ st'.trail = st.trail ∧ st'.trailLim = st.trailLim ∧
        st'.propHead = st.propHead ∧ st'.nVars = st.nVars ∧ st'.nOrig = st.nOrig ∧ st'.assumptions = st.assumptions := by
      intro st1 units1 hl1 hu1 e1 e2 e3 e4 e5 e6 e7 e8 hs1
      rw [← hlen'] at hl1 hs1 hu1
      obtain ⟨a1, a2, b1, b2, b3, b4, b5, b6, b7, b8⟩ := ih (done ++ [c]) st1 units1 st' us hF' hl1 hu1 hs1
      exact ⟨a1, a2, b1.trans e1, b2.trans e2, b3.trans e3, b4.trans e4, b5.trans e5, b6.trans e6, b7.trans e7, b8.trans e8⟩
    -- clauses other than the new one are those of `st`
    match c, hs, hFi, hcl, hcF with
    | [], hs, _, _, _ => simp at hs
    | [a], hs, hFi, hcl, hcF =>
      simp only at hs
      refine finish st ((a, done.length) :: units) ?_ ?_ rfl rfl rfl rfl rfl rfl rfl rfl hs
      · refine ⟨hli.clauses, hli.wsize, hli.bsize, ?_, hli.wn, ?_, ?_⟩
        · intro l c' hc'; obtain ⟨x, y, z⟩ := hli.ws l c' hc'; exact ⟨by omega, y, z⟩
        · intro c' hc' hc'F h3
          by_cases he : c' = done.length
          · subst he; rw [hcl] at h3; simp at h3
          · exact hli.wa c' (by omega) hc'F h3
        · intro c' hc' hc'F h2
          by_cases he : c' = done.length
          · subst he; rw [hcl] at h2; simp at h2
          · exact hli.ba c' (by omega) hc'F h2
      · intro idx h hidx b hb
        by_cases he : idx = done.length
        · subst he; rw [hFi] at hb; cases hb; exact List.mem_cons_self
        · exact List.mem_cons_of_mem _ (hu idx h (by omega) b hb)
    | [a, b], hs, hFi, hcl, hcF =>
      simp only at hs
      have hra : litIdx a < st.big.size := by rw [hli.bsize]; exact litIdx_lt (hf.rng _ hcF a (by simp))
      have hrb : litIdx b < st.big.size := by rw [hli.bsize]; exact litIdx_lt (hf.rng _ hcF b (by simp))
      refine finish (bigAdd st a b done.length) units ?_ ?_ rfl rfl rfl rfl rfl rfl rfl rfl hs
      · refine ⟨hli.clauses, hli.wsize, by show (Array.modify _ _ _).size = _; rw [Array.size_modify, Array.size_modify]; exact hli.bsize,
          ?_, hli.wn, ?_, ?_⟩
        · intro l c' hc'; obtain ⟨x, y, z⟩ := hli.ws l c' hc'; exact ⟨by omega, y, z⟩
        · intro c' hc' hc'F h3
          by_cases he : c' = done.length
          · subst he
            have : cl (bigAdd st a b done.length) done.length = cl st done.length := rfl
            rw [this, hcl] at h3; simp at h3
          · exact hli.wa c' (by omega) hc'F h3
        · intro c' hc' hc'F h2
          have hclsame : cl (bigAdd st a b done.length) c' = cl st c' := rfl
          rw [hclsame] at h2 ⊢
          by_cases he : c' = done.length
          · subst he
            rw [hcl]
            exact il_bigAdd_self st a b done.length hra hrb
          · obtain ⟨x, y⟩ := hli.ba c' (by omega) hc'F h2
            exact ⟨il_bigAdd_mono st a b _ _ _ x, il_bigAdd_mono st a b _ _ _ y⟩
      · intro idx h hidx x hx
        by_cases he : idx = done.length
        · subst he; rw [hFi] at hx; cases hx
        · exact hu idx h (by omega) x hx
    | a :: b :: d :: t, hs, hFi, hcl, hcF =>
      simp only at hs
      have hnd := hf.nodup _ hcF
      have hab : a ≠ b := by
        intro e; subst e; simp at hnd
      have hra : litIdx a < st.watch.size := by rw [hli.wsize]; exact litIdx_lt (hf.rng _ hcF a (by simp))
      have hrb : litIdx b < st.watch.size := by rw [hli.wsize]; exact litIdx_lt (hf.rng _ hcF b (by simp))
      have hrb' : litIdx b < (addWatch st a done.length).watch.size := by
        unfold addWatch; simpa [Array.size_modify] using hrb
      have hwl : ∀ l, wl (addWatch (addWatch st a done.length) b done.length) l =
          if l = b then wl st l ++ [done.length] else if l = a then wl st l ++ [done.length] else wl st l := by
        intro l
        rw [wl_addWatch, wl_addWatch]
        by_cases hlb : l = b
        · subst hlb; simp [hrb', Ne.symm hab]
        · by_cases hla : l = a
          · subst hla; simp [hlb, hra]
          · simp [hlb, hla]
      have hnotin : ∀ l, done.length ∉ wl st l := by
        intro l hm; have := (hli.ws l _ hm).1; omega
      have hclsame : ∀ c', cl (addWatch (addWatch st a done.length) b done.length) c' = cl st c' := fun _ => rfl
      refine finish (addWatch (addWatch st a done.length) b done.length) units ?_ ?_ rfl rfl rfl rfl rfl rfl rfl rfl hs
      · refine ⟨hli.clauses, by unfold addWatch; simp only [Array.size_modify]; exact hli.wsize,
          hli.bsize, ?_, ?_, ?_, ?_⟩
        · intro l c' hc'
          rw [hwl] at hc'
          rw [hclsame]
          have old : c' ∈ wl st l → c' < done.length + 1 ∧ 3 ≤ (cl st c').size ∧ ((cl st c')[0]! = l ∨ (cl st c')[1]! = l) := by
            intro hm; obtain ⟨x, y, z⟩ := hli.ws l c' hm; exact ⟨by omega, y, z⟩
          by_cases hlb : l = b
          · simp only [hlb, if_true] at hc'
            rcases List.mem_append.1 hc' with hm | hm
            · exact old (by rw [hlb]; exact hm)
            · simp at hm; subst hm
              rw [hcl]; exact ⟨by omega, by simp, Or.inr (by simp [hlb])⟩
          · simp only [hlb, if_false] at hc'
            by_cases hla : l = a
            · simp only [hla, if_true] at hc'
              rcases List.mem_append.1 hc' with hm | hm
              · exact old (by rw [hla]; exact hm)
              · simp at hm; subst hm
                rw [hcl]; exact ⟨by omega, by simp, Or.inl (by simp [hla])⟩
            · simp only [hla, if_false] at hc'; exact old hc'
        · intro l
          rw [hwl]
          split
          · exact List.nodup_append.2 ⟨hli.wn l, by simp, by intro x hx y hy; simp at hy; subst hy; intro e; subst e; exact hnotin l hx⟩
          · split
            · exact List.nodup_append.2 ⟨hli.wn l, by simp, by intro x hx y hy; simp at hy; subst hy; intro e; subst e; exact hnotin l hx⟩
            · exact hli.wn l
        · intro c' hc' hc'F h3
          rw [hclsame] at h3 ⊢
          have mono : ∀ l, c' ∈ wl st l → c' ∈ wl (addWatch (addWatch st a done.length) b done.length) l := by
            intro l hm; rw [hwl]; split
            · exact List.mem_append_left _ hm
            · split
              · exact List.mem_append_left _ hm
              · exact hm
          by_cases he : c' = done.length
          · subst he
            rw [hcl, hwl, hwl]
            simp [hab]
          · obtain ⟨x, y⟩ := hli.wa c' (by omega) hc'F h3
            exact ⟨mono _ x, mono _ y⟩
        · intro c' hc' hc'F h2
          rw [hclsame] at h2 ⊢
          by_cases he : c' = done.length
          · subst he; rw [hcl] at h2; simp at h2
          · exact hli.ba c' (by omega) hc'F h2
      · intro idx h hidx x hx
        by_cases he : idx = done.length
        · subst he; rw [hFi] at hx; cases hx
        · exact hu idx h (by omega) x hx

/-! ### the invariant after loading -/

theorem initSt_loadInv (F : List (List Int)) (as : List Int) (N : Nat) : LoadInv F N (initSt F as N) 0 := by
  have hw : ∀ l, wl (initSt F as N) l = [] := by
    intro l; unfold wl watchOf initSt; simp only
    rw [get!_eq, Array.getElem?_replicate]; split <;> rfl
  refine ⟨rfl, by simp [initSt], by simp [initSt], ?_, ?_, ?_, ?_⟩
  · intro l c hc; rw [hw] at hc; cases hc
  · intro l; rw [hw]; exact List.nodup_nil
  · intro c hc; omega
  · intro c hc; omega

theorem inv_of_loaded {F : List (List Int)} {N : Nat} {st : St} (hf : FOK F N) (hl : LoadInv F N st F.length)
    (hv : st.vals = Array.replicate (N + 1) UNDEF) (hlv : st.levels.size = N + 1)
    (ht : st.trail = #[]) (htl : st.trailLim = #[]) (hn : st.nVars = N) (ho : st.nOrig = F.length) :
    Inv F st 0 := by
  have hval : ∀ v, v ≤ N → valAt st v = UNDEF := by
    intro v hv'; unfold valAt; rw [hv, get!_eq, Array.getElem?_replicate]
    have : v < N + 1 := by omega
    simp [this]
  have hvr : ∀ v, valAt st v ≤ 2 := by
    intro v; unfold valAt; rw [hv, get!_eq, Array.getElem?_replicate]; split <;> simp [UNDEF]
  have hproc : ∀ w, ¬ Proc st 0 w := by rintro w ⟨i, hi, _⟩; omega
  refine { nOrig := ho, csize := by rw [hl.clauses]; simp
           perm := ?_, fok := hn ▸ hf, vsize := by rw [hv, hn]; simp, vrange := hvr, lsize := by rw [hlv, hn]
           wsize := by rw [hl.wsize, hn], bsize := by rw [hl.bsize, hn]
           tnodup := by rw [ht]; exact List.nodup_nil
           tmem := ?_, limSorted := ?_, limLe := ?_, kLe := Nat.zero_le _, tl := ?_, lvlLe := ?_
           wsound := fun l c hc _ => (hl.ws l c hc).2
           wnodup := fun l => (List.filter_sublist).nodup (hl.wn l)
           wattach := fun c hc h3 => hl.wa c hc hc h3
           wsem := fun c _ _ => ⟨fun _ hp => absurd hp (hproc _), fun _ hp => absurd hp (hproc _)⟩
           battach := fun c hc h2 => hl.ba c hc hc h2
           bsem := fun c _ _ => ⟨fun _ hp => absurd hp (hproc _), fun _ hp => absurd hp (hproc _)⟩ }
  · intro c hc; rw [cl_of_clauses hl.clauses hc]
  · intro v; rw [ht, hn]
    constructor
    · intro hm; simp at hm
    · rintro ⟨a, b⟩; exact absurd (hval v a) b
  · intro j1 j2 _ hj; rw [htl] at hj; simp at hj
  · intro j hj; rw [htl] at hj; simp at hj
  · intro i j hi; rw [ht] at hi; simp at hi
  · intro i hi; rw [ht] at hi; simp at hi

/-! ### pure literals and unit clauses -/

theorem foldAssign_spec {F k} : ∀ (ps : List (Nat × Bool)) (st : St), Inv F st k →
    Inv F (ps.foldl (fun st (p : Nat × Bool) => if st.vals[p.1]! == UNDEF then assign st p.1 p.2 (-1) else st) st) k ∧
    Ext st (ps.foldl (fun st (p : Nat × Bool) => if st.vals[p.1]! == UNDEF then assign st p.1 p.2 (-1) else st) st) ∧
    (ps.foldl (fun st (p : Nat × Bool) => if st.vals[p.1]! == UNDEF then assign st p.1 p.2 (-1) else st) st).propHead = st.propHead := by
  intro ps
  induction ps with
  | nil => intro st h; exact ⟨h, Ext.refl _, rfl⟩
  | cons p t ih =>
    intro st h
    simp only [List.foldl_cons]
    split
    · rename_i hu
      have hu' : valAt st p.1 = UNDEF := by simpa [valAt] using hu
      obtain ⟨a, b, c⟩ := ih _ (inv_assign h hu' p.2 (-1))
      exact ⟨a, (ext_assign h hu' _ _).trans b, c⟩
    · exact ih _ h

theorem loadUnits_spec {F k} : ∀ (us : List (Int × Nat)) (st st' : St), Inv F st k → loadUnits us st = some st' →
    Inv F st' k ∧ Ext st st' ∧ st'.propHead = st.propHead ∧ ∀ e ∈ us, IsTrue st' e.1 := by
  intro us
  induction us with
  | nil => intro st st' h hs; simp only [loadUnits, Option.some.injEq] at hs; subst hs
           exact ⟨h, Ext.refl _, rfl, by simp⟩
  | cons e t ih =>
    intro st st' h hs
    obtain ⟨lit, idx⟩ := e
    unfold loadUnits at hs
    split at hs
    · rename_i hu
      have hu' : valAt st lit.natAbs = UNDEF := by simpa [valAt] using hu
      obtain ⟨a, b, c, d⟩ := ih _ _ (inv_assign h hu' _ _) hs
      refine ⟨a, (ext_assign h hu' _ _).trans b, c, ?_⟩
      intro e he
      rcases List.mem_cons.1 he with rfl | he
      · exact b.isTrue (isTrue_assign h hu' _)
      · exact d e he
    · rename_i hu
      split at hs
      · cases hs
      · rename_i hne
        obtain ⟨a, b, c, d⟩ := ih _ _ h hs
        refine ⟨a, b, c, ?_⟩
        intro e he
        rcases List.mem_cons.1 he with rfl | he
        · apply b.isTrue
          unfold IsTrue
          rw [litValue_def]
          have hu' : ¬ valAt st lit.natAbs = UNDEF := by simpa [valAt] using hu
          simp only [hu', if_false, Option.some.injEq]
          have : ((st.vals[lit.natAbs]! == 1) != decide (0 < lit)) = false := by simpa using hne
          simpa [valAt] using this
        · exact d e he

/-! ### the whole of `solve` -/

theorem outGood_empty {F : List (List Int)} {as : List Int} (hne : ∀ c ∈ F, c ≠ []) (has : as = [])
    (h0 : countVars F as = 0) (P : Params) (L : Loop) (fuel : Nat) : OutGood F as P (mkOut L .OPTIMAL (some []) none fuel) := by
  refine ⟨?_, ?_, fun hs => by simp [mkOut] at hs, fun _ => by simp [mkOut], fun hs => by simp [mkOut] at hs, Or.inl rfl,
    by simp [mkOut]⟩
  · intro m hm
    simp only [mkOut, Option.some.injEq] at hm
    subst hm
    refine ⟨?_, ?_, ?_⟩
    · intro c hc
      obtain ⟨l, t, rfl⟩ := List.exists_cons_of_ne_nil (hne c hc)
      exact ⟨l, List.mem_cons_self, by simp [List.lookup]⟩
    · intro a ha; rw [has] at ha; cases ha
    · intro v hv1 hv2; omega
  · intro ms hms; simp [mkOut] at hms

theorem stored_initSt (F : List (List Int)) (as : List Int) (N : Nat) : stored (initSt F as N) = F := by
  unfold stored initSt
  simp only [List.map_map]
  induction F with
  | nil => rfl
  | cons c t ih => simp only [List.map_cons, Function.comp, ih]

theorem einv_initSt (F : List (List Int)) (as : List Int) (N : Nat) : EInv F (initSt F as N) #[] :=
  ⟨fun _ j hj => by simp [initSt] at hj, fun _ C hC => by simp at hC⟩

theorem lperm_loadClauses : ∀ (rest : List (List Int)) (i : Nat) (st : St) (units : List (Int × Nat)) (st' : St)
    (us : List (Int × Nat)), loadClauses rest i st units = some (st', us) → LPerm st st' := by
  intro rest
  induction rest with
  | nil =>
    intro i st units st' us hs
    simp only [loadClauses, Option.some.injEq, Prod.mk.injEq] at hs
    obtain ⟨rfl, _⟩ := hs; exact LPerm.refl _
  | cons c rest ih =>
    intro i st units st' us hs
    unfold loadClauses at hs
    match c, hs with
    | [], hs => simp at hs
    | [a], hs => simp only at hs; exact ih _ _ _ _ _ hs
    | [a, b], hs =>
      simp only at hs
      exact LPerm.trans (lperm_of_eq (st' := bigAdd st a b i) rfl rfl) (ih _ _ _ _ _ hs)
    | a :: b :: d :: t, hs =>
      simp only at hs
      exact LPerm.trans (lperm_of_eq (st' := addWatch (addWatch st a i) b i) rfl rfl) (ih _ _ _ _ _ hs)

theorem lperm_foldAssign : ∀ (ps : List (Nat × Bool)) (st : St),
    LPerm st (ps.foldl (fun st (p : Nat × Bool) => if st.vals[p.1]! == UNDEF then assign st p.1 p.2 (-1) else st) st) := by
  intro ps
  induction ps with
  | nil => intro st; exact LPerm.refl _
  | cons p t ih =>
    intro st
    simp only [List.foldl_cons]
    split
    · exact (lperm_assign _ _ _ _).trans (ih _)
    · exact ih st

theorem lperm_loadUnits : ∀ (us : List (Int × Nat)) (st st' : St), loadUnits us st = some st' → LPerm st st' := by
  intro us
  induction us with
  | nil => intro st st' hs; simp only [loadUnits, Option.some.injEq] at hs; subst hs; exact LPerm.refl _
  | cons e t ih =>
    intro st st' hs
    obtain ⟨lit, idx⟩ := e
    unfold loadUnits at hs
    split at hs
    · exact (lperm_assign _ _ _ _).trans (ih _ _ hs)
    · split at hs
      · cases hs
      · exact ih _ _ hs

theorem guardDistinct_good {F as P} (n : Nat) (o : Out) (h : OutGood F as P o) : OutGood F as P (guardDistinct n o) := by
  unfold guardDistinct
  split
  · split
    · exact h
    · refine ⟨?_, ?_, ?_, ?_, ?_, Or.inr (Or.inr (Or.inr rfl)), by show ("GUARD" : String) ≠ "FUEL"; decide⟩
      · intro m hm; cases hm
      · intro ms hms; cases hms
      · intro hs; cases hs
      · intro hs; cases hs
      · intro hs; cases hs
  · exact h

theorem guardDistinct_distinct (n : Nat) (o : Out) (ms : List (List (Nat × Bool)))
    (h : (guardDistinct n o).solutions = some ms) : Solvor.Sat.distinctB (List.range' 1 n) ms = true := by
  unfold guardDistinct at h
  split at h
  · rename_i ms' hms'
    split at h
    · rename_i hd
      rw [hms'] at h
      cases h
      exact hd
    · cases h
  · rename_i hn; rw [hn] at h; cases h

theorem finishInf_empty_solutions (usePure : Bool) (st : St) (fuel : Nat) :
    (finishInf usePure (emptyLoop st) fuel).solutions = none := by
  unfold finishInf
  have : ¬ (emptyLoop st).all.size > 0 := by simp [emptyLoop]
  simp only [this, if_false]
  split <;> rfl

/-- whatever the input: an enumeration returned by the mirror has passed the distinctness check -/
theorem solve_distinct (F : List (List Int)) (as : List Int) (P : Params) (ms : List (List (Nat × Bool)))
    (h : (solve F as P).solutions = some ms) : Solvor.Sat.distinctB (List.range' 1 (countVars F as)) ms = true := by
  unfold solve at h
  split at h
  · cases h
  · simp only at h
    split at h
    · cases h
    · split at h
      · rw [finishInf_empty_solutions] at h; cases h
      · split at h
        · rw [finishInf_empty_solutions] at h; cases h
        · generalize propagate _ = pr at h
          obtain ⟨st4, c0⟩ := pr
          simp only at h
          split at h
          · rw [finishInf_empty_solutions] at h; cases h
          · exact guardDistinct_distinct _ _ _ h

theorem solve_good (F : List (List Int)) (as : List Int) (P : Params)
    (hnd : ∀ c ∈ F, c.Nodup) (hnz : ∀ c ∈ F, ∀ l ∈ c, l ≠ 0) (hne : ∀ c ∈ F, c ≠ []) (ha0 : ∀ a ∈ as, a ≠ 0) :
    OutGood F as P (solve F as P) := by
  unfold solve
  split
  · rename_i he
    simp only [Bool.and_eq_true, List.isEmpty_iff] at he
    exact outGood_empty hne he.2 (by rw [he.1, he.2]; rfl) _ _ _
  · simp only
    split
    · rename_i h0
      have h0' : countVars F as = 0 := by simpa using h0
      have has : as = [] := by
        cases as with
        | nil => rfl
        | cons a t =>
          have := countVars_asm F (a :: t) a List.mem_cons_self
          have := ha0 a List.mem_cons_self
          omega
      exact outGood_empty hne has h0' _ _ _
    · have hf : FOK F (countVars F as) := ⟨hnd, hnz, fun c hc l hl => countVars_clause F as c hc l hl⟩
      generalize hN : countVars F as = N at hf
      have haN : ∀ a ∈ as, a ≠ 0 ∧ a.natAbs ≤ N := fun a ha => ⟨ha0 a ha, hN ▸ countVars_asm F as a ha⟩
      split
      · refine finishInf_good _ _ _ (by intro m hm; simp [emptyLoop] at hm) ?_ ?_ (fun _ => rfl) rfl
        · intro σ
          have : stored { initSt F as N with propagations := 0 } = stored (initSt F as N) := rfl
          show Solvor.Sat.cnfTrue σ (stored { initSt F as N with propagations := 0 }) = _
          rw [this, stored_initSt]
        · exact (einv_initSt F as N).lperm (lperm_of_eq rfl rfl)
      · rename_i st1 units hload
        obtain ⟨hl1, hu1, e1, e2, e3, e4, e5, e6, e7, e8⟩ :=
          loadClauses_spec hf F [] (initSt F as N) [] st1 units (by simp) (initSt_loadInv F as N)
            (fun idx _ hidx => by simp at hidx) hload
        have hinv1 : Inv F st1 0 :=
          inv_of_loaded hf hl1 (by rw [e1]; rfl) (by rw [e2]; simp [initSt]) (by rw [e3]; rfl) (by rw [e4]; rfl)
            (by rw [e6]; rfl) (by rw [e7]; simp [initSt])
        have hp1 : st1.propHead = 0 := by rw [e5]; rfl
        have hlim1 : st1.trailLim = #[] := by rw [e4]; rfl
        have hasm1 : st1.assumptions = as := by rw [e8]; rfl
        have hnv1 : st1.nVars = N := by rw [e6]; rfl
        have hlp1 : LPerm (initSt F as N) st1 := lperm_loadClauses _ _ _ _ _ _ hload
        obtain ⟨hH1, hunz⟩ := h_loadClauses F 0 (initSt F as N) [] st1 units (hinv_initSt F as N ha0)
          hnz (by intro e he; cases he) (by simp [initSt]) hload
        -- pure literals
        generalize hst2 : (if P.solutionLimit ≤ 1 then pureLits st1 F as else st1) = st2
        have h2 : Inv F st2 0 ∧ Ext st1 st2 ∧ st2.propHead = st1.propHead ∧ HInv st2 ∧ LPerm st1 st2 := by
          subst hst2
          split
          · unfold pureLits
            obtain ⟨a, b, c⟩ := foldAssign_spec (pureList st1.nVars F as) _ hinv1
            exact ⟨a, b, c, h_foldAssign _ _ hH1 (pureList_pos _ _ _), lperm_foldAssign _ _⟩
          · exact ⟨hinv1, Ext.refl _, rfl, hH1, LPerm.refl _⟩
        obtain ⟨hinv2, ext2, hp2, hH2, hlp2⟩ := h2
        have hE2 : EInv F st2 #[] := (einv_initSt F as N).lperm (hlp1.trans hlp2)
        have hnb2 : st2.nBlocking = 0 := by rw [(hlp1.trans hlp2).nb]; rfl
        split
        · refine finishInf_good _ _ _ (by intro m hm; simp [emptyLoop] at hm) ?_ ?_ (fun _ => hnb2) ?_
          · exact cnfTrue_stored (inv_frame hinv2 rfl rfl rfl rfl rfl rfl rfl rfl rfl)
          · exact hE2.lperm (lperm_of_eq rfl rfl)
          · show st2.assumptions = as
            rw [ext2.asm, hasm1]
        · rename_i st3 hunits
          have hlp3 := lperm_loadUnits _ _ _ hunits
          obtain ⟨hinv3, ext3, hp3, ht3⟩ := loadUnits_spec _ _ _ hinv2 hunits
          have hH3 := h_loadUnits _ _ _ hH2 hunz hunits
          have ext13 := ext2.trans ext3
          have hp3' : st3.propHead = 0 := by rw [hp3, hp2, hp1]
          have hlim3 : st3.trailLim.size = 0 := by rw [ext13.lim, hlim1]; rfl
          -- unit clauses are true at level 0
          have hzu : ∀ c, c < F.length → (cl st3 c).size = 1 → True0 st3 (cl st3 c)[0]! := by
            intro c hc h1
            have hsz1 : (cl st1 c).size = 1 := by rw [← ext13.csz]; exact h1
            rw [ext13.bin c (by omega)]
            have hcl := cl_of_clauses hl1.clauses hc
            rw [hcl] at hsz1
            have hlen : F[c].length = 1 := by simpa using hsz1
            obtain ⟨a, hFa⟩ := List.length_eq_one_iff.1 hlen
            have h0 : (cl st1 c)[0]! = a := by rw [hcl, hFa]; rfl
            rw [h0]
            have ht := ht3 _ (hu1 c hc a hFa)
            refine ⟨ht, ?_⟩
            have hr : a.natAbs ≤ st3.nVars := by
              rw [ext13.nV, hnv1]; exact hf.rng _ (List.getElem_mem hc) a (by rw [hFa]; simp)
            have := hinv3.lvlLeOf hr ht.assigned
            omega
          generalize hpr : propagate st3 = pr
          obtain ⟨st4, c0⟩ := pr
          have hinv3' : Inv F st3 st3.propHead := by rw [hp3']; exact hinv3
          obtain ⟨hinv4, ext4, r4⟩ := propagate_spec hinv3' hpr
          have hH4 := h_propagate hinv3' hH3
          have hlp4 := lperm_propagate st3
          rw [hpr] at hH4 hlp4
          have hlpAll : LPerm (initSt F as N) st4 := ((hlp1.trans hlp2).trans hlp3).trans hlp4
          have hE4 : EInv F st4 #[] := (einv_initSt F as N).lperm hlpAll
          have hnb4 : st4.nBlocking = 0 := by rw [hlpAll.nb]; rfl
          have hasm4 : st4.assumptions = as := by rw [ext4.asm, ext13.asm, hasm1]
          simp only
          split
          · exact finishInf_good _ _ _ (by intro m hm; simp [emptyLoop] at hm) (cnfTrue_stored hinv4) hE4
              (fun _ => hnb4) hasm4
          · rename_i hnc
            have hl4 : st4.trailLim.size = 0 := by rw [ext4.lim]; exact hlim3
            have hcnt4 := propagate_cnt st3
            have hnf4 := propagate_nofuel hinv3' hH3
            rw [hpr] at hcnt4 hnf4
            simp only at hcnt4 hnf4
            have hnv4 : st4.nVars = N := by rw [ext4.nV, ext13.nV, hnv1]
            apply guardDistinct_good
            apply run_spec P st4.decisions
            rotate_left
            · show loopFuel P.maxConflicts P.solutionLimit st4.nVars ≤ 0 + loopFuel P.maxConflicts P.solutionLimit N
              rw [hnv4]; omega
            refine ⟨by intro m hm; simp [emptyLoop] at hm, hasm4, ?_, hne, ?_, hH4, hE4, fun _ => hnb4, ?_, hnf4,
              by simp [emptyLoop], ?_, by simp [emptyLoop], by simp [emptyLoop], ?_, ?_⟩
            rotate_left 3
            · show 0 + pend c0 ≤ st4.conflicts
              omega
            · show st4.trailLim.size + st4.decisions ≤ st4.decisions
              omega
            · refine Or.inr ?_
              show 0 + st4.trailLim.size ≤ _
              omega
            · intro a ha
              show a ≠ 0 ∧ a.natAbs ≤ st4.nVars
              rw [ext4.nV, ext13.nV, hnv1]; exact haN a ha
            · show st4.nVars = countVars F as
              rw [ext4.nV, ext13.nV, hnv1, hN]
            · show After F st4 c0
              cases c0 with
              | ok =>
                obtain ⟨a, b, t⟩ := r4 rfl
                refine ⟨a, b, ?_, ?_⟩
                · intro c hc h1
                  have hsz3 : (cl st3 c).size = 1 := by rw [← ext4.csz]; exact h1
                  rw [ext4.bin c (by omega)]
                  obtain ⟨x, y⟩ := hzu c hc hsz3
                  exact ⟨ext4.isTrue x, by rw [ext4.lvl x.assigned]; exact y⟩
                · intro x hx
                  have hx3 : x ∈ st3.assumptions := ext4.asm ▸ hx
                  have hx' : x ∈ as := by rw [← hasm1, ← ext13.asm]; exact hx3
                  have ht := t hlim3 x hx3
                  refine ⟨ht, ?_⟩
                  have hr : x.natAbs ≤ st4.nVars := by rw [ext4.nV, ext13.nV, hnv1]; exact (haN x hx').2
                  have := a.lvlLeOf hr ht.assigned
                  have hl4 : st4.trailLim.size = 0 := by rw [ext4.lim]; exact hlim3
                  omega
              | conflict idx => exact absurd rfl (hnc idx)
              | assumption => exact ⟨_, hinv4⟩
              | fuel => trivial

end Solvor.Sat.Cdcl
