import Solvor.Sat.CdclLoop
import Solvor.Sat.CdclH3
import Solvor.Sat.CdclE
import Solvor.Sat.CdclFuel
/-! Sat.CdclMain: the loop invariant through `step` / `run`, its establishment by the set-up code of
`solve`, and the resulting statement about every assignment `Cdcl.solve` returns. -/
namespace Solvor.Sat.Cdcl

theorem pend_le_one (r : PRes) : pend r ≤ 1 := by cases r <;> simp [pend]

/-- the arithmetic of the "conflict budget used up" regime: once `conflicts ≥ max_conflicts` (left disjunct
false) the sum `learned + decision level` no longer grows -/
theorem reg_step {mc sl n LT a d D0 T lvl c2 c4 p : Nat} (hlt : LT ≤ c2) (hc4 : c4 = c2 + p) (hp : p ≤ 1)
    (ha : a ≤ sl) (hd : d ≤ D0 + (LT + a) * (n + 2) + T) (hT : T ≤ n + 1) (hlvl : lvl + D0 ≤ d)
    (hreg : c2 < mc ∨ LT + lvl ≤ mc + loopDmax mc sl n) :
    c4 < mc ∨ LT + lvl ≤ mc + loopDmax mc sl n := by
  by_cases h4 : c4 < mc
  · exact Or.inl h4
  · refine Or.inr ?_
    rcases hreg with h2 | h2
    · have hLT : LT + a ≤ mc + sl := by omega
      have := Nat.mul_le_mul_right (n + 2) hLT
      unfold loopDmax
      omega
    · exact h2

theorem d_step {X LT a n d D0 T T' : Nat} (hX : X = LT + a + 1) (hd : d ≤ D0 + (LT + a) * (n + 2) + T)
    (hT : T ≤ n + 1) : d ≤ D0 + X * (n + 2) + T' := by
  have : (LT + a + 1) * (n + 2) = (LT + a) * (n + 2) + (n + 2) := Nat.succ_mul _ _
  subst hX
  omega

theorem iters_lt {mc sl n LT a d D0 T it lvl c p : Nat} (hit : it + D0 = d + LT + a) (hlt : LT + p ≤ c) (ha : a ≤ sl)
    (hd : d ≤ D0 + (LT + a) * (n + 2) + T) (hT : T ≤ n + 1) (hreg : c < mc ∨ LT + lvl ≤ mc + loopDmax mc sl n) :
    it < loopFuel mc sl n := by
  have hLT : LT + a ≤ mc + loopDmax mc sl n + sl := by rcases hreg with h | h <;> omega
  have h1 := Nat.mul_le_mul_right (n + 3) hLT
  have h2 : (LT + a) * (n + 3) = (LT + a) * (n + 2) + (LT + a) := Nat.mul_succ _ _
  unfold loopFuel
  omega

/-- the loop invariant; the fields `c_*` count: iterations = decisions + learned clauses + solutions (`D0` =
the decision counter before the loop), every learned clause was paid for by a conflict, and the bounds on
decisions / decision level that make `loopFuel` iterations enough -/
structure LoopInv (F : List (List Int)) (as : List Int) (P : Params) (D0 : Nat) (L : Loop) : Prop where
  good : ∀ m ∈ L.all.toList, GoodSol F as m
  asm : L.st.assumptions = as
  aok : ∀ a ∈ as, a ≠ 0 ∧ a.natAbs ≤ L.st.nVars
  ne : ∀ c ∈ F, c ≠ []
  nv : L.st.nVars = countVars F as
  hinv : HInv L.st
  einv : EInv F L.st L.ever
  noblk : L.all.size = 0 → L.st.nBlocking = 0
  after : After F L.st L.conflict
  nf : L.conflict ≠ .fuel
  c_it : L.iters + D0 = L.st.decisions + L.learnedTotal + L.all.size
  c_lt : L.learnedTotal + pend L.conflict ≤ L.st.conflicts
  c_a : L.all.size ≤ P.solutionLimit
  c_d : L.st.decisions ≤ D0 + (L.learnedTotal + L.all.size) * (L.st.nVars + 2) + L.st.trail.size
  c_lvl : L.st.trailLim.size + D0 ≤ L.st.decisions
  c_reg : L.st.conflicts < P.maxConflicts ∨
    L.learnedTotal + L.st.trailLim.size ≤ P.maxConflicts + loopDmax P.maxConflicts P.solutionLimit L.st.nVars

/-- every assignment in the result is good, INFEASIBLE is only reported for an unsatisfiable input,
OPTIMAL comes with an assignment, MAX_ITER only with an exhausted budget -/
def OutGood (F : List (List Int)) (as : List Int) (P : Params) (o : Out) : Prop :=
  (∀ m, o.solution = some m → GoodSol F as m) ∧ (∀ ms, o.solutions = some ms → ∀ m ∈ ms, GoodSol F as m) ∧
  (o.status = .INFEASIBLE → ¬ ∃ σ, Solvor.Sat.Models σ F as) ∧
  (o.status = .OPTIMAL → o.solution.isSome = true) ∧
  (o.status = .MAX_ITER → P.maxConflicts ≤ o.conflicts ∨ P.maxRestarts ≤ o.restarts) ∧
  (o.status = .OPTIMAL ∨ o.status = .INFEASIBLE ∨ o.status = .MAX_ITER ∨ o.status = .UNBOUNDED) ∧
  o.note ≠ "FUEL"

theorem finish_good {F as P} (L : Loop) (status : Gen.Status) (fuel : Nat)
    (hst : (status = .OPTIMAL ∧ L.all.size > 0) ∨
      (status = .MAX_ITER ∧ (P.maxConflicts ≤ L.st.conflicts ∨ P.maxRestarts ≤ L.st.restarts)))
    (h : ∀ m ∈ L.all.toList, GoodSol F as m) : OutGood F as P (finish L status fuel) := by
  have hne : status ≠ .INFEASIBLE := by rcases hst with ⟨h1, _⟩ | ⟨h1, _⟩ <;> rw [h1] <;> decide
  have hset : status = .OPTIMAL ∨ status = .INFEASIBLE ∨ status = .MAX_ITER ∨ status = .UNBOUNDED := by
    rcases hst with ⟨h1, _⟩ | ⟨h1, _⟩
    · exact Or.inl h1
    · exact Or.inr (Or.inr (Or.inl h1))
  have hmax : status = .MAX_ITER → P.maxConflicts ≤ L.st.conflicts ∨ P.maxRestarts ≤ L.st.restarts := by
    intro hm
    rcases hst with ⟨h1, _⟩ | ⟨_, h2⟩
    · rw [h1] at hm; cases hm
    · exact h2
  unfold finish
  split
  · rename_i hpos
    refine ⟨?_, ?_, fun hs => absurd hs hne, fun _ => by simp [mkOut], hmax, hset, by simp [mkOut]⟩
    · intro m hm
      simp only [mkOut, Option.some.injEq] at hm
      subst hm
      exact h _ ((mem_toList_iff_get! _ _).2 ⟨0, hpos, rfl⟩)
    · intro ms hms m hm
      simp only [mkOut, Option.some.injEq] at hms
      subst hms; exact h m hm
  · rename_i hz
    refine ⟨?_, ?_, fun hs => absurd hs hne, ?_, hmax, hset, by simp [mkOut]⟩
    · intro m hm; simp [mkOut] at hm
    · intro ms hms; simp [mkOut] at hms
    · intro ho
      rcases hst with ⟨_, h2⟩ | ⟨h1, _⟩
      · exact absurd h2 hz
      · have : (mkOut L status none none fuel).status = status := rfl
        rw [this, h1] at ho; cases ho

theorem giveUp_good {F as P} (L : Loop) (fuel : Nat) (note : String) (hnote : note ≠ "FUEL") :
    OutGood F as P (giveUp L fuel note) := by
  unfold giveUp; refine ⟨?_, ?_, ?_, ?_, ?_, Or.inr (Or.inr (Or.inr rfl)), hnote⟩
  · intro m hm; simp [mkOut] at hm
  · intro ms hms; simp [mkOut] at hms
  · intro hs; simp [mkOut] at hs
  · intro hs; simp [mkOut] at hs
  · intro hs; simp [mkOut] at hs

/-- the certified "no (more) solutions" exit -/
theorem finishInf_good {F as P} (usePure : Bool) (L : Loop) (fuel : Nat)
    (h : ∀ m ∈ L.all.toList, GoodSol F as m) (hcnf : ∀ σ, Solvor.Sat.cnfTrue σ (stored L.st) = Solvor.Sat.cnfTrue σ F)
    (hE : EInv F L.st L.ever) (hnb : L.all.size = 0 → L.st.nBlocking = 0) (hasm : L.st.assumptions = as) :
    OutGood F as P (finishInf usePure L fuel) := by
  unfold finishInf
  split
  · rename_i hpos
    refine ⟨?_, ?_, fun hs => by simp [mkOut] at hs, fun _ => by simp [mkOut], fun hs => by simp [mkOut] at hs, Or.inl rfl,
      by simp [mkOut]⟩
    · intro m hm
      simp only [mkOut, Option.some.injEq] at hm
      subst hm
      exact h _ ((mem_toList_iff_get! _ _).2 ⟨0, hpos, rfl⟩)
    · intro ms hms m hm
      simp only [mkOut, Option.some.injEq] at hms
      subst hms; exact h m hm
  · rename_i hz
    split
    · rename_i hcert
      refine ⟨?_, ?_, fun _ => certify_unsat hcnf hE (hnb (by omega)) hasm hcert, fun hs => by simp [mkOut] at hs,
        fun hs => by simp [mkOut] at hs, Or.inr (Or.inl rfl), by simp [mkOut]⟩
      · intro m hm; simp [mkOut] at hm
      · intro ms hms; simp [mkOut] at hms
    · exact giveUp_good _ _ _ (by decide)

/-- what one iteration must deliver -/
def StepOK (F : List (List Int)) (as : List Int) (P : Params) (D0 : Nat) (L : Loop) : Out ⊕ Loop → Prop
  | .inl o => OutGood F as P o
  | .inr L' => LoopInv F as P D0 L' ∧ L'.iters = L.iters + 1

theorem step_spec {F as} (P : Params) (D0 : Nat) (fuel : Nat) (L : Loop) (h : LoopInv F as P D0 L) (r : Out ⊕ Loop)
    (hs : step P fuel L = r) : StepOK F as P D0 L r := by
  obtain ⟨hgood, hasm, haok, hne, hnv, hH, hE, hnoblk, hafter, hnf, cit, clt, ca, cd, clvl, creg⟩ := h
  rw [step_eq_ref] at hs
  unfold stepRef at hs
  simp only at hs
  -- what the state after the next `propagate` has to satisfy
  have close : ∀ (st2 : St) (all : Array (List (Nat × Bool))) (ever : Array (Array Int)) (LT it : Nat),
      (∀ m ∈ all.toList, GoodSol F as m) → Ready F st2 → HInv st2 →
      st2.assumptions = as → st2.nVars = L.st.nVars → EInv F st2 ever → (all.size = 0 → st2.nBlocking = 0) →
      it + D0 = st2.decisions + LT + all.size → LT ≤ st2.conflicts → all.size ≤ P.solutionLimit →
      st2.decisions ≤ D0 + (LT + all.size) * (st2.nVars + 2) + st2.trail.size →
      st2.trailLim.size + D0 ≤ st2.decisions →
      (st2.conflicts < P.maxConflicts ∨
        LT + st2.trailLim.size ≤ P.maxConflicts + loopDmax P.maxConflicts P.solutionLimit st2.nVars) →
      ∀ (st4 : St) (c : PRes), propagate st2 = (st4, c) →
      (∀ L' : Loop, L'.st = st4 → L'.conflict = c → L'.all = all → L'.ever = ever → L'.learnedTotal = LT →
        L'.iters = it → LoopInv F as P D0 L') := by
    intro st2 all ever LT it hall hr hH2 ha2 hn2 hE2 hb2 k1 k2 k3 k4 k5 k6 st4 c hp L' e1 e2 e3 e4 e5 e6
    have haft := propagate_after hr hp
    obtain ⟨ha4, hn4⟩ := propagate_asm hp hr.1
    have hH4 := h_propagate hr.1 hH2
    have hlp := lperm_propagate st2
    have hcnt := propagate_cnt st2
    have hnf4 := propagate_nofuel hr.1 hH2
    obtain ⟨_, ext, _⟩ := propagate_spec hr.1 hp
    rw [hp] at hH4 hlp hcnt hnf4
    obtain ⟨q1, _, q3⟩ := hcnt
    simp only at q1 q3 hnf4
    have hT2 := hr.1.trailLe
    have hp1 := pend_le_one c
    have hts := ext.tsize
    have hreg := reg_step k2 rfl hp1 k3 k4 hT2 k5 k6
    refine ⟨by rw [e3]; exact hall, by rw [e1, ha4, ha2], fun a ha => by rw [e1, hn4, hn2]; exact haok a ha, hne,
      by rw [e1, hn4, hn2]; exact hnv, by rw [e1]; exact hH4, by rw [e1, e4]; exact hE2.lperm hlp,
      by rw [e1, e3]; intro hz; rw [hlp.nb]; exact hb2 hz, by rw [e1, e2]; exact haft,
      by rw [e2]; exact hnf4, ?_, ?_, by rw [e3]; exact k3, ?_, ?_, ?_⟩
    · rw [e6, e1, e5, e3, q1]; exact k1
    · rw [e5, e2, e1, q3]; omega
    · rw [e1, e5, e3, q1, hn4]; omega
    · rw [e1, ext.lim, q1]; exact k5
    · rw [e1, e5, ext.lim, q3, hn4]; exact hreg
  have hTle : ∀ k, Inv F L.st k → L.st.trail.size ≤ L.st.nVars + 1 := fun k hk => hk.trailLe
  cases hc : L.conflict with
  | fuel => exact absurd hc hnf
  | assumption =>
    rw [hc] at hs hafter; simp only at hs; subst hs
    obtain ⟨k, hinv⟩ := hafter
    exact finishInf_good _ _ _ hgood (cnfTrue_stored hinv) hE hnoblk hasm
  | conflict cidx0 =>
    rw [hc] at hs hafter clt
    simp only at hs
    have clt' : L.learnedTotal + 1 ≤ L.st.conflicts := clt
    obtain ⟨⟨k, hinv⟩, hz⟩ := hafter
    have hT := hTle k hinv
    split at hs
    · subst hs; exact finishInf_good _ _ _ hgood (cnfTrue_stored hinv) hE hnoblk hasm
    · -- analyze
      generalize analyze L.st cidx0 = A at hs
      split at hs
      · subst hs; exact giveUp_good _ _ _ (by decide)
      · rename_i hok
        have hAok : analysisOk A = true := by simpa using hok
        unfold analysisOk at hAok
        simp only [Bool.and_eq_true, List.all_eq_true, decide_eq_true_eq] at hAok
        generalize hst1 : (if (L.st.trailLim.size == 0) = true then L.st else applyBumps L.st A.bumps.toList) = st1 at hs
        have hcore : CoreEq L.st st1 ∧ st1.watch = L.st.watch ∧ st1.big = L.st.big ∧ HInv st1 ∧ LPerm L.st st1 := by
          subst hst1
          split
          · exact ⟨CoreEq.refl _, rfl, rfl, hH, LPerm.refl _⟩
          · obtain ⟨e, w, b, _, _⟩ := applyBumps_core A.bumps.toList L.st
            exact ⟨e, w, b, hinv_applyBumps _ _ hH hAok.1, lperm_applyBumps _ _⟩
        obtain ⟨e1, w1, b1, hH1, hlp1⟩ := hcore
        have hsh1 : Sh L.st st1 := by
          subst hst1
          split
          · exact Sh.refl _
          · exact sh_applyBumps _ _
        have hinv1 : Inv F st1 k :=
          inv_frame hinv e1.nVars e1.nOrig e1.clauses e1.vals e1.levels e1.trail e1.trailLim w1 b1
        have hz1 : Z F st1 := e1.Z hz
        have hasm1 : st1.assumptions = as := by rw [e1.asm]; exact hasm
        have hnv1 : st1.nVars = L.st.nVars := e1.nVars
        have hE1 : EInv F st1 L.ever := hE.lperm hlp1
        have hnb1 : L.all.size = 0 → st1.nBlocking = 0 := fun hz' => by rw [hlp1.nb]; exact hnoblk hz'
        split at hs
        · subst hs; exact finishInf_good _ _ _ hgood (cnfTrue_stored hinv1) hE1 hnb1 hasm1
        · rename_i lc hlc
          split at hs
          · subst hs; exact giveUp_good _ _ _ (by decide)
          · rename_i hguard
            split at hs
            · subst hs; exact giveUp_good _ _ _ (by decide)
            · rename_i hchain
              have hg : uipOk st1 lc A.btLevel = true := by simpa using hguard
              have hch : chainOk st1 cidx0 A.steps lc = true := by simpa using hchain
              obtain ⟨hr, ha2, hn2⟩ := learnAndJump_ready hinv1 hz1 hg A.lbd
              have hH2 : HInv (learnAndJump st1 lc A.btLevel A.lbd) := by
                have hlcnz : ∀ l ∈ lc.toList, l ≠ 0 := by
                  have := hAok.2
                  rw [hlc] at this
                  simp only [List.all_eq_true, bne_iff_ne] at this
                  exact this
                have hg' := hg
                unfold uipOk at hg'
                simp only [Bool.and_eq_true, decide_eq_true_eq, bne_iff_ne, beq_iff_eq] at hg'
                obtain ⟨⟨⟨hsz, _⟩, hlvl⟩, hbt⟩ := hg'
                have hvn : (lc[0]!).natAbs ≤ st1.nVars := by
                  apply Classical.byContradiction
                  intro hn
                  rw [get!_of_ge _ _ (by rw [hinv1.lsize]; omega)] at hlvl
                  have : (default : Nat) = 0 := rfl
                  omega
                exact h_learnAndJump hH1 hlcnz hsz hvn _ _
              have hE2 : EInv F (learnAndJump st1 lc A.btLevel A.lbd) (L.ever.push lc) :=
                einv_learnAndJump hE1 lc (fun hb => chainOk_sound hinv1 hE1 hb hch) _ _
              have hnb2 : L.all.size = 0 → (learnAndJump st1 lc A.btLevel A.lbd).nBlocking = 0 :=
                fun hz' => by rw [learnAndJump_nb]; exact hnb1 hz'
              have hbt : A.btLevel < st1.trailLim.size := by
                have hg' := hg
                unfold uipOk at hg'
                simp only [Bool.and_eq_true, decide_eq_true_eq] at hg'
                exact hg'.2
              have hc2 := learnAndJump_cnt st1 lc A.btLevel A.lbd
              generalize learnAndJump st1 lc A.btLevel A.lbd = st2 at hr ha2 hn2 hs hH2 hE2 hnb2 hc2
              obtain ⟨d2, c2, l2⟩ := hc2
              have hd1 := hsh1.dec
              have hcf1 := hsh1.con
              have hl1 : st1.trailLim.size = L.st.trailLim.size := by rw [hsh1.lim]
              split at hs
              · split at hs
                · rename_i hrst
                  subst hs; exact finish_good _ _ _ (Or.inr ⟨rfl, Or.inr hrst⟩) hgood
                · -- restart
                  obtain ⟨hr3, ha3, hn3⟩ := restartSt_ready hr
                  have hH3 := h_restartSt hH2
                  have hE3 := einv_restartSt hE2
                  have hnb3 : L.all.size = 0 → (restartSt st2).nBlocking = 0 :=
                    fun hz' => by rw [restartSt_nb]; exact hnb2 hz'
                  have hc3 := restartSt_cnt st2
                  generalize restartSt st2 = st3 at hr3 ha3 hn3 hs hH3 hE3 hnb3 hc3
                  obtain ⟨d3, c3, l3⟩ := hc3
                  generalize hp : propagate st3 = pr at hs
                  obtain ⟨st4, c⟩ := pr
                  subst hs
                  have hde : st3.decisions = L.st.decisions := by omega
                  refine ⟨close st3 L.all _ (L.learnedTotal + 1) (L.iters + 1) hgood hr3 hH3 (by rw [ha3, ha2, hasm1])
                    (by rw [hn3, hn2, hnv1]) hE3 hnb3 (by omega) (by omega) ca ?_ (by omega) ?_
                    st4 c hp _ rfl rfl rfl rfl rfl rfl, rfl⟩
                  · rw [hn3, hn2, hnv1, hde]; exact d_step (by omega) cd hT
                  · rw [hn3, hn2, hnv1]
                    rcases creg with hq | hq
                    · exact Or.inl (by omega)
                    · exact Or.inr (by omega)
              · generalize hp : propagate st2 = pr at hs
                obtain ⟨st4, c⟩ := pr
                subst hs
                have hde : st2.decisions = L.st.decisions := by omega
                refine ⟨close st2 L.all _ (L.learnedTotal + 1) (L.iters + 1) hgood hr hH2 (by rw [ha2, hasm1])
                  (by rw [hn2, hnv1]) hE2 hnb2 (by omega) (by omega) ca ?_ (by omega) ?_
                  st4 c hp _ rfl rfl rfl rfl rfl rfl, rfl⟩
                · rw [hn2, hnv1, hde]; exact d_step (by omega) cd hT
                · rw [hn2, hnv1]
                  rcases creg with hq | hq
                  · exact Or.inl (by omega)
                  · exact Or.inr (by omega)
  | ok =>
    rw [hc] at hs hafter clt
    simp only at hs
    have clt' : L.learnedTotal ≤ L.st.conflicts := clt
    obtain ⟨hinv, hph, hz⟩ := hafter
    have hT := hTle _ hinv
    generalize hpk : pickVar L.st = pk at hs
    obtain ⟨st1, var⟩ := pk
    unfold pickVar at hpk
    have hsh1 : Sh L.st st1 := by have := sh_pickLoop (L.st.heap.size + 1) L.st; rw [hpk] at this; exact this
    have hd1 := hsh1.dec
    have hcf1 := hsh1.con
    have hl1 : st1.trailLim.size = L.st.trailLim.size := by rw [hsh1.lim]
    have ht1 : st1.trail.size = L.st.trail.size := by rw [hsh1.tr]
    obtain ⟨e1, w1, b1, hv⟩ := pickLoop_spec _ _ _ _ hpk
    obtain ⟨hHx, htot⟩ := h_pickLoop _ _ _ _ hH (Nat.lt_succ_self _) hpk
    have hlp1 : LPerm L.st st1 := by have := lperm_pickLoop (L.st.heap.size + 1) L.st; rw [hpk] at this; exact this
    have hinv1 : Inv F st1 st1.trail.size := by
      rw [e1.trail]; exact inv_frame hinv e1.nVars e1.nOrig e1.clauses e1.vals e1.levels e1.trail e1.trailLim w1 b1
    have hph1 : st1.propHead = st1.trail.size := by rw [e1.propHead, e1.trail]; exact hph
    have hz1 : Z F st1 := e1.Z hz
    have hasm1 : st1.assumptions = as := by rw [e1.asm]; exact hasm
    have haok1 : ∀ a ∈ as, a ≠ 0 ∧ a.natAbs ≤ st1.nVars := by rw [e1.nVars]; exact haok
    have hnv1 : st1.nVars = countVars F as := by rw [e1.nVars]; exact hnv
    have hE1 : EInv F st1 L.ever := hE.lperm hlp1
    simp only at hs
    split at hs
    · -- a solution
      rename_i hvar0
      have hvar0' : var = 0 := by simpa using hvar0
      have hsol : GoodSol F as (readSol st1) := good_readSol hinv1 hz1 hne hasm1 haok1 hnv1 (htot hvar0')
      have hH1 : HInv st1 := by rw [hvar0'] at hHx; exact hHx
      have hgood' : ∀ m ∈ (L.all.push (readSol st1)).toList, GoodSol F as m := by
        intro m hm
        rw [Array.toList_push, List.mem_append] at hm
        rcases hm with hm | hm
        · exact hgood m hm
        · simp at hm; subst hm; exact hsol
      split at hs
      · split at hs
        · subst hs
          refine ⟨?_, ?_, fun hs => by simp [mkOut] at hs, fun _ => by simp [mkOut], fun hs => by simp [mkOut] at hs, Or.inl rfl,
            by simp [mkOut]⟩
          · intro m hm; simp only [mkOut, Option.some.injEq] at hm; subst hm; exact hsol
          · intro ms hms; simp [mkOut] at hms
        · subst hs
          refine ⟨?_, ?_, fun hs => by simp [mkOut] at hs, fun _ => by simp [mkOut], fun hs => by simp [mkOut] at hs, Or.inl rfl,
            by simp [mkOut]⟩
          · intro m hm; simp only [mkOut, Option.some.injEq] at hm; subst hm; exact hsol
          · intro ms hms m hm; simp only [mkOut, Option.some.injEq] at hms; subst hms; exact hgood' m hm
      · rename_i hlimit
        have hsz : (L.all.push (readSol st1)).size = L.all.size + 1 := Array.size_push _
        have ca' : (L.all.push (readSol st1)).size ≤ P.solutionLimit := by
          simp only [ge_iff_le, Nat.not_le] at hlimit; omega
        split at hs
        · subst hs; exact finish_good _ _ _ (Or.inl ⟨rfl, by simp⟩) hgood'
        · obtain ⟨hr, ha2, hn2⟩ := blockSt_ready hinv1 hph1 hz1 (blockingOf st1) (blockingOf_mem st1)
          have hH2 := h_blockSt hH1 (blockingOf st1) (blockingOf_nz st1)
          have hE2 : EInv F (blockSt st1 (blockingOf st1)) L.ever :=
            einv_of_blocked (by rw [blockSt_nb]; omega)
          have hc2 := blockSt_cnt st1 (blockingOf st1)
          generalize blockSt st1 (blockingOf st1) = st2 at hr ha2 hn2 hs hH2 hE2 hc2
          obtain ⟨d2, c2, l2⟩ := hc2
          generalize hp : propagate st2 = pr at hs
          obtain ⟨st4, c⟩ := pr
          subst hs
          have hde : st2.decisions = L.st.decisions := by omega
          refine ⟨close st2 _ _ L.learnedTotal (L.iters + 1) hgood' hr hH2 (by rw [ha2, hasm1]) (by rw [hn2, e1.nVars]) hE2
            (fun hz' => by simp at hz') (by omega) (by omega) ca' ?_ (by omega) ?_
            st4 c hp _ rfl rfl rfl rfl rfl rfl, rfl⟩
          · rw [hn2, e1.nVars, hde, hsz]; exact d_step (by omega) cd hT
          · rw [hn2, e1.nVars]
            rcases creg with hq | hq
            · exact Or.inl (by omega)
            · exact Or.inr (by omega)
    · -- a decision
      rename_i hvar
      have hu : valAt st1 var = UNDEF := by
        rcases hv with h0 | h0
        · exact absurd (by simpa using h0) hvar
        · exact h0
      obtain ⟨hr, ha2, hn2⟩ := decideSt_ready hinv1 hph1 hz1 hu
      have hvarne : var ≠ 0 := fun e => hvar (by simpa using e)
      have hH2 := h_decideSt hHx hvarne (le_nVars_of_undef hHx hu)
      have hlp2 := hlp1.trans (lperm_decideSt st1 var)
      have hc2 := decideSt_cnt st1 var
      generalize decideSt st1 var = st2 at hr ha2 hn2 hs hH2 hlp2 hc2
      obtain ⟨d2, c2, l2, t2⟩ := hc2
      generalize hp : propagate st2 = pr at hs
      obtain ⟨st4, c⟩ := pr
      simp only at hs
      split at hs
      · rename_i hcf
        subst hs; exact finish_good _ _ _ (Or.inr ⟨rfl, Or.inl hcf⟩) hgood
      · rename_i hcf
        subst hs
        have hcnt := propagate_cnt st2
        rw [hp] at hcnt
        have q3 : st4.conflicts = st2.conflicts + pend c := hcnt.2.2
        have hlt : st2.conflicts < P.maxConflicts := by simp only [ge_iff_le, Nat.not_le] at hcf; omega
        refine ⟨close st2 L.all _ L.learnedTotal (L.iters + 1) hgood hr hH2 (by rw [ha2, hasm1]) (by rw [hn2, e1.nVars]) (hE.lperm hlp2)
          (fun hz' => by rw [hlp2.nb]; exact hnoblk hz') (by omega) (by omega) ca ?_ (by omega) (Or.inl hlt)
          st4 c hp _ rfl rfl rfl rfl rfl rfl, rfl⟩
        rw [hn2, e1.nVars]; omega

theorem LoopInv.iters_lt {F as P D0 L} (h : LoopInv F as P D0 L) :
    L.iters < loopFuel P.maxConflicts P.solutionLimit L.st.nVars := by
  have hT : L.st.trail.size ≤ L.st.nVars + 1 := by
    have ha := h.after
    cases hc : L.conflict with
    | ok => rw [hc] at ha; exact ha.1.trailLe
    | conflict i => rw [hc] at ha; obtain ⟨⟨k, hk⟩, _⟩ := ha; exact hk.trailLe
    | assumption => rw [hc] at ha; obtain ⟨k, hk⟩ := ha; exact hk.trailLe
    | fuel => exact absurd hc h.nf
  exact Cdcl.iters_lt h.c_it h.c_lt h.c_a h.c_d hT h.c_reg

/-- the loop, started with enough fuel for the iterations still to come, ends in a good result – in
particular not through its `FUEL` exit -/
theorem run_spec {F as} (P : Params) (D0 : Nat) (fuel0 : Nat) : ∀ (fuel : Nat) (L : Loop), LoopInv F as P D0 L →
    loopFuel P.maxConflicts P.solutionLimit L.st.nVars ≤ L.iters + fuel →
    OutGood F as P (run P fuel0 fuel L) := by
  intro fuel
  induction fuel with
  | zero => intro L h hf; have := h.iters_lt; omega
  | succ fuel ih =>
    intro L h hf
    unfold run
    have := step_spec P D0 fuel0 L h _ rfl
    split
    · rename_i o ho; rw [ho] at this; exact this
    · rename_i L' hL
      rw [hL] at this
      obtain ⟨h', hit⟩ := this
      refine ih L' h' ?_
      have e1 := h.nv
      have e2 := h'.nv
      rw [e2, ← e1]; omega

end Solvor.Sat.Cdcl
