import Solvor.Sat.CdclH2
/-! Sat.CdclH3: the heap / learned-clause invariant through the named sub-steps of the main loop and
the set-up code. -/
namespace Solvor.Sat.Cdcl

theorem unassignTo_nVars (st : St) (level : Nat) : (unassignTo st level).nVars = st.nVars ∧
    (unassignTo st level).nOrig = st.nOrig ∧ (unassignTo st level).learned = st.learned := by
  unfold unassignTo
  split
  · exact ⟨rfl, rfl, rfl⟩
  · simp only
    have key : ∀ (fuel : Nat) (s : St) (t : Nat), (popTrail t fuel s).nVars = s.nVars ∧ (popTrail t fuel s).nOrig = s.nOrig ∧
        (popTrail t fuel s).learned = s.learned := by
      intro fuel
      induction fuel with
      | zero => intro s t; exact ⟨rfl, rfl, rfl⟩
      | succ fuel ih =>
        intro s t
        unfold popTrail
        split
        · exact ⟨rfl, rfl, rfl⟩
        · obtain ⟨a, b, c⟩ := ih (popOne s) t
          obtain ⟨_, _, e3, e4, _, e6, _, _, _⟩ := popOne_fields s
          exact ⟨a.trans e3, b.trans e4, c.trans e6⟩
    obtain ⟨a, b, c⟩ := key st.trail.size { st with trailLim := st.trailLim.extract 0 level } st.trailLim[level]!
    exact ⟨a, b, c⟩

theorem h_learnAndJump {st} (h : HInv st) {lc : Array Int} (hlc : ∀ l ∈ lc.toList, l ≠ 0) (h0 : 0 < lc.size)
    (hvn : (lc[0]!).natAbs ≤ st.nVars) (bt lbd : Nat) : HInv (learnAndJump st lc bt lbd) := by
  unfold learnAndJump
  simp only
  have h1 := hinv_unassignTo h bt
  obtain ⟨n1, o1, l1⟩ := unassignTo_nVars st bt
  generalize unassignTo st bt = s1 at h1 n1 o1 l1
  have h2 : HInv { s1 with learned := s1.learned.push lc, lbd := s1.lbd.push lbd } :=
    hinv_pushLearned h1 lc hlc _ _
  have h3 := hinv_attach h2 lc (s1.nOrig + s1.learned.size) (Nat.le_add_right _ _)
    (by show s1.nOrig + s1.learned.size - s1.nOrig < (s1.learned.push lc).size; simp)
    (by show (s1.learned.push lc)[s1.nOrig + s1.learned.size - s1.nOrig]! = lc; rw [get!_push]; simp)
  have hnz : (lc[0]!).natAbs ≠ 0 := by
    have := hlc _ ((mem_toList_iff_get! _ _).2 ⟨0, h0, rfl⟩); omega
  obtain ⟨_, _, _, _, _, _, _, e8, _, _⟩ := attach_core { s1 with learned := s1.learned.push lc, lbd := s1.lbd.push lbd } lc
    (s1.nOrig + s1.learned.size)
  exact hinv_assign h3 hnz (by rw [e8]; show _ ≤ s1.nVars; rw [n1]; exact hvn) _ _

theorem h_restartSt {st} (h : HInv st) : HInv (restartSt st) := by
  unfold restartSt
  exact hinv_reduceDb (hinv_unassignTo (hinv_frame (st' := { st with restarts := st.restarts + 1 }) h rfl rfl rfl rfl rfl rfl rfl rfl rfl rfl) 0)

theorem h_blockSt {st} (h : HInv st) (blocking : Array Int)
    (hb : ∀ b ∈ blocking.toList, b ≠ 0 ∧ b.natAbs ≤ st.nVars) : HInv (blockSt st blocking) := by
  unfold blockSt
  simp only
  have h1 : HInv { st with learned := st.learned.push blocking, lbd := st.lbd.push 0, nBlocking := st.nBlocking + 1 } :=
    hinv_pushLearned h blocking (fun l hl => (hb l hl).1) _ _
  have h2 := hinv_unassignTo h1 0
  obtain ⟨n2, o2, l2⟩ := unassignTo_nVars
    { st with learned := st.learned.push blocking, lbd := st.lbd.push 0, nBlocking := st.nBlocking + 1 } 0
  generalize unassignTo { st with learned := st.learned.push blocking, lbd := st.lbd.push 0, nBlocking := st.nBlocking + 1 } 0 = s2
    at h2 n2 o2 l2
  split
  · rename_i hsz
    have hsz' : blocking.size = 1 := by simpa using hsz
    obtain ⟨b0, b1⟩ := hb _ ((mem_toList_iff_get! _ _).2 ⟨0, by omega, rfl⟩)
    exact hinv_assign h2 (by omega) (by rw [n2]; exact b1) _ _
  · exact hinv_attach h2 blocking (st.nOrig + st.learned.size) (by rw [o2]; exact Nat.le_add_right _ _)
      (by rw [o2, l2]; show st.nOrig + st.learned.size - st.nOrig < (st.learned.push blocking).size; simp)
      (by rw [o2, l2]; show (st.learned.push blocking)[st.nOrig + st.learned.size - st.nOrig]! = blocking
          rw [get!_push]; simp)

theorem blockingOf_nz (st : St) (b : Int) (hb : b ∈ (blockingOf st).toList) : b ≠ 0 ∧ b.natAbs ≤ st.nVars := by
  refine ⟨?_, (blockingOf_mem st b hb).1⟩
  unfold blockingOf at hb
  simp only [List.mem_filterMap, List.mem_range'_1] at hb
  obtain ⟨v, ⟨hv1, _⟩, hf⟩ := hb
  split at hf
  · simp only [Option.some.injEq] at hf
    rw [← hf]; split <;> (simp only [Int.ofNat_eq_coe]; omega)
  · cases hf

theorem h_decideSt {st var} (h : HInvX st var) (hv : var ≠ 0) (hvn : var ≤ st.nVars) : HInv (decideSt st var) := by
  unfold decideSt
  simp only
  exact hinv_assign_restore (hinv_frame (st' := { st with decisions := st.decisions + 1, trailLim := st.trailLim.push st.trail.size }) h rfl rfl rfl rfl rfl rfl rfl rfl rfl rfl) hv hvn _ _

/-! ### set-up -/

theorem foldl_heapPush_mem (f : Nat → Float × Nat) : ∀ (vs : List Nat) (h0 : Array (Float × Nat)) (e : Float × Nat),
    e ∈ (vs.foldl (fun h v => heapPush h (f v)) h0).toList ↔ e ∈ h0.toList ∨ ∃ v ∈ vs, e = f v := by
  intro vs
  induction vs with
  | nil => intro h0 e; simp
  | cons a t ih =>
    intro h0 e
    simp only [List.foldl_cons]
    rw [ih, mem_heapPush]
    constructor
    · rintro ((rfl | h) | ⟨v, hv, rfl⟩)
      · exact Or.inr ⟨a, List.mem_cons_self, rfl⟩
      · exact Or.inl h
      · exact Or.inr ⟨v, List.mem_cons_of_mem _ hv, rfl⟩
    · rintro (h | ⟨v, hv, rfl⟩)
      · exact Or.inl (Or.inr h)
      · rcases List.mem_cons.1 hv with rfl | hv
        · exact Or.inl (Or.inl rfl)
        · exact Or.inr ⟨v, hv, rfl⟩

theorem hinv_initSt (F : List (List Int)) (as : List Int) (N : Nat) (ha : ∀ a ∈ as, a ≠ 0) : HInv (initSt F as N) := by
  have hheap : ∀ e, e ∈ (initSt F as N).heap.toList ↔ ∃ v ∈ List.range' 1 N, e = (-(0.0 : Float), v) := by
    intro e
    have := foldl_heapPush_mem (fun v => (-(0.0 : Float), v)) (List.range' 1 N) #[] e
    simp only [List.not_mem_nil, false_or] at this
    have h0 : (#[] : Array (Float × Nat)).toList = [] := rfl
    unfold initSt; simp only
    rw [this]
  have hval : ∀ v, v ≤ N → valAt (initSt F as N) v = UNDEF := by
    intro v hv; unfold valAt initSt; simp only
    rw [get!_eq, Array.getElem?_replicate]; have : v < N + 1 := by omega
    simp [this]
  have hin : ∀ v, (initSt F as N).inHeap[v]! = true → v ≤ N := by
    intro v hv
    unfold initSt at hv; simp only at hv
    rw [get!_eq, Array.getElem?_replicate] at hv
    split at hv
    · omega
    · cases hv
  refine ⟨by simp [initSt], by simp [initSt], by intro v hv; simp [initSt] at hv, ?_, ?_, ?_, hval 0 (Nat.zero_le _),
    by simp [initSt], ha, by intro j hj; simp [initSt] at hj, ?_, ?_⟩
  · intro e he
    obtain ⟨v, hv, rfl⟩ := (hheap e).1 he
    simp only [List.mem_range'_1] at hv; exact hv.1
  · intro v hv1 hv2
    have := hin v hv2
    exact ⟨(-(0.0 : Float), v), (hheap _).2 ⟨v, by simp [List.mem_range'_1]; omega, rfl⟩, rfl⟩
  · intro v hv1 hv2 _ _
    unfold initSt; simp only
    rw [get!_eq, Array.getElem?_replicate]
    have : v < N + 1 := by
      have : v ≤ N := hv2
      omega
    simp [this]
  · intro l idx hidx
    have : wl (initSt F as N) l = [] := by
      unfold wl watchOf initSt; simp only
      rw [get!_eq, Array.getElem?_replicate]; split <;> rfl
    rw [this] at hidx; cases hidx
  · intro l e he
    have : il (initSt F as N) l = [] := by
      unfold il implications initSt; simp only
      rw [get!_eq, Array.getElem?_replicate]; split <;> rfl
    rw [this] at he; cases he

theorem h_loadClauses : ∀ (rest : List (List Int)) (i : Nat) (st : St) (units : List (Int × Nat)) (st' : St)
    (us : List (Int × Nat)), HInv st → (∀ c ∈ rest, ∀ l ∈ c, l ≠ 0) → (∀ e ∈ units, e.1 ≠ 0) →
    i + rest.length ≤ st.nOrig → loadClauses rest i st units = some (st', us) →
    HInv st' ∧ ∀ e ∈ us, e.1 ≠ 0 := by
  intro rest
  induction rest with
  | nil =>
    intro i st units st' us h _ hu _ hs
    simp only [loadClauses, Option.some.injEq, Prod.mk.injEq] at hs
    obtain ⟨rfl, rfl⟩ := hs
    exact ⟨h, fun e he => hu e (List.mem_reverse.1 he)⟩
  | cons c rest ih =>
    intro i st units st' us h hnz hu hi hs
    have hrest : ∀ c' ∈ rest, ∀ l ∈ c', l ≠ 0 := fun c' hc' => hnz c' (List.mem_cons_of_mem _ hc')
    have hc := hnz c List.mem_cons_self
    have hi' : i + 1 + rest.length ≤ st.nOrig := by simp at hi; omega
    have hlt : i < st.nOrig := by simp at hi; omega
    unfold loadClauses at hs
    match c, hs, hc with
    | [], hs, _ => simp at hs
    | [a], hs, hc =>
      simp only at hs
      exact ih (i + 1) st _ st' us h hrest (by
        intro e he
        rcases List.mem_cons.1 he with rfl | he
        · exact hc a (by simp)
        · exact hu e he) hi' hs
    | [a, b], hs, hc =>
      simp only at hs
      exact ih (i + 1) _ units st' us (hinv_bigAdd h (hc a (by simp)) (hc b (by simp)) i) hrest hu hi' hs
    | a :: b :: d :: t, hs, hc =>
      simp only at hs
      have hok : st.nOrig ≤ i → i - st.nOrig < st.learned.size ∧ 2 ≤ (st.learned[i - st.nOrig]!).size := fun hh => by omega
      exact ih (i + 1) _ units st' us (hinv_addWatch (hinv_addWatch h a i hok) b i hok) hrest hu hi' hs

theorem pureList_pos (n : Nat) (F : List (List Int)) (as : List Int) : ∀ p ∈ pureList n F as, 1 ≤ p.1 := by
  intro p hp
  unfold pureList at hp
  simp only [List.mem_filterMap, List.mem_range'_1] at hp
  obtain ⟨v, ⟨hv1, _⟩, hf⟩ := hp
  split at hf
  · cases hf; exact hv1
  · split at hf
    · cases hf; exact hv1
    · cases hf

theorem h_foldAssign : ∀ (ps : List (Nat × Bool)) (st : St), HInv st → (∀ p ∈ ps, 1 ≤ p.1) →
    HInv (ps.foldl (fun st (p : Nat × Bool) => if st.vals[p.1]! == UNDEF then assign st p.1 p.2 (-1) else st) st) := by
  intro ps
  induction ps with
  | nil => intro st h _; exact h
  | cons p t ih =>
    intro st h hp
    simp only [List.foldl_cons]
    have ht : ∀ q ∈ t, 1 ≤ q.1 := fun q hq => hp q (List.mem_cons_of_mem _ hq)
    split
    · rename_i hu
      have hu' : valAt st p.1 = UNDEF := by simpa [valAt] using hu
      have := hp p List.mem_cons_self
      exact ih _ (hinv_assign h (by omega) (le_nVars_of_undef h hu') _ _) ht
    · exact ih _ h ht

theorem h_loadUnits : ∀ (us : List (Int × Nat)) (st st' : St), HInv st → (∀ e ∈ us, e.1 ≠ 0) →
    loadUnits us st = some st' → HInv st' := by
  intro us
  induction us with
  | nil => intro st st' h _ hs; simp only [loadUnits, Option.some.injEq] at hs; subst hs; exact h
  | cons e t ih =>
    intro st st' h hnz hs
    obtain ⟨lit, idx⟩ := e
    have hl : lit ≠ 0 := hnz (lit, idx) List.mem_cons_self
    have ht : ∀ e ∈ t, e.1 ≠ 0 := fun e he => hnz e (List.mem_cons_of_mem _ he)
    unfold loadUnits at hs
    split at hs
    · rename_i hu
      have hu' : valAt st lit.natAbs = UNDEF := by simpa [valAt] using hu
      exact ih _ _ (hinv_assign h (by omega) (le_nVars_of_undef h hu') _ _) ht hs
    · split at hs
      · cases hs
      · exact ih _ _ h ht hs

end Solvor.Sat.Cdcl
