#!/usr/bin/env python3
"""developer aid: run each confirmed seeded change in /verif/seeded/<id>/ against the check of its property
(patch applied to /repo, quick tier, patch undone), record the outcome in seeded/<id>/detect.json and
write seeded/RESULTS.md.  Evidence/replays of these runs go to /tmp/verif_mut (never into /verif/evidence)."""
import json, os, re, subprocess, sys, time
from pathlib import Path

V = Path(__file__).resolve().parent.parent
IN_REPO = "--in-repo" in sys.argv  # apply to /repo itself (the brief's procedure); default: scratch worktree
only = set(a for a in sys.argv[1:] if not a.startswith("--"))
rows = []
for d in sorted((V / "seeded").iterdir()):
    if not d.is_dir() or not (d / "patch.diff").exists():
        continue
    meta = json.loads((d / "meta.json").read_text())
    prop = meta.get("property", d.name.split("_")[0])
    prop = re.search(r"C\d\d", str(prop)).group(0)
    det = d / "detect.json"
    if only and d.name not in only and prop not in only:
        if det.exists():
            rows.append(json.loads(det.read_text()))
        continue
    out = Path("/tmp/verif_mut") / d.name
    env = dict(os.environ, VERIF_EVIDENCE_DIR=str(out / "evidence"), VERIF_REPLAYS_DIR=str(out / "replays"))
    tree = "/repo"
    if not IN_REPO:
        tree = f"/tmp/verif_seedmx_wt_{os.getpid()}"
        subprocess.run(["git", "-C", "/repo", "worktree", "add", "--detach", tree, "-q"], check=True)
        env["SOLVOR_REPO"] = tree
    if subprocess.run(["git", "-C", tree, "apply", "--check", str(d / "patch.diff")]).returncode != 0:
        rec = {"id": d.name, "property": prop, "result": "patch no longer applies to /repo HEAD"}
        if not IN_REPO:
            subprocess.run(["git", "-C", "/repo", "worktree", "remove", "--force", tree])
    else:
        subprocess.run(["git", "-C", tree, "apply", str(d / "patch.diff")], check=True)
        t0 = time.time()
        try:
            p = subprocess.run([str(V / "check"), prop, "--tier", "quick"], cwd=V, env=env, capture_output=True, text=True,
                               timeout=1800)
            lines = [l for l in p.stdout.splitlines() if l.startswith(("VIOLATION", "KNOWN-FINDING"))]
            viol = [l for l in lines if l.startswith("VIOLATION")]
            kind = ("not detected" if p.returncode == 0 else
                    "infrastructure failure" if p.returncode == 2 else
                    "detected: no-failing-input-found only" if all("no-failing-input-found" in l for l in viol) else
                    "detected with a concrete failing input")
            rec = {"id": d.name, "property": prop, "check": f"./check {prop} --tier quick", "exit": p.returncode,
                   "result": kind, "violation_lines": viol[:3], "wall_s": round(time.time() - t0, 1),
                   "title": meta.get("title", "")}
        finally:
            if IN_REPO:
                subprocess.run(["git", "-C", "/repo", "checkout", "--", "."], check=True)
            else:
                subprocess.run(["git", "-C", "/repo", "worktree", "remove", "--force", tree])
            subprocess.run(["/venv/bin/python", str(V / "harness" / "kernels.py")], capture_output=True)
    det.write_text(json.dumps(rec, indent=1))
    rows.append(rec)
    print(rec["id"], rec.get("exit"), rec["result"], flush=True)
md = ["# Seeded changes and what catches them", "",
      "Each directory holds `patch.diff` (applies to /repo HEAD), `demo.py` (fails with the change, passes without),",
      "`meta.json` (what it breaks, what it needs to manifest, what was run, the lead's confirmation) and `detect.json`",
      "(outcome of the registered quick check with the patch applied). Written by independent sub-agents that saw only the",
      "property text; confirmed by `tools/verify_seed.sh`; matrix produced by `tools/seed_matrix.py`.", "",
      "| id | property | what | quick check result |", "|---|---|---|---|"]
for r in rows:
    md.append(f"| {r['id']} | {r['property']} | {r.get('title','')[:110]} | {r['result']} |")
(V / "seeded" / "RESULTS.md").write_text("\n".join(md) + "\n")
