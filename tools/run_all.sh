#!/bin/bash
# developer aid: run every claimed check (quick tier by default) with several seeds; prints rc and wall time
# usage: tools/run_all.sh [tier] [seeds...]
cd "$(dirname "$0")/.."
tier=${1:-quick}; shift
seeds=${@:-0}
for id in $(python3 -c "import json; print(' '.join(c['property_id'] for c in json.load(open('MANIFEST.json'))['checks']))"); do
  for s in $seeds; do
    t0=$(date +%s.%N)
    out=$(VERIF_SEED=$s ./check $id --tier $tier 2>&1); rc=$?
    t1=$(date +%s.%N)
    printf "%s seed=%s rc=%s %.1fs %s\n" $id $s $rc $(echo "$t1 - $t0" | bc) "$(echo "$out" | grep -E 'VIOLATION|KNOWN-FINDING|INFRA' | head -3 | tr '\n' ' ')"
  done
done
