#!/bin/bash
# developer aid: confirm a seeded change in a scratch worktree (outside /repo and /verif):
#   demo passes on the unchanged tree, patch applies, demo fails with it, existing suite still passes.
# usage: tools/verify_seed.sh <dir with patch.diff demo.py meta.json> <seed id>   -> copies to /verif/seeded/<id>/ when confirmed
src=$(realpath "$1"); id=$2
wt=/tmp/verify_seed_$id
git -C /repo worktree remove --force $wt 2>/dev/null
git -C /repo worktree add --detach $wt -q || exit 3
cd $wt
PYTHONPATH=$wt timeout 900 /venv/bin/python $src/demo.py > /tmp/verify_seed_$id.base.log 2>&1; base=$?
git apply $src/patch.diff || { echo "$id: patch does not apply"; git -C /repo worktree remove --force $wt; exit 3; }
PYTHONPATH=$wt timeout 900 /venv/bin/python $src/demo.py > /tmp/verify_seed_$id.mut.log 2>&1; mut=$?
PYTHONPATH=$wt timeout 3000 /venv/bin/python -m pytest -q -p no:cacheprovider -n ${NPROC:-6} --timeout=900 tests --deselect tests/test_docs.py::test_mkdocs_builds 2>&1 | tail -3 > /tmp/verify_seed_$id.suite.log; 
suite=$(tail -1 /tmp/verify_seed_$id.suite.log)
cd /; git -C /repo worktree remove --force $wt
ok=no
if [ $base -eq 0 ] && [ $mut -ne 0 ] && echo "$suite" | grep -q "passed" && ! echo "$suite" | grep -q "failed"; then ok=yes; fi
echo "$id: demo_unchanged=$base demo_with_change=$mut suite='$suite' confirmed=$ok"
if [ $ok = yes ]; then
  mkdir -p /verif/seeded/$id
  cp $src/patch.diff $src/demo.py /verif/seeded/$id/
  python3 - "$src/meta.json" "/verif/seeded/$id/meta.json" "$base" "$mut" "$suite" <<'PY'
import json,sys
m=json.load(open(sys.argv[1]))
m["confirmed_by_lead"]={"demo_exit_unchanged":int(sys.argv[3]),"demo_exit_with_change":int(sys.argv[4]),"suite_with_change":sys.argv[5],
  "how":"tools/verify_seed.sh: scratch worktree of /repo HEAD; demo.py run before and after `git apply patch.diff`; full pytest suite run with the change (tests/test_docs.py::test_mkdocs_builds deselected: it fails on the unchanged tree too)"}
json.dump(m,open(sys.argv[2],"w"),indent=1)
PY
fi
rm -f /tmp/verify_seed_$id.*.log
