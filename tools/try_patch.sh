#!/bin/bash
# developer aid: apply a seeded patch to /repo, run the given checks (quick), undo the patch.
# Evidence and replays of these runs go to /tmp/verif_mut/<name>/ so committed evidence is never polluted.
# usage: tools/try_patch.sh <patch.diff> <Cxx> [Cyy ...]
patch=$(realpath "$1"); shift
name=$(basename "$(dirname "$patch")")_$(basename "$(dirname "$(dirname "$patch")")")
out=/tmp/verif_mut/$name; mkdir -p "$out"
cd /verif
git -C /repo apply "$patch" || { echo "patch does not apply"; exit 3; }
for id in "$@"; do
  t0=$(date +%s)
  res=$(VERIF_EVIDENCE_DIR=$out/evidence VERIF_REPLAYS_DIR=$out/replays ./check $id --tier ${TIER:-quick} 2>&1); rc=$?
  echo "$id rc=$rc $(( $(date +%s) - t0 ))s :: $(echo "$res" | grep -E 'VIOLATION|KNOWN|INFRA' | head -3 | tr '\n' ' ')"
done
git -C /repo checkout -- .
# the regenerated slice may have been rewritten from the patched source: put it back
/venv/bin/python harness/kernels.py > /dev/null
