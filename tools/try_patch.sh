#!/bin/bash
# developer aid: run the given checks (quick) against a scratch worktree of /repo HEAD with a seeded patch applied.
# (The brief's procedure - apply to /repo, run, undo - is what tools/seed_matrix.py --in-repo does; a worktree is used
#  here because other builders may be running checks against /repo at the same time.)
# Evidence and replays go to /tmp/verif_mut/<name>/ so committed evidence is never polluted.
# usage: tools/try_patch.sh <patch.diff> <Cxx> [Cyy ...]
patch=$(realpath "$1"); shift
name=$(basename "$(dirname "$patch")")_$(basename "$(dirname "$(dirname "$patch")")")
out=/tmp/verif_mut/$name; mkdir -p "$out"
wt=/tmp/verif_mut_wt_$$
git -C /repo worktree add --detach $wt -q || exit 3
git -C $wt apply "$patch" || { echo "patch does not apply"; git -C /repo worktree remove --force $wt; exit 3; }
cd /verif
for id in "$@"; do
  t0=$(date +%s)
  res=$(SOLVOR_REPO=$wt VERIF_EVIDENCE_DIR=$out/evidence VERIF_REPLAYS_DIR=$out/replays ./check $id --tier ${TIER:-quick} 2>&1); rc=$?
  echo "$id rc=$rc $(( $(date +%s) - t0 ))s :: $(echo "$res" | grep -E 'VIOLATION|KNOWN|INFRA' | head -3 | tr '\n' ' ')"
done
git -C /repo worktree remove --force $wt
/venv/bin/python harness/kernels.py > /dev/null
