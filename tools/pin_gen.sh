#!/bin/bash
# developer aid: refresh the pinned copies of the regenerated slice (run on the unchanged /repo only)
cd "$(dirname "$0")/.."
/venv/bin/python harness/kernels.py
mkdir -p lean/Solvor/Gen/pinned
for f in lean/Solvor/Gen/*.lean; do cp "$f" "lean/Solvor/Gen/pinned/$(basename "$f").txt"; done
ls lean/Solvor/Gen/pinned
